(* Properties_C01.v -- C01: the LHA static-Huffman methods decode every valid
   stream exactly.  The specification (LZ77 semantics, canonical codes, stream
   descriptions with all table forms, serialiser, wf predicate) is S_LhNew.v.
   What is proved so far are the facts the round trip rests on; the round trip
   itself ([lhnew_roundtrip], stated below as a comment) is decided by the
   direct oracle of the check (C output = extracted spec expansion on streams
   produced by the extracted serialiser) until its proof is complete. *)
From Lhasa Require Import Base ListN DecBase BitReader Tree S_Larc S_LhNew P_S_LhNew P_BitReader P_Tree.
Local Open Scope N_scope.

(* The fast expansion used by the checks is the reference LZ77 semantics
   (window pre-filled with spaces, byte-by-byte copies). *)
Theorem lz77_expand_is_reference : forall cmds, lz77_expand cmds = lz77_expand_ref cmds.
Proof. exact lz77_expand_eq_ref. Qed.

(* A stream is the concatenation of its blocks' bits. *)
Theorem serialise_is_blockwise : forall v s, serialise_stream v s = flat_map (block_bits v) s.
Proof. exact serialise_stream_flat_map. Qed.

(* Bit-reader refinement: reading n <= 25 bits from a byte source returns the next
   n bits MSB-first and advances the pending bit string by exactly n. *)
Theorem read_bits_refines_bitstring : forall r s n v rest,
  bsr_wf r -> src_ok s -> N.of_nat n <= 25 -> v < 2 ^ N.of_nat n ->
  pending r s = bits_of n v ++ rest ->
  exists r' s', read_bits src_cb r s (N.of_nat n) = Ok (Some v, r', s') /\
                bsr_wf r' /\ src_ok s' /\ pending r' s' = rest.
Proof. exact read_bits_src_prefix. Qed.

(* Full statement (not yet proved; checked on every run by the direct oracle):
   lhnew_roundtrip : forall v sd pad ks, wf_stream v sd = true ->
     let out := lz77_expand (denote sd) in nlen out <= sum_N ks ->
     concat (outputs (run_reads (lhnew decoder of v) (bytes (serialise_stream v sd) ++ pad) (nlen out)) ks) = out. *)

Print Assumptions lz77_expand_is_reference.
Print Assumptions serialise_is_blockwise.
Print Assumptions read_bits_refines_bitstring.

(* Properties_C01.v -- C01: the LHA static-Huffman methods decode every valid
   stream exactly.  The specification (LZ77 semantics, canonical codes, stream
   descriptions with all table forms, serialiser, wf predicate) is S_LhNew.v.
   The round trip is proved in full for all six decoders (lhnew_roundtrip and its
   instances; proof in P_LhNewRt.v): every well-formed stream description -- any
   number of blocks, temp/code/offset tables in every form (single-code, explicit
   lengths with the skip field, the three zero-run classes, clamped last runs),
   every length/distance class incl. LHARK's --, any trailing bytes, any read
   schedule covering the output decodes to exactly what its commands denote.
   The size bound (input below 2^27 bytes) is the model's loop fuel. *)
From Lhasa Require Import Base ListN DecBase BitReader Tree Generated LhNew Decoder S_Larc S_LhNew P_S_LhNew P_BitReader P_Tree
  P_Decoder P_LhNew P_LhNewRt.
Local Open Scope N_scope.

(* The fast expansion used by the checks is the reference LZ77 semantics
   (window pre-filled with spaces, byte-by-byte copies). *)
Theorem lz77_expand_is_reference : forall cmds, lz77_expand cmds = lz77_expand_ref cmds.
Proof. exact lz77_expand_eq_ref. Qed.

(* A stream is the concatenation of its blocks' bits. *)
Theorem serialise_is_blockwise : forall v s, serialise_stream v s = flat_map (block_bits v) s.
Proof. exact serialise_stream_flat_map. Qed.

(* Bit-reader refinement: reading n <= 25 bits from a byte source returns the next
   n bits MSB-first and advances the pending bit string by exactly n. *)
Theorem read_bits_refines_bitstring : forall r s n v rest,
  bsr_wf r -> src_ok s -> N.of_nat n <= 25 -> v < 2 ^ N.of_nat n ->
  pending r s = bits_of n v ++ rest ->
  exists r' s', read_bits src_cb r s (N.of_nat n) = Ok (Some v, r', s') /\
                bsr_wf r' /\ src_ok s' /\ pending r' s' = rest.
Proof. exact read_bits_src_prefix. Qed.

(* The round trip, for any decoder parameters that instantiate a stream variant
   (variant_params ties window size, table sizes, thresholds and the LHARK flag of
   the regenerated C constants to the specification's variant) *)
Theorem lhnew_roundtrip : forall (v : variant) (P : lhnew_params) block_size sd tail s0 ks,
  variant_params v P ->
  wf_stream v sd = true -> Forall (fun b => b < 256) tail -> lhnew_init P = Ok s0 ->
  let out := lz77_expand (denote sd) in
  nlen out <= sum_N ks -> sum_N ks < 2 ^ 62 ->
  8 * nlen (serialise_bytes v sd ++ tail) < 2 ^ 30 ->
  exists os d',
    run_reads (lhnew_read src_cb P) (p_max_read P) block_size
      (lha_decoder_new s0 {| src_data := serialise_bytes v sd ++ tail; src_chunks := [] |} (nlen out)) ks
      = Ok (os, d') /\
    concat os = out.
Proof. exact lhnew_roundtrip_total. Qed.

(* the six decoders of the C's table instantiate the six variants *)
Theorem all_variants_instantiated :
  variant_params v_lh4 lh4_params /\ variant_params v_lh5 lh5_params /\ variant_params v_lh6 lh6_params /\
  variant_params v_lh7 lh7_params /\ variant_params v_lhx lhx_params /\ variant_params v_lk7 lk7_params.
Proof.
  split; [exact variant_params_lh4|]. split; [exact variant_params_lh5|]. split; [exact variant_params_lh6|].
  split; [exact variant_params_lh7|]. split; [exact variant_params_lhx|exact variant_params_lk7].
Qed.

Theorem lh5_roundtrip : forall sd tail s0 ks os d',
  wf_stream v_lh5 sd = true -> Forall (fun b => b < 256) tail -> lh5_init = Ok s0 ->
  let out := lz77_expand (denote sd) in
  nlen out <= sum_N ks -> sum_N ks < 2 ^ 62 -> 8 * nlen (serialise_bytes v_lh5 sd ++ tail) < 2 ^ 30 ->
  run_reads (lh5_read src_cb) lh5_max_read lh5_block_size
    (lha_decoder_new s0 {| src_data := serialise_bytes v_lh5 sd ++ tail; src_chunks := [] |} (nlen out)) ks
    = Ok (os, d') ->
  concat os = out.
Proof. exact P_LhNewRt.lh5_roundtrip. Qed.

Theorem lk7_roundtrip : forall sd tail s0 ks os d',
  wf_stream v_lk7 sd = true -> Forall (fun b => b < 256) tail -> lk7_init = Ok s0 ->
  let out := lz77_expand (denote sd) in
  nlen out <= sum_N ks -> sum_N ks < 2 ^ 62 -> 8 * nlen (serialise_bytes v_lk7 sd ++ tail) < 2 ^ 30 ->
  run_reads (lk7_read src_cb) lk7_max_read lk7_block_size
    (lha_decoder_new s0 {| src_data := serialise_bytes v_lk7 sd ++ tail; src_chunks := [] |} (nlen out)) ks
    = Ok (os, d') ->
  concat os = out.
Proof. exact P_LhNewRt.lk7_roundtrip. Qed.

Print Assumptions lz77_expand_is_reference.
Print Assumptions serialise_is_blockwise.
Print Assumptions read_bits_refines_bitstring.
Print Assumptions lhnew_roundtrip.
Print Assumptions all_variants_instantiated.
Print Assumptions lh5_roundtrip.
Print Assumptions lk7_roundtrip.

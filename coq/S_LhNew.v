(* S_LhNew.v -- specification side for C01: the "new style" LHA methods
   -lh4- -lh5- -lh6- -lh7- -lhx- and LHARK's -lh7- (-lk7-).

     1. what a list of literal / copy commands denotes (LZ77, window of spaces)
     2. canonical prefix codes (closed form: the codeword of a symbol is the
        number of code space units taken by the symbols that come before it
        in (length, index) order)
     3. stream descriptions: blocks, the three per-block tables in every form
        the format allows, and boolean well-formedness predicates
     4. the serialiser (an ENCODER: description -> bits)
     5. a helper that builds a description from a command list (auto_stream)

   Written from the format, not from the decoder's code: there is no tree,
   no bit buffer and no ring buffer here.  Definitions only. *)
From Lhasa Require Import Base S_Larc.
Local Open Scope N_scope.

(* ================================================================== *)
(* 1. LZ77 semantics                                                   *)

Inductive cmd : Type :=
| Lit (b : N)                  (* one byte *)
| Copy (dist len : N).         (* len bytes, the first one taken dist+1 bytes back *)

(* constructors under names that are unique in the extracted program *)
Definition lhn_lit (b : N) : cmd := Lit b.
Definition lhn_copy (dist len : N) : cmd := Copy dist len.

(* Reference semantics on lists only: the output so far is kept reversed
   (most recent byte first), so "dist+1 bytes back" is element number dist;
   positions before the start of the output read as a space.  One byte at a
   time, hence a copy may read bytes that it has itself produced. *)
Fixpoint lz_copy_ref (k : nat) (out_rev : list N) (dist : N) : list N :=
  match k with
  | O => out_rev
  | S k' => lz_copy_ref k' (nth (N.to_nat dist) out_rev 32 :: out_rev) dist
  end.
Definition lz_step_ref (out_rev : list N) (c : cmd) : list N :=
  match c with
  | Lit b => b :: out_rev
  | Copy dist len => lz_copy_ref (N.to_nat len) out_rev dist
  end.
Definition lz77_expand_ref (cmds : list cmd) : list N :=
  rev (fold_left lz_step_ref cmds []).

(* The same function made fast: next to the reversed output, all output so
   far is kept in a trie indexed by absolute position. *)
Record lzst := { z_win : arr; z_n : N; z_rev : list N }.

Definition lz_init : lzst := {| z_win := mk_arr 0 32; z_n := 0; z_rev := [] |}.

Definition lz_back (s : lzst) (dist : N) : N :=
  if dist <? z_n s then aget (z_win s) (z_n s - 1 - dist) else 32.

Definition lz_put (s : lzst) (b : N) : lzst :=
  {| z_win := aset (z_win s) (z_n s) b; z_n := z_n s + 1; z_rev := b :: z_rev s |}.

Fixpoint lz_copy (k : nat) (s : lzst) (dist : N) : lzst :=
  match k with
  | O => s
  | S k' => lz_copy k' (lz_put s (lz_back s dist)) dist
  end.

Definition lz_step (s : lzst) (c : cmd) : lzst :=
  match c with
  | Lit b => lz_put s b
  | Copy dist len => lz_copy (N.to_nat len) s dist
  end.

Definition lz77_expand (cmds : list cmd) : list N :=
  rev_append (z_rev (fold_left lz_step cmds lz_init)) [].

(* ================================================================== *)
(* 2. Canonical prefix codes                                           *)

(* A code is given by its lengths: symbol index -> length, 0 = unused. *)
Definition len_of (lens : list N) (s : N) : N := nth (N.to_nat s) lens 0.

(* Symbol t (length lt) comes before symbol s (length L) when it is used and
   shorter, or equally long with a smaller index. *)
Definition code_before (lt t L s : N) : bool :=
  (0 <? lt) && ((lt <? L) || ((lt =? L) && (t <? s))).

(* Sum over the symbols t (numbered from t0 on) that come before s of
   2^(L - length t): each such symbol takes that many codewords of length L. *)
Fixpoint code_value_from (ls : list N) (t L s : N) : N :=
  match ls with
  | [] => 0
  | lt :: r =>
    (if code_before lt t L s then N.shiftl 1 (L - lt) else 0) + code_value_from r (t + 1) L s
  end.

Definition code_value (lens : list N) (s : N) : N :=
  code_value_from lens 0 (len_of lens s) s.

(* the codeword of symbol s, first bit first *)
Definition canonical_code (lens : list N) (s : N) : list bool :=
  bits_of (N.to_nat (len_of lens s)) (code_value lens s).

Definition max_len (lens : list N) : N := fold_right N.max 0 lens.

Definition used_count (lens : list N) : N := nlen (filter (fun l => 0 <? l) lens).

(* sum over the used symbols of 2^(M - length) *)
Fixpoint kraft_num (lens : list N) (M : N) : N :=
  match lens with
  | [] => 0
  | l :: r => (if 0 <? l then N.shiftl 1 (M - l) else 0) + kraft_num r M
  end.

(* Kraft sum exactly 1 (and therefore at least two used symbols) *)
Definition complete_code (lens : list N) : bool :=
  let M := max_len lens in
  (2 <=? used_count lens) && (kraft_num lens M =? N.shiftl 1 M).

(* A table is either a complete code or the single-symbol form, in which
   the one symbol has the empty codeword. *)
Inductive table : Type :=
| TabSingle (sym : N)
| TabLens (lens : list N).

Definition tab_ok (t : table) : bool :=
  match t with TabSingle _ => true | TabLens lens => complete_code lens end.
Definition tab_has (t : table) (s : N) : bool :=
  match t with TabSingle x => s =? x | TabLens lens => 0 <? len_of lens s end.
Definition tab_code (t : table) (s : N) : list bool :=
  match t with TabSingle _ => [] | TabLens lens => canonical_code lens s end.

(* The same with the (length, value) pairs of all symbols computed once. *)
Inductive ptable : Type :=
| PSingle (sym : N)
| PLens (plen pval : arr).

Fixpoint code_values_from (all ls : list N) (s : N) : list N :=
  match ls with
  | [] => []
  | l :: r => (if 0 <? l then code_value_from all 0 l s else 0) :: code_values_from all r (s + 1)
  end.

Definition tab_prepare (t : table) : ptable :=
  match t with
  | TabSingle x => PSingle x
  | TabLens lens => PLens (arr_of_list 0 lens) (arr_of_list 0 (code_values_from lens lens 0))
  end.
Definition ptab_code (t : ptable) (s : N) : list bool :=
  match t with
  | PSingle _ => []
  | PLens pl pv => bits_of (N.to_nat (aget pl s)) (aget pv s)
  end.

(* ================================================================== *)
(* 3. Variants and stream descriptions                                 *)

Record variant : Type := {
  v_history_bits : N;     (* window = 2^history_bits bytes *)
  v_offset_bits : N;      (* width of the offset table's count field *)
  v_num_codes : N;        (* size of the command alphabet *)
  v_lhark : bool          (* LHARK's length / distance classes *)
}.

Definition v_lh5 : variant := {| v_history_bits := 14; v_offset_bits := 4; v_num_codes := 510; v_lhark := false |}.
Definition v_lh4 : variant := v_lh5.     (* same format; decoded by the same parameters *)
Definition v_lh6 : variant := {| v_history_bits := 16; v_offset_bits := 5; v_num_codes := 510; v_lhark := false |}.
Definition v_lh7 : variant := {| v_history_bits := 17; v_offset_bits := 5; v_num_codes := 510; v_lhark := false |}.
Definition v_lhx : variant := {| v_history_bits := 20; v_offset_bits := 5; v_num_codes := 510; v_lhark := false |}.
Definition v_lk7 : variant := {| v_history_bits := 16; v_offset_bits := 6; v_num_codes := 289; v_lhark := true |}.

Definition TEMP_COUNT_BITS : N := 5.
Definition MAX_TEMP : N := 31.            (* 2^5 - 1 temp symbols at most: 0..30 *)
Definition CODE_COUNT_BITS : N := 9.
Definition max_offset_codes (v : variant) : N := N.shiftl 1 (v_offset_bits v) - 1.

(* --- the temp table: the code in which the code table's lengths are sent.
   Temp symbols 0, 1, 2 are the three zero-run classes; temp symbol k + 2
   stands for code length k.
     TSingle sym        count field 0, then the symbol in 5 bits
     TLens n lens skip  count field n; [lens] are the lengths that are sent
                        explicitly; after the third one comes a 2-bit field
                        [skip]: that many further symbols have length 0 and
                        are not sent (they count towards n). *)
Inductive temp_desc : Type :=
| TSingle (sym : N)
| TLens (n : N) (lens : list N) (skip : N).

(* number of explicitly sent lengths for count n and skip value k *)
Definition temp_explicit (n skip : N) : N :=
  if n <? 3 then n else 3 + (n - 3 - skip).

Definition temp_lens (n : N) (lens : list N) (skip : N) : list N :=
  if n <? 3 then lens
  else firstn 3 lens ++ repeat 0 (N.to_nat skip) ++ skipn 3 lens.

Definition temp_table (d : temp_desc) : table :=
  match d with
  | TSingle s => TabSingle s
  | TLens n lens skip => TabLens (temp_lens n lens skip)
  end.

(* --- the code table (literals and copy lengths), sent as tokens *)
Inductive ctok : Type :=
| Len (l : N)           (* the next symbol has length l >= 1 *)
| Zero1                 (* the next symbol is unused *)
| ZeroShort (k : N)     (* the next k symbols are unused, 3 <= k <= 18 *)
| ZeroLong (k : N).     (* the next k symbols are unused, 20 <= k <= 531 *)

Inductive code_desc : Type :=
| CSingle (sym : N)                      (* count field 0, symbol in 9 bits *)
| CTokens (n : N) (toks : list ctok).    (* count field n, then the tokens *)

Definition tok_temp_sym (t : ctok) : N :=
  match t with Len l => l + 2 | Zero1 => 0 | ZeroShort _ => 1 | ZeroLong _ => 2 end.
Definition tok_span (t : ctok) : N :=
  match t with Len _ => 1 | Zero1 => 1 | ZeroShort k => k | ZeroLong k => k end.
Definition tok_lens (t : ctok) : list N :=
  match t with
  | Len l => [l]
  | Zero1 => [0]
  | ZeroShort k => repeat 0 (N.to_nat k)
  | ZeroLong k => repeat 0 (N.to_nat k)
  end.
Definition tok_ok (t : ctok) : bool :=
  match t with
  | Len l => 1 <=? l
  | Zero1 => true
  | ZeroShort k => (3 <=? k) && (k <=? 18)
  | ZeroLong k => (20 <=? k) && (k <=? 531)
  end.

(* the lengths of symbols 0 .. n-1 (a final zero run may reach past n) *)
Definition code_lens (n : N) (toks : list ctok) : list N :=
  firstn_N n (flat_map tok_lens toks).

Definition code_table (d : code_desc) : table :=
  match d with
  | CSingle s => TabSingle s
  | CTokens n toks => TabLens (code_lens n toks)
  end.

(* every token but the last starts before symbol n, and the tokens reach n *)
Fixpoint toks_cover (n : N) (toks : list ctok) (pos : N) : bool :=
  match toks with
  | [] => n <=? pos
  | t :: r => (pos <? n) && toks_cover n r (pos + tok_span t)
  end.

(* --- the offset table (distance classes) *)
Inductive off_desc : Type :=
| OSingle (sym : N)         (* count field 0, symbol in offset_bits bits *)
| OLens (lens : list N).    (* count field = number of lengths, then the lengths *)

Definition off_table (d : off_desc) : table :=
  match d with
  | OSingle s => TabSingle s
  | OLens lens => TabLens lens
  end.

(* --- blocks and streams.  A command carries a flag that selects the
   alternative code of copy length 514 in -lk7- (which has two: class 287
   with all six extra bits set, and the dedicated symbol 288); the flag is
   false everywhere else. *)
Record block : Type := {
  b_cmds : list (cmd * bool);
  b_temp : temp_desc;
  b_code : code_desc;
  b_off : off_desc
}.
Definition stream : Type := list block.

Definition denote_block (b : block) : list cmd := map fst (b_cmds b).
Definition denote (s : stream) : list cmd := flat_map denote_block s.

(* --- how copy lengths and distances map to (symbol, number of extra bits,
   value of the extra bits) *)
Definition len_code (v : variant) (len : N) (alt : bool) : N * N * N :=
  if v_lhark v then
    if alt then (288, 0, 0)
    else
      let x := len - 3 in
      if x <? 8 then (256 + x, 0, 0)
      else
        (* x = (4 + m) * 2^e + low with m < 4, low < 2^e, e >= 1 *)
        let e := N.log2 x - 2 in
        (260 + 4 * e + (N.shiftr x e - 4), e, x mod N.shiftl 1 e)
  else (256 + (len - 3), 0, 0).

Definition len_ok (v : variant) (len : N) (alt : bool) : bool :=
  if v_lhark v then
    if alt then len =? 514 else (3 <=? len) && (len <=? 514)
  else negb alt && (3 <=? len) && (len <=? 256).

Definition dist_code (v : variant) (dist : N) : N * N * N :=
  if v_lhark v then
    if dist <? 4 then (dist, 0, 0)
    else
      (* dist = (2 + m) * 2^e + low with m < 2, low < 2^e, e >= 1 *)
      let e := N.log2 dist - 1 in
      (2 + 2 * e + (N.shiftr dist e - 2), e, dist mod N.shiftl 1 e)
  else
    if dist <? 2 then (dist, 0, 0)
    else
      (* dist = 2^k + low: class k + 1, k extra bits *)
      let k := N.log2 dist in
      (k + 1, k, dist - N.shiftl 1 k).

Definition dist_ok (v : variant) (dist : N) : bool :=
  dist <? N.shiftl 1 (v_history_bits v).

(* ================================================================== *)
(* well-formedness                                                     *)

Definition wf_temp (d : temp_desc) : bool :=
  match d with
  | TSingle s => s <? 32
  | TLens n lens skip =>
    (1 <=? n) && (n <=? MAX_TEMP) && (skip <=? 3)
    && ((3 <=? n) || (skip =? 0))
    && (nlen lens =? temp_explicit n skip)
    && complete_code (temp_lens n lens skip)
  end.

Definition wf_code (v : variant) (tt : table) (d : code_desc) : bool :=
  match d with
  | CSingle s => s <? 512
  | CTokens n toks =>
    (1 <=? n) && (n <=? v_num_codes v)
    && forallb tok_ok toks
    && forallb (fun t => tab_has tt (tok_temp_sym t)) toks
    && toks_cover n toks 0
    && complete_code (code_lens n toks)
  end.

Definition wf_off (v : variant) (d : off_desc) : bool :=
  match d with
  | OSingle s => s <? N.shiftl 1 (v_offset_bits v)
  | OLens lens =>
    (1 <=? nlen lens) && (nlen lens <=? max_offset_codes v) && complete_code lens
  end.

Definition wf_cmd (v : variant) (ct ot : table) (c : cmd * bool) : bool :=
  match c with
  | (Lit b, alt) => negb alt && (b <? 256) && tab_has ct b
  | (Copy dist len, alt) =>
    len_ok v len alt && tab_has ct (fst (fst (len_code v len alt)))
    && dist_ok v dist && tab_has ot (fst (fst (dist_code v dist)))
  end.

Definition wf_block (v : variant) (b : block) : bool :=
  (1 <=? nlen (b_cmds b)) && (nlen (b_cmds b) <=? 65535)
  && wf_temp (b_temp b)
  && wf_code v (temp_table (b_temp b)) (b_code b)
  && wf_off v (b_off b)
  && forallb (wf_cmd v (code_table (b_code b)) (off_table (b_off b))) (b_cmds b).

Definition wf_stream (v : variant) (s : stream) : bool := forallb (wf_block v) s.

(* ================================================================== *)
(* 4. Serialisation                                                    *)

(* a length in a temp / offset table: 0..6 in three bits; 7 and more as 111,
   then (length - 7) ones, then a zero *)
Definition len_bits (l : N) : list bool :=
  if l <? 7 then bits_of 3 l
  else [true; true; true] ++ repeat true (N.to_nat (l - 7)) ++ [false].

Definition temp_bits (d : temp_desc) : list bool :=
  match d with
  | TSingle s => bits_of 5 0 ++ bits_of 5 s
  | TLens n lens skip =>
    bits_of 5 n ++ flat_map len_bits (firstn 3 lens)
    ++ (if 3 <=? n then bits_of 2 skip else [])
    ++ flat_map len_bits (skipn 3 lens)
  end.

Definition tok_extra (t : ctok) : list bool :=
  match t with
  | Len _ => []
  | Zero1 => []
  | ZeroShort k => bits_of 4 (k - 3)
  | ZeroLong k => bits_of 9 (k - 20)
  end.

Definition code_bits (tt : ptable) (d : code_desc) : list bool :=
  match d with
  | CSingle s => bits_of 9 0 ++ bits_of 9 s
  | CTokens n toks =>
    bits_of 9 n ++ flat_map (fun t => ptab_code tt (tok_temp_sym t) ++ tok_extra t) toks
  end.

Definition off_bits (v : variant) (d : off_desc) : list bool :=
  let w := N.to_nat (v_offset_bits v) in
  match d with
  | OSingle s => bits_of w 0 ++ bits_of w s
  | OLens lens => bits_of w (nlen lens) ++ flat_map len_bits lens
  end.

Definition cmd_bits (v : variant) (ct ot : ptable) (c : cmd * bool) : list bool :=
  match c with
  | (Lit b, _) => ptab_code ct b
  | (Copy dist len, alt) =>
    let '(ls, le, lx) := len_code v len alt in
    let '(ds, de, dx) := dist_code v dist in
    ptab_code ct ls ++ bits_of (N.to_nat le) lx ++ ptab_code ot ds ++ bits_of (N.to_nat de) dx
  end.

Definition block_bits (v : variant) (b : block) : list bool :=
  let tt := tab_prepare (temp_table (b_temp b)) in
  let ct := tab_prepare (code_table (b_code b)) in
  let ot := tab_prepare (off_table (b_off b)) in
  bits_of 16 (nlen (b_cmds b))
  ++ temp_bits (b_temp b) ++ code_bits tt (b_code b) ++ off_bits v (b_off b)
  ++ flat_map (cmd_bits v ct ot) (b_cmds b).

(* the concatenation of the blocks' bits (= flat_map (block_bits v) s,
   written with an accumulator so that the extracted program does not
   recurse over the whole bit string) *)
Definition serialise_stream (v : variant) (s : stream) : list bool :=
  rev_append (fold_left (fun acc b => rev_append (block_bits v b) acc) s []) [].

Definition serialise_bytes (v : variant) (s : stream) : list N :=
  bytes_of_bits (serialise_stream v s).

(* ================================================================== *)
(* 5. Building a description from commands (generator helper only)     *)

Fixpoint count_syms (l : list N) (a : arr) : arr :=
  match l with
  | [] => a
  | s :: r => count_syms r (aset a s (aget a s + 1))
  end.

(* Huffman: list of (weight, tree) kept sorted by weight *)
Inductive htree : Type := HLeaf (s : N) | HNode (l r : htree).

Fixpoint hinsert (w : N) (t : htree) (l : list (N * htree)) : list (N * htree) :=
  match l with
  | [] => [(w, t)]
  | (w', t') :: r => if w <=? w' then (w, t) :: l else (w', t') :: hinsert w t r
  end.

Fixpoint hleaves (freqs : list N) (s : N) (acc : list (N * htree)) : list (N * htree) :=
  match freqs with
  | [] => acc
  | f :: r => hleaves r (s + 1) (if 0 <? f then hinsert f (HLeaf s) acc else acc)
  end.

Fixpoint hmerge (fuel : nat) (l : list (N * htree)) : option htree :=
  match fuel with
  | O => None
  | S f =>
    match l with
    | [] => None
    | [(_, t)] => Some t
    | (w1, t1) :: (w2, t2) :: r => hmerge f (hinsert (w1 + w2) (HNode t1 t2) r)
    end
  end.

Fixpoint hdepths (t : htree) (d : N) (acc : arr) : arr :=
  match t with
  | HLeaf s => aset acc s d
  | HNode l r => hdepths r (d + 1) (hdepths l (d + 1) acc)
  end.

(* k used symbols, m = floor(log2 k): the first 2^(m+1) - k used symbols get
   length m, the others m + 1 *)
Fixpoint balanced_from (freqs : list N) (short m : N) : list N :=
  match freqs with
  | [] => []
  | f :: r =>
    if 0 <? f then
      (if 0 <? short then m else m + 1) :: balanced_from r (N.pred short) m
    else 0 :: balanced_from r short m
  end.
Definition balanced_lens (freqs : list N) : list N :=
  let k := used_count freqs in
  let m := N.log2 k in
  balanced_from freqs (N.shiftl 1 (m + 1) - k) m.

(* code lengths for the symbols with non-zero frequency (at least two of
   them), none longer than [limit] *)
Definition huff_lens (freqs : list N) (limit : N) : list N :=
  match hmerge (S (length freqs)) (hleaves freqs 0 []) with
  | Some t =>
    let lens := aslice_from (hdepths t 0 (mk_arr (nlen freqs) 0)) 0 (length freqs) in
    if max_len lens <=? limit then lens else balanced_lens freqs
  | None => balanced_lens freqs
  end.

Fixpoint used_syms (freqs : list N) (s : N) : list N :=
  match freqs with
  | [] => []
  | f :: r => if 0 <? f then s :: used_syms r (s + 1) else used_syms r (s + 1)
  end.

Definition auto_table (freqs : list N) (limit : N) : table :=
  match used_syms freqs 0 with
  | [] => TabSingle 0
  | [s] => TabSingle s
  | _ => TabLens (huff_lens freqs limit)
  end.

Fixpoint drop_zeros (l : list N) : list N :=
  match l with
  | [] => []
  | x :: r => if x =? 0 then drop_zeros r else l
  end.
Definition trim_zeros (l : list N) : list N := rev (drop_zeros (rev l)).

Fixpoint count_zeros (l : list N) : N :=
  match l with
  | [] => 0
  | x :: r => if x =? 0 then 1 + count_zeros r else 0
  end.

(* tokens for a run of r unused symbols *)
Fixpoint zero_run_toks (fuel : nat) (r : N) : list ctok :=
  match fuel with
  | O => []
  | S f =>
    if r =? 0 then []
    else if 20 <=? r then let k := N.min r 531 in ZeroLong k :: zero_run_toks f (r - k)
    else if r =? 19 then [ZeroShort 18; Zero1]
    else if 3 <=? r then [ZeroShort r]
    else if r =? 2 then [Zero1; Zero1]
    else [Zero1]
  end.

Fixpoint toks_of_lens (ls : list N) (z : N) : list ctok :=
  match ls with
  | [] => zero_run_toks 8 z
  | l :: r =>
    if l =? 0 then toks_of_lens r (z + 1)
    else zero_run_toks 8 z ++ Len l :: toks_of_lens r 0
  end.

Definition auto_temp (toks : list ctok) : temp_desc :=
  let freqs := aslice_from (count_syms (map tok_temp_sym toks) (mk_arr 31 0)) 0 31 in
  match auto_table freqs 30 with
  | TabSingle s => TSingle s
  | TabLens lens =>
    let tl := trim_zeros lens in
    let n := nlen tl in
    if n <? 3 then TLens n tl 0
    else
      let skip := N.min 3 (count_zeros (skipn 3 tl)) in
      TLens n (firstn 3 tl ++ skipn (3 + N.to_nat skip) tl) skip
  end.

Definition cmd_code_sym (v : variant) (c : cmd * bool) : N :=
  match c with
  | (Lit b, _) => b
  | (Copy _ len, alt) => fst (fst (len_code v len alt))
  end.
Fixpoint cmd_off_syms (v : variant) (l : list (cmd * bool)) : list N :=
  match l with
  | [] => []
  | (Lit _, _) :: r => cmd_off_syms v r
  | (Copy dist _, _) :: r => fst (fst (dist_code v dist)) :: cmd_off_syms v r
  end.

Definition auto_block (v : variant) (cmds : list (cmd * bool)) : block :=
  let nc := v_num_codes v in
  let cfreq := aslice_from (count_syms (map (cmd_code_sym v) cmds) (mk_arr nc 0)) 0 (N.to_nat nc) in
  let no := max_offset_codes v in
  let ofreq := aslice_from (count_syms (cmd_off_syms v cmds) (mk_arr no 0)) 0 (N.to_nat no) in
  let '(cd, td) :=
    match auto_table cfreq 16 with
    | TabSingle s => (CSingle s, TSingle 0)
    | TabLens lens =>
      let cl := trim_zeros lens in
      let toks := toks_of_lens cl 0 in
      (CTokens (nlen cl) toks, auto_temp toks)
    end in
  let od :=
    match auto_table ofreq 62 with
    | TabSingle s => OSingle s
    | TabLens lens => OLens (trim_zeros lens)
    end in
  {| b_cmds := cmds; b_temp := td; b_code := cd; b_off := od |}.

(* cut the command list: one block per entry of [sizes], then blocks of
   65535 commands until nothing is left *)
Fixpoint split_blocks {A} (fuel : nat) (sizes : list N) (cmds : list A) : list (list A) :=
  match fuel with
  | O => []
  | S f =>
    match cmds with
    | [] => []
    | _ =>
      match sizes with
      | [] => firstn_N 65535 cmds :: split_blocks f [] (skipn_N 65535 cmds)
      | k :: r =>
        let k' := if k =? 0 then 1 else N.min k 65535 in
        firstn_N k' cmds :: split_blocks f r (skipn_N k' cmds)
      end
    end
  end.

Definition auto_stream (v : variant) (cmds : list cmd) (sizes : list N) : stream :=
  map (fun l => auto_block v (map (fun c => (c, false)) l))
      (split_blocks (S (length sizes) + N.to_nat (nlen cmds / 65535 + 1)) sizes cmds).

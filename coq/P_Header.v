(* P_Header.v -- proofs for property C05: the parser returns exactly what the
   reference normalisation says, for headers built by the reference encoder.

     A.  collapse_path (two-pointer machine) = collapse (stack specification)
     B.  the common tail of lha_file_header_read = the specification's finish
     0-3 lists, little-endian decoders, the input stream, the checksum
     4   the base header of levels 0 and 1, the level-0 extended areas
     5-6 wf_fields, invariants of norm_decoded, the encoder produces bytes
     7   header_roundtrip_l0
     8-9 the per-type extended-header decoders and the walker (a fold)
     10-12 header_roundtrip_l2, header_roundtrip_l3, header_roundtrip_l1
     13  header_roundtrip (all levels), and the Print Assumptions           *)
From Lhasa Require Import Base ListN Loop Generated Crc16 P_Crc16 InputStream Header S_Header.
From Coq Require Import ZifyBool ZifyN ZifyNat.
Local Open Scope N_scope.

(* ================================================================== *)
(* A. Path collapsing: the two-pointer machine computes the stack specification *)

(* P_Collapse.v -- the in-place two-pointer path collapser of Header.v
   computes the stack-based specification of S_Header.v. *)

(* ---- generic list facts ---- *)

Lemma nth_N_app_mid {A} (l : list A) x r : nth_N (l ++ x :: r) (nlen l) = Some x.
Proof.
  unfold nth_N, nlen. rewrite Nat2N.id.
  rewrite nth_error_app2 by lia. rewrite Nat.sub_diag. reflexivity.
Qed.

Lemma skipn_N_app_exact {A} (a b : list A) : skipn_N (nlen a) (a ++ b) = b.
Proof.
  rewrite skipn_N_eq. unfold nlen. rewrite Nat2N.id.
  rewrite skipn_app, Nat.sub_diag, skipn_all. reflexivity.
Qed.

Lemma firstn_N_app_exact {A} (a b : list A) : firstn_N (nlen a) (a ++ b) = a.
Proof.
  rewrite firstn_N_app_l by lia. apply firstn_N_all. lia.
Qed.

(* ---- the abstraction: stack of components -> written buffer ---- *)

Definition J (out : list (list N)) : list N :=
  concat (map (fun c => c ++ [47]) (rev out)).

Definition no47 (l : list N) : Prop := Forall (fun b => b <> 47) l.

Definition inv (out : list (list N)) : Prop :=
  Forall (fun c => c <> [] /\ no47 c) out.

Lemma J_nil : J [] = [].
Proof. reflexivity. Qed.

Lemma J_cons c out : J (c :: out) = J out ++ c ++ [47].
Proof.
  unfold J. cbn [rev]. rewrite map_app, concat_app. cbn [map concat].
  rewrite app_nil_r. reflexivity.
Qed.

Lemma J_ends out : J out = [] \/ exists A', J out = A' ++ [47].
Proof.
  destruct out as [|c out]; [left; reflexivity|].
  right. exists (J out ++ c). rewrite J_cons. rewrite app_assoc. reflexivity.
Qed.

Lemma no47_app a b : no47 a -> no47 b -> no47 (a ++ b).
Proof. intros Ha Hb. apply Forall_app. split; assumption. Qed.

(* ---- walk_back ---- *)

Lemma walk_back_O written w base : walk_back O written w base = w.
Proof. reflexivity. Qed.

Lemma walk_back_S k written w base :
  walk_back (S k) written w base =
  if base <? w then
    match nth_N written (w - 1) with
    | Some b => if b =? 47 then w else walk_back k written (w - 1) base
    | None => w
    end
  else w.
Proof. reflexivity. Qed.

Lemma walk_back_spec : forall (m : list N) (k : nat) (A B : list N),
  no47 m ->
  (A = [] \/ exists A', A = A' ++ [47]) ->
  (length m <= k)%nat ->
  walk_back k (A ++ m ++ B) (nlen A + nlen m) 0 = nlen A.
Proof.
  intros m. induction m as [|x m' IH] using rev_ind; intros k A B Hm HA Hk.
  - rewrite (@nlen_nil N). cbn [app].
    destruct k as [|k]; [rewrite walk_back_O; lia|].
    rewrite walk_back_S.
    destruct HA as [->|[A' ->]].
    + rewrite (@nlen_nil N). reflexivity.
    + destruct (N.ltb_spec 0 (nlen (A' ++ [47]) + 0)) as [Hlt|Hge]; [|lia].
      replace (nlen (A' ++ [47]) + 0 - 1) with (nlen A')
        by (rewrite nlen_app, nlen_cons, (@nlen_nil N); lia).
      rewrite <- app_assoc. cbn [app].
      rewrite nth_N_app_mid.
      change (47 =? 47) with true. cbv iota. lia.
  - apply Forall_app in Hm. destruct Hm as [Hm' Hx].
    inversion Hx as [|x0 l0 Hx47 Hnil]; subst.
    rewrite app_length in Hk. cbn [length] in Hk.
    destruct k as [|k]; [lia|].
    rewrite walk_back_S.
    rewrite nlen_app, nlen_cons, (@nlen_nil N).
    destruct (N.ltb_spec 0 (nlen A + (nlen m' + (0 + 1)))) as [Hlt|Hge]; [|lia].
    replace (nlen A + (nlen m' + (0 + 1)) - 1) with (nlen (A ++ m'))
      by (rewrite nlen_app; lia).
    replace (A ++ (m' ++ [x]) ++ B) with ((A ++ m') ++ x :: B)
      by (rewrite <- !app_assoc; reflexivity).
    rewrite nth_N_app_mid.
    destruct (N.eqb_spec x 47) as [E|_]; [contradiction|].
    replace ((A ++ m') ++ x :: B) with (A ++ m' ++ ([x] ++ B))
      by (rewrite <- !app_assoc; reflexivity).
    rewrite nlen_app.
    apply IH; [assumption|assumption|lia].
Qed.

(* ---- collapse_loop unfolding ---- *)

Lemma cl_nil written cp base : collapse_loop [] written cp base = written.
Proof. reflexivity. Qed.

Lemma cl_other c rest written cp base : c <> 47 ->
  collapse_loop (c :: rest) written cp base = collapse_loop rest (written ++ [c]) cp base.
Proof.
  intros H. cbn [collapse_loop].
  destruct (N.eqb_spec c 47) as [E|_]; [contradiction|]. reflexivity.
Qed.

Lemma cl_slash rest written cp base :
  collapse_loop (47 :: rest) written cp base =
  if (nlen (written ++ [47]) - cp - 1 =? 0)
     || ((nlen (written ++ [47]) - cp - 1 =? 1)
         && (match skipn_N cp (written ++ [47]) with b :: _ => b =? 46 | [] => false end))
  then collapse_loop rest (firstn_N cp (written ++ [47])) cp base
  else if (nlen (written ++ [47]) - cp - 1 =? 2)
          && (match skipn_N cp (written ++ [47]) with
              | a :: b :: _ => (a =? 46) && (b =? 46) | _ => false end)
  then
    if cp =? base then collapse_loop rest (firstn_N base (written ++ [47])) cp base
    else collapse_loop rest
           (firstn_N (walk_back (N.to_nat cp) (written ++ [47]) (cp - 1) base) (written ++ [47]))
           (walk_back (N.to_nat cp) (written ++ [47]) (cp - 1) base) base
  else collapse_loop rest (written ++ [47]) (nlen (written ++ [47])) base.
Proof. reflexivity. Qed.

(* ---- the boolean tests agree ---- *)

Lemma test_dot cur :
  (nlen cur =? 0)
  || ((nlen cur =? 1) && (match cur ++ [47] with b :: _ => b =? 46 | [] => false end))
  = (nlen cur =? 0) || bytes_eqb cur [46].
Proof.
  unfold bytes_eqb.
  destruct cur as [|x [|y l]].
  - reflexivity.
  - cbn [app combine forallb fst snd]. change (nlen [x]) with 1. change (nlen [46]) with 1.
    lia.
  - cbn [app combine forallb fst snd]. change (nlen [46]) with 1.
    rewrite !nlen_cons. lia.
Qed.

Lemma test_dotdot cur :
  (nlen cur =? 2)
  && (match cur ++ [47] with a :: b :: _ => (a =? 46) && (b =? 46) | _ => false end)
  = bytes_eqb cur [46; 46].
Proof.
  unfold bytes_eqb. change (nlen [46; 46]) with 2.
  destruct cur as [|x [|y [|z l]]].
  - reflexivity.
  - cbn [app combine forallb fst snd]. change (nlen [x]) with 1. lia.
  - cbn [app combine forallb fst snd]. change (nlen [x; y]) with 2. lia.
  - cbn [app combine forallb fst snd]. rewrite !nlen_cons. lia.
Qed.

(* ---- main simulation lemma ---- *)

Lemma collapse_loop_go : forall s out cur,
  inv out -> no47 cur ->
  collapse_loop s (J out ++ cur) (nlen (J out)) 0 = collapse_go s out cur.
Proof.
  induction s as [|c r IH]; intros out cur Hinv Hcur.
  - rewrite cl_nil. reflexivity.
  - cbn [collapse_go].
    destruct (N.eqb_spec c 47) as [->|Hne].
    + rewrite cl_slash.
      replace (nlen ((J out ++ cur) ++ [47]) - nlen (J out) - 1) with (nlen cur)
        by (rewrite !nlen_app, nlen_cons, (@nlen_nil N); lia).
      rewrite <- (app_assoc (J out) cur [47]).
      rewrite skipn_N_app_exact.
      rewrite test_dot, test_dotdot.
      destruct ((nlen cur =? 0) || bytes_eqb cur [46]) eqn:E1.
      * rewrite firstn_N_app_exact.
        specialize (IH out [] Hinv (Forall_nil _)). rewrite app_nil_r in IH. exact IH.
      * destruct (bytes_eqb cur [46; 46]) eqn:E2.
        -- destruct out as [|c0 out'].
           ++ rewrite J_nil, (@nlen_nil N). change (0 =? 0) with true. cbv iota.
              rewrite firstn_N_0. cbn [tl].
              specialize (IH [] [] Hinv (Forall_nil _)).
              rewrite J_nil, (@nlen_nil N) in IH. cbn [app] in IH. exact IH.
           ++ cbn [tl].
              inversion Hinv as [|c1 o1 [Hc0ne Hc0] Hinv']; subst.
              rewrite J_cons.
              destruct (N.eqb_spec (nlen (J out' ++ c0 ++ [47])) 0) as [E0|_].
              { rewrite !nlen_app, nlen_cons, (@nlen_nil N) in E0. lia. }
              replace ((J out' ++ c0 ++ [47]) ++ cur ++ [47])
                with (J out' ++ c0 ++ ([47] ++ cur ++ [47]))
                by (rewrite <- !app_assoc; reflexivity).
              replace (nlen (J out' ++ c0 ++ [47]) - 1) with (nlen (J out') + nlen c0)
                by (rewrite !nlen_app, nlen_cons, (@nlen_nil N); lia).
              rewrite walk_back_spec;
                [|assumption|apply J_ends|
                 rewrite !nlen_app, nlen_cons, (@nlen_nil N); unfold nlen; lia].
              rewrite firstn_N_app_exact.
              specialize (IH out' [] Hinv' (Forall_nil _)). rewrite app_nil_r in IH. exact IH.
        -- assert (Hcne : cur <> []).
           { intros ->. rewrite (@nlen_nil N) in E1. discriminate E1. }
           assert (Hinv2 : inv (cur :: out)).
           { constructor; [split; assumption|assumption]. }
           specialize (IH (cur :: out) [] Hinv2 (Forall_nil _)).
           rewrite app_nil_r, J_cons in IH. exact IH.
    + rewrite cl_other by assumption.
      rewrite <- app_assoc. apply IH; [assumption|].
      apply no47_app; [assumption|]. constructor; [assumption|constructor].
Qed.

(* ---- the entry points ---- *)

Lemma collapse_path_cons c r :
  collapse_path (c :: r) =
  if c =? 47 then 47 :: collapse_loop r [] 0 0 else collapse_loop (c :: r) [] 0 0.
Proof.
  destruct c as [|p]; [reflexivity|].
  do 7 (try destruct p as [p|p|]); reflexivity.
Qed.

Theorem collapse_path_is_collapse : forall p : list N, collapse_path p = collapse p.
Proof.
  intros p. destruct p as [|c r]; [reflexivity|].
  rewrite collapse_path_cons. unfold collapse.
  pose proof (collapse_loop_go r [] [] (Forall_nil _) (Forall_nil _)) as H1.
  pose proof (collapse_loop_go (c :: r) [] [] (Forall_nil _) (Forall_nil _)) as H2.
  rewrite J_nil, (@nlen_nil N) in H1, H2. cbn [app] in H1, H2.
  rewrite H1, H2. reflexivity.
Qed.


(* ================================================================== *)
(* B. The common tail of lha_file_header_read *)


Section Post.
  Variable mktime : N -> N -> N -> N -> Z -> N -> N.

  Definition post (h1 : header) (st2 : istream) : outcome (option header * istream) :=
      let h2 := if (h_os_type h1 =? OS_TYPE_AMIGA) && method_is h1 [45; 108; 104; 48; 45]
                   && (h_length h1 =? 0) && (match h_filename h1 with None => true | _ => false end)
                then set_method h1 COMPRESS_TYPE_DIR else h1 in
      let is_dir := method_is h2 COMPRESS_TYPE_DIR in
      let r3 :=
        if negb is_dir then
          match h_filename h2 with None => None | Some _ => Some h2 end
        else if have_extra h2 FILE_UNIX_PERMS
                && (match h_path h2, h_filename h2 with None, None => false | _, _ => true end)
                && (N.land (h_unix_perms h2) 61440 =? 40960) then parse_symlink h2
        else match h_path h2 with None => None | Some _ => Some h2 end in
      match r3 with
      | None => Ok (None, st2)
      | Some h3 =>
        let os := h_os_type h3 in
        let h4 := if (os =? OS_TYPE_UNKNOWN) || (os =? OS_TYPE_MSDOS) || (os =? OS_TYPE_ATARI)
                     || (os =? OS_TYPE_LHARK) || (os =? OS_TYPE_OS2) then fix_msdos_allcaps h3 else h3 in
        let h5 := set_path h4 (option_map collapse_path (h_path h4)) in
        let h6 := if (h_os_type h5 =? OS_TYPE_OS9_68K) && have_extra h5 FILE_UNIX_PERMS
                  then add_flag (set_os9_perms h5 (h_unix_perms h5)) FILE_OS9_PERMS else h5 in
        let h7 := if have_extra h6 FILE_OS9_PERMS then os9_to_unix_permissions h6 else h6 in
        if have_extra h7 FILE_COMMON_CRC && negb (lha_crc16_buf 0 (h_raw h7) =? h_common_crc h7) then Ok (None, st2) else
        let h8 := if (h_level h7 =? 1) && (h_os_type h7 =? OS_TYPE_LHARK)
                     && bytes_eqb (firstn 5 (cstr (h_method h7))) [45; 108; 104; 55; 45]
                  then set_method h7 (list_set (h_method h7) 2 107) else h7 in
        Ok (Some h8, st2)
      end.

  Lemma lha_file_header_read_unfold st :
    lha_file_header_read mktime st =
    ('(r, st1) <- lha_input_stream_read st hdr_COMMON_HEADER_LEN ;;
     match r with
     | None => Ok (None, st1)
     | Some raw =>
       lvl <- raw_at 1260 raw 20 ;;
       let h := set_level (header0 raw) lvl in
       '(ok, h1, st2) <-
         (if lvl =? 0 then decode_level0_header mktime h st1
          else if lvl =? 1 then decode_level1_header mktime h st1
          else if lvl =? 2 then decode_level2_header h st1
          else if lvl =? 3 then decode_level3_header h st1
          else Ok (false, h, st1)) ;;
       if negb ok then Ok (None, st2) else post h1 st2
     end).
  Proof. reflexivity. Qed.

  (* ---- the model's stages, named ---- *)
  Definition m_amiga (h1 : header) : header :=
    if (h_os_type h1 =? OS_TYPE_AMIGA) && method_is h1 [45; 108; 104; 48; 45]
       && (h_length h1 =? 0) && (match h_filename h1 with None => true | _ => false end)
    then set_method h1 COMPRESS_TYPE_DIR else h1.

  Definition m_kind (h2 : header) : option header :=
    let is_dir := method_is h2 COMPRESS_TYPE_DIR in
    if negb is_dir then
      match h_filename h2 with None => None | Some _ => Some h2 end
    else if have_extra h2 FILE_UNIX_PERMS
            && (match h_path h2, h_filename h2 with None, None => false | _, _ => true end)
            && (N.land (h_unix_perms h2) 61440 =? 40960) then parse_symlink h2
    else match h_path h2 with None => None | Some _ => Some h2 end.

  Definition m_case (h3 : header) : header :=
    let os := h_os_type h3 in
    if (os =? OS_TYPE_UNKNOWN) || (os =? OS_TYPE_MSDOS) || (os =? OS_TYPE_ATARI)
       || (os =? OS_TYPE_LHARK) || (os =? OS_TYPE_OS2) then fix_msdos_allcaps h3 else h3.

  Definition m_collapse (h4 : header) : header := set_path h4 (option_map collapse_path (h_path h4)).

  Definition m_os9 (h5 : header) : header :=
    let h6 := if (h_os_type h5 =? OS_TYPE_OS9_68K) && have_extra h5 FILE_UNIX_PERMS
              then add_flag (set_os9_perms h5 (h_unix_perms h5)) FILE_OS9_PERMS else h5 in
    if have_extra h6 FILE_OS9_PERMS then os9_to_unix_permissions h6 else h6.

  Definition m_lhark (h7 : header) : header :=
    if (h_level h7 =? 1) && (h_os_type h7 =? OS_TYPE_LHARK)
       && bytes_eqb (firstn 5 (cstr (h_method h7))) [45; 108; 104; 55; 45]
    then set_method h7 (list_set (h_method h7) 2 107) else h7.

  Lemma post_stages h1 st2 :
    post h1 st2 =
    match m_kind (m_amiga h1) with
    | None => Ok (None, st2)
    | Some h3 =>
      let h7 := m_os9 (m_collapse (m_case h3)) in
      if have_extra h7 FILE_COMMON_CRC && negb (lha_crc16_buf 0 (h_raw h7) =? h_common_crc h7)
      then Ok (None, st2) else Ok (Some (m_lhark h7), st2)
    end.
  Proof. reflexivity. Qed.

  (* ---- stage by stage: model = specification ---- *)
  Lemma amiga_stage h : m_amiga h = norm_amiga h.
  Proof.
    unfold m_amiga, norm_amiga, method_is, is_some.
    destruct (h_filename h); reflexivity.
  Qed.

  Lemma kind_stage h : m_kind h = norm_kind h.
  Proof.
    unfold m_kind, norm_kind, method_is, have_extra, has_flag, is_some.
    change COMPRESS_TYPE_DIR with lhd. change FILE_UNIX_PERMS with F_PERMS.
    destruct (bytes_eqb (cstr (h_method h)) lhd); cbn [negb].
    - replace (match h_path h with
               | Some _ => true
               | None => match h_filename h with Some _ => true | None => false end
               end)
        with ((if h_path h then true else false) || (if h_filename h then true else false))
        by (destruct (h_path h); destruct (h_filename h); reflexivity).
      destruct (negb (N.land (h_extra_flags h) F_PERMS =? 0)
                && ((if h_path h then true else false) || (if h_filename h then true else false))
                && (N.land (h_unix_perms h) 61440 =? 40960)).
      + unfold parse_symlink, full_path.
        destruct (first_index (opt_str (h_path h) ++ opt_str (h_filename h)) 124 0) as [p|]; [|reflexivity].
        unfold split_header_filename, split_name. cbn [h_filename set_filename].
        destruct (last_index (firstn_N p (opt_str (h_path h) ++ opt_str (h_filename h))) 47 0 None);
          reflexivity.
      + destruct (h_path h); reflexivity.
    - destruct (h_filename h); reflexivity.
  Qed.

  Lemma case_stage h : m_case h = norm_case h.
  Proof.
    unfold m_case, norm_case, fix_msdos_allcaps, has_lower.
    change OS_TYPE_UNKNOWN with 0. change OS_TYPE_MSDOS with 77. change OS_TYPE_ATARI with 97.
    change OS_TYPE_LHARK with 32. change OS_TYPE_OS2 with 50.
    cbv zeta.
    destruct ((h_os_type h =? 0) || (h_os_type h =? 77) || (h_os_type h =? 97)
              || (h_os_type h =? 32) || (h_os_type h =? 50)); reflexivity.
  Qed.

  Lemma collapse_stage h : m_collapse h = norm_collapse h.
  Proof.
    unfold m_collapse, norm_collapse.
    destruct (h_path h); cbn [option_map]; [rewrite collapse_path_is_collapse|]; reflexivity.
  Qed.

  Lemma os9_bits d a b c p q r :
    N.lor (N.shiftl d 14)
      (N.lor (N.lor (N.shiftl a 8) (N.lor (N.shiftl b 7) (N.shiftl c 6)))
         (N.lor (N.lor (N.shiftl p 5) (N.lor (N.shiftl q 4) (N.shiftl r 3)))
            (N.lor (N.shiftl p 2) (N.lor (N.shiftl q 1) r)))) =
    N.lor (N.lor (N.lor (N.lor (N.lor (N.lor (N.lor (N.lor (N.lor
      (N.shiftl d 14) (N.shiftl a 8)) (N.shiftl b 7)) (N.shiftl c 6))
      (N.shiftl p 5)) (N.shiftl q 4)) (N.shiftl r 3))
      (N.shiftl p 2)) (N.shiftl q 1)) r.
  Proof. rewrite !N.lor_assoc. reflexivity. Qed.

  Lemma os9_stage h : m_os9 h = norm_os9 h.
  Proof.
    unfold m_os9, norm_os9, os9_to_unix_permissions. cbv zeta.
    change OS_TYPE_OS9_68K with OS9_68K. change FILE_UNIX_PERMS with F_PERMS.
    change FILE_OS9_PERMS with F_OS9. change have_extra with has_flag.
    destruct ((h_os_type h =? OS9_68K) && has_flag h F_PERMS).
    - destruct (has_flag (add_flag (set_os9_perms h (h_unix_perms h)) F_OS9) F_OS9); [|reflexivity].
      rewrite os9_bits. reflexivity.
    - destruct (has_flag h F_OS9); [|reflexivity].
      rewrite os9_bits. reflexivity.
  Qed.

  (* The LHARK stage: the model patches byte 2 of the method buffer in place, the
     specification replaces the method by the five bytes "-lk7-".  They agree
     when the method field holds at most five bytes (it always holds exactly five
     in headers produced by the decoders). *)
  Lemma lhark_stage h : nlen (h_method h) <= 5 -> m_lhark h = norm_lhark h.
  Proof.
    intros L. unfold m_lhark, norm_lhark. change OS_TYPE_LHARK with 32.
    destruct ((h_level h =? 1) && (h_os_type h =? 32)); cbn [andb]; [|reflexivity].
    destruct (bytes_eqb (firstn 5 (cstr (h_method h))) [45; 108; 104; 55; 45]) eqn:E; [|reflexivity].
    f_equal.
    destruct (h_method h) as [|a [|b [|c [|d [|e [|f r]]]]]].
    - discriminate E.
    - cbn [cstr firstn] in E. destruct (a =? 0); discriminate E.
    - cbn [cstr firstn] in E. destruct (a =? 0); [discriminate E|]. destruct (b =? 0); discriminate E.
    - cbn [cstr firstn] in E. destruct (a =? 0); [discriminate E|]. destruct (b =? 0); [discriminate E|].
      destruct (c =? 0); discriminate E.
    - cbn [cstr firstn] in E. destruct (a =? 0); [discriminate E|]. destruct (b =? 0); [discriminate E|].
      destruct (c =? 0); [discriminate E|]. destruct (d =? 0); discriminate E.
    - cbn [cstr firstn] in E. destruct (a =? 0); [discriminate E|]. destruct (b =? 0); [discriminate E|].
      destruct (c =? 0); [discriminate E|]. destruct (d =? 0); [discriminate E|].
      destruct (e =? 0); [discriminate E|].
      unfold bytes_eqb in E. cbn [combine forallb fst snd] in E.
      apply andb_prop in E. destruct E as [_ E].
      apply andb_prop in E. destruct E as [Ea E]. apply N.eqb_eq in Ea.
      apply andb_prop in E. destruct E as [Eb E]. apply N.eqb_eq in Eb.
      apply andb_prop in E. destruct E as [_ E].
      apply andb_prop in E. destruct E as [Ed E]. apply N.eqb_eq in Ed.
      apply andb_prop in E. destruct E as [Ee _]. apply N.eqb_eq in Ee.
      subst a b d e. reflexivity.
    - exfalso. unfold nlen in L. cbn [length] in L. lia.
  Qed.

  (* ---- the common-CRC test: the stages keep raw, common_crc and the CCRC flag ---- *)
  Definition crc_same (h h' : header) : Prop :=
    h_raw h' = h_raw h /\ h_common_crc h' = h_common_crc h /\ has_flag h' F_CCRC = has_flag h F_CCRC.

  Lemma crc_same_refl h : crc_same h h.
  Proof. repeat split. Qed.

  Lemma crc_same_trans a b c : crc_same a b -> crc_same b c -> crc_same a c.
  Proof.
    intros (A1 & A2 & A3) (B1 & B2 & B3). unfold crc_same.
    rewrite B1, B2, B3, A1, A2, A3. repeat split.
  Qed.

  Lemma crc_same_amiga h : crc_same h (norm_amiga h).
  Proof.
    unfold norm_amiga.
    destruct ((h_os_type h =? 65) && bytes_eqb (cstr (h_method h)) [45; 108; 104; 48; 45]
              && (h_length h =? 0) && negb (is_some (h_filename h))); repeat split.
  Qed.

  Lemma crc_same_kind h h' : norm_kind h = Some h' -> crc_same h h'.
  Proof.
    unfold norm_kind.
    destruct (negb (bytes_eqb (cstr (h_method h)) lhd)).
    - destruct (is_some (h_filename h)); intros E; [|discriminate E].
      injection E as <-. apply crc_same_refl.
    - destruct (has_flag h F_PERMS && (is_some (h_path h) || is_some (h_filename h))
                && (N.land (h_unix_perms h) 61440 =? 40960)).
      + destruct (first_index (opt_str (h_path h) ++ opt_str (h_filename h)) 124 0) as [i|];
          intros E; [|discriminate E].
        destruct (split_name (firstn_N i (opt_str (h_path h) ++ opt_str (h_filename h)))) as [p fn].
        injection E as <-. repeat split.
      + destruct (is_some (h_path h)); intros E; [|discriminate E].
        injection E as <-. apply crc_same_refl.
  Qed.

  Lemma crc_same_case h : crc_same h (norm_case h).
  Proof.
    unfold norm_case. cbv zeta.
    destruct (((h_os_type h =? 0) || (h_os_type h =? 77) || (h_os_type h =? 97)
               || (h_os_type h =? 32) || (h_os_type h =? 50))
              && negb (has_lower (h_path h)) && negb (has_lower (h_filename h))); repeat split.
  Qed.

  Lemma crc_same_collapse h : crc_same h (norm_collapse h).
  Proof. repeat split. Qed.

  Lemma land_lor_16_4 x : N.land (N.lor x 16) 4 = N.land x 4.
  Proof. rewrite N.land_lor_distr_l. change (N.land 16 4) with 0. apply N.lor_0_r. Qed.

  Lemma land_lor_1_4 x : N.land (N.lor x 1) 4 = N.land x 4.
  Proof. rewrite N.land_lor_distr_l. change (N.land 1 4) with 0. apply N.lor_0_r. Qed.

  Lemma crc_same_add16 h : crc_same h (add_flag h F_OS9).
  Proof.
    repeat split. unfold has_flag, add_flag, F_OS9, F_CCRC. cbn [h_extra_flags set_extra_flags].
    rewrite land_lor_16_4. reflexivity.
  Qed.

  Lemma crc_same_add1 h : crc_same h (add_flag h F_PERMS).
  Proof.
    repeat split. unfold has_flag, add_flag, F_PERMS, F_CCRC. cbn [h_extra_flags set_extra_flags].
    rewrite land_lor_1_4. reflexivity.
  Qed.

  Lemma crc_same_set_os9 h v : crc_same h (set_os9_perms h v).
  Proof. repeat split. Qed.

  Lemma crc_same_set_unix h v : crc_same h (set_unix_perms h v).
  Proof. repeat split. Qed.

  Lemma crc_same_os9 h : crc_same h (norm_os9 h).
  Proof.
    unfold norm_os9. cbv zeta.
    set (h1 := if (h_os_type h =? OS9_68K) && has_flag h F_PERMS
               then add_flag (set_os9_perms h (h_unix_perms h)) F_OS9 else h).
    assert (S1 : crc_same h h1).
    { unfold h1. destruct ((h_os_type h =? OS9_68K) && has_flag h F_PERMS); [|apply crc_same_refl].
      eapply crc_same_trans; [apply crc_same_set_os9|apply crc_same_add16]. }
    destruct (has_flag h1 F_OS9); [|exact S1].
    eapply crc_same_trans; [exact S1|].
    eapply crc_same_trans; [apply crc_same_add1|apply crc_same_set_unix].
  Qed.

  Lemma method_amiga_len h : nlen (h_method h) <= 5 -> nlen (h_method (norm_amiga h)) <= 5.
  Proof.
    intros L. unfold norm_amiga.
    destruct ((h_os_type h =? 65) && bytes_eqb (cstr (h_method h)) [45; 108; 104; 48; 45]
              && (h_length h =? 0) && negb (is_some (h_filename h))); [|exact L].
    cbn [h_method set_method]. unfold lhd, nlen. cbn [length]. lia.
  Qed.

  Lemma method_kind h h' : norm_kind h = Some h' -> h_method h' = h_method h.
  Proof.
    unfold norm_kind.
    destruct (negb (bytes_eqb (cstr (h_method h)) lhd)).
    - destruct (is_some (h_filename h)); intros E; [|discriminate E].
      injection E as <-. reflexivity.
    - destruct (has_flag h F_PERMS && (is_some (h_path h) || is_some (h_filename h))
                && (N.land (h_unix_perms h) 61440 =? 40960)).
      + destruct (first_index (opt_str (h_path h) ++ opt_str (h_filename h)) 124 0) as [i|];
          intros E; [|discriminate E].
        destruct (split_name (firstn_N i (opt_str (h_path h) ++ opt_str (h_filename h)))) as [p fn].
        injection E as <-. reflexivity.
      + destruct (is_some (h_path h)); intros E; [|discriminate E].
        injection E as <-. reflexivity.
  Qed.

  Lemma method_case h : h_method (norm_case h) = h_method h.
  Proof.
    unfold norm_case. cbv zeta.
    destruct (((h_os_type h =? 0) || (h_os_type h =? 77) || (h_os_type h =? 97)
               || (h_os_type h =? 32) || (h_os_type h =? 50))
              && negb (has_lower (h_path h)) && negb (has_lower (h_filename h))); reflexivity.
  Qed.

  Lemma method_os9 h : h_method (norm_os9 h) = h_method h.
  Proof.
    unfold norm_os9. cbv zeta.
    destruct ((h_os_type h =? OS9_68K) && has_flag h F_PERMS).
    - destruct (has_flag (add_flag (set_os9_perms h (h_unix_perms h)) F_OS9) F_OS9); reflexivity.
    - destruct (has_flag h F_OS9); reflexivity.
  Qed.

  (* the specification's view of the same tail *)
  Definition finish (h : header) : option header :=
    match norm_kind (norm_amiga h) with
    | None => None
    | Some h' => Some (norm_lhark (norm_os9 (norm_collapse (norm_case h'))))
    end.

  Theorem post_spec h1 st2 :
    nlen (h_method h1) <= 5 ->
    (has_flag h1 F_CCRC = true -> lha_crc16_buf 0 (h_raw h1) = h_common_crc h1) ->
    post h1 st2 = Ok (finish h1, st2).
  Proof.
    intros L C. rewrite post_stages. unfold finish.
    rewrite amiga_stage, kind_stage.
    destruct (norm_kind (norm_amiga h1)) as [h3|] eqn:K; [|reflexivity].
    cbv zeta.
    rewrite case_stage, collapse_stage, os9_stage.
    set (h7 := norm_os9 (norm_collapse (norm_case h3))).
    assert (S : crc_same h1 h7).
    { eapply crc_same_trans; [apply crc_same_amiga|].
      eapply crc_same_trans; [apply crc_same_kind; exact K|].
      eapply crc_same_trans; [apply crc_same_case|].
      eapply crc_same_trans; [apply crc_same_collapse|apply crc_same_os9]. }
    destruct S as (S1 & S2 & S3).
    assert (M : nlen (h_method h7) <= 5).
    { unfold h7. rewrite method_os9. unfold norm_collapse. cbn [h_method set_path].
      rewrite method_case. rewrite (method_kind _ _ K). apply method_amiga_len. exact L. }
    change (have_extra h7 FILE_COMMON_CRC) with (has_flag h7 F_CCRC).
    rewrite S1, S2, S3.
    destruct (has_flag h1 F_CCRC) eqn:F.
    - rewrite (C eq_refl), N.eqb_refl. cbn [negb andb].
      rewrite lhark_stage by exact M. reflexivity.
    - cbn [andb]. rewrite lhark_stage by exact M. reflexivity.
  Qed.

  (* Without the bound on the method field the statement is false: *)
  Definition cex : header :=
    set_filename (set_os_type (set_level (set_method (header0 []) [45; 108; 104; 55; 45; 0]) 1) 32) (Some [97]).

  Lemma cex_premise : has_flag cex F_CCRC = false.
  Proof. reflexivity. Qed.

  Lemma cex_differs st2 :
    post cex st2 = Ok (Some (set_method cex [45; 108; 107; 55; 45; 0]), st2) /\
    finish cex = Some (set_method cex [45; 108; 107; 55; 45]).
  Proof. split; vm_compute; reflexivity. Qed.
End Post.

Lemma normalise_finish mktime f : normalise mktime f = finish (norm_decoded mktime f).
Proof. reflexivity. Qed.


(* ================================================================== *)
(* 0. Lists                                                            *)

Definition lt256 (b : N) : Prop := b < 256.

Lemma bytes_ok_Forall l : bytes_ok l = true <-> Forall lt256 l.
Proof.
  unfold bytes_ok. rewrite forallb_forall, Forall_forall. unfold lt256.
  split; intros H x Hx; specialize (H x Hx); [apply N.ltb_lt|apply N.ltb_lt]; exact H.
Qed.

Lemma skipn_N_app_r {A} w (a b : list A) : nlen a <= w -> skipn_N w (a ++ b) = skipn_N (w - nlen a) b.
Proof.
  intros H. replace w with (nlen a + (w - nlen a)) at 1 by lia.
  rewrite skipn_N_add, skipn_N_app_exact. reflexivity.
Qed.

Lemma skipn_N_app_l {A} w (a b : list A) : w <= nlen a -> skipn_N w (a ++ b) = skipn_N w a ++ b.
Proof.
  intros H. rewrite !skipn_N_eq. rewrite skipn_app.
  replace (N.to_nat w - length a)%nat with O by (unfold nlen in H; lia). reflexivity.
Qed.

(* the slice in the middle *)
Lemma sub_mid (P S Q : list N) : sub (P ++ S ++ Q) (nlen P) (nlen S) = S.
Proof. unfold sub. rewrite skipn_N_app_exact. apply firstn_N_app_exact. Qed.

Lemma sub_inner (P S Q : list N) j n : j + n <= nlen S -> sub (P ++ S ++ Q) (nlen P + j) n = sub S j n.
Proof.
  intros H. unfold sub. rewrite skipn_N_add, skipn_N_app_exact.
  rewrite skipn_N_app_l by lia. apply firstn_N_app_l. rewrite nlen_skipn_N. lia.
Qed.

Lemma nlen_sub l i n : i + n <= nlen l -> nlen (sub l i n) = n.
Proof. intros H. unfold sub. rewrite nlen_firstn_N, nlen_skipn_N. lia. Qed.

Lemma sub_split l i n : i + n <= nlen l ->
  l = firstn_N i l ++ sub l i n ++ skipn_N (i + n) l /\ nlen (firstn_N i l) = i.
Proof.
  intros H. split.
  - unfold sub. rewrite skipn_N_add. rewrite firstn_skipn_N. rewrite firstn_skipn_N. reflexivity.
  - rewrite nlen_firstn_N. lia.
Qed.

Lemma sub_all l : sub l 0 (nlen l) = l.
Proof. unfold sub. rewrite skipn_N_0. apply firstn_N_all. lia. Qed.

Lemma In_firstn {A} (x : A) n : forall l, In x (firstn n l) -> In x l.
Proof. induction n as [|n IH]; intros l H; [destruct H|]. destruct l; [exact H|]. destruct H as [H|H]; [left; exact H|right; apply IH; exact H]. Qed.

Lemma Forall_firstn_N {A} (P : A -> Prop) n l : Forall P l -> Forall P (firstn_N n l).
Proof. intros H. rewrite firstn_N_eq. apply Forall_forall. intros x Hx. apply In_firstn in Hx. revert x Hx. apply Forall_forall. exact H. Qed.

Lemma In_skipn {A} (x : A) n : forall l, In x (skipn n l) -> In x l.
Proof. induction n as [|n IH]; intros l H; [exact H|]. destruct l; [exact H|]. right. apply IH. exact H. Qed.

Lemma Forall_skipn_N {A} (P : A -> Prop) n l : Forall P l -> Forall P (skipn_N n l).
Proof. intros H. rewrite skipn_N_eq. apply Forall_forall. intros x Hx. apply In_skipn in Hx. revert x Hx. apply Forall_forall. exact H. Qed.

Lemma Forall_sub (P : N -> Prop) l i n : Forall P l -> Forall P (sub l i n).
Proof. intros H. unfold sub. apply Forall_firstn_N, Forall_skipn_N, H. Qed.

Lemma nth_N_mid (P S Q : list N) j : j < nlen S -> nth_N (P ++ S ++ Q) (nlen P + j) = nth_N S j.
Proof.
  intros H. unfold nth_N, nlen in *.
  rewrite nth_error_app2 by lia.
  replace (N.to_nat (N.of_nat (length P) + j) - length P)%nat with (N.to_nat j) by lia.
  apply nth_error_app1. lia.
Qed.

Lemma nth_N_in_sub l i n j : i + n <= nlen l -> j < n -> nth_N l (i + j) = nth_N (sub l i n) j.
Proof.
  intros H Hj. destruct (sub_split l i n H) as [E L].
  set (P := firstn_N i l) in *. set (S := sub l i n) in *. set (Q := skipn_N (i + n) l) in *.
  rewrite E. rewrite <- L. apply nth_N_mid. unfold S. rewrite nlen_sub; lia.
Qed.

Lemma nth_N_nth l j : j < nlen l -> nth_N l j = Some (nth (N.to_nat j) l 0).
Proof.
  intros H. unfold nth_N. apply nth_error_nth'. unfold nlen in H. lia.
Qed.

Lemma raw_at_ok site raw i : i < nlen raw -> raw_at site raw i = Ok (nth (N.to_nat i) raw 0).
Proof. intros H. unfold raw_at. rewrite nth_N_nth by exact H. reflexivity. Qed.

Lemma raw_at_mid site (P S Q : list N) j : j < nlen S ->
  raw_at site (P ++ S ++ Q) (nlen P + j) = Ok (nth (N.to_nat j) S 0).
Proof. intros H. unfold raw_at. rewrite nth_N_mid by exact H. rewrite nth_N_nth by exact H. reflexivity. Qed.

Lemma raw_at_mid0 site (P Q : list N) x : raw_at site (P ++ x :: Q) (nlen P) = Ok x.
Proof.
  replace (nlen P) with (nlen P + 0) by lia.
  change (x :: Q) with ([x] ++ Q). rewrite raw_at_mid; [reflexivity|]. unfold nlen; simpl; lia.
Qed.

Lemma raw_slice_mid site (P S Q : list N) : raw_slice site (P ++ S ++ Q) (nlen P) (nlen S) = Ok S.
Proof.
  unfold raw_slice. rewrite !nlen_app.
  destruct (N.leb_spec (nlen P + nlen S) (nlen P + (nlen S + nlen Q))); [|lia].
  f_equal. apply sub_mid.
Qed.

(* ================================================================== *)
(* 1. Little-endian integers                                           *)

Lemma lor_shift_add a b n : a < 2 ^ n -> N.lor a (N.shiftl b n) = a + b * 2 ^ n.
Proof.
  intros Ha.
  assert (D : N.land a (N.shiftl b n) = 0).
  { apply N.bits_inj. intros m. rewrite N.land_spec, N.bits_0.
    destruct (N.lt_ge_cases m n) as [Hm|Hm].
    - rewrite N.shiftl_spec_low by exact Hm. apply andb_false_r.
    - assert (E : N.testbit a m = false).
      { destruct (N.eq_dec a 0) as [->|Hz]; [apply N.bits_0|].
        apply N.bits_above_log2. apply N.log2_lt_pow2 in Ha; lia. }
      rewrite E. reflexivity. }
  rewrite <- N.lxor_lor by exact D.
  rewrite <- N.add_nocarry_lxor by exact D.
  rewrite N.shiftl_mul_pow2. reflexivity.
Qed.

Lemma le_val_2 b0 b1 : le_val [b0; b1] = b0 + 256 * b1.
Proof. cbn [le_val]. lia. Qed.

Lemma le_val_4 b0 b1 b2 b3 : le_val [b0; b1; b2; b3] = b0 + 256 * b1 + 65536 * b2 + 16777216 * b3.
Proof. cbn [le_val]. lia. Qed.

Lemma le_val_app a b : le_val (a ++ b) = le_val a + 256 ^ nlen a * le_val b.
Proof.
  induction a as [|x a IH]; cbn [app le_val].
  - change (256 ^ nlen (@nil N)) with 1. lia.
  - rewrite IH, nlen_cons. rewrite N.pow_add_r. change (256 ^ 1) with 256. lia.
Qed.

Lemma le_val_bound l : Forall lt256 l -> le_val l < 256 ^ nlen l.
Proof.
  induction 1 as [|x l Hx Hl IH]; cbn [le_val].
  - change (256 ^ nlen (@nil N)) with 1. lia.
  - rewrite nlen_cons, N.pow_add_r. change (256 ^ 1) with 256. unfold lt256 in Hx. nia.
Qed.

Lemma lor16 b0 b1 : b0 < 256 -> N.lor b0 (N.shiftl b1 8) = b0 + 256 * b1.
Proof. intros H. rewrite lor_shift_add by exact H. change (2 ^ 8) with 256. lia. Qed.

Lemma lor32 b0 b1 b2 b3 : b0 < 256 -> b1 < 256 -> b2 < 256 ->
  N.lor (N.lor b0 (N.shiftl b1 8)) (N.lor (N.shiftl b2 16) (N.shiftl b3 24))
  = b0 + 256 * b1 + 65536 * b2 + 16777216 * b3.
Proof.
  intros H0 H1 H2. rewrite lor16 by exact H0.
  rewrite (N.shiftl_mul_pow2 b2 16).
  rewrite (lor_shift_add (b2 * 2 ^ 16) b3 24) by (change (2 ^ 16) with 65536; change (2 ^ 24) with 16777216; lia).
  replace (b2 * 2 ^ 16 + b3 * 2 ^ 24) with (N.shiftl (b2 + 256 * b3) 16)
    by (rewrite N.shiftl_mul_pow2; change (2 ^ 16) with 65536; change (2 ^ 24) with 16777216; lia).
  rewrite lor_shift_add by (change (2 ^ 16) with 65536; lia).
  change (2 ^ 16) with 65536. lia.
Qed.

Lemma u16_small x : x < 65536 -> u16 x = x.
Proof. intros H. unfold u16. change 65535 with (N.ones 16). rewrite N.land_ones. apply N.mod_small. exact H. Qed.

Lemma u32_small x : x < 4294967296 -> u32 x = x.
Proof. intros H. unfold u32. change 4294967295 with (N.ones 32). rewrite N.land_ones. apply N.mod_small. exact H. Qed.

Lemma list_len2 (l : list N) : nlen l = 2 -> exists a b, l = [a; b].
Proof. destruct l as [|a [|b [|c l]]]; unfold nlen; simpl; intros H; try lia. eauto. Qed.

Lemma list_len4 (l : list N) : nlen l = 4 -> exists a b c d, l = [a; b; c; d].
Proof. destruct l as [|a [|b [|c [|d [|e l]]]]]; unfold nlen; simpl; intros H; try lia. eauto 6. Qed.

Lemma Forall2_inv2 (a b : N) : Forall lt256 [a; b] -> a < 256 /\ b < 256.
Proof. intros H. inversion H as [|? ? Ha H1]; subst. inversion H1 as [|? ? Hb H2]; subst. auto. Qed.

Lemma Forall4_inv (a b c d : N) : Forall lt256 [a; b; c; d] -> a < 256 /\ b < 256 /\ c < 256 /\ d < 256.
Proof.
  intros H. inversion H as [|? ? Ha H1]; subst. inversion H1 as [|? ? Hb H2]; subst.
  inversion H2 as [|? ? Hc H3]; subst. inversion H3 as [|? ? Hd H4]; subst. auto.
Qed.

(* the decoders return the little-endian value of the bytes they cover *)
Lemma dec_u16_sub site raw i : i + 2 <= nlen raw -> Forall lt256 (sub raw i 2) ->
  dec_u16 site raw i = Ok (le_val (sub raw i 2)).
Proof.
  intros Hl Hb.
  destruct (list_len2 (sub raw i 2) (nlen_sub _ _ _ Hl)) as (b0 & b1 & E).
  pose proof (nth_N_in_sub raw i 2 0 Hl ltac:(lia)) as N0.
  pose proof (nth_N_in_sub raw i 2 1 Hl ltac:(lia)) as N1.
  rewrite E in *. replace (i + 0) with i in N0 by lia.
  change (nth_N [b0; b1] 0) with (Some b0) in N0. change (nth_N [b0; b1] 1) with (Some b1) in N1.
  unfold dec_u16, raw_at. rewrite N0, N1. cbn [bind].
  destruct (Forall2_inv2 _ _ Hb) as [H0 H1].
  rewrite lor16 by exact H0. rewrite u16_small by lia. rewrite le_val_2. reflexivity.
Qed.

Lemma dec_u32_sub site raw i : i + 4 <= nlen raw -> Forall lt256 (sub raw i 4) ->
  dec_u32 site raw i = Ok (le_val (sub raw i 4)).
Proof.
  intros Hl Hb.
  destruct (list_len4 (sub raw i 4) (nlen_sub _ _ _ Hl)) as (b0 & b1 & b2 & b3 & E).
  pose proof (nth_N_in_sub raw i 4 0 Hl ltac:(lia)) as N0.
  pose proof (nth_N_in_sub raw i 4 1 Hl ltac:(lia)) as N1.
  pose proof (nth_N_in_sub raw i 4 2 Hl ltac:(lia)) as N2.
  pose proof (nth_N_in_sub raw i 4 3 Hl ltac:(lia)) as N3.
  rewrite E in *. replace (i + 0) with i in N0 by lia.
  change (nth_N [b0; b1; b2; b3] 0) with (Some b0) in N0. change (nth_N [b0; b1; b2; b3] 1) with (Some b1) in N1.
  change (nth_N [b0; b1; b2; b3] 2) with (Some b2) in N2. change (nth_N [b0; b1; b2; b3] 3) with (Some b3) in N3.
  unfold dec_u32, raw_at. rewrite N0, N1, N2, N3. cbn [bind].
  destruct (Forall4_inv _ _ _ _ Hb) as (H0 & H1 & H2 & H3).
  rewrite lor32 by assumption. rewrite le_val_4. reflexivity.
Qed.

Lemma sub_sub_split l i : i + 8 <= nlen l -> sub l i 8 = sub l i 4 ++ sub l (i + 4) 4.
Proof.
  intros H. unfold sub. rewrite skipn_N_add. change 8 with (4 + 4). apply firstn_N_add.
Qed.

Lemma dec_u64_sub site raw i : i + 8 <= nlen raw -> Forall lt256 (sub raw i 8) ->
  dec_u64 site raw i = Ok (le_val (sub raw i 8)).
Proof.
  intros Hl Hb. rewrite sub_sub_split in * by exact Hl.
  apply Forall_app in Hb. destruct Hb as [Hlo Hhi].
  unfold dec_u64. rewrite dec_u32_sub by (assumption || lia). cbn [bind].
  rewrite dec_u32_sub by (assumption || lia). cbn [bind].
  rewrite le_val_app. rewrite nlen_sub by lia.
  pose proof (le_val_bound _ Hlo) as B. rewrite nlen_sub in B by lia.
  rewrite lor_shift_add by (change (2 ^ 32) with (256 ^ 4); exact B).
  f_equal. change (2 ^ 32) with (256 ^ 4). lia.
Qed.

(* le_bytes *)
Lemma nlen_le_bytes k : forall v, nlen (le_bytes k v) = N.of_nat k.
Proof. induction k as [|k IH]; intros v; cbn [le_bytes]; [reflexivity|]. rewrite nlen_cons, IH. lia. Qed.

Lemma le_bytes_lt256 k : forall v, Forall lt256 (le_bytes k v).
Proof.
  induction k as [|k IH]; intros v; cbn [le_bytes]; constructor; [|apply IH].
  unfold lt256. apply N.mod_lt. discriminate.
Qed.

Lemma le_val_le_bytes k : forall v, v < 256 ^ N.of_nat k -> le_val (le_bytes k v) = v.
Proof.
  induction k as [|k IH]; intros v Hv; cbn [le_bytes le_val].
  - change (256 ^ N.of_nat 0) with 1 in Hv. lia.
  - rewrite IH.
    + pose proof (N.div_mod v 256). lia.
    + rewrite Nat2N.inj_succ, N.pow_succ_r' in Hv. apply N.div_lt_upper_bound; lia.
Qed.

(* the decoders applied at offset i of  pre ++ le_bytes k v ++ post  return v *)
Theorem dec_u16_le site pre post v : v < 65536 ->
  dec_u16 site (pre ++ le_bytes 2 v ++ post) (nlen pre) = Ok v.
Proof.
  intros Hv. pose proof (sub_mid pre (le_bytes 2 v) post) as E. rewrite nlen_le_bytes in E. change (N.of_nat 2) with 2 in E.
  rewrite dec_u16_sub.
  - rewrite E. rewrite le_val_le_bytes; [reflexivity|exact Hv].
  - rewrite !nlen_app, nlen_le_bytes. lia.
  - rewrite E. apply le_bytes_lt256.
Qed.

Theorem dec_u32_le site pre post v : v < 4294967296 ->
  dec_u32 site (pre ++ le_bytes 4 v ++ post) (nlen pre) = Ok v.
Proof.
  intros Hv. pose proof (sub_mid pre (le_bytes 4 v) post) as E. rewrite nlen_le_bytes in E. change (N.of_nat 4) with 4 in E.
  rewrite dec_u32_sub.
  - rewrite E. rewrite le_val_le_bytes; [reflexivity|exact Hv].
  - rewrite !nlen_app, nlen_le_bytes. lia.
  - rewrite E. apply le_bytes_lt256.
Qed.

Theorem dec_u64_le site pre post v : v < 18446744073709551616 ->
  dec_u64 site (pre ++ le_bytes 8 v ++ post) (nlen pre) = Ok v.
Proof.
  intros Hv. pose proof (sub_mid pre (le_bytes 8 v) post) as E. rewrite nlen_le_bytes in E. change (N.of_nat 8) with 8 in E.
  rewrite dec_u64_sub.
  - rewrite E. rewrite le_val_le_bytes; [reflexivity|exact Hv].
  - rewrite !nlen_app, nlen_le_bytes. lia.
  - rewrite E. apply le_bytes_lt256.
Qed.

Lemma length_le_bytes k v : length (le_bytes k v) = k.
Proof. pose proof (nlen_le_bytes k v) as H. unfold nlen in H. lia. Qed.

(* "at"-style forms: the caller exhibits the split of raw *)
Lemma dec_u16_at site raw i pre v post : raw = pre ++ le_bytes 2 v ++ post -> nlen pre = i -> v < 65536 ->
  dec_u16 site raw i = Ok v.
Proof. intros -> <- H. apply dec_u16_le. exact H. Qed.

Lemma dec_u32_at site raw i pre v post : raw = pre ++ le_bytes 4 v ++ post -> nlen pre = i -> v < 4294967296 ->
  dec_u32 site raw i = Ok v.
Proof. intros -> <- H. apply dec_u32_le. exact H. Qed.

Lemma raw_at_at site raw i pre x post : raw = pre ++ x :: post -> nlen pre = i -> raw_at site raw i = Ok x.
Proof. intros -> <-. apply raw_at_mid0. Qed.

Lemma raw_slice_at site raw i n pre S post : raw = pre ++ S ++ post -> nlen pre = i -> nlen S = n ->
  raw_slice site raw i n = Ok S.
Proof. intros -> <- <-. apply raw_slice_mid. Qed.

(* list equalities up to associativity of ++ *)
Ltac list_eq := repeat (progress (repeat rewrite <- app_assoc; cbn [app])); reflexivity.
(* lengths of concatenations of known pieces *)
Ltac len_tac := unfold nlen in *; repeat (progress (rewrite ?app_length, ?length_le_bytes; cbn [length])); lia.

(* ================================================================== *)
(* 2. The input stream at a member boundary                            *)

Lemma ready_stream_at bytes : ready_stream bytes = stream_at 0 bytes.
Proof. reflexivity. Qed.

Lemma stream_read r a b : 0 < nlen a ->
  lha_input_stream_read (stream_at r (a ++ b)) (nlen a) = Ok (Some a, stream_at (r + 1) b).
Proof.
  intros Ha. unfold lha_input_stream_read, stream_at. cbn [is_state bind].
  unfold read_ready. cbn [is_state is_leadin is_src].
  change (firstn_N (nlen a) (@nil N)) with (@nil N). change (skipn_N (nlen a) (@nil N)) with (@nil N).
  change (nlen (@nil N)) with 0.
  destruct (N.ltb_spec 0 (nlen a)) as [_|H]; [|lia].
  unfold raw_read. cbn [so_data so_kind so_reads so_skips].
  rewrite N.sub_0_r. rewrite firstn_N_app_exact, skipn_N_app_exact.
  replace (0 + nlen a =? nlen a) with true by (symmetry; apply N.eqb_eq; lia).
  reflexivity.
Qed.

Lemma stream_read_at r bytes n a b : bytes = a ++ b -> nlen a = n -> 0 < n ->
  lha_input_stream_read (stream_at r bytes) n = Ok (Some a, stream_at (r + 1) b).
Proof. intros -> <- H. apply stream_read. exact H. Qed.

Lemma stream_read_0 r b : lha_input_stream_read (stream_at r b) 0 = Ok (Some [], stream_at r b).
Proof.
  unfold lha_input_stream_read, stream_at. cbn [is_state bind].
  unfold read_ready. cbn [is_state is_leadin is_src]. reflexivity.
Qed.

(* extend_raw_data appends exactly the next bytes of the stream *)
Lemma extend_ok h r a b : 0 < nlen a -> nlen a <= 1048576 ->
  extend_raw_data h (stream_at r (a ++ b)) (nlen a) = Ok (Some (set_raw h (h_raw h ++ a)), stream_at (r + 1) b).
Proof.
  intros H0 H1. unfold extend_raw_data. unfold hdr_LEVEL_3_MAX_HEADER_LEN.
  destruct (N.ltb_spec 1048576 (nlen a)) as [H|_]; [lia|].
  rewrite stream_read by exact H0. reflexivity.
Qed.

Lemma extend_ok_0 h r b :
  extend_raw_data h (stream_at r b) 0 = Ok (Some (set_raw h (h_raw h ++ [])), stream_at r b).
Proof. unfold extend_raw_data. rewrite stream_read_0. reflexivity. Qed.

Lemma extend_ok_at h r bytes n a b : bytes = a ++ b -> nlen a = n -> 0 < n -> n <= 1048576 ->
  extend_raw_data h (stream_at r bytes) n = Ok (Some (set_raw h (h_raw h ++ a)), stream_at (r + 1) b).
Proof. intros -> <- H0 H1. apply extend_ok; assumption. Qed.

(* ================================================================== *)
(* 3. The level-0/1 checksum                                           *)

Lemma check_l0_checksum_ok body : check_l0_checksum body (sum_N body mod 256) = true.
Proof.
  unfold check_l0_checksum, sum_N, u32. apply N.eqb_eq.
  change 4294967295 with (N.ones 32). change 255 with (N.ones 8). rewrite !N.land_ones.
  change (2 ^ 32) with (2 ^ 8 * 2 ^ 24). rewrite N.mod_mul_r by discriminate.
  change (2 ^ 8) with 256.
  rewrite N.mul_comm, N.mod_add by discriminate. apply N.mod_mod. discriminate.
Qed.

(* ================================================================== *)
(* 4. The base header of levels 0 and 1                                *)

Lemma usub64_le a b : b <= a -> usub64 a b = a - b.
Proof. intros H. unfold usub64. destruct (N.leb_spec b a); [reflexivity|lia]. Qed.

Definition l01_body (f : fields) (lv C : N) (tailx : list N) : list N :=
  f_method f ++ le_bytes 4 C ++ le_bytes 4 (f_length f) ++ le_bytes 4 (f_time f)
  ++ [f_attr f; lv; nlen (f_name f)] ++ f_name f ++ le_bytes 2 (f_crc f) ++ tailx.

Definition l01_head (f : fields) (lv C : N) (tailx : list N) : list N :=
  [nlen (l01_body f lv C tailx) mod 256; sum_N (l01_body f lv C tailx) mod 256]
  ++ f_method f ++ le_bytes 4 C ++ le_bytes 4 (f_length f) ++ le_bytes 4 (f_time f)
  ++ [f_attr f; lv; nlen (f_name f)].

Definition l01_rest (f : fields) (tailx : list N) : list N := f_name f ++ le_bytes 2 (f_crc f) ++ tailx.

Definition l01_raw (f : fields) (lv C : N) (tailx : list N) : list N :=
  [nlen (l01_body f lv C tailx) mod 256; sum_N (l01_body f lv C tailx) mod 256] ++ l01_body f lv C tailx.

Lemma l01_raw_split f lv C tailx : l01_raw f lv C tailx = l01_head f lv C tailx ++ l01_rest f tailx.
Proof. unfold l01_raw, l01_head, l01_rest, l01_body. list_eq. Qed.

Lemma nlen_l01_body f lv C tailx : nlen (f_method f) = 5 ->
  nlen (l01_body f lv C tailx) = 22 + nlen (f_name f) + nlen tailx.
Proof. intros H. unfold l01_body. len_tac. Qed.

Lemma nlen_l01_head f lv C tailx : nlen (f_method f) = 5 -> nlen (l01_head f lv C tailx) = 22.
Proof. intros H. unfold l01_head. len_tac. Qed.

Section Levels.
  Variable mktime : N -> N -> N -> N -> Z -> N -> N.

  Definition l01_h5 (f : fields) (lv C : N) (tailx : list N) (h : header) : header :=
    set_crc (process_level0_path
      (set_os_type (set_timestamp (set_length (set_clen (set_method (set_raw h (l01_raw f lv C tailx)) (f_method f)) C)
         (f_length f)) (decode_ftime mktime (f_time f))) (if lv =? 0 then 0 else nth 0 tailx 0))
      (f_name f)) (f_crc f).

  Lemma decode_l01 f lv C tailx h r data :
    lv = 0 \/ lv = 1 -> nlen (f_method f) = 5 -> C < 4294967296 -> f_length f < 4294967296 ->
    f_time f < 4294967296 -> f_crc f < 65536 ->
    nlen (l01_body f lv C tailx) <= 255 -> (lv = 1 -> 3 <= nlen tailx) ->
    h_raw h = l01_head f lv C tailx -> h_level h = lv ->
    decode_level0_header mktime h (stream_at r (l01_rest f tailx ++ data)) =
    if (lv =? 0) && (0 <? nlen tailx) then
      h6 <- process_level0_extended_area (l01_h5 f lv C tailx h) (24 + nlen (f_name f)) (nlen tailx) ;;
      Ok (true, h6, stream_at (r + 1) data)
    else Ok (true, l01_h5 f lv C tailx h, stream_at (r + 1) data).
  Proof.
    intros Hlv Hm HC Hlen Htime Hcrc Hbody Htail Hraw Hlevel.
    pose proof (nlen_l01_body f lv C tailx Hm) as Lb.
    pose proof (nlen_l01_head f lv C tailx Hm) as Lh.
    set (body := l01_body f lv C tailx) in *.
    set (hl := nlen body mod 256). set (cs := sum_N body mod 256).
    assert (Ehl : hl = nlen body) by (apply N.mod_small; lia).
    unfold decode_level0_header.
    rewrite Hraw, Hlevel.
    (* header_len, checksum byte *)
    change (raw_at 1234 (l01_head f lv C tailx) 0) with (Ok (A := N) hl).
    change (raw_at 1235 (l01_head f lv C tailx) 1) with (Ok (A := N) cs).
    cbn [bind].
    replace (negb ((lv =? 0) || (lv =? 1))) with false by (destruct Hlv as [-> | ->]; reflexivity).
    set (min_len := if lv =? 0 then hdr_LEVEL_0_MIN_HEADER_LEN else hdr_LEVEL_1_MIN_HEADER_LEN).
    assert (Hmin : min_len + nlen (f_name f) <= hl).
    { unfold min_len, hdr_LEVEL_0_MIN_HEADER_LEN, hdr_LEVEL_1_MIN_HEADER_LEN.
      destruct Hlv as [-> | ->]; cbn [N.eqb]; [lia|]. specialize (Htail eq_refl). lia. }
    destruct (N.ltb_spec hl min_len) as [Hbad|_]; [lia|].
    rewrite Lh.
    assert (Lr : nlen (l01_rest f tailx) = hl - 20) by (unfold l01_rest; len_tac).
    rewrite usub64_le by (unfold min_len, hdr_LEVEL_0_MIN_HEADER_LEN, hdr_LEVEL_1_MIN_HEADER_LEN in Hmin; destruct (lv =? 0); lia).
    replace (hl + 2 - 22) with (nlen (l01_rest f tailx)) by lia.
    rewrite extend_ok by (unfold min_len, hdr_LEVEL_0_MIN_HEADER_LEN, hdr_LEVEL_1_MIN_HEADER_LEN in Hmin; destruct (lv =? 0); lia).
    cbn [bind].
    rewrite Hraw. rewrite <- l01_raw_split.
    set (raw := l01_raw f lv C tailx).
    set (h1 := set_raw h raw).
    change (h_raw h1) with raw.
    assert (Lraw : nlen raw = hl + 2) by (unfold raw, l01_raw; fold body; len_tac).
    rewrite Lraw. rewrite usub64_le by lia.
    rewrite (raw_slice_at 1236 raw 2 (hl + 2 - 2) [hl; cs] body []);
      [|unfold raw, l01_raw; fold body; fold hl; fold cs; rewrite app_nil_r; reflexivity|reflexivity|lia].
    cbn [bind]. unfold cs at 1. rewrite check_l0_checksum_ok. cbn [negb].
    erewrite (raw_slice_at 1237 raw 2 5 [hl; cs] (f_method f));
      [|unfold raw, l01_raw, l01_body; list_eq|reflexivity|exact Hm].
    cbn [bind].
    erewrite (dec_u32_at 1238 raw 7 ([hl; cs] ++ f_method f) C);
      [|unfold raw, l01_raw, l01_body; list_eq|len_tac|exact HC].
    cbn [bind].
    erewrite (dec_u32_at 1239 raw 11 ([hl; cs] ++ f_method f ++ le_bytes 4 C) (f_length f));
      [|unfold raw, l01_raw, l01_body; list_eq|len_tac|exact Hlen].
    cbn [bind].
    erewrite (dec_u32_at 1240 raw 15 ([hl; cs] ++ f_method f ++ le_bytes 4 C ++ le_bytes 4 (f_length f)) (f_time f));
      [|unfold raw, l01_raw, l01_body; list_eq|len_tac|exact Htime].
    cbn [bind].
    erewrite (raw_at_at 1241 raw 21
               ([hl; cs] ++ f_method f ++ le_bytes 4 C ++ le_bytes 4 (f_length f) ++ le_bytes 4 (f_time f) ++ [f_attr f; lv])
               (nlen (f_name f)));
      [|unfold raw, l01_raw, l01_body; list_eq|len_tac].
    cbn [bind].
    destruct (N.ltb_spec hl (min_len + nlen (f_name f))) as [Hbad|_]; [lia|].
    set (h2 := set_timestamp _ _).
    change (h_level h2) with (h_level h). rewrite Hlevel.
    set (pre22 := [hl; cs] ++ f_method f ++ le_bytes 4 C ++ le_bytes 4 (f_length f) ++ le_bytes 4 (f_time f)
                  ++ [f_attr f; lv; nlen (f_name f)]).
    assert (L22 : nlen pre22 = 22) by (unfold pre22; len_tac).
    assert (Eos : (if lv =? 0 then Ok OS_TYPE_UNKNOWN else raw_at 1242 raw (24 + nlen (f_name f)))
                  = Ok (if lv =? 0 then 0 else nth 0 tailx 0)).
    { destruct Hlv as [-> | ->]; cbn [N.eqb]; [reflexivity|]. specialize (Htail eq_refl).
      replace (24 + nlen (f_name f)) with (nlen (pre22 ++ f_name f ++ le_bytes 2 (f_crc f)) + 0) by len_tac.
      replace raw with ((pre22 ++ f_name f ++ le_bytes 2 (f_crc f)) ++ tailx ++ [])
        by (unfold raw, l01_raw, l01_body, pre22; rewrite app_nil_r; list_eq).
      rewrite raw_at_mid by lia. reflexivity. }
    rewrite Eos. cbn [bind].
    erewrite (raw_slice_at 1243 raw 22 (nlen (f_name f)) pre22 (f_name f));
      [|unfold raw, l01_raw, l01_body, pre22; list_eq|exact L22|reflexivity].
    cbn [bind].
    erewrite (dec_u16_at 1244 raw (22 + nlen (f_name f)) (pre22 ++ f_name f) (f_crc f));
      [|unfold raw, l01_raw, l01_body, pre22; list_eq|len_tac|exact Hcrc].
    cbn [bind].
    set (h5 := l01_h5 f lv C tailx h).
    change (set_crc (process_level0_path (set_os_type h2 (if lv =? 0 then 0 else nth 0 tailx 0)) (f_name f)) (f_crc f)) with h5.
    assert (E5 : h_level h5 = lv).
    { unfold h5, l01_h5. cbn [h_level set_crc]. unfold process_level0_path.
      destruct (f_name f); [exact Hlevel|]. unfold split_header_filename. cbn [h_filename set_filename].
      destruct (last_index _ _ _ _); exact Hlevel. }
    rewrite E5.
    replace (hdr_LEVEL_0_MIN_HEADER_LEN + nlen (f_name f) <? hl) with (0 <? nlen tailx).
    2:{ unfold hdr_LEVEL_0_MIN_HEADER_LEN. destruct (N.ltb_spec 0 (nlen tailx)); destruct (N.ltb_spec (22 + nlen (f_name f)) hl); lia || reflexivity. }
    destruct ((lv =? 0) && (0 <? nlen tailx)) eqn:Earea; [|reflexivity].
    unfold hdr_LEVEL_0_MIN_HEADER_LEN.
    replace (22 + 2 + nlen (f_name f)) with (24 + nlen (f_name f)) by lia.
    replace (hl - 22 - nlen (f_name f)) with (nlen tailx) by lia.
    reflexivity.
  Qed.
End Levels.

(* ---- the level-0 extended area ---- *)

Lemma list_len5 (l : list N) : nlen l = 5 -> exists a b c d e, l = [a; b; c; d; e].
Proof. destruct l as [|a [|b [|c [|d [|e [|x l]]]]]]; unfold nlen; simpl; intros H; try lia. eauto 7. Qed.

(* strncmp(method, "-pm", 3) on the C string = comparison of the first three bytes *)
Lemma pm_test m : nlen m = 5 ->
  bytes_eqb (firstn 3 (cstr m)) [45; 112; 109] = bytes_eqb (firstn 3 m) [45; 112; 109].
Proof.
  intros H. destruct (list_len5 m H) as (a & b & c & d & e & ->).
  cbn [cstr firstn].
  destruct (N.eqb_spec a 0) as [->|Ha]; [reflexivity|].
  destruct (N.eqb_spec b 0) as [->|Hb].
  { cbn [firstn]. unfold bytes_eqb. cbn -[N.eqb]. rewrite andb_false_r. reflexivity. }
  destruct (N.eqb_spec c 0) as [->|Hc].
  { cbn [firstn]. unfold bytes_eqb. cbn -[N.eqb]. rewrite !andb_false_r. reflexivity. }
  reflexivity.
Qed.

Lemma dec_u16_mid site (P S Q : list N) j : j + 2 <= nlen S -> Forall lt256 S ->
  dec_u16 site (P ++ S ++ Q) (nlen P + j) = Ok (le_val (sub S j 2)).
Proof.
  intros H F. rewrite dec_u16_sub.
  - rewrite sub_inner by exact H. reflexivity.
  - rewrite !nlen_app. lia.
  - rewrite sub_inner by exact H. apply Forall_sub. exact F.
Qed.

Lemma dec_u32_mid site (P S Q : list N) j : j + 4 <= nlen S -> Forall lt256 S ->
  dec_u32 site (P ++ S ++ Q) (nlen P + j) = Ok (le_val (sub S j 4)).
Proof.
  intros H F. rewrite dec_u32_sub.
  - rewrite sub_inner by exact H. reflexivity.
  - rewrite !nlen_app. lia.
  - rewrite sub_inner by exact H. apply Forall_sub. exact F.
Qed.

Lemma dec_u64_mid site (P S Q : list N) j : j + 8 <= nlen S -> Forall lt256 S ->
  dec_u64 site (P ++ S ++ Q) (nlen P + j) = Ok (le_val (sub S j 8)).
Proof.
  intros H F. rewrite dec_u64_sub.
  - rewrite sub_inner by exact H. reflexivity.
  - rewrite !nlen_app. lia.
  - rewrite sub_inner by exact H. apply Forall_sub. exact F.
Qed.

Lemma l0_area f h P : f_level f = 0 -> h_method h = f_method f -> nlen (f_method f) = 5 ->
  Forall lt256 (f_area f) -> h_raw h = P ++ f_area f -> 0 < nlen (f_area f) ->
  process_level0_extended_area h (nlen P) (nlen (f_area f)) = Ok (norm_area f h).
Proof.
  intros Hlv Hm Hm5 Hb Hraw Hne.
  unfold process_level0_extended_area, norm_area.
  rewrite Hlv, Hm, (pm_test _ Hm5). cbn [N.eqb andb].
  replace (nlen (f_area f) =? 0) with false by (symmetry; apply N.eqb_neq; lia). cbn [negb andb].
  destruct (bytes_eqb (firstn 3 (f_method f)) [45; 112; 109]); [reflexivity|]. cbn [negb].
  set (ar := f_area f) in *.
  assert (Eraw : h_raw h = P ++ ar ++ []) by (rewrite app_nil_r; exact Hraw).
  rewrite Eraw.
  replace (nlen P) with (nlen P + 0) at 1 by lia. rewrite raw_at_mid by lia. cbn [bind].
  change (N.to_nat 0) with O.
  set (a0 := nth 0 ar 0).
  unfold OS_TYPE_UNIX, OS_TYPE_OS9_68K, OS_TYPE_OS9.
  destruct ((a0 =? 85) || (a0 =? 75)) eqn:EU.
  - (* Unix / OS-9/68k area *)
    assert (E57 : (a0 =? 57) = false).
    { apply orb_true_iff in EU. destruct EU as [E|E]; apply N.eqb_eq in E; rewrite E; reflexivity. }
    unfold process_level0_unix_area, hdr_LEVEL_0_UNIX_EXTENDED_LEN. rewrite Eraw.
    destruct (N.ltb_spec (nlen ar) 12) as [Hs|Hs].
    { replace (12 <=? nlen ar) with false by (symmetry; apply N.leb_gt; exact Hs).
      rewrite E57. reflexivity. }
    replace (12 <=? nlen ar) with true by (symmetry; apply N.leb_le; exact Hs). cbn [andb].
    rewrite raw_at_mid by lia. cbn [bind]. change (N.to_nat 1) with 1%nat.
    destruct (nth 1 ar 0 =? 0) eqn:E1; cbn [negb]; [|rewrite E57; reflexivity].
    replace (nlen P) with (nlen P + 0) at 1 by lia. rewrite raw_at_mid by lia. cbn [bind].
    rewrite dec_u32_mid by (assumption || lia). cbn [bind].
    replace (nlen P + nlen ar - 6) with (nlen P + (nlen ar - 6)) by lia.
    replace (nlen P + nlen ar - 4) with (nlen P + (nlen ar - 4)) by lia.
    replace (nlen P + nlen ar - 2) with (nlen P + (nlen ar - 2)) by lia.
    rewrite !dec_u16_mid by (assumption || lia). cbn [bind].
    reflexivity.
  - destruct (a0 =? 57) eqn:E9; [|reflexivity].
    (* OS-9 area *)
    unfold process_level0_os9_area, hdr_LEVEL_0_OS9_EXTENDED_LEN. rewrite Eraw.
    destruct (N.ltb_spec (nlen ar) 22) as [Hs|Hs].
    { replace (22 <=? nlen ar) with false by (symmetry; apply N.leb_gt; exact Hs). reflexivity. }
    replace (22 <=? nlen ar) with true by (symmetry; apply N.leb_le; exact Hs). cbn [andb].
    rewrite !raw_at_mid by lia. cbn [bind].
    change (N.to_nat 9) with 9%nat. change (N.to_nat 1) with 1%nat. change (N.to_nat 17) with 17%nat.
    change (N.to_nat 2) with 2%nat. change (N.to_nat 18) with 18%nat.
    destruct (nth 9 ar 0 =? 204); cbn [negb orb andb]; [|reflexivity].
    destruct (nth 1 ar 0 =? nth 17 ar 0); cbn [negb orb andb]; [|reflexivity].
    destruct (nth 2 ar 0 =? nth 18 ar 0); cbn [negb orb andb]; [|reflexivity].
    rewrite dec_u16_mid by (assumption || lia). cbn [bind].
    reflexivity.
Qed.

(* ================================================================== *)
(* 5. What wf_fields gives; invariants of norm_decoded                 *)

Ltac split_andb :=
  repeat match goal with
  | H : _ && _ = true |- _ => apply andb_true_iff in H; destruct H
  end.

Lemma wf_common f : wf_fields f = true ->
  nlen (f_method f) = 5 /\ Forall lt256 (f_method f) /\ f_clen f < 4294967296 /\ f_length f < 4294967296 /\
  f_time f < 4294967296 /\ f_attr f < 256 /\ f_os f < 256 /\ f_crc f < 65536 /\
  Forall lt256 (f_name f) /\ Forall lt256 (f_area f).
Proof.
  unfold wf_fields. intros H. split_andb.
  repeat match goal with H : bytes_ok _ = true |- _ => apply bytes_ok_Forall in H end.
  repeat split; try assumption; try (apply N.ltb_lt; assumption). apply N.eqb_eq. assumption.
Qed.

Lemma wf_l0 f : wf_fields f = true -> f_level f = 0 ->
  22 + nlen (f_name f) + nlen (f_area f) <= 255 /\ f_exts f = [].
Proof.
  unfold wf_fields. intros H L. rewrite L in H. split_andb.
  split; [apply N.leb_le; assumption|]. destruct (f_exts f); [reflexivity|discriminate].
Qed.

Lemma land_lor_2_4 x : N.land (N.lor x 2) 4 = N.land x 4.
Proof. rewrite N.land_lor_distr_l. change (N.land 2 4) with 0. apply N.lor_0_r. Qed.

Lemma land_lor_8_4 x : N.land (N.lor x 8) 4 = N.land x 4.
Proof. rewrite N.land_lor_distr_l. change (N.land 8 4) with 0. apply N.lor_0_r. Qed.

Ltac destruct_ifs :=
  repeat match goal with |- context [if ?c then _ else _] => destruct c end.

Lemma norm_ext_method cc h e : h_method (norm_ext cc h e) = h_method h.
Proof. unfold norm_ext. destruct e as [t p]. destruct_ifs; reflexivity. Qed.

Lemma norm_ext_raw cc h e : h_raw (norm_ext cc h e) = h_raw h.
Proof. unfold norm_ext. destruct e as [t p]. destruct_ifs; reflexivity. Qed.

Lemma norm_ext_level cc h e : h_level (norm_ext cc h e) = h_level h.
Proof. unfold norm_ext. destruct e as [t p]. destruct_ifs; reflexivity. Qed.

Definition ccrc_inv (cc : N) (h : header) : Prop := has_flag h F_CCRC = true -> h_common_crc h = cc.

Lemma norm_ext_ccrc_inv cc h e : ccrc_inv cc h -> ccrc_inv cc (norm_ext cc h e).
Proof.
  unfold ccrc_inv, norm_ext, has_flag. destruct e as [t p]. intros I.
  destruct_ifs; try exact I; try (intros _; reflexivity);
    cbn [h_extra_flags h_common_crc set_win_times set_unix_perms set_unix_uid set_unix_gid set_os9_perms add_flag
         set_extra_flags set_filename set_path set_unix_group set_unix_username set_timestamp];
    unfold F_CCRC, F_WINTS, F_PERMS, F_UIDGID, F_OS9;
    rewrite ?land_lor_8_4, ?land_lor_1_4, ?land_lor_2_4, ?land_lor_16_4; exact I.
Qed.

Lemma fold_norm_ext_inv (Q : header -> Prop) cc :
  (forall h e, Q h -> Q (norm_ext cc h e)) -> forall exts h, Q h -> Q (fold_left (norm_ext cc) exts h).
Proof. intros St exts. induction exts as [|e r IH]; intros h H; [exact H|]. cbn [fold_left]. apply IH, St, H. Qed.

Lemma fold_norm_ext_method cc exts : forall h, h_method (fold_left (norm_ext cc) exts h) = h_method h.
Proof. induction exts as [|e r IH]; intros h; [reflexivity|]. cbn [fold_left]. rewrite IH. apply norm_ext_method. Qed.

Lemma fold_norm_ext_raw cc exts : forall h, h_raw (fold_left (norm_ext cc) exts h) = h_raw h.
Proof. induction exts as [|e r IH]; intros h; [reflexivity|]. cbn [fold_left]. rewrite IH. apply norm_ext_raw. Qed.

Section Decoded.
  Variable mktime : N -> N -> N -> N -> Z -> N -> N.

  Lemma norm_name_keeps f h : h_method (norm_name f h) = h_method h /\ h_raw (norm_name f h) = h_raw h
    /\ h_extra_flags (norm_name f h) = h_extra_flags h.
  Proof. unfold norm_name. destruct_ifs; [|auto]. destruct (split_name _). auto. Qed.

  Lemma norm_area_keeps f h : h_method (norm_area f h) = h_method h /\ h_raw (norm_area f h) = h_raw h.
  Proof. unfold norm_area. destruct_ifs; auto. Qed.

  Lemma norm_area_flags f h : h_extra_flags h = 0 -> has_flag (norm_area f h) F_CCRC = false.
  Proof.
    intros E. unfold norm_area, has_flag. destruct_ifs;
      cbn [h_extra_flags add_flag set_extra_flags set_unix_gid set_unix_uid set_unix_perms set_timestamp set_os_type set_os9_perms];
      rewrite E; reflexivity.
  Qed.

  Lemma norm_decoded_method f : h_method (norm_decoded mktime f) = f_method f.
  Proof.
    unfold norm_decoded. rewrite fold_norm_ext_method.
    destruct (norm_area_keeps f (norm_name f (norm_fixed mktime f))) as [-> _].
    destruct (norm_name_keeps f (norm_fixed mktime f)) as [-> _]. reflexivity.
  Qed.

  Lemma norm_decoded_raw f : h_raw (norm_decoded mktime f) = encode_zeroed f.
  Proof.
    unfold norm_decoded. rewrite fold_norm_ext_raw.
    destruct (norm_area_keeps f (norm_name f (norm_fixed mktime f))) as [_ ->].
    destruct (norm_name_keeps f (norm_fixed mktime f)) as (_ & -> & _). reflexivity.
  Qed.

  Lemma norm_decoded_ccrc f : ccrc_inv (common_crc_of f) (norm_decoded mktime f).
  Proof.
    unfold norm_decoded. apply fold_norm_ext_inv; [intros; apply norm_ext_ccrc_inv; assumption|].
    unfold ccrc_inv. rewrite norm_area_flags; [discriminate|].
    destruct (norm_name_keeps f (norm_fixed mktime f)) as (_ & _ & ->). reflexivity.
  Qed.

  (* the tail of lha_file_header_read on the decoded header of a record whose
     zeroed encoding consists of bytes *)
  Lemma post_decoded f st : nlen (f_method f) = 5 -> Forall lt256 (encode_zeroed f) ->
    post (norm_decoded mktime f) st = Ok (normalise mktime f, st).
  Proof.
    intros Hm Hb. rewrite normalise_finish. apply (post_spec mktime).
    - rewrite norm_decoded_method. lia.
    - intros Hf. rewrite (norm_decoded_ccrc f Hf). rewrite norm_decoded_raw.
      unfold common_crc_of. apply crc16_is_arc_proof; [lia|exact Hb].
  Qed.
End Decoded.

(* ================================================================== *)
(* 6. The encoder produces bytes                                       *)

Definition ext_bytes (e : N * list N) : Prop := fst e < 256 /\ Forall lt256 (snd e).

Lemma ext_chain_lt256 fs exts : Forall ext_bytes exts -> Forall lt256 (ext_chain fs exts).
Proof.
  induction 1 as [|[t p] r [Ht Hp] Hr IH]; cbn [ext_chain]; [constructor|].
  constructor; [exact Ht|]. apply Forall_app; split; [exact Hp|].
  apply Forall_app; split; [apply le_bytes_lt256|exact IH].
Qed.

Lemma patch_ccrc_bytes b0 b1 exts : b0 < 256 -> b1 < 256 -> Forall ext_bytes exts -> Forall ext_bytes (patch_ccrc b0 b1 exts).
Proof.
  intros H0 H1 H. unfold patch_ccrc. induction H as [|[t p] r [Ht Hp] Hr IH]; cbn [map]; [constructor|].
  constructor; [|exact IH]. destruct (is_ccrc (t, p)); [|split; assumption].
  split; [exact Ht|]. cbn [snd fst]. constructor; [exact H0|]. constructor; [exact H1|]. apply Forall_skipn_N. exact Hp.
Qed.

Ltac bytes_tac :=
  repeat first [ apply Forall_nil | assumption | apply le_bytes_lt256
               | apply Forall_app; split | apply Forall_cons
               | (unfold lt256; apply N.mod_lt; discriminate) | (unfold lt256; lia) ].

Lemma encode_with_lt256 f exts :
  Forall lt256 (f_method f) -> f_attr f < 256 -> f_os f < 256 -> Forall lt256 (f_name f) -> Forall lt256 (f_area f) ->
  (f_level f <= 1 -> nlen (f_name f) < 256) -> Forall ext_bytes exts ->
  Forall lt256 (encode_with f exts).
Proof.
  intros Hm Ha Ho Hn Har Hnl He.
  pose proof (ext_chain_lt256 2 exts He) as C2. pose proof (ext_chain_lt256 4 exts He) as C4.
  unfold encode_with. revert Hnl.
  destruct (f_level f) as [|[[[]|[]|]|[[]|[]|]|]]; intros Hnl; try apply Forall_nil;
    try (specialize (Hnl ltac:(lia))); bytes_tac.
Qed.

(* ================================================================== *)
(* 7. Level 0 complete                                                 *)

Section Level0.
  Variable mktime : N -> N -> N -> N -> Z -> N -> N.

  Lemma l01_h5_keeps f lv C tailx h :
    h_method (l01_h5 mktime f lv C tailx h) = f_method f /\ h_raw (l01_h5 mktime f lv C tailx h) = l01_raw f lv C tailx.
  Proof.
    unfold l01_h5. cbn [h_method h_raw set_crc]. unfold process_level0_path.
    destruct (f_name f); [split; reflexivity|]. unfold split_header_filename. cbn [h_filename set_filename].
    destruct (last_index _ _ _ _); split; reflexivity.
  Qed.

  Lemma l01_h5_level f lv C tailx h : h_level (l01_h5 mktime f lv C tailx h) = h_level h.
  Proof.
    unfold l01_h5. cbn [h_level set_crc]. unfold process_level0_path.
    destruct (f_name f); [reflexivity|]. unfold split_header_filename. cbn [h_filename set_filename].
    destruct (last_index _ _ _ _); reflexivity.
  Qed.

  (* the model's base-header fields = the specification's, level 0 *)
  Lemma l0_h5_spec f : f_level f = 0 -> f_exts f = [] ->
    l01_h5 mktime f 0 (f_clen f) (f_area f) (set_level (header0 (l01_head f 0 (f_clen f) (f_area f))) 0)
    = norm_name f (norm_fixed mktime f).
  Proof.
    intros Hlv Hex. unfold l01_h5, norm_name, norm_fixed, encode_zeroed, encode_with. rewrite Hlv.
    cbn [N.leb N.compare N.ltb N.eqb andb patch_ccrc map].
    change (l01_raw f 0 (f_clen f) (f_area f)) with
      ([nlen (l01_body f 0 (f_clen f) (f_area f)) mod 256; sum_N (l01_body f 0 (f_clen f) (f_area f)) mod 256]
       ++ l01_body f 0 (f_clen f) (f_area f)).
    unfold l01_body.
    unfold process_level0_path, split_name, replace_byte.
    destruct (f_name f) as [|c nm] eqn:En.
    - reflexivity.
    - replace (nlen (c :: nm) =? 0) with false by (symmetry; apply N.eqb_neq; rewrite nlen_cons; lia).
      cbn [negb]. unfold split_header_filename. cbn [h_filename set_filename].
      destruct (last_index _ 47 0 None); reflexivity.
  Qed.

  Theorem header_roundtrip_l0 : forall f data, wf_fields f = true -> f_level f = 0 ->
    lha_file_header_read mktime (ready_stream (encode_header f ++ data)) =
    Ok (normalise mktime f, ready_stream_after f data).
  Proof.
    intros f data Hwf Hlv.
    destruct (wf_common f Hwf) as (Hm5 & Hmb & Hclen & Hlen & Htime & Hattr & Hos & Hcrc & Hnb & Hab).
    destruct (wf_l0 f Hwf Hlv) as [Hsz Hex].
    assert (Eenc : encode_header f = l01_raw f 0 (f_clen f) (f_area f)).
    { unfold encode_header, encode_with. rewrite Hlv. reflexivity. }
    assert (Ezero : encode_zeroed f = l01_raw f 0 (f_clen f) (f_area f)).
    { unfold encode_zeroed, encode_with. rewrite Hlv. reflexivity. }
    pose proof (nlen_l01_body f 0 (f_clen f) (f_area f) Hm5) as Lb.
    pose proof (nlen_l01_head f 0 (f_clen f) (f_area f) Hm5) as Lh.
    rewrite lha_file_header_read_unfold, ready_stream_at, Eenc, l01_raw_split, <- app_assoc.
    set (head := l01_head f 0 (f_clen f) (f_area f)) in *.
    unfold hdr_COMMON_HEADER_LEN. rewrite (stream_read_at 0 _ 22 head _ eq_refl Lh) by lia. cbn [bind].
    erewrite (raw_at_at 1260 head 20
                ([nlen (l01_body f 0 (f_clen f) (f_area f)) mod 256; sum_N (l01_body f 0 (f_clen f) (f_area f)) mod 256]
                 ++ f_method f ++ le_bytes 4 (f_clen f) ++ le_bytes 4 (f_length f) ++ le_bytes 4 (f_time f) ++ [f_attr f]) 0);
      [|unfold head, l01_head; list_eq|len_tac].
    cbn [bind N.eqb].
    rewrite (decode_l01 mktime f 0 (f_clen f) (f_area f)); try assumption; try reflexivity;
      [|left; reflexivity|lia|discriminate].
    cbn [N.eqb andb].
    unfold head. rewrite l0_h5_spec by assumption.
    assert (Edec : norm_decoded mktime f = norm_area f (norm_name f (norm_fixed mktime f))).
    { unfold norm_decoded. rewrite Hex. reflexivity. }
    assert (Hbytes : Forall lt256 (encode_zeroed f)).
    { apply encode_with_lt256; try assumption; [intros _; lia|]. rewrite Hex. constructor. }
    assert (Eafter : ready_stream_after f data = stream_at 2 data).
    { unfold ready_stream_after, header_reads. rewrite Hlv. reflexivity. }
    rewrite Eafter.
    destruct (N.ltb_spec 0 (nlen (f_area f))) as [Har|Har].
    - (* with an extended area *)
      set (P := [nlen (l01_body f 0 (f_clen f) (f_area f)) mod 256; sum_N (l01_body f 0 (f_clen f) (f_area f)) mod 256]
                ++ f_method f ++ le_bytes 4 (f_clen f) ++ le_bytes 4 (f_length f) ++ le_bytes 4 (f_time f)
                ++ [f_attr f; 0; nlen (f_name f)] ++ f_name f ++ le_bytes 2 (f_crc f)).
      assert (LP : nlen P = 24 + nlen (f_name f)) by (unfold P; len_tac).
      rewrite <- LP.
      rewrite (l0_area f _ P); try assumption.
      + cbn [bind negb]. rewrite <- Edec. replace (1 + 1) with 2 by reflexivity.
        apply post_decoded; assumption.
      + rewrite <- l0_h5_spec by assumption. apply l01_h5_keeps.
      + rewrite <- l0_h5_spec by assumption.
        destruct (l01_h5_keeps f 0 (f_clen f) (f_area f)
                    (set_level (header0 (l01_head f 0 (f_clen f) (f_area f))) 0)) as [_ ->].
        unfold P, l01_raw, l01_body. list_eq.
    - (* without *)
      cbn [negb].
      assert (En : norm_area f (norm_name f (norm_fixed mktime f)) = norm_name f (norm_fixed mktime f)).
      { unfold norm_area. replace (nlen (f_area f) =? 0) with true by (symmetry; apply N.eqb_eq; lia).
        rewrite andb_false_r. reflexivity. }
      rewrite <- En, <- Edec. replace (1 + 1) with 2 by reflexivity.
      apply post_decoded; assumption.
  Qed.
End Level0.

(* ================================================================== *)
(* 8. Extended headers: the per-type decoders                          *)

Definition zero_p (e : N * list N) : list N := if is_ccrc e then 0 :: 0 :: skipn_N 2 (snd e) else snd e.

(* norm_ext with the common-CRC value read from the payload *)
Definition norm_ext_p (h : header) (e : N * list N) : header := norm_ext (le_val (sub (snd e) 0 2)) h e.

Lemma set_raw_same h : set_raw h (h_raw h) = h.
Proof. destruct h; reflexivity. Qed.

Lemma list_set_app (A R : list N) x v : list_set (A ++ x :: R) (nlen A) v = A ++ v :: R.
Proof.
  induction A as [|a A IH]; [reflexivity|].
  cbn [app list_set]. rewrite nlen_cons.
  destruct (N.eqb_spec (nlen A + 1) 0) as [E|_]; [lia|].
  replace (N.pred (nlen A + 1)) with (nlen A) by lia. rewrite IH. reflexivity.
Qed.

Lemma nth_last (p : list N) d : p <> [] -> nth (length p - 1) p d = last p d.
Proof.
  induction p as [|a p IH]; intros H; [congruence|].
  destruct p as [|b p]; [reflexivity|].
  replace (length (a :: b :: p) - 1)%nat with (S (length (b :: p) - 1))%nat by (cbn [length]; lia).
  change (nth (S (length (b :: p) - 1)) (a :: b :: p) d) with (nth (length (b :: p) - 1) (b :: p) d).
  rewrite IH by discriminate. reflexivity.
Qed.

Lemma skipn_N_2 (x y : N) l : skipn_N 2 (x :: y :: l) = l.
Proof. change (skipn_N 2 (x :: y :: l)) with (skipn_N 0 l). apply skipn_N_0. Qed.

Lemma find_ext_cases t :
  find_ext ext_header_nums ext_header_min_lens ext_header_decoder_ids t =
  if t =? 0 then Some (2, 0) else if t =? 1 then Some (1, 1) else if t =? 2 then Some (1, 2)
  else if t =? 80 then Some (2, 3) else if t =? 81 then Some (4, 4) else if t =? 83 then Some (1, 5)
  else if t =? 82 then Some (1, 6) else if t =? 84 then Some (4, 7) else if t =? 65 then Some (24, 8)
  else if t =? 204 then Some (12, 9) else None.
Proof.
  unfold ext_header_nums, ext_header_min_lens, ext_header_decoder_ids. cbn [find_ext].
  rewrite !(N.eqb_sym _ t). reflexivity.
Qed.

Lemma leb_ltb_neg a b : (a <=? b) = negb (b <? a).
Proof. destruct (N.leb_spec a b), (N.ltb_spec b a); try reflexivity; lia. Qed.

(* every decoder: what it reads off raw = A ++ p ++ B at start = |A| is what the
   specification says about the payload p; only the common-CRC decoder writes *)
Lemma ext_decode_spec h t p A B : Forall lt256 p -> h_raw h = A ++ p ++ B ->
  lha_ext_header_decode h t (nlen A) (nlen p) = Ok (set_raw (norm_ext_p h (t, p)) (A ++ zero_p (t, p) ++ B)).
Proof.
  intros Hp Hraw.
  assert (Same : forall h', h_raw h' = h_raw h -> Ok (A := header) h' = Ok (set_raw h' (A ++ p ++ B))).
  { intros h' E. rewrite <- Hraw, <- E, set_raw_same. reflexivity. }
  unfold lha_ext_header_decode. rewrite find_ext_cases.
  unfold norm_ext_p, norm_ext, zero_p, is_ccrc. cbn [fst snd].
  rewrite !leb_ltb_neg.
  destruct (N.eqb_spec t 0) as [->|N0].
  { (* common CRC *)
    cbn [andb]. destruct (N.ltb_spec (nlen p) 2) as [Hs|Hs]; cbn [negb].
    - apply Same. reflexivity.
    - unfold ext_decode. rewrite Hraw.
      replace (nlen A) with (nlen A + 0) at 1 by lia. rewrite dec_u16_mid by (assumption || lia). cbn [bind].
      rewrite !nlen_app. destruct (N.ltb_spec (nlen A + 1) (nlen A + (nlen p + nlen B))) as [_|Hbad]; [|lia].
      destruct p as [|x [|y p']]; [rewrite nlen_nil in Hs; lia|rewrite nlen_cons, nlen_nil in Hs; lia|].
      rewrite skipn_N_2.
      cbn [app]. rewrite list_set_app.
      replace (nlen A + 1) with (nlen (A ++ [0])) by (rewrite nlen_app; reflexivity).
      replace (A ++ 0 :: y :: p' ++ B) with ((A ++ [0]) ++ y :: p' ++ B) by (rewrite <- app_assoc; reflexivity).
      rewrite list_set_app. rewrite <- app_assoc. reflexivity. }
  destruct (N.eqb_spec t 1) as [->|N1].
  { cbn [andb N.eqb Pos.eqb]. destruct (N.ltb_spec (nlen p) 1) as [Hs|Hs]; cbn [negb].
    - apply Same. reflexivity.
    - unfold ext_decode. rewrite Hraw, raw_slice_mid. cbn [bind]. apply Same. reflexivity. }
  destruct (N.eqb_spec t 2) as [->|N2].
  { cbn [andb N.eqb Pos.eqb]. destruct (N.ltb_spec (nlen p) 1) as [Hs|Hs]; cbn [negb].
    - apply Same. reflexivity.
    - unfold ext_decode. rewrite Hraw, raw_slice_mid. cbn [bind].
      replace (nlen A + nlen p - 1) with (nlen A + (nlen p - 1)) by lia.
      rewrite raw_at_mid by lia. cbn [bind].
      replace (N.to_nat (nlen p - 1)) with (length p - 1)%nat by (unfold nlen; lia).
      rewrite nth_last by (intros ->; rewrite nlen_nil in Hs; lia).
      apply Same. destruct (last p 0 =? 255); reflexivity. }
  destruct (N.eqb_spec t 80) as [->|N80].
  { cbn [andb N.eqb Pos.eqb]. destruct (N.eqb_spec 80 65) as [E|_]; [discriminate|]. cbn [andb].
    destruct (N.ltb_spec (nlen p) 2) as [Hs|Hs]; cbn [negb].
    - apply Same. reflexivity.
    - unfold ext_decode. rewrite Hraw.
      replace (nlen A) with (nlen A + 0) at 1 by lia. rewrite dec_u16_mid by (assumption || lia). cbn [bind].
      apply Same. reflexivity. }
  destruct (N.eqb_spec t 81) as [->|N81].
  { cbn [andb N.eqb Pos.eqb]. destruct (N.ltb_spec (nlen p) 4) as [Hs|Hs]; cbn [negb].
    - apply Same. reflexivity.
    - unfold ext_decode. rewrite Hraw.
      replace (nlen A) with (nlen A + 0) at 1 by lia. rewrite !dec_u16_mid by (assumption || lia). cbn [bind].
      apply Same. reflexivity. }
  destruct (N.eqb_spec t 83) as [->|N83].
  { cbn [andb N.eqb Pos.eqb]. destruct (N.ltb_spec (nlen p) 1) as [Hs|Hs]; cbn [negb].
    - apply Same. reflexivity.
    - unfold ext_decode. rewrite Hraw, raw_slice_mid. cbn [bind]. apply Same. reflexivity. }
  destruct (N.eqb_spec t 82) as [->|N82].
  { cbn [andb N.eqb Pos.eqb]. destruct (N.ltb_spec (nlen p) 1) as [Hs|Hs]; cbn [negb].
    - apply Same. reflexivity.
    - unfold ext_decode. rewrite Hraw, raw_slice_mid. cbn [bind]. apply Same. reflexivity. }
  destruct (N.eqb_spec t 84) as [->|N84].
  { cbn [andb N.eqb Pos.eqb]. destruct (N.ltb_spec (nlen p) 4) as [Hs|Hs]; cbn [negb].
    - apply Same. reflexivity.
    - unfold ext_decode. rewrite Hraw.
      replace (nlen A) with (nlen A + 0) at 1 by lia. rewrite dec_u32_mid by (assumption || lia). cbn [bind].
      apply Same. reflexivity. }
  destruct (N.eqb_spec t 65) as [->|N65].
  { cbn [andb N.eqb Pos.eqb]. destruct (N.ltb_spec (nlen p) 24) as [Hs|Hs]; cbn [negb].
    - apply Same. reflexivity.
    - unfold ext_decode. rewrite Hraw.
      replace (nlen A) with (nlen A + 0) at 1 by lia. rewrite !dec_u64_mid by (assumption || lia). cbn [bind].
      apply Same. reflexivity. }
  destruct (N.eqb_spec t 204) as [->|N204].
  { cbn [andb N.eqb Pos.eqb]. destruct (N.ltb_spec (nlen p) 12) as [Hs|Hs]; cbn [negb].
    - apply Same. reflexivity.
    - unfold ext_decode. rewrite Hraw. rewrite dec_u16_mid by (assumption || lia). cbn [bind].
      apply Same. reflexivity. }
  (* a type the library does not know *)
  cbn [andb]. apply Same. reflexivity.
Qed.

(* ================================================================== *)
(* 9. The extended-header walker                                       *)

Lemma nlen_zero_p e : nlen (zero_p e) = nlen (snd e).
Proof.
  unfold zero_p, is_ccrc. destruct (fst e =? 0); cbn [andb]; [|reflexivity].
  destruct (N.leb_spec 2 (nlen (snd e))) as [H|H]; [|reflexivity].
  rewrite !nlen_cons, nlen_skipn_N. lia.
Qed.

Lemma patch_zero_cons e r : patch_ccrc 0 0 (e :: r) = (fst e, zero_p e) :: patch_ccrc 0 0 r.
Proof. unfold patch_ccrc, zero_p. cbn [map]. destruct (is_ccrc e); [reflexivity|]. destruct e; reflexivity. Qed.

Lemma first_size_patch fs b0 b1 exts : first_size fs (patch_ccrc b0 b1 exts) = first_size fs exts.
Proof.
  destruct exts as [|e r]; [reflexivity|]. unfold patch_ccrc. cbn [map first_size]. unfold ext_size.
  destruct (is_ccrc e) eqn:E; [|reflexivity]. cbn [snd].
  unfold is_ccrc in E. apply andb_true_iff in E. destruct E as [_ E]. apply N.leb_le in E.
  rewrite !nlen_cons, nlen_skipn_N. lia.
Qed.

Lemma nlen_ext_chain_patch fs b0 b1 exts : nlen (ext_chain fs (patch_ccrc b0 b1 exts)) = nlen (ext_chain fs exts).
Proof.
  induction exts as [|[t p] r IH]; [reflexivity|].
  unfold patch_ccrc in *. cbn [map].
  destruct (is_ccrc (t, p)) eqn:E; cbn [fst snd ext_chain]; rewrite !nlen_cons, !nlen_app, IH, !nlen_le_bytes; [|reflexivity].
  unfold is_ccrc in E. apply andb_true_iff in E. destruct E as [_ E]. apply N.leb_le in E. cbn [snd] in E.
  rewrite !nlen_cons, nlen_skipn_N. lia.
Qed.

Lemma norm_ext_p_set_raw h e v : norm_ext_p (set_raw h v) e = set_raw (norm_ext_p h e) v.
Proof. unfold norm_ext_p, norm_ext. destruct e as [t p]. cbn [snd]. destruct_ifs; reflexivity. Qed.

Lemma set_raw_set_raw h a b : set_raw (set_raw h a) b = set_raw h b.
Proof. reflexivity. Qed.

Lemma fold_norm_ext_p_set_raw exts : forall h v w,
  set_raw (fold_left norm_ext_p exts (set_raw h v)) w = set_raw (fold_left norm_ext_p exts h) w.
Proof.
  induction exts as [|e r IH]; intros h v w; [reflexivity|].
  cbn [fold_left]. rewrite norm_ext_p_set_raw. apply IH.
Qed.

Definition ext_wf (fs : nat) (e : N * list N) : Prop :=
  fst e < 256 /\ Forall lt256 (snd e) /\ ext_size fs e < 256 ^ N.of_nat fs.

Lemma nlen_ext_chain_cons fs t p r :
  nlen (ext_chain fs ((t, p) :: r)) = ext_size fs (t, p) + nlen (ext_chain fs r).
Proof. cbn [ext_chain]. unfold ext_size. cbn [snd]. rewrite nlen_cons, !nlen_app, nlen_le_bytes. lia. Qed.

Lemma dec_size fs raw pre v post : fs = 2%nat \/ fs = 4%nat -> raw = pre ++ le_bytes fs v ++ post ->
  v < 256 ^ N.of_nat fs ->
  (if N.of_nat fs =? 4 then dec_u32 1217 raw (nlen pre) else dec_u16 1218 raw (nlen pre)) = Ok v.
Proof.
  intros [-> | ->] -> Hv.
  - change (N.of_nat 2 =? 4) with false. cbn iota. apply dec_u16_le. exact Hv.
  - change (N.of_nat 4 =? 4) with true. cbn iota. apply dec_u32_le. exact Hv.
Qed.

(* one record *)
Lemma ext_step_one fs h pre t p rest avail :
  fs = 2%nat \/ fs = 4%nat -> ext_wf fs (t, p) ->
  h_raw h = pre ++ le_bytes fs (ext_size fs (t, p)) ++ t :: p ++ rest ->
  N.of_nat fs <= nlen rest -> ext_size fs (t, p) <= avail -> nlen pre + ext_size fs (t, p) < 4294967296 ->
  ext_step (N.of_nat fs) (h, nlen pre, avail) =
  Ok (inl (set_raw (norm_ext_p h (t, p)) (pre ++ le_bytes fs (ext_size fs (t, p)) ++ t :: zero_p (t, p) ++ rest),
           nlen pre + ext_size fs (t, p), avail - ext_size fs (t, p))).
Proof.
  intros Hfs (Ht & Hp & Hsz) Hraw Hrest Hav H32.
  cbn [fst snd] in Ht, Hp.
  assert (Efs : N.of_nat fs = 2 \/ N.of_nat fs = 4) by (destruct Hfs as [-> | ->]; [left|right]; reflexivity).
  set (sz := ext_size fs (t, p)) in *.
  assert (Esz : sz = 1 + nlen p + N.of_nat fs) by reflexivity.
  unfold ext_step.
  assert (Lraw : nlen (h_raw h) = nlen pre + N.of_nat fs + 1 + nlen p + nlen rest).
  { rewrite Hraw. rewrite !nlen_app, nlen_le_bytes, nlen_cons, nlen_app. lia. }
  rewrite usub64_le by lia.
  destruct (N.leb_spec (nlen pre) (nlen (h_raw h) - N.of_nat fs)) as [_|Hbad]; [|lia].
  rewrite (dec_size fs (h_raw h) pre sz (t :: p ++ rest) Hfs Hraw Hsz). cbn [bind].
  destruct (N.eqb_spec sz 0) as [E0|_]; [lia|].
  destruct (N.ltb_spec sz (N.of_nat fs + 1)) as [Hbad|_]; [lia|].
  destruct (N.ltb_spec avail sz) as [Hbad|_]; [lia|]. cbn [orb].
  erewrite (raw_at_at 1219 (h_raw h) (nlen pre + N.of_nat fs) (pre ++ le_bytes fs sz) t);
    [|rewrite Hraw; list_eq|rewrite nlen_app, nlen_le_bytes; reflexivity].
  cbn [bind].
  replace (nlen pre + N.of_nat fs + 1) with (nlen (pre ++ le_bytes fs sz ++ [t]))
    by (rewrite !nlen_app, nlen_le_bytes; change (nlen [t]) with 1; lia).
  replace (sz - N.of_nat fs - 1) with (nlen p) by lia.
  rewrite (ext_decode_spec h t p (pre ++ le_bytes fs sz ++ [t]) rest Hp) by (rewrite Hraw; list_eq).
  cbn [bind].
  rewrite u32_small by lia. rewrite usub64_le by lia.
  do 3 f_equal. f_equal. list_eq.
Qed.

(* the terminator *)
Lemma ext_step_end fs h pre rest avail :
  fs = 2%nat \/ fs = 4%nat -> h_raw h = pre ++ le_bytes fs 0 ++ rest ->
  ext_step (N.of_nat fs) (h, nlen pre, avail) = Ok (inr (true, h)).
Proof.
  intros Hfs Hraw. unfold ext_step.
  assert (Lraw : nlen (h_raw h) = nlen pre + N.of_nat fs + nlen rest).
  { rewrite Hraw. rewrite !nlen_app, nlen_le_bytes. lia. }
  rewrite usub64_le by lia.
  destruct (N.leb_spec (nlen pre) (nlen (h_raw h) - N.of_nat fs)) as [_|Hbad]; [|lia].
  rewrite (dec_size fs (h_raw h) pre 0 rest Hfs Hraw) by (apply N.neq_0_lt_0, N.pow_nonzero; discriminate).
  reflexivity.
Qed.

(* the walk over a whole chain: the decoders are applied to the records in
   order (a fold), the common-CRC fields are zeroed, and the walk ends
   successfully at the terminator *)
Lemma ext_walk fs : fs = 2%nat \/ fs = 4%nat -> forall exts pre h avail,
  Forall (ext_wf fs) exts ->
  h_raw h = pre ++ le_bytes fs (first_size fs exts) ++ ext_chain fs exts ->
  nlen (ext_chain fs exts) <= avail -> nlen pre + nlen (ext_chain fs exts) < 4294967296 ->
  loops (ext_step (N.of_nat fs)) (length exts) (h, nlen pre, avail)
    (true, set_raw (fold_left norm_ext_p exts h)
                   (pre ++ le_bytes fs (first_size fs exts) ++ ext_chain fs (patch_ccrc 0 0 exts))).
Proof.
  intros Hfs. induction exts as [|[t p] r IH]; intros pre h avail Hwf Hraw Hav H32.
  - cbn [length fold_left first_size ext_chain patch_ccrc map] in *. apply loops_done.
    rewrite (ext_step_end fs h pre [] avail Hfs Hraw). rewrite <- Hraw, set_raw_same. reflexivity.
  - inversion Hwf as [|? ? Hwf1 Hwfr]; subst.
    rewrite nlen_ext_chain_cons in Hav, H32.
    cbn [first_size ext_chain] in Hraw.
    cbn [length]. eapply loops_more.
    + apply (ext_step_one fs h pre t p (le_bytes fs (first_size fs r) ++ ext_chain fs r) avail Hfs Hwf1 Hraw).
      * rewrite nlen_app, nlen_le_bytes. lia.
      * lia.
      * lia.
    + set (sz := ext_size fs (t, p)) in *.
      set (pre2 := pre ++ le_bytes fs sz ++ t :: zero_p (t, p)).
      assert (L2 : nlen pre2 = nlen pre + sz).
      { unfold pre2, sz, ext_size. cbn [snd]. rewrite !nlen_app, nlen_le_bytes, nlen_cons, nlen_zero_p. cbn [snd]. lia. }
      rewrite <- L2.
      set (h2 := set_raw (norm_ext_p h (t, p)) _).
      assert (Hraw2 : h_raw h2 = pre2 ++ le_bytes fs (first_size fs r) ++ ext_chain fs r).
      { unfold h2, pre2. cbn [h_raw set_raw]. list_eq. }
      specialize (IH pre2 h2 (avail - sz) Hwfr Hraw2 ltac:(lia) ltac:(lia)).
      replace (set_raw (fold_left norm_ext_p ((t, p) :: r) h)
                 (pre ++ le_bytes fs (first_size fs ((t, p) :: r)) ++ ext_chain fs (patch_ccrc 0 0 ((t, p) :: r))))
        with (set_raw (fold_left norm_ext_p r h2)
                 (pre2 ++ le_bytes fs (first_size fs r) ++ ext_chain fs (patch_ccrc 0 0 r))); [exact IH|].
      unfold h2. rewrite fold_norm_ext_p_set_raw. cbn [fold_left]. f_equal.
      rewrite patch_zero_cons. cbn [fst ext_chain first_size]. rewrite first_size_patch.
      unfold pre2. fold sz. list_eq.
Qed.

(* decode_extended_headers on a serialised chain *)
Lemma decode_ext_chain fs exts pre h :
  fs = 2%nat \/ fs = 4%nat -> (if h_level h =? 3 then 4 else 2) = N.of_nat fs ->
  Forall (ext_wf fs) exts ->
  h_raw h = pre ++ le_bytes fs (first_size fs exts) ++ ext_chain fs exts ->
  nlen pre + nlen (ext_chain fs exts) < 4294967296 -> (length exts < 2 ^ 22)%nat ->
  decode_extended_headers h (nlen pre) =
  Ok (true, set_raw (fold_left norm_ext_p exts h)
                    (pre ++ le_bytes fs (first_size fs exts) ++ ext_chain fs (patch_ccrc 0 0 exts))).
Proof.
  intros Hfs Hlv Hwf Hraw H32 Hn. unfold decode_extended_headers. rewrite Hlv.
  eapply loop_complete; [|exact Hn].
  apply (ext_walk fs Hfs exts pre h _ Hwf Hraw); [|exact H32].
  rewrite Hraw. rewrite !nlen_app, nlen_le_bytes.
  rewrite (usub64_le (nlen pre + (N.of_nat fs + nlen (ext_chain fs exts))) (nlen pre)) by lia. rewrite usub64_le by lia. lia.
Qed.

(* ---- from the payload-reading fold to the specification's fold ---- *)

Lemma norm_ext_set_raw cc h e v : norm_ext cc (set_raw h v) e = set_raw (norm_ext cc h e) v.
Proof. unfold norm_ext. destruct e as [t p]. destruct_ifs; reflexivity. Qed.

Lemma fold_norm_ext_set_raw cc exts : forall h v,
  fold_left (norm_ext cc) exts (set_raw h v) = set_raw (fold_left (norm_ext cc) exts h) v.
Proof.
  induction exts as [|e r IH]; intros h v; [reflexivity|].
  cbn [fold_left]. rewrite norm_ext_set_raw. apply IH.
Qed.

Lemma norm_ext_cc_irrelevant c1 c2 h e : is_ccrc e = false -> norm_ext c1 h e = norm_ext c2 h e.
Proof.
  unfold is_ccrc, norm_ext. destruct e as [t p]. cbn [fst snd]. intros E. rewrite E. reflexivity.
Qed.

Lemma le_val_c c l : c < 65536 -> le_val (sub (c mod 256 :: c / 256 :: l) 0 2) = c.
Proof.
  intros H. unfold sub. rewrite skipn_N_0.
  change (firstn_N 2 (c mod 256 :: c / 256 :: l)) with (c mod 256 :: c / 256 :: firstn_N 0 l).
  rewrite firstn_N_0. rewrite le_val_2. pose proof (N.div_mod c 256). lia.
Qed.

Lemma norm_ext_p_patched c h e : c < 65536 ->
  norm_ext_p h (if is_ccrc e then (fst e, c mod 256 :: c / 256 :: skipn_N 2 (snd e)) else e) = norm_ext c h e.
Proof.
  intros Hc. destruct (is_ccrc e) eqn:E.
  - unfold norm_ext_p. cbn [snd]. rewrite le_val_c by exact Hc.
    unfold is_ccrc in E. apply andb_true_iff in E. destruct E as [E1 E2].
    unfold norm_ext. destruct e as [t p]. cbn [fst snd] in *. rewrite E1, E2. cbn [andb].
    replace (2 <=? nlen (c mod 256 :: c / 256 :: skipn_N 2 p)) with true; [reflexivity|].
    symmetry. apply N.leb_le. rewrite !nlen_cons. lia.
  - unfold norm_ext_p. apply norm_ext_cc_irrelevant. exact E.
Qed.

Lemma fold_patched c exts : c < 65536 -> forall h,
  fold_left norm_ext_p (patch_ccrc (c mod 256) (c / 256) exts) h = fold_left (norm_ext c) exts h.
Proof.
  intros Hc. induction exts as [|e r IH]; intros h; [reflexivity|].
  unfold patch_ccrc in *. cbn [map fold_left]. rewrite norm_ext_p_patched by exact Hc. apply IH.
Qed.

Lemma patch_patch b0 b1 exts : patch_ccrc 0 0 (patch_ccrc b0 b1 exts) = patch_ccrc 0 0 exts.
Proof.
  unfold patch_ccrc. rewrite map_map. apply map_ext. intros e.
  destruct (is_ccrc e) eqn:E; [|rewrite E; reflexivity].
  assert (E' : is_ccrc (fst e, b0 :: b1 :: skipn_N 2 (snd e)) = true).
  { unfold is_ccrc in *. apply andb_true_iff in E. destruct E as [E1 E2]. cbn [fst snd]. rewrite E1. cbn [andb].
    apply N.leb_le. rewrite !nlen_cons. lia. }
  rewrite E'. cbn [fst snd]. rewrite skipn_N_2. reflexivity.
Qed.

Lemma ext_wf_patch fs b0 b1 exts : b0 < 256 -> b1 < 256 ->
  Forall (ext_wf fs) exts -> Forall (ext_wf fs) (patch_ccrc b0 b1 exts).
Proof.
  intros H0 H1 H. unfold patch_ccrc. induction H as [|e r (Ht & Hp & Hs) Hr IH]; cbn [map]; [constructor|].
  constructor; [|exact IH]. destruct (is_ccrc e) eqn:E; [|repeat split; assumption].
  unfold ext_wf. cbn [fst snd]. split; [exact Ht|]. split.
  - constructor; [exact H0|]. constructor; [exact H1|]. apply Forall_skipn_N. exact Hp.
  - unfold ext_size in *. cbn [snd]. unfold is_ccrc in E. apply andb_true_iff in E. destruct E as [_ E].
    apply N.leb_le in E. rewrite !nlen_cons, nlen_skipn_N. lia.
Qed.

Lemma ext_ok_wf fs limit exts : limit = 256 ^ N.of_nat fs ->
  forallb (ext_ok fs limit) exts = true -> Forall (ext_wf fs) exts /\ Forall ext_bytes exts.
Proof.
  intros -> H. rewrite forallb_forall in H. split; apply Forall_forall; intros e He; specialize (H e He);
    unfold ext_ok in H; split_andb; unfold ext_wf, ext_bytes.
  - repeat split; [apply N.ltb_lt; assumption|apply bytes_ok_Forall; assumption|apply N.ltb_lt; assumption].
  - split; [apply N.ltb_lt; assumption|apply bytes_ok_Forall; assumption].
Qed.

Lemma crc_bytes c : c < 65536 -> c mod 256 < 256 /\ c / 256 < 256.
Proof. intros H. split; [apply N.mod_lt; discriminate|apply N.div_lt_upper_bound; lia]. Qed.

Lemma crc_bitwise_range bs : Forall lt256 bs -> crc_bitwise 0 bs < 65536.
Proof.
  intros H. rewrite <- crc16_is_arc_proof by (assumption || lia). apply lha_crc16_buf_range. lia.
Qed.

Lemma nat_lt_pow22 (k : nat) : N.of_nat k < 4194304 -> (k < 2 ^ 22)%nat.
Proof.
  intros H. assert (E : N.of_nat (2 ^ 22) = 4194304) by (rewrite Nat2N.inj_pow; reflexivity).
  lia.
Qed.

Lemma length_exts_le_chain fs exts : (length exts <= N.to_nat (nlen (ext_chain fs exts)))%nat.
Proof.
  induction exts as [|[t p] r IH]; [cbn; lia|].
  cbn [ext_chain length]. rewrite nlen_cons, !nlen_app. lia.
Qed.

(* ================================================================== *)
(* 10. From the walker to norm_decoded (all levels with extended headers) *)

Section ExtDecoded.
  Variable mktime : N -> N -> N -> N -> Z -> N -> N.

  Definition enc_exts (f : fields) : list (N * list N) :=
    patch_ccrc (common_crc_of f mod 256) (common_crc_of f / 256) (f_exts f).

  Lemma ext_decoded f fs pre h3 :
    fs = 2%nat \/ fs = 4%nat -> (if h_level h3 =? 3 then 4 else 2) = N.of_nat fs ->
    Forall (ext_wf fs) (f_exts f) -> Forall lt256 (encode_zeroed f) ->
    h_raw h3 = pre ++ le_bytes fs (first_size fs (enc_exts f)) ++ ext_chain fs (enc_exts f) ->
    encode_zeroed f = pre ++ le_bytes fs (first_size fs (f_exts f)) ++ ext_chain fs (patch_ccrc 0 0 (f_exts f)) ->
    set_raw h3 (encode_zeroed f) = norm_area f (norm_name f (norm_fixed mktime f)) ->
    nlen pre + nlen (ext_chain fs (f_exts f)) < 4294967296 -> (length (f_exts f) < 2 ^ 22)%nat ->
    decode_extended_headers h3 (nlen pre) = Ok (true, norm_decoded mktime f).
  Proof.
    intros Hfs Hlv Hwf Hb Hraw Hz Hfix H32 Hn.
    pose proof (crc_bitwise_range _ Hb) as Hc. fold (common_crc_of f) in Hc.
    destruct (crc_bytes _ Hc) as [Hc0 Hc1].
    unfold enc_exts in *.
    rewrite (decode_ext_chain fs _ pre h3 Hfs Hlv (ext_wf_patch fs _ _ _ Hc0 Hc1 Hwf) Hraw).
    - rewrite patch_patch, first_size_patch, fold_patched by exact Hc.
      rewrite <- Hz. rewrite <- fold_norm_ext_set_raw. rewrite Hfix. reflexivity.
    - rewrite nlen_ext_chain_patch. exact H32.
    - unfold patch_ccrc. rewrite map_length. exact Hn.
  Qed.
End ExtDecoded.

(* ================================================================== *)
(* 11. Levels 2 and 3                                                  *)

Definition F24 (f : fields) (L lv : N) : list N :=
  le_bytes 2 L ++ f_method f ++ le_bytes 4 (f_clen f) ++ le_bytes 4 (f_length f) ++ le_bytes 4 (f_time f)
  ++ [f_attr f; lv] ++ le_bytes 2 (f_crc f) ++ [f_os f].

Definition H22 (f : fields) (L lv : N) : list N :=
  le_bytes 2 L ++ f_method f ++ le_bytes 4 (f_clen f) ++ le_bytes 4 (f_length f) ++ le_bytes 4 (f_time f)
  ++ [f_attr f; lv; f_crc f mod 256].

Lemma F24_split f L lv : F24 f L lv = H22 f L lv ++ [f_crc f / 256 mod 256; f_os f].
Proof. unfold F24, H22. cbn [le_bytes]. list_eq. Qed.

Lemma nlen_F24 f L lv : nlen (f_method f) = 5 -> nlen (F24 f L lv) = 24.
Proof. intros H. unfold F24. len_tac. Qed.

Lemma nlen_H22 f L lv : nlen (f_method f) = 5 -> nlen (H22 f L lv) = 22.
Proof. intros H. unfold H22. len_tac. Qed.

Lemma l23_fields h f L lv tail :
  nlen (f_method f) = 5 -> f_clen f < 4294967296 -> f_length f < 4294967296 -> f_time f < 4294967296 ->
  f_crc f < 65536 -> h_raw h = F24 f L lv ++ tail ->
  decode_l23_fields h =
  Ok (set_os_type (set_crc (set_timestamp (set_length (set_clen (set_method h (f_method f)) (f_clen f)) (f_length f))
        (f_time f)) (f_crc f)) (f_os f)).
Proof.
  intros Hm Hc Hl Ht Hcrc Hraw. unfold decode_l23_fields. rewrite Hraw.
  erewrite (raw_slice_at 1245 _ 2 5 (le_bytes 2 L) (f_method f)); [|unfold F24; list_eq|reflexivity|exact Hm].
  cbn [bind].
  erewrite (dec_u32_at 1246 _ 7 (le_bytes 2 L ++ f_method f) (f_clen f)); [|unfold F24; list_eq|len_tac|exact Hc].
  cbn [bind].
  erewrite (dec_u32_at 1247 _ 11 (le_bytes 2 L ++ f_method f ++ le_bytes 4 (f_clen f)) (f_length f));
    [|unfold F24; list_eq|len_tac|exact Hl].
  cbn [bind].
  erewrite (dec_u32_at 1248 _ 15 (le_bytes 2 L ++ f_method f ++ le_bytes 4 (f_clen f) ++ le_bytes 4 (f_length f)) (f_time f));
    [|unfold F24; list_eq|len_tac|exact Ht].
  cbn [bind].
  erewrite (dec_u16_at 1249 _ 21 (le_bytes 2 L ++ f_method f ++ le_bytes 4 (f_clen f) ++ le_bytes 4 (f_length f)
                                  ++ le_bytes 4 (f_time f) ++ [f_attr f; lv]) (f_crc f));
    [|unfold F24; list_eq|len_tac|exact Hcrc].
  cbn [bind].
  erewrite (raw_at_at 1250 _ 23 (le_bytes 2 L ++ f_method f ++ le_bytes 4 (f_clen f) ++ le_bytes 4 (f_length f)
                                  ++ le_bytes 4 (f_time f) ++ [f_attr f; lv] ++ le_bytes 2 (f_crc f)) (f_os f));
    [|unfold F24; list_eq|len_tac].
  reflexivity.
Qed.

Lemma wf_l2 f : wf_fields f = true -> f_level f = 2 ->
  Forall (ext_wf 2) (f_exts f) /\ Forall ext_bytes (f_exts f) /\
  26 + nlen (ext_chain 2 (f_exts f)) < 65536 /\
  (f_os f = 75 -> 2 <= nlen (ext_chain 2 (f_exts f))).
Proof.
  unfold wf_fields. intros H L. rewrite L in H. split_andb.
  match goal with H : forallb _ _ = true |- _ => apply (ext_ok_wf 2 65536 _ eq_refl) in H; destruct H end.
  repeat split; try assumption.
  - apply N.ltb_lt. assumption.
  - intros E. match goal with H : negb _ || _ = true |- _ => rewrite E in H; cbn [N.eqb Pos.eqb negb orb OS9_68K] in H;
      apply N.leb_le in H end. lia.
Qed.

Lemma wf_l3 f : wf_fields f = true -> f_level f = 3 ->
  Forall (ext_wf 4) (f_exts f) /\ Forall ext_bytes (f_exts f) /\
  32 + nlen (ext_chain 4 (f_exts f)) <= 1048576.
Proof.
  unfold wf_fields. intros H L. rewrite L in H. split_andb.
  match goal with H : forallb _ _ = true |- _ => apply (ext_ok_wf 4 4294967296 _ eq_refl) in H; destruct H end.
  repeat split; try assumption. apply N.leb_le. assumption.
Qed.

Lemma ext_chain_nil_iff fs exts : nlen (ext_chain fs exts) = 0 -> exts = [].
Proof. destruct exts as [|[t p] r]; [reflexivity|]. cbn [ext_chain]. rewrite nlen_cons. lia. Qed.

Section Level23.
  Variable mktime : N -> N -> N -> N -> Z -> N -> N.

  Lemma norm_pre_23 f : 2 <= f_level f -> norm_area f (norm_name f (norm_fixed mktime f)) = norm_fixed mktime f.
  Proof.
    intros H. unfold norm_area, norm_name.
    replace (f_level f <=? 1) with false by (symmetry; apply N.leb_gt; lia).
    replace (f_level f =? 0) with false by (symmetry; apply N.eqb_neq; lia).
    reflexivity.
  Qed.

  Theorem header_roundtrip_l2 : forall f data, wf_fields f = true -> f_level f = 2 ->
    lha_file_header_read mktime (ready_stream (encode_header f ++ data)) =
    Ok (normalise mktime f, ready_stream_after f data).
  Proof.
    intros f data Hwf Hlv.
    destruct (wf_common f Hwf) as (Hm5 & Hmb & Hclen & Hlen & Htime & Hattr & Hos & Hcrc & Hnb & Hab).
    destruct (wf_l2 f Hwf Hlv) as (Hewf & Hebytes & Htot & HK).
    set (n := nlen (ext_chain 2 (f_exts f))) in *.
    set (L := if f_os f =? OS9_68K then 26 + n - 2 else 26 + n).
    assert (HL : 26 <= L < 65536).
    { unfold L, OS9_68K. destruct (N.eqb_spec (f_os f) 75) as [E|_]; [specialize (HK E)|]; lia. }
    assert (Hbytes : Forall lt256 (encode_zeroed f)).
    { apply encode_with_lt256; try assumption; [rewrite Hlv; lia|].
      apply patch_ccrc_bytes; [lia|lia|assumption]. }
    assert (Lch : forall b0 b1, nlen (ext_chain 2 (patch_ccrc b0 b1 (f_exts f))) = n)
      by (intros; apply nlen_ext_chain_patch).
    assert (Eenc : encode_header f = F24 f L 2 ++ le_bytes 2 (first_size 2 (enc_exts f)) ++ ext_chain 2 (enc_exts f)).
    { unfold encode_header, encode_with. rewrite Hlv. fold (enc_exts f).
      unfold L, F24, enc_exts. rewrite Lch. fold n.
      replace (2 + nlen (f_method f ++ le_bytes 4 (f_clen f) ++ le_bytes 4 (f_length f) ++ le_bytes 4 (f_time f)
                 ++ [f_attr f; 2] ++ le_bytes 2 (f_crc f) ++ [f_os f]
                 ++ le_bytes 2 (first_size 2 (patch_ccrc (common_crc_of f mod 256) (common_crc_of f / 256) (f_exts f)))) + n)
        with (26 + n) by len_tac.
      list_eq. }
    assert (Ezero : encode_zeroed f = F24 f L 2 ++ le_bytes 2 (first_size 2 (f_exts f))
                                      ++ ext_chain 2 (patch_ccrc 0 0 (f_exts f))).
    { unfold encode_zeroed, encode_with. rewrite Hlv. unfold L, F24. rewrite Lch, first_size_patch. fold n.
      replace (2 + nlen (f_method f ++ le_bytes 4 (f_clen f) ++ le_bytes 4 (f_length f) ++ le_bytes 4 (f_time f)
                 ++ [f_attr f; 2] ++ le_bytes 2 (f_crc f) ++ [f_os f] ++ le_bytes 2 (first_size 2 (f_exts f))) + n)
        with (26 + n) by len_tac.
      list_eq. }
    set (T := le_bytes 2 (first_size 2 (enc_exts f)) ++ ext_chain 2 (enc_exts f)) in *.
    assert (LT : nlen T = 2 + n) by (unfold T, enc_exts; rewrite nlen_app, nlen_le_bytes, Lch; reflexivity).
    pose proof (nlen_F24 f L 2 Hm5) as LF. pose proof (nlen_H22 f L 2 Hm5) as LH.
    rewrite lha_file_header_read_unfold, ready_stream_at, Eenc, F24_split, <- !app_assoc.
    unfold hdr_COMMON_HEADER_LEN. rewrite (stream_read_at 0 _ 22 (H22 f L 2) _ eq_refl LH) by lia. cbn [bind].
    erewrite (raw_at_at 1260 (H22 f L 2) 20
                (le_bytes 2 L ++ f_method f ++ le_bytes 4 (f_clen f) ++ le_bytes 4 (f_length f) ++ le_bytes 4 (f_time f)
                 ++ [f_attr f]) 2); [|unfold H22; list_eq|len_tac].
    cbn [bind N.eqb Pos.eqb].
    set (h0 := set_level (header0 (H22 f L 2)) 2).
    unfold decode_level2_header.
    erewrite (dec_u16_at 1251 (h_raw h0) 0 [] L); [|unfold h0, H22; cbn [h_raw set_level header0]; list_eq|reflexivity|lia].
    cbn [bind]. unfold hdr_LEVEL_2_HEADER_LEN.
    destruct (N.ltb_spec L 26) as [Hbad|_]; [lia|].
    change (nlen (h_raw h0)) with (nlen (H22 f L 2)). rewrite LH. rewrite usub64_le by lia.
    assert (Eafter : ready_stream_after f data = stream_at (if f_os f =? OS9_68K then 3 else 2) data).
    { unfold ready_stream_after, header_reads. rewrite Hlv. reflexivity. }
    rewrite Eafter.
    assert (Fin : forall h3 st, h_raw h3 = encode_header f ->
              set_raw h3 (encode_zeroed f) = norm_fixed mktime f -> h_level h3 = 2 ->
              ('(ok, h4) <- decode_extended_headers h3 24 ;;
               (Ok (ok, h4, st) : outcome (bool * header * istream))) = Ok (true, norm_decoded mktime f, st)).
    { intros h3 st R3 F3 L3. rewrite <- LF.
      rewrite (ext_decoded mktime f 2 (F24 f L 2) h3); try assumption; try reflexivity.
      - left; reflexivity.
      - rewrite L3. reflexivity.
      - rewrite R3, Eenc. reflexivity.
      - rewrite F3. symmetry. apply norm_pre_23. rewrite Hlv. lia.
      - fold n. lia.
      - pose proof (length_exts_le_chain 2 (f_exts f)) as Q. fold n in Q.
        apply nat_lt_pow22. lia. }
    unfold OS9_68K in *.
    destruct (N.eqb_spec (f_os f) 75) as [EK|NK].
    - (* OS-9/68k: the length field is two short; two more bytes are read *)
      specialize (HK EK).
      assert (EL : L = 24 + n) by (unfold L; cbv iota; lia).
      set (T1 := firstn_N n T). set (T2 := skipn_N n T).
      assert (ET : T = T1 ++ T2) by (symmetry; apply firstn_skipn_N).
      assert (L1 : nlen T1 = n) by (unfold T1; rewrite nlen_firstn_N; lia).
      assert (L2 : nlen T2 = 2) by (unfold T2; rewrite nlen_skipn_N; lia).
      erewrite (extend_ok_at h0 1 _ (L - 22) ([f_crc f / 256 mod 256; f_os f] ++ T1) (T2 ++ data));
        [|rewrite ET; list_eq|rewrite nlen_app, L1; change (nlen [f_crc f / 256 mod 256; f_os f]) with 2; lia|lia|lia].
      cbn [bind].
      set (h1 := set_raw h0 _).
      assert (R1 : h_raw h1 = F24 f L 2 ++ T1).
      { unfold h1, h0. cbn [h_raw set_raw set_level header0]. rewrite F24_split. list_eq. }
      rewrite (l23_fields h1 f L 2 T1) by assumption. cbn [bind].
      set (h2 := set_os_type _ _).
      change (h_os_type h2) with (f_os f). rewrite EK. unfold OS_TYPE_OS9_68K. cbn [N.eqb Pos.eqb].
      rewrite <- L2. rewrite extend_ok by lia. cbn [bind].
      rewrite Fin.
      + cbn [bind negb]. apply post_decoded; assumption.
      + cbn [h_raw set_raw]. change (h_raw h2) with (h_raw h1). rewrite R1, Eenc, ET. list_eq.
      + unfold norm_fixed. rewrite Hlv. reflexivity.
      + reflexivity.
    - (* any other system *)
      assert (EL : L = 26 + n) by (unfold L; cbv iota; reflexivity).
      erewrite (extend_ok_at h0 1 _ (L - 22) ([f_crc f / 256 mod 256; f_os f] ++ T) data);
        [|list_eq|rewrite nlen_app, LT; change (nlen [f_crc f / 256 mod 256; f_os f]) with 2; lia|lia|lia].
      cbn [bind].
      set (h1 := set_raw h0 _).
      assert (R1 : h_raw h1 = F24 f L 2 ++ T).
      { unfold h1, h0. cbn [h_raw set_raw set_level header0]. rewrite F24_split. list_eq. }
      rewrite (l23_fields h1 f L 2 T) by assumption. cbn [bind].
      set (h2 := set_os_type _ _).
      change (h_os_type h2) with (f_os f). unfold OS_TYPE_OS9_68K.
      destruct (N.eqb_spec (f_os f) 75) as [E|_]; [congruence|]. cbn [bind].
      rewrite Fin.
      + cbn [bind negb]. apply post_decoded; assumption.
      + change (h_raw h2) with (h_raw h1). rewrite R1, Eenc. reflexivity.
      + unfold norm_fixed. rewrite Hlv. reflexivity.
      + reflexivity.
  Qed.
End Level23.

Lemma extend_any h r a b : nlen a <= 1048576 ->
  extend_raw_data h (stream_at r (a ++ b)) (nlen a) =
  Ok (Some (set_raw h (h_raw h ++ a)), stream_at (if nlen a =? 0 then r else r + 1) b).
Proof.
  intros H. destruct (N.eqb_spec (nlen a) 0) as [E|E].
  - rewrite E. apply nlen_zero_nil in E. subst a. apply extend_ok_0.
  - apply extend_ok; lia.
Qed.

Section Level3.
  Variable mktime : N -> N -> N -> N -> Z -> N -> N.

  Theorem header_roundtrip_l3 : forall f data, wf_fields f = true -> f_level f = 3 ->
    lha_file_header_read mktime (ready_stream (encode_header f ++ data)) =
    Ok (normalise mktime f, ready_stream_after f data).
  Proof.
    intros f data Hwf Hlv.
    destruct (wf_common f Hwf) as (Hm5 & Hmb & Hclen & Hlen & Htime & Hattr & Hos & Hcrc & Hnb & Hab).
    destruct (wf_l3 f Hwf Hlv) as (Hewf & Hebytes & Htot).
    set (n := nlen (ext_chain 4 (f_exts f))) in *.
    assert (Hbytes : Forall lt256 (encode_zeroed f)).
    { apply encode_with_lt256; try assumption; [rewrite Hlv; lia|].
      apply patch_ccrc_bytes; [lia|lia|assumption]. }
    assert (Lch : forall b0 b1, nlen (ext_chain 4 (patch_ccrc b0 b1 (f_exts f))) = n)
      by (intros; apply nlen_ext_chain_patch).
    set (P28 := F24 f 4 3 ++ le_bytes 4 (32 + n)).
    assert (Eenc : encode_header f = P28 ++ le_bytes 4 (first_size 4 (enc_exts f)) ++ ext_chain 4 (enc_exts f)).
    { unfold encode_header, encode_with. rewrite Hlv. fold (enc_exts f).
      unfold P28, F24, enc_exts. rewrite Lch. fold n.
      replace (2 + nlen (f_method f ++ le_bytes 4 (f_clen f) ++ le_bytes 4 (f_length f) ++ le_bytes 4 (f_time f)
                 ++ [f_attr f; 3] ++ le_bytes 2 (f_crc f) ++ [f_os f]) + 4 + 4 + n)
        with (32 + n) by len_tac.
      list_eq. }
    assert (Ezero : encode_zeroed f = P28 ++ le_bytes 4 (first_size 4 (f_exts f))
                                      ++ ext_chain 4 (patch_ccrc 0 0 (f_exts f))).
    { unfold encode_zeroed, encode_with. rewrite Hlv. unfold P28, F24. rewrite Lch, first_size_patch. fold n.
      replace (2 + nlen (f_method f ++ le_bytes 4 (f_clen f) ++ le_bytes 4 (f_length f) ++ le_bytes 4 (f_time f)
                 ++ [f_attr f; 3] ++ le_bytes 2 (f_crc f) ++ [f_os f]) + 4 + 4 + n)
        with (32 + n) by len_tac.
      list_eq. }
    set (first := le_bytes 4 (first_size 4 (enc_exts f))) in *.
    set (ch := ext_chain 4 (enc_exts f)) in *.
    assert (Lc : nlen ch = n) by (unfold ch, enc_exts; apply Lch).
    pose proof (nlen_F24 f 4 3 Hm5) as LF. pose proof (nlen_H22 f 4 3 Hm5) as LH.
    assert (LP : nlen P28 = 28) by (unfold P28; rewrite nlen_app, LF, nlen_le_bytes; reflexivity).
    rewrite lha_file_header_read_unfold, ready_stream_at, Eenc. unfold P28. rewrite F24_split, <- !app_assoc.
    unfold hdr_COMMON_HEADER_LEN. rewrite (stream_read_at 0 _ 22 (H22 f 4 3) _ eq_refl LH) by lia. cbn [bind].
    erewrite (raw_at_at 1260 (H22 f 4 3) 20
                (le_bytes 2 4 ++ f_method f ++ le_bytes 4 (f_clen f) ++ le_bytes 4 (f_length f) ++ le_bytes 4 (f_time f)
                 ++ [f_attr f]) 3); [|unfold H22; list_eq|len_tac].
    cbn [bind N.eqb Pos.eqb].
    set (h0 := set_level (header0 (H22 f 4 3)) 3).
    unfold decode_level3_header.
    erewrite (dec_u16_at 1252 (h_raw h0) 0 [] 4); [|unfold h0, H22; cbn [h_raw set_level header0]; list_eq|reflexivity|lia].
    cbn [bind N.eqb Pos.eqb negb]. unfold hdr_LEVEL_3_HEADER_LEN, hdr_LEVEL_3_MAX_HEADER_LEN.
    change (nlen (h_raw h0)) with (nlen (H22 f 4 3)). rewrite LH. rewrite usub64_le by lia.
    erewrite (extend_ok_at h0 1 _ (32 - 22) ([f_crc f / 256 mod 256; f_os f] ++ le_bytes 4 (32 + n) ++ first) (ch ++ data));
      [|list_eq|unfold first; len_tac|lia|lia].
    cbn [bind].
    set (h1 := set_raw h0 _).
    assert (R1 : h_raw h1 = P28 ++ first).
    { unfold h1, h0, P28. cbn [h_raw set_raw set_level header0]. rewrite F24_split. list_eq. }
    erewrite (dec_u32_at 1253 (h_raw h1) 24 (F24 f 4 3) (32 + n)); [|rewrite R1; unfold P28; list_eq|exact LF|lia].
    cbn [bind].
    assert (L1 : nlen (h_raw h1) = 32) by (rewrite R1, nlen_app, LP; unfold first; rewrite nlen_le_bytes; reflexivity).
    rewrite L1.
    destruct (N.ltb_spec 1048576 (32 + n)) as [Hbad|_]; [lia|].
    destruct (N.ltb_spec (32 + n) 32) as [Hbad|_]; [lia|]. cbn [orb].
    replace (32 + n - 32) with (nlen ch) by lia.
    rewrite extend_any by lia. cbn [bind].
    set (h2 := set_raw h1 _).
    assert (R2 : h_raw h2 = encode_header f).
    { unfold h2. cbn [h_raw set_raw]. rewrite R1, Eenc. list_eq. }
    rewrite (l23_fields h2 f 4 3 (le_bytes 4 (32 + n) ++ first ++ ch)) by (assumption || (rewrite R2, Eenc; unfold P28; list_eq)).
    cbn [bind].
    set (h3 := set_os_type _ _).
    rewrite <- LP.
    rewrite (ext_decoded mktime f 4 P28 h3); try assumption; try reflexivity.
    - cbn [bind negb].
      assert (Eafter : ready_stream_after f data = stream_at (if nlen ch =? 0 then 1 + 1 else 1 + 1 + 1) data).
      { unfold ready_stream_after, header_reads. rewrite Hlv. rewrite Lc.
        destruct (N.eqb_spec n 0) as [E0|N0].
        - apply ext_chain_nil_iff in E0. rewrite E0. reflexivity.
        - destruct (f_exts f); [exfalso; apply N0; reflexivity|reflexivity]. }
      rewrite Eafter. apply post_decoded; assumption.
    - right; reflexivity.
    - change (h_raw h3) with (h_raw h2). rewrite R2, Eenc. reflexivity.
    - unfold h3. rewrite norm_pre_23 by (rewrite Hlv; lia). unfold norm_fixed. rewrite Hlv. reflexivity.
    - rewrite LP. fold n. lia.
    - pose proof (length_exts_le_chain 4 (f_exts f)) as Q. fold n in Q. apply nat_lt_pow22. lia.
  Qed.
End Level3.

(* ================================================================== *)
(* 12. Level 1                                                         *)

Lemma wf_l1 f : wf_fields f = true -> f_level f = 1 ->
  25 + nlen (f_name f) <= 255 /\ Forall (ext_wf 2) (f_exts f) /\ Forall ext_bytes (f_exts f) /\
  f_clen f + nlen (ext_chain 2 (f_exts f)) < 4294967296 /\ nlen (f_exts f) < 4194304 /\
  27 + nlen (f_name f) + nlen (ext_chain 2 (f_exts f)) < 4294967296.
Proof.
  unfold wf_fields. intros H L. rewrite L in H. split_andb.
  match goal with H : forallb _ _ = true |- _ => apply (ext_ok_wf 2 65536 _ eq_refl) in H; destruct H end.
  repeat split; try assumption; try (apply N.ltb_lt; assumption). apply N.leb_le. assumption.
Qed.

Lemma nat_lt_pow40 (k : nat) : N.of_nat k < 4194304 -> (k < 2 ^ 40)%nat.
Proof.
  intros H. assert (E : N.of_nat (2 ^ 40) = 1099511627776) by (rewrite Nat2N.inj_pow; reflexivity).
  lia.
Qed.

Lemma set_clen_raw_same h : set_clen (set_raw h (h_raw h)) (h_compressed_length h) = h.
Proof. destruct h; reflexivity. Qed.

(* read_l1_extended_headers: one read per record, each subtracted from the compressed size *)
Lemma l1_walk : forall exts pre h r data c,
  Forall (ext_wf 2) exts -> h_raw h = pre ++ le_bytes 2 (first_size 2 exts) ->
  h_compressed_length h = c + nlen (ext_chain 2 exts) ->
  loops l1_step (length exts) (h, stream_at r (ext_chain 2 exts ++ data))
    (true, set_clen (set_raw h (h_raw h ++ ext_chain 2 exts)) c, stream_at (r + N.of_nat (length exts)) data).
Proof.
  induction exts as [|[t p] rr IH]; intros pre h r data c Hwf Hraw Hc.
  - apply loops_done. unfold l1_step.
    assert (Lr : nlen (h_raw h) = nlen pre + 2) by (rewrite Hraw, nlen_app, nlen_le_bytes; reflexivity).
    rewrite Lr, usub64_le by lia. replace (nlen pre + 2 - 2) with (nlen pre) by lia.
    erewrite (dec_u16_at 1220 (h_raw h) (nlen pre) pre 0 []); [|rewrite Hraw; reflexivity|reflexivity|lia].
    cbn [bind N.eqb ext_chain app length N.of_nat]. rewrite N.add_0_r, app_nil_r.
    cbn [ext_chain] in Hc. change (nlen (@nil N)) with 0 in Hc. rewrite N.add_0_r in Hc.
    rewrite <- Hc, set_clen_raw_same. reflexivity.
  - inversion Hwf as [|? ? Hwf1 Hwfr]; subst. destruct Hwf1 as (Ht & Hp & Hsz). cbn [fst snd] in Ht, Hp.
    rewrite nlen_ext_chain_cons in Hc.
    set (sz := ext_size 2 (t, p)) in *.
    assert (Esz : sz = 1 + nlen p + 2) by reflexivity.
    cbn [first_size] in Hraw. fold sz in Hraw.
    cbn [length]. eapply loops_more.
    + unfold l1_step.
      assert (Lr : nlen (h_raw h) = nlen pre + 2) by (rewrite Hraw, nlen_app, nlen_le_bytes; reflexivity).
      rewrite Lr, usub64_le by lia. replace (nlen pre + 2 - 2) with (nlen pre) by lia.
      erewrite (dec_u16_at 1220 (h_raw h) (nlen pre) pre sz []); [|rewrite Hraw; reflexivity|reflexivity|exact Hsz].
      cbn [bind]. destruct (N.eqb_spec sz 0) as [E0|_]; [lia|].
      erewrite (extend_ok_at h r _ sz (t :: p ++ le_bytes 2 (first_size 2 rr)) (ext_chain 2 rr ++ data));
        [|cbn [ext_chain]; list_eq|rewrite nlen_cons, nlen_app, nlen_le_bytes; lia|lia|change (256 ^ N.of_nat 2) with 65536 in Hsz; lia].
      cbn [bind]. change (h_compressed_length (set_raw h (h_raw h ++ t :: p ++ le_bytes 2 (first_size 2 rr))))
        with (h_compressed_length h). rewrite Hc.
      destruct (N.ltb_spec (c + (sz + nlen (ext_chain 2 rr))) sz) as [Hbad|_]; [lia|].
      destruct (N.ltb_spec sz 3) as [Hbad|_]; [lia|]. reflexivity.
    + set (h2 := set_clen _ _).
      specialize (IH (pre ++ le_bytes 2 sz ++ t :: p) h2 (r + 1) data c Hwfr).
      replace (r + N.of_nat (S (length rr))) with (r + 1 + N.of_nat (length rr)) by lia.
      replace (set_clen (set_raw h (h_raw h ++ ext_chain 2 ((t, p) :: rr))) c)
        with (set_clen (set_raw h2 (h_raw h2 ++ ext_chain 2 rr)) c).
      * apply IH.
        -- unfold h2. cbn [h_raw set_clen set_raw]. rewrite Hraw. list_eq.
        -- unfold h2. cbn [h_compressed_length set_clen]. lia.
      * unfold h2. cbn [h_raw set_clen set_raw ext_chain]. unfold set_clen, set_raw. cbn. f_equal. list_eq.
Qed.

Section Level1.
  Variable mktime : N -> N -> N -> N -> Z -> N -> N.

  Theorem header_roundtrip_l1 : forall f data, wf_fields f = true -> f_level f = 1 ->
    lha_file_header_read mktime (ready_stream (encode_header f ++ data)) =
    Ok (normalise mktime f, ready_stream_after f data).
  Proof.
    intros f data Hwf Hlv.
    destruct (wf_common f Hwf) as (Hm5 & Hmb & Hclen & Hlen & Htime & Hattr & Hos & Hcrc & Hnb & Hab).
    destruct (wf_l1 f Hwf Hlv) as (Hname & Hewf & Hebytes & Hcl & Hcount & Htotal).
    set (n := nlen (ext_chain 2 (f_exts f))) in *.
    assert (Hbytes : Forall lt256 (encode_zeroed f)).
    { apply encode_with_lt256; try assumption; [intros _; lia|].
      apply patch_ccrc_bytes; [lia|lia|assumption]. }
    pose proof (crc_bitwise_range _ Hbytes) as Hcc. fold (common_crc_of f) in Hcc.
    destruct (crc_bytes _ Hcc) as [Hc0 Hc1].
    assert (Lch : forall b0 b1, nlen (ext_chain 2 (patch_ccrc b0 b1 (f_exts f))) = n)
      by (intros; apply nlen_ext_chain_patch).
    set (C := f_clen f + n).
    set (tailx := f_os f :: le_bytes 2 (first_size 2 (enc_exts f))).
    set (ch := ext_chain 2 (enc_exts f)).
    assert (Lc : nlen ch = n) by (unfold ch, enc_exts; apply Lch).
    assert (Eenc : encode_header f = l01_raw f 1 C tailx ++ ch).
    { unfold encode_header, encode_with. rewrite Hlv. fold (enc_exts f). fold ch. rewrite Lc.
      rewrite (N.mod_small (f_clen f + n)) by exact Hcl. fold C.
      unfold l01_raw, l01_body, tailx.
      replace (f_method f ++ le_bytes 4 C ++ le_bytes 4 (f_length f) ++ le_bytes 4 (f_time f)
               ++ [f_attr f; 1; nlen (f_name f)] ++ f_name f ++ le_bytes 2 (f_crc f) ++ [f_os f]
               ++ le_bytes 2 (first_size 2 (enc_exts f)))
        with (f_method f ++ le_bytes 4 C ++ le_bytes 4 (f_length f) ++ le_bytes 4 (f_time f)
               ++ [f_attr f; 1; nlen (f_name f)] ++ f_name f ++ le_bytes 2 (f_crc f)
               ++ f_os f :: le_bytes 2 (first_size 2 (enc_exts f))) by reflexivity.
      list_eq. }
    set (pre := [nlen (l01_body f 1 C tailx) mod 256; sum_N (l01_body f 1 C tailx) mod 256]
                ++ f_method f ++ le_bytes 4 C ++ le_bytes 4 (f_length f) ++ le_bytes 4 (f_time f)
                ++ [f_attr f; 1; nlen (f_name f)] ++ f_name f ++ le_bytes 2 (f_crc f) ++ [f_os f]).
    assert (Epre : l01_raw f 1 C tailx = pre ++ le_bytes 2 (first_size 2 (enc_exts f))).
    { unfold l01_raw, l01_body, tailx, pre. list_eq. }
    assert (Ltail : nlen tailx = 3) by (unfold tailx; len_tac).
    pose proof (nlen_l01_body f 1 C tailx Hm5) as Lb. rewrite Ltail in Lb.
    pose proof (nlen_l01_head f 1 C tailx Hm5) as Lh.
    assert (Lpre : nlen pre = 25 + nlen (f_name f)) by (unfold pre; len_tac).
    assert (Ezero : encode_zeroed f = pre ++ le_bytes 2 (first_size 2 (f_exts f))
                                      ++ ext_chain 2 (patch_ccrc 0 0 (f_exts f))).
    { unfold encode_zeroed, encode_with. rewrite Hlv. rewrite Lch, first_size_patch.
      rewrite (N.mod_small (f_clen f + n)) by exact Hcl. fold C.
      unfold pre, l01_body, tailx, enc_exts. rewrite first_size_patch. list_eq. }
    rewrite lha_file_header_read_unfold, ready_stream_at, Eenc, l01_raw_split, <- !app_assoc.
    set (head := l01_head f 1 C tailx) in *.
    unfold hdr_COMMON_HEADER_LEN. rewrite (stream_read_at 0 _ 22 head _ eq_refl Lh) by lia. cbn [bind].
    erewrite (raw_at_at 1260 head 20
                ([nlen (l01_body f 1 C tailx) mod 256; sum_N (l01_body f 1 C tailx) mod 256]
                 ++ f_method f ++ le_bytes 4 C ++ le_bytes 4 (f_length f) ++ le_bytes 4 (f_time f) ++ [f_attr f]) 1);
      [|unfold head, l01_head; list_eq|len_tac].
    cbn [bind N.eqb Pos.eqb].
    set (h0 := set_level (header0 head) 1).
    unfold decode_level1_header.
    replace (l01_rest f tailx ++ ch ++ data) with (l01_rest f tailx ++ (ch ++ data)) by reflexivity.
    rewrite (decode_l01 mktime f 1 C tailx h0 (0 + 1) (ch ++ data)); try assumption; try reflexivity;
      [|right; reflexivity|lia].
    cbn [N.eqb Pos.eqb andb bind negb].
    set (h1 := l01_h5 mktime f 1 C tailx h0).
    destruct (l01_h5_keeps mktime f 1 C tailx h0) as [M1 R1]. fold h1 in M1, R1.
    assert (Lraw : nlen (h_raw h1) = nlen pre + 2) by (rewrite R1, Epre, nlen_app, nlen_le_bytes; reflexivity).
    rewrite Lraw, usub64_le by lia. replace (nlen pre + 2 - 2) with (nlen pre) by lia.
    rewrite u32_small by lia.
    assert (C1 : h_compressed_length h1 = f_clen f + nlen ch).
    { unfold h1, l01_h5. cbn [h_compressed_length set_crc]. unfold process_level0_path.
      destruct (f_name f); [rewrite Lc; reflexivity|]. unfold split_header_filename. cbn [h_filename set_filename].
      destruct (last_index _ _ _ _); rewrite Lc; reflexivity. }
    assert (Hewf' : Forall (ext_wf 2) (enc_exts f)) by (apply ext_wf_patch; assumption).
    assert (Lexts : length (enc_exts f) = length (f_exts f)) by (unfold enc_exts, patch_ccrc; apply map_length).
    unfold read_l1_extended_headers. unfold ch.
    rewrite (loop_complete l1_step 40 (length (enc_exts f)) _ _
               (l1_walk (enc_exts f) pre h1 (0 + 1 + 1) data (f_clen f) Hewf' (eq_trans R1 Epre) C1))
      by (rewrite Lexts; apply nat_lt_pow40; exact Hcount).
    cbn [bind negb]. fold ch.
    set (h2 := set_clen _ _).
    rewrite (ext_decoded mktime f 2 pre h2); try assumption; try reflexivity.
    - cbn [bind negb].
      assert (Eafter : ready_stream_after f data = stream_at (0 + 1 + 1 + N.of_nat (length (enc_exts f))) data).
      { unfold ready_stream_after, header_reads. rewrite Hlv, Lexts. unfold nlen. reflexivity. }
      rewrite Eafter. apply post_decoded; assumption.
    - left; reflexivity.
    - unfold h2. cbn [h_level set_clen set_raw]. unfold h1. rewrite l01_h5_level. reflexivity.
    - unfold h2. cbn [h_raw set_clen set_raw]. rewrite R1, Epre. fold ch. list_eq.
    - (* the base-header fields *)
      assert (En : norm_area f (norm_name f (norm_fixed mktime f)) = norm_name f (norm_fixed mktime f)).
      { unfold norm_area. rewrite Hlv. reflexivity. }
      rewrite En. unfold h2, h1, l01_h5, norm_name, norm_fixed. rewrite Hlv.
      cbn [N.leb N.compare Pos.compare Pos.compare_cont N.ltb N.eqb Pos.eqb andb].
      unfold process_level0_path, split_name, replace_byte, tailx. cbn [nth].
      destruct (f_name f) as [|c nm] eqn:En'.
      + reflexivity.
      + replace (nlen (c :: nm) =? 0) with false by (symmetry; apply N.eqb_neq; rewrite nlen_cons; lia).
        cbn [negb]. unfold split_header_filename. cbn [h_filename set_filename].
        destruct (last_index _ 47 0 None); reflexivity.
    - rewrite Lpre. fold n. lia.
    - apply nat_lt_pow22. exact Hcount.
  Qed.
End Level1.

(* ================================================================== *)
(* 13. C05: every well-formed header of level 0-3 is returned with     *)
(* exactly its encoded fields, and the member's data follows           *)

Section Main.
  Variable mktime : N -> N -> N -> N -> Z -> N -> N.

  Theorem header_roundtrip : forall f data, wf_fields f = true ->
    lha_file_header_read mktime (ready_stream (encode_header f ++ data)) =
    Ok (normalise mktime f, ready_stream_after f data).
  Proof.
    intros f data Hwf.
    assert (Hl : f_level f = 0 \/ f_level f = 1 \/ f_level f = 2 \/ f_level f = 3).
    { pose proof Hwf as H. unfold wf_fields in H. apply andb_true_iff in H. destruct H as [_ H].
      destruct (f_level f) as [|[[[]|[]|]|[[]|[]|]|]]; try discriminate H; auto. }
    destruct Hl as [L|[L|[L|L]]].
    - apply header_roundtrip_l0; assumption.
    - apply header_roundtrip_l1; assumption.
    - apply header_roundtrip_l2; assumption.
    - apply header_roundtrip_l3; assumption.
  Qed.

  (* the caller's view: the data found after the header is the member's data *)
  Corollary header_roundtrip_data : forall f data, wf_fields f = true ->
    exists st, lha_file_header_read mktime (ready_stream (encode_header f ++ data)) = Ok (normalise mktime f, st)
               /\ so_data (is_src st) = data /\ is_leadin st = [] /\ is_state st = IS_READING.
  Proof.
    intros f data Hwf. exists (ready_stream_after f data). split; [apply header_roundtrip; exact Hwf|].
    repeat split.
  Qed.
End Main.

Print Assumptions collapse_path_is_collapse.
Print Assumptions lha_file_header_read_unfold.
Print Assumptions post_spec.
Print Assumptions dec_u16_le.
Print Assumptions dec_u32_le.
Print Assumptions dec_u64_le.
Print Assumptions stream_read.
Print Assumptions extend_ok.
Print Assumptions check_l0_checksum_ok.
Print Assumptions ext_decode_spec.
Print Assumptions ext_walk.
Print Assumptions decode_ext_chain.
Print Assumptions l1_walk.
Print Assumptions header_roundtrip_l0.
Print Assumptions header_roundtrip_l1.
Print Assumptions header_roundtrip_l2.
Print Assumptions header_roundtrip_l3.
Print Assumptions header_roundtrip.
Print Assumptions header_roundtrip_data.

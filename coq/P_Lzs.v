(* P_Lzs.v -- proofs about the model of lib/lzs_decoder.c (Lzs.v):
   invariant, totality of lzs_read for any input and callback, and the round
   trip serialise -> decode through the public read API. *)
From Lhasa Require Import Base ListN DecBase Loop BitReader Generated Lzs Decoder S_Larc
  P_Decoder P_BitReader.
From Coq Require Import ZifyBool ZifyN ZifyNat.
Local Open Scope N_scope.

(* ------------------------------------------------------------------ *)
(* Generic: decode_of_chunks_proof for an inner decoder that is total  *)
(* only on states satisfying a (boolean) invariant.                    *)
(* [dread_total] quantifies over ALL decoder states, which no real     *)
(* decoder satisfies (a ring of the wrong length faults); so the inner  *)
(* decoder is wrapped into one that does nothing outside the invariant, *)
(* and the wrapped and the original decoder are shown to behave the     *)
(* same from any state inside the invariant.                            *)

Section LoopExt.
  Context {S R : Type}.
  Variables f g : S -> outcome (S + R).
  Variable J : S -> Prop.
  Variable JR : R -> Prop.
  Hypothesis Hfg : forall s, J s -> f s = g s.
  Hypothesis HJ : forall s s', J s -> f s = Ok (inl s') -> J s'.
  Hypothesis HJR : forall s r, J s -> f s = Ok (inr r) -> JR r.

  Lemma loop_n_ext k : forall s, J s ->
    loop_n f k s = loop_n g k s /\
    (forall s', loop_n f k s = Ok (inl s') -> J s') /\
    (forall r, loop_n f k s = Ok (inr r) -> JR r).
  Proof.
    induction k as [|k IH]; intros s Hs.
    - cbn [loop_n]. split; [apply Hfg; exact Hs|]. split; [intros s' X; exact (HJ s s' Hs X)|intros r X; exact (HJR s r Hs X)].
    - cbn [loop_n]. destruct (IH s Hs) as (E & A & B). rewrite <- E.
      destruct (loop_n f k s) as [[s1|r1]| |]; cbn [bind].
      + apply IH. apply A. reflexivity.
      + split; [reflexivity|]. split; [intros s' X; discriminate|].
        intros r X. inversion X; subst. apply B. reflexivity.
      + repeat split; intros; discriminate.
      + repeat split; intros; discriminate.
  Qed.

  Lemma loop_ext k s : J s -> loop f k s = loop g k s /\ (forall r, loop f k s = Ok r -> JR r).
  Proof.
    intros Hs. unfold loop. destruct (loop_n_ext k s Hs) as (E & A & B). rewrite <- E.
    destruct (loop_n f k s) as [[s1|r1]| |]; cbn [bind]; (split; [reflexivity|]); intros r X;
      try discriminate. inversion X; subst. apply B. reflexivity.
  Qed.
End LoopExt.

Section GuardedDecoder.
  Context {cbs st : Type}.
  Variable dread : st -> cbs -> outcome (list N * st * cbs).
  Variable max_read block_size : N.
  Variable I : st -> cbs -> bool.
  Hypothesis HI : forall s c, I s c = true ->
    exists ch s' c', dread s c = Ok (ch, s', c') /\ nlen ch <= max_read /\ I s' c' = true.

  Definition guarded (s : st) (c : cbs) : outcome (list N * st * cbs) :=
    if I s c then dread s c else Ok ([], s, c).

  Lemma guarded_eq s c : I s c = true -> guarded s c = dread s c.
  Proof. intros H. unfold guarded. now rewrite H. Qed.

  Lemma guarded_total : dread_total guarded max_read.
  Proof.
    intros s c. unfold guarded. destruct (I s c) eqn:E.
    - destruct (HI s c E) as (ch & s' & c' & A & B & _). eauto.
    - exists [], s, c. split; [reflexivity|]. rewrite nlen_nil. lia.
  Qed.

  Notation dec := (@decoder cbs st).
  Definition dI (d : dec) : Prop := I (d_inner d) (d_cb d) = true.

  Lemma read_step_guarded B (s : @rl cbs st) : dI (rl_d s) ->
    read_step guarded max_read B s = read_step dread max_read B s.
  Proof. intros H. unfold read_step. rewrite (guarded_eq _ _ H). reflexivity. Qed.

  Lemma read_step_dI B (s : @rl cbs st) x : dI (rl_d s) ->
    read_step guarded max_read B s = Ok x -> dI (rl_d (match x with inl a => a | inr a => a end)).
  Proof.
    intros H E. rewrite (read_step_guarded B s H) in E. unfold read_step in E.
    destruct (rl_filled s <? B); [|inversion E; subst; exact H].
    destruct (d_failed (rl_d s)); [inversion E; subst; exact H|].
    destruct (skipn_N (B - rl_filled s) (d_outbuf (rl_d s))) as [|y ys].
    - destruct (HI _ _ H) as (ch & s' & c' & A & _ & C). rewrite A in E. cbn [bind] in E.
      destruct (max_read <? nlen ch); [discriminate|].
      destruct ch; inversion E; subst; exact C.
    - inversion E; subst; exact H.
  Qed.

  Lemma read_guarded (d : dec) n : dI d ->
    lha_decoder_read guarded max_read block_size d n = lha_decoder_read dread max_read block_size d n /\
    forall o ev d', lha_decoder_read guarded max_read block_size d n = Ok (o, ev, d') -> dI d'.
  Proof.
    intros H. unfold lha_decoder_read.
    set (B := if d_stream_length d <? d_stream_pos d + n then d_stream_length d - d_stream_pos d else n).
    destruct (loop_ext (read_step guarded max_read B) (read_step dread max_read B)
                (fun s => dI (rl_d s)) (fun s => dI (rl_d s))) with (k := 64%nat)
      (s := {| rl_d := d; rl_out_rev := []; rl_filled := 0 |}) as [E A].
    - intros s Hs. apply read_step_guarded. exact Hs.
    - intros s s' Hs Es. apply (read_step_dI B s (inl s') Hs Es).
    - intros s r Hs Es. apply (read_step_dI B s (inr r) Hs Es).
    - exact H.
    - rewrite <- E. split; [reflexivity|].
      destruct (loop (read_step guarded max_read B) 64 {| rl_d := d; rl_out_rev := []; rl_filled := 0 |})
        as [s| |]; cbn [bind]; try (intros; discriminate).
      specialize (A s eq_refl). intros o ev d'. cbn [d_monitor].
      destruct (d_monitor (rl_d s)); intros X; inversion X; subst; exact A.
  Qed.

  Lemma run_reads_guarded ks : forall d : dec, dI d ->
    run_reads guarded max_read block_size d ks = run_reads dread max_read block_size d ks.
  Proof.
    induction ks as [|k ks IH]; intros d H; [reflexivity|].
    cbn [run_reads]. destruct (read_guarded d k H) as [E A]. rewrite <- E.
    destruct (lha_decoder_read guarded max_read block_size d k) as [[[o ev] d1]| |].
    - cbn [bind]. rewrite (IH d1 (A o ev d1 eq_refl)). reflexivity.
    - cbn [bind]. reflexivity.
    - cbn [bind]. reflexivity.
  Qed.

  Lemma chunks_guarded chs : forall s c, I s c = true ->
    chunks_from dread max_read s c chs -> chunks_from guarded max_read s c chs.
  Proof.
    induction chs as [|ch rest IH]; intros s c H Hc; [constructor|].
    inversion Hc as [|? ? ? s' c' ? E Hne Hlen Hrest]; subst.
    destruct (HI s c H) as (ch0 & s0 & c0 & E0 & _ & H0). rewrite E in E0. inversion E0; subst.
    econstructor; [rewrite guarded_eq by exact H; exact E|exact Hne|exact Hlen|].
    apply IH; assumption.
  Qed.

  (* decode_of_chunks_proof, for a decoder that is total on an invariant *)
  Theorem decode_of_chunks_inv : forall chs s c L ks os d',
    I s c = true -> chunks_from dread max_read s c chs ->
    L <= nlen (concat chs) -> L <= sum_N ks -> sum_N ks < 2 ^ 62 ->
    run_reads dread max_read block_size (lha_decoder_new s c L) ks = Ok (os, d') ->
    concat os = firstn_N L (concat chs).
  Proof.
    intros chs s c L ks os d' H Hc HL Hk Hs Hr.
    rewrite <- run_reads_guarded in Hr by exact H.
    exact (decode_of_chunks_proof guarded max_read block_size guarded_total chs s c L ks os d'
             (chunks_guarded chs s c H Hc) HL Hk Hs Hr).
  Qed.

  (* ... and the reads do return (no fault, no fuel exhaustion) *)
  Theorem run_reads_inv_ok : forall ks s c L, I s c = true -> sum_N ks < 2 ^ 62 ->
    exists os d', run_reads dread max_read block_size (lha_decoder_new s c L) ks = Ok (os, d').
  Proof.
    intros ks s c L H Hs.
    destruct (reads_compose_proof guarded max_read block_size guarded_total ks (lha_decoder_new s c L))
      as (os & d' & A & _); [unfold pos_ok; cbn; lia|reflexivity|exact Hs|].
    rewrite run_reads_guarded in A by exact H. eauto.
  Qed.
End GuardedDecoder.

Ltac Zify.zify_post_hook ::= Z.div_mod_to_equations.

(* ------------------------------------------------------------------ *)
(* -lzs-: invariant                                                    *)

(* the part of the invariant about the ring, with the reader's part a parameter *)
Definition lzs_inv_gen (P : bsr -> Prop) (s : lzs_state) : Prop :=
  alen (lzs_ring s) = lzs_ringbuf_extent /\ lzs_pos s < lzs_RING_BUFFER_SIZE /\ P (lzs_bsr s).

Definition lzs_inv : lzs_state -> Prop := lzs_inv_gen bsr_wf.

Definition lzs_s0 : lzs_state :=
  {| lzs_bsr := bsr_init; lzs_ring := mk_arr lzs_ringbuf_extent 32;
     lzs_pos := lzs_RING_BUFFER_SIZE - lzs_START_OFFSET |}.

Lemma lzs_init_eq : lzs_init = Ok lzs_s0.
Proof. reflexivity. Qed.

Lemma lzs_s0_inv : lzs_inv lzs_s0.
Proof.
  unfold lzs_inv, lzs_inv_gen, lzs_s0. cbn [lzs_ring lzs_pos lzs_bsr mk_arr alen].
  split; [reflexivity|]. split; [unfold lzs_RING_BUFFER_SIZE, lzs_START_OFFSET; lia|apply bsr_init_wf].
Qed.

Theorem lzs_init_ok : exists s0, lzs_init = Ok s0 /\ lzs_inv s0.
Proof. exists lzs_s0. split; [apply lzs_init_eq|apply lzs_s0_inv]. Qed.

Lemma lzs_inv_weaken (P Q : bsr -> Prop) s : (forall r, P r -> Q r) -> lzs_inv_gen P s -> lzs_inv_gen Q s.
Proof. intros H (A & B & C). repeat split; auto. Qed.

(* ------------------------------------------------------------------ *)
(* output_byte / output_block: never out of bounds, and what they do   *)
(* to the ring is what the specification's ring machine does.          *)

Definition ring_of (s : lzs_state) : ring := {| r_mem := lzs_ring s; r_wpos := lzs_pos s |}.

Lemma ob_bytes_rev o : ob_bytes o = rev (ob_rev o).
Proof. unfold ob_bytes. rewrite rev_append_rev. apply app_nil_r. Qed.

Lemma lzs_output_byte_eq s o b :
  ob_len o < lzs_max_read -> alen (lzs_ring s) = lzs_ringbuf_extent -> lzs_pos s < lzs_RING_BUFFER_SIZE ->
  lzs_output_byte s o b =
  Ok ({| lzs_bsr := lzs_bsr s; lzs_ring := aset (lzs_ring s) (lzs_pos s) b;
         lzs_pos := (lzs_pos s + 1) mod lzs_RING_BUFFER_SIZE |},
      {| ob_rev := b :: ob_rev o; ob_len := ob_len o + 1 |}).
Proof.
  intros Ho Ha Hp. unfold lzs_output_byte, ob_push.
  destruct (N.ltb_spec (ob_len o) lzs_max_read) as [_|]; [|lia]. cbn [bind].
  rewrite wr_ok; [reflexivity|]. rewrite Ha. unfold lzs_ringbuf_extent, lzs_RING_BUFFER_SIZE in *. lia.
Qed.

Lemma lzs_output_block_S k s o start i : lzs_output_block (S k) s o start i =
  (b <- rd 304 (lzs_ring s) ((start + i) mod lzs_RING_BUFFER_SIZE) ;;
   '(s', o') <- lzs_output_byte s o b ;;
   lzs_output_block k s' o' start (i + 1)).
Proof. reflexivity. Qed.

Lemma ring_copy_S size k r pos out : ring_copy size (S k) r pos out =
  ring_copy size k (ring_put size r (aget (r_mem r) (pos mod size))) (pos + 1)
            (aget (r_mem r) (pos mod size) :: out).
Proof. reflexivity. Qed.

Lemma lzs_output_block_spec n : forall s o start i,
  ob_len o + N.of_nat n <= lzs_max_read ->
  alen (lzs_ring s) = lzs_ringbuf_extent -> lzs_pos s < lzs_RING_BUFFER_SIZE ->
  exists s' o', lzs_output_block n s o start i = Ok (s', o') /\
    alen (lzs_ring s') = lzs_ringbuf_extent /\ lzs_pos s' < lzs_RING_BUFFER_SIZE /\
    lzs_bsr s' = lzs_bsr s /\
    nlen (ob_rev o') = nlen (ob_rev o) + N.of_nat n /\
    forall out, ring_copy 2048 n (ring_of s) (start + i) (ob_rev o ++ out) = (ring_of s', ob_rev o' ++ out).
Proof.
  induction n as [|k IH]; intros s o start i Ho Ha Hp.
  - exists s, o. cbn [lzs_output_block ring_copy]. repeat split; auto. lia.
  - rewrite lzs_output_block_S.
    rewrite rd_ok by (rewrite Ha; unfold lzs_ringbuf_extent, lzs_RING_BUFFER_SIZE; lia).
    cbn [bind]. set (b := aget (lzs_ring s) ((start + i) mod lzs_RING_BUFFER_SIZE)).
    rewrite lzs_output_byte_eq by (try assumption; lia). cbn [bind].
    set (s1 := {| lzs_bsr := lzs_bsr s; lzs_ring := aset (lzs_ring s) (lzs_pos s) b;
                  lzs_pos := (lzs_pos s + 1) mod lzs_RING_BUFFER_SIZE |}).
    set (o1 := {| ob_rev := b :: ob_rev o; ob_len := ob_len o + 1 |}).
    destruct (IH s1 o1 start (i + 1)) as (s' & o' & E & Ha' & Hp' & Hb' & Hl' & Hc').
    + cbn [o1 ob_len]. lia.
    + cbn [s1 lzs_ring]. rewrite alen_aset. exact Ha.
    + cbn [s1 lzs_pos]. unfold lzs_RING_BUFFER_SIZE. lia.
    + exists s', o'. split; [exact E|]. split; [exact Ha'|]. split; [exact Hp'|].
      split; [rewrite Hb'; reflexivity|]. split.
      * rewrite Hl'. cbn [o1 ob_rev]. rewrite nlen_cons. lia.
      * intros out. rewrite ring_copy_S. cbn [ring_of r_mem].
        change (aget (lzs_ring s) ((start + i) mod 2048)) with b.
        replace (start + i + 1) with (start + (i + 1)) by lia.
        exact (Hc' out).
Qed.

(* ------------------------------------------------------------------ *)
(* lzs_read returns for any input and any callback                      *)

Section ReadTotal.
  Context {cbs : Type}.
  Variable cb : callback cbs.
  Variable P : bsr -> Prop.
  Hypothesis HP : forall r c n, P r -> n <= 32 ->
    exists res r' c', read_bits cb r c n = Ok (res, r', c') /\ P r' /\ (forall v, res = Some v -> v < 2 ^ n).

  Lemma lzs_read_total_gen s c : lzs_inv_gen P s ->
    exists ch s' c', lzs_read cb s c = Ok (ch, s', c') /\ nlen ch <= lzs_max_read /\ lzs_inv_gen P s'.
  Proof.
    intros (Ha & Hp & Hr). unfold lzs_read, read_bit.
    destruct (HP (lzs_bsr s) c 1 Hr) as (bit & r1 & c1 & E1 & P1 & _); [lia|].
    rewrite E1. cbn [bind]. cbv zeta.
    assert (Z : nlen (@nil N) <= lzs_max_read) by (rewrite nlen_nil; unfold lzs_max_read; lia).
    destruct bit as [bv|].
    2:{ exists [], (set_bsr s r1), c1. split; [reflexivity|]. split; [exact Z|]. repeat split; assumption. }
    destruct (negb (bv =? 0)).
    - destruct (HP r1 c1 8 P1) as (b & r2 & c2 & E2 & P2 & _); [lia|].
      rewrite E2. cbn [bind]. destruct b as [b|].
      2:{ exists [], (set_bsr (set_bsr s r1) r2), c2. split; [reflexivity|]. split; [exact Z|]. repeat split; assumption. }
      rewrite lzs_output_byte_eq; [|cbn [ob_empty ob_len]; unfold lzs_max_read; lia|exact Ha|exact Hp].
      cbn [bind]. eexists _, _, c2. split; [reflexivity|]. split.
      + rewrite ob_bytes_rev, nlen_rev. cbn [ob_rev ob_empty]. rewrite nlen_cons, nlen_nil. unfold lzs_max_read. lia.
      + split; [cbn [lzs_ring set_bsr]; rewrite alen_aset; exact Ha|].
        split; [cbn [lzs_pos set_bsr]; unfold lzs_RING_BUFFER_SIZE; lia|exact P2].
    - destruct (HP r1 c1 11 P1) as (p & r2 & c2 & E2 & P2 & _); [lia|].
      rewrite E2. cbn [bind].
      destruct (HP r2 c2 4 P2) as (l & r3 & c3 & E3 & P3 & V3); [lia|].
      rewrite E3. cbn [bind].
      assert (F : exists (ch : list N) s' c', Ok ([], set_bsr (set_bsr s r1) r3, c3) = Ok (ch, s', c') /\
                    nlen ch <= lzs_max_read /\ lzs_inv_gen P s').
      { eexists _, _, _. split; [reflexivity|]. split; [exact Z|]. repeat split; assumption. }
      destruct p as [p|]; [|exact F]. destruct l as [l|]; [|exact F]. clear F.
      specialize (V3 l eq_refl). change (2 ^ 4) with 16 in V3.
      destruct (lzs_output_block_spec (N.to_nat (l + lzs_THRESHOLD)) (set_bsr (set_bsr s r1) r3) ob_empty p 0)
        as (s4 & o & E4 & Ha4 & Hp4 & Hb4 & Hl4 & _); [| exact Ha | exact Hp |].
      { cbn [ob_empty ob_len]. unfold lzs_THRESHOLD, lzs_max_read. lia. }
      rewrite E4. cbn [bind]. exists (ob_bytes o), s4, c3. split; [reflexivity|]. split.
      + rewrite ob_bytes_rev, nlen_rev, Hl4. cbn [ob_empty ob_rev]. rewrite nlen_nil.
        unfold lzs_THRESHOLD, lzs_max_read. lia.
      + split; [exact Ha4|]. split; [exact Hp4|]. rewrite Hb4. exact P3.
  Qed.
End ReadTotal.

(* for ANY input bytes and any chunking of the input: no fault, no fuel exhaustion,
   at most lzs_max_read bytes, invariant kept *)
Theorem lzs_read_total : forall cbs (cb : callback cbs), cb_bounded cb -> forall s c, lzs_inv s ->
  exists ch s' c', lzs_read cb s c = Ok (ch, s', c') /\ nlen ch <= lzs_max_read /\ lzs_inv s'.
Proof.
  intros cbs cb Hcb s c H. apply (lzs_read_total_gen cb bsr_wf); [|exact H].
  intros r c0 n Hr Hn. apply read_bits_safe; assumption.
Qed.

(* the same needing only that the callback returns at most as many bytes as asked
   (whatever their values), with the weaker reader invariant *)
Theorem lzs_read_total_len : forall cbs (cb : callback cbs), cb_len_bounded cb -> forall s c,
  lzs_inv_gen bsr_ok s ->
  exists ch s' c', lzs_read cb s c = Ok (ch, s', c') /\ nlen ch <= lzs_max_read /\ lzs_inv_gen bsr_ok s'.
Proof.
  intros cbs cb Hcb s c H. apply (lzs_read_total_gen cb bsr_ok); [|exact H].
  intros r c0 n Hr Hn. apply read_bits_ok; assumption.
Qed.

(* ------------------------------------------------------------------ *)
(* One lzs_read per command of the specification                       *)

Lemma u8_small b : b < 256 -> u8 b = b.
Proof. intros H. unfold u8. change 255 with (N.ones 8). rewrite N.land_ones. apply N.mod_small. exact H. Qed.

Lemma lzs_read_cmd s c cmd rest : lzs_inv s -> src_ok c -> lzs_wf_cmd cmd = true ->
  pending (lzs_bsr s) c = lzs_cmd_bits cmd ++ rest ->
  exists ch s' c', lzs_read src_cb s c = Ok (ch, s', c') /\ lzs_inv s' /\ src_ok c' /\
    pending (lzs_bsr s') c' = rest /\ ch <> [] /\ nlen ch <= lzs_max_read /\
    forall out, ring_cmd 2048 (ring_of s, out) cmd = (ring_of s', rev ch ++ out).
Proof.
  intros (Ha & Hp & Hr) Hc Hwf Hpend. destruct cmd as [b|pos len]; cbn [lzs_cmd_bits lzs_wf_cmd] in *.
  - (* literal *)
    assert (Hb : b < 256) by lia.
    cbn [app] in Hpend.
    destruct (read_bit_src _ _ _ _ Hr Hc Hpend) as (r1 & c1 & E1 & W1 & S1 & P1).
    destruct (read_bits_src_prefix r1 c1 8 b rest W1 S1) as (r2 & c2 & E2 & W2 & S2 & P2);
      [cbn; lia|cbn; lia|exact P1|].
    change (N.of_nat 8) with 8 in E2.
    unfold lzs_read. rewrite E1. cbn [bind N.b2n]. cbv zeta.
    change (negb (1 =? 0)) with true. cbv iota.
    rewrite E2. cbn [bind]. rewrite u8_small by exact Hb.
    rewrite lzs_output_byte_eq; [|cbn [ob_empty ob_len]; unfold lzs_max_read; lia|exact Ha|exact Hp].
    cbn [bind]. eexists _, _, c2. split; [reflexivity|].
    rewrite ob_bytes_rev. cbn [ob_rev ob_empty rev app].
    split.
    { split; [cbn [lzs_ring set_bsr]; rewrite alen_aset; exact Ha|].
      split; [cbn [lzs_pos set_bsr]; unfold lzs_RING_BUFFER_SIZE; lia|exact W2]. }
    split; [exact S2|]. split; [exact P2|]. split; [discriminate|].
    split; [rewrite nlen_cons, nlen_nil; unfold lzs_max_read; lia|].
    intros out. reflexivity.
  - (* copy *)
    assert (Hw : pos < 2048 /\ 2 <= len /\ len <= 17) by lia. destruct Hw as (Hpos & Hl2 & Hl17).
    cbn [app] in Hpend. rewrite <- app_assoc in Hpend.
    destruct (read_bit_src _ _ _ _ Hr Hc Hpend) as (r1 & c1 & E1 & W1 & S1 & P1).
    destruct (read_bits_src_prefix r1 c1 11 pos (bits_of 4 (len - 2) ++ rest) W1 S1) as (r2 & c2 & E2 & W2 & S2 & P2);
      [cbn; lia|cbn; lia|exact P1|].
    destruct (read_bits_src_prefix r2 c2 4 (len - 2) rest W2 S2) as (r3 & c3 & E3 & W3 & S3 & P3);
      [cbn; lia|cbn; lia|exact P2|].
    change (N.of_nat 11) with 11 in E2. change (N.of_nat 4) with 4 in E3.
    unfold lzs_read. rewrite E1. cbn [bind N.b2n]. cbv zeta.
    change (negb (0 =? 0)) with false. cbv iota.
    rewrite E2. cbn [bind]. rewrite E3. cbn [bind].
    replace (len - 2 + lzs_THRESHOLD) with len by (unfold lzs_THRESHOLD; lia).
    destruct (lzs_output_block_spec (N.to_nat len) (set_bsr (set_bsr s r1) r3) ob_empty pos 0)
      as (s4 & o & E4 & Ha4 & Hp4 & Hb4 & Hl4 & Hc4); [| exact Ha | exact Hp |].
    { cbn [ob_empty ob_len]. unfold lzs_max_read. lia. }
    rewrite E4. cbn [bind]. exists (ob_bytes o), s4, c3. split; [reflexivity|].
    cbn [ob_empty ob_rev] in Hl4, Hc4. rewrite nlen_nil in Hl4.
    assert (Hn : nlen (ob_bytes o) = len) by (rewrite ob_bytes_rev, nlen_rev, Hl4; lia).
    split; [split; [exact Ha4|]; split; [exact Hp4|]; rewrite Hb4; exact W3|].
    split; [exact S3|]. split; [rewrite Hb4; exact P3|].
    split; [intros X; rewrite X, nlen_nil in Hn; lia|].
    split; [rewrite Hn; unfold lzs_max_read; lia|].
    intros out. cbn [ring_cmd]. rewrite ob_bytes_rev, rev_involutive.
    specialize (Hc4 out). rewrite N.add_0_r in Hc4. exact Hc4.
Qed.

(* the chunks the decoder yields for a command list, and what they add up to *)
Lemma lzs_chunks cmds : forall s c rest, lzs_inv s -> src_ok c -> forallb lzs_wf_cmd cmds = true ->
  pending (lzs_bsr s) c = flat_map lzs_cmd_bits cmds ++ rest ->
  exists chs, chunks_from (lzs_read src_cb) lzs_max_read s c chs /\
    forall out, exists R', fold_left (ring_cmd 2048) cmds (ring_of s, out) = (R', rev (concat chs) ++ out).
Proof.
  induction cmds as [|cmd cmds IH]; intros s c rest Hi Hc Hwf Hpend.
  - exists []. split; [constructor|]. intros out. exists (ring_of s). reflexivity.
  - cbn [forallb flat_map] in *. apply andb_true_iff in Hwf. destruct Hwf as [Hw1 Hw2].
    rewrite <- app_assoc in Hpend.
    destruct (lzs_read_cmd s c cmd _ Hi Hc Hw1 Hpend) as (ch & s' & c' & E & Hi' & Hc' & Hp' & Hne & Hlen & Hring).
    destruct (IH s' c' rest Hi' Hc' Hw2 Hp') as (chs & Hch & Hfold).
    exists (ch :: chs). split; [econstructor; eassumption|].
    intros out. cbn [fold_left concat]. rewrite Hring.
    destruct (Hfold (rev ch ++ out)) as (R' & ER). exists R'. rewrite ER.
    rewrite rev_app_distr, app_assoc. reflexivity.
Qed.

(* ------------------------------------------------------------------ *)
(* Round trip through the public read API                              *)

Lemma src_cb_len_bounded : cb_len_bounded src_cb.
Proof.
  intros s n. unfold src_cb. destruct (src_chunks s); cbn [fst]; rewrite nlen_firstn_N; lia.
Qed.

(* boolean form of the (weak) invariant, for the guarded decoder *)
Definition lzs_invb (s : lzs_state) (c : src) : bool :=
  (alen (lzs_ring s) =? lzs_ringbuf_extent) && (lzs_pos s <? lzs_RING_BUFFER_SIZE) &&
  (bits (lzs_bsr s) <=? 32) && (bit_buffer (lzs_bsr s) <? 2 ^ 32).

Lemma lzs_invb_iff s c : lzs_invb s c = true <-> lzs_inv_gen bsr_ok s.
Proof.
  unfold lzs_invb, lzs_inv_gen, bsr_ok. rewrite !andb_true_iff, N.eqb_eq, !N.ltb_lt, N.leb_le. tauto.
Qed.

Lemma lzs_invb_step s c : lzs_invb s c = true ->
  exists ch s' c', lzs_read src_cb s c = Ok (ch, s', c') /\ nlen ch <= lzs_max_read /\ lzs_invb s' c' = true.
Proof.
  intros H. apply lzs_invb_iff in H.
  destruct (lzs_read_total_len src src_cb src_cb_len_bounded s c H) as (ch & s' & c' & A & B & C).
  exists ch, s', c'. split; [exact A|]. split; [exact B|]. apply lzs_invb_iff. exact C.
Qed.

Lemma lzs_inv_invb s c : lzs_inv s -> lzs_invb s c = true.
Proof. intros H. apply lzs_invb_iff. exact (lzs_inv_weaken _ _ s bsr_wf_ok H). Qed.

(* Serialise a well-formed command list, append any further bytes, declare the length
   of the expansion: every read schedule asking for at least that much returns exactly
   the expansion. *)
Theorem lzs_roundtrip : forall cmds tail s0 ks os d',
  forallb lzs_wf_cmd cmds = true ->
  Forall (fun b => b < 256) tail ->
  lzs_init = Ok s0 ->
  let src := {| src_data := lzs_serialise cmds ++ tail; src_chunks := [] |} in
  let L := nlen (lzs_expand cmds) in
  L <= sum_N ks -> sum_N ks < 2 ^ 62 ->
  run_reads (lzs_read src_cb) lzs_max_read lzs_block_size (lha_decoder_new s0 src L) ks = Ok (os, d') ->
  concat os = lzs_expand cmds.
Proof.
  intros cmds tail s0 ks os d' Hwf Htail Hinit src L HL Hs Hr.
  rewrite lzs_init_eq in Hinit. inversion Hinit; subst s0; clear Hinit.
  destruct (pending_bytes_of_bits (flat_map lzs_cmd_bits cmds) tail) as (k & _ & Hpend).
  fold (lzs_serialise cmds) in Hpend. fold src in Hpend.
  assert (Hsrc : src_ok src) by (apply src_ok_bytes_of_bits; exact Htail).
  destruct (lzs_chunks cmds lzs_s0 src _ lzs_s0_inv Hsrc Hwf Hpend) as (chs & Hch & Hfold).
  destruct (Hfold []) as (R' & ER).
  assert (Eexp : lzs_expand cmds = concat chs).
  { unfold lzs_expand, ring_expand. change lzs_ring0 with (ring_of lzs_s0). rewrite ER.
    cbn [snd]. rewrite app_nil_r. apply rev_involutive. }
  rewrite Eexp.
  rewrite (decode_of_chunks_inv (lzs_read src_cb) lzs_max_read lzs_block_size lzs_invb lzs_invb_step
             chs lzs_s0 src L ks os d' (lzs_inv_invb _ _ lzs_s0_inv) Hch); try assumption.
  - apply firstn_N_all. unfold L. rewrite Eexp. lia.
  - unfold L. rewrite Eexp. lia.
Qed.

(* the same, stating also that the reads return *)
Corollary lzs_roundtrip_total : forall cmds tail s0 ks,
  forallb lzs_wf_cmd cmds = true ->
  Forall (fun b => b < 256) tail ->
  lzs_init = Ok s0 ->
  let src := {| src_data := lzs_serialise cmds ++ tail; src_chunks := [] |} in
  let L := nlen (lzs_expand cmds) in
  L <= sum_N ks -> sum_N ks < 2 ^ 62 ->
  exists os d',
    run_reads (lzs_read src_cb) lzs_max_read lzs_block_size (lha_decoder_new s0 src L) ks = Ok (os, d') /\
    concat os = lzs_expand cmds.
Proof.
  intros cmds tail s0 ks Hwf Htail Hinit src L HL Hs.
  assert (Hinv : lzs_invb s0 src = true).
  { rewrite lzs_init_eq in Hinit. inversion Hinit. apply lzs_inv_invb. apply lzs_s0_inv. }
  destruct (run_reads_inv_ok (lzs_read src_cb) lzs_max_read lzs_block_size lzs_invb lzs_invb_step
              ks s0 src L Hinv Hs) as (os & d' & E).
  exists os, d'. split; [exact E|].
  exact (lzs_roundtrip cmds tail s0 ks os d' Hwf Htail Hinit HL Hs E).
Qed.

(* The hypothesis on [tail] cannot be dropped: the model's callback type allows
   "bytes" >= 256 (a C uint8_t cannot hold them), and the bit reader ORs such a value
   into the neighbouring bits.  Here the trailing 32768 turns the literal 0 into 1. *)
Example lzs_roundtrip_needs_byte_tail :
  let cmds := [ALit 0] in
  let src := {| src_data := lzs_serialise cmds ++ [32768]; src_chunks := [] |} in
  forallb lzs_wf_cmd cmds = true /\ lzs_expand cmds = [0] /\
  exists os d', run_reads (lzs_read src_cb) lzs_max_read lzs_block_size
                  (lha_decoder_new lzs_s0 src (nlen (lzs_expand cmds))) [1] = Ok (os, d') /\
                concat os = [1].
Proof.
  split; [reflexivity|]. split; [vm_compute; reflexivity|].
  eexists _, _. split; [vm_compute; reflexivity|reflexivity].
Qed.

Print Assumptions lzs_init_ok.
Print Assumptions lzs_read_total.
Print Assumptions lzs_read_total_len.
Print Assumptions decode_of_chunks_inv.
Print Assumptions lzs_roundtrip.
Print Assumptions lzs_roundtrip_total.

(* Header.v -- model of lib/lha_file_header.c, lib/ext_header.c and
   lib/lha_endian.c.  C strings are byte lists without NUL (the prefix of the
   C buffer before its first NUL); raw_data is a byte list whose length is
   raw_data_len and every RAW_DATA access is checked against it. *)
From Lhasa Require Import Base Loop Generated Crc16 InputStream.
Local Open Scope N_scope.

(* ---- C string helpers ---- *)
Fixpoint cstr (l : list N) : list N :=       (* bytes before the first NUL *)
  match l with
  | [] => []
  | b :: r => if b =? 0 then [] else b :: cstr r
  end.

Definition bytes_eqb (a b : list N) : bool :=
  (nlen a =? nlen b) && forallb (fun p => fst p =? snd p) (combine a b).

(* strrchr(s, c): index of the last occurrence *)
Fixpoint last_index (l : list N) (c : N) (i : N) (acc : option N) : option N :=
  match l with
  | [] => acc
  | b :: r => last_index r c (i + 1) (if b =? c then Some i else acc)
  end.
Fixpoint first_index (l : list N) (c : N) (i : N) : option N :=
  match l with
  | [] => None
  | b :: r => if b =? c then Some i else first_index r c (i + 1)
  end.

Definition is_lower (b : N) : bool := (97 <=? b) && (b <=? 122).
Definition to_lower (b : N) : N := if (65 <=? b) && (b <=? 90) then b + 32 else b.

(* ---- the header structure ---- *)
Record header := {
  h_raw : list N;
  h_level : N;
  h_method : list N;             (* compress_method[0..4]; [5] is NUL *)
  h_compressed_length : N;
  h_length : N;
  h_timestamp : N;
  h_os_type : N;
  h_crc : N;
  h_filename : option (list N);
  h_path : option (list N);
  h_symlink_target : option (list N);
  h_extra_flags : N;
  h_unix_perms : N;
  h_unix_uid : N;
  h_unix_gid : N;
  h_os9_perms : N;
  h_unix_username : option (list N);
  h_unix_group : option (list N);
  h_common_crc : N;
  h_win_creation_time : N;
  h_win_modification_time : N;
  h_win_access_time : N
}.

Definition header0 (raw : list N) : header :=
  {| h_raw := raw; h_level := 0; h_method := [0; 0; 0; 0; 0]; h_compressed_length := 0; h_length := 0;
     h_timestamp := 0; h_os_type := 0; h_crc := 0; h_filename := None; h_path := None;
     h_symlink_target := None; h_extra_flags := 0; h_unix_perms := 0; h_unix_uid := 0; h_unix_gid := 0;
     h_os9_perms := 0; h_unix_username := None; h_unix_group := None; h_common_crc := 0;
     h_win_creation_time := 0; h_win_modification_time := 0; h_win_access_time := 0 |}.

(* field setters (records are immutable) *)
Definition set_raw h v := {| h_raw := v; h_level := h_level h; h_method := h_method h; h_compressed_length := h_compressed_length h; h_length := h_length h; h_timestamp := h_timestamp h; h_os_type := h_os_type h; h_crc := h_crc h; h_filename := h_filename h; h_path := h_path h; h_symlink_target := h_symlink_target h; h_extra_flags := h_extra_flags h; h_unix_perms := h_unix_perms h; h_unix_uid := h_unix_uid h; h_unix_gid := h_unix_gid h; h_os9_perms := h_os9_perms h; h_unix_username := h_unix_username h; h_unix_group := h_unix_group h; h_common_crc := h_common_crc h; h_win_creation_time := h_win_creation_time h; h_win_modification_time := h_win_modification_time h; h_win_access_time := h_win_access_time h |}.
Definition set_level h v := {| h_raw := h_raw h; h_level := v; h_method := h_method h; h_compressed_length := h_compressed_length h; h_length := h_length h; h_timestamp := h_timestamp h; h_os_type := h_os_type h; h_crc := h_crc h; h_filename := h_filename h; h_path := h_path h; h_symlink_target := h_symlink_target h; h_extra_flags := h_extra_flags h; h_unix_perms := h_unix_perms h; h_unix_uid := h_unix_uid h; h_unix_gid := h_unix_gid h; h_os9_perms := h_os9_perms h; h_unix_username := h_unix_username h; h_unix_group := h_unix_group h; h_common_crc := h_common_crc h; h_win_creation_time := h_win_creation_time h; h_win_modification_time := h_win_modification_time h; h_win_access_time := h_win_access_time h |}.
Definition set_method h v := {| h_raw := h_raw h; h_level := h_level h; h_method := v; h_compressed_length := h_compressed_length h; h_length := h_length h; h_timestamp := h_timestamp h; h_os_type := h_os_type h; h_crc := h_crc h; h_filename := h_filename h; h_path := h_path h; h_symlink_target := h_symlink_target h; h_extra_flags := h_extra_flags h; h_unix_perms := h_unix_perms h; h_unix_uid := h_unix_uid h; h_unix_gid := h_unix_gid h; h_os9_perms := h_os9_perms h; h_unix_username := h_unix_username h; h_unix_group := h_unix_group h; h_common_crc := h_common_crc h; h_win_creation_time := h_win_creation_time h; h_win_modification_time := h_win_modification_time h; h_win_access_time := h_win_access_time h |}.
Definition set_clen h v := {| h_raw := h_raw h; h_level := h_level h; h_method := h_method h; h_compressed_length := v; h_length := h_length h; h_timestamp := h_timestamp h; h_os_type := h_os_type h; h_crc := h_crc h; h_filename := h_filename h; h_path := h_path h; h_symlink_target := h_symlink_target h; h_extra_flags := h_extra_flags h; h_unix_perms := h_unix_perms h; h_unix_uid := h_unix_uid h; h_unix_gid := h_unix_gid h; h_os9_perms := h_os9_perms h; h_unix_username := h_unix_username h; h_unix_group := h_unix_group h; h_common_crc := h_common_crc h; h_win_creation_time := h_win_creation_time h; h_win_modification_time := h_win_modification_time h; h_win_access_time := h_win_access_time h |}.
Definition set_length h v := {| h_raw := h_raw h; h_level := h_level h; h_method := h_method h; h_compressed_length := h_compressed_length h; h_length := v; h_timestamp := h_timestamp h; h_os_type := h_os_type h; h_crc := h_crc h; h_filename := h_filename h; h_path := h_path h; h_symlink_target := h_symlink_target h; h_extra_flags := h_extra_flags h; h_unix_perms := h_unix_perms h; h_unix_uid := h_unix_uid h; h_unix_gid := h_unix_gid h; h_os9_perms := h_os9_perms h; h_unix_username := h_unix_username h; h_unix_group := h_unix_group h; h_common_crc := h_common_crc h; h_win_creation_time := h_win_creation_time h; h_win_modification_time := h_win_modification_time h; h_win_access_time := h_win_access_time h |}.
Definition set_timestamp h v := {| h_raw := h_raw h; h_level := h_level h; h_method := h_method h; h_compressed_length := h_compressed_length h; h_length := h_length h; h_timestamp := v; h_os_type := h_os_type h; h_crc := h_crc h; h_filename := h_filename h; h_path := h_path h; h_symlink_target := h_symlink_target h; h_extra_flags := h_extra_flags h; h_unix_perms := h_unix_perms h; h_unix_uid := h_unix_uid h; h_unix_gid := h_unix_gid h; h_os9_perms := h_os9_perms h; h_unix_username := h_unix_username h; h_unix_group := h_unix_group h; h_common_crc := h_common_crc h; h_win_creation_time := h_win_creation_time h; h_win_modification_time := h_win_modification_time h; h_win_access_time := h_win_access_time h |}.
Definition set_os_type h v := {| h_raw := h_raw h; h_level := h_level h; h_method := h_method h; h_compressed_length := h_compressed_length h; h_length := h_length h; h_timestamp := h_timestamp h; h_os_type := v; h_crc := h_crc h; h_filename := h_filename h; h_path := h_path h; h_symlink_target := h_symlink_target h; h_extra_flags := h_extra_flags h; h_unix_perms := h_unix_perms h; h_unix_uid := h_unix_uid h; h_unix_gid := h_unix_gid h; h_os9_perms := h_os9_perms h; h_unix_username := h_unix_username h; h_unix_group := h_unix_group h; h_common_crc := h_common_crc h; h_win_creation_time := h_win_creation_time h; h_win_modification_time := h_win_modification_time h; h_win_access_time := h_win_access_time h |}.
Definition set_crc h v := {| h_raw := h_raw h; h_level := h_level h; h_method := h_method h; h_compressed_length := h_compressed_length h; h_length := h_length h; h_timestamp := h_timestamp h; h_os_type := h_os_type h; h_crc := v; h_filename := h_filename h; h_path := h_path h; h_symlink_target := h_symlink_target h; h_extra_flags := h_extra_flags h; h_unix_perms := h_unix_perms h; h_unix_uid := h_unix_uid h; h_unix_gid := h_unix_gid h; h_os9_perms := h_os9_perms h; h_unix_username := h_unix_username h; h_unix_group := h_unix_group h; h_common_crc := h_common_crc h; h_win_creation_time := h_win_creation_time h; h_win_modification_time := h_win_modification_time h; h_win_access_time := h_win_access_time h |}.
Definition set_filename h v := {| h_raw := h_raw h; h_level := h_level h; h_method := h_method h; h_compressed_length := h_compressed_length h; h_length := h_length h; h_timestamp := h_timestamp h; h_os_type := h_os_type h; h_crc := h_crc h; h_filename := v; h_path := h_path h; h_symlink_target := h_symlink_target h; h_extra_flags := h_extra_flags h; h_unix_perms := h_unix_perms h; h_unix_uid := h_unix_uid h; h_unix_gid := h_unix_gid h; h_os9_perms := h_os9_perms h; h_unix_username := h_unix_username h; h_unix_group := h_unix_group h; h_common_crc := h_common_crc h; h_win_creation_time := h_win_creation_time h; h_win_modification_time := h_win_modification_time h; h_win_access_time := h_win_access_time h |}.
Definition set_path h v := {| h_raw := h_raw h; h_level := h_level h; h_method := h_method h; h_compressed_length := h_compressed_length h; h_length := h_length h; h_timestamp := h_timestamp h; h_os_type := h_os_type h; h_crc := h_crc h; h_filename := h_filename h; h_path := v; h_symlink_target := h_symlink_target h; h_extra_flags := h_extra_flags h; h_unix_perms := h_unix_perms h; h_unix_uid := h_unix_uid h; h_unix_gid := h_unix_gid h; h_os9_perms := h_os9_perms h; h_unix_username := h_unix_username h; h_unix_group := h_unix_group h; h_common_crc := h_common_crc h; h_win_creation_time := h_win_creation_time h; h_win_modification_time := h_win_modification_time h; h_win_access_time := h_win_access_time h |}.
Definition set_symlink_target h v := {| h_raw := h_raw h; h_level := h_level h; h_method := h_method h; h_compressed_length := h_compressed_length h; h_length := h_length h; h_timestamp := h_timestamp h; h_os_type := h_os_type h; h_crc := h_crc h; h_filename := h_filename h; h_path := h_path h; h_symlink_target := v; h_extra_flags := h_extra_flags h; h_unix_perms := h_unix_perms h; h_unix_uid := h_unix_uid h; h_unix_gid := h_unix_gid h; h_os9_perms := h_os9_perms h; h_unix_username := h_unix_username h; h_unix_group := h_unix_group h; h_common_crc := h_common_crc h; h_win_creation_time := h_win_creation_time h; h_win_modification_time := h_win_modification_time h; h_win_access_time := h_win_access_time h |}.
Definition set_extra_flags h v := {| h_raw := h_raw h; h_level := h_level h; h_method := h_method h; h_compressed_length := h_compressed_length h; h_length := h_length h; h_timestamp := h_timestamp h; h_os_type := h_os_type h; h_crc := h_crc h; h_filename := h_filename h; h_path := h_path h; h_symlink_target := h_symlink_target h; h_extra_flags := v; h_unix_perms := h_unix_perms h; h_unix_uid := h_unix_uid h; h_unix_gid := h_unix_gid h; h_os9_perms := h_os9_perms h; h_unix_username := h_unix_username h; h_unix_group := h_unix_group h; h_common_crc := h_common_crc h; h_win_creation_time := h_win_creation_time h; h_win_modification_time := h_win_modification_time h; h_win_access_time := h_win_access_time h |}.
Definition set_unix_perms h v := {| h_raw := h_raw h; h_level := h_level h; h_method := h_method h; h_compressed_length := h_compressed_length h; h_length := h_length h; h_timestamp := h_timestamp h; h_os_type := h_os_type h; h_crc := h_crc h; h_filename := h_filename h; h_path := h_path h; h_symlink_target := h_symlink_target h; h_extra_flags := h_extra_flags h; h_unix_perms := v; h_unix_uid := h_unix_uid h; h_unix_gid := h_unix_gid h; h_os9_perms := h_os9_perms h; h_unix_username := h_unix_username h; h_unix_group := h_unix_group h; h_common_crc := h_common_crc h; h_win_creation_time := h_win_creation_time h; h_win_modification_time := h_win_modification_time h; h_win_access_time := h_win_access_time h |}.
Definition set_unix_uid h v := {| h_raw := h_raw h; h_level := h_level h; h_method := h_method h; h_compressed_length := h_compressed_length h; h_length := h_length h; h_timestamp := h_timestamp h; h_os_type := h_os_type h; h_crc := h_crc h; h_filename := h_filename h; h_path := h_path h; h_symlink_target := h_symlink_target h; h_extra_flags := h_extra_flags h; h_unix_perms := h_unix_perms h; h_unix_uid := v; h_unix_gid := h_unix_gid h; h_os9_perms := h_os9_perms h; h_unix_username := h_unix_username h; h_unix_group := h_unix_group h; h_common_crc := h_common_crc h; h_win_creation_time := h_win_creation_time h; h_win_modification_time := h_win_modification_time h; h_win_access_time := h_win_access_time h |}.
Definition set_unix_gid h v := {| h_raw := h_raw h; h_level := h_level h; h_method := h_method h; h_compressed_length := h_compressed_length h; h_length := h_length h; h_timestamp := h_timestamp h; h_os_type := h_os_type h; h_crc := h_crc h; h_filename := h_filename h; h_path := h_path h; h_symlink_target := h_symlink_target h; h_extra_flags := h_extra_flags h; h_unix_perms := h_unix_perms h; h_unix_uid := h_unix_uid h; h_unix_gid := v; h_os9_perms := h_os9_perms h; h_unix_username := h_unix_username h; h_unix_group := h_unix_group h; h_common_crc := h_common_crc h; h_win_creation_time := h_win_creation_time h; h_win_modification_time := h_win_modification_time h; h_win_access_time := h_win_access_time h |}.
Definition set_os9_perms h v := {| h_raw := h_raw h; h_level := h_level h; h_method := h_method h; h_compressed_length := h_compressed_length h; h_length := h_length h; h_timestamp := h_timestamp h; h_os_type := h_os_type h; h_crc := h_crc h; h_filename := h_filename h; h_path := h_path h; h_symlink_target := h_symlink_target h; h_extra_flags := h_extra_flags h; h_unix_perms := h_unix_perms h; h_unix_uid := h_unix_uid h; h_unix_gid := h_unix_gid h; h_os9_perms := v; h_unix_username := h_unix_username h; h_unix_group := h_unix_group h; h_common_crc := h_common_crc h; h_win_creation_time := h_win_creation_time h; h_win_modification_time := h_win_modification_time h; h_win_access_time := h_win_access_time h |}.
Definition set_unix_username h v := {| h_raw := h_raw h; h_level := h_level h; h_method := h_method h; h_compressed_length := h_compressed_length h; h_length := h_length h; h_timestamp := h_timestamp h; h_os_type := h_os_type h; h_crc := h_crc h; h_filename := h_filename h; h_path := h_path h; h_symlink_target := h_symlink_target h; h_extra_flags := h_extra_flags h; h_unix_perms := h_unix_perms h; h_unix_uid := h_unix_uid h; h_unix_gid := h_unix_gid h; h_os9_perms := h_os9_perms h; h_unix_username := v; h_unix_group := h_unix_group h; h_common_crc := h_common_crc h; h_win_creation_time := h_win_creation_time h; h_win_modification_time := h_win_modification_time h; h_win_access_time := h_win_access_time h |}.
Definition set_unix_group h v := {| h_raw := h_raw h; h_level := h_level h; h_method := h_method h; h_compressed_length := h_compressed_length h; h_length := h_length h; h_timestamp := h_timestamp h; h_os_type := h_os_type h; h_crc := h_crc h; h_filename := h_filename h; h_path := h_path h; h_symlink_target := h_symlink_target h; h_extra_flags := h_extra_flags h; h_unix_perms := h_unix_perms h; h_unix_uid := h_unix_uid h; h_unix_gid := h_unix_gid h; h_os9_perms := h_os9_perms h; h_unix_username := h_unix_username h; h_unix_group := v; h_common_crc := h_common_crc h; h_win_creation_time := h_win_creation_time h; h_win_modification_time := h_win_modification_time h; h_win_access_time := h_win_access_time h |}.
Definition set_common_crc h v := {| h_raw := h_raw h; h_level := h_level h; h_method := h_method h; h_compressed_length := h_compressed_length h; h_length := h_length h; h_timestamp := h_timestamp h; h_os_type := h_os_type h; h_crc := h_crc h; h_filename := h_filename h; h_path := h_path h; h_symlink_target := h_symlink_target h; h_extra_flags := h_extra_flags h; h_unix_perms := h_unix_perms h; h_unix_uid := h_unix_uid h; h_unix_gid := h_unix_gid h; h_os9_perms := h_os9_perms h; h_unix_username := h_unix_username h; h_unix_group := h_unix_group h; h_common_crc := v; h_win_creation_time := h_win_creation_time h; h_win_modification_time := h_win_modification_time h; h_win_access_time := h_win_access_time h |}.
Definition set_win_times h a b c := {| h_raw := h_raw h; h_level := h_level h; h_method := h_method h; h_compressed_length := h_compressed_length h; h_length := h_length h; h_timestamp := h_timestamp h; h_os_type := h_os_type h; h_crc := h_crc h; h_filename := h_filename h; h_path := h_path h; h_symlink_target := h_symlink_target h; h_extra_flags := h_extra_flags h; h_unix_perms := h_unix_perms h; h_unix_uid := h_unix_uid h; h_unix_gid := h_unix_gid h; h_os9_perms := h_os9_perms h; h_unix_username := h_unix_username h; h_unix_group := h_unix_group h; h_common_crc := h_common_crc h; h_win_creation_time := a; h_win_modification_time := b; h_win_access_time := c |}.

Definition have_extra (h : header) (flag : N) : bool := negb (N.land (h_extra_flags h) flag =? 0).
Definition add_flag (h : header) (flag : N) : header := set_extra_flags h (N.lor (h_extra_flags h) flag).

(* ---- checked access to raw_data ---- *)
Definition raw_at (site : N) (raw : list N) (i : N) : outcome N :=
  match nth_N raw i with Some b => Ok b | None => Fault site end.

(* lha_endian.c *)
Definition dec_u16 (site : N) (raw : list N) (i : N) : outcome N :=
  b0 <- raw_at site raw i ;; b1 <- raw_at site raw (i + 1) ;; Ok (u16 (N.lor b0 (N.shiftl b1 8))).
Definition dec_u32 (site : N) (raw : list N) (i : N) : outcome N :=
  b0 <- raw_at site raw i ;; b1 <- raw_at site raw (i + 1) ;;
  b2 <- raw_at site raw (i + 2) ;; b3 <- raw_at site raw (i + 3) ;;
  Ok (N.lor (N.lor b0 (N.shiftl b1 8)) (N.lor (N.shiftl b2 16) (N.shiftl b3 24))).
Definition dec_u64 (site : N) (raw : list N) (i : N) : outcome N :=
  lo <- dec_u32 site raw i ;; hi <- dec_u32 site raw (i + 4) ;; Ok (N.lor lo (N.shiftl hi 32)).

(* &raw[i .. i+len): checked slice *)
Definition raw_slice (site : N) (raw : list N) (i len : N) : outcome (list N) :=
  if i + len <=? nlen raw then Ok (firstn_N len (skipn_N i raw)) else Fault site.

Fixpoint list_set (l : list N) (i : N) (v : N) : list N :=
  match l with
  | [] => []
  | b :: r => if i =? 0 then v :: r else b :: list_set r (N.pred i) v
  end.

(* ---- lha_file_header_full_path ---- *)
Definition opt_str (o : option (list N)) : list N := match o with Some s => s | None => [] end.
Definition full_path (h : header) : list N := opt_str (h_path h) ++ opt_str (h_filename h).

(* split_header_filename: filename must be set *)
Definition split_header_filename (h : header) : header :=
  match h_filename h with
  | None => h
  | Some f =>
    match last_index f 47 0 None with
    | Some i => set_filename (set_path h (Some (firstn_N (i + 1) f))) (Some (skipn_N (i + 1) f))
    | None => h
    end
  end.

(* check_l0_checksum *)
Definition check_l0_checksum (bytes : list N) (csum : N) : bool :=
  N.land (u32 (fold_left N.add bytes 0)) 255 =? csum.

Section WithTime.
  (* libc mktime applied to (sec, min, hour, mday, mon, year-1900) with tm_isdst = -1, cast to unsigned int *)
  Variable mktime : N -> N -> N -> N -> Z -> N -> N.

  (* decode_ftime: raw is reinterpreted as int; the field extractions are the same bit slices *)
  Definition decode_ftime (raw : N) : N :=
    if raw =? 0 then 0 else
    let sec := N.land (N.shiftl raw 1) 62 in
    let min := N.land (N.shiftr raw 5) 63 in
    let hour := N.land (N.shiftr raw 11) 31 in
    let mday := N.land (N.shiftr raw 16) 31 in
    let mon := (Z.of_N (N.land (N.shiftr raw 21) 15) - 1)%Z in
    let year := 80 + N.land (N.shiftr raw 25) 127 in
    u32 (mktime sec min hour mday mon year).

  (* fix_msdos_allcaps *)
  Definition fix_msdos_allcaps (h : header) : header :=
    let lower_in o := match o with Some s => existsb is_lower s | None => false end in
    let allcaps := negb (lower_in (h_path h)) && negb (lower_in (h_filename h)) in
    if allcaps then
      set_filename (set_path h (option_map (map to_lower) (h_path h))) (option_map (map to_lower) (h_filename h))
    else h.

  (* os9_to_unix_permissions *)
  Definition os9_to_unix_permissions (h : header) : header :=
    let bit m := if N.land (h_os9_perms h) m =? 0 then 0 else 1 in
    let or := bit 1 in let ow := bit 2 in let oe := bit 4 in
    let pr := bit 8 in let pw := bit 16 in let pe := bit 32 in let d := bit 128 in
    let perms := N.lor (N.shiftl d 14)
                 (N.lor (N.lor (N.shiftl or 8) (N.lor (N.shiftl ow 7) (N.shiftl oe 6)))
                 (N.lor (N.lor (N.shiftl pr 5) (N.lor (N.shiftl pw 4) (N.shiftl pe 3)))
                        (N.lor (N.shiftl pr 2) (N.lor (N.shiftl pw 1) pe)))) in
    set_unix_perms (add_flag h FILE_UNIX_PERMS) perms.

  (* parse_symlink: None = failure (no '|') *)
  Definition parse_symlink (h : header) : option header :=
    let fullpath := full_path h in
    match first_index fullpath 124 0 with
    | None => None
    | Some p =>
      let h1 := set_symlink_target h (Some (skipn_N (p + 1) fullpath)) in
      let h2 := set_filename (set_path h1 None) (Some (firstn_N p fullpath)) in
      Some (split_header_filename h2)
    end.

  (* process_level0_path(data, data_len): data is raw[22 .. 22+len) *)
  Definition process_level0_path (h : header) (data : list N) : header :=
    match data with
    | [] => h
    | _ =>
      let buf := map (fun b => if b =? 92 then 47 else b) data in
      split_header_filename (set_filename h (Some (cstr buf)))
    end.

  (* extend_raw_data: None = NULL.  On a failed read the stream has still advanced. *)
  Definition extend_raw_data (h : header) (st : istream) (nbytes : N) : outcome (option header * istream) :=
    if hdr_LEVEL_3_MAX_HEADER_LEN <? nbytes then Ok (None, st) else
    '(r, st') <- lha_input_stream_read st nbytes ;;
    match r with
    | Some bytes => Ok (Some (set_raw h (h_raw h ++ bytes)), st')
    | None => Ok (None, st')
    end.

  (* ---- ext_header.c ---- *)
  (* the decoders get data = &raw[start], data_len; they index raw through start *)
  Definition ext_decode (h : header) (id start data_len : N) : outcome header :=
    let raw := h_raw h in
    match id with
    | 0 => (* common *)
      v <- dec_u16 1201 raw start ;;
      let h1 := set_common_crc (add_flag h FILE_COMMON_CRC) v in
      if start + 1 <? nlen raw then Ok (set_raw h1 (list_set (list_set raw start 0) (start + 1) 0))
      else Fault 1202
    | 1 => (* filename: copy, stop at NUL, '/' -> '_' *)
      d <- raw_slice 1203 raw start data_len ;;
      Ok (set_filename h (Some (map (fun b => if b =? 47 then 95 else b) (cstr d))))
    | 2 => (* path *)
      d <- raw_slice 1204 raw start data_len ;;
      last <- raw_at 1205 raw (start + data_len - 1) ;;
      let buf := if last =? 255 then d else d ++ [255] in
      Ok (set_path h (Some (cstr (map (fun b => if b =? 255 then 47 else b) buf))))
    | 3 => (* unix perms *)
      v <- dec_u16 1206 raw start ;; Ok (set_unix_perms (add_flag h FILE_UNIX_PERMS) v)
    | 4 => (* uid/gid *)
      g <- dec_u16 1207 raw start ;; u <- dec_u16 1208 raw (start + 2) ;;
      Ok (set_unix_uid (set_unix_gid (add_flag h FILE_UNIX_UID_GID) g) u)
    | 5 => d <- raw_slice 1209 raw start data_len ;; Ok (set_unix_username h (Some (cstr d)))
    | 6 => d <- raw_slice 1210 raw start data_len ;; Ok (set_unix_group h (Some (cstr d)))
    | 7 => v <- dec_u32 1211 raw start ;; Ok (set_timestamp h v)
    | 8 =>
      a <- dec_u64 1212 raw start ;; b <- dec_u64 1213 raw (start + 8) ;; c <- dec_u64 1214 raw (start + 16) ;;
      Ok (set_win_times (add_flag h FILE_WINDOWS_TIMESTAMPS) a b c)
    | 9 => v <- dec_u16 1215 raw (start + 7) ;; Ok (add_flag (set_os9_perms h v) FILE_OS9_PERMS)
    | _ => Fault 1216          (* a table entry whose decoder the model does not know *)
    end.

  (* ext_header_for_num + lha_ext_header_decode; result of the decoder is ignored by the caller *)
  Fixpoint find_ext (nums mins ids : list N) (num : N) : option (N * N) :=
    match nums, mins, ids with
    | n :: nr, m :: mr, i :: ir => if n =? num then Some (m, i) else find_ext nr mr ir num
    | _, _, _ => None
    end.

  Definition lha_ext_header_decode (h : header) (num start data_len : N) : outcome header :=
    match find_ext ext_header_nums ext_header_min_lens ext_header_decoder_ids num with
    | None => Ok h
    | Some (min_len, id) => if data_len <? min_len then Ok h else ext_decode h id start data_len
    end.

  (* decode_extended_headers: size_t arithmetic is modulo 2^64 *)
  Definition u64 (x : N) : N := N.land x 18446744073709551615.
  Definition usub64 (a b : N) : N := if b <=? a then a - b else u64 (a + 18446744073709551616 - b).

  Definition ext_step (field_size : N) (s : header * N * N) : outcome ((header * N * N) + (bool * header)) :=
    let '(h, offset, available) := s in
    let raw := h_raw h in
    if offset <=? usub64 (nlen raw) field_size then
      len <- (if field_size =? 4 then dec_u32 1217 raw offset else dec_u16 1218 raw offset) ;;
      if len =? 0 then Ok (inr (true, h))
      else if (len <? field_size + 1) || (available <? len) then Ok (inr (false, h))
      else
        num <- raw_at 1219 raw (offset + field_size) ;;
        h' <- lha_ext_header_decode h num (offset + field_size + 1) (len - field_size - 1) ;;
        Ok (inl (h', u32 (offset + len), usub64 available len))
    else Ok (inr (true, h)).

  Definition decode_extended_headers (h : header) (offset : N) : outcome (bool * header) :=
    let field_size := if h_level h =? 3 then 4 else 2 in
    let available := usub64 (usub64 (nlen (h_raw h)) offset) field_size in
    loop (ext_step field_size) 22 (h, offset, available).

  (* read_l1_extended_headers *)
  Definition l1_step (s : header * istream) : outcome ((header * istream) + (bool * header * istream)) :=
    let '(h, st) := s in
    len <- dec_u16 1220 (h_raw h) (usub64 (nlen (h_raw h)) 2) ;;
    if len =? 0 then Ok (inr (true, h, st)) else
    '(r, st') <- extend_raw_data h st len ;;
    match r with
    | None => Ok (inr (false, h, st'))
    | Some h1 =>
      if h_compressed_length h1 <? len then Ok (inr (false, h1, st')) else
      let h2 := set_clen h1 (h_compressed_length h1 - len) in
      if len <? 3 then Ok (inr (false, h2, st')) else Ok (inl (h2, st'))
    end.

  Definition read_l1_extended_headers (h : header) (st : istream) : outcome (bool * header * istream) :=
    loop l1_step 40 (h, st).

  (* level 0 extended areas; data = raw[start .. start+len) *)
  Definition process_level0_unix_area (h : header) (start len : N) : outcome header :=
    let raw := h_raw h in
    if len <? hdr_LEVEL_0_UNIX_EXTENDED_LEN then Ok h else
    d1 <- raw_at 1221 raw (start + 1) ;;
    if negb (d1 =? 0) then Ok h else
    os <- raw_at 1222 raw start ;;
    ts <- dec_u32 1223 raw (start + 2) ;;
    perms <- dec_u16 1224 raw (start + len - 6) ;;
    uid <- dec_u16 1225 raw (start + len - 4) ;;
    gid <- dec_u16 1226 raw (start + len - 2) ;;
    Ok (add_flag (add_flag (set_unix_gid (set_unix_uid (set_unix_perms (set_timestamp (set_os_type h os) ts) perms) uid) gid)
                           FILE_UNIX_PERMS) FILE_UNIX_UID_GID).

  Definition process_level0_os9_area (h : header) (start len : N) : outcome header :=
    let raw := h_raw h in
    if len <? hdr_LEVEL_0_OS9_EXTENDED_LEN then Ok h else
    d9 <- raw_at 1227 raw (start + 9) ;;
    d1 <- raw_at 1228 raw (start + 1) ;; d17 <- raw_at 1229 raw (start + 17) ;;
    d2 <- raw_at 1230 raw (start + 2) ;; d18 <- raw_at 1231 raw (start + 18) ;;
    if negb (d9 =? 204) || negb (d1 =? d17) || negb (d2 =? d18) then Ok h else
    v <- dec_u16 1232 raw (start + 1) ;;
    Ok (add_flag (set_os9_perms (set_os_type h OS_TYPE_OS9) v) FILE_OS9_PERMS).

  Definition process_level0_extended_area (h : header) (start len : N) : outcome header :=
    (* strncmp(compress_method, "-pm", 3) == 0 *)
    if bytes_eqb (firstn 3 (cstr (h_method h))) [45; 112; 109] then Ok h else
    d0 <- raw_at 1233 (h_raw h) start ;;
    if (d0 =? OS_TYPE_UNIX) || (d0 =? OS_TYPE_OS9_68K) then process_level0_unix_area h start len
    else if d0 =? OS_TYPE_OS9 then process_level0_os9_area h start len
    else Ok h.

  (* decode_level0_header (levels 0 and 1) *)
  Definition decode_level0_header (h : header) (st : istream) : outcome (bool * header * istream) :=
    header_len <- raw_at 1234 (h_raw h) 0 ;;
    header_csum <- raw_at 1235 (h_raw h) 1 ;;
    let min_len := if h_level h =? 0 then hdr_LEVEL_0_MIN_HEADER_LEN else hdr_LEVEL_1_MIN_HEADER_LEN in
    if negb ((h_level h =? 0) || (h_level h =? 1)) then Ok (false, h, st) else
    if header_len <? min_len then Ok (false, h, st) else
    '(r, st1) <- extend_raw_data h st (usub64 (header_len + 2) (nlen (h_raw h))) ;;
    match r with
    | None => Ok (false, h, st1)
    | Some h1 =>
      let raw := h_raw h1 in
      body <- raw_slice 1236 raw 2 (usub64 (nlen raw) 2) ;;
      if negb (check_l0_checksum body header_csum) then Ok (false, h1, st1) else
      m <- raw_slice 1237 raw 2 5 ;;
      clen <- dec_u32 1238 raw 7 ;;
      len <- dec_u32 1239 raw 11 ;;
      ft <- dec_u32 1240 raw 15 ;;
      let h2 := set_timestamp (set_length (set_clen (set_method h1 m) clen) len) (decode_ftime ft) in
      path_len <- raw_at 1241 raw 21 ;;
      if header_len <? min_len + path_len then Ok (false, h2, st1) else
      os <- (if h_level h2 =? 0 then Ok OS_TYPE_UNKNOWN else raw_at 1242 raw (24 + path_len)) ;;
      let h3 := set_os_type h2 os in
      pdata <- raw_slice 1243 raw 22 path_len ;;
      let h4 := process_level0_path h3 pdata in
      crc <- dec_u16 1244 raw (22 + path_len) ;;
      let h5 := set_crc h4 crc in
      if (h_level h5 =? 0) && (hdr_LEVEL_0_MIN_HEADER_LEN + path_len <? header_len) then
        h6 <- process_level0_extended_area h5 (hdr_LEVEL_0_MIN_HEADER_LEN + 2 + path_len)
                                           (header_len - hdr_LEVEL_0_MIN_HEADER_LEN - path_len) ;;
        Ok (true, h6, st1)
      else Ok (true, h5, st1)
    end.

  Definition decode_level1_header (h : header) (st : istream) : outcome (bool * header * istream) :=
    '(ok, h1, st1) <- decode_level0_header h st ;;
    if negb ok then Ok (false, h1, st1) else
    let ext_start := u32 (usub64 (nlen (h_raw h1)) 2) in
    '(ok2, h2, st2) <- read_l1_extended_headers h1 st1 ;;
    if negb ok2 then Ok (false, h2, st2) else
    '(ok3, h3) <- decode_extended_headers h2 ext_start ;;
    Ok (ok3, h3, st2).

  (* the fields common to levels 2 and 3 *)
  Definition decode_l23_fields (h : header) : outcome header :=
    let raw := h_raw h in
    m <- raw_slice 1245 raw 2 5 ;;
    clen <- dec_u32 1246 raw 7 ;;
    len <- dec_u32 1247 raw 11 ;;
    ts <- dec_u32 1248 raw 15 ;;
    crc <- dec_u16 1249 raw 21 ;;
    os <- raw_at 1250 raw 23 ;;
    Ok (set_os_type (set_crc (set_timestamp (set_length (set_clen (set_method h m) clen) len) ts) crc) os).

  Definition decode_level2_header (h : header) (st : istream) : outcome (bool * header * istream) :=
    header_len <- dec_u16 1251 (h_raw h) 0 ;;
    if header_len <? hdr_LEVEL_2_HEADER_LEN then Ok (false, h, st) else
    '(r, st1) <- extend_raw_data h st (usub64 header_len (nlen (h_raw h))) ;;
    match r with
    | None => Ok (false, h, st1)
    | Some h1 =>
      h2 <- decode_l23_fields h1 ;;
      '(r3, st3) <- (if h_os_type h2 =? OS_TYPE_OS9_68K then extend_raw_data h2 st1 2 else Ok (Some h2, st1)) ;;
      match r3 with
      | None => Ok (false, h2, st3)
      | Some h3 => '(ok, h4) <- decode_extended_headers h3 24 ;; Ok (ok, h4, st3)
      end
    end.

  Definition decode_level3_header (h : header) (st : istream) : outcome (bool * header * istream) :=
    ws <- dec_u16 1252 (h_raw h) 0 ;;
    if negb (ws =? 4) then Ok (false, h, st) else
    '(r, st1) <- extend_raw_data h st (usub64 hdr_LEVEL_3_HEADER_LEN (nlen (h_raw h))) ;;
    match r with
    | None => Ok (false, h, st1)
    | Some h1 =>
      header_len <- dec_u32 1253 (h_raw h1) 24 ;;
      if (hdr_LEVEL_3_MAX_HEADER_LEN <? header_len) || (header_len <? nlen (h_raw h1)) then Ok (false, h1, st1) else
      '(r2, st2) <- extend_raw_data h1 st1 (header_len - nlen (h_raw h1)) ;;
      match r2 with
      | None => Ok (false, h1, st2)
      | Some h2 =>
        h3 <- decode_l23_fields h2 ;;
        '(ok, h4) <- decode_extended_headers h3 28 ;; Ok (ok, h4, st2)
      end
    end.

  (* ---- collapse_path: the in-place two-pointer machine.  The buffer is the
     string; w is the write index (the written prefix is kept as a list),
     currpath the index where the current component starts, base = 0 or 1
     when a leading '/' was skipped. ---- *)
  (* walk back: w = currpath - 1; while (w > base) { if (buf[w-1] == '/') break; --w; } over the written prefix *)
  Fixpoint walk_back (n : nat) (written : list N) (w base : N) : N :=
    match n with
    | O => w
    | S k =>
      if base <? w then
        match nth_N written (w - 1) with
        | Some b => if b =? 47 then w else walk_back k written (w - 1) base
        | None => w
        end
      else w
    end.

  (* state: (written prefix as list (w = its length), currpath) ; input the remaining source bytes *)
  Fixpoint collapse_loop (src : list N) (written : list N) (currpath base : N) : list N :=
    match src with
    | [] => written
    | c :: rest =>
      let written1 := written ++ [c] in
      let w := nlen written1 in
      if c =? 47 then
        let currpath_len := w - currpath - 1 in
        let comp := skipn_N currpath written1 in
        if (currpath_len =? 0) || ((currpath_len =? 1) && (match comp with b :: _ => b =? 46 | [] => false end)) then
          collapse_loop rest (firstn_N currpath written1) currpath base
        else if (currpath_len =? 2) && (match comp with a :: b :: _ => (a =? 46) && (b =? 46) | _ => false end) then
          if currpath =? base then collapse_loop rest (firstn_N base written1) currpath base
          else
            let w' := walk_back (N.to_nat currpath) written1 (currpath - 1) base in
            collapse_loop rest (firstn_N w' written1) w' base
        else collapse_loop rest written1 w base
      else collapse_loop rest written1 currpath base
    end.

  Definition collapse_path (p : list N) : list N :=
    match p with
    | 47 :: rest => 47 :: collapse_loop rest [] 0 0
    | _ => collapse_loop p [] 0 0
    end.

  (* strcmp(compress_method, s) == 0 *)
  Definition method_is (h : header) (s : list N) : bool := bytes_eqb (cstr (h_method h)) s.

  (* lha_file_header_read: None = NULL *)
  Definition lha_file_header_read (st : istream) : outcome (option header * istream) :=
    '(r, st1) <- lha_input_stream_read st hdr_COMMON_HEADER_LEN ;;
    match r with
    | None => Ok (None, st1)
    | Some raw =>
      lvl <- raw_at 1260 raw 20 ;;
      let h := set_level (header0 raw) lvl in
      '(ok, h1, st2) <-
         (if lvl =? 0 then decode_level0_header h st1
          else if lvl =? 1 then decode_level1_header h st1
          else if lvl =? 2 then decode_level2_header h st1
          else if lvl =? 3 then decode_level3_header h st1
          else Ok (false, h, st1)) ;;
      if negb ok then Ok (None, st2) else
      (* Amiga directories stored as -lh0- *)
      let h2 := if (h_os_type h1 =? OS_TYPE_AMIGA) && method_is h1 [45; 108; 104; 48; 45]
                   && (h_length h1 =? 0) && (match h_filename h1 with None => true | _ => false end)
                then set_method h1 COMPRESS_TYPE_DIR else h1 in
      let is_dir := method_is h2 COMPRESS_TYPE_DIR in
      let r3 :=
        if negb is_dir then
          match h_filename h2 with None => None | Some _ => Some h2 end
        else if have_extra h2 FILE_UNIX_PERMS
                && (match h_path h2, h_filename h2 with None, None => false | _, _ => true end)
                && (N.land (h_unix_perms h2) 61440 =? 40960) then parse_symlink h2
        else match h_path h2 with None => None | Some _ => Some h2 end in
      match r3 with
      | None => Ok (None, st2)
      | Some h3 =>
        let os := h_os_type h3 in
        let h4 := if (os =? OS_TYPE_UNKNOWN) || (os =? OS_TYPE_MSDOS) || (os =? OS_TYPE_ATARI)
                     || (os =? OS_TYPE_LHARK) || (os =? OS_TYPE_OS2) then fix_msdos_allcaps h3 else h3 in
        let h5 := set_path h4 (option_map collapse_path (h_path h4)) in
        let h6 := if (h_os_type h5 =? OS_TYPE_OS9_68K) && have_extra h5 FILE_UNIX_PERMS
                  then add_flag (set_os9_perms h5 (h_unix_perms h5)) FILE_OS9_PERMS else h5 in
        let h7 := if have_extra h6 FILE_OS9_PERMS then os9_to_unix_permissions h6 else h6 in
        if have_extra h7 FILE_COMMON_CRC && negb (lha_crc16_buf 0 (h_raw h7) =? h_common_crc h7) then Ok (None, st2) else
        let h8 := if (h_level h7 =? 1) && (h_os_type h7 =? OS_TYPE_LHARK)
                     && bytes_eqb (firstn 5 (cstr (h_method h7))) [45; 108; 104; 55; 45]
                  then set_method h7 (list_set (h_method h7) 2 107) else h7 in
        Ok (Some h8, st2)
      end
    end.
End WithTime.

(* The executable instance of mktime used for the correspondence runs, valid
   for TZ=UTC: civil-calendar day number, linear in the remaining fields (which
   is what mktime's normalisation of out-of-range fields amounts to). *)
Local Open Scope Z_scope.
Definition days_from_civil (y : Z) (m : Z) (d : Z) : Z :=
  let y := if m <=? 2 then y - 1 else y in
  let era := (if 0 <=? y then y else y - 399) / 400 in
  let yoe := y - era * 400 in
  let mp := (m + 9) mod 12 in
  let doy := (153 * mp + 2) / 5 + d - 1 in
  let doe := yoe * 365 + yoe / 4 - yoe / 100 + doy in
  era * 146097 + doe - 719468.

Definition mktime_utc (sec min hour mday : N) (mon : Z) (year : N) : N :=
  let y := 1900 + Z.of_N year + mon / 12 in
  let m := mon mod 12 + 1 in
  let days := days_from_civil y m 1 + (Z.of_N mday - 1) in
  let t := days * 86400 + Z.of_N hour * 3600 + Z.of_N min * 60 + Z.of_N sec in
  Z.to_N (t mod 4294967296).

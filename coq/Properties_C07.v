(* Properties_C07.v -- C07: a member is reported good only if its bytes match the
   recorded length and CRC-16.  The CRC algebra is proved here: the CRC of corrupted data is
   the CRC of the data xor the CRC of the error pattern, and every error pattern
   confined to 16 consecutive bits (bits numbered least significant first within
   each byte, the order CRC-16/ARC consumes them) changes the CRC -- hence is
   reported.  The verdict of lha_reader_check / lha_reader_extract
   (model Reader.v) is proved to be exactly "length and CRC of the bytes obtained
   = header values" (second part of this file); the verdict of the tool itself is
   decided by the check on the real tool. *)
From Lhasa Require Import Base ListN DecBase Loop Generated Crc16 P_Crc16 P_CrcBurst InputStream Header BasicReader
  AnyDecoder Decoder MacBinary Fs FsRun Reader P_ReaderCheck.
From Lhasa Require P_CliVerdict.
Local Open Scope N_scope.

(* the CRC compared with the header value is CRC-16/ARC of exactly the bytes produced (C17) *)
Theorem verdict_crc_is_arc : forall bs, Forall (fun b => b < 256) bs -> lha_crc16_buf 0 bs = crc_bitwise 0 bs.
Proof. intros bs H. apply crc16_is_arc_proof; [reflexivity|exact H]. Qed.

Theorem crc16_error_superposition : forall (D E : list N) c,
  length D = length E ->
  Forall (fun b => b < 256) D -> Forall (fun b => b < 256) E -> c < 65536 ->
  lha_crc16_buf c (map2 N.lxor D E) = N.lxor (lha_crc16_buf c D) (crc_bits 0 (bits_lsb E)).
Proof. exact P_CrcBurst.crc16_error_superposition. Qed.

(* any burst of at most 16 bits is detected, whatever the data and its length *)
Theorem burst16_detected : forall (D E : list N),
  length D = length E ->
  Forall (fun b => b < 256) D -> Forall (fun b => b < 256) E ->
  is_burst16 (bits_lsb E) ->
  forall c, c < 65536 -> lha_crc16_buf c (map2 N.lxor D E) <> lha_crc16_buf c D.
Proof. exact P_CrcBurst.burst16_detected. Qed.

Theorem stored_member_burst16_detected : forall (D E : list N) (recorded : N),
  length D = length E ->
  Forall (fun b => b < 256) D -> Forall (fun b => b < 256) E ->
  is_burst16 (bits_lsb E) -> recorded = lha_crc16_buf 0 D ->
  lha_crc16_buf 0 (map2 N.lxor D E) <> recorded.
Proof. exact P_CrcBurst.stored_member_burst16_detected. Qed.


(* ====== the verdict of the reader ====== *)
(* C07: a member is reported good only if its bytes match the
   recorded length and CRC-16 -- the verdict of lha_reader_check and of lha_reader_extract
   for a regular file (model: Reader.v do_decode).  Statements only; the proofs and the
   vocabulary are in P_ReaderCheck.v:

     dd_run junk out r f chunks r' f'   the successive lha_reader_read(reader, buf, 64) of do_decode,
                                        started with reader r and filesystem f, return the non-empty
                                        [chunks] (each written to the open file [out], if any), then
                                        nothing; r', f' are the reader and filesystem at that point
     write_chunks hd chunks f           f after fs_write of each chunk, in order, to the handle hd
     ireads junk d bs d'                the inner decoder d' is d after calls of lha_decoder_read that
                                        returned the bytes bs
     fresh_inner r mon d0          d0 is the decoder lha_basic_reader_decode creates for r's member
     inner_of r                         the decoder reader->inner_decoder points to

   Every statement has "... = Ok (...)" as hypothesis: a run of do_decode can also end in
   Fault 1403 or OutOfFuel; nothing is claimed about those.  The CRC the C compares is the
   table-driven lha_crc16_buf; it is CRC-16/ARC (crc_bitwise) when the decoder's output
   consists of bytes (cf. C14, C17). *)


Section C07_reader.
  Variable junk : N.

  (* 1. plain member reported good => the bytes do_decode obtained have the header's length and CRC *)
  Theorem check_good_implies_match : forall r mon ev r' h,
    lha_reader_check junk r mon = Ok (true, ev, r') ->
    rd_type r = CT_NORMAL -> rd_curr r = Some h -> is_dir_method h = false ->
    (h_os_type h =? OS_TYPE_MACOS) = false ->
    exists ev1 r1 chunks,
      open_decoder junk r mon = Ok (true, ev1, r1) /\
      dd_run junk None r1 check_fs chunks r' check_fs /\
      let bs := concat chunks in
      nlen bs = h_length h /\ lha_crc16_buf 0 bs = h_crc h /\
      (Forall (fun b => b < 256) bs -> crc_bitwise 0 bs = h_crc h).
  Proof. exact (P_ReaderCheck.check_good_implies_match junk). Qed.

  (* 2. the bytes do_decode obtains differ in length or CRC => reported bad *)
  Theorem check_mismatch_implies_bad : forall r mon res ev r' h ev1 r1 chunks r2 f2,
    lha_reader_check junk r mon = Ok (res, ev, r') ->
    rd_type r = CT_NORMAL -> rd_curr r = Some h -> is_dir_method h = false ->
    (h_os_type h =? OS_TYPE_MACOS) = false ->
    open_decoder junk r mon = Ok (true, ev1, r1) ->
    dd_run junk None r1 check_fs chunks r2 f2 ->
    nlen (concat chunks) <> h_length h \/ lha_crc16_buf 0 (concat chunks) <> h_crc h ->
    res = false.
  Proof. exact (P_ReaderCheck.check_mismatch_implies_bad junk). Qed.

  Theorem check_mismatch_implies_bad_arc : forall r mon res ev r' h ev1 r1 chunks r2 f2,
    lha_reader_check junk r mon = Ok (res, ev, r') ->
    rd_type r = CT_NORMAL -> rd_curr r = Some h -> is_dir_method h = false ->
    (h_os_type h =? OS_TYPE_MACOS) = false ->
    open_decoder junk r mon = Ok (true, ev1, r1) ->
    dd_run junk None r1 check_fs chunks r2 f2 ->
    Forall (fun b => b < 256) (concat chunks) ->
    nlen (concat chunks) <> h_length h \/ crc_bitwise 0 (concat chunks) <> h_crc h ->
    res = false.
  Proof. exact (P_ReaderCheck.check_mismatch_implies_bad_arc junk). Qed.

  (* no decoder for the member (unknown method, failed MacBinary set-up) => reported bad *)
  Theorem check_no_decoder_is_bad : forall r mon res ev r' h ev1 r1,
    lha_reader_check junk r mon = Ok (res, ev, r') ->
    rd_type r = CT_NORMAL -> rd_curr r = Some h -> is_dir_method h = false ->
    open_decoder junk r mon = Ok (false, ev1, r1) -> res = false /\ r' = r1.
  Proof. exact (P_ReaderCheck.check_no_decoder_is_bad junk). Qed.

  (* the run of do_decode is unique: "the" chunks *)
  Theorem dd_run_unique : forall out r f c1 r1 f1 c2 r2 f2,
    dd_run junk out r f c1 r1 f1 -> dd_run junk out r f c2 r2 f2 -> c1 = c2 /\ r1 = r2 /\ f1 = f2.
  Proof. intros. eapply dd_run_det; eauto. Qed.

  (* 3. extraction of a regular file reported good => the open file was written with exactly the
     verified bytes, in this order, and then the timestamp was set *)
  Theorem extract_good_implies_match : forall r f name mon ev r' f' h,
    extract_file junk r f name mon = Ok (true, ev, r', f') -> rd_curr r = Some h ->
    (h_os_type h =? OS_TYPE_MACOS) = false ->
    exists ev1 r1 hd f1 chunks,
      open_decoder junk r mon = Ok (true, ev1, r1) /\
      arch_fopen f (ex_fname h name) (ex_perms h) = (Some hd, f1) /\
      dd_run junk (Some hd) r1 f1 chunks r' (write_chunks hd chunks f1) /\
      Forall (fun o => o <> []) chunks /\
      let bs := concat chunks in
      nlen bs = h_length h /\ lha_crc16_buf 0 bs = h_crc h /\
      (Forall (fun b => b < 256) bs -> crc_bitwise 0 bs = h_crc h) /\
      f' = snd (set_timestamps_from_header (write_chunks hd chunks f1) (ex_fname h name) h).
  Proof. exact (P_ReaderCheck.extract_good_implies_match junk). Qed.

  Theorem extract_good_file_content : forall r f name mon ev r' f' h,
    extract_file junk r f name mon = Ok (true, ev, r', f') -> rd_curr r = Some h ->
    (h_os_type h =? OS_TYPE_MACOS) = false ->
    exists hd f1 bs f2,
      arch_fopen f (ex_fname h name) (ex_perms h) = (Some hd, f1) /\
      f' = snd (set_timestamps_from_header f2 (ex_fname h name) h) /\
      nlen bs = h_length h /\ lha_crc16_buf 0 bs = h_crc h /\
      (file_data f1 hd = Some [] -> file_data f2 hd = Some bs).
  Proof. exact (P_ReaderCheck.extract_good_file_content junk). Qed.

  Theorem extract_mismatch_implies_bad : forall r f name mon res ev r' f' h ev1 r1 hd f1 chunks r2 f2,
    extract_file junk r f name mon = Ok (res, ev, r', f') -> rd_curr r = Some h ->
    (h_os_type h =? OS_TYPE_MACOS) = false ->
    open_decoder junk r mon = Ok (true, ev1, r1) ->
    arch_fopen f (ex_fname h name) (ex_perms h) = (Some hd, f1) ->
    dd_run junk (Some hd) r1 f1 chunks r2 f2 ->
    nlen (concat chunks) <> h_length h \/ lha_crc16_buf 0 (concat chunks) <> h_crc h ->
    res = false /\ f' = write_chunks hd chunks f1.
  Proof. exact (P_ReaderCheck.extract_mismatch_implies_bad junk). Qed.

  (* reported bad => set_timestamps_from_header was not applied: the filesystem is the given one,
     or what lha_arch_fopen left, or that plus the writes *)
  Theorem extract_bad_no_timestamp : forall r f name mon ev r' f' h,
    extract_file junk r f name mon = Ok (false, ev, r', f') -> rd_curr r = Some h ->
    f' = f \/
    (fst (arch_fopen f (ex_fname h name) (ex_perms h)) = None /\ f' = snd (arch_fopen f (ex_fname h name) (ex_perms h))) \/
    (exists hd chunks, fst (arch_fopen f (ex_fname h name) (ex_perms h)) = Some hd /\
       f' = write_chunks hd chunks (snd (arch_fopen f (ex_fname h name) (ex_perms h)))).
  Proof. exact (P_ReaderCheck.extract_bad_no_timestamp junk). Qed.

  Theorem reader_extract_regular : forall r f name mon h,
    rd_type r = CT_NORMAL -> rd_curr r = Some h -> is_dir_method h = false ->
    lha_reader_extract junk r f name mon = extract_file junk r f name mon.
  Proof. exact (P_ReaderCheck.reader_extract_regular junk). Qed.

  (* 4. any member, MacOS (MacBinary pass-through) included: the verdict is about the stream of
     reader->inner_decoder -- for a MacOS member the MacBinary header and everything after the
     data fork included -- not about the chunks the caller gets *)
  Theorem check_good_implies_inner_match : forall r mon ev r' h,
    lha_reader_check junk r mon = Ok (true, ev, r') ->
    rd_type r = CT_NORMAL -> rd_curr r = Some h -> is_dir_method h = false ->
    exists ev1 r1 d0 ibs dfin chunks,
      open_decoder junk r mon = Ok (true, ev1, r1) /\
      dd_run junk None r1 check_fs chunks r' check_fs /\
      fresh_inner r mon d0 /\ ireads junk d0 ibs dfin /\ inner_of r' = Some dfin /\
      nlen ibs = h_length h /\ lha_crc16_buf 0 ibs = h_crc h /\
      (Forall (fun b => b < 256) ibs -> crc_bitwise 0 ibs = h_crc h).
  Proof. exact (P_ReaderCheck.check_good_implies_inner_match junk). Qed.

  Theorem check_inner_mismatch_implies_bad : forall r mon res ev r' h,
    lha_reader_check junk r mon = Ok (res, ev, r') ->
    rd_type r = CT_NORMAL -> rd_curr r = Some h -> is_dir_method h = false ->
    forall d0 ibs, fresh_inner r mon d0 ->
      ireads junk d0 ibs (match inner_of r' with Some d => d | None => d0 end) ->
      nlen ibs <> h_length h \/ lha_crc16_buf 0 ibs <> h_crc h -> res = false.
  Proof. exact (P_ReaderCheck.check_inner_mismatch_implies_bad junk). Qed.

  (* the exception the C makes: directory / symbolic link entries are good without decoding *)
  Theorem check_dir_entry_always_good : forall r mon h,
    rd_type r = CT_NORMAL -> rd_curr r = Some h -> is_dir_method h = true ->
    lha_reader_check junk r mon = Ok (true, [], r).
  Proof. exact (P_ReaderCheck.check_dir_entry_always_good junk). Qed.
End C07_reader.

(* 5. non-vacuity (concrete archives, see P_ReaderCheck.Example) *)
Example check_good_member : Example.ex_check Example.ex_good = Ok (Some (90, 52166, 0), true).
Proof. exact Example.check_good_member. Qed.
Example check_bad_crc_member : Example.ex_check Example.ex_bad = Ok (Some (90, 52167, 0), false).
Proof. exact Example.check_bad_crc_member. Qed.


(* ====== the verdict of the tool (lha t, lha x / e) -- statements: P_CliVerdict.v ======
   processed mode body argv stdin s hd st1 ok st2: in the run of lha_main the member hd
   was fetched and the command's body returned ok for it.
     lha_t_exit_status / lha_x_exit_status: the exit status is 0, 1 or 255; 0 implies every
       processed member returned 1; 1 implies some member returned 0; 255 only when the
       archive cannot be opened (t) / on exit(-1) paths (x);
     lha_t_good_implies_match / lha_t_exit0_implies_match: a regular non-MacOS member with
       result 1 (or exit status 0) was checked by lha_reader_check and the decoded bytes have
       the header's length and CRC;  lha_t_mismatch_implies_bad: bytes that mismatch give
       result 0, the "CRC error" line (quiet < 2) and a non-zero exit status;
     test_member_spec / extract_member_spec: exactly one library call per member and the
       exact lines printed (Tested / CRC error; Melted / Failure);
     x_melted_implies_content: "Melted" is printed only when the file holds exactly the
       verified bytes; x_mismatch_implies_bad / lha_x_mismatch_implies_bad: on mismatch
       result 0, "Failure", no time stamp, non-zero exit status.
   Recorded behaviour outside the property's wording (examples in P_CliVerdict.v): `tn`
   checks nothing; a member without a decoder fails silently (exit status 1, no line);
   directory and link entries are good without decoding. *)
Theorem lha_t_exit_status : ltac:(let t := type of P_CliVerdict.lha_t_exit_status in exact t).
Proof. exact P_CliVerdict.lha_t_exit_status. Qed.
Theorem lha_t_bad_exit_nonzero : ltac:(let t := type of P_CliVerdict.lha_t_bad_exit_nonzero in exact t).
Proof. exact P_CliVerdict.lha_t_bad_exit_nonzero. Qed.
Theorem test_member_spec : ltac:(let t := type of P_CliVerdict.test_member_spec in exact t).
Proof. exact P_CliVerdict.test_member_spec. Qed.
Theorem lha_t_good_implies_match : ltac:(let t := type of P_CliVerdict.lha_t_good_implies_match in exact t).
Proof. exact P_CliVerdict.lha_t_good_implies_match. Qed.
Theorem lha_t_exit0_implies_match : ltac:(let t := type of P_CliVerdict.lha_t_exit0_implies_match in exact t).
Proof. exact P_CliVerdict.lha_t_exit0_implies_match. Qed.
Theorem lha_t_mismatch_implies_bad : ltac:(let t := type of P_CliVerdict.lha_t_mismatch_implies_bad in exact t).
Proof. exact P_CliVerdict.lha_t_mismatch_implies_bad. Qed.
Theorem lha_x_exit_status : ltac:(let t := type of P_CliVerdict.lha_x_exit_status in exact t).
Proof. exact P_CliVerdict.lha_x_exit_status. Qed.
Theorem lha_x_bad_exit_nonzero : ltac:(let t := type of P_CliVerdict.lha_x_bad_exit_nonzero in exact t).
Proof. exact P_CliVerdict.lha_x_bad_exit_nonzero. Qed.
Theorem extract_member_spec : ltac:(let t := type of P_CliVerdict.extract_member_spec in exact t).
Proof. exact P_CliVerdict.extract_member_spec. Qed.
Theorem x_melted_implies_content : ltac:(let t := type of P_CliVerdict.x_melted_implies_content in exact t).
Proof. exact P_CliVerdict.x_melted_implies_content. Qed.
Theorem x_mismatch_implies_bad : ltac:(let t := type of P_CliVerdict.x_mismatch_implies_bad in exact t).
Proof. exact P_CliVerdict.x_mismatch_implies_bad. Qed.
Theorem lha_x_mismatch_implies_bad : ltac:(let t := type of P_CliVerdict.lha_x_mismatch_implies_bad in exact t).
Proof. exact P_CliVerdict.lha_x_mismatch_implies_bad. Qed.

Print Assumptions verdict_crc_is_arc.
Print Assumptions crc16_error_superposition.
Print Assumptions burst16_detected.
Print Assumptions stored_member_burst16_detected.
Print Assumptions check_good_implies_match.
Print Assumptions check_mismatch_implies_bad.
Print Assumptions check_mismatch_implies_bad_arc.
Print Assumptions check_no_decoder_is_bad.
Print Assumptions dd_run_unique.
Print Assumptions extract_good_implies_match.
Print Assumptions extract_good_file_content.
Print Assumptions extract_mismatch_implies_bad.
Print Assumptions extract_bad_no_timestamp.
Print Assumptions reader_extract_regular.
Print Assumptions check_good_implies_inner_match.
Print Assumptions check_inner_mismatch_implies_bad.
Print Assumptions check_dir_entry_always_good.
Print Assumptions check_good_member.
Print Assumptions check_bad_crc_member.
Print Assumptions lha_t_exit_status.
Print Assumptions lha_t_bad_exit_nonzero.
Print Assumptions test_member_spec.
Print Assumptions lha_t_good_implies_match.
Print Assumptions lha_t_exit0_implies_match.
Print Assumptions lha_t_mismatch_implies_bad.
Print Assumptions lha_x_exit_status.
Print Assumptions lha_x_bad_exit_nonzero.
Print Assumptions extract_member_spec.
Print Assumptions x_melted_implies_content.
Print Assumptions x_mismatch_implies_bad.
Print Assumptions lha_x_mismatch_implies_bad.

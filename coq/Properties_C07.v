(* Properties_C07.v -- C07: a member is reported good only if its bytes match the
   recorded length and CRC-16.  The CRC algebra is proved here: the CRC of corrupted data is
   the CRC of the data xor the CRC of the error pattern, and every error pattern
   confined to 16 consecutive bits (bits numbered least significant first within
   each byte, the order CRC-16/ARC consumes them) changes the CRC -- hence is
   reported.  Length errors and the verdict of the tool itself are decided by the
   check on the real tool (model = reference oracle on corrupted archives). *)
From Lhasa Require Import Base Crc16 P_Crc16 P_CrcBurst.
Local Open Scope N_scope.

(* the CRC compared with the header value is CRC-16/ARC of exactly the bytes produced (C17) *)
Theorem verdict_crc_is_arc : forall bs, Forall (fun b => b < 256) bs -> lha_crc16_buf 0 bs = crc_bitwise 0 bs.
Proof. intros bs H. apply crc16_is_arc_proof; [reflexivity|exact H]. Qed.

Theorem crc16_error_superposition : forall (D E : list N) c,
  length D = length E ->
  Forall (fun b => b < 256) D -> Forall (fun b => b < 256) E -> c < 65536 ->
  lha_crc16_buf c (map2 N.lxor D E) = N.lxor (lha_crc16_buf c D) (crc_bits 0 (bits_lsb E)).
Proof. exact P_CrcBurst.crc16_error_superposition. Qed.

(* any burst of at most 16 bits is detected, whatever the data and its length *)
Theorem burst16_detected : forall (D E : list N),
  length D = length E ->
  Forall (fun b => b < 256) D -> Forall (fun b => b < 256) E ->
  is_burst16 (bits_lsb E) ->
  forall c, c < 65536 -> lha_crc16_buf c (map2 N.lxor D E) <> lha_crc16_buf c D.
Proof. exact P_CrcBurst.burst16_detected. Qed.

Theorem stored_member_burst16_detected : forall (D E : list N) (recorded : N),
  length D = length E ->
  Forall (fun b => b < 256) D -> Forall (fun b => b < 256) E ->
  is_burst16 (bits_lsb E) -> recorded = lha_crc16_buf 0 D ->
  lha_crc16_buf 0 (map2 N.lxor D E) <> recorded.
Proof. exact P_CrcBurst.stored_member_burst16_detected. Qed.

Print Assumptions verdict_crc_is_arc.
Print Assumptions crc16_error_superposition.
Print Assumptions burst16_detected.
Print Assumptions stored_member_burst16_detected.

(* Properties_C07.v -- C07: a member is reported good only if its bytes match the
   recorded length and CRC-16.  The CRC algebra (burst detection) is added from
   P_CrcBurst.v and the verdict theorem about the reader model (check_iff) once
   Reader.v has been validated; the check decides the property on the real tool. *)
From Lhasa Require Import Base Crc16 P_Crc16.
Local Open Scope N_scope.

(* the CRC compared with the header value is CRC-16/ARC of exactly the bytes produced (C17) *)
Theorem verdict_crc_is_arc : forall bs, Forall (fun b => b < 256) bs -> lha_crc16_buf 0 bs = crc_bitwise 0 bs.
Proof. intros bs H. apply crc16_is_arc_proof; [reflexivity|exact H]. Qed.

(* Crc16.v -- model of lib/crc16.c (lha_crc16_buf) and the bitwise
   CRC-16/ARC specification.  Definitions only. *)
From Lhasa Require Import Base Generated.
Local Open Scope N_scope.

(* lib/crc16.c: one iteration of the loop body.
     index = (tmp ^ buf[i]) & 0xff;
     tmp = ((tmp >> 8) ^ crc16_table[index]) & 0xffff;            *)
Definition crc_step (tmp b : N) : N :=
  let index := N.land (N.lxor tmp b) 255 in
  N.land (N.lxor (N.shiftr tmp 8) (nth (N.to_nat index) crc16_table 0)) 65535.

Definition lha_crc16_buf (crc : N) (buf : list N) : N := fold_left crc_step buf crc.

(* Specification: CRC-16/ARC, reflected polynomial 0xA001, bit at a time. *)
Definition bit_step (x : N) : N :=
  if N.odd x then N.lxor (N.shiftr x 1) 40961 else N.shiftr x 1.

Definition bit_step8 (x : N) : N :=
  bit_step (bit_step (bit_step (bit_step (bit_step (bit_step (bit_step (bit_step x))))))).

Definition byte_step (c b : N) : N := bit_step8 (N.lxor c b).

Definition crc_bitwise (c : N) (bs : list N) : N := fold_left byte_step bs c.

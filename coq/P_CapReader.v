(* P_CapReader.v -- the basic reader over a byte stream that is a sequence of
   segments (an encoded header followed, for a regular member, by its stored
   bytes) and the end marker delivers exactly the headers of the segments in
   order, and every regular member decodes to its bytes: P_CliTree.positioned /
   upcoming for that sequence.  The header round trip (C05, stated for a
   callback stream at a member boundary) is carried over to any stream kind and
   any bookkeeping by the kind- and bookkeeping-independence theorems
   (P_KindIndep, P_StreamEquiv); the first header goes through the
   self-extractor scan (P_Sfx). *)
From Lhasa Require Import Base ListN DecBase Loop Generated Crc16 P_Crc16 InputStream Header S_Header BasicReader
  AnyDecoder Decoder MacBinary Fs FsRun Reader P_Sfx P_HeaderSafe P_Intact P_Header P_StreamEquiv P_BasicReaderIndep P_KindIndep
  P_ReaderCheck P_ReaderExtract Glob ListOut CliFilter CliExtract P_FsExtract P_CliExtract P_CliTree S_Capstone P_CapMember.
From Coq Require Import ZifyBool ZifyN ZifyNat.
Local Open Scope N_scope.

Set Default Timeout 120.

Record seg := { sg_f : fields; sg_h : header; sg_data : option (list N) }.

Definition seg_data (s : seg) : list N := match sg_data s with Some bs => bs | None => [] end.
Definition seg_bytes (s : seg) : list N := encode_header (sg_f s) ++ seg_data s.
Definition seg_mem (s : seg) : member :=
  match sg_data s with Some bs => MFile (sg_h s) bs | None => MOther (sg_h s) end.
Definition segs_bytes (l : list seg) : list N := concat (map seg_bytes l) ++ [0].

(* a level-2 header starts with its length and the method *)
Lemma enc_head f : f_level f = 2 ->
  exists a b Y, encode_header f = a :: b :: f_method f ++ Y /\ 19 <= nlen Y.
Proof.
  intros Hl. unfold encode_header, encode_with. rewrite Hl. cbv zeta. cbn [le_bytes app].
  eexists. eexists. eexists. split.
  - rewrite <- !app_assoc. reflexivity.
  - repeat (rewrite nlen_app || rewrite nlen_cons || rewrite nlen_nil). lia.
Qed.

Section Reader.
  Variable mktime : N -> N -> N -> N -> Z -> N -> N.
  Variable junk : N.

  Definition seg_ok (s : seg) : Prop :=
    wf_fields (sg_f s) = true /\ normalise mktime (sg_f s) = Some (sg_h s) /\
    f_level (sg_f s) = 2 /\ (f_method (sg_f s) = lh0 \/ f_method (sg_f s) = lhd) /\
    h_compressed_length (sg_h s) = nlen (seg_data s) /\
    match sg_data s with
    | Some bs => cstr (h_method (sg_h s)) = lh0 /\ (h_os_type (sg_h s) =? OS_TYPE_MACOS) = false /\
                 h_length (sg_h s) = nlen bs /\ lha_crc16_buf 0 bs = h_crc (sg_h s) /\ nlen bs < 4294967296
    | None => True
    end.

  (* ---- the header round trip on any stream past its first read ---- *)
  Lemma header_read_any st f rest : wf_fields f = true ->
    is_state st = IS_READING -> remaining st = encode_header f ++ rest ->
    exists st', lha_file_header_read mktime st = Ok (normalise mktime f, st') /\
      is_state st' = IS_READING /\ remaining st' = rest.
  Proof.
    intros Hwf Hs Hr.
    set (b := {| is_src := {| so_kind := so_kind (is_src st); so_data := remaining st; so_reads := 0; so_skips := 0 |};
                 is_state := IS_READING; is_leadin := [] |}).
    assert (Hab : stream_equiv st b).
    { unfold stream_equiv, remaining, b. cbn [is_src is_state is_leadin so_kind so_data app].
      split; [reflexivity|]. split; [exact Hs|]. split; [reflexivity|]. rewrite Hs. discriminate. }
    assert (Hbc : kind_rel b (ready_stream (encode_header f ++ rest))).
    { unfold kind_rel, b, ready_stream, mk_source. cbn [is_src is_state is_leadin so_data]. auto. }
    pose proof (lha_file_header_read_equiv mktime st b Hab) as R1.
    pose proof (lha_file_header_read_kind mktime b _ Hbc) as R2.
    rewrite (P_Header.header_roundtrip mktime f rest Hwf) in R2.
    destruct (lha_file_header_read mktime b) as [[x sb]| |]; cbn [orel] in R2; try contradiction.
    destruct R2 as [Ex (S2 & L2 & D2)]. cbn [fst snd] in *.
    destruct (lha_file_header_read mktime st) as [[y sa]| |]; cbn [orel] in R1; try contradiction.
    destruct R1 as [Ey (K1 & S1 & Rm1 & _)]. cbn [fst snd] in *.
    exists sa. split; [congruence|]. split; [rewrite S1, S2; reflexivity|].
    rewrite Rm1. unfold remaining. rewrite L2, D2. reflexivity.
  Qed.

  (* a returned header has emptied the lead-in buffer *)
  Lemma header_read_any_some st f rest h : wf_fields f = true -> wf st ->
    is_state st = IS_READING -> remaining st = encode_header f ++ rest -> normalise mktime f = Some h ->
    exists st', lha_file_header_read mktime st = Ok (Some h, st') /\
      is_state st' = IS_READING /\ is_leadin st' = [] /\ so_data (is_src st') = rest.
  Proof.
    intros Hwf Hw Hs Hr Hn. destruct (header_read_any st f rest Hwf Hs Hr) as (st' & E & S' & R').
    rewrite Hn in E. exists st'. split; [exact E|]. split; [exact S'|].
    destruct (header_read_some_lead mktime st h st' Hw E) as [L _]. split; [exact L|].
    unfold remaining in R'. rewrite L in R'. exact R'.
  Qed.

  (* ---- lha_basic_reader_next_file at the end of a member ---- *)
  Lemma skip_zero st : exists src', lha_input_stream_skip st 0 =
      Ok (true, {| is_src := src'; is_state := is_state st; is_leadin := is_leadin st |}) /\
    so_data src' = so_data (is_src st).
  Proof.
    destruct (lha_input_stream_skip_spec st 0) as (src' & E & _ & D); [left; lia|].
    exists src'. rewrite skipn_N_0 in D. split; [|exact D]. rewrite E. f_equal. f_equal.
    unfold skip_succeeds. destruct (so_kind (is_src st)); try reflexivity; apply N.leb_le; lia.
  Qed.

  Lemma next_at_seg br h0 s T : br_at br (Some h0) [] (seg_bytes s ++ T) -> seg_ok s ->
    exists br', lha_basic_reader_next_file mktime br = Ok (Some (sg_h s), br') /\
      br_at br' (Some (sg_h s)) (seg_data s) T.
  Proof.
    intros (Hc & He & Hr & Hs & Hl & Hd) (Hwf & Hn & _ & _ & Hcl & _).
    unfold lha_basic_reader_next_file. rewrite Hc, Hr. cbn [nlen length N.of_nat].
    destruct (skip_zero (br_stream br)) as (src' & E & D). rewrite E. cbn [bind]. cbv beta iota. cbn [br_eof]. rewrite He.
    cbn [br_stream].
    destruct (header_read_any_some {| is_src := src'; is_state := is_state (br_stream br); is_leadin := is_leadin (br_stream br) |}
                (sg_f s) (seg_data s ++ T) (sg_h s) Hwf) as (st' & E' & S' & L' & D').
    - unfold wf. cbn [is_leadin]. rewrite Hl, nlen_nil. lia.
    - exact Hs.
    - unfold remaining. cbn [is_leadin is_src]. rewrite Hl, D, Hd. cbn [app]. unfold seg_bytes. rewrite <- app_assoc. reflexivity.
    - exact Hn.
    - rewrite E'. cbn [bind]. cbv beta iota. eexists. split; [reflexivity|].
      unfold br_at. cbn [br_curr br_eof br_remaining br_stream]. repeat split; assumption.
  Qed.

  Lemma next_at_end br h0 : br_at br (Some h0) [] [0] ->
    exists br', lha_basic_reader_next_file mktime br = Ok (None, br') /\ br_curr br' = None.
  Proof.
    intros (Hc & He & Hr & Hs & Hl & Hd).
    unfold lha_basic_reader_next_file. rewrite Hc, Hr. cbn [nlen length N.of_nat].
    destruct (skip_zero (br_stream br)) as (src' & E & D). rewrite E. cbn [bind]. cbv beta iota. cbn [br_eof]. rewrite He.
    cbn [br_stream].
    destruct (header_read_short mktime {| is_src := src'; is_state := is_state (br_stream br); is_leadin := is_leadin (br_stream br) |})
      as (st' & E').
    - cbn [is_state]. rewrite Hs. discriminate.
    - unfold remaining. cbn [is_leadin is_src]. rewrite Hl, D, Hd. cbn. lia.
    - rewrite E'. cbn [bind]. cbv beta iota. eexists. split; reflexivity.
  Qed.

  (* ---- the first header: through the self-extractor scan ---- *)
  Lemma first_header k s T : seg_ok s ->
    exists st', lha_file_header_read mktime (lha_input_stream_new (mk_source k (seg_bytes s ++ T))) = Ok (Some (sg_h s), st') /\
      is_state st' = IS_READING /\ is_leadin st' = [] /\ so_data (is_src st') = seg_data s ++ T.
  Proof.
    intros (Hwf & Hn & Hlv & Hmeth & _).
    set (A := seg_bytes s ++ T).
    destruct (enc_head (sg_f s) Hlv) as (a & b & Y & Eenc & HY).
    assert (HA : 13 <= nlen A /\ match_at A 0 = true).
    { unfold A, seg_bytes. rewrite Eenc.
      destruct Hmeth as [-> | ->]; unfold lh0, lhd; cbn [app].
      - split; [rewrite !nlen_cons, !nlen_app; lia|reflexivity].
      - split; [rewrite !nlen_cons, !nlen_app; lia|reflexivity]. }
    destruct HA as [HA13 HAm].
    destruct (sfx_prefix_skipped k [] A) as (s1 & Esk & Hrem & Hst).
    - rewrite nlen_nil. reflexivity.
    - exact HA13.
    - exact HAm.
    - intros q Hq. rewrite nlen_nil in Hq. lia.
    - cbn [app] in Esk.
      destruct (skip_sfx_total (lha_input_stream_new (mk_source k A))) as (ok' & s1' & Esk' & Hw1 & _ & _).
      { unfold wf. cbn. lia. }
      rewrite Esk in Esk'. injection Esk' as <- <-.
      set (st1 := {| is_src := is_src s1; is_state := IS_READING; is_leadin := is_leadin s1 |}).
      assert (Eeq : lha_file_header_read mktime (lha_input_stream_new (mk_source k A)) = lha_file_header_read mktime st1).
      { unfold lha_file_header_read, lha_input_stream_read. cbn [is_state lha_input_stream_new st1]. rewrite Esk. reflexivity. }
      rewrite Eeq.
      apply (header_read_any_some st1 (sg_f s) (seg_data s ++ T) (sg_h s) Hwf).
      + exact Hw1.
      + reflexivity.
      + unfold remaining, st1. cbn [is_leadin is_src]. rewrite Hrem. unfold A, seg_bytes. rewrite <- app_assoc. reflexivity.
      + exact Hn.
  Qed.

  Lemma first_next k s T : seg_ok s ->
    exists br', lha_basic_reader_next_file mktime (lha_basic_reader_new (lha_input_stream_new (mk_source k (seg_bytes s ++ T)))) =
                Ok (Some (sg_h s), br') /\ br_at br' (Some (sg_h s)) (seg_data s) T.
  Proof.
    intros Hok. destruct (first_header k s T Hok) as (st' & E & S' & L' & D').
    destruct Hok as (_ & _ & _ & _ & Hcl & _).
    unfold lha_basic_reader_next_file, lha_basic_reader_new. cbn [br_curr bind br_eof br_stream]. rewrite E. cbn [bind]. cbv beta iota.
    eexists. split; [reflexivity|]. unfold br_at. cbn [br_curr br_eof br_remaining br_stream]. repeat split; assumption.
  Qed.

  Lemma empty_next k :
    exists br', lha_basic_reader_next_file mktime (lha_basic_reader_new (lha_input_stream_new (mk_source k [0]))) = Ok (None, br') /\
                br_curr br' = None.
  Proof. destruct k; eexists; (split; [vm_compute; reflexivity|reflexivity]). Qed.

  (* ---- the sequence of members ---- *)
  Notation positioned := (positioned mktime junk).

  Lemma positioned_at_step s segs : seg_ok s ->
    (forall br h, br_at br (Some h) [] (segs_bytes segs) ->
       exists x br', lha_basic_reader_next_file mktime br = Ok (x, br') /\ positioned br' (map seg_mem segs)) ->
    forall br, br_at br (Some (sg_h s)) (seg_data s) (segs_bytes segs) ->
    positioned br (seg_mem s :: map seg_mem segs).
  Proof.
    intros Hok Hnext br Hbr. pose proof Hok as (_ & _ & _ & _ & _ & Hd).
    unfold seg_mem at 1. unfold seg_data in Hbr. destruct (sg_data s) as [bs|].
    - destruct Hd as (Hm & Hos & Hlen & Hcrc & Hsz).
      apply pos_file; [apply Hbr|].
      intros r Hrb Hty Hcur. subst br.
      destruct (stored_member_ok junk r (sg_h s) bs (segs_bytes segs) Hty Hcur Hbr Hm Hos Hlen Hcrc) as (r2 & Hmem & Hbr2).
      { assert (4294967296 < 2 ^ 60) by reflexivity. lia. }
      exists r2. split; [exact Hmem|]. apply (Hnext _ _ Hbr2).
    - destruct (Hnext br (sg_h s) Hbr) as (x & br' & En & Hp).
      eapply pos_other; [apply Hbr|exact En|exact Hp].
  Qed.

  Lemma positioned_from : forall segs, Forall seg_ok segs ->
    forall br h, br_at br (Some h) [] (segs_bytes segs) ->
    exists x br', lha_basic_reader_next_file mktime br = Ok (x, br') /\ positioned br' (map seg_mem segs).
  Proof.
    induction segs as [|s segs IH]; intros Hok br h Hbr.
    - destruct (next_at_end br h Hbr) as (br' & E & Hc). exists None, br'. split; [exact E|]. apply pos_end. exact Hc.
    - inversion Hok as [|s0 l0 Hs Hsegs]; subst.
      assert (Eb : segs_bytes (s :: segs) = seg_bytes s ++ segs_bytes segs).
      { unfold segs_bytes. cbn [map concat]. rewrite <- app_assoc. reflexivity. }
      rewrite Eb in Hbr.
      destruct (next_at_seg br h s _ Hbr Hs) as (br' & E & Hbr').
      exists (Some (sg_h s)), br'. split; [exact E|]. cbn [map].
      apply positioned_at_step; [exact Hs|exact (IH Hsegs)|exact Hbr'].
  Qed.

  (* the reader made for the byte sequence of the segments delivers them *)
  Theorem upcoming_segs k segs : Forall seg_ok segs ->
    upcoming mktime junk (lha_reader_new (lha_input_stream_new (mk_source k (segs_bytes segs)))) (map seg_mem segs).
  Proof.
    intros Hok. unfold upcoming, fetch, lha_reader_new. cbn [rd_type rd_br].
    destruct segs as [|s segs].
    - destruct (empty_next k) as (br' & E & Hc). exists br'. unfold segs_bytes. cbn [map concat app]. rewrite E. cbn [bind].
      split; [reflexivity|]. apply pos_end. exact Hc.
    - inversion Hok as [|s0 l0 Hs Hsegs]; subst.
      assert (Eb : segs_bytes (s :: segs) = seg_bytes s ++ segs_bytes segs).
      { unfold segs_bytes. cbn [map concat]. rewrite <- app_assoc. reflexivity. }
      rewrite Eb.
      destruct (first_next k s (segs_bytes segs) Hs) as (br' & E & Hbr'). exists br'. rewrite E. cbn [bind].
      split; [reflexivity|]. cbn [map].
      apply positioned_at_step; [exact Hs|exact (positioned_from segs Hsegs)|exact Hbr'].
  Qed.
End Reader.

Print Assumptions upcoming_segs.

(* P_Tree.v -- memory safety and termination of the tree code (Tree.v, model of
   lib/tree_decode.c) for ARBITRARY code-length vectors: over-subscribed,
   incomplete, all zero, stale tree contents from earlier builds.

   Main results (leaf = 2^w):
     init_tree_closed, set_tree_single_closed, build_tree_closed,
     read_from_tree_safe, and a computed non-vacuity example. *)
From Lhasa Require Import Base DecBase BitReader Loop Tree.
From Coq Require Import ZifyBool ZifyN ZifyNat.
Local Open Scope N_scope.

(* Every entry among the first [len] fits the element type, and every non-leaf
   entry points strictly forward to a pair inside the first [len] entries. *)
Definition closed (leaf : N) (t : arr) (len : N) : Prop :=
  len <= alen t /\
  forall i, i < len ->
    aget t i < 2 * leaf /\
    (is_leaf leaf (aget t i) = true \/ (i < aget t i /\ aget t i + 1 < len)).

(* unfolding lemmas (never [simpl] over N arithmetic) *)
Lemma init_tree_loop_S leaf k t i :
  init_tree_loop leaf (S k) t i = (t' <- wr 601 t i leaf ;; init_tree_loop leaf k t' (i + 1)).
Proof. reflexivity. Qed.

Lemma expand_loop_S leaf k b e :
  expand_loop leaf (S k) b e =
  if b_next b <? e then
    t' <- wr 603 (b_tree b) (b_next b) (elem leaf (b_allocated b)) ;;
    expand_loop leaf k {| b_tree := t'; b_len := b_len b; b_allocated := b_allocated b + 2;
                          b_next := b_next b + 1 |} e
  else Ok b.
Proof. reflexivity. Qed.

Lemma add_codes_loop_S leaf k b cl i code_len rem :
  add_codes_loop leaf (S k) b cl i code_len rem =
  (l <- rd 604 cl i ;;
   if l =? code_len then
     let '(node, b1) := read_next_entry b in
     t' <- wr 605 (b_tree b1) node (N.lor (elem leaf i) leaf) ;;
     add_codes_loop leaf k {| b_tree := t'; b_len := b_len b1; b_allocated := b_allocated b1;
                              b_next := b_next b1 |} cl (i + 1) code_len rem
   else
     add_codes_loop leaf k b cl (i + 1) code_len (if code_len <? l then true else rem)).
Proof. reflexivity. Qed.

Lemma build_loop_S leaf f b cl num code_len :
  build_loop leaf (S f) b cl num code_len =
  (b1 <- expand_queue leaf b ;;
   '(b2, more) <- add_codes_with_length leaf b1 cl num (code_len + 1) ;;
   if more then build_loop leaf f b2 cl num (code_len + 1) else Ok b2).
Proof. reflexivity. Qed.

Section TreeProofs.
  Variables leaf w : N.
  Hypothesis Hleaf : leaf = 2 ^ w.

  (* ---------------------------------------------------------------- *)
  (* bit facts about the element type                                  *)

  Lemma leaf_pos : 0 < leaf.
  Proof. rewrite Hleaf. pose proof (N.pow_nonzero 2 w). lia. Qed.

  Lemma two_leaf : 2 * leaf = 2 ^ (w + 1).
  Proof. rewrite Hleaf, N.add_1_r, N.pow_succ_r'. reflexivity. Qed.

  Lemma mask_ones : 2 * leaf - 1 = N.ones (w + 1).
  Proof. rewrite N.ones_equiv, <- two_leaf. lia. Qed.

  Lemma elem_mod v : elem leaf v = v mod (2 * leaf).
  Proof. unfold elem. rewrite mask_ones, N.land_ones, <- two_leaf. reflexivity. Qed.

  Lemma elem_lt v : elem leaf v < 2 * leaf.
  Proof. rewrite elem_mod. apply N.mod_lt. pose proof leaf_pos. lia. Qed.

  Lemma elem_small v : v < 2 * leaf -> elem leaf v = v.
  Proof. intros H. rewrite elem_mod. apply N.mod_small. exact H. Qed.

  Lemma is_leaf_lor x : is_leaf leaf (N.lor x leaf) = true.
  Proof.
    unfold is_leaf. rewrite N.land_lor_distr_l, N.land_diag.
    destruct (N.eqb_spec (N.lor (N.land x leaf) leaf) 0) as [E|E]; [|reflexivity].
    apply N.lor_eq_0_iff in E. pose proof leaf_pos. lia.
  Qed.

  Lemma is_leaf_leaf : is_leaf leaf leaf = true.
  Proof. rewrite <- (N.lor_0_l leaf) at 2. apply is_leaf_lor. Qed.

  Lemma lor_leaf_lt x : x < 2 * leaf -> N.lor x leaf < 2 * leaf.
  Proof.
    intros H.
    assert (E : N.lor x leaf = N.lor x leaf mod (2 * leaf)).
    { rewrite two_leaf, <- N.land_ones, N.land_lor_distr_l, !N.land_ones, <- two_leaf.
      rewrite (N.mod_small x) by exact H.
      rewrite (N.mod_small leaf) by (pose proof leaf_pos; lia). reflexivity. }
    rewrite E. apply N.mod_lt. pose proof leaf_pos. lia.
  Qed.

  Lemma land_low_lt code : N.land code (leaf - 1) < leaf.
  Proof.
    assert (E : leaf - 1 = N.ones w) by (rewrite N.ones_equiv, <- Hleaf; lia).
    rewrite E, N.land_ones, <- Hleaf. apply N.mod_lt. pose proof leaf_pos. lia.
  Qed.

  (* ---------------------------------------------------------------- *)
  (* closedness is kept by a store of a leaf or a forward pointer                         *)

  Lemma closed_aset t len i v :
    closed leaf t len -> v < 2 * leaf ->
    (is_leaf leaf v = true \/ (i < v /\ v + 1 < len)) ->
    closed leaf (aset t i v) len.
  Proof.
    intros [Hl Hc] Hv Hp. split; [rewrite alen_aset; exact Hl|].
    intros j Hj. rewrite aget_aset.
    destruct (N.eqb_spec i j) as [E|E].
    - subst j. split; [exact Hv|exact Hp].
    - apply Hc. exact Hj.
  Qed.

  Lemma closed_alen t len : closed leaf t len -> len <= alen t.
  Proof. intros [H _]. exact H. Qed.

  (* ---------------------------------------------------------------- *)
  (* init_tree                                                         *)

  Lemma init_tree_loop_ok n : forall t i, i + N.of_nat n <= alen t ->
    exists t', init_tree_loop leaf n t i = Ok t' /\ alen t' = alen t /\
      forall j, aget t' j = if (i <=? j) && (j <? i + N.of_nat n) then leaf else aget t j.
  Proof.
    induction n as [|n IH]; intros t i Hn.
    - exists t. split; [reflexivity|]. split; [reflexivity|]. intros j.
      destruct (N.leb_spec i j); destruct (N.ltb_spec j (i + N.of_nat 0)); try reflexivity; lia.
    - rewrite init_tree_loop_S. rewrite wr_ok by lia. cbn [bind].
      destruct (IH (aset t i leaf) (i + 1)) as (t' & E & L & G); [rewrite alen_aset; lia|].
      exists t'. split; [exact E|]. split; [rewrite L; apply alen_aset|].
      intros j. rewrite G. rewrite aget_aset.
      destruct (N.leb_spec (i + 1) j); destruct (N.ltb_spec j (i + 1 + N.of_nat n));
        destruct (N.leb_spec i j); destruct (N.ltb_spec j (i + N.of_nat (S n)));
        destruct (N.eqb_spec i j); cbn [andb]; try reflexivity; lia.
  Qed.

  Theorem init_tree_closed t tree_len : tree_len <= alen t ->
    exists t', init_tree leaf t tree_len = Ok t' /\ closed leaf t' tree_len /\ alen t' = alen t /\
      (forall j, j < tree_len -> aget t' j = leaf) /\
      (forall j, tree_len <= j -> aget t' j = aget t j).
  Proof.
    intros H. unfold init_tree.
    destruct (init_tree_loop_ok (N.to_nat tree_len) t 0) as (t' & E & L & G); [lia|].
    assert (G1 : forall j, j < tree_len -> aget t' j = leaf).
    { intros j Hj. rewrite G.
      destruct (N.leb_spec 0 j); destruct (N.ltb_spec j (0 + N.of_nat (N.to_nat tree_len)));
        cbn [andb]; try reflexivity; lia. }
    assert (G2 : forall j, tree_len <= j -> aget t' j = aget t j).
    { intros j Hj. rewrite G.
      destruct (N.leb_spec 0 j); destruct (N.ltb_spec j (0 + N.of_nat (N.to_nat tree_len)));
        cbn [andb]; try reflexivity; lia. }
    exists t'. split; [exact E|]. split; [|split; [exact L|split; [exact G1|exact G2]]].
    split; [lia|]. intros i Hi. rewrite (G1 i Hi).
    split; [pose proof leaf_pos; lia|left; apply is_leaf_leaf].
  Qed.

  (* ---------------------------------------------------------------- *)
  (* set_tree_single                                                   *)

  Theorem set_tree_single_closed t len code :
    closed leaf t len -> 0 < len ->
    exists t', set_tree_single leaf t code = Ok t' /\ closed leaf t' len /\ alen t' = alen t.
  Proof.
    intros Hc Hl. unfold set_tree_single.
    rewrite wr_ok by (pose proof (closed_alen _ _ Hc); lia).
    eexists. split; [reflexivity|]. split; [|apply alen_aset].
    apply closed_aset; [exact Hc|apply lor_leaf_lt, elem_lt|left; apply is_leaf_lor].
  Qed.

  (* ---------------------------------------------------------------- *)
  (* build_tree                                                        *)

  (* builder invariant: the queue next..allocated lies inside the tree *)
  Definition bwf (b : bld) : Prop :=
    closed leaf (b_tree b) (b_len b) /\ b_next b <= b_allocated b /\
    b_allocated b <= b_len b /\ 1 <= b_len b /\ b_len b <= 2 * leaf.

  Lemma expand_loop_ok n : forall b e,
    bwf b -> e <= b_allocated b -> b_next b <= e ->
    b_allocated b + 2 * (e - b_next b) <= b_len b ->
    exists b', expand_loop leaf n b e = Ok b' /\ bwf b' /\
      alen (b_tree b') = alen (b_tree b) /\ b_len b' = b_len b.
  Proof.
    induction n as [|n IH]; intros b e Hb He Hn Hroom.
    - exists b. split; [reflexivity|]. split; [exact Hb|]. split; reflexivity.
    - rewrite expand_loop_S. destruct (N.ltb_spec (b_next b) e) as [Hlt|Hge].
      + destruct Hb as (Hc & H1 & H2 & H3 & H4).
        pose proof (closed_alen _ _ Hc) as Hal.
        rewrite wr_ok by lia. cbn [bind].
        rewrite elem_small by lia.
        destruct (IH {| b_tree := aset (b_tree b) (b_next b) (b_allocated b); b_len := b_len b;
                        b_allocated := b_allocated b + 2; b_next := b_next b + 1 |} e)
          as (b' & E & W & L & K); cbn [b_tree b_len b_allocated b_next]; try lia.
        { split; cbn [b_tree b_len b_allocated b_next]; [|lia].
          apply closed_aset; [exact Hc|lia|right; lia]. }
        exists b'. split; [exact E|]. split; [exact W|].
        cbn [b_tree b_len] in L, K. rewrite alen_aset in L. split; [exact L|exact K].
      + exists b. split; [reflexivity|]. split; [exact Hb|]. split; reflexivity.
  Qed.

  Lemma expand_queue_ok b : bwf b ->
    exists b', expand_queue leaf b = Ok b' /\ bwf b' /\
      alen (b_tree b') = alen (b_tree b) /\ b_len b' = b_len b.
  Proof.
    intros Hb. unfold expand_queue.
    destruct (N.ltb_spec (b_len b) (b_allocated b + (b_allocated b - b_next b) * 2)) as [H|H].
    - exists b. split; [reflexivity|]. split; [exact Hb|]. split; reflexivity.
    - pose proof Hb as (Hc & H1 & H2 & H3 & H4). apply expand_loop_ok; try lia. exact Hb.
  Qed.

  Lemma add_codes_loop_ok n : forall b cl i code_len rem,
    bwf b -> i + N.of_nat n <= alen cl ->
    (forall j, i <= j -> j < i + N.of_nat n -> aget cl j < 256) ->
    exists b' r, add_codes_loop leaf n b cl i code_len rem = Ok (b', r) /\ bwf b' /\
      alen (b_tree b') = alen (b_tree b) /\ b_len b' = b_len b /\
      (r = true -> rem = true \/ code_len < 255).
  Proof.
    induction n as [|n IH]; intros b cl i code_len rem Hb Hn Hcl.
    - exists b, rem. split; [reflexivity|]. split; [exact Hb|]. repeat split; auto.
    - rewrite add_codes_loop_S. rewrite rd_ok by lia. cbn [bind].
      destruct (N.eqb_spec (aget cl i) code_len) as [El|El].
      + destruct Hb as (Hc & H1 & H2 & H3 & H4).
        pose proof (closed_alen _ _ Hc) as Hal.
        unfold read_next_entry.
        destruct (N.leb_spec (b_allocated b) (b_next b)) as [Hq|Hq]; cbv beta iota zeta;
          cbn [b_tree b_len b_allocated b_next].
        * (* queue exhausted: the C writes node 0 *)
          rewrite wr_ok by lia. cbn [bind].
          destruct (IH {| b_tree := aset (b_tree b) 0 (N.lor (elem leaf i) leaf); b_len := b_len b;
                          b_allocated := b_allocated b; b_next := b_next b |}
                       cl (i + 1) code_len rem) as (b' & r & E & W & L & K & M);
            cbn [b_tree b_len b_allocated b_next]; try lia.
          { split; cbn [b_tree b_len b_allocated b_next]; [|lia].
            apply closed_aset; [exact Hc|apply lor_leaf_lt, elem_lt|left; apply is_leaf_lor]. }
          { intros j Hj1 Hj2. apply Hcl; lia. }
          exists b', r. split; [exact E|]. split; [exact W|].
          cbn [b_tree b_len] in L, K. rewrite alen_aset in L. auto.
        * rewrite wr_ok by lia. cbn [bind].
          destruct (IH {| b_tree := aset (b_tree b) (b_next b) (N.lor (elem leaf i) leaf);
                          b_len := b_len b; b_allocated := b_allocated b; b_next := b_next b + 1 |}
                       cl (i + 1) code_len rem) as (b' & r & E & W & L & K & M);
            cbn [b_tree b_len b_allocated b_next]; try lia.
          { split; cbn [b_tree b_len b_allocated b_next]; [|lia].
            apply closed_aset; [exact Hc|apply lor_leaf_lt, elem_lt|left; apply is_leaf_lor]. }
          { intros j Hj1 Hj2. apply Hcl; lia. }
          exists b', r. split; [exact E|]. split; [exact W|].
          cbn [b_tree b_len] in L, K. rewrite alen_aset in L. auto.
      + destruct (IH b cl (i + 1) code_len (if code_len <? aget cl i then true else rem))
          as (b' & r & E & W & L & K & M); try lia; [exact Hb| |].
        { intros j Hj1 Hj2. apply Hcl; lia. }
        exists b', r. split; [exact E|]. split; [exact W|]. split; [exact L|]. split; [exact K|].
        intros Hr. specialize (M Hr).
        destruct (N.ltb_spec code_len (aget cl i)) as [Hlt|Hge].
        * right. assert (aget cl i < 256) by (apply Hcl; lia). lia.
        * exact M.
  Qed.

  Lemma build_loop_ok fuel : forall b cl num code_len,
    bwf b -> num <= alen cl -> (forall j, j < num -> aget cl j < 256) ->
    255 - code_len < N.of_nat fuel ->
    exists b', build_loop leaf fuel b cl num code_len = Ok b' /\ bwf b' /\
      alen (b_tree b') = alen (b_tree b) /\ b_len b' = b_len b.
  Proof.
    induction fuel as [|f IH]; intros b cl num code_len Hb Hn Hcl Hf; [lia|].
    rewrite build_loop_S.
    destruct (expand_queue_ok b Hb) as (b1 & E1 & W1 & L1 & K1). rewrite E1. cbn [bind].
    unfold add_codes_with_length.
    destruct (add_codes_loop_ok (N.to_nat num) b1 cl 0 (code_len + 1) false W1)
      as (b2 & more & E2 & W2 & L2 & K2 & M2); [lia|intros j _ Hj; apply Hcl; lia|].
    rewrite E2. cbn [bind]. destruct more.
    - destruct (M2 eq_refl) as [M|M]; [discriminate|].
      destruct (IH b2 cl num (code_len + 1) W2 Hn Hcl) as (b' & E & W & L & K); [lia|].
      exists b'. split; [exact E|]. split; [exact W|]. split; congruence.
    - exists b2. split; [reflexivity|]. split; [exact W2|]. split; congruence.
  Qed.

  (* Main theorem.  [tree_len <= 2 * leaf] is weaker than the [tree_len < leaf]
     of real callers; [num] need not be below [leaf] for safety. *)
  Theorem build_tree_closed t tree_len cl num :
    closed leaf t tree_len -> 1 <= tree_len -> tree_len <= 2 * leaf ->
    num <= alen cl -> (forall i, i < num -> aget cl i < 256) ->
    exists t', build_tree leaf t tree_len cl num = Ok t' /\ closed leaf t' tree_len /\ alen t' = alen t.
  Proof.
    intros Hc H1 H2 Hn Hcl. unfold build_tree.
    destruct (build_loop_ok 300 {| b_tree := t; b_len := tree_len; b_allocated := 1; b_next := 0 |}
                            cl num 0) as (b' & E & W & L & K); try assumption.
    { split; cbn [b_tree b_len b_allocated b_next]; [exact Hc|lia]. }
    { change (N.of_nat 300) with 300. lia. }
    rewrite E. cbn [bind]. exists (b_tree b'). split; [reflexivity|].
    cbn [b_tree b_len] in L, K. destruct W as (Hc' & _). rewrite K in Hc'. split; [exact Hc'|exact L].
  Qed.

  (* the statement in the form asked for (tree_len < leaf, num <= leaf) *)
  Corollary build_tree_closed' t tree_len cl num :
    closed leaf t tree_len -> tree_len <= alen t -> 1 <= tree_len -> tree_len < leaf ->
    num <= alen cl -> num <= leaf -> (forall i, i < num -> aget cl i < 256) ->
    exists t', build_tree leaf t tree_len cl num = Ok t' /\ closed leaf t' tree_len /\ alen t' = alen t.
  Proof. intros Hc _ H1 H2 Hn _ Hcl. apply build_tree_closed; auto. lia. Qed.

  (* init_tree followed by build_tree, as the decoders do it *)
  Corollary init_build_tree_closed t tree_len cl num :
    tree_len <= alen t -> 1 <= tree_len -> tree_len <= 2 * leaf ->
    num <= alen cl -> (forall i, i < num -> aget cl i < 256) ->
    exists t', (t0 <- init_tree leaf t tree_len ;; build_tree leaf t0 tree_len cl num) = Ok t' /\
      closed leaf t' tree_len /\ alen t' = alen t.
  Proof.
    intros Ha H1 H2 Hn Hcl.
    destruct (init_tree_closed t tree_len Ha) as (t0 & E0 & C0 & L0 & _). rewrite E0. cbn [bind].
    destruct (build_tree_closed t0 tree_len cl num C0 H1 H2 Hn Hcl) as (t' & E & C & L).
    exists t'. split; [exact E|]. split; [exact C|congruence].
  Qed.

  (* ---------------------------------------------------------------- *)
  (* read_from_tree                                                    *)

  Section Read.
    Context {cbs : Type}.
    Variable cb : callback cbs.
    Variable bsr_wf : bsr -> Prop.
    Hypothesis read_bit_safe : cb_bounded cb -> forall r c, bsr_wf r ->
      exists res r' c', read_bit cb r c = Ok (res, r', c') /\ bsr_wf r' /\
        (forall v, res = Some v -> v <= 1).

    Let walk_inv (len : N) (s : N * bsr * cbs) : Prop :=
      let '(code, r, _) := s in
      bsr_wf r /\ (is_leaf leaf code = true \/ code + 1 < len).
    Let walk_post (x : option N * bsr * cbs) : Prop :=
      let '(res, r, _) := x in
      bsr_wf r /\ forall v, res = Some v -> v < leaf.
    Let walk_measure (len : N) (s : N * bsr * cbs) : N :=
      let '(code, _, _) := s in
      if is_leaf leaf code then 0 else len - code.

    Lemma tree_step_ok t len : cb_bounded cb -> closed leaf t len ->
      forall s, walk_inv len s -> exists x, tree_step leaf cb t s = Ok x /\
        match x with
        | inl s' => walk_inv len s' /\ walk_measure len s' < walk_measure len s
        | inr res => walk_post res
        end.
    Proof.
      intros Hcb [Hal Hc] [[code r] c] [Hr Hcode]. unfold tree_step.
      destruct (is_leaf leaf code) eqn:El.
      - eexists. split; [reflexivity|]. cbn beta iota. split; [exact Hr|].
        intros v Hv. injection Hv as <-. apply land_low_lt.
      - destruct Hcode as [Hcode|Hcode]; [discriminate|].
        destruct (read_bit_safe Hcb r c Hr) as (res & r' & c' & E & Hr' & Hbit).
        rewrite E. cbn [bind]. cbv beta iota.
        destruct res as [bv|].
        + specialize (Hbit bv eq_refl).
          rewrite rd_ok by lia. cbn [bind].
          eexists. split; [reflexivity|]. cbv beta iota.
          destruct (Hc (code + bv)) as [_ Hd]; [lia|].
          unfold walk_inv, walk_measure. rewrite El.
          destruct (is_leaf leaf (aget t (code + bv))) eqn:El'.
          * split; [split; [exact Hr'|left; reflexivity]|lia].
          * destruct Hd as [Hd|Hd]; [discriminate|].
            split; [split; [exact Hr'|right; lia]|lia].
        + eexists. split; [reflexivity|]. cbv beta iota. split; [exact Hr'|]. intros v Hv. discriminate.
    Qed.

    Theorem read_from_tree_safe t len r c :
      cb_bounded cb -> bsr_wf r -> closed leaf t len -> 1 <= len -> len < 2 ^ 20 ->
      exists res r' c', read_from_tree leaf cb t r c = Ok (res, r', c') /\ bsr_wf r' /\
        (forall v, res = Some v -> v < leaf).
    Proof.
      intros Hcb Hr Hc H1 H2. unfold read_from_tree.
      pose proof (closed_alen _ _ Hc) as Hal.
      rewrite rd_ok by lia. cbn [bind].
      destruct (loop_total_ok (tree_step leaf cb t) (walk_inv len) walk_post (walk_measure len) 20
                  (tree_step_ok t len Hcb Hc) (aget t 0, r, c)) as ([[res r'] c'] & E & Q).
      - split; [exact Hr|]. destruct Hc as [_ Hc]. destruct (Hc 0) as [_ Hd]; [lia|].
        destruct Hd as [Hd|Hd]; [left; exact Hd|right; lia].
      - unfold walk_measure. change (2 ^ N.of_nat 20) with (2 ^ 20).
        destruct (is_leaf leaf (aget t 0)); lia.
      - exists res, r', c'. split; [exact E|]. exact Q.
    Qed.
  End Read.
End TreeProofs.

(* ------------------------------------------------------------------ *)
(* The two element types of the C code                                 *)

Corollary build_tree_closed_u16 t tree_len cl num :
  closed 32768 t tree_len -> 1 <= tree_len -> tree_len <= 65536 ->
  num <= alen cl -> (forall i, i < num -> aget cl i < 256) ->
  exists t', build_tree 32768 t tree_len cl num = Ok t' /\ closed 32768 t' tree_len /\ alen t' = alen t.
Proof. apply (build_tree_closed 32768 15 eq_refl). Qed.

Corollary build_tree_closed_u8 t tree_len cl num :
  closed 128 t tree_len -> 1 <= tree_len -> tree_len <= 256 ->
  num <= alen cl -> (forall i, i < num -> aget cl i < 256) ->
  exists t', build_tree 128 t tree_len cl num = Ok t' /\ closed 128 t' tree_len /\ alen t' = alen t.
Proof. apply (build_tree_closed 128 7 eq_refl). Qed.

(* ------------------------------------------------------------------ *)
(* Non-vacuity: concrete runs                                          *)

Definition ex_lengths : arr := arr_of_list 0 [1; 2; 3; 3].
Definition ex_tree0 : arr := mk_arr 8 0.

(* a complete code: the tree that comes out, computed *)
Example ex_build_computed :
  match t0 <- init_tree 32768 ex_tree0 8 ;; build_tree 32768 t0 8 ex_lengths 4 with
  | Ok t' => alist t' = [1; 32768; 3; 32769; 5; 32770; 32771; 32768]
  | _ => False
  end.
Proof. vm_compute. reflexivity. Qed.

(* ... and the hypotheses of build_tree_closed hold for it, so the theorem applies *)
Example ex_build_hyps :
  exists t0, init_tree 32768 ex_tree0 8 = Ok t0 /\
    32768 = 2 ^ 15 /\ closed 32768 t0 8 /\ 8 <= alen t0 /\ 1 <= 8 /\ 8 < 32768 /\
    4 <= alen ex_lengths /\ 4 <= 32768 /\ (forall i, i < 4 -> aget ex_lengths i < 256).
Proof.
  destruct (init_tree_closed 32768 15 eq_refl ex_tree0 8) as (t0 & E & C & L & _).
  { vm_compute. discriminate. }
  exists t0. split; [exact E|]. split; [reflexivity|]. split; [exact C|].
  split; [rewrite L; vm_compute; discriminate|].
  split; [lia|]. split; [lia|]. split; [vm_compute; discriminate|]. split; [lia|].
  intros i Hi.
  assert (D : i = 0 \/ i = 1 \/ i = 2 \/ i = 3) by lia.
  destruct D as [D|[D|[D|D]]]; subst i; vm_compute; reflexivity.
Qed.

Example ex_build_by_theorem :
  exists t', (t0 <- init_tree 32768 ex_tree0 8 ;; build_tree 32768 t0 8 ex_lengths 4) = Ok t' /\
    closed 32768 t' 8 /\ alen t' = 8.
Proof.
  destruct ex_build_hyps as (t0 & E & Hw & C & Ha & H1 & H2 & Hn & _ & Hcl).
  rewrite E. cbn [bind].
  destruct (build_tree_closed 32768 15 Hw t0 8 ex_lengths 4 C) as (t' & E' & C' & L'); try assumption; try lia.
  exists t'. split; [exact E'|]. split; [exact C'|].
  destruct (init_tree_closed 32768 15 eq_refl ex_tree0 8) as (t0' & E0 & _ & L0 & _).
  { vm_compute. discriminate. }
  rewrite E in E0. inversion E0; subst t0'. rewrite L', L0. reflexivity.
Qed.

(* garbage inputs run to completion too (computed): over-subscribed on a stale
   tree, all zero, and a maximal length 255 that needs 255 passes *)
Example ex_build_oversubscribed :
  match t0 <- init_tree 32768 ex_tree0 8 ;;
        t1 <- build_tree 32768 t0 8 ex_lengths 4 ;;
        build_tree 32768 t1 8 (arr_of_list 0 [1; 1; 1; 1; 2; 2]) 6 with
  | Ok t' => alist t' = [32773; 32768; 32769; 32769; 5; 32770; 32771; 32768]
  | _ => False
  end.
Proof. vm_compute. reflexivity. Qed.

Example ex_build_all_zero :
  match t0 <- init_tree 128 ex_tree0 8 ;; build_tree 128 t0 8 (arr_of_list 0 [0; 0; 0]) 3 with
  | Ok t' => alist t' = [1; 128; 128; 128; 128; 128; 128; 128]
  | _ => False
  end.
Proof. vm_compute. reflexivity. Qed.

Example ex_build_len255 :
  is_ok (t0 <- init_tree 128 ex_tree0 8 ;; build_tree 128 t0 8 (arr_of_list 0 [255; 1]) 2) = true.
Proof. vm_compute. reflexivity. Qed.

Print Assumptions init_tree_closed.
Print Assumptions set_tree_single_closed.
Print Assumptions build_tree_closed.
Print Assumptions build_tree_closed'.
Print Assumptions init_build_tree_closed.
Print Assumptions read_from_tree_safe.
Print Assumptions build_tree_closed_u16.
Print Assumptions build_tree_closed_u8.
Print Assumptions ex_build_computed.
Print Assumptions ex_build_by_theorem.

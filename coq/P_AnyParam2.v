(* P_AnyParam2.v -- the decoders treat the state of the input callback abstractly,
   relational form (binary parametricity, paramcoq arity 2).

     any_read_rel :  two callbacks that answer related states with the same bytes
                     and related states make any_read return the same bytes, the
                     same decoder state (up to the induced relation, which is
                     reflexive) and related callback states -- or the same Fault,
                     or both run out of fuel.

   As in P_AnyParam.v the arithmetic of N and Z and the array primitives are
   given as realizers (their relations N_R, Z_R, arr_R are equality); the plugin
   only generates definitions; nothing is assumed. *)
From Param Require Import Param.
From Coq Require Import FMapPositive.
From Lhasa Require Import Base DecBase BitReader Loop Generated Null Lzs Lz5 Lh1 LhNew Pm1 Pm2 PmaCommon Tree AnyDecoder.

Ltac destruct_reflexivity2 :=
  intros ; repeat match goal with
  | [ x : _ |- _ = _ ] => destruct x; reflexivity; fail
  end.
Global Parametricity Tactic := ((destruct_reflexivity2; fail) || auto).

Parametricity positive arity 2.
Parametricity N arity 2.
Parametricity Z arity 2.
Parametricity bool arity 2.
Parametricity nat arity 2.
Parametricity list arity 2.
Parametricity prod arity 2.
Parametricity option arity 2.
Parametricity sum arity 2.
Parametricity unit arity 2.
Parametricity comparison arity 2.
Parametricity outcome arity 2.
Parametricity PositiveMap.tree arity 2.
Parametricity arr arity 2.

(* the induced relations on the data types are equality *)
Lemma positive_R_eq : forall a b, positive_R a b -> a = b.
Proof. induction 1; congruence. Qed.
Lemma positive_R_refl : forall a, positive_R a a.
Proof. induction a; constructor; assumption. Qed.
Lemma N_R_eq : forall a b, N_R a b -> a = b.
Proof. destruct 1 as [|p q H]; [reflexivity|]. apply positive_R_eq in H. congruence. Qed.
Lemma N_R_refl : forall a, N_R a a.
Proof. destruct a; constructor. apply positive_R_refl. Qed.
Lemma Z_R_eq : forall a b, Z_R a b -> a = b.
Proof. destruct 1 as [|p q H|p q H]; [reflexivity| |]; apply positive_R_eq in H; congruence. Qed.
Lemma Z_R_refl : forall a, Z_R a a.
Proof. destruct a; constructor; apply positive_R_refl. Qed.
Lemma nat_R_eq : forall a b, nat_R a b -> a = b.
Proof. induction 1; congruence. Qed.
Lemma nat_R_refl : forall a, nat_R a a.
Proof. induction a; constructor; assumption. Qed.
Lemma bool_R_eq : forall a b, bool_R a b -> a = b.
Proof. destruct 1; reflexivity. Qed.
Lemma bool_R_refl : forall a, bool_R a a.
Proof. destruct a; constructor. Qed.
Lemma option_R_refl A (AR : A -> A -> Type) : (forall a, AR a a) -> forall o, option_R A A AR o o.
Proof. intros H o. destruct o; constructor. apply H. Qed.
Lemma list_R_refl A (AR : A -> A -> Type) : (forall a, AR a a) -> forall l, list_R A A AR l l.
Proof. intros H l. induction l; constructor; auto. Qed.
Lemma prod_R_refl A (AR : A -> A -> Type) B (BR : B -> B -> Type) :
  (forall a, AR a a) -> (forall b, BR b b) -> forall p, prod_R A A AR B B BR p p.
Proof. intros HA HB [a b]. constructor; auto. Qed.
Lemma list_N_R_eq : forall l l', list_R N N N_R l l' -> l = l'.
Proof. induction 1 as [|a b H l l' _ IH]; [reflexivity|]. apply N_R_eq in H. congruence. Qed.
Lemma option_N_R_eq : forall o o', option_R N N N_R o o' -> o = o'.
Proof. destruct 1 as [a b H|]; [apply N_R_eq in H; congruence|reflexivity]. Qed.
Lemma tree_R_eq : forall t t', tree_R N N N_R t t' -> t = t'.
Proof.
  induction 1 as [|l l' _ IHl o o' Ho r r' _ IHr]; [reflexivity|].
  apply option_N_R_eq in Ho. congruence.
Qed.
Fixpoint tree_R_refl (t : PositiveMap.tree N) : tree_R N N N_R t t :=
  match t with
  | PositiveMap.Leaf _ => tree_R_Leaf_R N N N_R
  | PositiveMap.Node l o r =>
    tree_R_Node_R N N N_R l l (tree_R_refl l) o o (option_R_refl N N_R N_R_refl o) r r (tree_R_refl r)
  end.
Lemma arr_R_eq : forall a b, arr_R a b -> a = b.
Proof.
  destruct 1 as [l1 l2 Hl d1 d2 Hd m1 m2 Hm].
  apply N_R_eq in Hl, Hd. apply tree_R_eq in Hm. congruence.
Qed.
Lemma arr_R_refl : forall a, arr_R a a.
Proof. destruct a. constructor; try apply N_R_refl. apply tree_R_refl. Qed.

(* a function on such types maps related arguments to related results *)
Ltac lift_tac :=
  intros; repeat match goal with
  | H : N_R _ _ |- _ => apply N_R_eq in H
  | H : Z_R _ _ |- _ => apply Z_R_eq in H
  | H : nat_R _ _ |- _ => apply nat_R_eq in H
  | H : bool_R _ _ |- _ => apply bool_R_eq in H
  | H : arr_R _ _ |- _ => apply arr_R_eq in H
  | H : list_R N N N_R _ _ |- _ => apply list_N_R_eq in H
  end; subst;
  first [apply N_R_refl | apply Z_R_refl | apply nat_R_refl | apply bool_R_refl | apply arr_R_refl | apply positive_R_refl].

Lemma lift_NN_N (f : N -> N -> N) a a' : N_R a a' -> forall b b', N_R b b' -> N_R (f a b) (f a' b').
Proof. lift_tac. Qed.
Lemma lift_N_N (f : N -> N) a a' : N_R a a' -> N_R (f a) (f a').
Proof. lift_tac. Qed.
Lemma lift_NN_bool (f : N -> N -> bool) a a' : N_R a a' -> forall b b', N_R b b' -> bool_R (f a b) (f a' b').
Proof. lift_tac. Qed.
Lemma lift_ZZ_Z (f : Z -> Z -> Z) a a' : Z_R a a' -> forall b b', Z_R b b' -> Z_R (f a b) (f a' b').
Proof. lift_tac. Qed.
Lemma lift_ZZ_bool (f : Z -> Z -> bool) a a' : Z_R a a' -> forall b b', Z_R b b' -> bool_R (f a b) (f a' b').
Proof. lift_tac. Qed.
Lemma lift_nat_N (f : nat -> N) a a' : nat_R a a' -> N_R (f a) (f a').
Proof. lift_tac. Qed.
Lemma lift_N_nat (f : N -> nat) a a' : N_R a a' -> nat_R (f a) (f a').
Proof. lift_tac. Qed.
Lemma lift_N_pos (f : N -> positive) a a' : N_R a a' -> positive_R (f a) (f a').
Proof. lift_tac. Qed.
Lemma lift_N_Z (f : N -> Z) a a' : N_R a a' -> Z_R (f a) (f a').
Proof. lift_tac. Qed.
Lemma lift_Z_N (f : Z -> N) a a' : Z_R a a' -> N_R (f a) (f a').
Proof. lift_tac. Qed.
Lemma lift_aget a a' : arr_R a a' -> forall b b', N_R b b' -> N_R (aget a b) (aget a' b').
Proof. lift_tac. Qed.
Lemma lift_aset a a' : arr_R a a' -> forall b b', N_R b b' -> forall c c', N_R c c' -> arr_R (aset a b c) (aset a' b' c').
Proof. lift_tac. Qed.
Lemma lift_mk_arr a a' : N_R a a' -> forall b b', N_R b b' -> arr_R (mk_arr a b) (mk_arr a' b').
Proof. lift_tac. Qed.
Lemma lift_aset_list a a' : arr_R a a' -> forall b b', N_R b b' -> forall c c', list_R N N N_R c c' ->
  arr_R (aset_list a b c) (aset_list a' b' c').
Proof. lift_tac. Qed.
Lemma lift_arr_of_list a a' : N_R a a' -> forall b b', list_R N N N_R b b' -> arr_R (arr_of_list a b) (arr_of_list a' b').
Proof. lift_tac. Qed.

Realizer N.add as N_add_R arity 2 := (lift_NN_N N.add).
Realizer N.sub as N_sub_R arity 2 := (lift_NN_N N.sub).
Realizer N.mul as N_mul_R arity 2 := (lift_NN_N N.mul).
Realizer N.div as N_div_R arity 2 := (lift_NN_N N.div).
Realizer N.modulo as N_modulo_R arity 2 := (lift_NN_N N.modulo).
Realizer N.pow as N_pow_R arity 2 := (lift_NN_N N.pow).
Realizer N.land as N_land_R arity 2 := (lift_NN_N N.land).
Realizer N.lor as N_lor_R arity 2 := (lift_NN_N N.lor).
Realizer N.lxor as N_lxor_R arity 2 := (lift_NN_N N.lxor).
Realizer N.shiftl as N_shiftl_R arity 2 := (lift_NN_N N.shiftl).
Realizer N.shiftr as N_shiftr_R arity 2 := (lift_NN_N N.shiftr).
Realizer N.min as N_min_R arity 2 := (lift_NN_N N.min).
Realizer N.max as N_max_R arity 2 := (lift_NN_N N.max).
Realizer N.pred as N_pred_R arity 2 := (lift_N_N N.pred).
Realizer N.succ as N_succ_R arity 2 := (lift_N_N N.succ).
Realizer N.of_nat as N_of_nat_R arity 2 := (lift_nat_N N.of_nat).
Realizer N.to_nat as N_to_nat_R arity 2 := (lift_N_nat N.to_nat).
Realizer N.succ_pos as N_succ_pos_R arity 2 := (lift_N_pos N.succ_pos).
Realizer N.testbit as N_testbit_R arity 2 := (lift_NN_bool N.testbit).
Realizer N.eqb as N_eqb_R arity 2 := (lift_NN_bool N.eqb).
Realizer N.ltb as N_ltb_R arity 2 := (lift_NN_bool N.ltb).
Realizer N.leb as N_leb_R arity 2 := (lift_NN_bool N.leb).
Realizer Z.of_N as Z_of_N_R arity 2 := (lift_N_Z Z.of_N).
Realizer Z.to_N as Z_to_N_R arity 2 := (lift_Z_N Z.to_N).
Realizer Z.land as Z_land_R arity 2 := (lift_ZZ_Z Z.land).
Realizer Z.add as Z_add_R arity 2 := (lift_ZZ_Z Z.add).
Realizer Z.sub as Z_sub_R arity 2 := (lift_ZZ_Z Z.sub).
Realizer Z.mul as Z_mul_R arity 2 := (lift_ZZ_Z Z.mul).
Realizer Z.ltb as Z_ltb_R arity 2 := (lift_ZZ_bool Z.ltb).
Realizer Z.leb as Z_leb_R arity 2 := (lift_ZZ_bool Z.leb).
Realizer Z.eqb as Z_eqb_R arity 2 := (lift_ZZ_bool Z.eqb).
Realizer aget as aget_R arity 2 := lift_aget.
Realizer aset as aset_R arity 2 := lift_aset.
Realizer mk_arr as mk_arr_R arity 2 := lift_mk_arr.
Realizer aset_list as aset_list_R arity 2 := lift_aset_list.
Realizer arr_of_list as arr_of_list_R arity 2 := lift_arr_of_list.

Parametricity Recursive length arity 2.
Parametricity Recursive nlen arity 2.
Parametricity Recursive null_max_read arity 2.
Parametricity Recursive null_BLOCK_READ_SIZE arity 2.
Parametricity Recursive null_state arity 2.
Parametricity Recursive null_read arity 2.
Parametricity Recursive lz5_read arity 2.
Parametricity Recursive fill_bytes_loop arity 2.
Parametricity Recursive peek_fill arity 2.
Parametricity Recursive read_bits arity 2.
Parametricity Recursive lzs_read arity 2.
Parametricity Recursive lh1_read arity 2.
Parametricity Recursive lhnew_read arity 2.
Parametricity Recursive pm1_read arity 2.
Parametricity Recursive pm2_read arity 2.
Parametricity Recursive any_read arity 2.


(* the induced relation on decoder states is equality too (no callback state inside) *)
Lemma prod_NN_R_eq : forall p q, prod_R N N N_R N N N_R p q -> p = q.
Proof. destruct 1 as [a a' Ha b b' Hb]. apply N_R_eq in Ha, Hb. congruence. Qed.

Ltac req_base :=
  match goal with
  | H : N_R _ _ |- _ => apply N_R_eq in H
  | H : Z_R _ _ |- _ => apply Z_R_eq in H
  | H : nat_R _ _ |- _ => apply nat_R_eq in H
  | H : bool_R _ _ |- _ => apply bool_R_eq in H
  | H : arr_R _ _ |- _ => apply arr_R_eq in H
  | H : list_R N N N_R _ _ |- _ => apply list_N_R_eq in H
  | H : option_R N N N_R _ _ |- _ => apply option_N_R_eq in H
  | H : prod_R N N N_R N N N_R _ _ |- _ => apply prod_NN_R_eq in H
  end.

Lemma bsr_R_eq : forall a b, bsr_R a b -> a = b.
Proof. intros a b H; destruct H; repeat req_base; subst; reflexivity. Qed.

Lemma unit_R_eq : forall a b : unit, unit_R a b -> a = b.
Proof. destruct a, b. reflexivity. Qed.

Ltac req_rec lemmas :=
  intros a b H; destruct H;
  repeat first [ req_base | match goal with H : _ |- _ => first [apply bsr_R_eq in H | lemmas H] end ];
  subst; reflexivity.

Lemma hlist_R_eq : forall a b, hlist_R a b -> a = b.
Proof. req_rec ltac:(fun H => fail). Qed.
Lemma lhnew_params_R_eq : forall a b, lhnew_params_R a b -> a = b.
Proof. req_rec ltac:(fun H => fail). Qed.
Lemma lz5_state_R_eq : forall a b, lz5_state_R a b -> a = b.
Proof. req_rec ltac:(fun H => fail). Qed.
Lemma lzs_state_R_eq : forall a b, lzs_state_R a b -> a = b.
Proof. req_rec ltac:(fun H => fail). Qed.
Lemma lh1_tree_R_eq : forall a b, lh1_tree_R a b -> a = b.
Proof. req_rec ltac:(fun H => fail). Qed.
Lemma lh1_state_R_eq : forall a b, lh1_state_R a b -> a = b.
Proof. req_rec ltac:(fun H => apply lh1_tree_R_eq in H). Qed.
Lemma lhnew_state_R_eq : forall a b, lhnew_state_R a b -> a = b.
Proof. req_rec ltac:(fun H => fail). Qed.
Lemma pm1_state_R_eq : forall a b, pm1_state_R a b -> a = b.
Proof. req_rec ltac:(fun H => apply hlist_R_eq in H). Qed.
Lemma pm2_rebuild_state_R_eq : forall a b, pm2_rebuild_state_R a b -> a = b.
Proof. req_rec ltac:(fun H => fail). Qed.
Lemma pm2_state_R_eq : forall a b, pm2_state_R a b -> a = b.
Proof. req_rec ltac:(fun H => first [apply hlist_R_eq in H | apply pm2_rebuild_state_R_eq in H]). Qed.

Lemma dstate_R_eq : forall a b, dstate_R a b -> a = b.
Proof.
  intros a b H; destruct H;
    repeat match goal with
    | H : unit_R _ _ |- _ => apply unit_R_eq in H
    | H : null_state_R _ _ |- _ => apply unit_R_eq in H
    | H : lz5_state_R _ _ |- _ => apply lz5_state_R_eq in H
    | H : lzs_state_R _ _ |- _ => apply lzs_state_R_eq in H
    | H : lh1_state_R _ _ |- _ => apply lh1_state_R_eq in H
    | H : lhnew_state_R _ _ |- _ => apply lhnew_state_R_eq in H
    | H : lhnew_params_R _ _ |- _ => apply lhnew_params_R_eq in H
    | H : pm1_state_R _ _ |- _ => apply pm1_state_R_eq in H
    | H : pm2_state_R _ _ |- _ => apply pm2_state_R_eq in H
    end; subst; reflexivity.
Qed.

(* ... and it is reflexive *)
Ltac rall := repeat (intros; match goal with
  | |- N_R _ _ => apply N_R_refl
  | |- Z_R _ _ => apply Z_R_refl
  | |- nat_R _ _ => apply nat_R_refl
  | |- bool_R _ _ => apply bool_R_refl
  | |- positive_R _ _ => apply positive_R_refl
  | |- arr_R _ _ => apply arr_R_refl
  | |- list_R _ _ _ _ _ => apply list_R_refl
  | |- option_R _ _ _ _ _ => apply option_R_refl
  | |- prod_R _ _ _ _ _ _ _ _ => apply prod_R_refl
  | |- ?T ?x ?x => is_var x; destruct x; constructor
  end).
Lemma dstate_R_refl : forall s, dstate_R s s.
Proof. rall. Qed.

(* Binary parametricity of any_read, in the vocabulary of the rest of the development. *)
Theorem any_read_rel : forall (cbs1 cbs2 : Type) (cb1 : callback cbs1) (cb2 : callback cbs2) (R : cbs1 -> cbs2 -> Prop),
  (forall c1 c2 n, R c1 c2 -> fst (cb1 c1 n) = fst (cb2 c2 n) /\ R (snd (cb1 c1 n)) (snd (cb2 c2 n))) ->
  forall junk s c1 c2, R c1 c2 ->
  match any_read cb1 junk s c1, any_read cb2 junk s c2 with
  | Ok (o1, s1, c1'), Ok (o2, s2, c2') => o1 = o2 /\ s1 = s2 /\ R c1' c2'
  | Fault a, Fault b => a = b
  | OutOfFuel, OutOfFuel => True
  | _, _ => False
  end.
Proof.
  intros cbs1 cbs2 cb1 cb2 R Hcb junk s c1 c2 Hc.
  assert (CB : callback_R cbs1 cbs2 R cb1 cb2).
  { intros a b Hab n n' Hn. apply N_R_eq in Hn. subst n'. destruct (Hcb a b n Hab) as [E1 E2].
    destruct (cb1 a n) as [bs1 a1], (cb2 b n) as [bs2 b1]. cbn [fst snd] in E1, E2. subst bs2.
    constructor; [apply list_R_refl; exact N_R_refl|exact E2]. }
  pose proof (any_read_R cbs1 cbs2 R cb1 cb2 CB junk junk (N_R_refl junk) s s (dstate_R_refl s) c1 c2 Hc) as H.
  destruct H as [[[o1 s1] d1] [[o2 s2] d2] Hp|a b Hs|].
  - inversion Hp as [p1 p2 Hq x1 x2 Hx Ea Eb]. subst.
    inversion Hq as [l1 l2 Hl t1 t2 Ht Ec Ed]. subst.
    apply list_N_R_eq in Hl. apply dstate_R_eq in Ht. auto.
  - apply N_R_eq. exact Hs.
  - exact I.
Qed.

Print Assumptions any_read_rel.
Print Assumptions dstate_R_eq.

(* P_Pm1RtCopy.v -- C04, -pm1- half, layer 3: the length codings and the copy
   command.

     read_byte_block_count_z : the block length coding (1..216)
     read_copy_byte_count_z  : the copy length coding (3..244)
     read_copy_type_range_z  : the copy type code, whose shape depends on the
                               output position (thresholds 64, 576, 2624)
     dist_z                  : the distance field, whose width depends on the
                               output position (copy_ranges entries 6..14)
     pm1_copy_loop_z         : the ring buffer copy is the specification's
                               copy from the absolute history
     read_copy_command_z     : a whole copy command *)
From Lhasa Require Import Base ListN DecBase BitReader Loop Sweep PmaCommon Generated Pm1
  S_Larc S_Pm P_BitReader P_PmaCommon P_Pm1 P_Pm1RtBits P_Pm1RtLit.
From Coq Require Import ZifyBool ZifyN ZifyNat.
Local Open Scope N_scope.

Ltac Zify.zify_post_hook ::= Z.div_mod_to_equations.

Ltac pw :=
  change (2 ^ 1) with 2 in *; change (2 ^ 2) with 4 in *; change (2 ^ 3) with 8 in *;
  change (2 ^ 4) with 16 in *; change (2 ^ 5) with 32 in *; change (2 ^ 6) with 64 in *;
  change (2 ^ 7) with 128 in *; change (2 ^ 8) with 256 in *; change (2 ^ 9) with 512 in *;
  change (2 ^ 10) with 1024 in *; change (2 ^ 11) with 2048 in *; change (2 ^ 12) with 4096 in *;
  change (2 ^ 13) with 8192 in *.

Lemma ok3 {A B C} (a a' : A) (b : B) (c : C) : a = a' -> @Ok (A * B * C) (a, b, c) = Ok (a', b, c).
Proof. intros ->. reflexivity. Qed.

(* read an n-bit field v off hypothesis H : rdy s c (nbits n v ++ rest) *)
Ltac rdb H n v s1 c1 E B R :=
  destruct (pm1_read_bits_z _ _ n v _ H) as (s1 & c1 & E & B & R); [lia|pw; lia|];
  rewrite E; cbn [bind]; cbv beta iota.

Ltac inj H :=
  match type of H with Some ?x = Some ?y =>
    let E := fresh "E" in assert (E : y = x) by congruence; clear H; subst y end.

Ltac lt_case :=
  match goal with
  | |- context [if ?a <? ?b then _ else _] => destruct (N.ltb_spec a b); try lia
  end.
Ltac eq_case :=
  match goal with
  | |- context [if ?a =? ?b then _ else _] => destruct (N.eqb_spec a b); try lia
  end.

(* ------------------------------------------------------------------ *)
(* Block length                                                        *)

Lemma pm1_read_plus0_z s (c : src) n k v rest : rdy s c (nbits n v ++ rest) -> n <= 25 -> v < 2 ^ n ->
  exists s' c', pm1_read_plus0 src_cb s c n k = Ok (v + k, s', c') /\ beq s s' /\ rdy s' c' rest.
Proof.
  intros H Hn Hv. unfold pm1_read_plus0.
  destruct (pm1_read_bits_z s c n v rest H Hn Hv) as (s1 & c1 & E & B & R).
  rewrite E. cbn [bind]. exists s1, c1. split; [reflexivity|]. split; assumption.
Qed.

Lemma pm1_read_plus_z s (c : src) n k v rest : rdy s c (nbits n v ++ rest) -> n <= 25 -> v < 2 ^ n ->
  exists s' c', pm1_read_plus src_cb s c n k = Ok (Some (v + k), s', c') /\ beq s s' /\ rdy s' c' rest.
Proof.
  intros H Hn Hv. unfold pm1_read_plus.
  destruct (pm1_read_bits_z s c n v rest H Hn Hv) as (s1 & c1 & E & B & R).
  rewrite E. cbn [bind]. exists s1, c1. split; [reflexivity|]. split; assumption.
Qed.

Lemma read_byte_block_count_z s (c : src) n bl rest :
  pm1_blocklen_bits n = Some bl -> rdy s c (bl ++ rest) ->
  exists s' c', read_byte_block_count src_cb s c = Ok (n, s', c') /\ beq s s' /\ rdy s' c' rest.
Proof.
  unfold pm1_blocklen_bits. intros Hb Hr. unfold read_byte_block_count.
  destruct (N.eqb_spec n 0) as [|Hn0]; [discriminate|].
  destruct (N.leb_spec n 3) as [H3|H3].
  { inj Hb. rdb Hr 2 (n - 1) s1 c1 E1 B1 R1. lt_case.
    exists s1, c1. split; [apply ok3; lia|]. split; assumption. }
  destruct (N.leb_spec n 10) as [H10|H10].
  { inj Hb. rewrite <- !app_assoc in Hr.
    rdb Hr 2 3 s1 c1 E1 B1 R1. lt_case.
    rdb R1 3 (n - 4) s2 c2 E2 B2 R2. lt_case.
    exists s2, c2. split; [apply ok3; lia|]. split; [eapply beq_trans; eassumption|assumption]. }
  destruct (N.leb_spec n 24) as [H24|H24].
  { inj Hb. rewrite <- !app_assoc in Hr.
    rdb Hr 2 3 s1 c1 E1 B1 R1. lt_case.
    rdb R1 3 7 s2 c2 E2 B2 R2. lt_case.
    rdb R2 4 (n - 11) s3 c3 E3 B3 R3. lt_case.
    exists s3, c3. split; [apply ok3; lia|].
    split; [eapply beq_trans; [eassumption|eapply beq_trans; eassumption]|assumption]. }
  destruct (N.leb_spec n 88) as [H88|H88].
  { inj Hb. rewrite <- !app_assoc in Hr.
    rdb Hr 2 3 s1 c1 E1 B1 R1. lt_case.
    rdb R1 3 7 s2 c2 E2 B2 R2. lt_case.
    rdb R2 4 14 s3 c3 E3 B3 R3. lt_case. eq_case.
    destruct (pm1_read_plus0_z s3 c3 6 25 (n - 25) rest R3) as (s4 & c4 & E4 & B4 & R4); [lia|pw; lia|].
    rewrite E4. exists s4, c4. split; [apply ok3; lia|].
    split; [eapply beq_trans; [eassumption|eapply beq_trans; [eassumption|eapply beq_trans; eassumption]]|assumption]. }
  destruct (N.leb_spec n 216) as [H216|H216]; [|discriminate].
  inj Hb. rewrite <- !app_assoc in Hr.
  rdb Hr 2 3 s1 c1 E1 B1 R1. lt_case.
  rdb R1 3 7 s2 c2 E2 B2 R2. lt_case.
  rdb R2 4 15 s3 c3 E3 B3 R3. lt_case. eq_case.
  destruct (pm1_read_plus0_z s3 c3 7 89 (n - 89) rest R3) as (s4 & c4 & E4 & B4 & R4); [lia|pw; lia|].
  rewrite E4. exists s4, c4. split; [apply ok3; lia|].
  split; [eapply beq_trans; [eassumption|eapply beq_trans; [eassumption|eapply beq_trans; eassumption]]|assumption].
Qed.

(* ------------------------------------------------------------------ *)
(* Copy length                                                         *)

Lemma ok3s {B C} (a a' : N) (b : B) (c : C) : a = a' -> @Ok (option N * B * C) (Some a, b, c) = Ok (Some a', b, c).
Proof. intros ->. reflexivity. Qed.

Lemma read_copy_byte_count_z s (c : src) n bl rest :
  pm1_copylen_bits n = Some bl -> rdy s c (bl ++ rest) ->
  exists s' c', read_copy_byte_count src_cb s c = Ok (Some n, s', c') /\ beq s s' /\ rdy s' c' rest.
Proof.
  unfold pm1_copylen_bits. intros Hb Hr. unfold read_copy_byte_count.
  destruct (N.ltb_spec n 3) as [|Hn3]; [discriminate|].
  destruct (N.leb_spec n 5) as [H5|H5].
  { inj Hb. rdb Hr 2 (n - 3) s1 c1 E1 B1 R1. lt_case.
    exists s1, c1. split; [apply ok3s; lia|]. split; assumption. }
  destruct (N.leb_spec n 10) as [H10|H10].
  { inj Hb. rewrite <- !app_assoc in Hr.
    rdb Hr 2 3 s1 c1 E1 B1 R1. lt_case.
    rdb R1 3 (n - 6) s2 c2 E2 B2 R2. lt_case.
    exists s2, c2. split; [apply ok3s; lia|]. split; [eapply beq_trans; eassumption|assumption]. }
  destruct (N.leb_spec n 14) as [H14|H14].
  { inj Hb. rewrite <- !app_assoc in Hr.
    rdb Hr 2 3 s1 c1 E1 B1 R1. lt_case.
    rdb R1 3 5 s2 c2 E2 B2 R2. lt_case. eq_case.
    destruct (pm1_read_plus_z s2 c2 2 11 (n - 11) rest R2) as (s4 & c4 & E4 & B4 & R4); [lia|pw; lia|].
    rewrite E4. exists s4, c4. split; [apply ok3s; lia|].
    split; [eapply beq_trans; [eassumption|eapply beq_trans; eassumption]|assumption]. }
  destruct (N.leb_spec n 22) as [H22|H22].
  { inj Hb. rewrite <- !app_assoc in Hr.
    rdb Hr 2 3 s1 c1 E1 B1 R1. lt_case.
    rdb R1 3 6 s2 c2 E2 B2 R2. lt_case. eq_case. eq_case.
    destruct (pm1_read_plus_z s2 c2 3 15 (n - 15) rest R2) as (s4 & c4 & E4 & B4 & R4); [lia|pw; lia|].
    rewrite E4. exists s4, c4. split; [apply ok3s; lia|].
    split; [eapply beq_trans; [eassumption|eapply beq_trans; eassumption]|assumption]. }
  destruct (N.leb_spec n 84) as [H84|H84].
  { inj Hb. rewrite <- !app_assoc in Hr.
    rdb Hr 2 3 s1 c1 E1 B1 R1. lt_case.
    rdb R1 3 7 s2 c2 E2 B2 R2. lt_case. eq_case. eq_case.
    rdb R2 6 (n - 23) s3 c3 E3 B3 R3. lt_case.
    exists s3, c3. split; [apply ok3s; lia|].
    split; [eapply beq_trans; [eassumption|eapply beq_trans; eassumption]|assumption]. }
  destruct (N.leb_spec n 116) as [H116|H116].
  { inj Hb. rewrite <- !app_assoc in Hr.
    rdb Hr 2 3 s1 c1 E1 B1 R1. lt_case.
    rdb R1 3 7 s2 c2 E2 B2 R2. lt_case. eq_case. eq_case.
    rdb R2 6 62 s3 c3 E3 B3 R3. lt_case. eq_case.
    destruct (pm1_read_plus_z s3 c3 5 85 (n - 85) rest R3) as (s4 & c4 & E4 & B4 & R4); [lia|pw; lia|].
    rewrite E4. exists s4, c4. split; [apply ok3s; lia|].
    split; [eapply beq_trans; [eassumption|eapply beq_trans; [eassumption|eapply beq_trans; eassumption]]|assumption]. }
  destruct (N.leb_spec n 244) as [H244|H244]; [|discriminate].
  inj Hb. rewrite <- !app_assoc in Hr.
  rdb Hr 2 3 s1 c1 E1 B1 R1. lt_case.
  rdb R1 3 7 s2 c2 E2 B2 R2. lt_case. eq_case. eq_case.
  rdb R2 6 63 s3 c3 E3 B3 R3. lt_case. eq_case.
  destruct (pm1_read_plus_z s3 c3 7 117 (n - 117) rest R3) as (s4 & c4 & E4 & B4 & R4); [lia|pw; lia|].
  rewrite E4. exists s4, c4. split; [apply ok3s; lia|].
  split; [eapply beq_trans; [eassumption|eapply beq_trans; [eassumption|eapply beq_trans; eassumption]]|assumption].
Qed.

(* ------------------------------------------------------------------ *)
(* Copy type                                                           *)

Lemma rbat_z s (c : src) th def b rest :
  rdy s c (obit (th <=? pm1_output_stream_pos s) b ++ rest) ->
  (pm1_output_stream_pos s < th -> N.b2n b = def) ->
  exists s' c', read_bit_after_threshold src_cb s c th def = Ok (Some (N.b2n b), s', c') /\
    beq s s' /\ rdy s' c' rest.
Proof.
  intros Hr Hd. unfold read_bit_after_threshold.
  destruct (N.leb_spec th (pm1_output_stream_pos s)) as [Hle|Hlt].
  - cbn [obit app] in Hr. apply pm1_read_bit_z. exact Hr.
  - cbn [obit app] in Hr. rewrite <- (Hd Hlt). exists s, c. split; [reflexivity|].
    split; [apply beq_refl|exact Hr].
Qed.

Lemma type_bits_0 pos : pm1_type_bits pos 0 = false :: obit (576 <=? pos) false ++ obit (64 <=? pos) false.
Proof. reflexivity. Qed.
Lemma type_bits_1 pos : pm1_type_bits pos 1 = false :: obit (576 <=? pos) false ++ [true].
Proof. reflexivity. Qed.
Lemma type_bits_2 pos : pm1_type_bits pos 2 = true :: obit (64 <=? pos) true ++ obit (2624 <=? pos) true.
Proof. reflexivity. Qed.
Lemma type_bits_3 pos : pm1_type_bits pos 3 = [true; false].
Proof. reflexivity. Qed.
Lemma type_bits_4 pos : pm1_type_bits pos 4 = [false; true].
Proof. reflexivity. Qed.
Lemma type_bits_5 pos : pm1_type_bits pos 5 = [true; true; false].
Proof. reflexivity. Qed.

Lemma obit_true c b : c = true -> obit c b = [b].
Proof. intros ->. reflexivity. Qed.

Definition type_ok (pos ty : N) : Prop :=
  ty <= 5 /\ (ty = 1 \/ ty = 3 -> 64 <= pos) /\ (ty = 4 -> 576 <= pos) /\ (ty = 5 -> 2624 <= pos).

Lemma read_copy_type_range_z s (c : src) ty rest :
  type_ok (pm1_output_stream_pos s) ty ->
  rdy s c (pm1_type_bits (pm1_output_stream_pos s) ty ++ rest) ->
  exists s' c', read_copy_type_range src_cb s c = Ok (Some ty, s', c') /\ beq s s' /\ rdy s' c' rest.
Proof.
  intros (H5 & H13 & H4 & H5') Hr. set (pos := pm1_output_stream_pos s) in *.
  unfold read_copy_type_range.
  assert (Hty : ty = 0 \/ ty = 1 \/ ty = 2 \/ ty = 3 \/ ty = 4 \/ ty = 5) by lia.
  destruct Hty as [->|[->|[->|[->|[->| ->]]]]].
  - rewrite type_bits_0 in Hr. rewrite <- app_comm_cons, <- app_assoc in Hr.
    destruct (pm1_read_bit_z s c false _ Hr) as (s1 & c1 & E1 & B1 & R1).
    rewrite E1. cbn [bind]. cbv beta iota. cbn [N.b2n N.eqb].
    pose proof B1 as (P1 & _). fold pos in P1. rewrite <- P1 in R1.
    destruct (rbat_z s1 c1 576 0 false _ R1) as (s2 & c2 & E2 & B2 & R2); [reflexivity|].
    rewrite E2. cbn [bind]. cbv beta iota. cbn [N.b2n N.eqb negb].
    pose proof B2 as (P2 & _). rewrite <- P2 in R2.
    destruct (rbat_z s2 c2 64 0 false _ R2) as (s3 & c3 & E3 & B3 & R3); [reflexivity|].
    rewrite E3. exists s3, c3. split; [reflexivity|].
    split; [eapply beq_trans; [eassumption|eapply beq_trans; eassumption]|assumption].
  - rewrite type_bits_1 in Hr. rewrite <- app_comm_cons, <- app_assoc in Hr.
    destruct (pm1_read_bit_z s c false _ Hr) as (s1 & c1 & E1 & B1 & R1).
    rewrite E1. cbn [bind]. cbv beta iota. cbn [N.b2n N.eqb].
    pose proof B1 as (P1 & _). fold pos in P1. rewrite <- P1 in R1.
    destruct (rbat_z s1 c1 576 0 false _ R1) as (s2 & c2 & E2 & B2 & R2); [reflexivity|].
    rewrite E2. cbn [bind]. cbv beta iota. cbn [N.b2n N.eqb negb].
    pose proof B2 as (P2 & _).
    rewrite <- (obit_true (64 <=? pm1_output_stream_pos s2) true) in R2
      by (apply N.leb_le; rewrite P2, P1; lia).
    destruct (rbat_z s2 c2 64 0 true _ R2) as (s3 & c3 & E3 & B3 & R3); [rewrite P2, P1; lia|].
    rewrite E3. exists s3, c3. split; [reflexivity|].
    split; [eapply beq_trans; [eassumption|eapply beq_trans; eassumption]|assumption].
  - rewrite type_bits_2 in Hr. rewrite <- app_comm_cons, <- app_assoc in Hr.
    destruct (pm1_read_bit_z s c true _ Hr) as (s1 & c1 & E1 & B1 & R1).
    rewrite E1. cbn [bind]. cbv beta iota. cbn [N.b2n N.eqb].
    pose proof B1 as (P1 & _). fold pos in P1. rewrite <- P1 in R1.
    destruct (rbat_z s1 c1 64 1 true _ R1) as (s2 & c2 & E2 & B2 & R2); [reflexivity|].
    rewrite E2. cbn [bind]. cbv beta iota. cbn [N.b2n N.eqb negb].
    pose proof B2 as (P2 & _). rewrite <- P2 in R2.
    destruct (rbat_z s2 c2 2624 1 true _ R2) as (s3 & c3 & E3 & B3 & R3); [reflexivity|].
    rewrite E3. cbn [bind]. cbv beta iota. cbn [N.b2n N.eqb negb].
    exists s3, c3. split; [reflexivity|].
    split; [eapply beq_trans; [eassumption|eapply beq_trans; eassumption]|assumption].
  - rewrite type_bits_3 in Hr. cbn [app] in Hr.
    destruct (pm1_read_bit_z s c true _ Hr) as (s1 & c1 & E1 & B1 & R1).
    rewrite E1. cbn [bind]. cbv beta iota. cbn [N.b2n N.eqb].
    pose proof B1 as (P1 & _). fold pos in P1.
    change (false :: rest) with ([false] ++ rest) in R1.
    rewrite <- (obit_true (64 <=? pm1_output_stream_pos s1) false) in R1
      by (apply N.leb_le; rewrite P1; lia).
    destruct (rbat_z s1 c1 64 1 false _ R1) as (s2 & c2 & E2 & B2 & R2); [rewrite P1; lia|].
    rewrite E2. cbn [bind]. cbv beta iota. cbn [N.b2n N.eqb negb].
    exists s2, c2. split; [reflexivity|]. split; [eapply beq_trans; eassumption|assumption].
  - rewrite type_bits_4 in Hr. cbn [app] in Hr.
    destruct (pm1_read_bit_z s c false _ Hr) as (s1 & c1 & E1 & B1 & R1).
    rewrite E1. cbn [bind]. cbv beta iota. cbn [N.b2n N.eqb].
    pose proof B1 as (P1 & _). fold pos in P1.
    change (true :: rest) with ([true] ++ rest) in R1.
    rewrite <- (obit_true (576 <=? pm1_output_stream_pos s1) true) in R1
      by (apply N.leb_le; rewrite P1; lia).
    destruct (rbat_z s1 c1 576 0 true _ R1) as (s2 & c2 & E2 & B2 & R2); [rewrite P1; lia|].
    rewrite E2. cbn [bind]. cbv beta iota. cbn [N.b2n N.eqb negb].
    exists s2, c2. split; [reflexivity|]. split; [eapply beq_trans; eassumption|assumption].
  - rewrite type_bits_5 in Hr. cbn [app] in Hr.
    destruct (pm1_read_bit_z s c true _ Hr) as (s1 & c1 & E1 & B1 & R1).
    rewrite E1. cbn [bind]. cbv beta iota. cbn [N.b2n N.eqb].
    pose proof B1 as (P1 & _). fold pos in P1.
    change (true :: false :: rest) with ([true] ++ false :: rest) in R1.
    rewrite <- (obit_true (64 <=? pm1_output_stream_pos s1) true) in R1
      by (apply N.leb_le; rewrite P1; lia).
    destruct (rbat_z s1 c1 64 1 true _ R1) as (s2 & c2 & E2 & B2 & R2); [rewrite P1; lia|].
    rewrite E2. cbn [bind]. cbv beta iota. cbn [N.b2n N.eqb negb].
    pose proof B2 as (P2 & _).
    change (false :: rest) with ([false] ++ rest) in R2.
    rewrite <- (obit_true (2624 <=? pm1_output_stream_pos s2) false) in R2
      by (apply N.leb_le; rewrite P2, P1; lia).
    destruct (rbat_z s2 c2 2624 1 false _ R2) as (s3 & c3 & E3 & B3 & R3); [rewrite P2, P1; lia|].
    rewrite E3. cbn [bind]. cbv beta iota. cbn [N.b2n N.eqb negb].
    exists s3, c3. split; [reflexivity|].
    split; [eapply beq_trans; [eassumption|eapply beq_trans; eassumption]|assumption].
Qed.

(* ------------------------------------------------------------------ *)
(* Distance                                                            *)

Definition cr_entry (idx : N) : N * N :=
  (aget (vl_offset pm1_copy_ranges) idx, aget (vl_bits pm1_copy_ranges) idx).

Lemma dvl_copy s (c : src) idx base w v rest : idx < 15 -> cr_entry idx = (base, w) -> v < 2 ^ w ->
  rdy s c (nbits w v ++ rest) ->
  exists r' c', decode_variable_length (read_callback_wrapper src_cb) pm1_copy_ranges (pm1_bsr s) c idx
                = Ok (Some (base + v), r', c') /\ rdy (pm1_set_bsr s r') c' rest.
Proof.
  intros Hi He Hv Hr.
  pose proof (f_equal fst He) as E1. pose proof (f_equal snd He) as E2.
  change (aget (vl_offset pm1_copy_ranges) idx = base) in E1.
  change (aget (vl_bits pm1_copy_ranges) idx = w) in E2.
  assert (A1 : idx < alen (vl_bits pm1_copy_ranges)) by (rewrite copy_ranges_alen_bits; exact Hi).
  assert (A2 : idx < alen (vl_offset pm1_copy_ranges)) by (rewrite copy_ranges_alen_offset; exact Hi).
  assert (A3 : w <= 25) by (rewrite <- E2; pose proof (copy_ranges_bits_le idx Hi); lia).
  exact (dvl_z pm1_copy_ranges s c idx base w v rest A1 A2 E1 E2 A3 Hv Hr).
Qed.

Lemma width_lo ty base full pos : ty < 3 -> pm1_dist_width ty base full pos = full.
Proof. intros H. unfold pm1_dist_width. destruct (N.ltb_spec ty 3); [reflexivity|lia]. Qed.

Lemma width_3 pos : pm1_dist_width 3 64 9 pos = if pos <? 320 then 8 else 9.
Proof. reflexivity. Qed.
Lemma width_4 pos : pm1_dist_width 4 576 11 pos =
  if pos <? 832 then 8 else if pos <? 1088 then 9 else if pos <? 1600 then 10 else 11.
Proof. reflexivity. Qed.
Lemma width_5 pos : pm1_dist_width 5 2624 13 pos =
  if pos <? 2880 then 8 else if pos <? 3136 then 9 else if pos <? 3648 then 10
  else if pos <? 4672 then 11 else if pos <? 6720 then 12 else 13.
Proof. reflexivity. Qed.

Lemma redirect_lo ty pos : ty < 3 -> redirect_range_index ty pos = ty.
Proof.
  intros H. unfold redirect_range_index.
  destruct (N.eqb_spec ty 3); [lia|]. destruct (N.eqb_spec ty 4); [lia|].
  destruct (N.eqb_spec ty 5); [lia|]. reflexivity.
Qed.
Lemma redirect_3 pos : redirect_range_index 3 pos = if pos <? 320 then 6 else 3.
Proof. reflexivity. Qed.
Lemma redirect_4 pos : redirect_range_index 4 pos =
  if pos <? 832 then 7 else if pos <? 1088 then 8 else if pos <? 1600 then 9 else 4.
Proof. reflexivity. Qed.
Lemma redirect_5 pos : redirect_range_index 5 pos =
  if pos <? 2880 then 10 else if pos <? 3136 then 11 else if pos <? 3648 then 12
  else if pos <? 4672 then 13 else if pos <? 6720 then 14 else 5.
Proof. reflexivity. Qed.

Ltac leaf := eexists _, _; split; [reflexivity|]; split; [reflexivity|]; split; [lia|];
             split; [reflexivity|]; pw; lia.

Lemma dist_plan pos dist len ty base full : pm1_copy_type dist len = Some (ty, base, full) -> dist < pos ->
  exists idx w, redirect_range_index ty pos = idx /\ pm1_dist_width ty base full pos = w /\
    idx < 15 /\ cr_entry idx = (base, w) /\ dist - base < 2 ^ w.
Proof.
  unfold pm1_copy_type. intros Ht Hd.
  destruct (len =? 2).
  - destruct (N.ltb_spec dist 64).
    { injection Ht as <- <- <-. rewrite redirect_lo, width_lo by lia. leaf. }
    destruct (N.ltb_spec dist 320); [|discriminate].
    injection Ht as <- <- <-. rewrite redirect_lo, width_lo by lia. leaf.
  - destruct (N.ltb_spec dist 64).
    { injection Ht as <- <- <-. rewrite redirect_lo, width_lo by lia. leaf. }
    destruct (N.ltb_spec dist 576).
    { injection Ht as <- <- <-. rewrite redirect_3, width_3. destruct (N.ltb_spec pos 320); leaf. }
    destruct (N.ltb_spec dist 2624).
    { injection Ht as <- <- <-. rewrite redirect_4, width_4.
      destruct (N.ltb_spec pos 832); [leaf|]. destruct (N.ltb_spec pos 1088); [leaf|].
      destruct (N.ltb_spec pos 1600); leaf. }
    destruct (N.ltb_spec dist 10816); [|discriminate].
    injection Ht as <- <- <-. rewrite redirect_5, width_5.
    destruct (N.ltb_spec pos 2880); [leaf|]. destruct (N.ltb_spec pos 3136); [leaf|].
    destruct (N.ltb_spec pos 3648); [leaf|]. destruct (N.ltb_spec pos 4672); [leaf|].
    destruct (N.ltb_spec pos 6720); leaf.
Qed.

Lemma copy_type_facts dist len ty base full : pm1_copy_type dist len = Some (ty, base, full) ->
  dist < 10816 /\ base <= dist /\ (ty < 2 <-> len = 2) /\
  ty <= 5 /\ (ty = 1 \/ ty = 3 -> base = 64) /\ (ty = 4 -> base = 576) /\ (ty = 5 -> base = 2624).
Proof.
  unfold pm1_copy_type. intros Ht.
  destruct (N.eqb_spec len 2).
  - destruct (N.ltb_spec dist 64); [injection Ht as <- <- <-; lia|].
    destruct (N.ltb_spec dist 320); [injection Ht as <- <- <-; lia|discriminate].
  - destruct (N.ltb_spec dist 64); [injection Ht as <- <- <-; lia|].
    destruct (N.ltb_spec dist 576); [injection Ht as <- <- <-; lia|].
    destruct (N.ltb_spec dist 2624); [injection Ht as <- <- <-; lia|].
    destruct (N.ltb_spec dist 10816); [injection Ht as <- <- <-; lia|discriminate].
Qed.

(* ------------------------------------------------------------------ *)
(* The ring buffer copy                                                *)

Lemma pm1_copy_loop_z hdr n : forall s st o ci dist,
  core hdr s st -> dist < ps_pos st -> dist < 16384 ->
  ci = (ps_pos st + 16384 - 1 - dist) mod 16384 -> ob_len o + N.of_nat n <= pm1_max_read ->
  exists s', pm1_copy_loop n ci s o =
      Ok (s', {| ob_rev := rev (copy_out n st dist) ++ ob_rev o; ob_len := ob_len o + N.of_nat n |}) /\
    core hdr s' (pst_copy pm1_window 0 n st dist) /\ pm1_bsr s' = pm1_bsr s.
Proof.
  induction n as [|n IH]; intros s st o ci dist Hc Hd Hd2 Hci Hl.
  - exists s. cbn [pm1_copy_loop copy_out rev app pst_copy N.of_nat]. rewrite N.add_0_r.
    destruct o as [orv ol]. split; [reflexivity|]. split; [exact Hc|reflexivity].
  - pose proof Hc as (C1 & C2 & C3 & C4 & C5 & C6 & C7 & C8).
    rewrite pm1_copy_loop_S.
    assert (Hcilt : ci < alen (pm1_ringbuf s)).
    { rewrite C1. unfold pm1_ringbuf_extent. subst ci. lia. }
    rewrite rd_ok by exact Hcilt. cbn [bind].
    rewrite ob_push_ok by lia. cbn [bind]. rewrite rd_ok by exact Hcilt. cbn [bind].
    set (b := aget (pm1_ringbuf s) ci).
    assert (Hb : b = ph_back pm1_window 0 (ps_h st) dist /\ b < 256).
    { unfold ph_back, pm1_window. unfold ps_pos in Hd. cbv zeta.
      rewrite (N.mod_small dist 16384) by exact Hd2.
      destruct (N.ltb_spec dist (ph_n (ps_h st))) as [_|]; [|lia].
      destruct (C4 (ph_n (ps_h st) - 1 - dist)) as [R1 R2]; [lia|lia|].
      rewrite <- R1. unfold b.
      replace ci with ((ph_n (ps_h st) - 1 - dist) mod 16384); [split; [reflexivity|]|].
      - rewrite R1. exact R2.
      - subst ci. unfold ps_pos. lia. }
    destruct Hb as [Eb Hb].
    destruct (outputted_byte_z hdr s st b Hc Hb) as (s1 & E1 & C1' & Eb1).
    rewrite E1. cbn [bind].
    destruct (IH s1 (pst_out st b) {| ob_rev := b :: ob_rev o; ob_len := ob_len o + 1 |}
                 (pm1_ring_mod (ci + 1)) dist C1') as (s' & E & C' & Eb').
    { rewrite ps_pos_out. lia. }
    { exact Hd2. }
    { rewrite pm1_ring_mod_eq, ps_pos_out. subst ci. lia. }
    { cbn [ob_len]. lia. }
    exists s'. rewrite E. cbn [ob_rev ob_len copy_out pst_copy rev]. cbv zeta. rewrite <- Eb.
    rewrite <- app_assoc. cbn [app].
    replace (ob_len o + 1 + N.of_nat n) with (ob_len o + N.of_nat (S n)) by lia.
    split; [reflexivity|]. split; [exact C'|]. rewrite Eb'. exact Eb1.
Qed.

(* ------------------------------------------------------------------ *)
(* The copy command                                                    *)

Lemma copy_bits_inv pos d l bl : pm1_copy_bits pos d l = Some bl ->
  d < pos /\ exists ty base full, pm1_copy_type d l = Some (ty, base, full) /\
    exists lb, (if ty <? 2 then lb = [] else pm1_copylen_bits l = Some lb) /\
      bl = pm1_type_bits pos ty ++ lb ++ nbits (pm1_dist_width ty base full pos) (d - base).
Proof.
  unfold pm1_copy_bits. destruct (N.ltb_spec d pos) as [Hd|]; [|discriminate].
  destruct (pm1_copy_type d l) as [[[ty base] full]|]; [|discriminate].
  cbv zeta. intros H. split; [exact Hd|]. exists ty, base, full. split; [reflexivity|].
  destruct (ty <? 2).
  - injection H as <-. exists []. split; reflexivity.
  - destruct (pm1_copylen_bits l) as [lb|]; [|discriminate]. injection H as <-.
    exists lb. split; reflexivity.
Qed.

Lemma ci_eq p d : d < 16384 ->
  pm1_ring_mod (u32 (p mod 16384 + pm1_RING_BUFFER_SIZE + 4294967296 - d - 1)) = (p + 16384 - 1 - d) mod 16384.
Proof.
  intros Hd. rewrite pm1_ring_mod_eq, u32_mod'. unfold pm1_RING_BUFFER_SIZE.
  assert (Y : (p mod 16384 + 16384 + 4294967296 - d - 1) mod 4294967296
                = p mod 16384 + 16384 - d - 1) by lia.
  rewrite Y. lia.
Qed.

Lemma read_copy_command_z hdr s (c : src) st d l o rest :
  core hdr s st -> ps_pos st < 4294967296 -> wf_pm1_copy st d l = true ->
  ob_len o + pm1_MAX_COPY_BLOCK_LEN <= pm1_max_read ->
  rdy s c (obits (pm1_copy_bits (ps_pos st) d l) ++ rest) ->
  exists s' c', read_copy_command src_cb s c o =
      Ok (l, s', c', {| ob_rev := rev (copy_out (N.to_nat l) st d) ++ ob_rev o; ob_len := ob_len o + l |}) /\
    core hdr s' (copy_st st d l) /\ rdy s' c' rest.
Proof.
  intros Hc Hpos Hwf Hl Hr. unfold wf_pm1_copy in Hwf.
  apply andb_true_iff in Hwf. destruct Hwf as [Hwf Hs].
  apply andb_true_iff in Hwf. destruct Hwf as [Hl2 Hl244].
  destruct (pm1_copy_bits (ps_pos st) d l) as [bl|] eqn:Ebl; [|discriminate]. cbn [obits] in Hr.
  destruct (copy_bits_inv _ _ _ _ Ebl) as (Hd & ty & base & full & Ety & lb & Hlb & ->).
  destruct (copy_type_facts _ _ _ _ _ Ety) as (F1 & F2 & F3 & F4 & F5 & F6 & F7).
  pose proof Hc as (C1 & C2 & C3 & C4 & C5 & C6 & C7 & C8).
  assert (Epos : pm1_output_stream_pos s = ps_pos st) by (rewrite C3; apply N.mod_small; exact Hpos).
  rewrite <- !app_assoc in Hr. rewrite <- Epos in Hr.
  unfold read_copy_command.
  assert (Htok : type_ok (pm1_output_stream_pos s) ty).
  { unfold type_ok. rewrite Epos. repeat split; lia. }
  destruct (read_copy_type_range_z s c ty _ Htok Hr) as (s1 & c1 & E1 & B1 & R1).
  rewrite E1. cbn [bind]. cbv beta iota.
  assert (X : exists s2 c2, (if ty <? 2 then Ok (Some 2, s1, c1) else read_copy_byte_count src_cb s1 c1)
                            = Ok (Some l, s2, c2) /\ beq s1 s2 /\
              rdy s2 c2 (nbits (pm1_dist_width ty base full (pm1_output_stream_pos s)) (d - base) ++ rest)).
  { destruct (N.ltb_spec ty 2) as [Hty|Hty].
    - subst lb. cbn [app] in R1. assert (l = 2) by lia. subst l.
      exists s1, c1. split; [reflexivity|]. split; [apply beq_refl|exact R1].
    - apply (read_copy_byte_count_z s1 c1 l lb _ Hlb R1). }
  destruct X as (s2 & c2 & E2 & B2 & R2). rewrite E2. cbn [bind]. cbv beta iota zeta.
  pose proof (beq_trans _ _ _ B1 B2) as B12. pose proof B12 as (P2 & _).
  rewrite P2, Epos. rewrite Epos in R2.
  destruct (dist_plan (ps_pos st) d l ty base full Ety Hd) as (idx & w & Ei & Ew & Hidx & Hent & Hv).
  rewrite Ei. rewrite Ew in R2.
  destruct (dvl_copy s2 c2 idx base w (d - base) rest Hidx Hent Hv R2) as (r3 & c3 & E3 & R3).
  rewrite E3. cbn [bind]. cbv beta iota zeta.
  replace (base + (d - base)) with d by lia.
  change (pm1_output_stream_pos (pm1_set_bsr s2 r3)) with (pm1_output_stream_pos s2).
  change (pm1_ringbuf_pos (pm1_set_bsr s2 r3)) with (pm1_ringbuf_pos s2).
  rewrite P2, Epos.
  destruct (N.leb_spec (ps_pos st) d) as [|_]; [lia|].
  pose proof (core_beq hdr s (pm1_set_bsr s2 r3) st (beq_trans _ _ _ B12 (beq_set_bsr s2 r3)) Hc) as Hc3.
  destruct B12 as (_ & _ & _ & P4 & _). rewrite P4, C2.
  rewrite ci_eq by lia.
  destruct (pm1_copy_loop_z hdr (N.to_nat l) (pm1_set_bsr s2 r3) st o _ d Hc3 Hd ltac:(lia) eq_refl)
    as (s4 & E4 & C4' & Eb4); [unfold pm1_MAX_COPY_BLOCK_LEN in Hl; lia|].
  rewrite E4. cbn [bind]. rewrite N2Nat.id.
  exists s4, c3. split; [reflexivity|]. split; [exact C4'|].
  apply (rdy_bsr (pm1_set_bsr s2 r3) s4 c3 _ Eb4). exact R3.
Qed.

Print Assumptions read_byte_block_count_z.
Print Assumptions read_copy_byte_count_z.
Print Assumptions read_copy_type_range_z.
Print Assumptions dist_plan.
Print Assumptions pm1_copy_loop_z.
Print Assumptions read_copy_command_z.

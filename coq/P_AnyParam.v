(* P_AnyParam.v -- the decoders treat the state of the input callback abstractly.

   Every decoder model is a term of type [forall cbs, callback cbs -> ...]: it can do
   nothing with a callback state except hand it to the callback.  The unary
   parametricity translation (paramcoq: for every term t : T a proof t_P of the
   predicate that T's structure induces) makes that a theorem of each decoder
   without going through its code by hand:

     any_read_frame :  a property of callback states that every callback invocation
                       preserves holds of the state any_read returns.

   Used by the reader layer with P := "the basic reader is well formed and its
   current header is h" (P_AnyDecoder.v, P_ReaderSafe.v).

   The translation of the arithmetic of N and Z and of the array primitives is not
   needed (their predicates N_P, Z_P, arr_P hold of every value): they are given
   as realizers.  The plugin only generates definitions; nothing is assumed. *)
From Param Require Import Param.
From Coq Require Import FMapPositive.
From Lhasa Require Import Base DecBase BitReader Loop Generated Null Lzs Lz5 Lh1 LhNew Pm1 Pm2 PmaCommon Tree AnyDecoder.

(* fixpoint unfolding obligations of the translation: destruct the structural argument *)
Ltac destruct_reflexivity :=
  intros ; repeat match goal with
  | [ x : _ |- _ = _ ] => destruct x; reflexivity; fail
  end.
Global Parametricity Tactic := ((destruct_reflexivity; fail) || auto).

Parametricity positive arity 1.
Parametricity N arity 1.
Parametricity Z arity 1.
Parametricity bool arity 1.
Parametricity nat arity 1.
Parametricity list arity 1.
Parametricity prod arity 1.
Parametricity option arity 1.
Parametricity sum arity 1.
Parametricity unit arity 1.
Parametricity comparison arity 1.
Parametricity outcome arity 1.
Parametricity PositiveMap.tree arity 1.
Parametricity arr arity 1.

Lemma positive_P_all : forall p, positive_P p.
Proof. induction p; constructor; assumption. Qed.
Lemma N_P_all : forall n, N_P n.
Proof. destruct n; constructor. apply positive_P_all. Qed.
Lemma Z_P_all : forall n, Z_P n.
Proof. destruct n; constructor; apply positive_P_all. Qed.
Lemma nat_P_all : forall n, nat_P n.
Proof. induction n; constructor; assumption. Qed.
Lemma bool_P_all : forall b, bool_P b.
Proof. destruct b; constructor. Qed.
Lemma option_P_all A (AP : A -> Type) : (forall a, AP a) -> forall o, option_P A AP o.
Proof. intros H o. destruct o; constructor. apply H. Qed.
Lemma list_P_all A (AP : A -> Type) : (forall a, AP a) -> forall l, list_P A AP l.
Proof. intros H l. induction l; constructor; auto. Qed.
Lemma prod_P_all A (AP : A -> Type) B (BP : B -> Type) :
  (forall a, AP a) -> (forall b, BP b) -> forall p, prod_P A AP B BP p.
Proof. intros HA HB [a b]. constructor; auto. Qed.
Fixpoint tree_P_all (t : PositiveMap.tree N) : tree_P N N_P t :=
  match t with
  | PositiveMap.Leaf _ => tree_P_Leaf_P N N_P
  | PositiveMap.Node l o r =>
    tree_P_Node_P N N_P l (tree_P_all l) o (option_P_all N N_P N_P_all o) r (tree_P_all r)
  end.
Lemma arr_P_all : forall a, arr_P a.
Proof. destruct a. constructor; try apply N_P_all. apply tree_P_all. Qed.

Realizer N.add as N_add_P arity 1 := (fun a _ b _ => N_P_all (N.add a b)).
Realizer N.sub as N_sub_P arity 1 := (fun a _ b _ => N_P_all (N.sub a b)).
Realizer N.mul as N_mul_P arity 1 := (fun a _ b _ => N_P_all (N.mul a b)).
Realizer N.div as N_div_P arity 1 := (fun a _ b _ => N_P_all (N.div a b)).
Realizer N.modulo as N_modulo_P arity 1 := (fun a _ b _ => N_P_all (N.modulo a b)).
Realizer N.pow as N_pow_P arity 1 := (fun a _ b _ => N_P_all (N.pow a b)).
Realizer N.land as N_land_P arity 1 := (fun a _ b _ => N_P_all (N.land a b)).
Realizer N.lor as N_lor_P arity 1 := (fun a _ b _ => N_P_all (N.lor a b)).
Realizer N.lxor as N_lxor_P arity 1 := (fun a _ b _ => N_P_all (N.lxor a b)).
Realizer N.shiftl as N_shiftl_P arity 1 := (fun a _ b _ => N_P_all (N.shiftl a b)).
Realizer N.shiftr as N_shiftr_P arity 1 := (fun a _ b _ => N_P_all (N.shiftr a b)).
Realizer N.min as N_min_P arity 1 := (fun a _ b _ => N_P_all (N.min a b)).
Realizer N.max as N_max_P arity 1 := (fun a _ b _ => N_P_all (N.max a b)).
Realizer N.pred as N_pred_P arity 1 := (fun a _ => N_P_all (N.pred a)).
Realizer N.succ as N_succ_P arity 1 := (fun a _ => N_P_all (N.succ a)).
Realizer N.of_nat as N_of_nat_P arity 1 := (fun a _ => N_P_all (N.of_nat a)).
Realizer N.to_nat as N_to_nat_P arity 1 := (fun a _ => nat_P_all (N.to_nat a)).
Realizer N.succ_pos as N_succ_pos_P arity 1 := (fun a _ => positive_P_all (N.succ_pos a)).
Realizer N.testbit as N_testbit_P arity 1 := (fun a _ b _ => bool_P_all (N.testbit a b)).
Realizer N.eqb as N_eqb_P arity 1 := (fun a _ b _ => bool_P_all (N.eqb a b)).
Realizer N.ltb as N_ltb_P arity 1 := (fun a _ b _ => bool_P_all (N.ltb a b)).
Realizer N.leb as N_leb_P arity 1 := (fun a _ b _ => bool_P_all (N.leb a b)).
Realizer Z.of_N as Z_of_N_P arity 1 := (fun a _ => Z_P_all (Z.of_N a)).
Realizer Z.to_N as Z_to_N_P arity 1 := (fun a _ => N_P_all (Z.to_N a)).
Realizer Z.land as Z_land_P arity 1 := (fun a _ b _ => Z_P_all (Z.land a b)).
Realizer Z.add as Z_add_P arity 1 := (fun a _ b _ => Z_P_all (Z.add a b)).
Realizer Z.sub as Z_sub_P arity 1 := (fun a _ b _ => Z_P_all (Z.sub a b)).
Realizer Z.mul as Z_mul_P arity 1 := (fun a _ b _ => Z_P_all (Z.mul a b)).
Realizer Z.ltb as Z_ltb_P arity 1 := (fun a _ b _ => bool_P_all (Z.ltb a b)).
Realizer Z.leb as Z_leb_P arity 1 := (fun a _ b _ => bool_P_all (Z.leb a b)).
Realizer Z.eqb as Z_eqb_P arity 1 := (fun a _ b _ => bool_P_all (Z.eqb a b)).
Realizer aget as aget_P arity 1 := (fun a _ b _ => N_P_all (aget a b)).
Realizer aset as aset_P arity 1 := (fun a _ b _ c _ => arr_P_all (aset a b c)).
Realizer mk_arr as mk_arr_P arity 1 := (fun a _ b _ => arr_P_all (mk_arr a b)).
Realizer aset_list as aset_list_P arity 1 := (fun a _ b _ c _ => arr_P_all (aset_list a b c)).
Realizer arr_of_list as arr_of_list_P arity 1 := (fun a _ b _ => arr_P_all (arr_of_list a b)).

Parametricity Recursive length arity 1.
Parametricity Recursive nlen arity 1.
Parametricity Recursive null_max_read arity 1.
Parametricity Recursive null_BLOCK_READ_SIZE arity 1.
Parametricity Recursive null_state arity 1.
Parametricity Recursive null_read arity 1.
Parametricity Recursive lz5_read arity 1.
Parametricity Recursive fill_bytes_loop arity 1.
Parametricity Recursive peek_fill arity 1.
Parametricity Recursive read_bits arity 1.
Parametricity Recursive lzs_read arity 1.
Parametricity Recursive lh1_read arity 1.
Parametricity Recursive lhnew_read arity 1.
Parametricity Recursive pm1_read arity 1.
Parametricity Recursive pm2_read arity 1.
Parametricity Recursive any_read arity 1.

(* every decoder state satisfies the induced predicate (it has no callback state inside) *)
Ltac pall := repeat (intros; match goal with
  | |- N_P _ => apply N_P_all
  | |- Z_P _ => apply Z_P_all
  | |- nat_P _ => apply nat_P_all
  | |- bool_P _ => apply bool_P_all
  | |- positive_P _ => apply positive_P_all
  | |- arr_P _ => apply arr_P_all
  | |- list_P _ _ _ => apply list_P_all
  | |- option_P _ _ _ => apply option_P_all
  | |- prod_P _ _ _ _ _ => apply prod_P_all
  | |- ?T ?x => is_var x; destruct x; constructor
  | |- ?T _ ?x => is_var x; destruct x; constructor
  end).
Lemma dstate_P_all : forall s, dstate_P s.
Proof. pall. Qed.

Theorem any_read_frame : forall (cbs : Type) (cb : callback cbs) (P : cbs -> Prop),
  (forall c n, P c -> P (snd (cb c n))) ->
  forall junk s c o s' c', P c -> any_read cb junk s c = Ok (o, s', c') -> P c'.
Proof.
  intros cbs cb P Hcb junk s c o s' c' Hc E.
  assert (CB : callback_P cbs P cb).
  { intros c0 Hc0 n _. specialize (Hcb c0 n Hc0). destruct (cb c0 n) as [bs c1]. cbn [snd] in Hcb.
    constructor; [apply list_P_all; exact N_P_all|exact Hcb]. }
  pose proof (any_read_P cbs P cb CB junk (N_P_all junk) s (dstate_P_all s) c Hc) as H.
  rewrite E in H. inversion H as [a Ha Ea| |]. subst a.
  inversion Ha as [a1 Ha1 b1 Hb1 Eab]. exact Hb1.
Qed.

Print Assumptions any_read_frame.

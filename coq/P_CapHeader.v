(* P_CapHeader.v -- the field records of S_Capstone.v are well formed
   (S_Header.wf_fields) and S_Header.normalise maps them to the headers
   file_header / dir_header / link_header; these headers satisfy what
   P_CliTree.wf_item asks of the headers of a well-formed archive. *)
From Lhasa Require Import Base ListN Generated Crc16 P_Crc16 InputStream Header S_Header P_Intact P_Header Fs Reader
  P_ReaderCheck P_FsExtract P_CliExtract P_CliTree S_Capstone.
From Coq Require Import ZifyBool ZifyN ZifyNat.
Local Open Scope N_scope.

Set Default Timeout 120.

(* ------------------------------------------------------------------ *)
(* bytes of names *)

Lemma cstr_id l : Forall (fun b => 0 < b) l -> cstr l = l.
Proof.
  induction 1 as [|b l Hb _ IH]; [reflexivity|]. cbn [cstr].
  destruct (N.eqb_spec b 0) as [E|_]; [lia|]. rewrite IH. reflexivity.
Qed.

Lemma replace_byte_id a b l : Forall (fun x => x <> a) l -> replace_byte a b l = l.
Proof.
  induction 1 as [|x l Hx _ IH]; [reflexivity|]. unfold replace_byte in *. cbn [map].
  destruct (N.eqb_spec x a) as [E|_]; [contradiction|]. rewrite IH. reflexivity.
Qed.

Lemma replace_back l : Forall (fun x => x <> 255) l -> replace_byte 255 47 (to255 l) = l.
Proof.
  induction 1 as [|x l Hx _ IH]; [reflexivity|]. unfold to255, replace_byte in *. cbn [map].
  rewrite IH. f_equal.
  destruct (N.eqb_spec x 47) as [E|E].
  - subst x. reflexivity.
  - destruct (N.eqb_spec x 255) as [E2|_]; [contradiction|reflexivity].
Qed.

Lemma to255_app a b : to255 (a ++ b) = to255 a ++ to255 b.
Proof. unfold to255, replace_byte. apply map_app. Qed.

Lemma nlen_map {A B} (f : A -> B) l : nlen (map f l) = nlen l.
Proof. unfold nlen. rewrite map_length. reflexivity. Qed.

Lemma nlen_to255 p : nlen (to255 p) = nlen p.
Proof. apply nlen_map. Qed.

Lemma to255_lt256 p : Forall lt256 p -> Forall lt256 (to255 p).
Proof.
  induction 1 as [|x l Hx _ IH]; [constructor|]. unfold to255, replace_byte in *. cbn [map]. constructor; [|exact IH].
  destruct (x =? 47); [unfold lt256; lia|exact Hx].
Qed.

Lemma last_app_single {A} (l : list A) x d : last (l ++ [x]) d = x.
Proof. induction l as [|y l IH]; [reflexivity|]. cbn [app]. destruct (l ++ [x]) eqn:E; [destruct l; discriminate|]. cbn [last]. exact IH. Qed.

(* ------------------------------------------------------------------ *)
(* the extended-header chain of mk_fields *)

Lemma ext_chain_app_len fs a : forall b, nlen (ext_chain fs (a ++ b)) = nlen (ext_chain fs a) + nlen (ext_chain fs b).
Proof.
  induction a as [|[t p] a IH]; intros b; [cbn [app ext_chain]; rewrite nlen_nil; lia|].
  cbn [app]. rewrite !nlen_ext_chain_cons, IH. lia.
Qed.

Lemma chain_len_mk fn p m :
  nlen (ext_chain 2 (name_ext fn ++ path_ext p ++ [(80, le_bytes 2 m)])) =
  (match fn with [] => 0 | _ => 3 + nlen fn end) + (match p with [] => 0 | _ => 3 + nlen p end) + 5.
Proof.
  rewrite !ext_chain_app_len.
  assert (E80 : nlen (ext_chain 2 [(80, le_bytes 2 m)]) = 5).
  { rewrite nlen_ext_chain_cons. unfold ext_size. cbn [snd ext_chain]. rewrite nlen_le_bytes, nlen_nil. reflexivity. }
  assert (E1 : nlen (ext_chain 2 (name_ext fn)) = match fn with [] => 0 | _ => 3 + nlen fn end).
  { destruct fn as [|x fn]; [reflexivity|]. unfold name_ext. rewrite nlen_ext_chain_cons. unfold ext_size. cbn [snd ext_chain].
    rewrite nlen_nil. change (N.of_nat 2) with 2. lia. }
  assert (E2 : nlen (ext_chain 2 (path_ext p)) = match p with [] => 0 | _ => 3 + nlen p end).
  { destruct p as [|x p]; [reflexivity|]. unfold path_ext. rewrite nlen_ext_chain_cons. unfold ext_size. cbn [snd ext_chain].
    rewrite nlen_nil, nlen_to255. change (N.of_nat 2) with 2. lia. }
  rewrite E80, E1, E2. lia.
Qed.

Lemma forallb_app' {A} (f : A -> bool) a b : forallb f a = true -> forallb f b = true -> forallb f (a ++ b) = true.
Proof. intros Ha Hb. rewrite forallb_app, Ha, Hb. reflexivity. Qed.

Lemma wf_mk_fields method len crc time fn p m :
  nlen method = 5 -> bytes_ok method = true -> len < 4294967296 -> time < 4294967296 -> crc < 65536 ->
  Forall lt256 fn -> Forall lt256 p -> nlen fn + nlen p <= 20000 -> m < 65536 ->
  wf_fields (mk_fields method len crc time fn p m) = true.
Proof.
  intros Hm5 Hmb Hlen Htime Hcrc Hfn Hp Hsz Hm.
  unfold wf_fields, mk_fields. cbn [f_level f_method f_clen f_length f_time f_attr f_os f_crc f_name f_exts f_area].
  rewrite Hm5, Hmb. cbn [N.eqb Pos.eqb andb bytes_ok forallb].
  replace (len <? 4294967296) with true by (symmetry; apply N.ltb_lt; exact Hlen).
  replace (time <? 4294967296) with true by (symmetry; apply N.ltb_lt; exact Htime).
  replace (crc <? 65536) with true by (symmetry; apply N.ltb_lt; exact Hcrc).
  cbn [andb]. change (32 <? 256) with true. change (85 <? 256) with true. cbn [andb].
  rewrite chain_len_mk.
  apply andb_true_intro. split; [apply andb_true_intro; split|].
  - apply forallb_app'; [|apply forallb_app'].
    + destruct fn as [|x fn]; [reflexivity|]. unfold name_ext. cbn [forallb]. rewrite Bool.andb_true_r.
      unfold ext_ok, ext_size. cbn [fst snd]. change (1 <? 256) with true. cbn [andb].
      apply andb_true_intro. split; [apply bytes_ok_Forall; exact Hfn|]. apply N.ltb_lt. change (N.of_nat 2) with 2. lia.
    + destruct p as [|x p]; [reflexivity|]. unfold path_ext. cbn [forallb]. rewrite Bool.andb_true_r.
      unfold ext_ok, ext_size. cbn [fst snd]. change (2 <? 256) with true. cbn [andb].
      apply andb_true_intro. split; [apply bytes_ok_Forall; apply to255_lt256; exact Hp|]. apply N.ltb_lt.
      rewrite nlen_to255. change (N.of_nat 2) with 2. lia.
    + cbn [forallb]. rewrite Bool.andb_true_r. unfold ext_ok, ext_size. cbn [fst snd]. change (80 <? 256) with true. cbn [andb].
      apply andb_true_intro. split; [apply bytes_ok_Forall; apply le_bytes_lt256|]. apply N.ltb_lt.
      rewrite nlen_le_bytes. reflexivity.
  - apply N.ltb_lt. destruct fn, p; lia.
  - reflexivity.
Qed.

(* ------------------------------------------------------------------ *)
(* normalise on mk_fields *)

Lemma last_map {A B} (f : A -> B) l d d' : l <> [] -> last (map f l) d' = f (last l d).
Proof.
  induction l as [|x l IH]; intros Hne; [contradiction Hne; reflexivity|].
  destruct l as [|y l]; [reflexivity|]. cbn [map last] in *. apply IH. discriminate.
Qed.

Lemma leb_true a b : a <= b -> (a <=? b) = true.
Proof. intros H. apply N.leb_le. exact H. Qed.

Lemma nlen_pos {A} (l : list A) : l <> [] -> 1 <= nlen l.
Proof. destruct l; [intros H; contradiction H; reflexivity|]. intros _. rewrite nlen_cons. lia. Qed.

Section Norm.
  Variable mktime : N -> N -> N -> N -> Z -> N -> N.

  Lemma norm_ext_name cc h fn : fn <> [] -> Forall (fun b => 0 < b) fn -> Forall (fun b => b <> 47) fn ->
    norm_ext cc h (1, fn) = set_filename h (Some fn).
  Proof.
    intros Hne H0 H47. unfold norm_ext. cbn [N.eqb Pos.eqb andb]. rewrite (leb_true _ _ (nlen_pos fn Hne)).
    rewrite (cstr_id fn H0), (replace_byte_id 47 95 fn H47). reflexivity.
  Qed.

  Lemma norm_ext_path cc h p : p <> [] -> last p 0 = 47 -> Forall (fun b => 0 < b) p -> Forall (fun b => b <> 255) p ->
    norm_ext cc h (2, to255 p) = set_path h (Some p).
  Proof.
    intros Hne Hl H0 H255. unfold norm_ext. cbn [N.eqb Pos.eqb andb].
    assert (Hne' : to255 p <> []) by (destruct p; [contradiction Hne; reflexivity|discriminate]).
    rewrite (leb_true _ _ (nlen_pos _ Hne')).
    assert (El : last (to255 p) 0 = 255).
    { unfold to255, replace_byte. rewrite (last_map _ p 0 0 Hne), Hl. reflexivity. }
    rewrite El. cbn [N.eqb Pos.eqb]. rewrite (replace_back p H255), (cstr_id p H0). reflexivity.
  Qed.

  Lemma norm_ext_perms cc h m : m < 65536 ->
    norm_ext cc h (80, le_bytes 2 m) = set_unix_perms (add_flag h F_PERMS) m.
  Proof.
    intros Hm. unfold norm_ext. cbn [N.eqb Pos.eqb andb]. rewrite nlen_le_bytes. cbn [N.of_nat Pos.of_succ_nat Pos.succ N.leb N.compare Pos.compare Pos.compare_cont].
    replace (le_val (sub (le_bytes 2 m) 0 2)) with m; [reflexivity|].
    change (sub (le_bytes 2 m) 0 2) with (le_bytes 2 m). symmetry. apply le_val_le_bytes. exact Hm.
  Qed.

  Definition all_pos (l : list N) : Prop := Forall (fun b => 0 < b) l.

  Lemma norm_decoded_mk method len crc time fn p m :
    m < 65536 ->
    all_pos fn -> Forall (fun b => b <> 47) fn ->
    (p = [] \/ last p 0 = 47) -> all_pos p -> Forall (fun b => b <> 255) p ->
    norm_decoded mktime (mk_fields method len crc time fn p m) =
    mk_header (mk_fields method len crc time fn p m) (opt_of fn) (opt_of p) None m.
  Proof.
    intros Hm Hf0 Hf47 Hpl Hp0 Hp255. unfold norm_decoded.
    set (f := mk_fields method len crc time fn p m).
    assert (Ea : norm_area f (norm_name f (norm_fixed mktime f)) = norm_fixed mktime f) by reflexivity.
    rewrite Ea. change (f_exts f) with (name_ext fn ++ path_ext p ++ [(80, le_bytes 2 m)]).
    rewrite !fold_left_app. cbn [fold_left]. rewrite (norm_ext_perms _ _ m Hm).
    destruct fn as [|x fn].
    - destruct p as [|y p]; [reflexivity|].
      unfold name_ext, path_ext. cbn [fold_left].
      rewrite norm_ext_path; [reflexivity|discriminate|destruct Hpl as [E|E]; [discriminate|exact E]|exact Hp0|exact Hp255].
    - unfold name_ext at 1. cbn [fold_left]. rewrite norm_ext_name; [|discriminate|exact Hf0|exact Hf47].
      destruct p as [|y p]; [reflexivity|].
      unfold path_ext. cbn [fold_left].
      rewrite norm_ext_path; [reflexivity|discriminate|destruct Hpl as [E|E]; [discriminate|exact E]|exact Hp0|exact Hp255].
  Qed.
End Norm.

(* ------------------------------------------------------------------ *)
(* mode bits *)

Lemma mode_reg_low m : m < 4096 -> N.land (S_IFREG + m) 4095 = m.
Proof.
  intros H. apply N.eqb_eq.
  apply (Sweep.sweep_below 12 (fun m => N.land (S_IFREG + m) 4095 =? m)); [vm_compute; reflexivity|exact H].
Qed.

Lemma mode_dir_low m : m < 4096 -> N.land (S_IFDIR + m) 4095 = m.
Proof.
  intros H. apply N.eqb_eq.
  apply (Sweep.sweep_below 12 (fun m => N.land (S_IFDIR + m) 4095 =? m)); [vm_compute; reflexivity|exact H].
Qed.

Lemma mode_dir_type m : m < 4096 -> (N.land (S_IFDIR + m) 61440 =? 40960) = false.
Proof.
  intros H. apply Bool.negb_true_iff.
  apply (Sweep.sweep_below 12 (fun m => negb (N.land (S_IFDIR + m) 61440 =? 40960))); [vm_compute; reflexivity|exact H].
Qed.

(* ------------------------------------------------------------------ *)
(* splitting at the last '/', finding the first '|' *)

Lemma last_index_slashfree c : forall i acc, slashfree c -> last_index c 47 i acc = acc.
Proof.
  induction c as [|b c IH]; intros i acc H; [reflexivity|]. inversion H as [|b0 c0 Hb Hc]; subst.
  cbn [last_index]. destruct (N.eqb_spec b 47) as [E|_]; [contradiction|]. apply IH. exact Hc.
Qed.

Lemma last_index_app pre post : forall i acc, slashfree post ->
  last_index (pre ++ 47 :: post) 47 i acc = Some (i + nlen pre).
Proof.
  induction pre as [|b pre IH]; intros i acc H.
  - cbn [app last_index N.eqb Pos.eqb]. rewrite last_index_slashfree by exact H. rewrite nlen_nil. f_equal. lia.
  - cbn [app last_index]. rewrite IH by exact H. rewrite nlen_cons. f_equal. lia.
Qed.

Lemma slash_decomp s : slashfree s \/ exists pre post, s = pre ++ 47 :: post /\ slashfree post.
Proof.
  induction s as [|b s IH]; [left; constructor|].
  destruct IH as [H|(pre & post & E & H)].
  - destruct (N.eq_dec b 47) as [->|Hb].
    + right. exists [], s. split; [reflexivity|exact H].
    + left. constructor; assumption.
  - right. exists (b :: pre), post. split; [rewrite E; reflexivity|exact H].
Qed.

Lemma firstn_N_app_exact' {A} (a b : list A) : firstn_N (nlen a) (a ++ b) = a.
Proof. apply P_Header.firstn_N_app_exact. Qed.

Lemma split_name_none s : slashfree s -> S_Header.split_name s = (None, s).
Proof. intros H. unfold S_Header.split_name. rewrite last_index_slashfree by exact H. reflexivity. Qed.

Lemma split_name_some pre post : slashfree post ->
  S_Header.split_name (pre ++ 47 :: post) = (Some (pre ++ [47]), post).
Proof.
  intros H. unfold S_Header.split_name. rewrite last_index_app by exact H. rewrite N.add_0_l.
  replace (pre ++ 47 :: post) with ((pre ++ [47]) ++ post) by (rewrite <- app_assoc; reflexivity).
  replace (nlen pre + 1) with (nlen (pre ++ [47])) by (rewrite nlen_app, nlen_cons, nlen_nil; lia).
  rewrite firstn_N_app_exact', P_Header.skipn_N_app_exact. reflexivity.
Qed.

Lemma first_index_app pre t : Forall (fun b => b <> 124) pre -> forall i,
  first_index (pre ++ 124 :: t) 124 i = Some (i + nlen pre).
Proof.
  induction 1 as [|b pre Hb _ IH]; intros i.
  - cbn [app first_index N.eqb Pos.eqb]. rewrite nlen_nil. f_equal. lia.
  - cbn [app first_index]. destruct (N.eqb_spec b 124) as [E|_]; [contradiction|]. rewrite IH, nlen_cons. f_equal. lia.
Qed.

Lemma opt_str_opt_of l : opt_str (opt_of l) = l.
Proof. destruct l; reflexivity. Qed.

(* ------------------------------------------------------------------ *)
(* path strings of good names *)

Lemma dirstr_last dl : dl <> [] -> last (dirstr dl) 0 = 47.
Proof.
  intros H. destruct (exists_last H) as (ds & d & ->). rewrite dirstr_snoc, app_assoc. apply last_app_single.
Qed.

Lemma dirstr_nonnil' dl : dl <> [] -> dirstr dl <> [].
Proof. destruct dl as [|d ds]; [intros H; contradiction H; reflexivity|]. intros _. rewrite dirstr_cons. destruct d; discriminate. Qed.

Lemma Forall_dirstr (Q : N -> Prop) dl : Q 47 -> Forall (Forall Q) dl -> Forall Q (dirstr dl).
Proof.
  intros H47. induction 1 as [|d ds Hd _ IH]; [constructor|]. rewrite dirstr_cons.
  apply Forall_app. split; [exact Hd|]. constructor; assumption.
Qed.

Lemma collapse_go_name c : forall r out cur, slashfree c -> collapse_go (c ++ r) out cur = collapse_go r out (cur ++ c).
Proof.
  induction c as [|b c IH]; intros r out cur H; [rewrite app_nil_r; reflexivity|].
  inversion H as [|b0 c0 Hb Hc]; subst. cbn [app collapse_go].
  destruct (N.eqb_spec b 47) as [E|_]; [contradiction|]. rewrite IH by exact Hc. rewrite <- app_assoc. reflexivity.
Qed.

Lemma collapse_go_dirstr : forall dl out, Forall good_name dl ->
  collapse_go (dirstr dl) out [] = concat (map (fun c => c ++ [47]) (rev out)) ++ dirstr dl.
Proof.
  induction dl as [|d ds IH]; intros out H.
  - cbn [collapse_go]. reflexivity.
  - inversion H as [|d0 ds0 (Hne & Hsf & Hpl1 & Hpl2 & _) Hds]; subst.
    rewrite dirstr_cons, collapse_go_name by exact Hsf. cbn [app collapse_go N.eqb Pos.eqb].
    assert (E0 : (nlen d =? 0) = false).
    { apply N.eqb_neq. intros E. apply nlen_zero_nil in E. contradiction. }
    assert (E1 : bytes_eqb d [46] = false).
    { destruct (bytes_eqb d [46]) eqn:E; [|reflexivity]. apply bytes_eqb_eq in E. subst d. discriminate. }
    assert (E2 : bytes_eqb d [46; 46] = false).
    { destruct (bytes_eqb d [46; 46]) eqn:E; [|reflexivity]. apply bytes_eqb_eq in E. subst d. discriminate. }
    rewrite E0, E1, E2. cbn [orb]. rewrite IH by exact Hds.
    cbn [rev]. rewrite map_app, concat_app. cbn [map concat]. rewrite app_nil_r, <- !app_assoc. reflexivity.
Qed.

Lemma collapse_dirstr dl : Forall good_name dl -> collapse (dirstr dl) = dirstr dl.
Proof.
  intros H. destruct dl as [|d ds]; [reflexivity|].
  pose proof (collapse_go_dirstr (d :: ds) [] H) as E. cbn [rev map concat app] in E.
  inversion H as [|d0 ds0 (Hne & Hsf & _) Hds]; subst.
  destruct d as [|b d]; [contradiction Hne; reflexivity|].
  inversion Hsf as [|b0 d0 Hb Hd]; subst.
  unfold collapse. rewrite dirstr_cons in *. cbn [app] in *.
  destruct (N.eqb_spec b 47) as [Eb|_]; [contradiction|]. exact E.
Qed.

(* ------------------------------------------------------------------ *)
(* facts about well-formed names *)

Lemma name_ok_good c : name_ok c -> good_name c. Proof. intros [H _]. exact H. Qed.
Lemma name_ok_slashfree c : name_ok c -> Forall (fun b => b <> 47) c. Proof. intros [(_ & H & _) _]. exact H. Qed.
Lemma name_ok_pos c : name_ok c -> all_pos c.
Proof. intros [_ H]. eapply Forall_impl; [|exact H]. intros b (Hb & _). exact Hb. Qed.
Lemma name_ok_255 c : name_ok c -> Forall (fun b => b <> 255) c.
Proof. intros [_ H]. eapply Forall_impl; [|exact H]. intros b (_ & Hb & _). lia. Qed.
Lemma name_ok_124 c : name_ok c -> Forall (fun b => b <> 124) c.
Proof. intros [_ H]. eapply Forall_impl; [|exact H]. intros b (_ & _ & Hb). exact Hb. Qed.
Lemma name_ok_lt256 c : name_ok c -> Forall lt256 c.
Proof. intros [_ H]. eapply Forall_impl; [|exact H]. intros b (_ & Hb & _). unfold lt256. lia. Qed.
Lemma names_good dl : Forall name_ok dl -> Forall good_name dl.
Proof. intros H. eapply Forall_impl; [|exact H]. exact name_ok_good. Qed.

Lemma dirstr_Q (Q : N -> Prop) dl : Q 47 -> (forall c, name_ok c -> Forall Q c) -> Forall name_ok dl -> Forall Q (dirstr dl).
Proof. intros H47 HQ H. apply Forall_dirstr; [exact H47|]. eapply Forall_impl; [|exact H]. exact HQ. Qed.

Lemma dirstr_end dl : dirstr dl = [] \/ last (dirstr dl) 0 = 47.
Proof. destruct dl as [|d ds]; [left; reflexivity|right; apply dirstr_last; discriminate]. Qed.

Lemma nlen_dirstr_le a c : nlen (dirstr a) <= nlen (dirstr a ++ c).
Proof. rewrite nlen_app. lia. Qed.

(* ------------------------------------------------------------------ *)
(* the stages after norm_decoded *)

Section Stages.
  Variable mktime : N -> N -> N -> N -> Z -> N -> N.

  Lemma stage_amiga f fn p tgt m : norm_amiga (mk_header f fn p tgt m) = mk_header f fn p tgt m.
  Proof. reflexivity. Qed.

  Lemma stage_rest f fn dl tgt m : f_level f = 2 -> Forall good_name dl ->
    norm_lhark (norm_os9 (norm_collapse (norm_case (mk_header f fn (opt_of (dirstr dl)) tgt m)))) =
    mk_header f fn (opt_of (dirstr dl)) tgt m.
  Proof.
    intros Hl Hg.
    assert (E1 : norm_case (mk_header f fn (opt_of (dirstr dl)) tgt m) = mk_header f fn (opt_of (dirstr dl)) tgt m) by reflexivity.
    rewrite E1.
    assert (E2 : norm_collapse (mk_header f fn (opt_of (dirstr dl)) tgt m) = mk_header f fn (opt_of (dirstr dl)) tgt m).
    { unfold norm_collapse. cbn [h_path mk_header].
      assert (E : option_map collapse (opt_of (dirstr dl)) = opt_of (dirstr dl)).
      { pose proof (collapse_dirstr dl Hg) as Ec. destruct (dirstr dl) as [|x l]; [reflexivity|]. cbn [opt_of option_map]. rewrite Ec. reflexivity. }
      rewrite E. reflexivity. }
    rewrite E2.
    assert (E3 : norm_os9 (mk_header f fn (opt_of (dirstr dl)) tgt m) = mk_header f fn (opt_of (dirstr dl)) tgt m) by reflexivity.
    rewrite E3. unfold norm_lhark. cbn [h_level mk_header]. reflexivity.
  Qed.

  (* ---- regular files ---- *)
  Theorem wf_file_fields dl c m t bs : Forall name_ok dl -> name_ok c -> nlen (dirstr dl ++ c) <= 4095 ->
    m < 4096 -> t < 4294967296 -> nlen bs < 4294967296 -> Forall (fun b => b < 256) bs ->
    wf_fields (file_fields dl c m t bs) = true.
  Proof.
    intros Hdl Hc Hlen Hm Ht Hbs Hb. unfold file_fields. apply wf_mk_fields; try assumption; try reflexivity.
    - apply crc_bitwise_range. exact Hb.
    - apply name_ok_lt256. exact Hc.
    - apply dirstr_Q; [unfold lt256; lia|exact name_ok_lt256|exact Hdl].
    - rewrite nlen_app in Hlen. lia.
    - unfold S_IFREG. lia.
  Qed.

  Theorem norm_file dl c m t bs : Forall name_ok dl -> name_ok c -> m < 4096 ->
    normalise mktime (file_fields dl c m t bs) = Some (file_header dl c m t bs).
  Proof.
    intros Hdl Hc Hm. unfold normalise, file_fields.
    rewrite norm_decoded_mk.
    - rewrite stage_amiga.
      assert (Ek : norm_kind (mk_header (mk_fields lh0 (nlen bs) (crc_bitwise 0 bs) t c (dirstr dl) (S_IFREG + m))
                                        (opt_of c) (opt_of (dirstr dl)) None (S_IFREG + m)) =
                   Some (mk_header (mk_fields lh0 (nlen bs) (crc_bitwise 0 bs) t c (dirstr dl) (S_IFREG + m))
                                   (Some c) (opt_of (dirstr dl)) None (S_IFREG + m))).
      { destruct c as [|x c]; [destruct Hc as [(Hne & _) _]; contradiction Hne; reflexivity|]. reflexivity. }
      rewrite Ek, stage_rest; [reflexivity|reflexivity|apply names_good; exact Hdl].
    - unfold S_IFREG. lia.
    - apply name_ok_pos. exact Hc.
    - apply name_ok_slashfree. exact Hc.
    - apply dirstr_end.
    - apply dirstr_Q; [lia|exact name_ok_pos|exact Hdl].
    - apply dirstr_Q; [lia|exact name_ok_255|exact Hdl].
  Qed.

  (* ---- directories ---- *)
  Theorem wf_dir_fields dl c m t : Forall name_ok dl -> name_ok c -> nlen (dirstr (dl ++ [c])) <= 4095 ->
    m < 4096 -> t < 4294967296 -> wf_fields (dir_fields dl c m t) = true.
  Proof.
    intros Hdl Hc Hlen Hm Ht. unfold dir_fields. apply wf_mk_fields; try assumption; try reflexivity; try lia.
    - constructor.
    - apply dirstr_Q; [unfold lt256; lia|exact name_ok_lt256|]. apply Forall_app. split; [exact Hdl|constructor; [exact Hc|constructor]].
    - rewrite nlen_nil. lia.
    - unfold S_IFDIR. lia.
  Qed.

  Theorem norm_dir dl c m t : Forall name_ok dl -> name_ok c -> m < 4096 ->
    normalise mktime (dir_fields dl c m t) = Some (dir_header dl c m t).
  Proof.
    intros Hdl Hc Hm. unfold normalise, dir_fields.
    assert (Hdl' : Forall name_ok (dl ++ [c])) by (apply Forall_app; split; [exact Hdl|constructor; [exact Hc|constructor]]).
    assert (Hne : dirstr (dl ++ [c]) <> []) by (apply dirstr_nonnil'; destruct dl; discriminate).
    rewrite norm_decoded_mk.
    - rewrite stage_amiga.
      assert (Ek : norm_kind (mk_header (mk_fields lhd 0 0 t [] (dirstr (dl ++ [c])) (S_IFDIR + m))
                                        (opt_of []) (opt_of (dirstr (dl ++ [c]))) None (S_IFDIR + m)) =
                   Some (mk_header (mk_fields lhd 0 0 t [] (dirstr (dl ++ [c])) (S_IFDIR + m))
                                   None (opt_of (dirstr (dl ++ [c]))) None (S_IFDIR + m))).
      { unfold norm_kind. cbn [h_method mk_header mk_fields f_method h_unix_perms h_path h_filename].
        rewrite (mode_dir_type m Hm).
        destruct (dirstr (dl ++ [c])) as [|x l]; [contradiction Hne; reflexivity|]. reflexivity. }
      rewrite Ek, stage_rest; [|reflexivity|apply names_good; exact Hdl'].
      assert (Eo : opt_of (dirstr (dl ++ [c])) = Some (dirstr (dl ++ [c]))).
      { destruct (dirstr (dl ++ [c])) as [|x l]; [contradiction Hne; reflexivity|]. reflexivity. }
      rewrite Eo. reflexivity.
    - unfold S_IFDIR. lia.
    - constructor.
    - constructor.
    - apply dirstr_end.
    - apply dirstr_Q; [lia|exact name_ok_pos|exact Hdl'].
    - apply dirstr_Q; [lia|exact name_ok_255|exact Hdl'].
  Qed.
End Stages.

(* ------------------------------------------------------------------ *)
(* symbolic links *)

Lemma split_name_props (Q : N -> Prop) s0 : Q 47 -> Forall Q s0 ->
  opt_str (fst (S_Header.split_name s0)) ++ snd (S_Header.split_name s0) = s0 /\
  slashfree (snd (S_Header.split_name s0)) /\ Forall Q (snd (S_Header.split_name s0)) /\
  Forall Q (opt_str (fst (S_Header.split_name s0))) /\
  (opt_str (fst (S_Header.split_name s0)) = [] \/ last (opt_str (fst (S_Header.split_name s0))) 0 = 47).
Proof.
  intros H47 HQ. destruct (slash_decomp s0) as [Hsf|(pre & post & E & Hsf)].
  - rewrite (split_name_none s0 Hsf). cbn [fst snd opt_str app]. repeat split; auto.
  - subst s0. rewrite (split_name_some pre post Hsf). cbn [fst snd opt_str].
    apply Forall_app in HQ. destruct HQ as [Hpre Hpost]. inversion Hpost as [|x l _ Hpost']; subst.
    split; [rewrite <- app_assoc; reflexivity|]. split; [exact Hsf|]. split; [exact Hpost'|].
    split; [apply Forall_app; split; [exact Hpre|constructor; [exact H47|constructor]]|].
    right. apply last_app_single.
Qed.

Lemma split_name_dir dl c : Forall good_name dl -> slashfree c ->
  S_Header.split_name (dirstr dl ++ c) = (opt_of (dirstr dl), c).
Proof.
  intros Hg Hc. destruct dl as [|d0 ds0] eqn:Edl; [cbn [dirstr map concat app opt_of]; apply split_name_none; exact Hc|].
  rewrite <- Edl in *. assert (Hne : dl <> []) by (rewrite Edl; discriminate).
  destruct (exists_last Hne) as (ds & d & E). rewrite E.
  rewrite dirstr_snoc.
  replace ((dirstr ds ++ d ++ [47]) ++ c) with ((dirstr ds ++ d) ++ 47 :: c) by (rewrite <- !app_assoc; reflexivity).
  rewrite (split_name_some _ c Hc). f_equal.
  rewrite <- app_assoc. destruct (dirstr ds ++ d ++ [47]) as [|x l] eqn:El; [|reflexivity].
  destruct (dirstr ds); [destruct d|]; discriminate.
Qed.

Definition lbyte (b : N) : Prop := 0 < b /\ b < 255.

Lemma link_full_bytes dl c tgt : Forall name_ok dl -> name_ok c -> Forall tgt_byte tgt ->
  Forall lbyte (link_full dl c tgt).
Proof.
  intros Hdl Hc Ht. unfold link_full.
  assert (Hn : forall x, name_ok x -> Forall lbyte x).
  { intros x [_ H]. eapply Forall_impl; [|exact H]. intros b (H1 & H2 & _). split; assumption. }
  apply Forall_app. split; [apply dirstr_Q; [split; lia|exact Hn|exact Hdl]|].
  apply Forall_app. split; [apply Hn; exact Hc|]. constructor; [split; lia|exact Ht].
Qed.

Section Links.
  Variable mktime : N -> N -> N -> N -> Z -> N -> N.

  Theorem wf_link_fields dl c t tgt : Forall name_ok dl -> name_ok c -> nlen (dirstr dl ++ c) <= 4095 ->
    t < 4294967296 -> nlen tgt <= 4095 -> Forall tgt_byte tgt ->
    wf_fields (link_fields dl c t tgt) = true.
  Proof.
    intros Hdl Hc Hlen Ht Htl Htb. unfold link_fields. cbv zeta.
    destruct (split_name_props lbyte (link_full dl c tgt)) as (Ej & Hsf & Hfn & Hp & _);
      [split; lia|apply link_full_bytes; assumption|].
    apply wf_mk_fields; try assumption; try reflexivity; try lia.
    - eapply Forall_impl; [|exact Hfn]. intros b (_ & H). unfold lt256. lia.
    - eapply Forall_impl; [|exact Hp]. intros b (_ & H). unfold lt256. lia.
    - assert (E : nlen (link_full dl c tgt) = nlen (dirstr dl ++ c) + 1 + nlen tgt).
      { unfold link_full. rewrite app_assoc, nlen_app, nlen_cons. lia. }
      rewrite <- Ej, nlen_app in E. lia.
  Qed.

  Theorem norm_link dl c t tgt : Forall name_ok dl -> name_ok c -> Forall tgt_byte tgt ->
    normalise mktime (link_fields dl c t tgt) = Some (link_header dl c t tgt).
  Proof.
    intros Hdl Hc Htb. unfold normalise, link_header, link_fields. cbv zeta.
    destruct (split_name_props lbyte (link_full dl c tgt)) as (Ej & Hsf & Hfn & Hp & Hend);
      [split; lia|apply link_full_bytes; assumption|].
    set (fn := snd (S_Header.split_name (link_full dl c tgt))) in *.
    set (p := opt_str (fst (S_Header.split_name (link_full dl c tgt)))) in *.
    rewrite norm_decoded_mk.
    - rewrite stage_amiga.
      set (f := mk_fields lhd 0 0 t fn p LINK_MODE).
      assert (Ek : norm_kind (mk_header f (opt_of fn) (opt_of p) None LINK_MODE) =
                   Some (mk_header f (Some c) (opt_of (dirstr dl)) (Some tgt) LINK_MODE)).
      { set (h := mk_header f (opt_of fn) (opt_of p) None LINK_MODE).
        assert (E1 : bytes_eqb (cstr (h_method h)) lhd = true) by reflexivity.
        assert (E2 : has_flag h F_PERMS = true) by reflexivity.
        assert (E3 : (N.land (h_unix_perms h) 61440 =? 40960) = true) by reflexivity.
        assert (E5 : opt_str (h_path h) ++ opt_str (h_filename h) = link_full dl c tgt).
        { cbn [h h_path h_filename mk_header]. rewrite !opt_str_opt_of. exact Ej. }
        assert (E4 : is_some (h_path h) || is_some (h_filename h) = true).
        { cbn [h h_path h_filename mk_header].
          destruct p as [|x p']; [|reflexivity]. destruct fn as [|y fn']; [|reflexivity].
          cbn [app] in Ej. unfold link_full in Ej. destruct (dirstr dl); [destruct c|]; discriminate. }
        unfold norm_kind. rewrite E1, E2, E3, E4, E5. cbn [negb andb].
        unfold link_full. rewrite app_assoc.
        rewrite first_index_app.
        2:{ apply Forall_app. split; [apply dirstr_Q; [discriminate|exact name_ok_124|exact Hdl]|apply name_ok_124; exact Hc]. }
        rewrite N.add_0_l, firstn_N_app_exact'.
        rewrite (split_name_dir dl c); [|apply names_good; exact Hdl|apply name_ok_slashfree; exact Hc].
        replace (skipn_N (nlen (dirstr dl ++ c) + 1) ((dirstr dl ++ c) ++ 124 :: tgt)) with tgt; [reflexivity|].
        replace ((dirstr dl ++ c) ++ 124 :: tgt) with (((dirstr dl ++ c) ++ [124]) ++ tgt) by (rewrite <- app_assoc; reflexivity).
        replace (nlen (dirstr dl ++ c) + 1) with (nlen ((dirstr dl ++ c) ++ [124])) by (rewrite (nlen_app _ [124]), nlen_cons, nlen_nil; lia).
        rewrite P_Header.skipn_N_app_exact. reflexivity. }
      rewrite Ek, stage_rest; [reflexivity|reflexivity|apply names_good; exact Hdl].
    - reflexivity.
    - eapply Forall_impl; [|exact Hfn]. intros b (H & _). exact H.
    - exact Hsf.
    - exact Hend.
    - eapply Forall_impl; [|exact Hp]. intros b (H & _). exact H.
    - eapply Forall_impl; [|exact Hp]. intros b (_ & H). lia.
  Qed.
End Links.

(* placeholder until the theorems are in place *)
From Lhasa Require Import Base S_Larc.
Example lzs_expand_example : lzs_expand [ALit 65; ACopy 2031 3] = [65; 65; 65; 65]%N.
Proof. vm_compute. reflexivity. Qed.

(* Properties_C03.v -- C03: LArc -lzs-/-lz5- and the stored methods decode every
   valid stream exactly.  Statements only; proofs in P_Null.v, P_Lz5.v, P_Lzs.v.
   Specification (commands, ring machine, serialisers): S_Larc.v. *)
From Lhasa Require Import Base ListN DecBase Generated Null Lzs Lz5 Decoder S_Larc
  P_Decoder P_Null P_Lz5 P_BitReader P_Lzs.
Local Open Scope N_scope.

(* Stored methods (-lh0-, -lz4-, -pm0-): the compressed bytes come out unchanged
   up to the declared length, whatever the read schedule (the 1024-byte blocking
   of the decoder is invisible). *)
Theorem stored_identity : forall data L ks os d',
  sum_N ks < 2 ^ 62 -> L <= sum_N ks -> L <= nlen data ->
  run_reads (null_read src_cb) null_max_read null_block_size
    (lha_decoder_new tt {| src_data := data; src_chunks := [] |} L) ks = Ok (os, d') ->
  concat os = firstn_N L data.
Proof. exact P_Null.stored_identity. Qed.

(* ... and when fewer bytes are present than declared, exactly the bytes present
   are delivered and the decoder reports the end. *)
Theorem stored_identity_short : forall data L ks os d',
  sum_N ks < 2 ^ 62 -> L <= sum_N ks -> nlen data < L ->
  run_reads (null_read src_cb) null_max_read null_block_size
    (lha_decoder_new tt {| src_data := data; src_chunks := [] |} L) ks = Ok (os, d') ->
  concat os = data /\ d_failed d' = true.
Proof. exact P_Null.stored_identity_short. Qed.

(* -lz5-: for every list of well-formed commands (literal | copy of 3..18 bytes from
   ANY absolute ring position, never-written and self-overlapping included), any
   values of the unused flag bits of the last run, any trailing bytes and any read
   schedule, decoding the serialised stream yields what the commands denote on the
   4 KiB ring that starts with the LArc fill pattern at position 4096-18. *)
Theorem lz5_roundtrip : forall junk cmds pad tail s0 ks os d',
  forallb lz5_wf_cmd cmds = true -> lz5_init = Ok s0 ->
  nlen (lz5_expand cmds) <= sum_N ks -> sum_N ks < 2 ^ 62 ->
  run_reads (lz5_read src_cb junk) lz5_max_read lz5_block_size
    (lha_decoder_new s0 {| src_data := lz5_serialise cmds pad ++ tail; src_chunks := [] |}
                     (nlen (lz5_expand cmds))) ks = Ok (os, d') ->
  concat os = lz5_expand cmds.
Proof. exact P_Lz5.lz5_roundtrip. Qed.

(* the ring the C fills with its five loops is the closed-form LArc pattern *)
Theorem lz5_initial_ring : forall s0, lz5_init = Ok s0 ->
  forall p, p < 4096 -> aget (lz5_ring s0) p = lz5_fill_at p.
Proof. exact P_Lz5.lz5_initial_ring. Qed.

(* -lzs-: the same for the 2 KiB ring of spaces written from position 2048-17,
   copies of 2..17 bytes.  (Trailing bytes must be bytes: the model's input type
   would otherwise allow values above 255, which no uint8_t can hold.) *)
Theorem lzs_roundtrip : forall cmds tail s0 ks os d',
  forallb lzs_wf_cmd cmds = true -> Forall (fun b => b < 256) tail -> lzs_init = Ok s0 ->
  let src := {| src_data := lzs_serialise cmds ++ tail; src_chunks := [] |} in
  let L := nlen (lzs_expand cmds) in
  L <= sum_N ks -> sum_N ks < 2 ^ 62 ->
  run_reads (lzs_read src_cb) lzs_max_read lzs_block_size (lha_decoder_new s0 src L) ks = Ok (os, d') ->
  concat os = lzs_expand cmds.
Proof. exact P_Lzs.lzs_roundtrip. Qed.

(* non-vacuity: concrete well-formed command lists and their denotation *)
Example lzs_expand_example : lzs_expand [ALit 65; ACopy 2031 3] = [65; 65; 65; 65]%N /\
  forallb lzs_wf_cmd [ALit 65; ACopy 2031 3] = true.
Proof. split; vm_compute; reflexivity. Qed.
Example lz5_expand_example : lz5_expand [ACopy 0 3; ALit 7; ACopy 4078 4] = [0; 0; 0; 7; 0; 0; 0; 7]%N /\
  forallb lz5_wf_cmd [ACopy 0 3; ALit 7; ACopy 4078 4] = true.
Proof. split; vm_compute; reflexivity. Qed.

Print Assumptions stored_identity.
Print Assumptions stored_identity_short.
Print Assumptions lz5_roundtrip.
Print Assumptions lz5_initial_ring.
Print Assumptions lzs_roundtrip.

(* Lz5.v -- model of lib/lz5_decoder.c *)
From Lhasa Require Import Base DecBase Generated.
Local Open Scope N_scope.

Record lz5_state := { lz5_ring : arr; lz5_pos : N }.

(* fill_initial: the bytes written through p++, in order *)
Definition lz5_fill_bytes : list N :=
  flat_map (fun i => repeat (N.of_nat i) 13) (seq 0 256)
  ++ map N.of_nat (seq 0 256)
  ++ map (fun i => 255 - N.of_nat i) (seq 0 256)
  ++ repeat 0 128 ++ repeat 32 110 ++ repeat 0 18.

Section Lz5.
  Context {cbs : Type}.
  Variable cb : callback cbs.
  (* Value of bytes of a local buffer that the callback did not write.  Since the
     fix "a copy command needs both of its bytes" no such byte is read any more;
     the parameter is kept so that the interfaces built on it stay unchanged. *)
  Variable junk : N.

  Definition lz5_init : outcome lz5_state :=
    (* p walks over ringbuf; writing past the extent would be a fault *)
    if nlen lz5_fill_bytes <=? lz5_ringbuf_extent then
      Ok {| lz5_ring := aset_list (mk_arr lz5_ringbuf_extent 0) 0 lz5_fill_bytes;
            lz5_pos := lz5_RING_BUFFER_SIZE - lz5_START_OFFSET |}
    else Fault 401.

  Definition lz5_output_byte (s : lz5_state) (o : obuf) (b : N) : outcome (lz5_state * obuf) :=
    o' <- ob_push 402 lz5_max_read o b ;;
    ring' <- wr 403 (lz5_ring s) (lz5_pos s) b ;;
    Ok ({| lz5_ring := ring'; lz5_pos := (lz5_pos s + 1) mod lz5_RING_BUFFER_SIZE |}, o').

  Fixpoint lz5_output_block (n : nat) (s : lz5_state) (o : obuf) (start i : N) : outcome (lz5_state * obuf) :=
    match n with
    | O => Ok (s, o)
    | S k =>
      b <- rd 404 (lz5_ring s) ((start + i) mod lz5_RING_BUFFER_SIZE) ;;
      '(s', o') <- lz5_output_byte s o b ;;
      lz5_output_block k s' o' start (i + 1)
    end.

  (* for (bit = 0; bit < 8; ++bit): structural on the number of bits left *)
  Fixpoint lz5_run (n : nat) (bit : N) (bitmap : N) (s : lz5_state) (o : obuf) (c : cbs)
    : outcome (lz5_state * obuf * cbs) :=
    match n with
    | O => Ok (s, o, c)
    | S k =>
      if N.testbit bitmap bit then
        let '(bs, c') := cb c 1 in
        match bs with
        | [] => Ok (s, o, c')
        | b :: _ =>
          '(s', o') <- lz5_output_byte s o b ;;
          lz5_run k (bit + 1) bitmap s' o' c'
        end
      else
        let '(bs, c') := cb c 2 in
        match bs with
        | [] => Ok (s, o, c')
        | [_] => let _unused := junk in Ok (s, o, c')   (* callback(cmd, 2) < 2: break *)
        | c0 :: c1 :: _ =>
          let seqstart := N.lor (N.shiftl (N.land c1 240) 4) c0 in
          let seqlen := N.land c1 15 + lz5_THRESHOLD in
          '(s', o') <- lz5_output_block (N.to_nat seqlen) s o seqstart 0 ;;
          lz5_run k (bit + 1) bitmap s' o' c'
        end
    end.

  Definition lz5_read (s : lz5_state) (c : cbs) : outcome (list N * lz5_state * cbs) :=
    let '(bs, c1) := cb c 1 in
    match bs with
    | [] => Ok ([], s, c1)
    | bitmap :: _ =>
      '(s', o, c2) <- lz5_run 8 0 bitmap s ob_empty c1 ;;
      Ok (ob_bytes o, s', c2)
    end.
End Lz5.

(* P_MembersAllEx.v -- the theorems of P_MembersAll.v on a two-member archive.

     ex_members            the member list of archive_of ex_ds (a file a.txt and a file b.bin),
                           evaluated: two headers, with these names and lengths
     ex_members_described  ... and it is headers_of ex_ds, by evaluation -- what
                           stream_headers_of_archive_of says for every covered description
     ex_members_by_theorem the same by the theorem (ex_wf: the description is covered)
     ex_junk_members       arbitrary bytes: the same archive followed by bytes that are no header
                           (end mark included; a source of another kind) has the same two members
     ex_junk_intact, ex_junk_names_ok, ex_junk_count
                           the corollaries applied to those bytes; the count: 2 members, 22 * 2
                           <= the number of bytes
     ex_rejected_tail      non-vacuity of "every member is intact": a third header that declares less
                           than the 26 bytes of a level-2 header is no member
   Examples only. *)
From Lhasa Require Import Base ListN Generated InputStream Header BasicReader Fs P_HeaderSafe P_Intact P_Path
  P_CliMembers P_CliRetBytes S_Capstone S_CapAny P_MembersAll.
From Coq Require Import ZifyBool ZifyN ZifyNat.
Local Open Scope N_scope.

Definition n_a : name := [97; 46; 116; 120; 116].                      (* a.txt *)
Definition n_b : name := [98; 46; 98; 105; 110].                       (* b.bin *)
Definition hello : list N := [104; 101; 108; 108; 111; 32; 119; 111; 114; 108; 100; 10].

Definition ex_ds : list desc := [DFile n_a 420 1000000000 hello; DFile n_b 384 1000000001 [0; 1; 255]].

Definition ex_stream (k : skind) (A : list N) : istream := lha_input_stream_new (mk_source k A).

Example ex_members :
  map (fun h => (h_path h, h_filename h, h_length h)) (stream_headers mktime_utc (ex_stream KFile (archive_of ex_ds))) =
    [(None, Some n_a, 12); (None, Some n_b, 3)].
Proof. vm_compute. reflexivity. Qed.

Example ex_members_described : stream_headers mktime_utc (ex_stream KFile (archive_of ex_ds)) = headers_of ex_ds.
Proof. vm_compute. reflexivity. Qed.

Ltac name_ok_tac :=
  split; [split; [discriminate|split; [repeat constructor; discriminate|repeat split; vm_compute; reflexivity]]
         |repeat constructor; unfold name_byte; lia].

Example ex_wf : wf_descs false ex_ds.
Proof.
  split; [|repeat constructor; cbn; intuition discriminate].
  constructor; [|constructor; [|constructor]]; cbn [wf_desc].
  - split; [name_ok_tac|]. split; [vm_compute; discriminate|]. split; [lia|]. split; [lia|].
    split; [vm_compute; reflexivity|]. split; [repeat constructor; lia|]. right. vm_compute. reflexivity.
  - split; [name_ok_tac|]. split; [vm_compute; discriminate|]. split; [lia|]. split; [lia|].
    split; [vm_compute; reflexivity|]. split; [repeat constructor; lia|]. right. vm_compute. reflexivity.
Qed.

(* by the theorem: any mktime, any kind of source *)
Example ex_members_by_theorem mktime k : stream_headers mktime (ex_stream k (archive_of ex_ds)) = headers_of ex_ds.
Proof. apply (stream_headers_of_archive_of mktime k false); [exact ex_wf|vm_compute; reflexivity]. Qed.

(* ---- arbitrary bytes: the archive followed by bytes that are no header ---- *)
Definition ex_junk : list N := archive_of ex_ds ++ [7; 7; 7; 200; 1; 2].

Example ex_junk_members :
  map h_filename (stream_headers mktime_utc (ex_stream KPipe ex_junk)) = [Some n_a; Some n_b].
Proof. vm_compute. reflexivity. Qed.

Example ex_junk_intact : Forall intact (stream_headers mktime_utc (ex_stream KPipe ex_junk)).
Proof. apply stream_headers_intact. Qed.

Example ex_junk_names_ok :
  Forall (fun h => (forall n, h_filename h = Some n -> P_Path.name_ok n) /\ (forall p, h_path h = Some p -> P_Path.path_ok p))
         (stream_headers mktime_utc (ex_stream KPipe ex_junk)).
Proof. apply stream_headers_names_ok. Qed.

Example ex_junk_bytes : P_CliRetBytes.bytes_ok ex_junk.
Proof. apply Forall_forall. intros b Hin. vm_compute in Hin. intuition (subst; reflexivity). Qed.

Example ex_junk_count :
  N.of_nat (length (stream_headers mktime_utc (ex_stream KPipe ex_junk))) = 2 /\ nlen ex_junk / 22 = 4.
Proof. vm_compute. split; reflexivity. Qed.

Example ex_junk_count_by_theorem mktime k :
  N.of_nat (length (stream_headers mktime (ex_stream k ex_junk))) <= 4.
Proof.
  change 4 with (nlen ex_junk / 22). apply stream_headers_count_src; [exact ex_junk_bytes|vm_compute; reflexivity].
Qed.

(* ---- a damaged third header is no member ---- *)
Definition bump (l : list N) : list N := match l with _ :: r => 20 :: r | [] => [] end.   (* declared header length 20 *)
Definition ex_third : list N := archive_of [DFile n_b 384 1000000001 [9]].
Definition ex_head : list N := removelast (archive_of ex_ds).      (* without the end mark *)

Example ex_good_tail :
  map h_filename (stream_headers mktime_utc (ex_stream KFile (ex_head ++ ex_third))) = [Some n_a; Some n_b; Some n_b].
Proof. vm_compute. reflexivity. Qed.

Example ex_rejected_tail :
  map h_filename (stream_headers mktime_utc (ex_stream KFile (ex_head ++ bump ex_third))) = [Some n_a; Some n_b].
Proof. vm_compute. reflexivity. Qed.

Print Assumptions ex_members.
Print Assumptions ex_members_described.
Print Assumptions ex_members_by_theorem.
Print Assumptions ex_junk_members.
Print Assumptions ex_junk_intact.
Print Assumptions ex_junk_names_ok.
Print Assumptions ex_junk_count.
Print Assumptions ex_junk_count_by_theorem.
Print Assumptions ex_good_tail.
Print Assumptions ex_rejected_tail.

(* P_CapCli.v -- the whole tool: "lha x /arc/a.lzh" in the test filesystem
   (CliMain.cli_fs_init: the archive file /arc/a.lzh holds the bytes, the
   working directory /root is empty, owned, 0755, umask 022) exits with status 0
   and leaves exactly the described tree in the working directory. *)
From Lhasa Require Import Base ListN DecBase Loop Generated Crc16 InputStream Header S_Header BasicReader
  AnyDecoder Decoder MacBinary Fs FsRun Reader
  P_ReaderCheck P_ReaderExtract Glob ListOut CliFilter CliExtract CliMain P_FsExtract P_CliExtract P_CliTree
  S_Capstone P_CapHeader P_CapItems P_CapMember P_CapReader P_Capstone.
From Coq Require Import ZifyBool ZifyN ZifyNat.
Local Open Scope N_scope.

Set Default Timeout 300.

Definition argv_x : list (list N) := [[108; 104; 97]; [120]; [47; 97; 114; 99; 47; 97; 46; 108; 122; 104]].   (* lha x /arc/a.lzh *)
Definition arc_path : list N := [47; 97; 114; 99; 47; 97; 46; 108; 122; 104].
Definition x_opts : lha_options :=
  {| o_overwrite_policy := LHA_OVERWRITE_PROMPT; o_quiet := 0; o_verbose := false; o_dry_run := false;
     o_extract_path := None; o_use_path := true |}.

Lemma parse_x : parse_main (tl argv_x) = Some (MODE_EXTRACT, x_opts, arc_path, []).
Proof. vm_compute. reflexivity. Qed.

Definition argv_x_stdin : list (list N) := [[108; 104; 97]; [120]; [45]].                                     (* lha x - *)
Lemma parse_x_stdin : parse_main (tl argv_x_stdin) = Some (MODE_EXTRACT, x_opts, [45], []).
Proof. vm_compute. reflexivity. Qed.

Section Fs0.
  Variables (uid0 : bool) (A : list N) (mt : N).
  Definition fs0 : fs := cli_fs_init uid0 A mt [].

  Lemma open_arc : fs_fopen_rb fs0 arc_path = OpenFile A mt.
  Proof. unfold fs0. destruct uid0; vm_compute; reflexivity. Qed.

  Lemma fs0_cwd : fs_cwd fs0 = [bytes_root].
  Proof. unfold fs0. destruct uid0; vm_compute; reflexivity. Qed.

  Lemma fs0_umask : fs_umask fs0 = 18.
  Proof. unfold fs0. destruct uid0; vm_compute; reflexivity. Qed.

  Lemma fs0_uid0 : fs_uid0 fs0 = uid0.
  Proof. unfold fs0. destruct uid0; vm_compute; reflexivity. Qed.

  Lemma fs0_cwd_node : Fs.node_at (fs_root fs0) (fs_cwd fs0) = Some (Dir true 493 0 []).
  Proof. unfold fs0. destruct uid0; vm_compute; reflexivity. Qed.

  Lemma fs0_ready : dir_ready fs0 [] true 493 0 [].
  Proof.
    split; [constructor|]. split.
    - apply chain_nil. exists true, 493, 0, []. split; [exact fs0_cwd_node|]. rewrite fs0_uid0. destruct uid0; reflexivity.
    - split; [rewrite app_nil_r; exact fs0_cwd_node|]. rewrite fs0_uid0. destruct uid0; reflexivity.
  Qed.

  (* writing the same empty directory over the empty working directory changes nothing *)
  Lemma fs0_update_nil : update_at (fs_root fs0) (fs_cwd fs0) (const_some (Dir true 493 0 [])) = fs_root fs0.
  Proof. unfold fs0. destruct uid0; vm_compute; reflexivity. Qed.
End Fs0.

Section Cli.
  Variable mktime : N -> N -> N -> N -> Z -> N -> N.
  Variable localtime : N -> tm.
  Variable strerror : bool -> list N.

  Theorem cli_run_archive_of uid0 tnow mt ds :
    wf_descs uid0 ds -> N.of_nat (dsizes ds) < 2 ^ 40 ->
    exists r, cli_run mktime localtime strerror uid0 tnow mt argv_x (archive_of ds) [] [] = Ok r /\
      cr_exit r = 0 /\
      fs_root (cr_fs r) =
        update_at (fs_root (fs0 uid0 (archive_of ds) mt)) [bytes_root] (const_some (Dir true 493 0 (trees_of ds))).
  Proof.
    intros Hwf Hsz. unfold cli_run, lha_main. rewrite parse_x.
    fold (fs0 uid0 (archive_of ds) mt). set (s0 := fs0 uid0 (archive_of ds) mt).
    unfold do_command. change (is_dash arc_path) with false. cbv iota.
    change (cs_fs (start_state s0 [] x_opts)) with s0. unfold s0 at 1. rewrite open_arc. cbn [cbind].
    cbv beta iota zeta. cbn [cs_fs cs_opts cs_stdin cs_out cs_err start_state].
    match goal with |- context [extract_archive mktime 0 ?f ?st] =>
      destruct (extract_archive_of mktime 0 f KFile 18 uid0 ds st true 493 0 []) as (st' & Hex & Henv & Hroot) end;
      try assumption; cbn [cs_fs cs_reader cs_opts].
    - reflexivity.
    - split; reflexivity.
    - reflexivity.
    - intros c _. reflexivity.
    - repeat split.
    - apply fs0_umask.
    - apply fs0_uid0.
    - apply fs0_ready.
    - reflexivity.
    - rewrite Hex. cbn [bind]. eexists. split; [reflexivity|]. cbn [cr_exit cr_fs]. split; [reflexivity|].
      rewrite <- (fs0_cwd uid0 (archive_of ds) mt).
      destruct ds as [|d ds'].
      + rewrite Hroot. fold s0. symmetry. apply fs0_update_nil.
      + rewrite Hroot. reflexivity.
  Qed.

  (* the same, read off the filesystem: the working directory is the described tree *)
  Corollary cli_run_archive_of_tree uid0 tnow mt ds :
    wf_descs uid0 ds -> N.of_nat (dsizes ds) < 2 ^ 40 ->
    exists r, cli_run mktime localtime strerror uid0 tnow mt argv_x (archive_of ds) [] [] = Ok r /\
      cr_exit r = 0 /\
      Fs.node_at (fs_root (cr_fs r)) [bytes_root] = Some (Dir true 493 0 (trees_of ds)).
  Proof.
    intros Hwf Hsz. destruct (cli_run_archive_of uid0 tnow mt ds Hwf Hsz) as (r & Hr & He & Hroot).
    exists r. split; [exact Hr|]. split; [exact He|]. rewrite Hroot.
    eapply node_at_update_const_same. rewrite <- (fs0_cwd uid0 (archive_of ds) mt). apply fs0_cwd_node.
  Qed.

  (* the archive arrives on standard input, a pipe: "lha x -" (whatever the file /arc/a.lzh holds) *)
  Theorem cli_run_archive_of_stdin uid0 tnow mt A ds :
    wf_descs uid0 ds -> N.of_nat (dsizes ds) < 2 ^ 40 ->
    exists r, cli_run mktime localtime strerror uid0 tnow mt argv_x_stdin A (archive_of ds) [] = Ok r /\
      cr_exit r = 0 /\
      fs_root (cr_fs r) =
        update_at (fs_root (fs0 uid0 A mt)) [bytes_root] (const_some (Dir true 493 0 (trees_of ds))).
  Proof.
    intros Hwf Hsz. unfold cli_run, lha_main. rewrite parse_x_stdin.
    fold (fs0 uid0 A mt). set (s0 := fs0 uid0 A mt).
    unfold do_command. change (is_dash [45]) with true. cbv iota. cbn [cbind].
    cbv beta iota zeta. cbn [cs_fs cs_opts cs_stdin cs_out cs_err start_state].
    match goal with |- context [extract_archive mktime 0 ?f ?st] =>
      destruct (extract_archive_of mktime 0 f KPipe 18 uid0 ds st true 493 0 []) as (st' & Hex & Henv & Hroot) end;
      try assumption; cbn [cs_fs cs_reader cs_opts].
    - reflexivity.
    - split; reflexivity.
    - reflexivity.
    - intros c _. reflexivity.
    - repeat split.
    - apply fs0_umask.
    - apply fs0_uid0.
    - apply fs0_ready.
    - reflexivity.
    - rewrite Hex. cbn [bind]. eexists. split; [reflexivity|]. cbn [cr_exit cr_fs]. split; [reflexivity|].
      rewrite <- (fs0_cwd uid0 A mt).
      destruct ds as [|d ds'].
      + rewrite Hroot. fold s0. symmetry. apply fs0_update_nil.
      + rewrite Hroot. reflexivity.
  Qed.
End Cli.

Print Assumptions cli_run_archive_of_stdin.
Print Assumptions cli_run_archive_of.
Print Assumptions cli_run_archive_of_tree.

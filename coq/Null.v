(* Null.v -- model of lib/null_decoder.c (-lh0-, -lz4-, -pm0-) *)
From Lhasa Require Import Base DecBase Generated.
Local Open Scope N_scope.

Section Null.
  Context {cbs : Type}.
  Variable cb : callback cbs.

  Definition null_state := unit.
  Definition null_init : outcome null_state := Ok tt.

  (* return decoder->callback(buf, BLOCK_READ_SIZE, ...): the callback writes
     straight into the output buffer of max_read bytes. *)
  Definition null_read (s : null_state) (c : cbs) : outcome (list N * null_state * cbs) :=
    let '(bs, c') := cb c null_BLOCK_READ_SIZE in
    if nlen bs <=? null_max_read then Ok (bs, s, c') else Fault 201.
End Null.

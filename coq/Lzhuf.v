(* Lzhuf.v -- SPECIFICATION side: the adaptive Huffman coder of
   Yoshizaki / Okumura's LZHUF.C (the algorithm -lh1- streams are defined
   by), transliterated function by function, with the encoder direction
   (EncodeChar, EncodePosition) so that streams can be produced.

   This file does not look at lib/lh1_decoder.c at all: freq[], prnt[], son[]
   are LZHUF's arrays (ascending frequency order, root at R = T - 1), the
   position tables p_len / p_code are LZHUF's literal tables.

   Arrays are [arr] with the unchecked aget/aset (this is a specification,
   not a model of memory accesses).  Loops are structural on a fuel that is
   larger than the table size T; all of them are bounded by T. *)
From Lhasa Require Import Base.
Local Open Scope N_scope.

Definition lzhuf_N : N := 4096.                 (* N: window size *)
Definition lzhuf_F : N := 60.                   (* F: lookahead / max match *)
Definition lzhuf_THRESHOLD : N := 2.
Definition N_CHAR : N := 256 - lzhuf_THRESHOLD + lzhuf_F.      (* 314 *)
Definition lzhuf_T : N := N_CHAR * 2 - 1.       (* 627: size of table *)
Definition lzhuf_R : N := lzhuf_T - 1.          (* 626: root position *)
Definition MAX_FREQ : N := 32768.               (* 0x8000 *)

Definition fuelT : nat := N.to_nat 1024.

(* unsigned freq[T + 1]; int prnt[T + N_CHAR]; int son[T]; *)
Record huff := { h_freq : arr; h_prnt : arr; h_son : arr }.

Definition p_len : arr := arr_of_list 0
  [3; 4; 4; 4; 5; 5; 5; 5;
   5; 5; 5; 5; 6; 6; 6; 6;
   6; 6; 6; 6; 6; 6; 6; 6;
   7; 7; 7; 7; 7; 7; 7; 7;
   7; 7; 7; 7; 7; 7; 7; 7;
   7; 7; 7; 7; 7; 7; 7; 7;
   8; 8; 8; 8; 8; 8; 8; 8;
   8; 8; 8; 8; 8; 8; 8; 8].

Definition p_code : arr := arr_of_list 0
  [0; 32; 48; 64; 80; 88; 96; 104;
   112; 120; 128; 136; 144; 148; 152; 156;
   160; 164; 168; 172; 176; 180; 184; 188;
   192; 194; 196; 198; 200; 202; 204; 206;
   208; 210; 212; 214; 216; 218; 220; 222;
   224; 226; 228; 230; 232; 234; 236; 238;
   240; 241; 242; 243; 244; 245; 246; 247;
   248; 249; 250; 251; 252; 253; 254; 255].

(* ------------------------------------------------------------------ *)
(* StartHuff *)

(* for (i = 0; i < N_CHAR; i++) { freq[i] = 1; son[i] = i + T; prnt[i + T] = i; } *)
Fixpoint sh_leaves (n : nat) (h : huff) (i : N) : huff :=
  match n with
  | O => h
  | S k =>
    sh_leaves k {| h_freq := aset (h_freq h) i 1;
                   h_son := aset (h_son h) i (i + lzhuf_T);
                   h_prnt := aset (h_prnt h) (i + lzhuf_T) i |} (i + 1)
  end.

(* i = 0; j = N_CHAR;
   while (j <= R) { freq[j] = freq[i] + freq[i + 1]; son[j] = i;
                    prnt[i] = prnt[i + 1] = j; i += 2; j++; } *)
Fixpoint sh_inner (n : nat) (h : huff) (i j : N) : huff :=
  match n with
  | O => h
  | S k =>
    if j <=? lzhuf_R then
      let f := aget (h_freq h) i + aget (h_freq h) (i + 1) in
      sh_inner k {| h_freq := aset (h_freq h) j f;
                    h_son := aset (h_son h) j i;
                    h_prnt := aset (aset (h_prnt h) (i + 1) j) i j |} (i + 2) (j + 1)
    else h
  end.

Definition StartHuff : huff :=
  let h0 := {| h_freq := mk_arr (lzhuf_T + 1) 0;
               h_prnt := mk_arr (lzhuf_T + N_CHAR) 0;
               h_son := mk_arr lzhuf_T 0 |} in
  let h1 := sh_leaves (N.to_nat N_CHAR) h0 0 in
  let h2 := sh_inner fuelT h1 0 N_CHAR in
  (* freq[T] = 0xffff; prnt[R] = 0; *)
  {| h_freq := aset (h_freq h2) lzhuf_T 65535;
     h_prnt := aset (h_prnt h2) lzhuf_R 0;
     h_son := h_son h2 |}.

(* ------------------------------------------------------------------ *)
(* reconst *)

(* j = 0; for (i = 0; i < T; i++) if (son[i] >= T) { freq[j] = (freq[i] + 1) / 2; son[j] = son[i]; j++; } *)
Fixpoint rc_collect (n : nat) (h : huff) (i j : N) : huff :=
  match n with
  | O => h
  | S k =>
    if lzhuf_T <=? aget (h_son h) i then
      rc_collect k {| h_freq := aset (h_freq h) j ((aget (h_freq h) i + 1) / 2);
                      h_son := aset (h_son h) j (aget (h_son h) i);
                      h_prnt := h_prnt h |} (i + 1) (j + 1)
    else rc_collect k h (i + 1) j
  end.

(* for (k = j - 1; f < freq[k]; k--); k++;   -- returns the final k (after k++).
   The scan cannot pass position 0 in LZHUF (freq[] is ascending and f is at
   least freq[i + 1] with i + 1 < j); the model stops there. *)
Fixpoint rc_find (n : nat) (freq : arr) (f : N) (k1 : N) : N :=
  match n with
  | O => k1
  | S m =>
    if k1 =? 0 then 0
    else if f <? aget freq (k1 - 1) then rc_find m freq f (k1 - 1)
    else k1
  end.

(* memmove(&a[k + 1], &a[k], (j - k) * sizeof a[0]): a[k+1 .. j] = a[k .. j-1],
   done from the top. *)
Fixpoint shift_up (n : nat) (a : arr) (m k : N) : arr :=
  match n with
  | O => a
  | S n' =>
    if k <? m then shift_up n' (aset a m (aget a (m - 1))) (m - 1) k else a
  end.

(* for (i = 0, j = N_CHAR; j < T; i += 2, j++) { ... } *)
Fixpoint rc_build (n : nat) (h : huff) (i j : N) : huff :=
  match n with
  | O => h
  | S n' =>
    if j <? lzhuf_T then
      let f := aget (h_freq h) i + aget (h_freq h) (i + 1) in
      let freq0 := aset (h_freq h) j f in
      let k := rc_find fuelT freq0 f j in
      let freq1 := aset (shift_up fuelT freq0 j k) k f in
      let son1 := aset (shift_up fuelT (h_son h) j k) k i in
      rc_build n' {| h_freq := freq1; h_son := son1; h_prnt := h_prnt h |} (i + 2) (j + 1)
    else h
  end.

(* for (i = 0; i < T; i++) { if ((k = son[i]) >= T) prnt[k] = i; else prnt[k] = prnt[k + 1] = i; } *)
Fixpoint rc_parents (n : nat) (h : huff) (i : N) : huff :=
  match n with
  | O => h
  | S n' =>
    let k := aget (h_son h) i in
    let p := if lzhuf_T <=? k then aset (h_prnt h) k i
             else aset (aset (h_prnt h) (k + 1) i) k i in
    rc_parents n' {| h_freq := h_freq h; h_son := h_son h; h_prnt := p |} (i + 1)
  end.

Definition reconst (h : huff) : huff :=
  let h1 := rc_collect (N.to_nat lzhuf_T) h 0 0 in
  let h2 := rc_build fuelT h1 0 N_CHAR in
  rc_parents (N.to_nat lzhuf_T) h2 0.

(* ------------------------------------------------------------------ *)
(* update *)

(* while (k > freq[++l]);  -- entered with l = c + 1 already tested; returns
   the l at which the loop stops (freq[T] = 0xffff is the sentinel) *)
Fixpoint up_scan (n : nat) (freq : arr) (k l : N) : N :=
  match n with
  | O => l
  | S m =>
    let l' := l + 1 in
    if aget freq l' <? k then up_scan m freq k l' else l'
  end.

(* do { ... } while ((c = prnt[c]) != 0); *)
Fixpoint up_loop (n : nat) (h : huff) (c : N) : huff :=
  match n with
  | O => h
  | S m =>
    (* k = ++freq[c]; *)
    let k := aget (h_freq h) c + 1 in
    let freq1 := aset (h_freq h) c k in
    let l0 := c + 1 in
    (* if (k > freq[l = c + 1]) *)
    let '(h', c') :=
      if aget freq1 l0 <? k then
        let l := up_scan fuelT freq1 k l0 - 1 in          (* while (k > freq[++l]); l--; *)
        let freq2 := aset freq1 c (aget freq1 l) in       (* freq[c] = freq[l]; *)
        let freq3 := aset freq2 l k in                    (* freq[l] = k; *)
        let i := aget (h_son h) c in                      (* i = son[c]; *)
        let p1 := aset (h_prnt h) i l in                  (* prnt[i] = l; *)
        let p2 := if i <? lzhuf_T then aset p1 (i + 1) l else p1 in
        let j := aget (h_son h) l in                      (* j = son[l]; *)
        let s1 := aset (h_son h) l i in                   (* son[l] = i; *)
        let p3 := aset p2 j c in                          (* prnt[j] = c; *)
        let p4 := if j <? lzhuf_T then aset p3 (j + 1) c else p3 in
        let s2 := aset s1 c j in                          (* son[c] = j; *)
        ({| h_freq := freq3; h_prnt := p4; h_son := s2 |}, l)     (* c = l; *)
      else ({| h_freq := freq1; h_prnt := h_prnt h; h_son := h_son h |}, c) in
    let c'' := aget (h_prnt h') c' in
    if c'' =? 0 then h' else up_loop m h' c''
  end.

Definition update (h : huff) (c : N) : huff :=
  let h1 := if aget (h_freq h) lzhuf_R =? MAX_FREQ then reconst h else h in
  up_loop fuelT h1 (aget (h_prnt h1) (c + lzhuf_T)).

(* ------------------------------------------------------------------ *)
(* EncodeChar / EncodePosition.  Output is a list of bits kept NEWEST FIRST
   (the whole stream is reversed once at the end). *)

(* k = prnt[c + T]; do { bit = k & 1; ... } while ((k = prnt[k]) != R);
   LZHUF collects the bits from the leaf upwards into the top of a word and
   Putcode writes the word MSB first, i.e. root-side bit first.  [acc]
   receives the bits leaf first, so it is root first when the walk ends. *)
Fixpoint ec_walk (n : nat) (prnt : arr) (k : N) (acc : list bool) : list bool :=
  match n with
  | O => acc
  | S m =>
    let acc' := N.odd k :: acc in
    let k' := aget prnt k in
    if k' =? lzhuf_R then acc' else ec_walk m prnt k' acc'
  end.

(* the code of c in root-first order (what is written to the stream) *)
Definition char_code (h : huff) (c : N) : list bool :=
  ec_walk fuelT (h_prnt h) (aget (h_prnt h) (c + lzhuf_T)) [].

Definition EncodeChar (h : huff) (out_rev : list bool) (c : N) : huff * list bool :=
  (update h c, rev_append (char_code h c) out_rev).

(* the top [n] bits of the [w]-bit value v, MSB first, pushed on out_rev *)
Fixpoint put_bits (n : nat) (w v : N) (out_rev : list bool) : list bool :=
  match n with
  | O => out_rev
  | S m => put_bits m (w - 1) v (N.testbit v (w - 1) :: out_rev)
  end.

(* i = c >> 6; Putcode(p_len[i], p_code[i] << 8); Putcode(6, (c & 0x3f) << 10); *)
Definition EncodePosition (out_rev : list bool) (c : N) : list bool :=
  let i := N.shiftr c 6 in
  let o1 := put_bits (N.to_nat (aget p_len i)) 8 (aget p_code i) out_rev in
  put_bits 6 6 (N.land c 63) o1.

(* ------------------------------------------------------------------ *)
(* LZ77 command streams *)

Inductive cmd : Type :=
| Lit (b : N)                   (* one byte *)
| Copy (offset len : N).        (* len (3..60) bytes from offset+1 bytes back; offset 0..4095 *)

Fixpoint encode_cmds (l : list cmd) (h : huff) (out_rev : list bool) : list bool :=
  match l with
  | [] => out_rev
  | Lit b :: r =>
    let '(h', o) := EncodeChar h out_rev b in encode_cmds r h' o
  | Copy offset len :: r =>
    (* EncodeChar(255 - THRESHOLD + match_length); EncodePosition(match_position); *)
    let '(h', o) := EncodeChar h out_rev (255 - lzhuf_THRESHOLD + len) in
    encode_cmds r h' (EncodePosition o offset)
  end.

Definition lzhuf_encode (l : list cmd) : list bool :=
  rev_append (encode_cmds l StartHuff []) [].

(* MSB first, the last byte padded with zero bits *)
Fixpoint b2b (l : list bool) (cur cnt : N) (acc : list N) : list N :=
  match l with
  | [] => rev_append (if cnt =? 0 then acc else N.shiftl cur (8 - cnt) :: acc) []
  | b :: r =>
    let cur' := 2 * cur + (if b then 1 else 0) in
    if cnt =? 7 then b2b r 0 0 (cur' :: acc) else b2b r cur' (cnt + 1) acc
  end.
Definition bits_to_bytes (l : list bool) : list N := b2b l 0 0 [].

(* What the command list stands for: a 4096 byte window, initially spaces;
   copies are done byte by byte so that overlapping copies repeat. *)
Fixpoint expand_copy (n : nat) (win : arr) (r src : N) (out_rev : list N) : arr * N * list N :=
  match n with
  | O => (win, r, out_rev)
  | S m =>
    let c := aget win src in
    expand_copy m (aset win r c) (N.land (r + 1) (lzhuf_N - 1)) (N.land (src + 1) (lzhuf_N - 1)) (c :: out_rev)
  end.

Fixpoint expand_cmds (l : list cmd) (win : arr) (r : N) (out_rev : list N) : list N :=
  match l with
  | [] => out_rev
  | Lit b :: rest => expand_cmds rest (aset win r b) (N.land (r + 1) (lzhuf_N - 1)) (b :: out_rev)
  | Copy offset len :: rest =>
    let src := N.land (r + lzhuf_N + lzhuf_N - 1 - N.land offset (lzhuf_N - 1)) (lzhuf_N - 1) in
    let '(win', r', o) := expand_copy (N.to_nat len) win r src out_rev in
    expand_cmds rest win' r' o
  end.

Definition lz77_expand_4k (l : list cmd) : list N :=
  rev_append (expand_cmds l (mk_arr lzhuf_N 32) 0 []) [].

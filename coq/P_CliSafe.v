(* P_CliSafe.v -- C10, read-only commands: the list, test, print commands and
   every dry run (option n) leave the filesystem -- tree, current directory and
   the trace of mutating operations -- exactly as they found it, for ANY archive
   bytes, arguments, standard input and initial filesystem.
   Model: CliMain.v / CliExtract.v / CliFilter.v.  The record field cs_fs of the
   process state is the whole filesystem (fs_root, fs_cwd, fs_trace, ...): the
   statements below say it is the SAME VALUE before and after. *)
From Lhasa Require Import Base Loop Generated InputStream Header BasicReader Fs FsRun Reader Glob ListOut
  CliFilter CliExtract CliMain.
From Coq Require Import Lia.
Local Open Scope N_scope.

(* ------------------------------------------------------------------ *)
(* a loop whose step keeps an invariant ends in a state satisfying it  *)
Lemma loop_inv {S R : Type} (step : S -> outcome (S + R)) (I : S -> Prop) (Q : R -> Prop) :
  (forall s x, I s -> step s = Ok x -> match x with inl s' => I s' | inr r => Q r end) ->
  forall k s r, I s -> loop step k s = Ok r -> Q r.
Proof.
  intros Hs k s r Hi H. apply loop_sound in H. destruct H as (n & Hl & _).
  induction Hl as [s r E|n s s' r E Hl IH].
  - exact (Hs s (inr r) Hi E).
  - apply IH. exact (Hs s (inl s') Hi E).
Qed.

(* the same for the prefix relation [iters] *)
Lemma iters_inv {S R : Type} (step : S -> outcome (S + R)) (I : S -> Prop) :
  (forall s s', I s -> step s = Ok (inl s') -> I s') ->
  forall n s s', I s -> iters step n s s' -> I s'.
Proof.
  intros Hs n s s' Hi H. induction H as [s|n s s' s'' E H IH]; [exact Hi|].
  apply IH. exact (Hs s s' Hi E).
Qed.

(* ------------------------------------------------------------------ *)
(* the state updates that are not filesystem updates                    *)
Lemma fs_set_reader st r : cs_fs (set_reader st r) = cs_fs st. Proof. reflexivity. Qed.
Lemma fs_set_opts st o : cs_fs (set_opts st o) = cs_fs st. Proof. reflexivity. Qed.
Lemma fs_set_stdin st d : cs_fs (set_stdin st d) = cs_fs st. Proof. reflexivity. Qed.
Lemma fs_put_out st b : cs_fs (put_out st b) = cs_fs st. Proof. reflexivity. Qed.
Lemma fs_put_err st b : cs_fs (put_err st b) = cs_fs st. Proof. reflexivity. Qed.
Lemma fs_set_stdin_data st d : cs_fs (set_stdin_data st d) = cs_fs st.
Proof. unfold set_stdin_data. destruct (cs_stdin_shared st); reflexivity. Qed.
Lemma fs_set_fs st f : cs_fs (set_fs st f) = f. Proof. reflexivity. Qed.

Lemma opts_set_reader st r : cs_opts (set_reader st r) = cs_opts st. Proof. reflexivity. Qed.
Lemma opts_put_out st b : cs_opts (put_out st b) = cs_opts st. Proof. reflexivity. Qed.
Lemma opts_put_err st b : cs_opts (put_err st b) = cs_opts st. Proof. reflexivity. Qed.

Ltac fs_norm := rewrite ?fs_put_out, ?fs_put_err, ?fs_set_reader, ?fs_set_opts, ?fs_set_stdin, ?fs_set_stdin_data.

Section CliSafe.
  Variable mktime : N -> N -> N -> N -> Z -> N -> N.
  Variable junk : N.

  Lemma next_header_fs f st h st1 : next_header mktime f st = Ok (h, st1) -> cs_fs st1 = cs_fs st.
  Proof.
    unfold next_header. intros H. apply bind_ok in H. destruct H as ([h' r'] & _ & H).
    cbv beta iota in H. injection H as _ <-. reflexivity.
  Qed.

  Lemma next_header_opts f st h st1 : next_header mktime f st = Ok (h, st1) -> cs_opts st1 = cs_opts st.
  Proof.
    unfold next_header. intros H. apply bind_ok in H. destruct H as ([h' r'] & _ & H).
    cbv beta iota in H. injection H as _ <-. reflexivity.
  Qed.

  (* test_archived_file_crc: lha_reader_check decodes into nothing *)
  Lemma test_archived_file_crc_fs h st v st' :
    test_archived_file_crc junk h st = Ok (v, st') -> cs_fs st' = cs_fs st.
  Proof.
    unfold test_archived_file_crc. destruct (o_dry_run (cs_opts st)).
    - intros H. injection H as _ <-. destruct (negb (is_dir_type h)); reflexivity.
    - intros H. apply bind_ok in H. destruct H as ([[success evs] r'] & _ & H). cbv beta iota in H.
      injection H as _ <-.
      destruct (invoked evs && (o_quiet (cs_opts st) <? 2)); reflexivity.
  Qed.

  Lemma test_archived_file_crc_opts h st v st' :
    test_archived_file_crc junk h st = Ok (v, st') -> cs_opts st' = cs_opts st.
  Proof.
    unfold test_archived_file_crc. destruct (o_dry_run (cs_opts st)).
    - intros H. injection H as _ <-. destruct (negb (is_dir_type h)); reflexivity.
    - intros H. apply bind_ok in H. destruct H as ([[success evs] r'] & _ & H). cbv beta iota in H.
      injection H as _ <-.
      destruct (invoked evs && (o_quiet (cs_opts st) <? 2)); reflexivity.
  Qed.

  (* file_exists: stat only *)
  Lemma file_exists_fs filename st v st' : file_exists filename st = Ok (v, st') -> cs_fs st' = cs_fs st.
  Proof.
    unfold file_exists. destruct (arch_exists (cs_fs st) filename); intros H; injection H as _ <-; reflexivity.
  Qed.

  Lemma file_exists_opts filename st v st' : file_exists filename st = Ok (v, st') -> cs_opts st' = cs_opts st.
  Proof.
    unfold file_exists. destruct (arch_exists (cs_fs st) filename); intros H; injection H as _ <-; reflexivity.
  Qed.

  (* ---- test_file_crc ---- *)
  Lemma test_file_crc_fs f st v st' : test_file_crc mktime junk f st = Ok (v, st') -> cs_fs st' = cs_fs st.
  Proof.
    unfold test_file_crc. intros H.
    apply (loop_inv (test_file_crc_step mktime junk f)
                    (fun s => cs_fs (snd s) = cs_fs st) (fun r => cs_fs (snd r) = cs_fs st)) in H.
    - exact H.
    - clear. intros [result s] x Hi. cbn [snd] in Hi. unfold test_file_crc_step. intros H.
      apply bind_ok in H. destruct H as ([h st1] & Hn & H). cbv beta iota in H.
      apply next_header_fs in Hn.
      destruct h as [hd|].
      + apply bind_ok in H. destruct H as ([r st2] & Ht & H). apply test_archived_file_crc_fs in Ht.
        destruct r as [ok|c]; injection H as <-; cbn [snd]; congruence.
      + injection H as <-. cbn [snd]. congruence.
    - reflexivity.
  Qed.

  (* ---- extract_archive_dry_run ---- *)
  Lemma dry_run_step_fs f result st x :
    dry_run_step mktime f (result, st) = Ok x ->
    match x with inl s' => cs_fs (snd s') = cs_fs st | inr r => cs_fs (snd r) = cs_fs st end.
  Proof.
    unfold dry_run_step. intros H.
    apply bind_ok in H. destruct H as ([h st1] & Hn & H). cbv beta iota in H.
    apply next_header_fs in Hn.
    destruct h as [hd|].
    - apply bind_ok in H. destruct H as ([r st3] & Hr & H).
      assert (E3 : cs_fs st3 = cs_fs st1).
      { destruct (h_symlink_target hd) as [t|].
        - injection Hr as _ <-. reflexivity.
        - destruct (is_dir_type hd).
          + injection Hr as _ <-. reflexivity.
          + unfold cbind in Hr.
            destruct (file_exists (file_full_path hd (cs_opts st1))
                                  (put_out st1 (safe_printf (s_extract ++ file_full_path hd (cs_opts st1))))) as [[[ex|c] sta]| |] eqn:Ef;
              try discriminate; apply file_exists_fs in Ef; injection Hr as _ <-.
            * destruct ex; fs_norm; rewrite Ef; reflexivity.
            * rewrite Ef. reflexivity. }
      destruct r as [u|c]; injection H as <-; cbn [snd]; fs_norm; congruence.
    - injection H as <-. cbn [snd]. congruence.
  Qed.

  Lemma extract_archive_dry_run_fs f st v st' :
    extract_archive_dry_run mktime f st = Ok (v, st') -> cs_fs st' = cs_fs st.
  Proof.
    unfold extract_archive_dry_run. intros H.
    apply (loop_inv (dry_run_step mktime f)
                    (fun s => cs_fs (snd s) = cs_fs st) (fun r => cs_fs (snd r) = cs_fs st)) in H.
    - exact H.
    - clear. intros [result s] x Hi Hx. cbn [snd] in Hi. apply dry_run_step_fs in Hx.
      destruct x as [s'|r]; congruence.
    - reflexivity.
  Qed.

  (* ---- print_archive ---- *)
  Lemma print_archived_file_fs st ok st' : print_archived_file junk st = Ok (ok, st') -> cs_fs st' = cs_fs st.
  Proof.
    unfold print_archived_file. intros H. apply bind_ok in H. destruct H as (s' & Hl & H). injection H as _ <-.
    apply (loop_inv (print_file_step junk) (fun s => cs_fs s = cs_fs st) (fun s => cs_fs s = cs_fs st)) in Hl.
    - exact Hl.
    - clear. intros s x Hi. unfold print_file_step. intros H.
      apply bind_ok in H. destruct H as ([[bytes ev] r'] & _ & H). cbv beta iota in H.
      destruct bytes; injection H as <-; fs_norm; exact Hi.
    - reflexivity.
  Qed.

  Lemma print_archive_step_fs f st x :
    print_archive_step mktime junk f st = Ok x ->
    match x with inl s' => cs_fs s' = cs_fs st | inr r => cs_fs (snd r) = cs_fs st end.
  Proof.
    unfold print_archive_step. intros H.
    apply bind_ok in H. destruct H as ([h st1] & Hn & H). cbv beta iota in H.
    apply next_header_fs in Hn.
    destruct h as [hd|].
    - match type of H with context [if negb (is_dir_type hd) then bind (print_archived_file junk ?s2) _ else _] =>
        assert (E2 : cs_fs s2 = cs_fs st1); [|set (st2 := s2) in *] end.
      { destruct (o_quiet (cs_opts st1) <? 2); [|reflexivity].
        destruct (h_symlink_target hd); [reflexivity|]. destruct (negb (is_dir_type hd)); reflexivity. }
      destruct (negb (is_dir_type hd)).
      + apply bind_ok in H. destruct H as ([ok st3] & Hp & H). cbv beta iota in H.
        apply print_archived_file_fs in Hp.
        destruct (negb ok); injection H as <-; cbn [snd]; congruence.
      + injection H as <-. congruence.
    - injection H as <-. cbn [snd]. congruence.
  Qed.

  Lemma print_archive_fs f st v st' : print_archive mktime junk f st = Ok (v, st') -> cs_fs st' = cs_fs st.
  Proof.
    unfold print_archive. destruct (o_dry_run (cs_opts st)); [apply extract_archive_dry_run_fs|].
    intros H.
    apply (loop_inv (print_archive_step mktime junk f)
                    (fun s => cs_fs s = cs_fs st) (fun r => cs_fs (snd r) = cs_fs st)) in H.
    - exact H.
    - clear. intros s x Hi Hx. apply print_archive_step_fs in Hx. destruct x as [s'|r]; congruence.
    - reflexivity.
  Qed.

  (* extraction with option n *)
  Lemma extract_archive_dry_fs f st v st' :
    o_dry_run (cs_opts st) = true -> extract_archive mktime junk f st = Ok (v, st') -> cs_fs st' = cs_fs st.
  Proof.
    unfold extract_archive. intros ->. apply extract_archive_dry_run_fs.
  Qed.

  Variable localtime : N -> tm.
  Variable now : N.
  Variable stdin_kind : skind.
  Variable strerror : bool -> list N.

  (* the commands that are read-only whatever the options, and extraction with n *)
  Definition read_only_command (mode : program_mode) (o : lha_options) : bool :=
    match mode with
    | MODE_EXTRACT => o_dry_run o
    | _ => true
    end.

  (* do_command: the filesystem of the process after a read-only command is the
     filesystem before it -- same tree, same current directory, same trace *)
  Theorem do_command_read_only mode filename filters st0 v st :
    read_only_command mode (cs_opts st0) = true ->
    do_command mktime junk localtime now stdin_kind strerror mode filename filters st0 = Ok (v, st) ->
    cs_fs st = cs_fs st0.
  Proof.
    intros Hro. unfold do_command.
    match goal with |- cbind ?m _ = _ -> _ => destruct m as [[[[[src mt] shared]|c] sta]| |] eqn:Eo end;
      cbn [cbind]; try discriminate.
    2:{ intros H. injection H as _ <-.
        destruct (is_dash filename); [discriminate|].
        destruct (fs_fopen_rb (cs_fs st0) filename); try discriminate.
        injection Eo as _ <-. reflexivity. }
    assert (Ea : sta = st0).
    { destruct (is_dash filename); [injection Eo as _ _ _ <-; reflexivity|].
      destruct (fs_fopen_rb (cs_fs st0) filename); try discriminate; injection Eo as _ _ _ <-; reflexivity. }
    subst sta. clear Eo.
    destruct mode.
    - intros H. injection H as _ <-. reflexivity.
    - intros H. apply bind_ok in H. destruct H as ([r' hs] & _ & H). cbv beta iota in H.
      apply bind_ok in H. destruct H as (txt & _ & H). injection H as _ <-. reflexivity.
    - intros H. apply bind_ok in H. destruct H as ([r' hs] & _ & H). cbv beta iota in H.
      apply bind_ok in H. destruct H as (txt & _ & H). injection H as _ <-. reflexivity.
    - intros H. apply test_file_crc_fs in H. exact H.
    - intros H. apply extract_archive_dry_fs in H; [exact H|]. exact Hro.
    - intros H. apply print_archive_fs in H. exact H.
  Qed.

  (* the whole program: argv = [progname; command; archive; filters...] *)
  Definition read_only_invocation (argv : list (list N)) : bool :=
    match parse_main (tl argv) with
    | Some (mode, o, _, _) => read_only_command mode o
    | None => true                                   (* the help page *)
    end.

  Theorem lha_main_read_only argv stdin s r :
    read_only_invocation argv = true ->
    lha_main mktime junk localtime now stdin_kind strerror argv stdin s = Ok r ->
    cr_fs r = s.
  Proof.
    unfold read_only_invocation, lha_main. intros Hro H.
    apply bind_ok in H. destruct H as ([v st] & Hc & H). cbv beta iota in H. injection H as <-. cbn [cr_fs].
    destruct (parse_main (tl argv)) as [[[[mode o] file] filters]|].
    - apply do_command_read_only in Hc; [exact Hc|exact Hro].
    - unfold help_page in Hc. injection Hc as _ <-. reflexivity.
  Qed.

  Corollary lha_main_read_only_trace argv stdin s r :
    read_only_invocation argv = true ->
    lha_main mktime junk localtime now stdin_kind strerror argv stdin s = Ok r ->
    fs_trace (cr_fs r) = fs_trace s /\ fs_root (cr_fs r) = fs_root s /\ fs_cwd (cr_fs r) = fs_cwd s.
  Proof. intros A B. rewrite (lha_main_read_only _ _ _ _ A B). repeat split. Qed.
End CliSafe.

(* ------------------------------------------------------------------ *)
(* which command lines are read-only: the command letter, and option n  *)

Lemma parse_options_dry_mono arg : forall o o',
  o_dry_run o = true -> parse_options arg o = Some o' -> o_dry_run o' = true.
Proof.
  induction arg as [arg IH] using (well_founded_induction (Wf_nat.well_founded_ltof _ (@length N))).
  intros o o' Hd. destruct arg as [|c r]; [intros H; injection H as <-; exact Hd|].
  assert (IHr : forall a, (length a <= length r)%nat -> forall o o', o_dry_run o = true ->
                                parse_options a o = Some o' -> o_dry_run o' = true).
  { intros a Hl. apply IH. unfold ltof. cbn [length]. lia. }
  cbn [parse_options].
  destruct (c =? 102); [apply IHr; [lia|exact Hd]|].
  destruct (c =? 105); [apply IHr; [lia|exact Hd]|].
  destruct (c =? 110); [apply IHr; [lia|reflexivity]|].
  destruct (c =? 113).
  { destruct r as [|d r']; [apply IHr; [lia|exact Hd]|].
    destruct ((48 <=? d) && (d <=? 57)); apply IHr; cbn [length]; try lia; exact Hd. }
  destruct (c =? 118); [apply IHr; [lia|exact Hd]|].
  destruct (c =? 119); [|discriminate].
  destruct r as [|d r']; [intros H; injection H as <-; exact Hd|].
  destruct (N.eqb_spec d 61) as [->|Hne].
  - intros H. injection H as <-. exact Hd.
  - intros H.
    assert (E : Some (set_extract_path o (Some (d :: r'))) = Some o').
    { destruct d as [|p]; [exact H|].
      repeat (destruct p as [p|p|]; try exact H). congruence. }
    injection E as <-. exact Hd.
Qed.

(* an n that is not part of the w= argument switches the dry run on *)
Lemma parse_options_n pre : forall rest o o',
  ~ In 119 pre -> parse_options (pre ++ 110 :: rest) o = Some o' -> o_dry_run o' = true.
Proof.
  induction pre as [pre IH] using (well_founded_induction (Wf_nat.well_founded_ltof _ (@length N))).
  intros rest o o' Hw. destruct pre as [|c r].
  - cbn [app parse_options]. change (110 =? 102) with false. change (110 =? 105) with false.
    change (110 =? 110) with true. cbv iota. apply parse_options_dry_mono. reflexivity.
  - assert (IHr : forall a, (length a <= length r)%nat -> ~ In 119 a -> forall o o',
                    parse_options (a ++ 110 :: rest) o = Some o' -> o_dry_run o' = true).
    { intros a Hl Ha o1 o2. apply IH; [unfold ltof; cbn [length]; lia|exact Ha]. }
    assert (Hr : ~ In 119 r) by (intros X; apply Hw; right; exact X).
    assert (Hc : c <> 119) by (intros X; apply Hw; left; exact X).
    cbn [app parse_options].
    destruct (c =? 102); [apply IHr; [lia|exact Hr]|].
    destruct (c =? 105); [apply IHr; [lia|exact Hr]|].
    destruct (c =? 110); [apply IHr; [lia|exact Hr]|].
    destruct (c =? 113).
    { destruct r as [|d r'].
      - cbn [app]. change (((48 <=? 110) && (110 <=? 57))) with false. cbv iota.
        apply (IHr []); [cbn; lia|exact Hr].
      - cbn [app]. destruct ((48 <=? d) && (d <=? 57)).
        + apply (IHr r'); [cbn [length]; lia|]. intros X; apply Hr; right; exact X.
        + apply (IHr (d :: r')); [cbn [length]; lia|exact Hr]. }
    destruct (c =? 118); [apply IHr; [lia|exact Hr]|].
    destruct (N.eqb_spec c 119); [contradiction|discriminate].
Qed.

(* "lha l", "lha v", "lha t", "lha p" with any options, with or without '-' *)
Lemma command_letters_read_only c opts mode o :
  In c [108; 118; 116; 112] ->
  (parse_command_line (c :: opts) = Some (mode, o) -> read_only_command mode o = true) /\
  (parse_command_line (45 :: c :: opts) = Some (mode, o) -> read_only_command mode o = true).
Proof.
  intros Hc. cbn [In] in Hc.
  destruct Hc as [<-|[<-|[<-|[<-|[]]]]]; split; unfold parse_command_line; cbn;
    destruct (parse_options opts init_options); try discriminate; intros H; injection H as <- <-; reflexivity.
Qed.

(* "lha x...n..." / "lha e...n...": extraction with an n before any w= argument *)
Lemma extract_n_read_only c pre rest mode o :
  In c [120; 101] -> ~ In 119 pre ->
  (parse_command_line (c :: pre ++ 110 :: rest) = Some (mode, o) -> read_only_command mode o = true) /\
  (parse_command_line (45 :: c :: pre ++ 110 :: rest) = Some (mode, o) -> read_only_command mode o = true).
Proof.
  intros Hc Hw. cbn [In] in Hc.
  destruct Hc as [<-|[<-|[]]]; split; unfold parse_command_line; cbn;
    destruct (parse_options (pre ++ 110 :: rest) init_options) as [o1|] eqn:E; try discriminate;
    intros H; injection H as <- <-; cbn [read_only_command]; eapply parse_options_n; eauto.
Qed.

(* the test case of the differential test: the trace stays empty, the tree is the initial one *)
Lemma cli_fs_init_trace uid0 archive mtime setup : fs_trace (cli_fs_init uid0 archive mtime setup) = [].
Proof. unfold cli_fs_init. destruct (run_ops setup _) as [x s2]. reflexivity. Qed.

Theorem cli_run_read_only mktime localtime strerror uid0 now mtime argv archive stdin setup r :
  read_only_invocation argv = true ->
  cli_run mktime localtime strerror uid0 now mtime argv archive stdin setup = Ok r ->
  cr_fs r = cli_fs_init uid0 archive mtime setup /\ fs_trace (cr_fs r) = [].
Proof.
  unfold cli_run. intros A B. apply lha_main_read_only in B; [|exact A].
  split; [exact B|]. rewrite B. apply cli_fs_init_trace.
Qed.

Print Assumptions do_command_read_only.
Print Assumptions lha_main_read_only.
Print Assumptions lha_main_read_only_trace.
Print Assumptions command_letters_read_only.
Print Assumptions extract_n_read_only.
Print Assumptions cli_run_read_only.

(* Loop.v -- C loops as iteration of a step function with logarithmic fuel:
   [loop k step s] runs at most 2^(k+1)-1 steps... precisely, loop_n k runs
   up to 2^k steps.  Running out is the distinct outcome OutOfFuel. *)
From Lhasa Require Import Base.
From Coq Require Import ZifyBool ZifyN ZifyNat.
Local Open Scope N_scope.

Section Loop.
  Context {S R : Type}.
  Variable step : S -> outcome (S + R).      (* inl: next iteration; inr: loop exit *)

  Fixpoint loop_n (k : nat) (s : S) : outcome (S + R) :=
    match k with
    | O => step s
    | Datatypes.S k' =>
      r <- loop_n k' s ;;
      match r with
      | inl s' => loop_n k' s'
      | inr x => Ok (inr x)
      end
    end.

  Definition loop (k : nat) (s : S) : outcome R :=
    r <- loop_n k s ;;
    match r with
    | inr x => Ok x
    | inl _ => OutOfFuel
    end.

  (* "the loop started in s exits with r after exactly n+1 evaluations of step" *)
  Inductive loops : nat -> S -> R -> Prop :=
  | loops_done s r : step s = Ok (inr r) -> loops O s r
  | loops_more n s s' r : step s = Ok (inl s') -> loops n s' r -> loops (Datatypes.S n) s r.

  (* [iters n s s']: n evaluations of step, all answering "continue", lead from s to s' *)
  Inductive iters : nat -> S -> S -> Prop :=
  | iters_0 s : iters O s s
  | iters_S n s s' s'' : step s = Ok (inl s') -> iters n s' s'' -> iters (Datatypes.S n) s s''.

  Lemma iters_app n1 : forall n2 s s' s'', iters n1 s s' -> iters n2 s' s'' -> iters (n1 + n2) s s''.
  Proof.
    induction n1 as [|n1 IH]; intros n2 s s' s'' H1 H2.
    - inversion H1; subst. exact H2.
    - inversion H1; subst. simpl. econstructor; eauto.
  Qed.

  Lemma loops_after_iters n1 : forall n2 s s' r, iters n1 s s' -> loops n2 s' r -> loops (n1 + n2) s r.
  Proof.
    induction n1 as [|n1 IH]; intros n2 s s' r H1 H2.
    - inversion H1; subst. exact H2.
    - inversion H1; subst. simpl. econstructor; eauto.
  Qed.

  (* What loop_n k computes, in terms of the relations. *)
  Lemma loop_n_spec k : forall s,
    (exists n r, loops n s r /\ (n < 2 ^ k)%nat /\ loop_n k s = Ok (inr r)) \/
    (exists s', iters (2 ^ k) s s' /\ loop_n k s = Ok (inl s')) \/
    (exists n s' x, iters n s s' /\ (n < 2 ^ k)%nat /\ step s' = x /\
                    (forall y, x <> Ok y) /\ loop_n k s = match x with Ok _ => OutOfFuel | Fault f => Fault f | OutOfFuel => OutOfFuel end).
  Proof.
    induction k as [|k IH]; intros s.
    - cbn [loop_n]. destruct (step s) as [[s'|r]| |] eqn:E.
      + right; left. exists s'. split; [|reflexivity]. change (2 ^ 0)%nat with 1%nat. econstructor; eauto. constructor.
      + left. exists O, r. split; [constructor; exact E|]. split; [simpl; lia|reflexivity].
      + right; right. exists O, s, (Fault site). repeat split; try constructor; simpl; auto; try lia; congruence.
      + right; right. exists O, s, OutOfFuel. repeat split; try constructor; simpl; auto; try lia; congruence.
    - cbn [loop_n].
      assert (P : (2 ^ Datatypes.S k = 2 ^ k + 2 ^ k)%nat) by (simpl; lia).
      destruct (IH s) as [(n & r & Hl & Hn & E)|[(s' & Hi & E)|(n & s' & x & Hi & Hn & Hx & Hbad & E)]]; rewrite E; cbn [bind].
      + left. exists n, r. repeat split; auto. lia.
      + destruct (IH s') as [(n & r & Hl & Hn & E')|[(s'' & Hi' & E')|(n & s'' & x & Hi' & Hn & Hx & Hbad & E')]]; rewrite E'.
        * left. exists (2 ^ k + n)%nat, r. split; [eapply loops_after_iters; eauto|]. split; [lia|reflexivity].
        * right; left. exists s''. split; [|reflexivity]. rewrite P. eapply iters_app; eauto.
        * right; right. exists (2 ^ k + n)%nat, s'', x. split; [eapply iters_app; eauto|]. repeat split; auto. lia.
      + right; right. exists n, s', x.
        split; [exact Hi|]. split; [lia|]. split; [exact Hx|]. split; [exact Hbad|].
        destruct x; reflexivity.
  Qed.

  (* Equational use: a run described by [loops] is what [loop] returns, given enough fuel. *)
  Lemma iters_loops_false n : forall s s' r m, iters n s s' -> loops m s r -> (m < n)%nat -> False.
  Proof.
    induction n as [|n IH]; intros s s' r m Hi Hl Hlt; [lia|].
    inversion Hi; subst. inversion Hl; subst.
    - congruence.
    - match goal with A : step ?s = Ok (inl ?a), B : step ?s = Ok (inl ?b) |- _ => assert (a = b) by congruence; subst end. eapply IH; eauto. lia.
  Qed.

  Lemma loops_det n : forall s r m r', loops n s r -> loops m s r' -> n = m /\ r = r'.
  Proof.
    induction n as [|n IH]; intros s r m r' H1 H2; inversion H1; subst; inversion H2; subst; try congruence.
    - split; congruence.
    - match goal with A : step ?s = Ok (inl ?a), B : step ?s = Ok (inl ?b) |- _ => assert (a = b) by congruence; subst end.
      match goal with A : loops n _ _, B : loops _ _ _ |- _ => destruct (IH _ _ _ _ A B) end. split; congruence.
  Qed.

  Lemma iters_stuck n : forall s s' m s'' x, iters n s s' -> iters m s s'' -> step s'' = x ->
    (forall y, x <> Ok y) -> (m < n)%nat -> False.
  Proof.
    induction n as [|n IH]; intros s s' m s'' x H1 H2 Hx Hbad Hlt; [lia|].
    inversion H1; subst. inversion H2; subst.
    - eapply Hbad; eauto.
    - match goal with A : step ?s = Ok (inl ?a), B : step ?s = Ok (inl ?b) |- _ => assert (a = b) by congruence; subst end. eapply IH; eauto. lia.
  Qed.

  Lemma loops_stuck n : forall s r m s'' x, loops n s r -> iters m s s'' -> step s'' = x ->
    (forall y, x <> Ok y) -> False.
  Proof.
    induction n as [|n IH]; intros s r m s'' x H1 H2 Hx Hbad.
    - inversion H1; subst. inversion H2; subst; [eapply Hbad; eauto|congruence].
    - inversion H1; subst. inversion H2; subst; [eapply Hbad; eauto|].
      match goal with A : step ?s = Ok (inl ?a), B : step ?s = Ok (inl ?b) |- _ => assert (a = b) by congruence; subst end. eapply IH; eauto.
  Qed.

  Theorem loop_complete k n s r : loops n s r -> (n < 2 ^ k)%nat -> loop k s = Ok r.
  Proof.
    intros Hl Hn. unfold loop.
    destruct (loop_n_spec k s) as [(n' & r' & Hl' & Hn' & E)|[(s' & Hi & E)|(n' & s' & x & Hi & Hn' & Hx & Hbad & E)]]; rewrite E; cbn [bind].
    - destruct (loops_det _ _ _ _ _ Hl Hl'). congruence.
    - exfalso. eapply iters_loops_false; eauto.
    - exfalso. eapply loops_stuck; eauto.
  Qed.

  Theorem loop_sound k s r : loop k s = Ok r -> exists n, loops n s r /\ (n < 2 ^ k)%nat.
  Proof.
    unfold loop. intros H.
    destruct (loop_n_spec k s) as [(n' & r' & Hl' & Hn' & E)|[(s' & Hi & E)|(n' & s' & x & Hi & Hn' & Hx & Hbad & E)]]; rewrite E in H; cbn [bind] in H.
    - inversion H; subst. eauto.
    - discriminate.
    - destruct x; discriminate.
  Qed.

  (* Invariant + decreasing measure: the loop exits normally, with the exit condition. *)
  Theorem loop_total (I : S -> Prop) (Q : R -> Prop) (m : S -> N) :
    (forall s, I s -> exists x, step s = Ok x /\
        match x with inl s' => I s' /\ m s' < m s | inr r => Q r end) ->
    forall s, I s -> exists n r, loops n s r /\ Q r /\ N.of_nat n <= m s.
  Proof.
    intros Hstep s0.
    remember (m s0) as b eqn:Hb. revert s0 Hb.
    pattern b. apply (well_founded_induction N.lt_wf_0). clear b.
    intros b IH s Hb Hi.
    destruct (Hstep s Hi) as [[s'|r] [E H]].
    - destruct H as [Hi' Hlt]. destruct (IH (m s')) with (s0 := s') as (n & r & Hl & Hq & Hn); try lia; auto.
      exists (Datatypes.S n), r. split; [econstructor; eauto|]. split; [exact Hq|lia].
    - exists O, r. split; [constructor; exact E|]. split; [exact H|lia].
  Qed.

  Corollary loop_total_ok (I : S -> Prop) (Q : R -> Prop) (m : S -> N) k :
    (forall s, I s -> exists x, step s = Ok x /\
        match x with inl s' => I s' /\ m s' < m s | inr r => Q r end) ->
    forall s, I s -> m s < 2 ^ N.of_nat k -> exists r, loop k s = Ok r /\ Q r.
  Proof.
    intros Hstep s Hi Hm.
    destruct (loop_total I Q m Hstep s Hi) as (n & r & Hl & Hq & Hn).
    exists r. split; [|exact Hq]. eapply loop_complete; eauto.
    assert (N.of_nat n < 2 ^ N.of_nat k) by lia.
    assert (E : N.of_nat (2 ^ k) = 2 ^ N.of_nat k) by (rewrite Nat2N.inj_pow; reflexivity).
    lia.
  Qed.

  (* no step faults => the loop does not fault *)
  Theorem loop_no_fault (I : S -> Prop) k :
    (forall s, I s -> no_fault (step s) /\ forall s', step s = Ok (inl s') -> I s') ->
    forall s, I s -> no_fault (loop k s).
  Proof.
    intros Hstep s Hi f Hf. unfold loop in Hf.
    destruct (loop_n_spec k s) as [(n' & r' & Hl' & Hn' & E)|[(s' & Hi' & E)|(n' & s' & x & Hit & Hn' & Hx & Hbad & E)]]; rewrite E in Hf; cbn [bind] in Hf; try discriminate.
    assert (Is' : I s').
    { clear - Hstep Hi Hit. induction Hit; auto. apply IHHit. eapply Hstep; eauto. }
    destruct (Hstep s' Is') as [Hnf _]. destruct x; try discriminate.
    eapply Hnf; eauto.
  Qed.
End Loop.

(* P_FsExtract.v -- C06, filesystem level: what the operations of
   lib/lha_arch_unix.c (FsRun.v over Fs.v) do to the tree, stated on physical
   locations ([node_at (fs_root s) loc]).

   1. algebra of [update_at] / [set_ent] (replace-at-location, split of a
      location, frame for locations that diverge, shape of the directories
      above);
   2. path resolution of "plain" relative paths (components that are not ".",
      "..", not longer than NAME_MAX, every directory on the way a searchable
      directory -- no symbolic link on the way);
   3. the effect of arch_exists, arch_mkdir, arch_fopen + writes, arch_symlink,
      fs_utime, fs_chmod, fs_chown at such a path, as an equation on the root
      of the form  root' = update_at root parent (fun _ => Some parent'),
      from which content, mode, time, and the frame follow. *)
From Lhasa Require Import Base ListN Fs FsRun P_ReaderCheck.
From Coq Require Import ZifyBool ZifyN ZifyNat.
Local Open Scope N_scope.

Set Default Timeout 60.

(* ------------------------------------------------------------------ *)
(* names, lookup, set_ent *)

Lemma name_eqb_eq a : forall b, name_eqb a b = true <-> a = b.
Proof.
  induction a as [|x a IH]; intros [|y b]; cbn [name_eqb]; split; intros H; try discriminate; try reflexivity.
  - apply andb_prop in H. destruct H as [H1 H2]. apply N.eqb_eq in H1. apply IH in H2. congruence.
  - inversion H; subst. rewrite N.eqb_refl. cbn [andb]. apply IH. reflexivity.
Qed.

Lemma name_eqb_neq a b : a <> b -> name_eqb a b = false.
Proof. intros H. destruct (name_eqb a b) eqn:E; [|reflexivity]. apply name_eqb_eq in E. contradiction. Qed.

Lemma name_eqb_false a b : name_eqb a b = false -> a <> b.
Proof. intros H E. subst. rewrite name_eqb_refl in H. discriminate. Qed.

Definition const_some (n : node) : option node -> option node := fun _ => Some n.

Lemma lookup_app_none ents c : forall more, lookup ents c = None -> lookup (ents ++ more) c = lookup more c.
Proof.
  induction ents as [|[k v] r IH]; intros more H; cbn [lookup app] in *; [reflexivity|].
  destruct (name_eqb k c); [discriminate|]. apply IH. exact H.
Qed.

Lemma lookup_app_some ents c x : forall more, lookup ents c = Some x -> lookup (ents ++ more) c = Some x.
Proof.
  induction ents as [|[k v] r IH]; intros more H; cbn [lookup app] in *; [discriminate|].
  destruct (name_eqb k c); [exact H|]. apply IH. exact H.
Qed.

Lemma lookup_last ents c v : lookup ents c = None -> lookup (ents ++ [(c, v)]) c = Some v.
Proof. intros H. rewrite lookup_app_none by exact H. cbn [lookup]. rewrite name_eqb_refl. reflexivity. Qed.

Lemma map_set_none c v : forall ents, lookup ents c = None ->
  map (fun kv : name * node => if name_eqb (fst kv) c then (c, v) else kv) ents = ents.
Proof.
  induction ents as [|[k y] r IH]; intros H; cbn [map lookup fst] in *; [reflexivity|].
  destruct (name_eqb k c); [discriminate|]. rewrite IH by exact H. reflexivity.
Qed.

Lemma set_ent_fresh ents c v : lookup ents c = None -> set_ent ents c v = ents ++ [(c, v)].
Proof. intros H. unfold set_ent. rewrite H. reflexivity. Qed.

Lemma set_ent_last ents c old v : lookup ents c = None -> set_ent (ents ++ [(c, old)]) c v = ents ++ [(c, v)].
Proof.
  intros H. unfold set_ent. rewrite (lookup_last _ _ old H). rewrite map_app, map_set_none by exact H.
  cbn [map fst]. rewrite name_eqb_refl. reflexivity.
Qed.

Lemma lookup_set_ent_same ents c v : lookup (set_ent ents c v) c = Some v.
Proof.
  destruct (lookup ents c) as [x|] eqn:E.
  - eapply lookup_set_ent; eauto.
  - rewrite set_ent_fresh by exact E. apply lookup_last. exact E.
Qed.

Lemma lookup_map_other c v c' : c' <> c -> forall ents,
  lookup (map (fun kv : name * node => if name_eqb (fst kv) c then (c, v) else kv) ents) c' = lookup ents c'.
Proof.
  intros Hne. induction ents as [|[k y] r IH]; cbn [map lookup fst]; [reflexivity|].
  destruct (name_eqb k c) eqn:E.
  - apply name_eqb_eq in E. subst k. cbn [lookup]. rewrite (name_eqb_neq c c') by congruence. exact IH.
  - cbn [lookup]. rewrite IH. reflexivity.
Qed.

Lemma lookup_set_ent_other ents c v c' : c' <> c -> lookup (set_ent ents c v) c' = lookup ents c'.
Proof.
  intros Hne. unfold set_ent. destruct (lookup ents c) eqn:E.
  - apply lookup_map_other. exact Hne.
  - destruct (lookup ents c') eqn:E'.
    + eapply lookup_app_some; eauto.
    + rewrite lookup_app_none by exact E'. cbn [lookup]. rewrite (name_eqb_neq c c') by congruence. reflexivity.
Qed.

Lemma map_set_twice c v v' : forall ents,
  map (fun kv : name * node => if name_eqb (fst kv) c then (c, v') else kv)
      (map (fun kv : name * node => if name_eqb (fst kv) c then (c, v) else kv) ents) =
  map (fun kv : name * node => if name_eqb (fst kv) c then (c, v') else kv) ents.
Proof.
  induction ents as [|[k y] r IH]; cbn [map fst]; [reflexivity|].
  rewrite IH. destruct (name_eqb k c) eqn:E; cbn [fst]; [rewrite name_eqb_refl|rewrite E]; reflexivity.
Qed.

Lemma set_ent_set_ent ents c v v' : set_ent (set_ent ents c v) c v' = set_ent ents c v'.
Proof.
  unfold set_ent at 1. rewrite lookup_set_ent_same.
  unfold set_ent. destruct (lookup ents c) eqn:E.
  - apply map_set_twice.
  - rewrite map_app, map_set_none by exact E. cbn [map fst]. rewrite name_eqb_refl. reflexivity.
Qed.

(* ------------------------------------------------------------------ *)
(* node_at / update_at *)

Lemma node_at_app : forall a root b,
  node_at root (a ++ b) = match node_at root a with Some n => node_at n b | None => None end.
Proof.
  induction a as [|c a IH]; intros root b; [reflexivity|].
  cbn [app]. destruct root as [o p t ents|o p t d|tg]; cbn [node_at]; try reflexivity.
  destruct (lookup ents c) as [m|]; [apply IH|reflexivity].
Qed.

Lemma node_at_nil n : node_at n [] = Some n.
Proof. reflexivity. Qed.

Lemma update_at_nil n g : update_at n [] g = match g (Some n) with Some m => m | None => n end.
Proof. reflexivity. Qed.

Lemma update_at_one_const o p t ents c n :
  update_at (Dir o p t ents) [c] (const_some n) = Dir o p t (set_ent ents c n).
Proof. reflexivity. Qed.

(* the directory shape above the updated location is kept *)
Lemma update_at_dir_shape o p t : forall loc e g, loc <> [] ->
  exists e', update_at (Dir o p t e) loc g = Dir o p t e'.
Proof.
  intros [|c [|c2 r]] e g H; [contradiction H; reflexivity| |].
  - rewrite update_at_one. destruct (g (lookup e c)); eexists; reflexivity.
  - rewrite update_at_more. destruct (lookup e c); eexists; reflexivity.
Qed.

(* U4: what is below the replaced node *)
Lemma node_at_update_const n : forall loc root m rest, node_at root loc = Some m ->
  node_at (update_at root loc (const_some n)) (loc ++ rest) = node_at n rest.
Proof.
  induction loc as [|c r IH]; intros root m rest H; [reflexivity|].
  destruct root as [o p t ents|o p t d|tg]; try discriminate.
  rewrite node_at_cons in H. destruct (lookup ents c) as [x|] eqn:El; [|discriminate].
  destruct r as [|c2 r2].
  - rewrite update_at_one_const. cbn [app]. rewrite node_at_cons, lookup_set_ent_same. reflexivity.
  - rewrite update_at_more, El. cbn [app]. rewrite node_at_cons, lookup_set_ent_same.
    apply (IH x m rest H).
Qed.

Lemma node_at_update_const_same n loc root m : node_at root loc = Some m ->
  node_at (update_at root loc (const_some n)) loc = Some n.
Proof. intros H. rewrite <- (app_nil_r loc) at 2. rewrite (node_at_update_const n loc root m [] H). reflexivity. Qed.

(* U2: replacing twice *)
Lemma update_const_twice n n' : forall loc root,
  update_at (update_at root loc (const_some n)) loc (const_some n') = update_at root loc (const_some n').
Proof.
  induction loc as [|c r IH]; intros root; [reflexivity|].
  destruct root as [o p t ents|o p t d|tg]; try (destruct r; reflexivity).
  destruct r as [|c2 r2].
  - rewrite !update_at_one_const, set_ent_set_ent. reflexivity.
  - rewrite (update_at_more o p t ents). destruct (lookup ents c) as [x|] eqn:El.
    + rewrite update_at_more, lookup_set_ent_same, set_ent_set_ent, IH, update_at_more, El. reflexivity.
    + rewrite !update_at_more, El. reflexivity.
Qed.

(* U3: an update below an existing node is a replacement of that node *)
Lemma update_at_split g : forall loc root m rest, rest <> [] -> node_at root loc = Some m ->
  update_at root (loc ++ rest) g = update_at root loc (const_some (update_at m rest g)).
Proof.
  induction loc as [|c r IH]; intros root m rest Hne H.
  - cbn [node_at] in H. inversion H; subst m. reflexivity.
  - destruct root as [o p t ents|o p t d|tg]; try discriminate.
    rewrite node_at_cons in H. destruct (lookup ents c) as [x|] eqn:El; [|discriminate].
    destruct r as [|c2 r2].
    + cbn [node_at] in H. inversion H; subst x. cbn [app].
      destruct rest as [|c3 r3]; [contradiction Hne; reflexivity|].
      rewrite update_at_more, El, update_at_one. reflexivity.
    + cbn [app]. rewrite !update_at_more, El. change (c2 :: r2 ++ rest) with ((c2 :: r2) ++ rest).
      rewrite (IH x m rest Hne H). reflexivity.
Qed.

(* replacement below a replacement *)
Lemma update_const_below g n : forall loc root m rest, rest <> [] -> node_at root loc = Some m ->
  update_at (update_at root loc (const_some n)) (loc ++ rest) g = update_at root loc (const_some (update_at n rest g)).
Proof.
  intros loc root m rest Hne H.
  rewrite (update_at_split g loc _ n rest Hne (node_at_update_const_same n loc root m H)).
  apply update_const_twice.
Qed.

(* frame: a location that leaves the path to the updated one *)
Lemma node_at_update_diverge g : forall loc root common c c' r r', c <> c' ->
  loc = common ++ c :: r ->
  node_at (update_at root loc g) (common ++ c' :: r') = node_at root (common ++ c' :: r').
Proof.
  intros loc root common. revert loc root.
  induction common as [|k common IH]; intros loc root c c' r r' Hne ->.
  - cbn [app]. destruct root as [o p t ents|o p t d|tg]; try (destruct r; reflexivity).
    destruct r as [|c2 r2].
    + rewrite update_at_one. destruct (g (lookup ents c)).
      * rewrite !node_at_cons, lookup_set_ent_other by congruence. reflexivity.
      * rewrite !node_at_cons.
        assert (E : lookup (remove_ent ents c) c' = lookup ents c').
        { clear - Hne. induction ents as [|[k v] rr IHe]; cbn [remove_ent lookup]; [reflexivity|].
          destruct (name_eqb k c) eqn:E.
          - apply name_eqb_eq in E. subst k. rewrite (name_eqb_neq c c') by exact Hne. reflexivity.
          - cbn [lookup]. rewrite IHe. reflexivity. }
        rewrite E. reflexivity.
    + rewrite update_at_more. destruct (lookup ents c); [|reflexivity].
      rewrite !node_at_cons, lookup_set_ent_other by congruence. reflexivity.
  - cbn [app]. destruct root as [o p t ents|o p t d|tg]; try (destruct common; reflexivity).
    assert (Hm : update_at (Dir o p t ents) (k :: common ++ c :: r) g =
                 match lookup ents k with
                 | Some m => Dir o p t (set_ent ents k (update_at m (common ++ c :: r) g))
                 | None => Dir o p t ents end).
    { destruct common; reflexivity. }
    rewrite Hm. destruct (lookup ents k) as [m|] eqn:El; [|reflexivity].
    rewrite !node_at_cons, lookup_set_ent_same, El. eapply IH; eauto.
Qed.

(* the directories above keep owner, mode and time *)
Lemma node_at_update_above g : forall loc root rest o p t e, rest <> [] ->
  node_at root loc = Some (Dir o p t e) ->
  exists e', node_at (update_at root (loc ++ rest) g) loc = Some (Dir o p t e').
Proof.
  intros loc root rest o p t e Hne H.
  rewrite (update_at_split g loc root _ rest Hne H).
  rewrite (node_at_update_const_same _ loc root _ H).
  destruct (update_at_dir_shape o p t rest e g Hne) as [e' E]. rewrite E. eauto.
Qed.

(* an update whose result at the location is known is a replacement *)
Lemma update_at_eq_const g : forall loc root m m', node_at root loc = Some m -> g (Some m) = Some m' ->
  update_at root loc g = update_at root loc (const_some m').
Proof.
  induction loc as [|c r IH]; intros root m m' H Hg.
  - cbn [node_at] in H. inversion H; subst m. rewrite !update_at_nil, Hg. reflexivity.
  - destruct root as [o p t ents|o p t d|tg]; try discriminate.
    rewrite node_at_cons in H. destruct (lookup ents c) as [x|] eqn:El; [|discriminate].
    destruct r as [|c2 r2].
    + cbn [node_at] in H. inversion H; subst x. rewrite update_at_one, El, Hg, update_at_one_const. reflexivity.
    + rewrite !update_at_more, El. rewrite (IH x m m' H Hg). reflexivity.
Qed.

(* the same below a replacement: the child [last] of the directory put at [parent] *)
Lemma update_child g root0 parent m0 o p t pe last F F' :
  node_at root0 parent = Some m0 -> g (Some F) = Some F' ->
  update_at (update_at root0 parent (const_some (Dir o p t (set_ent pe last F)))) (parent ++ [last]) g =
  update_at root0 parent (const_some (Dir o p t (set_ent pe last F'))).
Proof.
  intros H Hg. rewrite (update_const_below g _ parent root0 m0 [last] ltac:(discriminate) H).
  rewrite update_at_one, lookup_set_ent_same, Hg, set_ent_set_ent. reflexivity.
Qed.

(* ------------------------------------------------------------------ *)
(* resolution of plain relative paths *)

Definition plain (c : name) : Prop :=
  name_eqb c dot = false /\ name_eqb c dotdot = false /\ (name_max <? nlen c) = false.

(* a searchable directory *)
Definition sdir (root : node) (uid0 : bool) (loc : phys) : Prop :=
  exists o p t e, node_at root loc = Some (Dir o p t e) /\ can_search uid0 (Dir o p t e) = true.

(* every location from cur down to cur ++ comps is a searchable directory *)
Definition chain (root : node) (uid0 : bool) (cur : phys) (comps : list name) : Prop :=
  forall k, (k <= length comps)%nat -> sdir root uid0 (cur ++ firstn k comps).

Lemma chain_head root uid0 cur comps : chain root uid0 cur comps -> sdir root uid0 cur.
Proof. intros H. specialize (H O ltac:(lia)). cbn [firstn] in H. rewrite app_nil_r in H. exact H. Qed.

Lemma chain_last root uid0 cur comps : chain root uid0 cur comps -> sdir root uid0 (cur ++ comps).
Proof. intros H. specialize (H (length comps) ltac:(lia)). rewrite firstn_all in H. exact H. Qed.

Lemma chain_tail root uid0 cur c comps : chain root uid0 cur (c :: comps) -> chain root uid0 (cur ++ [c]) comps.
Proof.
  intros H k Hk. specialize (H (S k) ltac:(cbn [length]; lia)). cbn [firstn] in H.
  rewrite <- app_assoc. exact H.
Qed.

Lemma chain_nil root uid0 cur : sdir root uid0 cur -> chain root uid0 cur [].
Proof. intros H k Hk. destruct k; cbn [firstn]; rewrite app_nil_r; exact H. Qed.

Lemma chain_snoc root uid0 cur comps c : chain root uid0 cur comps -> sdir root uid0 (cur ++ comps ++ [c]) ->
  chain root uid0 cur (comps ++ [c]).
Proof.
  intros H Hs k Hk. rewrite app_length in Hk. cbn [length] in Hk.
  destruct (Nat.le_gt_cases k (length comps)) as [Hle|Hgt].
  - rewrite firstn_app. replace (k - length comps)%nat with O by lia. cbn [firstn]. rewrite app_nil_r. apply H. exact Hle.
  - rewrite firstn_all2 by (rewrite app_length; cbn [length]; lia). exact Hs.
Qed.

Lemma walk_cons links root uid0 cur c rest fl md :
  walk links root uid0 cur (c :: rest) fl md =
  let is_last := match rest with [] => true | _ => false end in
  match node_at root cur with
  | None => WFail true
  | Some (Dir _ _ _ ents as d) =>
    if negb (can_search uid0 d) then WFail false
    else if name_max <? nlen c then WFail false
    else if name_eqb c dot then walk links root uid0 cur rest fl md
    else if name_eqb c dotdot then walk links root uid0 (removelast cur) rest fl md
    else
      match lookup ents c with
      | None => if is_last then WOk cur c None else WFail true
      | Some (Dir _ _ _ _ as m) =>
        if is_last then WOk cur c (Some m) else walk links root uid0 (cur ++ [c]) rest fl md
      | Some (File _ _ _ _ as m) =>
        if is_last && negb md then WOk cur c (Some m) else WFail false
      | Some (Link tgt as m) =>
        if is_last && negb (fl || md) then WOk cur c (Some m)
        else
          match links with
          | O => WFail false
          | S links' =>
            walk links' root uid0 (if is_absolute tgt then [] else cur)
                 (split_path tgt ++ rest) fl (md || (is_last && trailing_slash tgt))
          end
      end
  | Some _ => WFail false
  end.
Proof. destruct links; reflexivity. Qed.

(* what [walk] answers at the end of a plain path *)
Definition walk_end (links : nat) (root : node) (uid0 : bool) (parent : phys) (last : name) (fl md : bool) : walk_res :=
  match node_at root (parent ++ [last]) with
  | None => WOk parent last None
  | Some (Dir _ _ _ _ as m) => WOk parent last (Some m)
  | Some (File _ _ _ _ as m) => if negb md then WOk parent last (Some m) else WFail false
  | Some (Link tgt as m) =>
    if negb (fl || md) then WOk parent last (Some m)
    else match links with
         | O => WFail false
         | S links' => walk links' root uid0 (if is_absolute tgt then [] else parent)
                            (split_path tgt ++ []) fl (md || (true && trailing_slash tgt))
         end
  end.

Lemma walk_plain links root uid0 fl md : forall pre cur last,
  Forall plain pre -> plain last -> chain root uid0 cur pre ->
  walk links root uid0 cur (pre ++ [last]) fl md = walk_end links root uid0 (cur ++ pre) last fl md.
Proof.
  induction pre as [|c pre IH]; intros cur last Hpre Hlast Hch.
  - cbn [app]. rewrite walk_cons. cbv zeta.
    destruct (chain_head _ _ _ _ Hch) as (o & p & t & e & Hn & Hs).
    rewrite Hn, Hs. cbn [negb]. destruct Hlast as (Hd & Hdd & Hlen). rewrite Hlen, Hd, Hdd.
    unfold walk_end. rewrite app_nil_r, node_at_app, Hn, node_at_cons.
    destruct (lookup e last) as [[o1 p1 t1 e1|o1 p1 t1 d1|tg]|]; cbn [node_at andb]; reflexivity.
  - inversion Hpre as [|c0 pre0 Hc Hpre']; subst.
    cbn [app]. destruct (pre ++ [last]) as [|x r] eqn:Er; [apply app_eq_nil in Er; destruct Er; discriminate|].
    rewrite walk_cons. cbv zeta.
    destruct (chain_head _ _ _ _ Hch) as (o & p & t & e & Hn & Hs).
    rewrite Hn, Hs. cbn [negb]. destruct Hc as (Hd & Hdd & Hlen). rewrite Hlen, Hd, Hdd.
    pose proof (chain_tail _ _ _ _ _ Hch) as Hch'.
    destruct (chain_head _ _ _ _ Hch') as (o1 & p1 & t1 & e1 & Hn1 & Hs1).
    rewrite node_at_app, Hn, node_at_cons in Hn1.
    destruct (lookup e c) as [m|]; [|discriminate]. cbn [node_at] in Hn1. inversion Hn1; subst m.
    rewrite <- Er. rewrite (IH (cur ++ [c]) last Hpre' Hlast Hch'). rewrite <- app_assoc. reflexivity.
Qed.

(* a relative path string whose components are pre ++ [last] *)
Definition rel_path (p : list N) (pre : list name) (last : name) : Prop :=
  p <> [] /\ is_absolute p = false /\ (path_max <? nlen p) = false /\ split_path p = pre ++ [last].

Lemma resolve_gen_plain s p pre last fl md :
  rel_path p pre last -> Forall plain pre -> plain last -> chain (fs_root s) (fs_uid0 s) (fs_cwd s) pre ->
  resolve_gen s p fl md = walk_end max_links (fs_root s) (fs_uid0 s) (fs_cwd s ++ pre) last fl md.
Proof.
  intros (Hne & Habs & Hlen & Hsp) Hpre Hlast Hch. unfold resolve_gen.
  destruct p as [|b p']; [contradiction Hne; reflexivity|].
  rewrite Hlen, Habs, Hsp. apply walk_plain; assumption.
Qed.

(* the three answers used below *)
Lemma walk_end_none links root uid0 parent last fl md :
  node_at root (parent ++ [last]) = None -> walk_end links root uid0 parent last fl md = WOk parent last None.
Proof. intros H. unfold walk_end. rewrite H. reflexivity. Qed.

Lemma walk_end_dir links root uid0 parent last fl md o p t e :
  node_at root (parent ++ [last]) = Some (Dir o p t e) ->
  walk_end links root uid0 parent last fl md = WOk parent last (Some (Dir o p t e)).
Proof. intros H. unfold walk_end. rewrite H. reflexivity. Qed.

Lemma walk_end_file links root uid0 parent last fl o p t d :
  node_at root (parent ++ [last]) = Some (File o p t d) ->
  walk_end links root uid0 parent last fl false = WOk parent last (Some (File o p t d)).
Proof. intros H. unfold walk_end. rewrite H. reflexivity. Qed.

Lemma walk_end_link links root uid0 parent last tg :
  node_at root (parent ++ [last]) = Some (Link tg) ->
  walk_end links root uid0 parent last false false = WOk parent last (Some (Link tg)).
Proof. intros H. unfold walk_end. rewrite H. reflexivity. Qed.

(* ------------------------------------------------------------------ *)
(* the operations at a plain relative path *)

Definition at_path (s : fs) (p : list N) (pre : list name) (last : name) : Prop :=
  rel_path p pre last /\ Forall plain pre /\ plain last /\ chain (fs_root s) (fs_uid0 s) (fs_cwd s) pre.

(* the operation changed the tree only *)
Definition same_env (s s' : fs) : Prop :=
  fs_cwd s' = fs_cwd s /\ fs_uid0 s' = fs_uid0 s /\ fs_umask s' = fs_umask s.

Lemma same_env_refl s : same_env s s.
Proof. repeat split. Qed.
Lemma same_env_trans a b c : same_env a b -> same_env b c -> same_env a c.
Proof. intros (A1 & A2 & A3) (B1 & B2 & B3). repeat split; congruence. Qed.
Lemma same_env_log s o r : same_env s (log s o r).
Proof. repeat split. Qed.

Lemma child_lookup root parent o p t e c :
  node_at root parent = Some (Dir o p t e) -> node_at root (parent ++ [c]) = lookup e c.
Proof. intros H. rewrite node_at_app, H, node_at_cons. destruct (lookup e c); reflexivity. Qed.

Lemma set_entry_some s parent last n po pp pt pe :
  node_at (fs_root s) parent = Some (Dir po pp pt pe) ->
  set_entry s parent last (Some n) =
  update_at (fs_root s) parent (const_some (Dir po pp now (set_ent pe last n))).
Proof.
  intros H. unfold set_entry, touch_dir.
  rewrite (update_at_split _ parent (fs_root s) _ [last] ltac:(discriminate) H).
  rewrite update_at_one. cbv beta iota.
  erewrite update_at_eq_const;
    [|eapply node_at_update_const_same; exact H|reflexivity].
  apply update_const_twice.
Qed.

Lemma set_entry_none s parent last po pp pt pe :
  node_at (fs_root s) parent = Some (Dir po pp pt pe) ->
  set_entry s parent last None =
  update_at (fs_root s) parent (const_some (Dir po pp now (remove_ent pe last))).
Proof.
  intros H. unfold set_entry, touch_dir.
  rewrite (update_at_split _ parent (fs_root s) _ [last] ltac:(discriminate) H).
  rewrite update_at_one. cbv beta iota.
  erewrite update_at_eq_const;
    [|eapply node_at_update_const_same; exact H|reflexivity].
  apply update_const_twice.
Qed.

Section Ops.
  Variables (s : fs) (p : list N) (pre : list name) (last : name).
  Hypothesis Hat : at_path s p pre last.
  Let parent := fs_cwd s ++ pre.
  Let loc := parent ++ [last].

  Lemma resolve_at fl md :
    resolve_gen s p fl md = walk_end max_links (fs_root s) (fs_uid0 s) parent last fl md.
  Proof. destruct Hat as (A & B & C & D). apply resolve_gen_plain; assumption. Qed.

  Lemma parent_sdir : sdir (fs_root s) (fs_uid0 s) parent.
  Proof. destruct Hat as (A & B & C & D). apply chain_last. exact D. Qed.

  (* ---- arch_exists (stat) ---- *)
  Lemma exists_none : node_at (fs_root s) loc = None -> arch_exists s p = FT_NONE.
  Proof.
    intros H. unfold arch_exists, fs_exists, resolve. rewrite resolve_at, walk_end_none by exact H. reflexivity.
  Qed.

  Lemma exists_dir o pm t e : node_at (fs_root s) loc = Some (Dir o pm t e) -> arch_exists s p = FT_DIRECTORY.
  Proof.
    intros H. unfold arch_exists, fs_exists, resolve. rewrite resolve_at, (walk_end_dir _ _ _ _ _ _ _ _ _ _ _ H).
    reflexivity.
  Qed.

  Lemma exists_file o pm t d : trailing_slash p = false ->
    node_at (fs_root s) loc = Some (File o pm t d) -> arch_exists s p = FT_FILE.
  Proof.
    intros Hts H. unfold arch_exists, fs_exists, resolve. rewrite Hts, resolve_at, (walk_end_file _ _ _ _ _ _ _ _ _ _ H).
    reflexivity.
  Qed.

  (* ---- arch_mkdir ---- *)
  Lemma mkdir_fresh mode po pp pt pe :
    node_at (fs_root s) loc = None ->
    node_at (fs_root s) parent = Some (Dir po pp pt pe) -> can_write_dir (fs_uid0 s) (Dir po pp pt pe) = true ->
    let m := N.lor (apply_umask s (N.land mode 1023)) (N.land pp 1024) in
    exists s', arch_mkdir s p mode = (true, s') /\ same_env s s' /\
      fs_root s' = update_at (fs_root s) parent (const_some (Dir po pp now (set_ent pe last (Dir true m now [])))).
  Proof.
    intros Hnone Hpar Hw m. unfold arch_mkdir, fs_mkdir.
    rewrite resolve_at, walk_end_none by exact Hnone. fold parent. rewrite Hpar, Hw.
    eexists. split; [reflexivity|]. split; [apply same_env_log|].
    cbn [fs_root log]. eapply set_entry_some. exact Hpar.
  Qed.

  (* mkdir on something that exists fails and changes nothing *)
  Lemma mkdir_exists mode n : node_at (fs_root s) loc = Some n -> arch_mkdir s p mode = (false, s).
  Proof.
    intros Hn. unfold arch_mkdir, fs_mkdir. rewrite resolve_at. unfold walk_end. fold loc. rewrite Hn.
    destruct n as [o1 p1 t1 e1|o1 p1 t1 d1|tg]; reflexivity.
  Qed.

  (* ---- unlink of nothing ---- *)
  Lemma unlink_none : node_at (fs_root s) loc = None -> fs_unlink s p = (false, s).
  Proof.
    intros H. unfold fs_unlink. destruct (trailing_slash p) eqn:Ets; [reflexivity|].
    unfold resolve. rewrite Ets, resolve_at, walk_end_none by exact H. reflexivity.
  Qed.

  (* ---- arch_fopen where nothing exists ---- *)
  Lemma fopen_fresh perms po pp pt pe :
    trailing_slash p = false ->
    node_at (fs_root s) loc = None ->
    node_at (fs_root s) parent = Some (Dir po pp pt pe) -> can_write_dir (fs_uid0 s) (Dir po pp pt pe) = true ->
    let m := match perms with Some x => N.land x 4095 | None => apply_umask s 384 end in
    exists s', arch_fopen s p perms = (Some loc, s') /\ same_env s s' /\
      fs_root s' = update_at (fs_root s) parent (const_some (Dir po pp now (set_ent pe last (File true m now [])))).
  Proof.
    intros Hts Hnone Hpar Hw m. unfold arch_fopen. rewrite (unlink_none Hnone).
    unfold fs_create_excl. rewrite Hts. unfold resolve. rewrite Hts, resolve_at, walk_end_none by exact Hnone.
    unfold parent_writable. fold parent. rewrite Hpar, Hw.
    destruct perms as [x|].
    - unfold fs_fchmod. cbn [fs_root log]. eexists. split; [reflexivity|].
      split; [eapply same_env_trans; apply same_env_log|].
      cbn [fs_root log]. rewrite (set_entry_some s parent last _ _ _ _ _ Hpar).
      apply (update_child _ (fs_root s) parent _ po pp now pe last _ _ Hpar). reflexivity.
    - eexists. split; [reflexivity|]. split; [apply same_env_log|].
      cbn [fs_root log]. eapply set_entry_some. exact Hpar.
  Qed.

  (* ---- arch_symlink where nothing exists ---- *)
  Lemma symlink_fresh target po pp pt pe :
    trailing_slash p = false -> target <> [] -> (path_max <? nlen target) = false ->
    node_at (fs_root s) loc = None ->
    node_at (fs_root s) parent = Some (Dir po pp pt pe) -> can_write_dir (fs_uid0 s) (Dir po pp pt pe) = true ->
    exists s', arch_symlink s p target = (true, s') /\ same_env s s' /\
      fs_root s' = update_at (fs_root s) parent (const_some (Dir po pp now (set_ent pe last (Link target)))).
  Proof.
    intros Hts Hne Hlen Hnone Hpar Hw. unfold arch_symlink. rewrite (unlink_none Hnone).
    unfold fs_symlink. rewrite Hts. destruct target as [|b tg]; [contradiction Hne; reflexivity|].
    rewrite Hlen. unfold resolve. rewrite Hts, resolve_at, walk_end_none by exact Hnone.
    unfold parent_writable. fold parent. rewrite Hpar, Hw.
    eexists. split; [reflexivity|]. split; [apply same_env_log|].
    cbn [fs_root log]. eapply set_entry_some. exact Hpar.
  Qed.

  (* ---- utime / chmod / chown on what is at the path (not a link) ---- *)
  Lemma with_target_at k n : (forall tg, n <> Link tg) ->
    (trailing_slash p = false \/ exists o pm t e, n = Dir o pm t e) ->
    node_at (fs_root s) loc = Some n -> with_target s p k = k loc n.
  Proof.
    intros Hnl Hts Hn. unfold with_target, resolve. rewrite resolve_at. unfold walk_end. fold loc. rewrite Hn.
    destruct n as [o1 p1 t1 e1|o1 p1 t1 d1|tg]; [reflexivity| |exfalso; eapply Hnl; reflexivity].
    destruct Hts as [Hts|(o & pm & t & e & E)]; [rewrite Hts; reflexivity|discriminate].
  Qed.

  Lemma utime_file ts own pm tm d : trailing_slash p = false ->
    node_at (fs_root s) loc = Some (File own pm tm d) -> fs_uid0 s || own = true ->
    exists s', fs_utime s p ts = (true, s') /\ same_env s s' /\
      fs_root s' = update_at (fs_root s) loc (const_some (File own pm ts d)).
  Proof.
    intros Hts Hn Ho. unfold fs_utime. rewrite (with_target_at _ (File own pm tm d)); [|discriminate|left; exact Hts|exact Hn].
    unfold owned. cbn [owned_node]. rewrite Ho.
    eexists. split; [reflexivity|]. split; [apply same_env_log|]. cbn [fs_root log].
    eapply update_at_eq_const; [exact Hn|reflexivity].
  Qed.

  Lemma utime_dir ts own pm tm e :
    node_at (fs_root s) loc = Some (Dir own pm tm e) -> fs_uid0 s || own = true ->
    exists s', fs_utime s p ts = (true, s') /\ same_env s s' /\
      fs_root s' = update_at (fs_root s) loc (const_some (Dir own pm ts e)).
  Proof.
    intros Hn Ho. unfold fs_utime. rewrite (with_target_at _ (Dir own pm tm e)); [|discriminate|right; eauto|exact Hn].
    unfold owned. cbn [owned_node]. rewrite Ho.
    eexists. split; [reflexivity|]. split; [apply same_env_log|]. cbn [fs_root log].
    eapply update_at_eq_const; [exact Hn|reflexivity].
  Qed.

  Lemma chmod_dir mode own pm tm e :
    node_at (fs_root s) loc = Some (Dir own pm tm e) -> fs_uid0 s || own = true ->
    exists s', fs_chmod s p mode = (true, s') /\ same_env s s' /\
      fs_root s' = update_at (fs_root s) loc (const_some (Dir own (N.land mode 4095) tm e)).
  Proof.
    intros Hn Ho. unfold fs_chmod. rewrite (with_target_at _ (Dir own pm tm e)); [|discriminate|right; eauto|exact Hn].
    unfold owned. cbn [owned_node]. rewrite Ho.
    eexists. split; [reflexivity|]. split; [apply same_env_log|]. cbn [fs_root log].
    eapply update_at_eq_const; [exact Hn|reflexivity].
  Qed.

  (* chown of a directory: refused unless root; as root nothing of the directory changes *)
  Lemma chown_dir own pm tm e :
    node_at (fs_root s) loc = Some (Dir own pm tm e) ->
    exists s', snd (fs_chown s p) = s' /\ same_env s s' /\
      (fs_root s' = fs_root s \/ fs_root s' = update_at (fs_root s) loc (const_some (Dir own pm tm e))).
  Proof.
    intros Hn. unfold fs_chown. rewrite (with_target_at _ (Dir own pm tm e)); [|discriminate|right; eauto|exact Hn].
    destruct (fs_uid0 s).
    - eexists. split; [reflexivity|]. split; [apply same_env_log|]. right. cbn [snd fs_root log].
      eapply update_at_eq_const; [exact Hn|reflexivity].
    - exists s. split; [reflexivity|]. split; [apply same_env_refl|]. left. reflexivity.
  Qed.
End Ops.

(* ---- writes to the open handle ---- *)
Lemma fs_write_at s h bytes own pm tm d :
  node_at (fs_root s) h = Some (File own pm tm d) -> (fs_uid0 s = true \/ drop_setid pm = pm) ->
  same_env s (fs_write s h bytes) /\
  fs_root (fs_write s h bytes) = update_at (fs_root s) h (const_some (File own pm now (d ++ bytes))).
Proof.
  intros Hn Hp. split; [apply same_env_log|]. unfold fs_write. cbn [fs_root log].
  eapply update_at_eq_const; [exact Hn|]. cbv beta iota.
  assert (E : (if fs_uid0 s || match bytes with [] => true | _ => false end then pm else drop_setid pm) = pm).
  { destruct Hp as [Hu|Hd]; [rewrite Hu; reflexivity|]. rewrite Hd. destruct (_ || _); reflexivity. }
  rewrite E. reflexivity.
Qed.

(* ------------------------------------------------------------------ *)
(* the normal form  root = update_at root0 parent (const_some (Dir o p t ents)) *)

Lemma node_at_child root0 parent m0 o p t ents c rest :
  node_at root0 parent = Some m0 ->
  node_at (update_at root0 parent (const_some (Dir o p t ents))) (parent ++ c :: rest) =
  match lookup ents c with Some m => node_at m rest | None => None end.
Proof. intros H. rewrite (node_at_update_const _ parent root0 m0 (c :: rest) H). apply node_at_cons. Qed.

Lemma chain_prefix root uid0 cur a b : chain root uid0 cur (a ++ b) -> chain root uid0 cur a.
Proof.
  intros H k Hk. specialize (H k ltac:(rewrite app_length; lia)).
  rewrite firstn_app in H. replace (k - length a)%nat with O in H by lia. cbn [firstn] in H. rewrite app_nil_r in H. exact H.
Qed.

(* replacing the directory at the end of a chain by one with the same owner and mode keeps the chain *)
Lemma chain_update root uid0 cur pre o p t e t' e' :
  chain root uid0 cur pre -> node_at root (cur ++ pre) = Some (Dir o p t e) ->
  chain (update_at root (cur ++ pre) (const_some (Dir o p t' e'))) uid0 cur pre.
Proof.
  intros Hch Hn k Hk.
  destruct (Nat.eq_dec k (length pre)) as [->|Hne].
  - rewrite firstn_all. destruct (chain_last _ _ _ _ Hch) as (o1 & p1 & t1 & e1 & Hn1 & Hs1).
    rewrite Hn in Hn1. inversion Hn1; subst o1 p1 t1 e1.
    exists o, p, t', e'. split; [eapply node_at_update_const_same; exact Hn|exact Hs1].
  - destruct (Hch k Hk) as (o1 & p1 & t1 & e1 & Hn1 & Hs1).
    assert (Hsk : skipn k pre <> []).
    { intros E. apply (f_equal (@length name)) in E. rewrite skipn_length in E. cbn [length] in E. lia. }
    assert (Hsplit : cur ++ pre = (cur ++ firstn k pre) ++ skipn k pre) by (rewrite <- app_assoc, firstn_skipn; reflexivity).
    rewrite Hsplit.
    destruct (node_at_update_above (const_some (Dir o p t' e')) _ root _ o1 p1 t1 e1 Hsk Hn1) as [e2 He2].
    exists o1, p1, t1, e2. split; [exact He2|exact Hs1].
Qed.

Lemma at_path_update s s' p pre last o pm t e t' e' :
  at_path s p pre last -> same_env s s' ->
  node_at (fs_root s) (fs_cwd s ++ pre) = Some (Dir o pm t e) ->
  fs_root s' = update_at (fs_root s) (fs_cwd s ++ pre) (const_some (Dir o pm t' e')) ->
  at_path s' p pre last.
Proof.
  intros (A & B & C & D) (E1 & E2 & E3) Hn Hr. split; [exact A|]. split; [exact B|]. split; [exact C|].
  rewrite Hr, E1, E2. eapply chain_update; eauto.
Qed.

(* the writes of do_decode, in normal form *)
Lemma write_chunks_child root0 parent m0 o p t pe last own pm : forall chunks s d,
  node_at root0 parent = Some m0 ->
  fs_root s = update_at root0 parent (const_some (Dir o p t (set_ent pe last (File own pm now d)))) ->
  (fs_uid0 s = true \/ drop_setid pm = pm) ->
  same_env s (write_chunks (parent ++ [last]) chunks s) /\
  fs_root (write_chunks (parent ++ [last]) chunks s) =
    update_at root0 parent (const_some (Dir o p t (set_ent pe last (File own pm now (d ++ concat chunks))))).
Proof.
  unfold write_chunks. induction chunks as [|c cs IH]; intros s d H0 Hr Hp; cbn [fold_left concat].
  - rewrite app_nil_r. split; [apply same_env_refl|exact Hr].
  - assert (Hn : node_at (fs_root s) (parent ++ [last]) = Some (File own pm now d)).
    { rewrite Hr, (node_at_child _ _ _ _ _ _ _ _ _ H0), lookup_set_ent_same. reflexivity. }
    destruct (fs_write_at s (parent ++ [last]) c own pm now d Hn Hp) as [Henv Hw].
    assert (Hr1 : fs_root (fs_write s (parent ++ [last]) c) =
                  update_at root0 parent (const_some (Dir o p t (set_ent pe last (File own pm now (d ++ c)))))).
    { rewrite Hw, Hr. apply (update_child _ root0 parent m0 o p t pe last _ _ H0). reflexivity. }
    destruct (IH (fs_write s (parent ++ [last]) c) (d ++ c) H0 Hr1) as [Henv2 Hr2].
    { destruct Henv as (_ & E & _). rewrite E. exact Hp. }
    split; [exact (same_env_trans _ _ _ Henv Henv2)|]. rewrite Hr2, <- app_assoc. reflexivity.
Qed.

(* ------------------------------------------------------------------ *)
(* A. one file: lha_arch_fopen with the recorded mode, the chunks, utime *)

Theorem fs_file_extracted s p pre last perms chunks ts po pp pt pe :
  at_path s p pre last -> trailing_slash p = false ->
  let parent := fs_cwd s ++ pre in
  node_at (fs_root s) (parent ++ [last]) = None ->
  node_at (fs_root s) parent = Some (Dir po pp pt pe) -> can_write_dir (fs_uid0 s) (Dir po pp pt pe) = true ->
  let m := match perms with Some x => N.land x 4095 | None => apply_umask s 384 end in
  (fs_uid0 s = true \/ drop_setid m = m) ->
  exists s1 s3,
    arch_fopen s p perms = (Some (parent ++ [last]), s1) /\
    fs_utime (write_chunks (parent ++ [last]) chunks s1) p ts = (true, s3) /\
    same_env s s3 /\
    fs_root s3 = update_at (fs_root s) parent
                   (const_some (Dir po pp now (pe ++ [(last, File true m ts (concat chunks))]))) /\
    (* before the time stamp is set *)
    same_env s (write_chunks (parent ++ [last]) chunks s1) /\
    fs_root (write_chunks (parent ++ [last]) chunks s1) =
      update_at (fs_root s) parent (const_some (Dir po pp now (pe ++ [(last, File true m now (concat chunks))]))).
Proof.
  intros Hat Hts parent Hnone Hpar Hw m Hm.
  assert (Hl : lookup pe last = None) by (rewrite <- (child_lookup _ _ _ _ _ _ last Hpar); exact Hnone).
  destruct (fopen_fresh s p pre last Hat perms po pp pt pe Hts Hnone Hpar Hw) as (s1 & Hop & Henv1 & Hr1).
  fold parent in Hop, Hr1. fold m in Hr1.
  destruct (write_chunks_child (fs_root s) parent _ po pp now pe last true m chunks s1 [] Hpar Hr1) as [Henv2 Hr2].
  { destruct Henv1 as (_ & E & _). rewrite E. exact Hm. }
  cbn [app] in Hr2. set (s2 := write_chunks (parent ++ [last]) chunks s1) in *.
  assert (Henv12 : same_env s s2) by exact (same_env_trans _ _ _ Henv1 Henv2).
  assert (Hat2 : at_path s2 p pre last) by (eapply at_path_update; eauto).
  assert (Hcwd : fs_cwd s2 = fs_cwd s) by apply Henv12.
  assert (Hn2 : node_at (fs_root s2) ((fs_cwd s2 ++ pre) ++ [last]) = Some (File true m now (concat chunks))).
  { rewrite Hcwd. fold parent. rewrite Hr2, (node_at_child _ _ _ _ _ _ _ _ _ Hpar), lookup_set_ent_same. reflexivity. }
  destruct (utime_file s2 p pre last Hat2 ts true m now (concat chunks) Hts Hn2) as (s3 & Hut & Henv3 & Hr3).
  { apply orb_true_r. }
  exists s1, s3. split; [exact Hop|]. split; [exact Hut|]. split; [exact (same_env_trans _ _ _ Henv12 Henv3)|].
  fold s2. split; [|split; [exact Henv12|rewrite Hr2, set_ent_fresh by exact Hl; reflexivity]].
  rewrite Hr3, Hcwd. fold parent. rewrite Hr2.
  rewrite (update_child _ (fs_root s) parent _ po pp now pe last _ (File true m ts (concat chunks)) Hpar eq_refl).
  rewrite set_ent_fresh by exact Hl. reflexivity.
Qed.

(* ------------------------------------------------------------------ *)
(* permission bits *)

Lemma has_bit_pow2 perm k : has_bit perm (2 ^ k) = N.testbit perm k.
Proof.
  unfold has_bit. destruct (N.testbit perm k) eqn:E.
  - destruct (N.land perm (2 ^ k) =? 0) eqn:Z; [|reflexivity].
    apply N.eqb_eq in Z. apply (f_equal (fun x => N.testbit x k)) in Z.
    rewrite N.land_spec, E, N.pow2_bits_true, N.bits_0 in Z. discriminate.
  - replace (N.land perm (2 ^ k)) with 0; [reflexivity|].
    apply N.bits_inj. intros i. rewrite N.bits_0, N.land_spec, N.pow2_bits_eqb.
    destruct (N.eqb_spec k i) as [->|]; [rewrite E; reflexivity|symmetry; apply andb_false_r].
Qed.

(* a umask that leaves the owner's bits alone *)
Definition umask_ok (u : N) : Prop := N.testbit u 6 = false /\ N.testbit u 7 = false.

(* the mode mkdir gives: request & ~umask (sticky and rwx bits only), no set-group-ID inherited *)
Definition mkdir_mode (u req : N) : N := N.land (N.land req 1023) (N.lxor 4095 u).

Lemma mkdir_mode_eq s req pp : N.land pp 1024 = 0 ->
  N.lor (apply_umask s (N.land req 1023)) (N.land pp 1024) = mkdir_mode (fs_umask s) req.
Proof. intros H. rewrite H, N.lor_0_r. reflexivity. Qed.

Lemma mkdir_mode_nosgid u req : N.land (mkdir_mode u req) 1024 = 0.
Proof.
  unfold mkdir_mode. apply N.bits_inj. intros i. rewrite N.bits_0, !N.land_spec.
  change 1024 with (2 ^ 10). rewrite N.pow2_bits_eqb. destruct (N.eqb_spec 10 i) as [<-|]; [|apply andb_false_r].
  change (N.testbit 1023 10) with false. rewrite !andb_false_r. reflexivity.
Qed.

Lemma mkdir_mode_owner u req uid0 t e : umask_ok u -> N.testbit req 6 = true -> N.testbit req 7 = true ->
  can_search uid0 (Dir true (mkdir_mode u req) t e) = true /\ can_write_dir uid0 (Dir true (mkdir_mode u req) t e) = true.
Proof.
  intros (U6 & U7) R6 R7. unfold can_search, can_write_dir.
  change 64 with (2 ^ 6). change 128 with (2 ^ 7). rewrite !has_bit_pow2.
  unfold mkdir_mode. rewrite !N.land_spec, !N.lxor_spec, U6, U7, R6, R7.
  change (N.testbit 1023 6) with true. change (N.testbit 1023 7) with true.
  change (N.testbit 4095 6) with true. change (N.testbit 4095 7) with true.
  cbn [andb xorb]. rewrite !orb_true_r. split; reflexivity.
Qed.

(* an update of the child c of the directory at [parent] is a replacement of that directory *)
Lemma update_loc_to_parent root parent o p t ents c F :
  node_at root parent = Some (Dir o p t ents) ->
  update_at root (parent ++ [c]) (const_some F) = update_at root parent (const_some (Dir o p t (set_ent ents c F))).
Proof.
  intros H. rewrite (update_at_split _ parent root _ [c] ltac:(discriminate) H). rewrite update_at_one_const. reflexivity.
Qed.

Print Assumptions fs_file_extracted.
Print Assumptions node_at_update_diverge.
Print Assumptions mkdir_fresh.
Print Assumptions symlink_fresh.
Print Assumptions chmod_dir.
Print Assumptions utime_dir.

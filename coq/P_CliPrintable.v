(* P_CliPrintable.v -- C18 for the WHOLE tool (model: CliMain.v / CliExtract.v /
   ListOut.v): every byte lha_main writes to stdout / stderr is printable ASCII or
   one of the tool's own layout characters, for every command except the member
   data that 'p' dumps (that case is P_CliPrintMode.v).

   C18 (properties.jsonl): "In list, verbose-list, test, extract, dry-run and
   print-header output, every byte the tool writes that derives from archive
   contents - names, paths, link targets, the compression-method field, owner
   names - is printable ASCII; control characters and bytes of 0x7F and above are
   replaced by '?'. Apart from file data deliberately dumped by 'p', the tool's
   output therefore consists solely of printable ASCII plus its own newline,
   carriage-return and tab characters."

   What the tool itself emits besides 0x20..0x7E, as proved here:
     stdout: LF (line ends), CR and TAB (print_filename / print_filename_brief:
             "\r" <name> "\t- " <status> "  ") -- predicate [allowed_out];
     stderr: LF only -- predicate [P_ListOut.allowed] (0x20..0x7E or LF), which is
             stronger than allowed_out.
   Two kinds of text are echoed WITHOUT sanitising, neither archive-derived:
     argv[0] in the help page (printf) and the archive name argv[2] in
     "LHa: Error: <name> <strerror>\n" (fprintf), together with libc's strerror
     text.  The whole-program theorem therefore assumes these strings printable;
     [do_command_clean_opened] shows that this is the ONLY place the assumption is
     used: once the archive has been opened no hypothesis on argv is needed (the
     w=<dir> extract path from argv, which is part of every printed path, always
     goes through safe_printf). *)
From Lhasa Require Import Base Loop Generated InputStream Header BasicReader Fs FsRun Reader Glob Printf ListOut
  CliFilter CliExtract CliMain P_ListOut P_CliSafe.
From Coq Require Import Lia ZifyBool ZifyN ZifyNat.
Local Open Scope N_scope.

(* ------------------------------------------------------------------ *)
(* the predicate                                                        *)
Definition allowed_out (b : N) : Prop := printable b \/ b = 10 \/ b = 13 \/ b = 9.
Definition allowed_outb (b : N) : bool := printableb b || (b =? 10) || (b =? 13) || (b =? 9).

Lemma allowed_outb_ok b : allowed_outb b = true <-> allowed_out b.
Proof.
  unfold allowed_outb, allowed_out. rewrite !Bool.orb_true_iff, printableb_ok, !N.eqb_eq. tauto.
Qed.

Lemma forallb_allowed_out l : forallb allowed_outb l = true -> Forall allowed_out l.
Proof. rewrite forallb_forall, Forall_forall. intros H x Hx. apply allowed_outb_ok. auto. Qed.

Lemma allowed_out_forallb l : Forall allowed_out l -> forallb allowed_outb l = true.
Proof. rewrite forallb_forall, Forall_forall. intros H x Hx. apply allowed_outb_ok. auto. Qed.

Lemma printable_out b : printable b -> allowed_out b.
Proof. left. assumption. Qed.
Lemma allowed_is_out b : allowed b -> allowed_out b.
Proof. unfold allowed, allowed_out, printable. intros [H|H]; [left; exact H|right; left; exact H]. Qed.
Lemma Forall_printable_out l : Forall printable l -> Forall allowed_out l.
Proof. apply Forall_impl. exact printable_out. Qed.
Lemma Forall_allowed_out l : Forall allowed l -> Forall allowed_out l.
Proof. apply Forall_impl. exact allowed_is_out. Qed.
Lemma out_10 : allowed_out 10. Proof. right; left; reflexivity. Qed.
Lemma out_13 : allowed_out 13. Proof. right; right; left; reflexivity. Qed.
Lemma out_9 : allowed_out 9. Proof. right; right; right; reflexivity. Qed.

Lemma safe_printf_printable s : Forall printable (safe_printf s).
Proof. unfold safe_printf. apply safe_output_allowed. Qed.
Lemma safe_printf_out s : Forall allowed_out (safe_printf s).
Proof. apply Forall_printable_out, safe_printf_printable. Qed.
Lemma safe_printf_nl_out s : Forall allowed_out (safe_printf s ++ [10]).
Proof. apply Forall_app. split; [apply safe_printf_out|constructor; [exact out_10|constructor]]. Qed.
Lemma safe_printf_nl_allowed s : Forall allowed (safe_printf s ++ [10]).
Proof.
  apply Forall_app. split; [apply Forall_printable_allowed, safe_printf_printable|constructor; [exact allowed_10|constructor]].
Qed.

(* ------------------------------------------------------------------ *)
(* the invariant: everything written so far is clean                    *)
Definition out_ok (st : cli_state) : Prop := Forall (Forall allowed_out) (cs_out st).
Definition err_ok (st : cli_state) : Prop := Forall (Forall allowed) (cs_err st).
Definition clean (st : cli_state) : Prop := out_ok st /\ err_ok st.

Lemma clean_set_reader st r : clean st -> clean (set_reader st r). Proof. exact (fun H => H). Qed.
Lemma clean_set_fs st f : clean st -> clean (set_fs st f). Proof. exact (fun H => H). Qed.
Lemma clean_set_opts st o : clean st -> clean (set_opts st o). Proof. exact (fun H => H). Qed.
Lemma clean_set_stdin st d : clean st -> clean (set_stdin st d). Proof. exact (fun H => H). Qed.
Lemma clean_set_stdin_data st d : clean st -> clean (set_stdin_data st d).
Proof. unfold set_stdin_data. destruct (cs_stdin_shared st); exact (fun H => H). Qed.
Lemma clean_put_out st b : clean st -> Forall allowed_out b -> clean (put_out st b).
Proof. intros [Ho He] Hb. split; [constructor; assumption|exact He]. Qed.
Lemma clean_put_err st b : clean st -> Forall allowed b -> clean (put_err st b).
Proof. intros [Ho He] Hb. split; [exact Ho|constructor; assumption]. Qed.

Lemma Forall_concat_rev {A} (P : A -> Prop) ll : Forall (Forall P) ll -> Forall P (concat (rev ll)).
Proof. intros H. apply Forall_concat. apply Forall_rev. exact H. Qed.

Lemma clean_stdout st : clean st -> Forall allowed_out (stdout_bytes st).
Proof. intros [H _]. apply Forall_concat_rev. exact H. Qed.
Lemma clean_stderr st : clean st -> Forall allowed (stderr_bytes st).
Proof. intros [_ H]. apply Forall_concat_rev. exact H. Qed.

(* ------------------------------------------------------------------ *)
(* sequencing                                                           *)
Lemma cbind_ok {A B} (m : outcome (res A * cli_state)) (k : A -> cli_state -> outcome (res B * cli_state)) x :
  cbind m k = Ok x ->
  (exists a st1, m = Ok (RVal a, st1) /\ k a st1 = Ok x) \/
  (exists c st1, m = Ok (RExit c, st1) /\ x = (RExit c, st1)).
Proof.
  unfold cbind. destruct m as [[[a|c] st1]| |]; intros H; try discriminate.
  - left. eauto.
  - right. injection H as <-. eauto.
Qed.

(* ------------------------------------------------------------------ *)
(* the string literals of src/extract.c and src/main.c                  *)
Lemma lit_testing : Forall printable s_testing. Proof. lit_printable. Qed.
Lemma lit_melting : Forall printable s_melting. Proof. lit_printable. Qed.
Lemma lit_tested : Forall printable s_tested. Proof. lit_printable. Qed.
Lemma lit_crc_error : Forall printable s_crc_error. Proof. lit_printable. Qed.
Lemma lit_melted : Forall printable s_melted. Proof. lit_printable. Qed.
Lemma lit_failure : Forall printable s_failure. Proof. lit_printable. Qed.
Lemma lit_two_spaces : Forall printable s_two_spaces. Proof. lit_printable. Qed.
Lemma lit_overwrite_prompt : Forall printable s_overwrite_prompt. Proof. lit_printable. Qed.
Lemma lit_tab_dash : Forall allowed_out s_tab_dash. Proof. apply forallb_allowed_out. vm_compute. reflexivity. Qed.
Lemma lit_banner_top : Forall allowed s_banner_top.
Proof. repeat constructor; unfold allowed; lia. Qed.
Lemma lit_banner_bottom : Forall allowed s_banner_bottom.
Proof. repeat constructor; unfold allowed; lia. Qed.
Lemma lit_package_name : Forall printable PACKAGE_NAME. Proof. lit_printable. Qed.
Lemma lit_package_version : Forall printable PACKAGE_VERSION. Proof. lit_printable. Qed.
Lemma lit_v : Forall printable s_v. Proof. lit_printable. Qed.
Lemma lit_lha_error : Forall printable s_lha_error. Proof. lit_printable. Qed.
Definition allowedb (b : N) : bool := printableb b || (b =? 10).
Lemma forallb_allowed l : forallb allowedb l = true -> Forall allowed l.
Proof.
  rewrite forallb_forall, Forall_forall. intros H x Hx. specialize (H x Hx). unfold allowedb in H.
  apply Bool.orb_true_iff in H. destruct H as [H|H].
  - left. apply printableb_ok. exact H.
  - right. apply N.eqb_eq. exact H.
Qed.
Lemma lit_help_1 : Forall allowed s_help_1. Proof. apply forallb_allowed. vm_compute. reflexivity. Qed.
Lemma lit_help_2 : Forall allowed s_help_2. Proof. apply forallb_allowed. vm_compute. reflexivity. Qed.

(* ------------------------------------------------------------------ *)
(* the print functions of src/extract.c                                 *)
Lemma print_filename_out filename status : Forall printable status -> Forall allowed_out (print_filename filename status).
Proof.
  intros Hs. unfold print_filename. rewrite !Forall_app. repeat split.
  - constructor; [exact out_13|constructor].
  - apply safe_printf_out.
  - exact lit_tab_dash.
  - apply Forall_printable_out. exact Hs.
  - apply Forall_printable_out. exact lit_two_spaces.
Qed.

Lemma print_filename_brief_out filename : Forall allowed_out (print_filename_brief filename).
Proof.
  unfold print_filename_brief. rewrite Forall_app. split; [constructor; [exact out_13|constructor]|apply safe_printf_out].
Qed.

Lemma printable_46 : printable 46. Proof. unfold printable; lia. Qed.
Lemma printable_111 : printable 111. Proof. unfold printable; lia. Qed.

Lemma progress_callback_out o filename operation block num_blocks :
  Forall printable operation -> Forall allowed_out (progress_callback o filename operation block num_blocks).
Proof.
  intros Hop. unfold progress_callback.
  destruct (2 <=? o_quiet o); [constructor|].
  destruct (o_quiet o =? 1).
  - destruct (block =? 0); [apply print_filename_brief_out|constructor].
  - cbv zeta. destruct (block =? 0).
    + rewrite !Forall_app. repeat split.
      * apply print_filename_out. exact Hop.
      * apply Forall_printable_out. apply Forall_repeat. exact printable_46.
      * apply print_filename_out. exact Hop.
    + match goal with |- Forall _ (if ?c then _ else _) => destruct c end;
        [constructor; [apply printable_out; exact printable_111|constructor]|constructor].
Qed.

Lemma progress_output_out o filename operation evs :
  Forall printable operation -> Forall allowed_out (progress_output o filename operation evs).
Proof.
  intros Hop. unfold progress_output. apply Forall_concat. apply Forall_forall. intros x Hx.
  apply in_map_iff in Hx. destruct Hx as [e [<- _]]. apply progress_callback_out. exact Hop.
Qed.

Lemma print_symlink_line_allowed src dest : Forall allowed (print_symlink_line src dest).
Proof. unfold print_symlink_line. apply safe_printf_nl_allowed. Qed.
Lemma print_symlink_line_out src dest : Forall allowed_out (print_symlink_line src dest).
Proof. apply Forall_allowed_out, print_symlink_line_allowed. Qed.

(* injection / destruct must not compute inside the printed texts *)
Local Opaque safe_printf print_filename progress_output print_symlink_line.

Section CliPrintable.
  Variable mktime : N -> N -> N -> N -> Z -> N -> N.
  Variable junk : N.

  Lemma next_header_clean f st h st1 : clean st -> next_header mktime f st = Ok (h, st1) -> clean st1.
  Proof.
    intros Hc. unfold next_header. intros H. apply bind_ok in H. destruct H as ([h' r'] & _ & H).
    cbv beta iota in H. injection H as _ <-. exact Hc.
  Qed.

  (* ---------------- t ---------------- *)
  (* test_archived_file_crc: "VERIFY <name>" (dry run), the progress display, "Tested" / "CRC error" *)
  Lemma test_archived_file_crc_clean h st v st' :
    clean st -> test_archived_file_crc junk h st = Ok (v, st') -> clean st'.
  Proof.
    intros Hc. unfold test_archived_file_crc. destruct (o_dry_run (cs_opts st)).
    - intros H. injection H as _ <-. destruct (negb (is_dir_type h)); [|exact Hc].
      apply clean_put_out; [exact Hc|apply safe_printf_nl_out].
    - intros H. apply bind_ok in H. destruct H as ([[success evs] r'] & _ & H). cbv beta iota zeta in H.
      injection H as _ <-.
      assert (H1 : clean (put_out (set_reader st r')
                    (progress_output (cs_opts st) (file_full_path h (cs_opts st)) s_testing evs))).
      { apply clean_put_out; [exact Hc|apply progress_output_out; exact lit_testing]. }
      destruct (invoked evs && (o_quiet (cs_opts st) <? 2)); [|exact H1].
      apply clean_put_out; [exact H1|].
      apply Forall_app. split; [|constructor; [exact out_10|constructor]].
      apply print_filename_out. destruct success; [exact lit_tested|exact lit_crc_error].
  Qed.

  Lemma test_file_crc_clean f st v st' : clean st -> test_file_crc mktime junk f st = Ok (v, st') -> clean st'.
  Proof.
    intros Hc. unfold test_file_crc. intros H.
    apply (loop_inv (test_file_crc_step mktime junk f) (fun s => clean (snd s)) (fun r => clean (snd r))) in H.
    - exact H.
    - clear. intros [result s] x Hi. cbn [snd] in Hi. unfold test_file_crc_step. intros H.
      apply bind_ok in H. destruct H as ([h st1] & Hn & H). cbv beta iota in H.
      apply next_header_clean in Hn; [|exact Hi].
      destruct h as [hd|].
      + apply bind_ok in H. destruct H as ([r st2] & Ht & H). apply test_archived_file_crc_clean in Ht; [|exact Hn].
        destruct r as [ok|c]; injection H as <-; cbn [snd]; exact Ht.
      + injection H as <-. cbn [snd]. exact Hn.
    - exact Hc.
  Qed.

  (* ---------------- x / e ---------------- *)
  (* file_exists: "Failed to read file type of '<name>'" *)
  Lemma file_exists_clean filename st v st' : clean st -> file_exists filename st = Ok (v, st') -> clean st'.
  Proof.
    intros Hc. unfold file_exists.
    destruct (arch_exists (cs_fs st) filename); intros H; injection H as _ <-; try exact Hc.
    apply clean_put_err; [exact Hc|apply safe_printf_nl_allowed].
  Qed.

  (* check_parent_directory: three messages with the parent path *)
  Lemma check_parent_directory_clean path st ok st' :
    clean st -> check_parent_directory path st = (ok, st') -> clean st'.
  Proof.
    intros Hc. unfold check_parent_directory. destruct (arch_exists (cs_fs st) path).
    - destruct (arch_mkdir (cs_fs st) path 493) as [okm f1]. destruct (negb okm); intros H; injection H as _ <-.
      + apply clean_put_err; [exact Hc|apply safe_printf_nl_allowed].
      + exact Hc.
    - intros H; injection H as _ <-. apply clean_put_err; [exact Hc|apply safe_printf_nl_allowed].
    - intros H; injection H as _ <-. exact Hc.
    - intros H; injection H as _ <-. apply clean_put_err; [exact Hc|apply safe_printf_nl_allowed].
  Qed.

  Lemma mpd_loop_clean rest : forall pre st ok st', clean st -> mpd_loop pre rest st = (ok, st') -> clean st'.
  Proof.
    induction rest as [|c r IH]; intros pre st ok st' Hc; cbn [mpd_loop].
    - intros H; injection H as _ <-. exact Hc.
    - destruct (c =? 47).
      + destruct (check_parent_directory (rev pre) st) as [okc st1] eqn:Ec.
        apply check_parent_directory_clean in Ec; [|exact Hc].
        destruct (negb okc).
        * intros H; injection H as _ <-. exact Ec.
        * apply IH. exact Ec.
      + apply IH. exact Hc.
  Qed.

  Lemma make_parent_directories_clean path st ok st' :
    clean st -> make_parent_directories path st = (ok, st') -> clean st'.
  Proof.
    intros Hc. unfold make_parent_directories.
    destruct (leading_slashes (strip_trailing_slashes path)) as [lead rest]. apply mpd_loop_clean. exact Hc.
  Qed.

  (* prompt_user: fprintf(stderr, "%s", message) with the caller's message *)
  Lemma prompt_user_clean message st v st' :
    Forall allowed message -> clean st -> prompt_user message st = Ok (v, st') -> clean st'.
  Proof.
    intros Hm Hc. unfold prompt_user.
    destruct (prompt_read (stdin_data (put_err st message)) 0) as [[c rest]|]; intros H; injection H as _ <-;
      apply clean_set_stdin_data; apply clean_put_err; assumption.
  Qed.

  (* confirm_file_overwrite: "<name> " then the literal prompt *)
  Lemma confirm_file_overwrite_clean filename st v st' :
    clean st -> confirm_file_overwrite filename st = Ok (v, st') -> clean st'.
  Proof.
    intros Hc. unfold confirm_file_overwrite. destruct (o_overwrite_policy (cs_opts st)).
    - intros H.
      apply (loop_inv (confirm_step filename) clean (fun r => clean (snd r))) in H.
      + exact H.
      + clear. intros s x Hi. unfold confirm_step. intros H.
        apply bind_ok in H. destruct H as ([r st2] & Hp & H).
        apply prompt_user_clean in Hp.
        2:{ apply Forall_printable_allowed. exact lit_overwrite_prompt. }
        2:{ apply clean_put_err; [exact Hi|]. apply Forall_printable_allowed. apply safe_printf_printable. }
        destruct r as [response|c].
        * cbv zeta in H.
          destruct (tolower response =? 121); [injection H as <-; exact Hp|].
          destruct ((tolower response =? 110) || (tolower response =? 10)); [injection H as <-; exact Hp|].
          destruct (tolower response =? 97); [injection H as <-; exact Hp|].
          destruct (tolower response =? 115); injection H as <-; exact Hp.
        * injection H as <-. exact Hp.
      + exact Hc.
    - intros H; injection H as _ <-. exact Hc.
    - intros H; injection H as _ <-. exact Hc.
  Qed.

  (* extract_archived_file: the overwrite dialogue, "<name> : Skipped...", the parent
     directory messages, the progress display, "Melted" / "Failure", "Symbolic Link a -> b" *)
  Lemma extract_archived_file_clean h st v st' :
    clean st -> extract_archived_file junk h st = Ok (v, st') -> clean st'.
  Proof.
    intros Hc. unfold extract_archived_file. cbv zeta.
    set (filename := file_full_path h (cs_opts st)).
    intros H. apply cbind_ok in H.
    destruct H as [(skip & st1 & Es & H)|(c & st1 & Es & H)].
    2:{ injection H as _ <-.
        destruct (negb (is_dir_type h && negb match h_symlink_target h with Some _ => true | None => false end)
                  && negb match h_symlink_target h with Some _ => true | None => false end); [|discriminate].
        apply cbind_ok in Es. destruct Es as [(ex & sta & Ef & Es)|(c' & sta & Ef & Es)].
        - apply file_exists_clean in Ef; [|exact Hc]. destruct ex; [|discriminate].
          apply cbind_ok in Es. destruct Es as [(yes & stb & Eo & Es)|(c'' & stb & Eo & Es)]; [discriminate|].
          apply confirm_file_overwrite_clean in Eo; [|exact Ef]. injection Es as _ <-. exact Eo.
        - apply file_exists_clean in Ef; [|exact Hc]. injection Es as _ <-. exact Ef. }
    assert (H1 : clean st1).
    { destruct (negb (is_dir_type h && negb match h_symlink_target h with Some _ => true | None => false end)
                && negb match h_symlink_target h with Some _ => true | None => false end).
      - apply cbind_ok in Es. destruct Es as [(ex & sta & Ef & Es)|(c' & sta & Ef & Es)]; [|discriminate].
        apply file_exists_clean in Ef; [|exact Hc]. destruct ex.
        + apply cbind_ok in Es. destruct Es as [(yes & stb & Eo & Es)|(c'' & stb & Eo & Es)]; [|discriminate].
          apply confirm_file_overwrite_clean in Eo; [|exact Ef]. injection Es as _ <-. exact Eo.
        + injection Es as _ <-. exact Ef.
      - injection Es as _ <-. exact Hc. }
    clear Es. destruct skip.
    - injection H as _ <-. destruct (is_skip (o_overwrite_policy (cs_opts st1))); [|exact H1].
      apply clean_put_out; [exact H1|apply safe_printf_nl_out].
    - match type of H with (if ?c then _ else _) = _ => destruct c end; [injection H as _ <-; exact H1|].
      destruct (make_parent_directories filename st1) as [ok st2] eqn:Em.
      apply make_parent_directories_clean in Em; [|exact H1].
      destruct (negb ok); [injection H as _ <-; exact Em|].
      apply bind_ok in H. destruct H as ([[[success evs] r'] f'] & _ & H). cbv beta iota in H.
      injection H as _ <-.
      assert (H3 : clean (put_out (set_fs (set_reader st2 r') f')
                    (progress_output (cs_opts st1) filename s_melting evs))).
      { apply clean_put_out; [exact Em|apply progress_output_out; exact lit_melting]. }
      destruct (negb (lha_reader_current_is_fake r') && (o_quiet (cs_opts st1) <? 2)); [|exact H3].
      destruct (invoked evs).
      + apply clean_put_out; [exact H3|].
        apply Forall_app. split; [|constructor; [exact out_10|constructor]].
        apply print_filename_out. destruct success; [exact lit_melted|exact lit_failure].
      + destruct (h_symlink_target h) as [t|]; [|exact H3].
        apply clean_put_out; [exact H3|apply print_symlink_line_out].
  Qed.

  (* extract_archive_dry_run: "EXTRACT <name>", "|<target> (directory)", " (directory)", " but file is exist." *)
  Lemma dry_run_step_clean f result st x :
    clean st -> dry_run_step mktime f (result, st) = Ok x ->
    match x with inl s' => clean (snd s') | inr r => clean (snd r) end.
  Proof.
    intros Hc. unfold dry_run_step. intros H.
    apply bind_ok in H. destruct H as ([h st1] & Hn & H). cbv beta iota in H.
    apply next_header_clean in Hn; [|exact Hc].
    destruct h as [hd|].
    - cbv zeta in H. apply bind_ok in H. destruct H as ([r st3] & Hr & H).
      assert (H2 : clean (put_out st1 (safe_printf (s_extract ++ file_full_path hd (cs_opts st1))))).
      { apply clean_put_out; [exact Hn|apply safe_printf_out]. }
      assert (H3 : clean st3).
      { destruct (h_symlink_target hd) as [t|].
        - injection Hr as _ <-. apply clean_put_out; [exact H2|apply safe_printf_out].
        - destruct (is_dir_type hd).
          + injection Hr as _ <-. apply clean_put_out; [exact H2|apply safe_printf_out].
          + apply cbind_ok in Hr. destruct Hr as [(ex & sta & Ef & Hr)|(c & sta & Ef & Hr)];
              (apply file_exists_clean in Ef; [|exact H2]); injection Hr as _ <-.
            * destruct ex; [apply clean_put_out; [exact Ef|apply safe_printf_out]|exact Ef].
            * exact Ef. }
      destruct r as [u|c]; injection H as <-; cbn [snd]; [|exact H3].
      apply clean_put_out; [exact H3|constructor; [exact out_10|constructor]].
    - injection H as <-. cbn [snd]. exact Hn.
  Qed.

  Lemma extract_archive_dry_run_clean f st v st' :
    clean st -> extract_archive_dry_run mktime f st = Ok (v, st') -> clean st'.
  Proof.
    intros Hc. unfold extract_archive_dry_run. intros H.
    apply (loop_inv (dry_run_step mktime f) (fun s => clean (snd s)) (fun r => clean (snd r))) in H.
    - exact H.
    - clear. intros [result s] x Hi Hx. cbn [snd] in Hi. exact (dry_run_step_clean _ _ _ _ Hi Hx).
    - exact Hc.
  Qed.

  Lemma extract_archive_clean f st v st' :
    clean st -> extract_archive mktime junk f st = Ok (v, st') -> clean st'.
  Proof.
    intros Hc. unfold extract_archive. destruct (o_dry_run (cs_opts st)).
    - apply extract_archive_dry_run_clean. exact Hc.
    - intros H.
      apply (loop_inv (extract_archive_step mktime junk f) (fun s => clean (snd s)) (fun r => clean (snd r))) in H.
      + exact H.
      + clear. intros [result s] x Hi. cbn [snd] in Hi. unfold extract_archive_step. intros H.
        apply bind_ok in H. destruct H as ([h st1] & Hn & H). cbv beta iota in H.
        apply next_header_clean in Hn; [|exact Hi].
        destruct h as [hd|].
        * apply bind_ok in H. destruct H as ([r st2] & Ht & H). apply extract_archived_file_clean in Ht; [|exact Hn].
          destruct r as [ok|c]; injection H as <-; cbn [snd]; exact Ht.
        * injection H as <-. cbn [snd]. exact Hn.
      + exact Hc.
  Qed.

  (* p with option n is the dry run of extraction *)
  Lemma print_archive_dry_clean f st v st' :
    o_dry_run (cs_opts st) = true -> clean st -> print_archive mktime junk f st = Ok (v, st') -> clean st'.
  Proof. unfold print_archive. intros -> Hc. apply extract_archive_dry_run_clean. exact Hc. Qed.

  (* ---------------- main ---------------- *)
  Variable localtime : N -> tm.
  Variable now : N.
  Variable stdin_kind : skind.
  Variable strerror : bool -> list N.

  (* the commands whose whole output is covered here: all but p without n *)
  Definition no_data_dump (mode : program_mode) (o : lha_options) : bool :=
    match mode with
    | MODE_PRINT => o_dry_run o
    | _ => true
    end.

  Lemma list_basic_allowed flt o mtime hs txt :
    list_file_basic localtime flt o now mtime hs = Ok txt -> Forall allowed txt.
  Proof.
    unfold list_file_basic. intros Q. destruct column_names_printable as [H1 [H2 [H3 H4]]].
    apply bind_ok in Q. destruct Q as [cols [Hcols Q]].
    eapply list_file_contents_allowed; [|exact Q].
    destruct (o_verbose o); [exact (cols_okb_names _ _ H2 Hcols)|exact (cols_okb_names _ _ H1 Hcols)].
  Qed.

  Lemma list_verbose_allowed flt o mtime hs txt :
    list_file_verbose localtime flt o now mtime hs = Ok txt -> Forall allowed txt.
  Proof.
    unfold list_file_verbose. intros Q. destruct column_names_printable as [H1 [H2 [H3 H4]]].
    apply bind_ok in Q. destruct Q as [cols [Hcols Q]].
    eapply list_file_contents_allowed; [|exact Q].
    destruct (o_verbose o); [exact (cols_okb_names _ _ H4 Hcols)|exact (cols_okb_names _ _ H3 Hcols)].
  Qed.

  (* what fopen's failure prints: "LHa: Error: <argv[2]> <strerror>\n" *)
  Definition open_error_text (filename : list N) (e : bool) : list N :=
    s_lha_error ++ filename ++ [32] ++ strerror e ++ [10].

  (* do_command.  Either the archive could not be opened -- then nothing but the
     error line is added to stderr, and that line is the fixed text around argv's
     archive name -- or it was, and then everything written is clean whatever argv is. *)
  Theorem do_command_clean_cases mode filename filters st0 v st :
    no_data_dump mode (cs_opts st0) = true -> clean st0 ->
    do_command mktime junk localtime now stdin_kind strerror mode filename filters st0 = Ok (v, st) ->
    clean st \/
    (exists e, v = RExit exit_minus_1 /\ is_dash filename = false /\ fs_fopen_rb (cs_fs st0) filename = OpenFail e /\
               cs_out st = cs_out st0 /\ cs_err st = open_error_text filename e :: cs_err st0).
  Proof.
    intros Hnd Hc. unfold do_command.
    match goal with |- cbind ?m _ = _ -> _ => destruct m as [[[[[src mt] shared]|c] sta]| |] eqn:Eo end;
      cbn [cbind]; try discriminate.
    2:{ intros H. injection H as <- <-. right.
        destruct (is_dash filename); [discriminate|].
        destruct (fs_fopen_rb (cs_fs st0) filename) as [| |e]; try discriminate.
        injection Eo as <- <-. exists e. repeat split. }
    assert (Ea : sta = st0).
    { destruct (is_dash filename); [injection Eo as _ _ _ <-; reflexivity|].
      destruct (fs_fopen_rb (cs_fs st0) filename); try discriminate; injection Eo as _ _ _ <-; reflexivity. }
    subst sta. clear Eo. left. revert H. 
    match goal with |- context [match mode with MODE_UNKNOWN => Ok (RVal true, ?s1) | _ => _ end] =>
      assert (H1 : clean s1) by exact Hc; assert (Eopt : cs_opts s1 = cs_opts st0) by reflexivity;
      set (st1 := s1) in * end.
    destruct mode.
    - intros H. injection H as _ <-. exact H1.
    - intros H. apply bind_ok in H. destruct H as ([r' hs] & _ & H). cbv beta iota in H.
      apply bind_ok in H. destruct H as (txt & Ht & H). injection H as _ <-.
      apply clean_put_out; [exact H1|]. apply Forall_allowed_out. exact (list_basic_allowed _ _ _ _ _ Ht).
    - intros H. apply bind_ok in H. destruct H as ([r' hs] & _ & H). cbv beta iota in H.
      apply bind_ok in H. destruct H as (txt & Ht & H). injection H as _ <-.
      apply clean_put_out; [exact H1|]. apply Forall_allowed_out. exact (list_verbose_allowed _ _ _ _ _ Ht).
    - intros H. exact (test_file_crc_clean _ _ _ _ H1 H).
    - intros H. exact (extract_archive_clean _ _ _ _ H1 H).
    - intros H. apply print_archive_dry_clean in H; [exact H| |exact H1]. rewrite Eopt. exact Hnd.
  Qed.

  (* ---- the whole program ---- *)
  Definition data_free_invocation (argv : list (list N)) : bool :=
    match parse_main (tl argv) with
    | Some (mode, o, _, _) => no_data_dump mode o
    | None => true                                   (* the help page *)
    end.

  Definition help_text (progname : list N) : list N :=
    PACKAGE_NAME ++ s_v ++ PACKAGE_VERSION ++ s_help_1 ++ progname ++ s_help_2.

  Definition progname_of (argv : list (list N)) : list N := match argv with p :: _ => p | [] => [] end.

  Lemma start_state_clean s stdin o : clean (start_state s stdin o).
  Proof. split; constructor. Qed.

  Lemma parse_main_file args mode o file filters :
    parse_main args = Some (mode, o, file, filters) -> In file args.
  Proof.
    unfold parse_main. destruct args as [|cmd [|f rest]]; try discriminate.
    - intros H. injection H as _ _ <- _. left. reflexivity.
    - destruct (parse_command_line cmd) as [[m o']|]; [|discriminate].
      intros H. injection H as _ _ <- _. right. left. reflexivity.
  Qed.

  (* The output of lha_main, factored: either everything is clean (NO hypothesis on
     argv), or it is one of the two texts that echo an argv string verbatim. *)
  Theorem lha_main_output_cases argv stdin s r :
    data_free_invocation argv = true ->
    lha_main mktime junk localtime now stdin_kind strerror argv stdin s = Ok r ->
    (Forall allowed_out (cr_stdout r) /\ Forall allowed (cr_stderr r)) \/
    (exists mode o file filters e,
       parse_main (tl argv) = Some (mode, o, file, filters) /\ fs_fopen_rb s file = OpenFail e /\
       cr_stdout r = [] /\ cr_stderr r = open_error_text file e) \/
    (parse_main (tl argv) = None /\ cr_stdout r = help_text (progname_of argv) /\ cr_stderr r = []).
  Proof.
    unfold data_free_invocation, lha_main. intros Hnd H.
    apply bind_ok in H. destruct H as ([v st] & Hc & H). cbv beta iota in H. injection H as <-.
    cbn [cr_stdout cr_stderr].
    destruct (parse_main (tl argv)) as [[[[mode o] file] filters]|] eqn:Ep.
    - apply do_command_clean_cases in Hc; [|exact Hnd|apply start_state_clean].
      destruct Hc as [Hc|(e & _ & _ & Hf & Ho & He)].
      + left. split; [apply clean_stdout; exact Hc|apply clean_stderr; exact Hc].
      + right; left. exists mode, o, file, filters, e. split; [reflexivity|]. split; [exact Hf|].
        unfold stdout_bytes, stderr_bytes. rewrite Ho, He. cbn [start_state cs_out cs_err rev concat app].
        split; [reflexivity|]. rewrite app_nil_r. reflexivity.
    - right; right. unfold help_page in Hc. injection Hc as _ <-. split; [reflexivity|].
      unfold stdout_bytes, stderr_bytes. cbn [start_state cs_out cs_err put_out rev concat app].
      split; [rewrite app_nil_r; reflexivity|reflexivity].
  Qed.

  (* C18 for the whole tool.  Hypotheses: the invocation is not a data dump (p
     without n); libc's strerror text and the strings of argv are printable (the
     help page echoes argv[0], the fopen error echoes the archive name). *)
  Theorem lha_main_output_clean argv stdin s r :
    data_free_invocation argv = true ->
    (forall e, Forall printable (strerror e)) ->
    Forall (Forall printable) argv ->
    lha_main mktime junk localtime now stdin_kind strerror argv stdin s = Ok r ->
    Forall allowed_out (cr_stdout r) /\ Forall allowed (cr_stderr r).
  Proof.
    intros Hnd Hse Hargv H.
    destruct (lha_main_output_cases argv stdin s r Hnd H)
      as [Hc|[(mode & o & file & filters & e & Ep & _ & Ho & He)|(Ep & Ho & He)]].
    - exact Hc.
    - rewrite Ho, He. split; [constructor|].
      assert (Hfile : Forall printable file).
      { apply parse_main_file in Ep. rewrite Forall_forall in Hargv. apply Hargv.
        destruct argv as [|p a]; [destruct Ep|right; exact Ep]. }
      unfold open_error_text. rewrite !Forall_app. repeat split.
      + apply Forall_printable_allowed. exact lit_lha_error.
      + apply Forall_printable_allowed. exact Hfile.
      + constructor; [apply printable_allowed; exact printable_32|constructor].
      + apply Forall_printable_allowed. apply Hse.
      + constructor; [exact allowed_10|constructor].
    - rewrite Ho, He. split; [|constructor].
      assert (Hprog : Forall printable (progname_of argv)).
      { destruct argv as [|p a]; [constructor|]. inversion Hargv; assumption. }
      unfold help_text. apply Forall_allowed_out. rewrite !Forall_app. repeat split.
      + apply Forall_printable_allowed. exact lit_package_name.
      + apply Forall_printable_allowed. exact lit_v.
      + apply Forall_printable_allowed. exact lit_package_version.
      + exact lit_help_1.
      + apply Forall_printable_allowed. exact Hprog.
      + exact lit_help_2.
  Qed.

  (* the same in the words of the property: every output byte is in
     {0x20..0x7E, LF, CR, TAB} *)
  Corollary lha_main_output_bytes argv stdin s r :
    data_free_invocation argv = true ->
    (forall e, Forall printable (strerror e)) ->
    Forall (Forall printable) argv ->
    lha_main mktime junk localtime now stdin_kind strerror argv stdin s = Ok r ->
    forall b, In b (cr_stdout r ++ cr_stderr r) -> (32 <= b <= 126) \/ b = 10 \/ b = 13 \/ b = 9.
  Proof.
    intros Hnd Hse Hargv H b Hb. destruct (lha_main_output_clean argv stdin s r Hnd Hse Hargv H) as [Ho He].
    apply in_app_or in Hb. rewrite Forall_forall in Ho, He. destruct Hb as [Hb|Hb].
    - specialize (Ho b Hb). unfold allowed_out, printable in Ho. lia.
    - specialize (He b Hb). unfold allowed in He. lia.
  Qed.
End CliPrintable.

(* which command lines are data-free: every command letter but p, and p with n *)
Lemma data_free_letters c opts mode o :
  In c [108; 118; 116; 120; 101] ->
  (parse_command_line (c :: opts) = Some (mode, o) -> no_data_dump mode o = true) /\
  (parse_command_line (45 :: c :: opts) = Some (mode, o) -> no_data_dump mode o = true).
Proof.
  intros Hc. cbn [In] in Hc.
  destruct Hc as [<-|[<-|[<-|[<-|[<-|[]]]]]]; split; unfold parse_command_line; cbn;
    destruct (parse_options opts init_options); try discriminate; intros H; injection H as <- <-; reflexivity.
Qed.

(* "lha p...n...": print mode with an n before any w= argument is a dry run *)
Lemma print_n_data_free pre rest mode o :
  ~ In 119 pre ->
  (parse_command_line (112 :: pre ++ 110 :: rest) = Some (mode, o) -> no_data_dump mode o = true) /\
  (parse_command_line (45 :: 112 :: pre ++ 110 :: rest) = Some (mode, o) -> no_data_dump mode o = true).
Proof.
  intros Hw. split; unfold parse_command_line; cbn;
    destruct (parse_options (pre ++ 110 :: rest) init_options) as [o1|] eqn:E; try discriminate;
    intros H; injection H as <- <-; cbn [no_data_dump]; eapply parse_options_n; eauto.
Qed.

(* the test case of the differential test *)
Theorem cli_run_output_clean mktime localtime strerror uid0 now mtime argv archive stdin setup r :
  data_free_invocation argv = true ->
  (forall e, Forall printable (strerror e)) ->
  Forall (Forall printable) argv ->
  cli_run mktime localtime strerror uid0 now mtime argv archive stdin setup = Ok r ->
  Forall allowed_out (cr_stdout r) /\ Forall allowed (cr_stderr r).
Proof. unfold cli_run. intros A B C D. eapply lha_main_output_clean; eauto. Qed.

Print Assumptions do_command_clean_cases.
Print Assumptions lha_main_output_cases.
Print Assumptions lha_main_output_clean.
Print Assumptions lha_main_output_bytes.
Print Assumptions cli_run_output_clean.
Print Assumptions data_free_letters.
Print Assumptions print_n_data_free.

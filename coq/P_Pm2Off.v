(* P_Pm2Off.v -- the -pm2- offset table (C04): read_offset_tree, run on the
   bits of a well-formed offset table (S_Pm.off_bits / wf_offtab), consumes
   exactly them and leaves an offset tree that decodes S_Pm.off_code: the
   single class in 0 bits when exactly one length is non-zero, otherwise the
   canonical prefix code of the lengths (build_tree_canonical with the 17-entry
   offset tree).

     off_decodes      : what "the tree decodes the table" means
     off_tree_ok      : the statement above, with the frame (nothing but the
                        bit reader and the offset tree changes) *)
From Lhasa Require Import Base ListN DecBase BitReader Loop Sweep Tree PmaCommon Generated Pm2
  S_Larc S_Pm P_BitReader P_Tree P_PmaCommon P_Pm2 P_Pm2Rt P_TreeCanonPm P_Pm2Lens.
From Coq Require Import ZifyBool ZifyN ZifyNat.
Local Open Scope N_scope.

(* the tree decodes the offset table's codes, over the list source *)
Definition off_decodes (t : arr) (ol : list N) : Prop :=
  forall cls code r (c : src) rest, off_code ol cls = Some code -> bsr_wf r -> src_ok c ->
    pending r c = code ++ rest ->
    exists r' c', read_from_tree 128 src_cb t r c = Ok (Some cls, r', c') /\ bsr_wf r' /\ src_ok c' /\
                  pending r' c' = rest.

(* ------------------------------------------------------------------ *)
(* the lengths, the count of non-zero ones and the last non-zero index *)

Lemma nz_zero_nth : forall ls i, nz ls = 0 -> nth i ls 0 = 0.
Proof.
  induction ls as [|x r IH]; intros i H; [destruct i; reflexivity|].
  rewrite nz_cons in H. destruct (N.eqb_spec x 0) as [E|E]; [|lia].
  destruct i as [|i]; [exact E|]. cbn [nth]. apply IH. lia.
Qed.

Lemma nz_one_unique : forall ls i j, nz ls = 1 ->
  nth i ls 0 <> 0 -> nth j ls 0 <> 0 -> i = j.
Proof.
  induction ls as [|x r IH]; intros i j H Hi Hj.
  - destruct i; cbn [nth] in Hi; contradiction.
  - rewrite nz_cons in H. destruct (N.eqb_spec x 0) as [E|E].
    + destruct i as [|i]; [cbn [nth] in Hi; contradiction|].
      destruct j as [|j]; [cbn [nth] in Hj; contradiction|].
      cbn [nth] in Hi, Hj. f_equal. apply IH; [lia|exact Hi|exact Hj].
    + assert (Hr : nz r = 0) by lia.
      destruct i as [|i]; [|cbn [nth] in Hi; rewrite (nz_zero_nth r i Hr) in Hi; contradiction].
      destruct j as [|j]; [reflexivity|cbn [nth] in Hj; rewrite (nz_zero_nth r j Hr) in Hj; contradiction].
Qed.

Lemma nz_le_len ls : nz ls <= nlen ls.
Proof.
  induction ls as [|x r IH]; [cbn; lia|]. rewrite nz_cons, nlen_cons. destruct (x =? 0); lia.
Qed.

Lemma read_offset_lengths_src2 ls : forall off ol so nc r (c : src) rest,
  bsr_wf r -> src_ok c -> Forall (fun l => l < 8) ls -> off + nlen ls <= alen ol ->
  nc + nlen ls < 2 ^ 32 -> pending r c = flat_map (nbits 3) ls ++ rest ->
  exists ol' so' r' c',
    read_offset_lengths src_cb (length ls) off ol so nc r c = Ok (Some (ol', so', nc + nz ls), r', c') /\
    bsr_wf r' /\ src_ok c' /\ pending r' c' = rest /\ alen ol' = alen ol /\
    (forall j, j < off -> aget ol' j = aget ol j) /\
    (forall j, j < nlen ls -> aget ol' (off + j) = nth (N.to_nat j) ls 0) /\
    (nz ls = 0 -> so' = so) /\
    (0 < nz ls -> off <= so' /\ so' < off + nlen ls /\ nth (N.to_nat (so' - off)) ls 0 <> 0).
Proof.
  induction ls as [|l ls IH]; intros off ol so nc r c rest Hr Hc Hls Hoff Hnc Hp.
  - exists ol, so, r, c. cbn [nz]. rewrite N.add_0_r. split; [reflexivity|].
    split; [exact Hr|]. split; [exact Hc|]. split; [exact Hp|]. split; [reflexivity|].
    split; [reflexivity|]. split; [intros j Hj; change (nlen (@nil N)) with 0 in Hj; lia|].
    split; [reflexivity|lia].
  - inversion Hls as [|? ? Hl Hls']; subst. rewrite nlen_cons in Hoff, Hnc.
    cbn [flat_map] in Hp. rewrite <- app_assoc in Hp. rewrite nbits_eq in Hp.
    change (N.to_nat 3) with 3%nat in Hp.
    cbn [length]. rewrite read_offset_lengths_S.
    destruct (read_bits_src_prefix r c 3 l (flat_map (nbits 3) ls ++ rest) Hr Hc) as (r1 & c1 & E1 & W1 & S1 & P1);
      [cbn; lia|change (2 ^ N.of_nat 3) with 8; exact Hl|exact Hp|].
    change (N.of_nat 3) with 3 in E1. rewrite E1. cbn [bind]. cbv beta iota.
    rewrite wr_ok by lia. cbn [bind]. rewrite (u8_small l) by lia.
    rewrite nz_cons.
    destruct (N.eqb_spec l 0) as [El|El].
    + destruct (IH (off + 1) (aset ol off l) so nc r1 c1 rest W1 S1 Hls') as
        (ol' & so' & r' & c' & E & W & Sc & P & A & G1 & G2 & Z1 & Z2);
        [rewrite alen_aset; lia|lia|exact P1|].
      exists ol', so', r', c'. rewrite alen_aset in A. rewrite N.add_0_l.
      split; [exact E|]. split; [exact W|]. split; [exact Sc|]. split; [exact P|]. split; [exact A|].
      split; [intros j Hj; rewrite G1 by lia; apply aget_aset_ne; lia|].
      split.
      { intros j Hj. rewrite nlen_cons in Hj. destruct (N.eq_dec j 0) as [->|Hj0].
        - rewrite N.add_0_r, G1 by lia. rewrite aget_aset_eq. reflexivity.
        - replace (off + j) with (off + 1 + (j - 1)) by lia. rewrite G2 by lia.
          replace (N.to_nat j) with (S (N.to_nat (j - 1))) by lia. reflexivity. }
      split; [exact Z1|].
      intros Hpos. destruct (Z2 Hpos) as (B1 & B2 & B3). split; [lia|]. split; [rewrite nlen_cons; lia|].
      replace (N.to_nat (so' - off)) with (S (N.to_nat (so' - (off + 1)))) by lia. exact B3.
    + assert (Eu : u32 (nc + 1) = nc + 1).
      { rewrite u32_mod. apply N.mod_small. lia. }
      rewrite Eu.
      destruct (IH (off + 1) (aset ol off l) off (nc + 1) r1 c1 rest W1 S1 Hls') as
        (ol' & so' & r' & c' & E & W & Sc & P & A & G1 & G2 & Z1 & Z2);
        [rewrite alen_aset; lia|lia|exact P1|].
      exists ol', so', r', c'. rewrite alen_aset in A.
      replace (nc + (1 + nz ls)) with (nc + 1 + nz ls) by lia.
      split; [exact E|]. split; [exact W|]. split; [exact Sc|]. split; [exact P|]. split; [exact A|].
      split; [intros j Hj; rewrite G1 by lia; apply aget_aset_ne; lia|].
      split.
      { intros j Hj. rewrite nlen_cons in Hj. destruct (N.eq_dec j 0) as [->|Hj0].
        - rewrite N.add_0_r, G1 by lia. rewrite aget_aset_eq. reflexivity.
        - replace (off + j) with (off + 1 + (j - 1)) by lia. rewrite G2 by lia.
          replace (N.to_nat j) with (S (N.to_nat (j - 1))) by lia. reflexivity. }
      split; [lia|]. intros _. rewrite nlen_cons.
      destruct (N.eq_dec (nz ls) 0) as [Hz|Hz].
      * rewrite (Z1 Hz). split; [lia|]. split; [lia|].
        replace (N.to_nat (off - off)) with O by lia. cbn [nth]. exact El.
      * destruct Z2 as (B1 & B2 & B3); [lia|]. split; [lia|]. split; [lia|].
        replace (N.to_nat (so' - off)) with (S (N.to_nat (so' - (off + 1)))) by lia. exact B3.
Qed.

(* ------------------------------------------------------------------ *)
(* a tree holding a single leaf decodes its symbol in no bits          *)

Lemma single_leaf_read t sym r (c : src) : 0 < alen t -> sym < 128 ->
  aget t 0 = N.lor (elem 128 sym) 128 ->
  read_from_tree 128 src_cb t r c = Ok (Some sym, r, c).
Proof.
  intros Ha Hs E. unfold read_from_tree. rewrite rd_ok by exact Ha. cbn [bind]. rewrite E.
  apply loop_done. unfold tree_step. rewrite (is_leaf_lor 128 7 eq_refl).
  change (128 - 1) with 127. rewrite leaf_sym by exact Hs. reflexivity.
Qed.

(* everything but the bit reader and the offset tree *)
Definition off_frame (s s' : pm2_state) : Prop :=
  pm2_tree_state s' = pm2_tree_state s /\
  pm2_tree_rebuild_remaining s' = pm2_tree_rebuild_remaining s /\
  pm2_ringbuf s' = pm2_ringbuf s /\ pm2_ringbuf_pos s' = pm2_ringbuf_pos s /\
  pm2_history_list s' = pm2_history_list s /\ pm2_code_tree s' = pm2_code_tree s /\
  pm2_need_offset_tree s' = pm2_need_offset_tree s.

Theorem off_tree_ok s (c : src) ol rest : pm2_need_offset_tree s = true ->
  bsr_wf (pm2_bsr s) -> src_ok c -> pm2_offset_tree_extent <= alen (pm2_offset_tree s) ->
  nlen ol <= 8 -> wf_offtab ol = true -> pending (pm2_bsr s) c = off_bits ol ++ rest ->
  exists b s' c', read_offset_tree src_cb s c (nlen ol) = Ok (b, s', c') /\
    bsr_wf (pm2_bsr s') /\ src_ok c' /\ pending (pm2_bsr s') c' = rest /\
    off_decodes (pm2_offset_tree s') ol /\ off_frame s s'.
Proof.
  intros Hneed Hr Hc Hal Hn Hwf Hp.
  unfold wf_offtab in Hwf. apply andb_true_iff in Hwf. destruct Hwf as [Hlt Hshape].
  assert (Hol : Forall (fun l => l < 8) ol).
  { apply Forall_forall. intros x Hx. rewrite forallb_forall in Hlt. specialize (Hlt x Hx). lia. }
  unfold read_offset_tree. rewrite Hneed. cbn [negb].
  replace (N.to_nat (nlen ol)) with (length ol) by (unfold nlen; lia).
  destruct (read_offset_lengths_src2 ol 0 (mk_arr pm2_offset_lengths_extent 0) 0 0 (pm2_bsr s) c rest Hr Hc Hol)
    as (ol' & so' & r' & c' & E & W & S & P & A & _ & G & Z1 & Z2).
  { cbn [mk_arr alen]. unfold pm2_offset_lengths_extent. lia. }
  { change (2 ^ 32) with 4294967296. lia. }
  { exact Hp. }
  rewrite E. cbn [bind]. cbv beta iota zeta. rewrite N.add_0_l.
  change (pm2_offset_tree (pm2_set_bsr s r')) with (pm2_offset_tree s). unfold pm2_TREE_NODE_LEAF.
  cbn [mk_arr alen] in A. unfold pm2_offset_tree_extent in Hal.
  rewrite <- count_nz_nz.
  destruct (N.eqb_spec (count_nz ol) 1) as [E1|E1].
  - (* exactly one class: coded in no bits *)
    rewrite count_nz_nz in E1.
    destruct Z2 as (_ & B2 & B3); [lia|]. rewrite N.add_0_l in B2. rewrite N.sub_0_r in B3.
    unfold set_tree_single. rewrite wr_ok by lia. cbn [bind].
    eexists _, _, c'. split; [reflexivity|].
    cbn [pm2_set_offset_tree pm2_set_bsr pm2_bsr pm2_offset_tree].
    split; [exact W|]. split; [exact S|]. split; [exact P|]. split; [|repeat split].
    intros cls code r0 c0 rest0 Hcode Hr0 Hc0 Hp0. unfold off_code in Hcode.
    rewrite count_nz_nz, E1 in Hcode. change (1 =? 1) with true in Hcode. cbv iota in Hcode.
    destruct (nth_N ol cls) as [l|] eqn:El; [|discriminate].
    destruct (N.eqb_spec l 0) as [El0|El0]; [discriminate|]. injection Hcode as <-.
    cbn [app] in Hp0. unfold nth_N in El.
    assert (Hcls : (N.to_nat cls < length ol)%nat) by (apply nth_error_Some; rewrite El; discriminate).
    assert (Ecls : N.to_nat cls = N.to_nat so').
    { apply (nz_one_unique ol _ _ E1); [|exact B3].
      rewrite (nth_error_nth ol (N.to_nat cls) 0 El). exact El0. }
    assert (cls = so') by lia. subst cls.
    exists r0, c0. split; [|split; [exact Hr0|split; [exact Hc0|exact Hp0]]].
    apply single_leaf_read; [rewrite alen_aset; lia|lia|].
    rewrite aget_aset_eq. rewrite (u8_small so') by lia. reflexivity.
  - (* a complete prefix code *)
    rewrite orb_false_l in Hshape.
    destruct (build_tree_canonical (pm2_offset_tree s) pm2_offset_tree_extent ol' ol)
      as (t' & Et & At & Apos & Hpaths).
    { unfold pm2_offset_tree_extent. exact Hal. }
    { unfold pm2_offset_tree_extent. lia. }
    { rewrite A. unfold pm2_offset_lengths_extent. exact Hn. }
    { lia. }
    { intros i Hi. specialize (G i Hi). rewrite N.add_0_l in G. exact G. }
    { eapply Forall_impl; [|exact Hol]. intros a Ha. cbv beta in Ha. lia. }
    { exact Hshape. }
    { pose proof (nz_le_len ol). rewrite count_nz_nz. unfold pm2_offset_tree_extent. lia. }
    rewrite Et. cbn [bind].
    eexists _, _, c'. split; [reflexivity|].
    cbn [pm2_set_offset_tree pm2_set_bsr pm2_bsr pm2_offset_tree].
    split; [exact W|]. split; [exact S|]. split; [exact P|]. split; [|repeat split].
    intros cls code r0 c0 rest0 Hcode Hr0 Hc0 Hp0. unfold off_code in Hcode.
    destruct (N.eqb_spec (count_nz ol) 1) as [X|_]; [contradiction|].
    apply (tree_path_read t' code cls r0 c0 rest0 Apos (Hpaths cls code Hcode)); try assumption.
    unfold canon_code in Hcode. destruct (nth_N ol cls) as [l|] eqn:El; [|discriminate].
    destruct (l =? 0); [discriminate|]. injection Hcode as <-.
    unfold nbits. rewrite length_bits_of.
    unfold nth_N in El. apply nth_error_In in El. rewrite Forall_forall in Hol. specialize (Hol l El). lia.
Qed.

(* a class the table codes is one of its classes, below 8 *)
Lemma off_code_cls ol cls code : nlen ol <= 8 -> off_code ol cls = Some code -> cls < 8.
Proof.
  intros Hn H. unfold off_code, canon_code in H.
  assert (X : nth_N ol cls <> None).
  { destruct (count_nz ol =? 1); destruct (nth_N ol cls); discriminate. }
  unfold nth_N in X. apply nth_error_Some in X. unfold nlen in Hn. lia.
Qed.

(* non-vacuity: a complete 5-class table and a single-class table *)
Example off_tree_ok_ex :
  wf_offtab [2; 2; 2; 3; 3] = true /\ wf_offtab [0; 0; 7; 0; 0; 0] = true /\
  off_code [2; 2; 2; 3; 3] 4 = Some [true; true; true] /\ off_code [0; 0; 7; 0; 0; 0] 2 = Some [].
Proof. vm_compute. repeat split. Qed.

Print Assumptions off_tree_ok.

(* P_ReaderIndepFull.v -- discharges the hypothesis of P_ReaderIndep.v's
   next_file_after_decode_ops_partial: every decoder reaches the basic reader (its
   callback state) only through callback calls, so the reader it leaves behind is the
   one obtained by some sequence of lha_basic_reader_read_compressed calls.  This is
   the parametricity of the decoder models in the callback state (P_AnyParam.v). *)
From Lhasa Require Import Base DecBase Generated InputStream Header BasicReader AnyDecoder Decoder MacBinary Fs FsRun Reader
  P_AnyParam P_StreamEquiv P_BasicReaderIndep P_ReaderIndep.
Local Open Scope N_scope.

Lemma reach_step c x n : reach c x -> reach c (snd (decoder_callback x n)).
Proof.
  intros [sizes E]. exists (sizes ++ [n]). unfold read_many in *. rewrite fold_left_app. cbn [fold_left].
  rewrite <- E. reflexivity.
Qed.

Theorem decoders_use_callback_only_holds : forall junk, decoders_use_callback_only junk.
Proof.
  intros junk s c o s' c' E.
  exact (any_read_frame breader decoder_callback (fun x => reach c x) (fun x n H => reach_step c x n H)
           junk s c o s' c' (reach_refl c) E).
Qed.

(* the unconditional form *)
Theorem next_file_after_decode_ops : forall mktime junk r f l xs r' f',
  rd_type r = CT_NORMAL -> br_wf (rd_br r) ->
  forallb is_decode_op l = true ->
  run_ops mktime junk (r, f) l = Ok (xs, (r', f')) ->
  f' = f /\ orel rnf_rel (lha_reader_next_file mktime r') (lha_reader_next_file mktime r).
Proof.
  intros mktime junk r f l xs r' f'.
  exact (next_file_after_decode_ops_partial mktime junk r f l xs r' f' (decoders_use_callback_only_holds junk)).
Qed.

Print Assumptions decoders_use_callback_only_holds.
Print Assumptions next_file_after_decode_ops.

(* P_MacExtract.v -- C06: extraction of a regular member of any kind (plain or
   from MacLHA) whose test reports good ("lha t": lha_reader_check = true).

   * [do_decode_any_output]: do_decode with an output file makes the run of the
     test, writes exactly its chunks, and returns the same verdict and reader;
   * [extract_file_total_good]: extract_file is total for such a member;
   * [gen_file_good]: the per-entry lemma of the tool (nothing at the place yet);
   * what the file then holds: [good_plain_content] (the bytes have the
     header's length and CRC) and [good_mac_content] (MacOS: the data fork, or
     the resource fork if the data fork is empty, of a MacBinary envelope; the
     bytes as they are without a valid envelope), from P_MacContent.v. *)
From Lhasa Require Import Base ListN DecBase Loop Generated Crc16 P_Crc16 InputStream Header BasicReader
  AnyDecoder Decoder MacBinary Fs FsRun Reader Glob ListOut CliFilter CliExtract
  P_Decoder P_ReaderCheck P_FsExtract P_ReaderExtract P_CliExtract P_FsReplace P_CliOverwrite P_CliExtractGen
  P_DecoderTrace P_MacContent.
From Coq Require Import ZifyBool ZifyN ZifyNat.
Local Open Scope N_scope.

Set Default Timeout 60.

Section MacExtract.
  Variable junk : N.

  (* the run of do_decode does not depend on the output *)
  Lemma do_decode_any_output r1 f0 res evs0 r2 f0' :
    do_decode junk r1 f0 None = Ok (res, evs0, r2, f0') ->
    exists chunks, dd_run junk None r1 f0 chunks r2 f0' /\
      forall out f, exists evs, do_decode junk r1 f out = Ok (res, evs, r2, fold_left (dd_write out) chunks f).
  Proof.
    intros H. rewrite do_decode_eq in H.
    destruct (loop (dd_step junk None) 64 (r1, f0, [])) as [[[ra fa] evsa]| |] eqn:El; cbn [bind] in H; try discriminate.
    pose proof El as El0. apply loop_sound in El. destruct El as (n & Hl & Hn).
    destruct (dd_loops junk None n _ _ Hl) as [chunks Hrun]. cbn [fst snd] in Hrun.
    assert (Era : ra = r2 /\ fa = f0').
    { destruct (inner_len_crc ra) as [[len crc]|]; [|discriminate]. destruct (rd_curr ra); [|discriminate].
      inversion H; subst. auto. }
    destruct Era as [-> ->].
    exists chunks. split; [exact Hrun|]. intros out f.
    destruct (dd_run_loops junk _ _ _ _ _ _ Hrun out f []) as [evs Hlo].
    destruct (dd_run_loops junk _ _ _ _ _ _ Hrun None f0 []) as [evs' Hl'].
    destruct (loops_det _ _ _ _ _ _ Hl Hl') as [En _].
    exists evs. rewrite do_decode_eq.
    rewrite (loop_complete _ 64 _ _ _ Hlo) by (rewrite <- En; exact Hn). cbn [bind].
    destruct (inner_len_crc r2) as [[len crc]|]; [|discriminate]. destruct (rd_curr r2); [|discriminate].
    inversion H; subst. reflexivity.
  Qed.

  (* a member that tests good *)
  Definition member_good (r : reader) (r2 : reader) : Prop :=
    exists ev, lha_reader_check junk r true = Ok (true, ev, r2).

  (* the run of the test: its chunks, and the inner decoder's position and CRC at the end *)
  Definition good_run (r : reader) (h : header) (r2 : reader) (chunks : list (list N)) : Prop :=
    exists ev1 r1, open_decoder junk r true = Ok (true, ev1, r1) /\
      dd_run junk None r1 check_fs chunks r2 check_fs /\
      exists dfin, inner_of r2 = Some dfin /\ ipos dfin = h_length h /\ icrc dfin = h_crc h.

  Theorem extract_file_total_good r f name h r2 hd f1 :
    rd_type r = CT_NORMAL -> rd_curr r = Some h -> is_dir_method h = false ->
    member_good r r2 -> arch_fopen f name (ex_perms h) = (Some hd, f1) ->
    exists ev chunks, good_run r h r2 chunks /\
      extract_file junk r f (Some name) true =
      Ok (true, ev, r2, snd (set_timestamps_from_header (write_chunks hd chunks f1) name h)).
  Proof.
    intros Hty Hcur Hdm [ev0 Hck] Hfo.
    rewrite (check_eq junk r true h Hty Hcur Hdm) in Hck.
    destruct (open_decoder junk r true) as [[[ok ev1] r1]| |] eqn:Hop; cbn [bind] in Hck; try discriminate.
    destruct ok; [|inversion Hck].
    destruct (do_decode junk r1 check_fs None) as [[[[res2 ev2] r2'] f2]| |] eqn:Hdd; cbn [bind] in Hck; try discriminate.
    inversion Hck; subst res2 r2'. clear Hck.
    destruct (do_decode_any_output _ _ _ _ _ _ Hdd) as (chunks & Hrun & Hany).
    destruct (Hany (Some hd) f1) as [evs Hdd'].
    exists (ev1 ++ evs), chunks. split.
    - exists ev1, r1. split; [exact Hop|].
      assert (Hf2 : f2 = check_fs).
      { pose proof (dd_run_writes junk _ _ _ _ _ _ Hrun) as [Hf _]. rewrite fold_write_none in Hf. exact Hf. }
      subst f2. split; [exact Hrun|].
      rewrite do_decode_eq in Hdd.
      destruct (loop (dd_step junk None) 64 (r1, check_fs, [])) as [[[ra fa] evsa]| |]; cbn [bind] in Hdd; try discriminate.
      rewrite inner_len_crc_of in Hdd.
      destruct (inner_of ra) as [dfin|] eqn:Eof; [|discriminate].
      destruct (rd_curr ra) as [h2|] eqn:Ec2; [|discriminate].
      inversion Hdd; subst ra fa. clear Hdd.
      assert (Eh : h2 = h).
      { pose proof (open_decoder_book junk _ _ _ _ _ Hop) as B1. pose proof (dd_run_book junk _ _ _ _ _ _ Hrun) as B2.
        unfold book in B1, B2. congruence. }
      subst h2. exists dfin. split; [exact Eof|].
      match goal with E : (_ && _) = true |- _ => apply andb_prop in E; destruct E as [E1 E2] end.
      apply N.eqb_eq in E1. apply N.eqb_eq in E2. auto.
    - rewrite (extract_file_eq junk r f (Some name) true h Hcur), Hop. cbn [bind negb ex_fname].
      rewrite Hfo, Hdd'. cbn [bind]. rewrite fold_dd_write. reflexivity.
  Qed.

  Lemma good_book r r2 : member_good r r2 -> rd_type r = CT_NORMAL -> forall h, rd_curr r = Some h ->
    is_dir_method h = false -> book r2 = book r.
  Proof.
    intros [ev0 Hck] Hty h Hcur Hdm.
    rewrite (check_eq junk r true h Hty Hcur Hdm) in Hck.
    destruct (open_decoder junk r true) as [[[ok ev1] r1]| |] eqn:Hop; cbn [bind] in Hck; try discriminate.
    destruct ok; [|inversion Hck].
    destruct (do_decode junk r1 check_fs None) as [[[[res2 ev2] r2'] f2]| |] eqn:Hdd; cbn [bind] in Hck; try discriminate.
    inversion Hck; subst res2 r2'. clear Hck.
    destruct (do_decode_any_output _ _ _ _ _ _ Hdd) as (chunks & Hrun & _).
    apply open_decoder_book in Hop. apply dd_run_book in Hrun. congruence.
  Qed.

  (* the tool: a regular member of any kind, nothing at its place; the file holds the chunks of the run *)
  Theorem gen_file_good h st DL (c : name) o pm t ents r2 :
    let s := cs_fs st in
    file_full_path h (cs_opts st) = dirstr DL ++ c ->
    dir_ready s DL o pm t ents -> good_name c -> nlen (dirstr DL ++ c) <= 4095 -> lookup ents c = None ->
    is_dir_method h = false -> h_symlink_target h = None ->
    rd_type (cs_reader st) = CT_NORMAL -> rd_curr (cs_reader st) = Some h ->
    member_good (cs_reader st) r2 ->
    (fs_uid0 s = true \/ drop_setid (file_mode s h) = file_mode s h) ->
    exists st' chunks, extract_archived_file junk h st = Ok (RVal true, st') /\
      cs_reader st' = r2 /\ cs_opts st' = cs_opts st /\ same_env s (cs_fs st') /\
      fs_root (cs_fs st') = update_at (fs_root s) (fs_cwd s ++ DL)
        (const_some (Dir o pm now (ents ++ [(c, File true (file_mode s h) (h_timestamp h) (concat chunks))]))) /\
      good_run (cs_reader st) h r2 chunks.
  Proof.
    intros s Hfn Hready Hc Hlen Hfresh Hdm Hsl Hty Hcur Hgood Hmode.
    pose proof Hready as (Hg & Hch & Hn & Hw).
    assert (Hat : at_path s (dirstr DL ++ c) DL c) by (eapply at_path_in_dir; eauto).
    assert (Hnone : node_at (fs_root s) ((fs_cwd s ++ DL) ++ [c]) = None).
    { rewrite (child_lookup _ _ _ _ _ _ c Hn). exact Hfresh. }
    assert (Hts : trailing_slash (dirstr DL ++ c) = false) by (apply trailing_slash_file; exact Hc).
    rewrite (eaf_eq junk h st), (decide_regular h st (conj Hdm Hsl)), Hfn.
    rewrite (file_exists_none _ st (exists_none s _ DL c Hat Hnone)). cbn [cbind].
    destruct (fs_file_extracted s (dirstr DL ++ c) DL c (ex_perms h)) with (ts := h_timestamp h) (chunks := @nil (list N))
      (po := o) (pp := pm) (pt := t) (pe := ents) as (s1 & _ & Hop & _); auto.
    destruct (extract_file_total_good (cs_reader st) s (dirstr DL ++ c) h r2 _ s1 Hty Hcur Hdm Hgood Hop)
      as (ev & chunks & Hgr & Hex).
    destruct (fs_file_extracted s (dirstr DL ++ c) DL c (ex_perms h) chunks (h_timestamp h) o pm t ents
                Hat Hts Hnone Hn Hw Hmode) as (s1' & s3 & Hop' & Hut & Henv & Hroot & Henv2 & Hroot2).
    rewrite Hop in Hop'. inversion Hop'; subst s1'. clear Hop'.
    unfold eaf_tail. rewrite Hsl. change (is_dir_type h) with (is_dir_method h). rewrite Hdm. cbn [andb negb].
    rewrite andb_false_r.
    rewrite (mpd_file DL c st Hg Hc).
    2:{ eapply parents_exist; [exact Hready|]. rewrite nlen_app in Hlen. eapply N.le_trans; [apply N.le_add_r|exact Hlen]. }
    cbn [negb]. fold s.
    rewrite (reader_extract_regular junk (cs_reader st) s (Some (dirstr DL ++ c)) true h Hty Hcur Hdm).
    rewrite Hex. cbn [bind].
    assert (Hfinal : exists s4, snd (set_timestamps_from_header (write_chunks ((fs_cwd s ++ DL) ++ [c]) chunks s1) (dirstr DL ++ c) h) = s4 /\
                     same_env s s4 /\
                     fs_root s4 = update_at (fs_root s) (fs_cwd s ++ DL)
                       (const_some (Dir o pm now (ents ++ [(c, File true (file_mode s h) (h_timestamp h) (concat chunks))])))).
    { unfold set_timestamps_from_header. destruct (h_timestamp h =? 0) eqn:Et; cbn [negb].
      - apply N.eqb_eq in Et. eexists. split; [reflexivity|]. split; [exact Henv2|]. cbn [snd]. rewrite Hroot2, Et. reflexivity.
      - rewrite Hut. eexists. split; [reflexivity|]. split; [exact Henv|]. cbn [snd]. rewrite Hroot. reflexivity. }
    destruct Hfinal as (s4 & Hs4 & Henv4 & Hroot4).
    rewrite Hs4.
    destruct (negb (lha_reader_current_is_fake r2) && (o_quiet (cs_opts st) <? 2)); [destruct (invoked ev)|];
      (eexists _, chunks; split; [reflexivity|]; cbn [cs_reader cs_opts cs_fs put_out set_fs set_reader]; auto 10).
  Qed.


  (* what the chunks are: a MacOS member *)
  Theorem good_run_mac r h r2 chunks : good_run r h r2 chunks -> rd_curr r = Some h ->
    (h_os_type h =? OS_TYPE_MACOS) = true ->
    exists ibs, nlen ibs = h_length h /\ lha_crc16_buf 0 ibs = h_crc h /\
      concat chunks = firstn_N (h_length h) (mac_out h ibs).
  Proof.
    intros (ev1 & r1 & Hop & Hrun & dfin & Hof & Vl & Vc) Hcur Hos.
    eapply mac_run_content; eauto.
  Qed.

  (* a plain member: the chunks are the decoded stream itself *)
  Theorem good_run_plain r h r2 chunks : good_run r h r2 chunks -> rd_curr r = Some h ->
    (h_os_type h =? OS_TYPE_MACOS) = false ->
    nlen (concat chunks) = h_length h /\ lha_crc16_buf 0 (concat chunks) = h_crc h.
  Proof.
    intros (ev1 & r1 & Hop & Hrun & dfin & Hof & Vl & Vc) Hcur Hos.
    destruct (open_decoder_ok junk r true ev1 r1 h Hop Hcur)
      as (_ & Hcur1 & Hin1 & d0 & x & d1 & ibs0 & Hfresh & Hdec1 & Hof1 & Hi0 & Hplain & _).
    destruct (Hplain Hos) as (Hpl & -> & ->).
    destruct (dd_run_inner junk _ _ _ _ _ _ Hrun x d0 Hdec1 Hin1 Hof1) as (_ & _ & _ & d' & ibs & Hof2 & Hi & Hb).
    rewrite Hof in Hof2. inversion Hof2; subst d'. rewrite (Hb Hpl) in Hi.
    destruct (fresh_inner_zero r true d0 Hfresh) as [Hp0 Hc0].
    apply ireads_len_crc in Hi. destruct Hi as [Hp Hc]. rewrite Hp0, N.add_0_l in Hp. rewrite Hc0 in Hc.
    split; congruence.
  Qed.
End MacExtract.

Print Assumptions gen_file_good.
Print Assumptions good_run_mac.
Print Assumptions good_run_plain.


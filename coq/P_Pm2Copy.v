(* P_Pm2Copy.v -- the output side of a -pm2- command (C04).

   data_ok s st     : the decoder's ring buffer, write position and history list
                      represent the specification's position [st] (absolute
                      output so far with the space fill before the start,
                      move-to-front list)
   output_byte_step : one output_byte advances [st] by pst_out; it calls
                      rebuild_tree exactly when the segment counter reaches 0
   emit             : output_byte over a list of bytes; emit_norebuild /
                      emit_cross : without and with the counter reaching 0
   copy_loop_emit   : the ring copy loop emits the bytes S_Pm.ph_copy produces
                      (copy_bytes), also when it overlaps its own output and
                      when a table re-read happens in the middle
   rebuild_frame    : rebuild_tree never touches ring, position, history list
                      and always leaves a counter of at least 1024
   count_ok / offset_ok : history_get_count / history_get_offset decode the
                      length and distance fields S_Pm.pm2_plan lays out *)
From Lhasa Require Import Base ListN DecBase BitReader Loop Sweep Tree PmaCommon Generated Pm2
  S_Larc S_Pm P_BitReader P_Tree P_PmaCommon P_Pm2 P_Pm2Rt P_TreeCanonPm P_Pm2Lens P_Pm2Off.
From Coq Require Import ZifyBool ZifyN ZifyNat.
Local Open Scope N_scope.
Ltac Zify.zify_post_hook ::= Z.div_mod_to_equations.

Notation rem_of s := (pm2_tree_rebuild_remaining s).

(* ------------------------------------------------------------------ *)
(* A. The data part of the state                                       *)

Definition ring_rep (ring : arr) (h : phist) : Prop :=
  forall j, j < 8192 ->
    aget ring ((ph_n h + 8191 - j) mod 8192) =
    (if j <? ph_n h then aget (ph_mem h) (ph_n h - 1 - j) else 32).

Definition data_ok (s : pm2_state) (st : pst) : Prop :=
  alen (pm2_ringbuf s) = 8192 /\
  pm2_ringbuf_pos s = ps_pos st mod 8192 /\
  ring_rep (pm2_ringbuf s) (ps_h st) /\
  (forall i, aget (pm2_ringbuf s) i < 256) /\
  hl_wf (pm2_history_list s) /\ hl_list (pm2_history_list s) = ps_mtf st.

(* ring, position and history list are the same *)
Definition data_frame (s s' : pm2_state) : Prop :=
  pm2_ringbuf s' = pm2_ringbuf s /\ pm2_ringbuf_pos s' = pm2_ringbuf_pos s /\
  pm2_history_list s' = pm2_history_list s.

(* bit reader, trees, flags and rebuild state are the same *)
Definition tabs_same (s s' : pm2_state) : Prop :=
  pm2_bsr s' = pm2_bsr s /\ pm2_code_tree s' = pm2_code_tree s /\
  pm2_need_offset_tree s' = pm2_need_offset_tree s /\ pm2_offset_tree s' = pm2_offset_tree s /\
  pm2_tree_state s' = pm2_tree_state s.

Lemma data_frame_refl s : data_frame s s.
Proof. repeat split. Qed.

Lemma data_frame_trans a b c : data_frame a b -> data_frame b c -> data_frame a c.
Proof. intros (A1 & A2 & A3) (B1 & B2 & B3). repeat split; congruence. Qed.

Lemma tabs_same_refl s : tabs_same s s.
Proof. repeat split. Qed.

Lemma tabs_same_trans a b c : tabs_same a b -> tabs_same b c -> tabs_same a c.
Proof. intros (A1 & A2 & A3 & A4 & A5) (B1 & B2 & B3 & B4 & B5). repeat split; congruence. Qed.

Lemma data_ok_frame s s' st : data_frame s s' -> data_ok s st -> data_ok s' st.
Proof. intros (A1 & A2 & A3) H. unfold data_ok. rewrite A1, A2, A3. exact H. Qed.

Lemma ring_rep_push ring h b : ring_rep ring h ->
  ring_rep (aset ring (ph_n h mod 8192) b) (ph_push h b).
Proof.
  intros H j Hj. unfold ph_push. cbn [ph_n ph_mem].
  destruct (N.eq_dec j 0) as [->|Hj0].
  - replace ((ph_n h + 1 + 8191 - 0) mod 8192) with (ph_n h mod 8192) by lia.
    rewrite aget_aset_eq. destruct (N.ltb_spec 0 (ph_n h + 1)) as [_|X]; [|lia].
    replace (ph_n h + 1 - 1 - 0) with (ph_n h) by lia. rewrite aget_aset_eq. reflexivity.
  - rewrite aget_aset_ne by lia.
    replace (ph_n h + 1 + 8191 - j) with (ph_n h + 8191 - (j - 1)) by lia.
    rewrite H by lia.
    destruct (N.ltb_spec (j - 1) (ph_n h)) as [L1|L1]; destruct (N.ltb_spec j (ph_n h + 1)) as [L2|L2]; try lia.
    rewrite aget_aset_ne by lia. f_equal. lia.
Qed.

Lemma ring_mod_eq x : pm2_ring_mod x = x mod 8192.
Proof.
  unfold pm2_ring_mod, pm2_RING_BUFFER_SIZE. destruct (N.ltb_spec x 8192) as [H|H]; [|reflexivity].
  symmetry. apply N.mod_small. exact H.
Qed.

Lemma u32_small x : x < 2 ^ 32 -> u32 x = x.
Proof. intros H. rewrite u32_mod. apply N.mod_small. exact H. Qed.

Lemma ring_rep_back ring h dist : ring_rep ring h -> dist < 8192 ->
  aget ring ((ph_n h + 8191 - dist) mod 8192) = ph_back 8192 32 h dist.
Proof.
  intros H Hd. rewrite (H dist Hd). unfold ph_back. cbv zeta.
  rewrite (N.mod_small dist 8192) by exact Hd. reflexivity.
Qed.

(* ------------------------------------------------------------------ *)
(* B. rebuild_tree leaves the data alone                               *)

Section Frame.
  Context {cbs : Type}.
  Variable cb : callback cbs.

  Lemma read_code_tree_frame s c b s' c' :
    read_code_tree cb s c = Ok (b, s', c') -> data_frame s s'.
  Proof.
    unfold read_code_tree. intros H.
    apply bind_ok in H. destruct H as ([[nc r1] c1] & _ & H). cbv beta iota in H.
    apply bind_ok in H. destruct H as ([[mcl r2] c2] & _ & H). cbv beta iota zeta in H.
    destruct mcl as [m|]; [destruct nc as [n|]|].
    - destruct (m =? 0).
      + apply bind_ok in H. destruct H as (t & _ & H). injection H as _ <- _. repeat split.
      + apply bind_ok in H. destruct H as ([[lb r3] c3] & _ & H). cbv beta iota zeta in H.
        destruct lb as [lb|].
        * apply bind_ok in H. destruct H as ([[cl r4] c4] & _ & H). cbv beta iota zeta in H.
          destruct cl as [cl|].
          -- apply bind_ok in H. destruct H as (t & _ & H). injection H as _ <- _. repeat split.
          -- injection H as _ <- _. repeat split.
        * injection H as _ <- _. repeat split.
    - injection H as _ <- _. repeat split.
    - injection H as _ <- _. repeat split.
  Qed.

  Lemma read_offset_tree_frame s c n b s' c' :
    read_offset_tree cb s c n = Ok (b, s', c') -> data_frame s s'.
  Proof.
    unfold read_offset_tree. intros H. destruct (negb (pm2_need_offset_tree s)).
    - injection H as _ <- _. repeat split.
    - apply bind_ok in H. destruct H as ([[res r1] c1] & _ & H). cbv beta iota zeta in H.
      destruct res as [[[ol so] nc]|].
      + destruct (nc =? 1).
        * apply bind_ok in H. destruct H as (t & _ & H). injection H as _ <- _. repeat split.
        * apply bind_ok in H. destruct H as (t & _ & H). injection H as _ <- _. repeat split.
      + injection H as _ <- _. repeat split.
  Qed.

  Lemma read_bit_is_1_frame s c b s' c' :
    pm2_read_bit_is_1 cb s c = Ok (b, s', c') -> data_frame s s'.
  Proof.
    unfold pm2_read_bit_is_1. intros H.
    apply bind_ok in H. destruct H as ([[bit r1] c1] & _ & H). cbv beta iota in H.
    injection H as _ <- _. repeat split.
  Qed.

  Lemma set_tree_state_frame s ts n : data_frame s (pm2_set_tree_state s ts n).
  Proof. repeat split. Qed.

  Theorem rebuild_frame s c s' c' : rebuild_tree cb s c = Ok (s', c') ->
    data_frame s s' /\ 1024 <= rem_of s'.
  Proof.
    unfold rebuild_tree. intros H. destruct (pm2_tree_state s).
    - apply bind_ok in H. destruct H as ([[b1 s1] c1] & E1 & H). cbv beta iota in H.
      apply bind_ok in H. destruct H as ([[b2 s2] c2] & E2 & H). cbv beta iota in H.
      injection H as <- _. cbn [pm2_set_tree_state pm2_tree_rebuild_remaining]. split; [|lia].
      apply read_code_tree_frame in E1. apply read_offset_tree_frame in E2.
      apply (data_frame_trans _ s2); [apply (data_frame_trans _ s1); assumption|repeat split].
    - apply bind_ok in H. destruct H as ([[b2 s2] c2] & E2 & H). cbv beta iota in H.
      injection H as <- _. cbn [pm2_set_tree_state pm2_tree_rebuild_remaining]. split; [|lia].
      apply read_offset_tree_frame in E2.
      apply (data_frame_trans _ s2); [assumption|repeat split].
    - apply bind_ok in H. destruct H as ([[b2 s2] c2] & E2 & H). cbv beta iota in H.
      injection H as <- _. cbn [pm2_set_tree_state pm2_tree_rebuild_remaining]. split; [|lia].
      apply read_offset_tree_frame in E2.
      apply (data_frame_trans _ s2); [assumption|repeat split].
    - apply bind_ok in H. destruct H as ([[one s1] c1] & E1 & H). cbv beta iota in H.
      apply bind_ok in H. destruct H as ([s2 c2] & E2 & H). cbv beta iota in H.
      apply bind_ok in H. destruct H as ([[b3 s3] c3] & E3 & H). cbv beta iota in H.
      injection H as <- _. cbn [pm2_set_tree_state pm2_tree_rebuild_remaining]. split; [|lia].
      apply read_bit_is_1_frame in E1. apply read_offset_tree_frame in E3.
      assert (F2 : data_frame s1 s2).
      { destruct one.
        - apply bind_ok in E2. destruct E2 as ([[b s'] c'0] & E & E2). cbv beta iota in E2.
          injection E2 as <- _. apply read_code_tree_frame in E. exact E.
        - injection E2 as <- _. apply data_frame_refl. }
      apply (data_frame_trans _ s3); [|repeat split].
      apply (data_frame_trans _ s2); [|assumption].
      apply (data_frame_trans _ s1); assumption.
    - apply bind_ok in H. destruct H as ([[one s1] c1] & E1 & H). cbv beta iota in H.
      apply bind_ok in H. destruct H as ([s3 c3] & E3 & H). cbv beta iota in H.
      injection H as <- _. cbn [pm2_set_tree_state pm2_tree_rebuild_remaining]. split; [|lia].
      apply read_bit_is_1_frame in E1.
      assert (F2 : data_frame s1 s3).
      { destruct one.
        - apply bind_ok in E3. destruct E3 as ([[b s2] c2] & E & E3). cbv beta iota in E3.
          apply bind_ok in E3. destruct E3 as ([[b' s3'] c3'] & E' & E3). cbv beta iota in E3.
          injection E3 as <- _. apply read_code_tree_frame in E. apply read_offset_tree_frame in E'.
          apply (data_frame_trans _ s2); assumption.
        - injection E3 as <- _. apply data_frame_refl. }
      apply (data_frame_trans _ s3); [|repeat split].
      apply (data_frame_trans _ s1); assumption.
  Qed.
End Frame.

(* ------------------------------------------------------------------ *)
(* C. output_byte and emit                                             *)

Lemma output_byte_step s (c : src) o b st :
  data_ok s st -> b < 256 -> 1 <= rem_of s -> obw o -> ob_len o < 256 ->
  exists s1 o1, data_ok s1 (pst_out st b) /\ tabs_same s s1 /\ rem_of s1 = rem_of s - 1 /\
    obw o1 /\ ob_rev o1 = b :: ob_rev o /\ ob_len o1 = ob_len o + 1 /\
    output_byte src_cb s c o b =
    (if rem_of s1 =? 0 then '(s'', c') <- rebuild_tree src_cb s1 c ;; Ok (s'', c', o1)
     else Ok (s1, c, o1)).
Proof.
  intros (A & B & C & D & E & F) Hb Hrem Ho Hl.
  unfold output_byte. cbv zeta. rewrite (u8_small b Hb).
  assert (Hpos : pm2_ringbuf_pos s < 8192) by (rewrite B; apply N.mod_lt; lia).
  rewrite wr_ok by (rewrite A; exact Hpos). cbn [bind].
  unfold ob_push, pm2_max_read. destruct (N.ltb_spec (ob_len o) 256) as [_|X]; [|lia]. cbn [bind].
  destruct (update_history_list_mtf (pm2_history_list s) b E) as (h' & Eh & Wh & Lh).
  rewrite (u8_small b Hb) in Lh. rewrite Eh. cbn [bind].
  destruct (N.eqb_spec (rem_of s) 0) as [X|_]; [lia|].
  set (s1 := {| pm2_bsr := pm2_bsr s; pm2_tree_state := pm2_tree_state s;
                pm2_tree_rebuild_remaining := rem_of s - 1;
                pm2_ringbuf := aset (pm2_ringbuf s) (pm2_ringbuf_pos s) b;
                pm2_ringbuf_pos := pm2_ring_mod (u32 (pm2_ringbuf_pos s + 1));
                pm2_history_list := h'; pm2_code_tree := pm2_code_tree s;
                pm2_need_offset_tree := pm2_need_offset_tree s;
                pm2_offset_tree := pm2_offset_tree s |}).
  exists s1, {| ob_rev := b :: ob_rev o; ob_len := ob_len o + 1 |}.
  split.
  { unfold data_ok, s1. cbn [pm2_ringbuf pm2_ringbuf_pos pm2_history_list pst_out ps_h ps_mtf].
    split; [rewrite alen_aset; exact A|]. split.
    { rewrite ring_mod_eq, u32_small by (change (2 ^ 32) with 4294967296; lia).
      unfold ps_pos. cbn [pst_out ps_h ph_push ph_n]. rewrite B. unfold ps_pos. lia. }
    split; [rewrite B; apply ring_rep_push; exact C|].
    split; [intros i; rewrite aget_aset; destruct (pm2_ringbuf_pos s =? i); [exact Hb|apply D]|].
    split; [exact Wh|]. rewrite Lh, F. reflexivity. }
  split; [repeat split|]. split; [reflexivity|].
  split; [unfold obw in *; cbn [ob_len ob_rev]; rewrite nlen_cons; lia|].
  split; [reflexivity|]. split; [reflexivity|].
  reflexivity.
Qed.

Fixpoint emit (bs : list N) (s : pm2_state) (c : src) (o : obuf) : outcome (pm2_state * src * obuf) :=
  match bs with
  | [] => Ok (s, c, o)
  | b :: r => '(s', c', o') <- output_byte src_cb s c o b ;; emit r s' c' o'
  end.

Lemma emit_cons b r s c o :
  emit (b :: r) s c o = ('(s', c', o') <- output_byte src_cb s c o b ;; emit r s' c' o').
Proof. reflexivity. Qed.

Lemma emit_norebuild : forall bs st s (c : src) o,
  data_ok s st -> Forall (fun b => b < 256) bs -> nlen bs < rem_of s -> obw o ->
  ob_len o + nlen bs <= 256 ->
  exists s' o', emit bs s c o = Ok (s', c, o') /\ data_ok s' (fold_left pst_out bs st) /\
    tabs_same s s' /\ rem_of s' = rem_of s - nlen bs /\ obw o' /\ ob_rev o' = rev bs ++ ob_rev o.
Proof.
  induction bs as [|b r IH]; intros st s c o Hd Hall Hrem Ho Hl.
  - exists s, o. split; [reflexivity|]. split; [exact Hd|]. split; [apply tabs_same_refl|].
    split; [change (nlen (@nil N)) with 0; lia|]. split; [exact Ho|reflexivity].
  - inversion Hall as [|? ? Hb Hr]; subst. rewrite nlen_cons in Hrem, Hl.
    destruct (output_byte_step s c o b st Hd Hb) as (s1 & o1 & D1 & T1 & R1 & O1 & V1 & L1 & E1);
      [lia|exact Ho|lia|].
    rewrite emit_cons, E1. destruct (N.eqb_spec (rem_of s1) 0) as [X|_]; [lia|]. cbn [bind]. cbv beta iota.
    destruct (IH (pst_out st b) s1 c o1 D1 Hr) as (s' & o' & E & D & T & R & O & V); [lia|exact O1|lia|].
    exists s', o'. split; [exact E|]. cbn [fold_left]. split; [exact D|].
    split; [apply (tabs_same_trans _ s1); assumption|]. split; [rewrite nlen_cons; lia|].
    split; [exact O|]. rewrite V, V1. cbn [rev]. rewrite <- app_assoc. reflexivity.
Qed.

Lemma emit_cross : forall bs st s (c : src) o,
  data_ok s st -> Forall (fun b => b < 256) bs -> 1 <= rem_of s -> rem_of s <= nlen bs -> obw o ->
  ob_len o + nlen bs <= 256 ->
  exists bs1 bs2 s1 o1, bs = bs1 ++ bs2 /\ nlen bs1 = rem_of s /\
    data_ok s1 (fold_left pst_out bs1 st) /\ tabs_same s s1 /\ rem_of s1 = 0 /\
    obw o1 /\ ob_rev o1 = rev bs1 ++ ob_rev o /\ ob_len o1 + nlen bs2 <= 256 /\
    emit bs s c o = ('(s2, c2) <- rebuild_tree src_cb s1 c ;; emit bs2 s2 c2 o1).
Proof.
  induction bs as [|b r IH]; intros st s c o Hd Hall Hrem1 Hrem Ho Hl.
  - change (nlen (@nil N)) with 0 in Hrem. lia.
  - inversion Hall as [|? ? Hb Hr]; subst. rewrite nlen_cons in Hrem, Hl.
    destruct (output_byte_step s c o b st Hd Hb) as (s1 & o1 & D1 & T1 & R1 & O1 & V1 & L1 & E1);
      [lia|exact Ho|lia|].
    rewrite emit_cons, E1. destruct (N.eqb_spec (rem_of s1) 0) as [X|X].
    + exists [b], r, s1, o1. split; [reflexivity|]. split; [change (nlen [b]) with 1; lia|].
      split; [exact D1|]. split; [exact T1|]. split; [exact X|]. split; [exact O1|].
      split; [rewrite V1; reflexivity|]. split; [lia|].
      destruct (rebuild_tree src_cb s1 c) as [[s2 c2]| |]; reflexivity.
    + cbn [bind]. cbv beta iota.
      destruct (IH (pst_out st b) s1 c o1 D1 Hr) as (bs1 & bs2 & s2 & o2 & Eb & Nb & D & T & R & O & V & L & E);
        [lia|lia|exact O1|lia|].
      exists (b :: bs1), bs2, s2, o2. split; [rewrite Eb; reflexivity|]. split; [rewrite nlen_cons; lia|].
      cbn [fold_left]. split; [exact D|]. split; [apply (tabs_same_trans _ s1); assumption|].
      split; [exact R|]. split; [exact O|].
      split; [rewrite V, V1; cbn [rev]; rewrite <- app_assoc; reflexivity|]. split; [exact L|exact E].
Qed.

(* ------------------------------------------------------------------ *)
(* D. The copy loop                                                    *)

Fixpoint copy_bytes (n : nat) (st : pst) (dist : N) : list N :=
  match n with
  | O => []
  | S k => let b := ph_back 8192 32 (ps_h st) dist in b :: copy_bytes k (pst_out st b) dist
  end.

Lemma copy_bytes_length n : forall st dist, length (copy_bytes n st dist) = n.
Proof. induction n as [|n IH]; intros st dist; [reflexivity|]. cbn [copy_bytes length]. rewrite IH. reflexivity. Qed.

Lemma pst_copy_emit n : forall st dist,
  pst_copy 8192 32 n st dist = fold_left pst_out (copy_bytes n st dist) st.
Proof. induction n as [|n IH]; intros st dist; [reflexivity|]. cbn [pst_copy copy_bytes fold_left]. apply IH. Qed.

Lemma data_back_lt s st dist : data_ok s st -> dist < 8192 -> ph_back 8192 32 (ps_h st) dist < 256.
Proof.
  intros (_ & _ & C & D & _) Hd. rewrite <- (ring_rep_back _ _ _ C Hd). apply D.
Qed.

Lemma copy_bytes_lt n : forall s st dist, data_ok s st -> dist < 8192 ->
  Forall (fun b => b < 256) (copy_bytes n st dist).
Proof.
  (* the ring of any state representing st bounds the bytes; build the next
     representing state by hand *)
  induction n as [|n IH]; intros s st dist Hd Hdist; [constructor|].
  cbn [copy_bytes]. pose proof (data_back_lt s st dist Hd Hdist) as Hb.
  constructor; [exact Hb|].
  set (b := ph_back 8192 32 (ps_h st) dist) in *.
  destruct Hd as (A & B & C & D & E & F).
  destruct (update_history_list_mtf (pm2_history_list s) b E) as (h' & Eh & Wh & Lh).
  rewrite (u8_small b Hb) in Lh.
  apply (IH {| pm2_bsr := pm2_bsr s; pm2_tree_state := pm2_tree_state s;
               pm2_tree_rebuild_remaining := rem_of s;
               pm2_ringbuf := aset (pm2_ringbuf s) (ps_pos st mod 8192) b;
               pm2_ringbuf_pos := ps_pos (pst_out st b) mod 8192;
               pm2_history_list := h'; pm2_code_tree := pm2_code_tree s;
               pm2_need_offset_tree := pm2_need_offset_tree s;
               pm2_offset_tree := pm2_offset_tree s |}); [|exact Hdist].
  unfold data_ok. cbn [pm2_ringbuf pm2_ringbuf_pos pm2_history_list].
  split; [rewrite alen_aset; exact A|]. split; [reflexivity|].
  split; [apply ring_rep_push; exact C|].
  split; [intros i; rewrite aget_aset; destruct (ps_pos st mod 8192 =? i); [exact Hb|apply D]|].
  split; [exact Wh|]. rewrite Lh, F. reflexivity.
Qed.

Lemma copy_loop_emit n : forall i start st s (c : src) o dist,
  data_ok s st -> dist < 8192 -> 1 <= rem_of s -> obw o -> ob_len o + N.of_nat n <= 256 ->
  start + i + N.of_nat n < 2 ^ 32 ->
  (start + i) mod 8192 = (ps_pos st + 8191 - dist) mod 8192 ->
  copy_loop src_cb n i start s c o = emit (copy_bytes n st dist) s c o.
Proof.
  induction n as [|n IH]; intros i start st s c o dist Hd Hdist Hrem Ho Hl Hs Hm; [reflexivity|].
  rewrite copy_loop_S. cbn [copy_bytes]. rewrite emit_cons.
  pose proof Hd as (A & B & C & D & E & F).
  rewrite u32_small by lia. rewrite ring_mod_eq, Hm.
  rewrite rd_ok by (rewrite A; apply N.mod_lt; lia). cbn [bind].
  unfold ps_pos. rewrite (ring_rep_back _ _ _ C Hdist).
  set (b := ph_back 8192 32 (ps_h st) dist).
  assert (Hb : b < 256) by (apply (data_back_lt s st dist Hd Hdist)).
  destruct (output_byte_step s c o b st Hd Hb Hrem Ho) as (s1 & o1 & D1 & T1 & R1 & O1 & V1 & L1 & E1); [lia|].
  rewrite E1.
  assert (Hm' : (start + (i + 1)) mod 8192 = (ps_pos (pst_out st b) + 8191 - dist) mod 8192).
  { unfold ps_pos in *. cbn [pst_out ps_h ph_push ph_n]. lia. }
  destruct (N.eqb_spec (rem_of s1) 0) as [X|X].
  - destruct (rebuild_tree src_cb s1 c) as [[s2 c2]| |] eqn:Er; [|reflexivity|reflexivity].
    cbn [bind]. cbv beta iota.
    destruct (rebuild_frame src_cb s1 c s2 c2 Er) as [Fr Rr].
    apply (IH (i + 1) start (pst_out st b) s2 c2 o1 dist); try assumption; try lia.
    apply (data_ok_frame s1 s2); assumption.
  - cbn [bind]. cbv beta iota.
    apply (IH (i + 1) start (pst_out st b) s1 c o1 dist); try assumption; lia.
Qed.

Print Assumptions rebuild_frame.
Print Assumptions emit_cross.
Print Assumptions copy_loop_emit.

(* Printf.v -- the printf conversions the command-line tool uses, as functions
   into byte lists, and the single-precision arithmetic of the compression
   ratio (src/list.c compression_percent) on Coq's own Floats.SpecFloat
   (plain computable functions on spec_float; no axioms, no primitive floats).
   Definitions only. *)
From Coq Require Import Floats.SpecFloat.
From Lhasa Require Import Base.
Local Open Scope N_scope.

(* ---- C integer types of the arguments ---- *)
(* (unsigned long) x *)
Definition as_ulong (x : N) : N := N.land x 18446744073709551615.
(* an unsigned int argument printed with %i / %d: reinterpreted as int *)
Definition as_int (x : N) : Z :=
  let y := u32 x in
  if y <? 2147483648 then Z.of_N y else (Z.of_N y - 4294967296)%Z.

(* ---- field padding: flags '-' (left) and '0' (zero), minimum width ----
   The text is sign ++ body.  A text wider than the field is not truncated
   (N subtraction stops at 0).  '-' overrides '0'; zeros go between the sign
   and the digits. *)
Definition rep (c : N) (n : N) : list N := repeat c (N.to_nat n).

Definition pad_field (left zero : bool) (width : N) (sign body : list N) : list N :=
  let fill := width - (nlen sign + nlen body) in
  if left then sign ++ body ++ rep 32 fill
  else if zero then sign ++ rep 48 fill ++ body
  else rep 32 fill ++ sign ++ body.

(* ---- digits ---- *)
Definition digit_char (d : N) : N := if d <? 10 then 48 + d else 87 + d.   (* 0-9 a-f *)

(* fuel = number of binary digits + 1 >= number of digits in any base >= 2 *)
Fixpoint digits_aux (base : N) (fuel : nat) (n : N) (acc : list N) : list N :=
  match fuel with
  | O => acc
  | S k =>
    let acc' := digit_char (n mod base) :: acc in
    if n <? base then acc' else digits_aux base k (n / base) acc'
  end.
Definition dec_digits (n : N) : list N := digits_aux 10 (S (N.size_nat n)) n [].
Definition hex_digits (n : N) : list N := digits_aux 16 (S (N.size_nat n)) n [].

(* ---- conversions ---- *)
(* %<flags><width>s (no precision) *)
Definition fmt_s (left : bool) (width : N) (s : list N) : list N := pad_field left false width [] s.
(* %c *)
Definition fmt_c (c : N) : list N := [u8 c].
(* %<flags><width>u / lu : the value already reduced to its C type *)
Definition fmt_u (left zero : bool) (width : N) (n : N) : list N := pad_field left zero width [] (dec_digits n).
(* %<flags><width>x *)
Definition fmt_x (left zero : bool) (width : N) (n : N) : list N := pad_field left zero width [] (hex_digits n).
(* %<flags><width>d / i *)
Definition fmt_d (left zero : bool) (width : N) (z : Z) : list N :=
  pad_field left zero width (if (z <? 0)%Z then [45] else []) (dec_digits (Z.abs_N z)).

(* ---- binary32 ---- *)
Definition f32_prec : Z := 24.
Definition f32_emax : Z := 128.

(* (float) n for an unsigned integer: correctly rounded, to nearest, ties to even *)
Definition f32_of_N (n : N) : spec_float := binary_normalize f32_prec f32_emax (Z.of_N n) 0 false.
Definition f32_mul : spec_float -> spec_float -> spec_float := SFmul f32_prec f32_emax.
Definition f32_div : spec_float -> spec_float -> spec_float := SFdiv f32_prec f32_emax.
Definition f32_100 : spec_float := f32_of_N 100.

(* ---- %<width>.1f of a float (promoted to double exactly): the exact value
   m * 2^e rounded to one decimal place, to nearest, ties to even on the exact
   binary value (glibc, round-to-nearest mode). ---- *)
Definition round_half_even_div (num den : N) : N :=
  let q := num / den in
  let r := num mod den in
  match 2 * r ?= den with
  | Lt => q
  | Gt => q + 1
  | Eq => if N.even q then q else q + 1
  end.

(* number of tenths *)
Definition tenths (m : positive) (e : Z) : N :=
  match e with
  | Zneg p => round_half_even_div (Npos m * 10) (N.shiftl 1 (Npos p))
  | Z0 => Npos m * 10
  | Zpos p => N.shiftl (Npos m * 10) (Npos p)
  end.

Definition fmt_f1 (left zero : bool) (width : N) (x : spec_float) : list N :=
  let sg (s : bool) := if s then [45] else [] in
  match x with
  | S754_zero s => pad_field left zero width (sg s) [48; 46; 48]
  | S754_finite s m e =>
    let t := tenths m e in
    pad_field left zero width (sg s) (dec_digits (t / 10) ++ [46; digit_char (t mod 10)])
  | S754_infinity s => pad_field left false width (sg s) [105; 110; 102]
  | S754_nan => pad_field left false width [] [110; 97; 110]
  end.

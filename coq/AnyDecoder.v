(* AnyDecoder.v -- the decoders[] table of lib/lha_decoder.c: one state type and
   one read function for all decoder types, and lha_decoder_for_name. *)
From Lhasa Require Import Base DecBase Generated Null Lzs Lz5 Lh1 LhNew Pm1 Pm2.
Local Open Scope N_scope.

Inductive dstate : Type :=
| DS_null (s : null_state)
| DS_lz5 (s : lz5_state)
| DS_lzs (s : lzs_state)
| DS_lh1 (s : lh1_state)
| DS_lhnew (p : lhnew_params) (s : lhnew_state)
| DS_pm1 (s : pm1_state)
| DS_pm2 (s : pm2_state).

(* what lha_decoder_new needs from an LHADecoderType *)
Record dtype := { dt_init : outcome dstate; dt_max_read : N; dt_block_size : N }.

Definition lift {A} (f : A -> dstate) (m : outcome A) : outcome dstate := a <- m ;; Ok (f a).

(* the decoder types in the order of the ids the translator assigns
   (0 null, 1 lz5, 2 lzs, 3 lh1, 4 lh4, 5 lh5, 6 lh6, 7 lh7, 8 lhx, 9 lk7, 10 pm1, 11 pm2) *)
Definition dtype_of_id (id : N) : option dtype :=
  match id with
  | 0 => Some {| dt_init := lift DS_null null_init; dt_max_read := null_max_read; dt_block_size := null_block_size |}
  | 1 => Some {| dt_init := lift DS_lz5 lz5_init; dt_max_read := lz5_max_read; dt_block_size := lz5_block_size |}
  | 2 => Some {| dt_init := lift DS_lzs lzs_init; dt_max_read := lzs_max_read; dt_block_size := lzs_block_size |}
  | 3 => Some {| dt_init := lift DS_lh1 lh1_init; dt_max_read := lh1_max_read; dt_block_size := lh1_block_size |}
  | 4 => Some {| dt_init := lift (DS_lhnew lh4_params) lh4_init; dt_max_read := lh4_max_read; dt_block_size := lh4_block_size |}
  | 5 => Some {| dt_init := lift (DS_lhnew lh5_params) lh5_init; dt_max_read := lh5_max_read; dt_block_size := lh5_block_size |}
  | 6 => Some {| dt_init := lift (DS_lhnew lh6_params) lh6_init; dt_max_read := lh6_max_read; dt_block_size := lh6_block_size |}
  | 7 => Some {| dt_init := lift (DS_lhnew lh7_params) lh7_init; dt_max_read := lh7_max_read; dt_block_size := lh7_block_size |}
  | 8 => Some {| dt_init := lift (DS_lhnew lhx_params) lhx_init; dt_max_read := lhx_max_read; dt_block_size := lhx_block_size |}
  | 9 => Some {| dt_init := lift (DS_lhnew lk7_params) lk7_init; dt_max_read := lk7_max_read; dt_block_size := lk7_block_size |}
  | 10 => Some {| dt_init := lift DS_pm1 pm1_init; dt_max_read := pm1_max_read; dt_block_size := pm1_block_size |}
  | 11 => Some {| dt_init := lift DS_pm2 pm2_init; dt_max_read := pm2_max_read; dt_block_size := pm2_block_size |}
  | _ => None
  end.

(* decoders[]: names (from the flat generated table) paired with type ids *)
Fixpoint split_names (flat : list N) (lens : list N) : list (list N) :=
  match lens with
  | [] => []
  | l :: r => firstn_N l flat :: split_names (skipn_N l flat) r
  end.
Definition decoder_names : list (list N) := split_names decoder_names_flat decoder_name_lens.

Fixpoint str_eqb (a b : list N) : bool :=
  match a, b with
  | [], [] => true
  | x :: r, y :: s => (x =? y) && str_eqb r s
  | _, _ => false
  end.

Fixpoint lookup_name (names : list (list N)) (ids : list N) (name : list N) : option N :=
  match names, ids with
  | n :: nr, i :: ir => if str_eqb n name then Some i else lookup_name nr ir name
  | _, _ => None
  end.

(* lha_decoder_for_name(name): name is a C string *)
Definition lha_decoder_for_name (name : list N) : option dtype :=
  match lookup_name decoder_names decoder_type_ids name with
  | Some id => dtype_of_id id
  | None => None
  end.

Section AnyRead.
  Context {cbs : Type}.
  Variable cb : callback cbs.
  Variable junk : N.

  Definition any_read (s : dstate) (c : cbs) : outcome (list N * dstate * cbs) :=
    match s with
    | DS_null s0 => '(o, s', c') <- null_read cb s0 c ;; Ok (o, DS_null s', c')
    | DS_lz5 s0 => '(o, s', c') <- lz5_read cb junk s0 c ;; Ok (o, DS_lz5 s', c')
    | DS_lzs s0 => '(o, s', c') <- lzs_read cb s0 c ;; Ok (o, DS_lzs s', c')
    | DS_lh1 s0 => '(o, s', c') <- lh1_read cb s0 c ;; Ok (o, DS_lh1 s', c')
    | DS_lhnew p s0 => '(o, s', c') <- lhnew_read cb p s0 c ;; Ok (o, DS_lhnew p s', c')
    | DS_pm1 s0 => '(o, s', c') <- pm1_read cb s0 c ;; Ok (o, DS_pm1 s', c')
    | DS_pm2 s0 => '(o, s', c') <- pm2_read cb s0 c ;; Ok (o, DS_pm2 s', c')
    end.
End AnyRead.

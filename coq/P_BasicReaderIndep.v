(* P_BasicReaderIndep.v -- property C15, basic-reader level.

   lha_basic_reader_next_file called after ANY sequence of
   lha_basic_reader_read_compressed calls on the current member (any number,
   any sizes: none, part of the member, all of it, more than all of it)
   returns the same header option as lha_basic_reader_next_file called at
   once, and leaves an equivalent basic reader -- including when the member's
   data is truncated, for the four kinds of source.

   [br_wf] is the invariant of a basic reader that makes this true: while a
   member is current the lead-in buffer of the stream is empty and the stream
   is in state READING (lha_input_stream_skip does not look at the lead-in
   buffer).  It holds for a new reader and is kept by every operation.

   Lemmas and theorems only. *)
From Lhasa Require Import Base ListN Loop Generated Crc16 InputStream Header BasicReader
  P_HeaderSafe P_Intact P_StreamEquiv.
From Coq Require Import ZifyBool ZifyN ZifyNat.
Local Open Scope N_scope.

(* ------------------------------------------------------------------ *)
(* Equivalence of basic readers                                        *)

(* Once eof is set neither the stream nor the counter of remaining bytes is
   looked at for a result again: read_compressed answers 0 first, next_file
   answers "no header" (it may still skip in the stream, ignoring the
   outcome).  Both do differ between histories, so they are compared only
   while eof is clear. *)
Definition breader_equiv (a b : breader) : Prop :=
  br_curr a = br_curr b /\ br_eof a = br_eof b /\
  (br_eof a = false ->
   stream_equiv (br_stream a) (br_stream b) /\ br_remaining a = br_remaining b).

Lemma breader_equiv_refl a : breader_equiv a a.
Proof. split; [reflexivity|]. split; [reflexivity|]. intros _. split; [apply stream_equiv_refl|reflexivity]. Qed.

Lemma breader_equiv_sym a b : breader_equiv a b -> breader_equiv b a.
Proof.
  intros (C & E & R). split; [congruence|]. split; [congruence|]. intros Eb.
  destruct R as [S Rr]; [congruence|]. split; [apply stream_equiv_sym; exact S|congruence].
Qed.

Lemma breader_equiv_trans a b c : breader_equiv a b -> breader_equiv b c -> breader_equiv a c.
Proof.
  intros (C & E & R) (C' & E' & R').
  split; [congruence|]. split; [congruence|].
  intros Ea. destruct (R Ea) as [S1 R1]. destruct R' as [S2 R2]; [congruence|].
  split; [eapply stream_equiv_trans; eauto|congruence].
Qed.

Definition nf_rel (x y : option header * breader) : Prop :=
  fst x = fst y /\ breader_equiv (snd x) (snd y).

(* ------------------------------------------------------------------ *)
(* The invariant                                                       *)

(* The bound on the stream is the model's fuel for the two read-based skip
   loops (2^40 iterations), as in P_HeaderSafe. *)
Definition br_wf (r : breader) : Prop :=
  wf (br_stream r) /\ avail (br_stream r) < 1099511627776 /\
  match br_curr r with
  | Some _ => is_leadin (br_stream r) = [] /\ is_state (br_stream r) = IS_READING
  | None => br_eof r = true \/ br_remaining r = 0
  end.

Lemma br_wf_new k data : nlen data < 1099511627776 ->
  br_wf (lha_basic_reader_new (lha_input_stream_new (mk_source k data))).
Proof.
  intros H. unfold br_wf, wf, avail.
  cbn [lha_basic_reader_new br_stream br_curr br_eof br_remaining lha_input_stream_new is_leadin is_src mk_source so_data].
  rewrite nlen_nil. split; [lia|]. split; [lia|]. right. reflexivity.
Qed.

Lemma read_compressed_wf r n : br_wf r -> br_wf (snd (lha_basic_reader_read_compressed r n)).
Proof.
  intros (W & A & C). unfold lha_basic_reader_read_compressed.
  destruct (br_eof r || (br_remaining r =? 0)) eqn:E0; [cbn [snd]; exact (conj W (conj A C))|].
  set (bytes := if br_remaining r <? n then br_remaining r else n).
  destruct (is_state (br_stream r)) eqn:Es; [cbn [snd]; unfold br_wf; rewrite Es; exact (conj W (conj A C))| |].
  - pose proof (read_ready_spec (br_stream r) bytes W) as Sp.
    assert (NF : is_state (br_stream r) <> IS_FAIL) by congruence.
    destruct (read_ready_spec_rem (br_stream r) bytes NF) as (_ & _ & _ & S1 & L1).
    destruct (read_ready (br_stream r) bytes) as [res st']. cbn [fst snd] in *.
    destruct Sp as (W' & A' & _ & _).
    destruct (br_curr r) as [hd|] eqn:Ec.
    + destruct C as [Cl Cs].
      assert (L' : is_leadin st' = []) by (rewrite L1, Cl; apply skipn_N_nil).
      destruct res; cbn [snd]; unfold br_wf; cbn [br_stream br_curr br_eof br_remaining];
        (split; [exact W'|]); (split; [lia|]); split; congruence.
    + exfalso. apply orb_false_iff in E0. destruct E0 as [E1 E2]. apply N.eqb_neq in E2.
      destruct C; congruence.
  - rewrite read_ready_fail by exact Es. cbn [snd]. unfold br_wf. cbn [br_stream br_curr br_eof br_remaining].
    split; [exact W|]. split; [exact A|]. destruct (br_curr r); [destruct C; discriminate|]. left. reflexivity.
Qed.

Lemma next_file_wf mktime r h r' : br_wf r ->
  lha_basic_reader_next_file mktime r = Ok (h, r') -> br_wf r'.
Proof.
  intros (W & A & C) H.
  pose proof (lha_basic_reader_next_file_okp mktime r W) as P. rewrite H in P. cbn [okp] in P.
  destruct P as [W' A']. unfold wf_reader, ravail in *.
  unfold br_wf. split; [exact W'|]. split; [lia|].
  destruct h as [hd|].
  2:{ apply next_file_none_state in H. destruct H as [-> ->]. left. reflexivity. }
  unfold lha_basic_reader_next_file in H. bind_inv H as r1 E1.
  assert (W1 : wf (br_stream r1)).
  { destruct (br_curr r).
    - bind_inv E1 as [ok st1] Es. inversion E1; subst r1. cbn [br_stream].
      unfold lha_input_stream_skip in Es. bind_inv Es as [ok' src'] Ek. inversion Es; subst. exact W.
    - inversion E1; subst. exact W. }
  destruct (br_eof r1) eqn:Ee; [discriminate|].
  bind_inv H as [hh st2] Eh. destruct hh as [hd'|]; inversion H; subst; cbn [br_curr br_stream br_eof].
  eapply header_read_some_lead; eauto.
Qed.

(* any number of lha_basic_reader_read_compressed calls, of any sizes *)
Definition read_many (r : breader) (sizes : list N) : breader :=
  fold_left (fun r n => snd (lha_basic_reader_read_compressed r n)) sizes r.

Lemma read_many_wf sizes : forall r, br_wf r -> br_wf (read_many r sizes).
Proof.
  induction sizes as [|n l IH]; intros r H; cbn [read_many fold_left]; [exact H|].
  apply IH. apply read_compressed_wf. exact H.
Qed.

Lemma read_many_app r l1 l2 : read_many r (l1 ++ l2) = read_many (read_many r l1) l2.
Proof. unfold read_many. apply fold_left_app. Qed.

(* ------------------------------------------------------------------ *)
(* What a sequence of reads of the current member leaves behind        *)

Section AfterReads.
  Variable r : breader.
  Let st := br_stream r.
  Let D := so_data (is_src st).
  Let rem := br_remaining r.

  (* c bytes consumed, all delivered *)
  Definition reads_good (r' : breader) : Prop :=
    exists c, c <= rem /\ c <= nlen D /\
      br_curr r' = br_curr r /\ br_eof r' = false /\ br_remaining r' = rem - c /\
      is_leadin (br_stream r') = [] /\ is_state (br_stream r') = IS_READING /\
      so_kind (is_src (br_stream r')) = so_kind (is_src st) /\
      so_data (is_src (br_stream r')) = skipn_N c D.
  (* a read met the end of the data: the member is truncated *)
  Definition reads_failed (r' : breader) : Prop :=
    nlen D < rem /\
    br_curr r' = br_curr r /\ br_eof r' = true /\ br_remaining r' <= rem /\
    is_leadin (br_stream r') = [] /\ is_state (br_stream r') = IS_READING /\
    so_kind (is_src (br_stream r')) = so_kind (is_src st) /\
    so_data (is_src (br_stream r')) = [].

  Lemma reads_step r' n : reads_good r' \/ reads_failed r' ->
    let r'' := snd (lha_basic_reader_read_compressed r' n) in reads_good r'' \/ reads_failed r''.
  Proof.
    intros [G|F]; cbv zeta; unfold lha_basic_reader_read_compressed.
    - destruct G as (c & Cr & Cd & Gc & Ge & Gr & Gl & Gs & Gk & Gd).
      rewrite Ge. cbn [orb].
      destruct (N.eqb_spec (br_remaining r') 0) as [Z|NZ].
      { cbn [snd]. left. exists c. repeat split; auto. }
      set (bytes := if br_remaining r' <? n then br_remaining r' else n).
      assert (Hb : bytes <= rem - c) by (unfold bytes; destruct (N.ltb_spec (br_remaining r') n); lia).
      rewrite Gs.
      assert (NF : is_state (br_stream r') <> IS_FAIL) by congruence.
      destruct (read_ready_spec_rem (br_stream r') bytes NF) as (F1 & R1 & K1 & S1 & L1).
      assert (Rm : remaining (br_stream r') = skipn_N c D) by (unfold remaining; rewrite Gl, Gd; reflexivity).
      rewrite Rm in F1, R1. rewrite Gl, skipn_N_nil in L1.
      destruct (read_ready (br_stream r') bytes) as [res st']. cbn [fst snd] in *.
      assert (D' : so_data (is_src st') = skipn_N (c + bytes) D).
      { unfold remaining in R1. rewrite L1 in R1. cbn [app] in R1. rewrite R1. symmetry. apply skipn_N_add. }
      rewrite nlen_skipn_N in F1.
      destruct (N.leb_spec bytes (nlen D - c)) as [Le|Gt]; subst res; cbn [snd].
      + left. exists (c + bytes). cbn [br_curr br_eof br_remaining br_stream].
        split; [lia|]. split; [lia|]. split; [exact Gc|]. split; [reflexivity|]. split; [lia|].
        split; [exact L1|]. split; [congruence|]. split; [congruence|exact D'].
      + right. unfold reads_failed. cbn [br_curr br_eof br_remaining br_stream].
        split; [lia|]. split; [exact Gc|]. split; [reflexivity|]. split; [lia|].
        split; [exact L1|]. split; [congruence|]. split; [congruence|].
        rewrite D'. apply skipn_N_all. lia.
    - destruct F as (Tr & Fc & Fe & Fr & Fl & Fs & Fk & Fd).
      rewrite Fe. cbn [orb snd]. right. unfold reads_failed. auto 10.
  Qed.

  Lemma reads_many sizes : forall r', reads_good r' \/ reads_failed r' ->
    reads_good (read_many r' sizes) \/ reads_failed (read_many r' sizes).
  Proof.
    induction sizes as [|n l IH]; intros r' H; cbn [read_many fold_left]; [exact H|].
    apply IH. apply reads_step. exact H.
  Qed.
End AfterReads.

(* ------------------------------------------------------------------ *)
(* next_file respects the equivalence                                  *)

Definition nf_tail (mktime : N -> N -> N -> N -> Z -> N -> N) (r1 : breader) : outcome (option header * breader) :=
  if br_eof r1 then Ok (None, r1) else
  '(h, st2) <- lha_file_header_read mktime (br_stream r1) ;;
  match h with
  | None => Ok (None, {| br_stream := st2; br_curr := None; br_remaining := br_remaining r1; br_eof := true |})
  | Some hd => Ok (Some hd, {| br_stream := st2; br_curr := Some hd;
                               br_remaining := h_compressed_length hd; br_eof := false |})
  end.

(* the part of lha_basic_reader_next_file after the skip *)
Lemma next_file_tail_equiv mktime (r1 r2 : breader) :
  br_curr r1 = None -> br_curr r2 = None -> br_eof r1 = br_eof r2 ->
  (br_eof r1 = false -> stream_equiv (br_stream r1) (br_stream r2)) ->
  orel nf_rel (nf_tail mktime r1) (nf_tail mktime r2).
Proof.
  intros C1 C2 E S. unfold nf_tail. rewrite <- E. destruct (br_eof r1) eqn:E1.
  - cbn [orel]. unfold nf_rel, breader_equiv. cbn [fst snd]. split; [reflexivity|].
    split; [congruence|]. split; [congruence|]. intros; congruence.
  - eapply orel_bind; [apply lha_file_header_read_equiv; apply S; reflexivity|].
    intros [h a'] [h' b'] [Eh S']. cbn [fst snd] in Eh, S'. subst h'. cbv beta iota.
    destruct h as [hd|]; cbn [orel]; unfold nf_rel, breader_equiv; cbn [fst snd br_curr br_eof br_stream br_remaining];
      (split; [reflexivity|]); (split; [reflexivity|]); (split; [reflexivity|]).
    + intros _. split; [exact S'|reflexivity].
    + intros; discriminate.
Qed.

(* lha_basic_reader_next_file of a reader with a current member, as a skip followed by the tail *)
Lemma next_file_some mktime r hd : br_wf r -> br_curr r = Some hd ->
  exists src',
    so_kind src' = so_kind (is_src (br_stream r)) /\
    so_data src' = skipn_N (br_remaining r) (so_data (is_src (br_stream r))) /\
    lha_basic_reader_next_file mktime r =
    nf_tail mktime
      {| br_stream := {| is_src := src'; is_state := IS_READING; is_leadin := [] |};
         br_curr := None; br_remaining := br_remaining r;
         br_eof := if skip_succeeds (so_kind (is_src (br_stream r))) (br_remaining r)
                                    (nlen (so_data (is_src (br_stream r))))
                   then br_eof r else true |}.
Proof.
  intros (W & A & I) C. rewrite C in I. destruct I as [L S].
  assert (Hb : nlen (so_data (is_src (br_stream r))) < 1099511627776) by (unfold avail in A; lia).
  destruct (lha_input_stream_skip_spec (br_stream r) (br_remaining r) (or_intror Hb)) as (s1 & Ek & K & D).
  exists s1. split; [exact K|]. split; [exact D|].
  unfold lha_basic_reader_next_file. rewrite C, Ek, L, S. cbn [bind]. reflexivity.
Qed.

Lemma next_file_none mktime r : br_curr r = None ->
  lha_basic_reader_next_file mktime r = nf_tail mktime r.
Proof. intros C. unfold lha_basic_reader_next_file. rewrite C. reflexivity. Qed.

(* Equivalent readers give the same header and equivalent readers. *)
Theorem next_file_equiv mktime r1 r2 : br_wf r1 -> br_wf r2 -> breader_equiv r1 r2 ->
  orel nf_rel (lha_basic_reader_next_file mktime r1) (lha_basic_reader_next_file mktime r2).
Proof.
  intros W1 W2 (C & E & R).
  destruct (br_curr r1) as [hd|] eqn:C1.
  - destruct (next_file_some mktime r1 hd W1 C1) as (s1 & K1 & D1 & ->).
    destruct (next_file_some mktime r2 hd W2) as (s2 & K2 & D2 & ->); [congruence|].
    apply next_file_tail_equiv; cbn [br_curr br_eof br_stream]; try reflexivity.
    + destruct (br_eof r1) eqn:Ee.
      * rewrite <- E. destruct (skip_succeeds _ _ _), (skip_succeeds _ _ _); reflexivity.
      * destruct (R eq_refl) as [(K & St & Rm & _) Rr]. rewrite <- E, <- Rr, <- K.
        destruct W1 as (_ & _ & I1). destruct W2 as (_ & _ & I2). rewrite C1 in I1. rewrite <- C in I2.
        unfold remaining in Rm. destruct I1 as [L1 _]. destruct I2 as [L2 _]. rewrite L1, L2 in Rm. cbn [app] in Rm. rewrite Rm.
        reflexivity.
    + intros Ee. destruct (br_eof r1) eqn:Ee1; [destruct (skip_succeeds _ _ _); discriminate|].
      destruct (R eq_refl) as [(K & St & Rm & _) Rr].
      destruct W1 as (_ & _ & I1). destruct W2 as (_ & _ & I2). rewrite C1 in I1. rewrite <- C in I2.
      unfold remaining in Rm. destruct I1 as [L1 _]. destruct I2 as [L2 _]. rewrite L1, L2 in Rm. cbn [app] in Rm.
      unfold stream_equiv, remaining. cbn [is_src is_state is_leadin app].
      rewrite K1, K2, D1, D2, Rm, Rr. repeat split; auto.
  - rewrite (next_file_none mktime r1 C1), (next_file_none mktime r2) by congruence.
    apply next_file_tail_equiv; auto; try congruence. intros Ee. apply R. exact Ee.
Qed.

(* ------------------------------------------------------------------ *)
(* Main theorem                                                        *)

(* lha_basic_reader_next_file after any reads of the current member: the same
   header (or the same "no header", or the same Fault / OutOfFuel) as without
   them, and an equivalent reader. *)
Theorem next_file_after_reads mktime r sizes : br_wf r ->
  orel nf_rel (lha_basic_reader_next_file mktime (read_many r sizes))
              (lha_basic_reader_next_file mktime r).
Proof.
  intros W.
  pose proof (read_many_wf sizes r W) as W'.
  destruct (br_curr r) as [hd|] eqn:C.
  2:{ (* no current member: the reads do nothing *)
      assert (Same : forall l r0, br_curr r0 = None -> (br_eof r0 = true \/ br_remaining r0 = 0) -> read_many r0 l = r0).
      { induction l as [|n l IH]; intros r0 C0 H0; cbn [read_many fold_left]; [reflexivity|].
        assert (E : snd (lha_basic_reader_read_compressed r0 n) = r0).
        { unfold lha_basic_reader_read_compressed.
          destruct H0 as [H0|H0]; rewrite H0; [reflexivity|]. rewrite N.eqb_refl, orb_true_r. reflexivity. }
        rewrite E. apply IH; assumption. }
      pose proof W as (_ & _ & I). rewrite C in I. rewrite (Same sizes r C I).
      apply next_file_equiv; auto. apply breader_equiv_refl. }
  destruct (br_eof r) eqn:Ee.
  { (* eof already set: the reads do nothing *)
    assert (Same : forall l r0, br_eof r0 = true -> read_many r0 l = r0).
    { induction l as [|n l IH]; intros r0 H0; cbn [read_many fold_left]; [reflexivity|].
      assert (E : snd (lha_basic_reader_read_compressed r0 n) = r0).
      { unfold lha_basic_reader_read_compressed. rewrite H0. reflexivity. }
      rewrite E. apply IH; assumption. }
    rewrite (Same sizes r Ee). rewrite (Same sizes r Ee) in W'.
    apply next_file_equiv; auto. apply breader_equiv_refl. }
  (* a current member, eof clear *)
  pose proof W as (_ & A & I). rewrite C in I. destruct I as [L S].
  assert (G0 : reads_good r r \/ reads_failed r r).
  { left. exists 0. rewrite N.sub_0_r, skipn_N_0. repeat split; auto; lia. }
  pose proof (reads_many r sizes r G0) as G. clear G0.
  set (r' := read_many r sizes) in *.
  assert (C' : br_curr r' = Some hd) by (destruct G as [(c & _ & _ & Gc & _)|(_ & Gc & _)]; congruence).
  destruct (next_file_some mktime r hd W C) as (s & K & D & ->).
  destruct (next_file_some mktime r' hd W' C') as (s' & K' & D' & ->).
  rewrite Ee.
  destruct G as [(c & Cr & Cd & Gc & Ge & Gr & Gl & Gs & Gk & Gd)|(Tr & Fc & Fe & Fr & Fl & Fs & Fk & Fd)].
  - (* every read delivered: c bytes of the member are gone, rem - c are skipped now *)
    rewrite Ge, Gk, Gr, Gd, nlen_skipn_N.
    assert (Sk : skip_succeeds (so_kind (is_src (br_stream r))) (br_remaining r - c)
                               (nlen (so_data (is_src (br_stream r))) - c)
               = skip_succeeds (so_kind (is_src (br_stream r))) (br_remaining r)
                               (nlen (so_data (is_src (br_stream r))))).
    { unfold skip_succeeds. destruct (so_kind (is_src (br_stream r))); auto;
        destruct (N.leb_spec (br_remaining r - c) (nlen (so_data (is_src (br_stream r))) - c));
        destruct (N.leb_spec (br_remaining r) (nlen (so_data (is_src (br_stream r))))); auto; lia. }
    rewrite Sk.
    apply next_file_tail_equiv; cbn [br_curr br_eof br_stream]; try reflexivity.
    intros _. unfold stream_equiv, remaining. cbn [is_src is_state is_leadin app].
    rewrite K, K', D, D', Gk, Gr, Gd. rewrite <- skipn_N_add.
    replace (c + (br_remaining r - c)) with (br_remaining r) by lia. repeat split; auto.
  - (* a read met the end of the data: eof was set then; without the reads the
       skip fails, or (seekable file) succeeds and the header read finds nothing *)
    rewrite Fe.
    assert (Ea : (if skip_succeeds (so_kind (is_src (br_stream r'))) (br_remaining r')
                       (nlen (so_data (is_src (br_stream r')))) then true else true) = true)
      by (destruct (skip_succeeds _ _ _); reflexivity).
    rewrite Ea. unfold nf_tail at 1. cbn [br_eof].
    unfold nf_tail. cbn [br_eof br_stream br_remaining].
    destruct (skip_succeeds (so_kind (is_src (br_stream r))) (br_remaining r)
                            (nlen (so_data (is_src (br_stream r))))) eqn:Sk.
    + destruct (header_read_short mktime {| is_src := s; is_state := IS_READING; is_leadin := [] |}) as [st2 E2].
      * cbn [is_state]. discriminate.
      * unfold remaining. cbn [is_leadin is_src app]. rewrite D, nlen_skipn_N. lia.
      * rewrite E2. cbn [bind orel]. unfold nf_rel, breader_equiv. cbn [fst snd br_curr br_eof].
        repeat split; auto; discriminate.
    + cbn [orel]. unfold nf_rel, breader_equiv. cbn [fst snd br_curr br_eof].
      repeat split; auto; discriminate.
Qed.

(* the four kinds of source, by name *)
Corollary next_file_after_reads_ok mktime r sizes h r1 : br_wf r ->
  lha_basic_reader_next_file mktime r = Ok (h, r1) ->
  exists r2, lha_basic_reader_next_file mktime (read_many r sizes) = Ok (h, r2) /\ breader_equiv r2 r1.
Proof.
  intros W H. pose proof (next_file_after_reads mktime r sizes W) as O. rewrite H in O.
  destruct (lha_basic_reader_next_file mktime (read_many r sizes)) as [[h2 r2]| |]; cbn [orel] in O; try contradiction.
  destruct O as [E1 E2]. cbn [fst snd] in E1, E2. subst h2. exists r2. auto.
Qed.

(* br_wf holds along every history of a reader made by lha_basic_reader_new *)
Inductive br_reachable (mktime : N -> N -> N -> N -> Z -> N -> N) (k : skind) (data : list N) : breader -> Prop :=
| brr_new : br_reachable mktime k data (lha_basic_reader_new (lha_input_stream_new (mk_source k data)))
| brr_read r n : br_reachable mktime k data r ->
    br_reachable mktime k data (snd (lha_basic_reader_read_compressed r n))
| brr_next r h r' : br_reachable mktime k data r -> lha_basic_reader_next_file mktime r = Ok (h, r') ->
    br_reachable mktime k data r'.

Theorem br_reachable_wf mktime k data r : nlen data < 1099511627776 ->
  br_reachable mktime k data r -> br_wf r.
Proof.
  intros Hs H. induction H as [|r n _ IH|r h r' _ IH E].
  - apply br_wf_new. exact Hs.
  - apply read_compressed_wf. exact IH.
  - eapply next_file_wf; eauto.
Qed.

(* ------------------------------------------------------------------ *)
(* Non-vacuity: two members, the first with 5 bytes of data             *)

Definition ex_member1 : list N :=
  [23; 234; 45; 108; 104; 48; 45;  5; 0; 0; 0;  5; 0; 0; 0;  0; 0; 0; 0;  32; 0;  1; 97;  0; 0].
Definition ex_archive : list N := ex_member1 ++ [10; 11; 12; 13; 14] ++ ex_bytes.
Definition ex_archive_truncated : list N := ex_member1 ++ [10; 11; 12].

Example ex_next_after_reads : forall k,
  let r0 := lha_basic_reader_new (lha_input_stream_new (mk_source k ex_archive)) in
  exists h1 r1, lha_basic_reader_next_file mktime_utc r0 = Ok (Some h1, r1) /\ br_wf r1 /\
    fst (lha_basic_reader_read_compressed r1 2) = [10; 11] /\
    exists h2 ra rb,
      lha_basic_reader_next_file mktime_utc (read_many r1 [2; 1]) = Ok (Some h2, ra) /\
      lha_basic_reader_next_file mktime_utc r1 = Ok (Some h2, rb) /\
      breader_equiv ra rb /\ h_raw h2 = ex_bytes.
Proof.
  intros k. cbv zeta.
  assert (W0 : br_wf (lha_basic_reader_new (lha_input_stream_new (mk_source k ex_archive))))
    by (apply br_wf_new; vm_compute; reflexivity).
  destruct (lha_basic_reader_next_file mktime_utc (lha_basic_reader_new (lha_input_stream_new (mk_source k ex_archive))))
    as [[[h1|] r1]| |] eqn:E1; try (destruct k; vm_compute in E1; discriminate).
  pose proof (next_file_wf _ _ _ _ W0 E1) as W1.
  exists h1, r1. split; [reflexivity|]. split; [exact W1|].
  assert (V : fst (lha_basic_reader_read_compressed r1 2) = [10; 11] /\
              exists h2 rb, lha_basic_reader_next_file mktime_utc r1 = Ok (Some h2, rb) /\ h_raw h2 = ex_bytes).
  { destruct k; vm_compute in E1; inversion E1; subst; (split; [vm_compute; reflexivity|]);
      eexists _, _; (split; [vm_compute; reflexivity|reflexivity]). }
  destruct V as (V1 & h2 & rb & V2 & V3). split; [exact V1|].
  destruct (next_file_after_reads_ok mktime_utc r1 [2; 1] _ _ W1 V2) as (ra & Ea & Eq).
  exists h2, ra, rb. auto.
Qed.

(* the member's data is cut short: "no header" in both histories, each kind of source *)
Example ex_next_after_reads_truncated : forall k,
  let r0 := lha_basic_reader_new (lha_input_stream_new (mk_source k ex_archive_truncated)) in
  exists h1 r1, lha_basic_reader_next_file mktime_utc r0 = Ok (Some h1, r1) /\
    exists ra rb,
      lha_basic_reader_next_file mktime_utc (read_many r1 [2; 4; 1]) = Ok (None, ra) /\
      lha_basic_reader_next_file mktime_utc r1 = Ok (None, rb) /\ breader_equiv ra rb.
Proof.
  intros k. cbv zeta.
  assert (W0 : br_wf (lha_basic_reader_new (lha_input_stream_new (mk_source k ex_archive_truncated))))
    by (apply br_wf_new; vm_compute; reflexivity).
  destruct (lha_basic_reader_next_file mktime_utc (lha_basic_reader_new (lha_input_stream_new (mk_source k ex_archive_truncated))))
    as [[[h1|] r1]| |] eqn:E1; try (destruct k; vm_compute in E1; discriminate).
  pose proof (next_file_wf _ _ _ _ W0 E1) as W1.
  exists h1, r1. split; [reflexivity|].
  assert (V : exists rb, lha_basic_reader_next_file mktime_utc r1 = Ok (None, rb)).
  { destruct k; vm_compute in E1; inversion E1; subst; eexists; vm_compute; reflexivity. }
  destruct V as (rb & V2).
  destruct (next_file_after_reads_ok mktime_utc r1 [2; 4; 1] _ _ W1 V2) as (ra & Ea & Eq).
  exists ra, rb. auto.
Qed.

Print Assumptions next_file_equiv.
Print Assumptions next_file_after_reads.
Print Assumptions next_file_after_reads_ok.
Print Assumptions br_reachable_wf.
Print Assumptions ex_next_after_reads.
Print Assumptions ex_next_after_reads_truncated.

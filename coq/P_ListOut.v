(* P_ListOut.v -- properties of the list-command model (ListOut.v, Printf.v, Glob.v).

   Part A (C18, list part): every byte list_output produces is printable ASCII
   or the tool's own newline.
   Part B (C19): glob matching is the usual relation; the output is
   headings ++ one row per selected member (archive order) ++ footer; the
   footer shows the count and the (size_t-wrapped) sums of the selected
   members; each cell is the rendering of the member's own field; %.1f
   rounding is to nearest, ties to even.
   Part C: non-vacuity examples.

   Lemmas and theorems only; no model definitions are changed. *)
From Coq Require Import Floats.SpecFloat ZifyBool ZifyN ZifyNat.
From Lhasa Require Import Base Generated Header Printf Glob ListOut.
Local Open Scope N_scope.

(* ================================================================== *)
(* Part A -- C18                                                        *)

Definition printable (b : N) : Prop := 32 <= b /\ b < 127.
(* The list commands write no TAB (9) and no CR (13) of their own: the only
   byte outside 0x20..0x7e is the newline that ends the heading, separator,
   footer and row lines and the name line of lv / vv.  list_output_clean below
   is proved for this set, so 9 and 13 are excluded as well. *)
Definition allowed (b : N) : Prop := (32 <= b /\ b < 127) \/ b = 10.

Definition printableb (b : N) : bool := (32 <=? b) && (b <? 127).

Lemma printableb_ok b : printableb b = true <-> printable b.
Proof. unfold printableb, printable. lia. Qed.

Lemma forallb_printable l : forallb printableb l = true -> Forall printable l.
Proof.
  intros H. apply Forall_forall. intros x Hx.
  rewrite forallb_forall in H. apply printableb_ok. auto.
Qed.

Lemma printable_allowed b : printable b -> allowed b.
Proof. unfold printable, allowed. tauto. Qed.

Lemma Forall_printable_allowed l : Forall printable l -> Forall allowed l.
Proof. apply Forall_impl. exact printable_allowed. Qed.

Lemma allowed_10 : allowed 10.
Proof. right. reflexivity. Qed.

Lemma Ok_inj {A} (a b : A) : Ok a = Ok b -> a = b.
Proof. intros H. injection H. auto. Qed.

(* ---- A.2 safe_output ---- *)

Lemma safe_char_printable b : printable (safe_char b).
Proof.
  unfold safe_char, printable.
  destruct (N.ltb_spec b 32); cbn [orb]; [lia|].
  destruct (N.leb_spec 127 b); lia.
Qed.

Lemma safe_char_id b : printable b -> safe_char b = b.
Proof.
  unfold safe_char, printable. intros [H1 H2].
  destruct (N.ltb_spec b 32); [lia|]. cbn [orb].
  destruct (N.leb_spec 127 b); [lia|reflexivity].
Qed.

Theorem safe_output_allowed : forall s, Forall printable (safe_output s).
Proof.
  intros s. unfold safe_output. apply Forall_forall. intros x Hx.
  apply in_map_iff in Hx. destruct Hx as [b [<- _]]. apply safe_char_printable.
Qed.

(* a C string ends at its first NUL: safe_output keeps the length of that string *)
Lemma safe_output_length s : length (safe_output s) = length (cstr s).
Proof. unfold safe_output. apply map_length. Qed.

Lemma cstr_nul_free s : ~ In 0 s -> cstr s = s.
Proof.
  induction s as [|b r IH]; intros H; [reflexivity|].
  cbn [cstr]. destruct (N.eqb_spec b 0) as [->|Hb].
  - exfalso. apply H. left. reflexivity.
  - f_equal. apply IH. intros Hin. apply H. right. exact Hin.
Qed.

Lemma safe_output_length_nul_free s : ~ In 0 s -> length (safe_output s) = length s.
Proof. intros H. rewrite safe_output_length, cstr_nul_free; auto. Qed.

Lemma printable_nul_free s : Forall printable s -> ~ In 0 s.
Proof.
  intros H Hin. rewrite Forall_forall in H. apply H in Hin. unfold printable in Hin. lia.
Qed.

Theorem safe_output_id s : Forall printable s -> safe_output s = s.
Proof.
  intros H. unfold safe_output. rewrite cstr_nul_free by (apply printable_nul_free; exact H).
  induction H as [|b r Hb Hr IH]; [reflexivity|].
  cbn [map]. rewrite safe_char_id by exact Hb. f_equal. exact IH.
Qed.

(* position by position: printable bytes are kept, all others become '?' *)
Lemma safe_output_nth s : ~ In 0 s -> forall i b, nth_error s i = Some b ->
  nth_error (safe_output s) i = Some (if printableb b then b else 63).
Proof.
  intros H i b Hb. unfold safe_output. rewrite cstr_nul_free by exact H.
  rewrite nth_error_map, Hb. cbn [option_map]. f_equal.
  unfold safe_char, printableb.
  destruct (N.ltb_spec b 32); destruct (N.leb_spec 32 b); try lia; cbn [orb andb]; try reflexivity.
  destruct (N.leb_spec 127 b); destruct (N.ltb_spec b 127); try lia; reflexivity.
Qed.

Lemma cstr_app a b : ~ In 0 a -> cstr (a ++ b) = a ++ cstr b.
Proof.
  induction a as [|x r IH]; intros H; [reflexivity|].
  cbn [app cstr]. destruct (N.eqb_spec x 0) as [->|Hx].
  - exfalso. apply H. left. reflexivity.
  - f_equal. apply IH. intros Hin. apply H. right. exact Hin.
Qed.

Lemma safe_output_app a b : ~ In 0 a -> safe_output (a ++ b) = safe_output a ++ safe_output b.
Proof.
  intros H. unfold safe_output. rewrite cstr_app by exact H.
  rewrite map_app. rewrite (cstr_nul_free a) by exact H. reflexivity.
Qed.

Lemma safe_printf_prefix p s : Forall printable p -> safe_printf (p ++ s) = p ++ safe_output s.
Proof.
  intros H. unfold safe_printf. rewrite safe_output_app by (apply printable_nul_free; exact H).
  rewrite safe_output_id by exact H. reflexivity.
Qed.

(* ---- A.3 the numeric formatters ---- *)

Ltac lit_printable := apply forallb_printable; vm_compute; reflexivity.
(* split a Forall over a syntactic ++ (rewrite does not unfold the formatters) *)
Ltac fa := rewrite ?Forall_app; repeat match goal with |- _ /\ _ => split end.

Lemma Forall_repeat {A} (P : A -> Prop) c n : P c -> Forall P (repeat c n).
Proof. intros H. induction n; cbn [repeat]; constructor; auto. Qed.

Lemma rep_printable c n : printable c -> Forall printable (rep c n).
Proof. intros H. unfold rep. apply Forall_repeat. exact H. Qed.

Lemma printable_32 : printable 32. Proof. unfold printable; lia. Qed.
Lemma printable_48 : printable 48. Proof. unfold printable; lia. Qed.
Lemma printable_45 : printable 45. Proof. unfold printable; lia. Qed.

Lemma pad_field_printable left zero width sign body :
  Forall printable sign -> Forall printable body ->
  Forall printable (pad_field left zero width sign body).
Proof.
  intros Hs Hb. unfold pad_field. cbv zeta.
  destruct left; [|destruct zero]; fa; auto;
    apply rep_printable; [exact printable_32|exact printable_48|exact printable_32].
Qed.

Lemma digit_char_printable d : d < 16 -> printable (digit_char d).
Proof. intros H. unfold digit_char, printable. destruct (N.ltb_spec d 10); lia. Qed.

Lemma digits_aux_printable base fuel : 0 < base -> base <= 16 ->
  forall n acc, Forall printable acc -> Forall printable (digits_aux base fuel n acc).
Proof.
  intros Hb0 Hb16. induction fuel as [|k IH]; intros n acc Hacc; cbn [digits_aux]; [exact Hacc|].
  assert (Hd : printable (digit_char (n mod base))).
  { apply digit_char_printable. pose proof (N.mod_lt n base). lia. }
  destruct (n <? base); [constructor; auto|]. apply IH. constructor; auto.
Qed.

Lemma dec_digits_printable n : Forall printable (dec_digits n).
Proof. unfold dec_digits. apply digits_aux_printable; [lia|lia|constructor]. Qed.

Lemma hex_digits_printable n : Forall printable (hex_digits n).
Proof. unfold hex_digits. apply digits_aux_printable; [lia|lia|constructor]. Qed.

Lemma fmt_s_printable left width s : Forall printable s -> Forall printable (fmt_s left width s).
Proof. intros H. unfold fmt_s. apply pad_field_printable; [constructor|exact H]. Qed.

Lemma fmt_u_printable left zero width n : Forall printable (fmt_u left zero width n).
Proof. unfold fmt_u. apply pad_field_printable; [constructor|apply dec_digits_printable]. Qed.

Lemma fmt_x_printable left zero width n : Forall printable (fmt_x left zero width n).
Proof. unfold fmt_x. apply pad_field_printable; [constructor|apply hex_digits_printable]. Qed.

Lemma fmt_d_printable left zero width z : Forall printable (fmt_d left zero width z).
Proof.
  unfold fmt_d. apply pad_field_printable; [|apply dec_digits_printable].
  destruct (z <? 0)%Z; [lit_printable|constructor].
Qed.

Lemma fmt_f1_printable left zero width x : Forall printable (fmt_f1 left zero width x).
Proof.
  assert (Hsg : forall s : bool, Forall printable (if s then [45] else [])).
  { intros []; [lit_printable|constructor]. }
  unfold fmt_f1. cbv zeta. destruct x as [s|s| |s m e]; apply pad_field_printable; auto;
    try lit_printable; try constructor.
  apply Forall_app. split; [apply dec_digits_printable|].
  constructor; [unfold printable; lia|]. constructor; [|constructor].
  apply digit_char_printable. pose proof (N.mod_lt (tenths m e) 10). lia.
Qed.

Lemma fmt_percent_printable x : Forall printable (fmt_percent x).
Proof.
  unfold fmt_percent. apply Forall_app. split; [apply fmt_f1_printable|].
  lit_printable.
Qed.

Lemma ratio_string_printable c u : Forall printable (ratio_string c u).
Proof. unfold ratio_string. apply fmt_percent_printable. Qed.

(* ---- A.4 the tool's own literals ---- *)

(* literals transcribed in ListOut.v *)
Lemma stars6_printable : Forall printable stars6.
Proof. apply forallb_printable. vm_compute. reflexivity. Qed.

Lemma total_literal_printable st : Forall printable (permission_column_footer st).
Proof. apply forallb_printable. vm_compute. reflexivity. Qed.

(* literals generated from the C source: checked by computation over the
   generated lists, so a literal outside 0x20..0x7e in list.c breaks this file *)
Lemma month_names_printable : Forall (Forall printable) month_names.
Proof.
  assert (H : forallb (forallb printableb) month_names = true) by (vm_compute; reflexivity).
  apply Forall_forall. intros s Hs. rewrite forallb_forall in H. apply forallb_printable. auto.
Qed.

Lemma os_names_printable : Forall (Forall printable) (list_os_name_default :: os_name_strings).
Proof.
  assert (H : forallb (forallb printableb) (list_os_name_default :: os_name_strings) = true)
    by (vm_compute; reflexivity).
  apply Forall_forall. intros s Hs. rewrite forallb_forall in H. apply forallb_printable. auto.
Qed.

Definition names_ok (cols : list list_column) : Prop := Forall (fun c => Forall printable (c_name c)) cols.
Definition names_okb (cols : list list_column) : bool := forallb (fun c => forallb printableb (c_name c)) cols.

Lemma names_okb_ok cols : names_okb cols = true -> names_ok cols.
Proof.
  intros H. apply Forall_forall. intros c Hc. unfold names_okb in H.
  rewrite forallb_forall in H. apply forallb_printable. auto.
Qed.

Definition cols_okb (o : outcome (list list_column)) : bool :=
  match o with Ok cols => names_okb cols | _ => true end.

Lemma column_names_printable :
  cols_okb normal_column_headers = true /\ cols_okb normal_column_headers_verbose = true /\
  cols_okb verbose_column_headers = true /\ cols_okb verbose_column_headers_verbose = true.
Proof. repeat split; vm_compute; reflexivity. Qed.

(* ---- A.5 the cells ---- *)

Lemma nth_N_In {A} (l : list A) i x : nth_N l i = Some x -> In x l.
Proof. unfold nth_N. apply nth_error_In. Qed.

Lemma os_type_to_string_printable os s : os_type_to_string os = Ok s -> Forall printable s.
Proof.
  pose proof os_names_printable as H. rewrite Forall_forall in H.
  unfold os_type_to_string. destruct (first_index list_os_known (u8 os) 0) as [k|].
  - destruct (nth_N os_name_strings k) as [t|] eqn:E; intros Q; [|discriminate Q].
    apply Ok_inj in Q; subst t. apply H. right. eapply nth_N_In; eauto.
  - intros Q; apply Ok_inj in Q; subst s. apply H. left. reflexivity.
Qed.

Lemma perm_chars_printable chars : Forall printable chars ->
  forall nbits word, Forall printable (perm_chars chars nbits word).
Proof.
  induction 1 as [|c r Hc Hr IH]; intros nbits word; cbn [perm_chars]; constructor; auto.
  destruct (N.testbit word (nbits - 1)); [exact Hc|exact printable_45].
Qed.

Lemma unix_permissions_printable h : Forall printable (unix_permissions_print h).
Proof.
  unfold unix_permissions_print. apply Forall_app. split.
  - destruct (negb (method_is h COMPRESS_TYPE_DIR)); [lit_printable|].
    destruct (h_symlink_target h); lit_printable.
  - apply perm_chars_printable. lit_printable.
Qed.

Lemma os9_permissions_printable h : Forall printable (os9_permissions_print h).
Proof.
  unfold os9_permissions_print. fa.
  - destruct (negb (method_is h COMPRESS_TYPE_DIR)); lit_printable.
  - apply perm_chars_printable. lit_printable.
  - lit_printable.
Qed.

Lemma permission_column_printable h t : permission_column_print h = Ok t -> Forall printable t.
Proof.
  unfold permission_column_print.
  destruct (have_extra h FILE_OS9_PERMS).
  { intros Q; apply Ok_inj in Q; subst t. apply os9_permissions_printable. }
  destruct (have_extra h FILE_UNIX_PERMS).
  { intros Q; apply Ok_inj in Q; subst t. apply unix_permissions_printable. }
  intros Q. apply bind_ok in Q. destruct Q as [s [Hs Q]]. apply Ok_inj in Q. subst t.
  apply fmt_s_printable. eapply os_type_to_string_printable; eauto.
Qed.

Lemma unix_uid_gid_printable h : Forall printable (unix_uid_gid_column_print h).
Proof.
  unfold unix_uid_gid_column_print. destruct (have_extra h FILE_UNIX_UID_GID).
  - fa; try apply fmt_d_printable. lit_printable.
  - apply rep_printable. exact printable_32.
Qed.

Lemma unix_uid_gid_footer_printable st : Forall printable (unix_uid_gid_column_footer st).
Proof.
  unfold unix_uid_gid_column_footer. destruct (st_num_files st =? 1);
    (apply Forall_app; split; [apply fmt_d_printable|lit_printable]).
Qed.

Lemma ratio_column_printable h : Forall printable (ratio_column_print h).
Proof.
  unfold ratio_column_print. destruct (method_is h str_lhd);
    [apply stars6_printable|apply fmt_percent_printable].
Qed.

Lemma ratio_footer_printable st : Forall printable (ratio_column_footer st).
Proof.
  unfold ratio_column_footer. destruct (st_length st =? 0);
    [apply stars6_printable|apply fmt_percent_printable].
Qed.

(* the method field is archive data: it goes through safe_printf *)
Lemma method_crc_printable h : Forall printable (method_crc_column_print h).
Proof. unfold method_crc_column_print, safe_printf. apply safe_output_allowed. Qed.

Lemma month_name_printable mon s : month_name mon = Ok s -> Forall printable s.
Proof.
  pose proof month_names_printable as H. rewrite Forall_forall in H.
  unfold month_name. destruct mon as [|p|p]; try discriminate;
    (destruct (nth_N month_names _) as [t|] eqn:E; intros Q; [|discriminate Q];
     apply Ok_inj in Q; subst t; apply H; eapply nth_N_In; eauto).
Qed.

Lemma output_timestamp_printable lt now ts t : output_timestamp lt now ts = Ok t -> Forall printable t.
Proof.
  unfold output_timestamp. destruct (ts =? 0).
  { intros Q; apply Ok_inj in Q; subst t. apply rep_printable. exact printable_32. }
  cbv zeta. intros Q. apply bind_ok in Q. destruct Q as [m [Hm Q]].
  apply month_name_printable in Hm.
  assert (Hdate : Forall printable (m ++ [32] ++ fmt_d false false 2 (tm_mday (lt ts)) ++ [32])).
  { fa; auto; try apply fmt_d_printable; lit_printable. }
  destruct (Z.of_N now - 15552000 <? Z.of_N ts)%Z; apply Ok_inj in Q; subst t;
    rewrite Forall_app; (split; [exact Hdate|]);
    fa; auto; try apply fmt_d_printable; lit_printable.
Qed.

Lemma output_full_timestamp_printable lt ts : Forall printable (output_full_timestamp lt ts).
Proof.
  unfold output_full_timestamp. destruct (ts =? 0).
  { apply rep_printable. exact printable_32. }
  cbv zeta. fa; try apply fmt_d_printable; lit_printable.
Qed.

Lemma opt_print_printable prefix o : Forall printable (opt_print prefix o).
Proof. unfold opt_print, safe_printf. destruct o; [apply safe_output_allowed|constructor]. Qed.

Lemma name_column_printable h : Forall printable (name_column_print h).
Proof. unfold name_column_print. fa; apply opt_print_printable. Qed.

Lemma whole_line_name_allowed h : Forall allowed (whole_line_name_column_print h).
Proof.
  unfold whole_line_name_column_print.
  fa; try (apply Forall_printable_allowed, opt_print_printable).
  constructor; [exact allowed_10|constructor].
Qed.

Lemma header_level_printable h : Forall printable (header_level_column_print h).
Proof.
  unfold header_level_column_print. fa;
    try apply fmt_d_printable; lit_printable.
Qed.

Lemma packed_printable h : Forall printable (packed_column_print h).
Proof. apply fmt_u_printable. Qed.
Lemma size_printable h : Forall printable (size_column_print h).
Proof. apply fmt_u_printable. Qed.
Lemma packed_footer_printable st : Forall printable (packed_column_footer st).
Proof. apply fmt_u_printable. Qed.
Lemma size_footer_printable st : Forall printable (size_column_footer st).
Proof. apply fmt_u_printable. Qed.

Ltac split_small_N x :=
  destruct x as [|x]; [|do 4 (try destruct x as [x|x|])].

Lemma column_handler_allowed lt now c h t : column_handler lt now c h = Ok t -> Forall allowed t.
Proof.
  unfold column_handler. intros Q.
  remember (c_handler c) as k eqn:Ek. clear Ek.
  split_small_N k; try discriminate Q.
  all: first
    [ eapply Forall_printable_allowed, permission_column_printable; exact Q
    | eapply Forall_printable_allowed, output_timestamp_printable; exact Q
    | apply Ok_inj in Q; subst t;
      first [ apply whole_line_name_allowed
            | apply Forall_printable_allowed;
              first [ apply unix_uid_gid_printable | apply packed_printable | apply size_printable
                    | apply ratio_column_printable | apply method_crc_printable
                    | apply output_full_timestamp_printable | apply name_column_printable
                    | apply header_level_printable ] ] ].
Qed.

Lemma column_footer_allowed lt now c st t : column_footer lt now c st = Ok t -> Forall printable t.
Proof.
  unfold column_footer. intros Q.
  remember (c_footer c) as k eqn:Ek. clear Ek.
  split_small_N k; try discriminate Q.
  all: first
    [ eapply output_timestamp_printable; exact Q
    | apply Ok_inj in Q; subst t;
      first [ apply total_literal_printable | apply unix_uid_gid_footer_printable
            | apply packed_footer_printable | apply size_footer_printable
            | apply ratio_footer_printable | apply output_full_timestamp_printable ] ].
Qed.

(* ---- A.5 rows, headings, separators, footers ---- *)

Lemma concat_map_o_allowed {A} (f : A -> outcome (list N)) (P : N -> Prop) l :
  (forall x t, In x l -> f x = Ok t -> Forall P t) ->
  forall out, concat_map_o f l = Ok out -> Forall P out.
Proof.
  induction l as [|x r IH]; intros Hf out Q; cbn [concat_map_o] in Q.
  - apply Ok_inj in Q; subst out. constructor.
  - apply bind_ok in Q. destruct Q as [a [Ha Q]]. apply bind_ok in Q. destruct Q as [b [Hb Q]].
    apply Ok_inj in Q; subst out. apply Forall_app. split.
    + eapply Hf; [left; reflexivity|exact Ha].
    + apply IH; [|exact Hb]. intros y t Hy. apply Hf. right. exact Hy.
Qed.

Lemma sep_cell_allowed (b : bool) : Forall allowed (if b then [32] else []).
Proof. destruct b; [apply Forall_printable_allowed; lit_printable|constructor]. Qed.

Lemma print_columns_allowed lt now cols h row : print_columns lt now cols h = Ok row -> Forall allowed row.
Proof.
  unfold print_columns. cbv zeta. intros Q. apply bind_ok in Q. destruct Q as [r [Hr Q]].
  apply Ok_inj in Q; subst row. apply Forall_app. split; [|constructor; [exact allowed_10|constructor]].
  revert Hr. apply concat_map_o_allowed. intros c t _ Q.
  apply bind_ok in Q. destruct Q as [u [Hu Q]]. apply Ok_inj in Q; subst t.
  apply Forall_app. split; [eapply column_handler_allowed; exact Hu|apply sep_cell_allowed].
Qed.

Lemma Forall_flat_map {A B} (P : B -> Prop) (f : A -> list B) l :
  (forall x, In x l -> Forall P (f x)) -> Forall P (flat_map f l).
Proof.
  induction l as [|x r IH]; intros H; cbn [flat_map]; [constructor|].
  apply Forall_app. split; [apply H; left; reflexivity|apply IH; intros y Hy; apply H; right; exact Hy].
Qed.

Lemma print_list_headings_allowed cols : names_ok cols -> Forall allowed (print_list_headings cols).
Proof.
  intros Hn. unfold names_ok in Hn. rewrite Forall_forall in Hn.
  unfold print_list_headings. cbv zeta. apply Forall_app. split; [|constructor; [exact allowed_10|constructor]].
  apply Forall_flat_map. intros c Hc. apply Forall_printable_allowed. apply Forall_app. split; [apply Hn; exact Hc|].
  destruct ((0 <? c_width c) && not_last c (last_column cols)); [apply rep_printable; exact printable_32|constructor].
Qed.

Lemma print_list_separators_allowed cols : Forall allowed (print_list_separators cols).
Proof.
  unfold print_list_separators. cbv zeta. apply Forall_app. split; [|constructor; [exact allowed_10|constructor]].
  apply Forall_flat_map. intros c Hc. apply Forall_app. split.
  - apply Forall_printable_allowed, rep_printable. exact printable_45.
  - apply sep_cell_allowed.
Qed.

Lemma print_footers_loop_allowed lt now st cols : forall out,
  print_footers_loop lt now cols st = Ok out -> Forall allowed out.
Proof.
  induction cols as [|c r IH]; intros out Q; cbn [print_footers_loop] in Q.
  - apply Ok_inj in Q; subst out. constructor.
  - cbv zeta in Q. apply bind_ok in Q. destruct Q as [t [Ht Q]].
    apply bind_ok in Q. destruct Q as [rest [Hrest Q]]. apply Ok_inj in Q; subst out.
    rewrite !Forall_app. split; [|split].
    + apply Forall_printable_allowed. destruct (has_footer c).
      * eapply column_footer_allowed; exact Ht.
      * destruct r; apply Ok_inj in Ht; subst t; [constructor|apply rep_printable; exact printable_32].
    + apply sep_cell_allowed.
    + apply IH. exact Hrest.
Qed.

Lemma print_footers_allowed lt now cols st out : print_footers lt now cols st = Ok out -> Forall allowed out.
Proof.
  unfold print_footers. intros Q. apply bind_ok in Q. destruct Q as [t [Ht Q]]. apply Ok_inj in Q; subst out.
  apply Forall_app. split; [eapply print_footers_loop_allowed; exact Ht|constructor; [exact allowed_10|constructor]].
Qed.

Lemma list_rows_allowed lt now cols f hs : forall st rows st',
  list_rows lt now cols f hs st = Ok (rows, st') -> Forall (Forall allowed) rows.
Proof.
  induction hs as [|h r IH]; intros st rows st' Q; cbn [list_rows] in Q.
  - apply Ok_inj in Q. injection Q as <- _. constructor.
  - destruct (matches_filter f h); [|eapply IH; exact Q].
    apply bind_ok in Q. destruct Q as [row [Hrow Q]]. cbv zeta in Q.
    apply bind_ok in Q. destruct Q as [[rows1 st1] [H1 Q]]. apply Ok_inj in Q. injection Q as <- _.
    constructor; [eapply print_columns_allowed; exact Hrow|eapply IH; exact H1].
Qed.

Lemma Forall_concat {A} (P : A -> Prop) ll : Forall (Forall P) ll -> Forall P (concat ll).
Proof. induction 1; cbn [concat]; [constructor|apply Forall_app; split; assumption]. Qed.

Lemma list_file_contents_allowed lt now f mtime o cols hs out :
  names_ok cols -> list_file_contents lt now f mtime o cols hs = Ok out -> Forall allowed out.
Proof.
  intros Hn. unfold list_file_contents. cbv zeta. intros Q.
  apply bind_ok in Q. destruct Q as [[rows st] [Hrows Q]].
  apply bind_ok in Q. destruct Q as [foot [Hfoot Q]]. apply Ok_inj in Q; subst out.
  apply Forall_concat. constructor; [|apply Forall_app; split; [|constructor; [|constructor]]].
  - destruct (o_quiet o <? 2); [|constructor].
    apply Forall_app. split; [apply print_list_headings_allowed; exact Hn|apply print_list_separators_allowed].
  - eapply list_rows_allowed; exact Hrows.
  - destruct (o_quiet o <? 2).
    + apply bind_ok in Hfoot. destruct Hfoot as [ft [Hft Q]]. apply Ok_inj in Q; subst foot.
      apply Forall_app. split; [apply print_list_separators_allowed|eapply print_footers_allowed; exact Hft].
    + apply Ok_inj in Hfoot; subst foot. constructor.
Qed.

Lemma cols_okb_names o cols : cols_okb o = true -> o = Ok cols -> names_ok cols.
Proof. intros H ->. apply names_okb_ok. exact H. Qed.

(* C18 for the list commands: no side condition on localtime is needed -- a
   month number outside 0..11 makes the model fault (no output), and every
   other field of struct tm is printed with %d, whose output is digits and '-'.
   The headers are arbitrary values of the header type. *)
Theorem list_output_clean : forall lt opts pats now mtime hs out,
  list_output lt opts pats now mtime hs = Ok out -> Forall allowed out.
Proof.
  intros lt [mode o] pats now mtime hs out. unfold list_output.
  destruct column_names_printable as [H1 [H2 [H3 H4]]].
  destruct mode; try (intros Q; apply Ok_inj in Q; subst out; constructor).
  - unfold list_file_basic. intros Q. apply bind_ok in Q. destruct Q as [cols [Hc Q]].
    eapply list_file_contents_allowed; [|exact Q].
    destruct (o_verbose o); [exact (cols_okb_names _ _ H2 Hc)|exact (cols_okb_names _ _ H1 Hc)].
  - unfold list_file_verbose. intros Q. apply bind_ok in Q. destruct Q as [cols [Hc Q]].
    eapply list_file_contents_allowed; [|exact Q].
    destruct (o_verbose o); [exact (cols_okb_names _ _ H4 Hc)|exact (cols_okb_names _ _ H3 Hc)].
Qed.

(* ================================================================== *)
(* Part B -- C19                                                        *)

(* ---- B.1 wildcard matching ---- *)

(* the usual relation: '*' (42) matches any run of bytes, '?' (63) exactly one
   byte, every other pattern byte matches itself *)
Inductive matches : list N -> list N -> Prop :=
| m_nil : matches [] []
| m_star_none p s : matches p s -> matches (42 :: p) s
| m_star_more p c s : matches (42 :: p) s -> matches (42 :: p) (c :: s)
| m_any p c s : matches p s -> matches (63 :: p) (c :: s)
| m_lit g p s : g <> 42 -> g <> 63 -> matches p s -> matches (g :: p) (g :: s).

(* '*' as "any run": the run s1 is consumed, the rest matches the rest *)
Lemma matches_star_iff p s :
  matches (42 :: p) s <-> exists s1 s2, s = s1 ++ s2 /\ matches p s2.
Proof.
  split.
  - intros H. remember (42 :: p) as q eqn:Eq. revert Eq.
    induction H as [|p' s' H IH|p' c s' H IH|p' c s' H IH|g p' s' Hg1 Hg2 H IH]; intros Eq;
      try discriminate Eq.
    + injection Eq as ->. exists [], s'. split; [reflexivity|exact H].
    + injection Eq as ->. destruct (IH eq_refl) as [s1 [s2 [-> H2]]].
      exists (c :: s1), s2. split; [reflexivity|exact H2].
    + injection Eq as -> ->. congruence.
  - intros [s1 [s2 [-> H]]]. induction s1 as [|c r IH]; cbn [app].
    + apply m_star_none. exact H.
    + apply m_star_more. exact IH.
Qed.

Lemma match_glob_nil s : match_glob [] s = match s with [] => true | _ :: _ => false end.
Proof. destruct s; reflexivity. Qed.

Lemma match_glob_cons_nil g p : match_glob (g :: p) [] = glob_tail_ok (g :: p).
Proof. reflexivity. Qed.

Lemma match_glob_cons_cons g p c s :
  match_glob (g :: p) (c :: s) =
  if g =? 42 then (if match_glob p (c :: s) then true else match_glob (g :: p) s)
  else if (g =? 63) || (g =? c) then match_glob p s else false.
Proof. reflexivity. Qed.

Lemma glob_tail_ok_matches p : glob_tail_ok p = true <-> matches p [].
Proof.
  induction p as [|g r IH]; cbn [glob_tail_ok].
  - split; [constructor|reflexivity].
  - destruct (N.eqb_spec g 42) as [->|Hg].
    + rewrite IH. split; [apply m_star_none|].
      intros H. inversion H; subst. assumption.
    + split; [discriminate|]. intros H. inversion H; subst. congruence.
Qed.

Lemma match_glob_sound p : forall s, match_glob p s = true -> matches p s.
Proof.
  induction p as [|g p IHp]; intros s.
  - rewrite match_glob_nil. destruct s; [constructor|discriminate].
  - induction s as [|c s IHs].
    + rewrite match_glob_cons_nil. apply glob_tail_ok_matches.
    + rewrite match_glob_cons_cons. destruct (N.eqb_spec g 42) as [->|Hg].
      * destruct (match_glob p (c :: s)) eqn:E.
        -- intros _. apply m_star_none. apply IHp. exact E.
        -- intros H. apply m_star_more. apply IHs. exact H.
      * destruct (N.eqb_spec g 63) as [->|Hq]; cbn [orb].
        -- intros H. apply m_any. apply IHp. exact H.
        -- destruct (N.eqb_spec g c) as [->|Hc]; [|discriminate].
           intros H. apply m_lit; auto.
Qed.

Lemma match_glob_complete p s : matches p s -> match_glob p s = true.
Proof.
  induction 1 as [|p s H IH|p c s H IH|p c s H IH|g p s Hg1 Hg2 H IH].
  - reflexivity.
  - destruct s as [|c s].
    + rewrite match_glob_cons_nil. apply glob_tail_ok_matches. apply m_star_none. exact H.
    + rewrite match_glob_cons_cons. rewrite N.eqb_refl. rewrite IH. reflexivity.
  - rewrite match_glob_cons_cons. rewrite N.eqb_refl. rewrite IH. destruct (match_glob p (c :: s)); reflexivity.
  - rewrite match_glob_cons_cons. change (63 =? 42) with false. cbv iota.
    rewrite N.eqb_refl. cbn [orb]. exact IH.
  - rewrite match_glob_cons_cons. destruct (N.eqb_spec g 42); [congruence|].
    rewrite (N.eqb_refl g). rewrite orb_true_r. exact IH.
Qed.

Theorem glob_correct : forall p s, match_glob p s = true <-> matches p s.
Proof. intros p s. split; [apply match_glob_sound|apply match_glob_complete]. Qed.

(* which members are listed: all of them when there is no pattern, else those
   whose path ++ filename matches some pattern *)
Definition selected_spec (pats : list (list N)) (h : header) : Prop :=
  pats = [] \/ exists p, In p pats /\ matches p (opt_str (h_path h) ++ opt_str (h_filename h)).

Definition selectedb (pats : list (list N)) (h : header) : bool := matches_filter (lha_filter_init pats) h.

Lemma selectedb_spec pats h : selectedb pats h = true <-> selected_spec pats h.
Proof.
  unfold selectedb, matches_filter, selected_spec, lha_filter_init. cbn [f_filters].
  destruct pats as [|p0 r].
  - split; [left; reflexivity|reflexivity].
  - cbv zeta. rewrite existsb_exists. split.
    + intros [p [Hin Hm]]. right. exists p. split; [exact Hin|apply glob_correct; exact Hm].
    + intros [Habs|[p [Hin Hm]]]; [discriminate|]. exists p. split; [exact Hin|apply glob_correct; exact Hm].
Qed.

Definition selected (pats : list (list N)) (hs : list header) : list header := filter (selectedb pats) hs.

Lemma selected_In pats hs h : In h (selected pats hs) <-> In h hs /\ selected_spec pats h.
Proof. unfold selected. rewrite filter_In, selectedb_spec. reflexivity. Qed.

(* archive order: the selected members are the members, with the unselected ones removed *)
Lemma selected_app pats a b : selected pats (a ++ b) = selected pats a ++ selected pats b.
Proof. unfold selected. apply filter_app. Qed.

Lemma selected_cons pats h r :
  selected pats (h :: r) = if selectedb pats h then h :: selected pats r else selected pats r.
Proof. reflexivity. Qed.

Lemma selected_no_patterns hs : selected [] hs = hs.
Proof. induction hs as [|h r IH]; [reflexivity|]. rewrite selected_cons. cbn. f_equal. exact IH. Qed.

(* ---- B.2 the reference: cells, rows, footer ---- *)

(* localtime returns a month number in range (the only struct tm field that
   indexes a table) *)
Definition lt_ok (lt : N -> tm) : Prop := forall t, (0 <= tm_mon (lt t) <= 11)%Z.

Definition unwrap (o : outcome (list N)) : list N := match o with Ok x => x | _ => [] end.

(* the OS name in brackets *)
Definition os_name (os : N) : list N := unwrap (os_type_to_string os).

Definition perm_cell (h : header) : list N :=
  if have_extra h FILE_OS9_PERMS then os9_permissions_print h
  else if have_extra h FILE_UNIX_PERMS then unix_permissions_print h
  else fmt_s true 10 (os_name (h_os_type h)).

Definition month_str (mon : Z) : list N := nth (Z.to_nat mon) month_names [].

(* the recent / old rule: less than 6 * 30 days before now *)
Definition recent (now ts : N) : bool := (Z.of_N now - 15552000 <? Z.of_N ts)%Z.

Definition stamp_cell (lt : N -> tm) (now ts : N) : list N :=
  if ts =? 0 then rep 32 12 else
  let t := lt ts in
  month_str (tm_mon t) ++ [32] ++ fmt_d false false 2 (tm_mday t) ++ [32] ++
  (if recent now ts
   then fmt_d false true 2 (tm_hour t) ++ [58] ++ fmt_d false true 2 (tm_min t)
   else [32] ++ fmt_d false true 4 (tm_year t + 1900)%Z).

Definition name_cell (arrow : list N) (h : header) : list N :=
  safe_output (opt_str (h_path h)) ++ safe_output (opt_str (h_filename h)) ++
  match h_symlink_target h with Some s => arrow ++ safe_output s | None => [] end.

(* the cell a handler prints *)
Definition cell (lt : N -> tm) (now : N) (handler : N) (h : header) : list N :=
  match handler with
  | 0 => perm_cell h
  | 1 => unix_uid_gid_column_print h
  | 2 => fmt_u false false 7 (as_ulong (h_compressed_length h))
  | 3 => fmt_u false false 7 (as_ulong (h_length h))
  | 4 => ratio_column_print h
  | 5 => method_crc_column_print h
  | 6 => stamp_cell lt now (h_timestamp h)
  | 7 => output_full_timestamp lt (h_timestamp h)
  | 8 => name_cell [32; 45; 62; 32] h
  | 9 => name_cell [124] h ++ [10]
  | 10 => [91] ++ fmt_d false false 0 (Z.of_N (u8 (h_level h))) ++ [93]
  | _ => []
  end.

Definition sep_after (cols : list list_column) (c : list_column) : list N :=
  if negb (c_width c =? 0) && not_last c (last_column cols) then [32] else [].

(* one row: a function of the member alone (and of the clock) *)
Definition row_of (lt : N -> tm) (now : N) (cols : list list_column) (h : header) : list N :=
  flat_map (fun c => cell lt now (c_handler c) h ++ sep_after cols c) cols ++ [10].

Lemma row_of_newline lt now cols h : exists body, row_of lt now cols h = body ++ [10].
Proof. unfold row_of. eexists. reflexivity. Qed.

(* --- the model's handlers return these cells --- *)

Lemma first_index_bound l c : forall i k, first_index l c i = Some k -> i <= k /\ k < i + nlen l.
Proof.
  induction l as [|b r IH]; intros i k H; cbn [first_index] in H; [discriminate|].
  rewrite nlen_cons. destruct (b =? c).
  - injection H as <-. lia.
  - apply IH in H. lia.
Qed.

Lemma os_type_to_string_total os : os_type_to_string os = Ok (os_name os).
Proof.
  unfold os_name. unfold os_type_to_string.
  destruct (first_index list_os_known (u8 os) 0) as [k|] eqn:E; [|reflexivity].
  apply first_index_bound in E. change (nlen list_os_known) with 19 in E.
  unfold nth_N. destruct (nth_error os_name_strings (N.to_nat k)) as [s|] eqn:E2; [reflexivity|].
  apply nth_error_None in E2. change (length os_name_strings) with 19%nat in E2. lia.
Qed.

Lemma permission_column_print_cell h : permission_column_print h = Ok (perm_cell h).
Proof.
  unfold permission_column_print, perm_cell.
  destruct (have_extra h FILE_OS9_PERMS); [reflexivity|].
  destruct (have_extra h FILE_UNIX_PERMS); [reflexivity|].
  rewrite os_type_to_string_total. reflexivity.
Qed.

Lemma month_name_total mon : (0 <= mon <= 11)%Z -> month_name mon = Ok (month_str mon).
Proof.
  intros H. unfold month_name, month_str.
  assert (E : nth_N month_names (Z.to_N mon) = Some (nth (Z.to_nat mon) month_names [])).
  { unfold nth_N. rewrite Z_N_nat. apply nth_error_nth'. change (length month_names) with 12%nat. lia. }
  destruct mon as [|p|p]; [| |lia]; rewrite E; reflexivity.
Qed.

Lemma output_timestamp_cell lt now ts : lt_ok lt -> output_timestamp lt now ts = Ok (stamp_cell lt now ts).
Proof.
  intros Hlt. unfold output_timestamp, stamp_cell, recent. destruct (ts =? 0); [reflexivity|].
  cbv zeta. rewrite month_name_total by apply Hlt. cbn [bind].
  destruct (Z.of_N now - 15552000 <? Z.of_N ts)%Z; rewrite <- !app_assoc; reflexivity.
Qed.

Lemma opt_print_nil o : opt_print [] o = safe_output (opt_str o).
Proof. destruct o; reflexivity. Qed.

Lemma name_column_print_cell h : name_column_print h = name_cell [32; 45; 62; 32] h.
Proof.
  unfold name_column_print, name_cell. rewrite !opt_print_nil.
  destruct (h_symlink_target h) as [s|]; [|reflexivity].
  unfold opt_print. rewrite safe_printf_prefix by lit_printable. reflexivity.
Qed.

Lemma whole_line_name_column_print_cell h : whole_line_name_column_print h = name_cell [124] h ++ [10].
Proof.
  unfold whole_line_name_column_print, name_cell. rewrite !opt_print_nil.
  destruct (h_symlink_target h) as [s|].
  - unfold opt_print. rewrite safe_printf_prefix by lit_printable. rewrite <- !app_assoc. reflexivity.
  - rewrite <- !app_assoc. reflexivity.
Qed.

Definition handler_known (c : list_column) : bool := c_handler c <=? 10.

Lemma column_handler_cell lt now c h : lt_ok lt -> handler_known c = true ->
  column_handler lt now c h = Ok (cell lt now (c_handler c) h).
Proof.
  intros Hlt Hk. unfold handler_known in Hk. unfold column_handler, cell.
  remember (c_handler c) as k eqn:Ek. clear Ek.
  split_small_N k; try (exfalso; lia); try reflexivity.
  all: first [ apply permission_column_print_cell
             | apply output_timestamp_cell; exact Hlt
             | rewrite name_column_print_cell; reflexivity
             | rewrite whole_line_name_column_print_cell; reflexivity ].
Qed.

Lemma concat_map_o_total {A} (f : A -> outcome (list N)) (g : A -> list N) l :
  (forall x, In x l -> f x = Ok (g x)) -> concat_map_o f l = Ok (flat_map g l).
Proof.
  induction l as [|x r IH]; intros H; cbn [concat_map_o flat_map]; [reflexivity|].
  rewrite H by (left; reflexivity). cbn [bind]. rewrite IH by (intros y Hy; apply H; right; exact Hy).
  reflexivity.
Qed.

Lemma print_columns_row lt now cols h : lt_ok lt -> forallb handler_known cols = true ->
  print_columns lt now cols h = Ok (row_of lt now cols h).
Proof.
  intros Hlt Hk. unfold print_columns, row_of. cbv zeta.
  rewrite (concat_map_o_total _ (fun c => cell lt now (c_handler c) h ++ sep_after cols c)).
  - reflexivity.
  - intros c Hc. rewrite forallb_forall in Hk. rewrite column_handler_cell by auto. reflexivity.
Qed.

(* --- footer --- *)

Definition footer_cell (lt : N -> tm) (now : N) (footer : N) (st : file_statistics) : list N :=
  match footer with
  | 0 => permission_column_footer st
  | 1 => unix_uid_gid_column_footer st
  | 2 => fmt_u false false 7 (as_ulong (st_compressed_length st))
  | 3 => fmt_u false false 7 (as_ulong (st_length st))
  | 4 => ratio_column_footer st
  | 6 => stamp_cell lt now (st_timestamp st)
  | 7 => output_full_timestamp lt (st_timestamp st)
  | _ => []
  end.

Fixpoint footer_loop (lt : N -> tm) (now : N) (cols : list list_column) (st : file_statistics) : list N :=
  match cols with
  | [] => []
  | c :: r =>
    let more := match r with [] => false | _ => true end in
    (if has_footer c then footer_cell lt now (c_footer c) st
     else if more then rep 32 (nlen (c_name c)) else [])
    ++ (if negb (c_width c =? 0) && more then [32] else []) ++ footer_loop lt now r st
  end.

(* the columns up to the last one that has a footer *)
Definition footer_columns (cols : list list_column) : list list_column := rev (drop_no_footer (rev cols)).

Definition footer_line (lt : N -> tm) (now : N) (cols : list list_column) (st : file_statistics) : list N :=
  footer_loop lt now (footer_columns cols) st ++ [10].

Definition footer_known (c : list_column) : bool :=
  let k := c_footer c in
  (k =? 0) || (k =? 1) || (k =? 2) || (k =? 3) || (k =? 4) || (k =? 6) || (k =? 7) || (k =? 98).

Lemma column_footer_cell lt now c st : lt_ok lt -> footer_known c = true -> has_footer c = true ->
  column_footer lt now c st = Ok (footer_cell lt now (c_footer c) st).
Proof.
  intros Hlt Hk Hf. unfold footer_known in Hk. unfold has_footer in Hf. cbv zeta in Hk.
  unfold column_footer, footer_cell.
  remember (c_footer c) as k eqn:Ek. clear Ek.
  assert (Hc : k = 0 \/ k = 1 \/ k = 2 \/ k = 3 \/ k = 4 \/ k = 6 \/ k = 7) by lia.
  clear Hk Hf.
  destruct Hc as [->|[->|[->|[->|[->|[->| ->]]]]]]; try reflexivity.
  apply output_timestamp_cell. exact Hlt.
Qed.

Lemma print_footers_loop_total lt now st cols : lt_ok lt -> forallb footer_known cols = true ->
  print_footers_loop lt now cols st = Ok (footer_loop lt now cols st).
Proof.
  intros Hlt. induction cols as [|c r IH]; intros Hk; [reflexivity|].
  cbn [forallb] in Hk. apply andb_true_iff in Hk. destruct Hk as [Hc Hr].
  cbn [print_footers_loop footer_loop]. cbv zeta. rewrite IH by exact Hr.
  destruct (has_footer c) eqn:Hf.
  - rewrite column_footer_cell by assumption. reflexivity.
  - destruct r; reflexivity.
Qed.

Lemma drop_no_footer_incl l : forall x, In x (drop_no_footer l) -> In x l.
Proof.
  induction l as [|c r IH]; intros x Hx; [exact Hx|].
  cbn [drop_no_footer] in Hx. destruct (has_footer c); [exact Hx|]. right. apply IH. exact Hx.
Qed.

Lemma footer_columns_incl cols x : In x (footer_columns cols) -> In x cols.
Proof.
  unfold footer_columns. intros H. apply in_rev in H. apply drop_no_footer_incl in H.
  apply in_rev in H. exact H.
Qed.

Lemma print_footers_line lt now cols st : lt_ok lt -> forallb footer_known cols = true ->
  print_footers lt now cols st = Ok (footer_line lt now cols st).
Proof.
  intros Hlt Hk. unfold print_footers, footer_line. fold (footer_columns cols).
  rewrite print_footers_loop_total; [reflexivity|exact Hlt|].
  apply forallb_forall. intros x Hx. rewrite forallb_forall in Hk. apply Hk.
  apply footer_columns_incl. exact Hx.
Qed.

(* --- statistics --- *)

Definition stats_of (mtime : N) (sel : list header) : file_statistics :=
  {| st_num_files := u32 (nlen sel);
     st_compressed_length := as_ulong (sum_N (map h_compressed_length sel));
     st_length := as_ulong (sum_N (map h_length sel));
     st_timestamp := u32 mtime |}.

Lemma u32_mod x : u32 x = x mod 2 ^ 32.
Proof. unfold u32. change 4294967295 with (N.ones 32). apply N.land_ones. Qed.

Lemma as_ulong_mod x : as_ulong x = x mod 2 ^ 64.
Proof. unfold as_ulong. change 18446744073709551615 with (N.ones 64). apply N.land_ones. Qed.

Lemma u32_add_l a b : u32 (u32 a + b) = u32 (a + b).
Proof. rewrite !u32_mod. apply N.add_mod_idemp_l. discriminate. Qed.

Lemma as_ulong_add_l a b : as_ulong (as_ulong a + b) = as_ulong (a + b).
Proof. rewrite !as_ulong_mod. apply N.add_mod_idemp_l. discriminate. Qed.

Lemma as_ulong_idem a : as_ulong (as_ulong a) = as_ulong a.
Proof. rewrite !as_ulong_mod. apply N.mod_mod. discriminate. Qed.

Lemma fold_add_shift l : forall a, fold_left N.add l a = a + fold_left N.add l 0.
Proof.
  induction l as [|x r IH]; intros a; cbn [fold_left]; [lia|].
  rewrite (IH (a + x)), (IH (0 + x)). lia.
Qed.

Lemma sum_N_cons x l : sum_N (x :: l) = x + sum_N l.
Proof. unfold sum_N. cbn [fold_left]. rewrite fold_add_shift. lia. Qed.

Lemma list_rows_spec lt now cols pats : lt_ok lt -> forallb handler_known cols = true ->
  forall hs n cl ln ts,
  list_rows lt now cols (lha_filter_init pats) hs
    {| st_num_files := u32 n; st_compressed_length := as_ulong cl; st_length := as_ulong ln; st_timestamp := ts |} =
  Ok (map (row_of lt now cols) (selected pats hs),
      {| st_num_files := u32 (n + nlen (selected pats hs));
         st_compressed_length := as_ulong (cl + sum_N (map h_compressed_length (selected pats hs)));
         st_length := as_ulong (ln + sum_N (map h_length (selected pats hs)));
         st_timestamp := ts |}).
Proof.
  intros Hlt Hk. induction hs as [|h r IH]; intros n cl ln ts.
  - cbn [list_rows selected filter map]. unfold sum_N. cbn [fold_left nlen length N.of_nat].
    rewrite !N.add_0_r. reflexivity.
  - cbn [list_rows]. rewrite selected_cons. fold (selectedb pats h). destruct (selectedb pats h).
    + rewrite print_columns_row by assumption. cbn [bind]. cbv zeta.
      cbn [st_num_files st_compressed_length st_length st_timestamp].
      unfold add_u32, add_size_t. rewrite u32_add_l, !as_ulong_add_l.
      rewrite IH. cbn [bind map]. rewrite !sum_N_cons, nlen_cons.
      rewrite <- !N.add_assoc, (N.add_comm 1). reflexivity.
    + apply IH.
Qed.

(* ---- the four column layouts, written out ---- *)
(* They are checked against the tables generated from src/list.c
   (columns_l_eq ... below): a change of a column name, width, order, handler
   or footer in the C breaks those proofs. *)
(* (List is imported again afterwards so that length, concat, ++ keep their list meaning) *)
From Coq Require Import Strings.String Strings.Ascii.
Import List ListNotations.

Definition str (s : string) : list N := List.map (fun a => N.of_nat (nat_of_ascii a)) (list_ascii_of_string s).

Definition col (id : N) (name : string) (width handler footer : N) : list_column :=
  {| c_id := id; c_name := str name; c_width := width; c_handler := handler; c_footer := footer |}.

(* handler: 0 permissions, 1 uid/gid, 2 packed, 3 size, 4 ratio, 5 method+crc,
   6 short timestamp, 7 full timestamp, 8 name, 9 name on its own line, 10 header level.
   footer: the same numbering; 98 = the column has no footer.
   id: identity of the C column object (name_column = 8, short_name_column = 9, ...) *)
Definition cols_l : list list_column :=
  [ col 0 " PERMSSN" 10 0 0;  col 1 " UID  GID" 11 1 1;  col 3 "   SIZE" 7 3 3;
    col 4 " RATIO" 6 4 4;     col 6 "    STAMP" 12 6 6;  col 8 "       NAME" 20 8 98 ].
Definition cols_lv : list list_column :=
  [ col 10 "" 0 9 98;         col 0 " PERMSSN" 10 0 0;   col 1 " UID  GID" 11 1 1;
    col 3 "   SIZE" 7 3 3;    col 4 " RATIO" 6 4 4;      col 6 "    STAMP" 12 6 6;
    col 11 " LV" 3 10 98 ].
Definition cols_v : list list_column :=
  [ col 0 " PERMSSN" 10 0 0;  col 1 " UID  GID" 11 1 1;  col 2 " PACKED" 7 2 2;
    col 3 "   SIZE" 7 3 3;    col 4 " RATIO" 6 4 4;      col 5 "METHOD CRC" 10 5 98;
    col 6 "    STAMP" 12 6 6; col 9 "      NAME" 13 8 98 ].
Definition cols_vv : list list_column :=
  [ col 10 "" 0 9 98;         col 0 " PERMSSN" 10 0 0;   col 1 " UID  GID" 11 1 1;
    col 2 " PACKED" 7 2 2;    col 3 "   SIZE" 7 3 3;     col 4 " RATIO" 6 4 4;
    col 5 "METHOD CRC" 10 5 98; col 7 "    STAMP" 19 7 7; col 11 " LV" 3 10 98 ].

Lemma columns_l_eq : normal_column_headers = Ok cols_l.
Proof. vm_compute. reflexivity. Qed.
Lemma columns_lv_eq : normal_column_headers_verbose = Ok cols_lv.
Proof. vm_compute. reflexivity. Qed.
Lemma columns_v_eq : verbose_column_headers = Ok cols_v.
Proof. vm_compute. reflexivity. Qed.
Lemma columns_vv_eq : verbose_column_headers_verbose = Ok cols_vv.
Proof. vm_compute. reflexivity. Qed.

(* l, lv, v, vv *)
Definition columns_of (mode : program_mode) (verbose : bool) : list list_column :=
  match mode, verbose with
  | MODE_LIST, false => cols_l
  | MODE_LIST, true => cols_lv
  | MODE_LIST_VERBOSE, false => cols_v
  | MODE_LIST_VERBOSE, true => cols_vv
  | _, _ => []
  end.

Definition str_nl : list N := [10].

Definition is_list_mode (mode : program_mode) : Prop := mode = MODE_LIST \/ mode = MODE_LIST_VERBOSE.

Lemma columns_of_known mode verbose :
  forallb handler_known (columns_of mode verbose) = true /\
  forallb footer_known (columns_of mode verbose) = true.
Proof. destruct mode, verbose; split; vm_compute; reflexivity. Qed.

Definition heading_lines (quiet : N) (cols : list list_column) : list N :=
  if quiet <? 2 then print_list_headings cols ++ print_list_separators cols else [].

Definition footer_lines (lt : N -> tm) (now : N) (quiet : N) (cols : list list_column) (st : file_statistics) : list N :=
  if quiet <? 2 then print_list_separators cols ++ footer_line lt now cols st else [].

Lemma list_file_contents_rows lt now pats mtime o cols hs :
  lt_ok lt -> forallb handler_known cols = true -> forallb footer_known cols = true ->
  list_file_contents lt now (lha_filter_init pats) mtime o cols hs =
  Ok (heading_lines (o_quiet o) cols
      ++ concat (map (row_of lt now cols) (selected pats hs))
      ++ footer_lines lt now (o_quiet o) cols (stats_of mtime (selected pats hs))).
Proof.
  intros Hlt Hh Hf. unfold list_file_contents. cbv zeta.
  change {| st_num_files := 0; st_compressed_length := 0; st_length := 0; st_timestamp := u32 mtime |}
    with {| st_num_files := u32 0; st_compressed_length := as_ulong 0; st_length := as_ulong 0;
            st_timestamp := u32 mtime |}.
  rewrite list_rows_spec by assumption. cbn [bind]. rewrite !N.add_0_l.
  fold (stats_of mtime (selected pats hs)).
  unfold heading_lines, footer_lines. destruct (o_quiet o <? 2).
  - rewrite print_footers_line by assumption. cbn [bind concat].
    rewrite concat_app. cbn [concat]. rewrite app_nil_r. reflexivity.
  - cbn [bind concat]. rewrite concat_app. cbn [concat]. reflexivity.
Qed.

(* C19, row structure.  The output is: headings and separator (unless quiet >= 2),
   then one row per selected member in archive order, each a function of that
   member alone and ending in a newline (row_of), then separator and footer
   (unless quiet >= 2).  Members that are not selected contribute nothing. *)
Theorem list_output_rows : forall lt mode o pats now mtime hs,
  lt_ok lt -> is_list_mode mode ->
  let cols := columns_of mode (o_verbose o) in
  let sel := selected pats hs in
  list_output lt (mode, o) pats now mtime hs =
  Ok (heading_lines (o_quiet o) cols
      ++ concat (map (row_of lt now cols) sel)
      ++ footer_lines lt now (o_quiet o) cols (stats_of mtime sel)).
Proof.
  intros lt mode o pats now mtime hs Hlt Hm. cbv zeta.
  destruct (columns_of_known mode (o_verbose o)) as [Hh Hf].
  unfold list_output. destruct Hm as [-> | ->].
  - unfold list_file_basic. cbn [columns_of] in *. destruct (o_verbose o).
    + rewrite columns_lv_eq. cbn [bind]. apply list_file_contents_rows; assumption.
    + rewrite columns_l_eq. cbn [bind]. apply list_file_contents_rows; assumption.
  - unfold list_file_verbose. cbn [columns_of] in *. destruct (o_verbose o).
    + rewrite columns_vv_eq. cbn [bind]. apply list_file_contents_rows; assumption.
    + rewrite columns_v_eq. cbn [bind]. apply list_file_contents_rows; assumption.
Qed.

(* a member that is not selected can be removed from the archive without changing the output *)
Corollary list_output_unselected lt mode o pats now mtime a h b :
  lt_ok lt -> is_list_mode mode -> selectedb pats h = false ->
  list_output lt (mode, o) pats now mtime (a ++ h :: b) = list_output lt (mode, o) pats now mtime (a ++ b).
Proof.
  intros Hlt Hm Hs. rewrite !list_output_rows by assumption. cbv zeta.
  rewrite !selected_app, selected_cons, Hs. reflexivity.
Qed.

(* the rows appear in archive order: listing a ++ b gives the rows of a, then the rows of b *)
Corollary list_output_rows_app lt now cols pats a b :
  concat (map (row_of lt now cols) (selected pats (a ++ b))) =
  concat (map (row_of lt now cols) (selected pats a)) ++ concat (map (row_of lt now cols) (selected pats b)).
Proof. rewrite selected_app, map_app, concat_app. reflexivity. Qed.

(* ---- B.3 the footer: count and sums of the selected members ---- *)
(* The statistics wrap as the C types do: the count is an unsigned int
   (mod 2^32, u32), the sums are size_t (mod 2^64, as_ulong). *)
Theorem footer_counts_sums : forall lt now mtime pats hs,
  let sel := selected pats hs in
  let st := stats_of mtime sel in
  let count := u32 (nlen sel) in
  let packed := as_ulong (sum_N (map h_compressed_length sel)) in
  let size := as_ulong (sum_N (map h_length sel)) in
  (* the "Total" column: the literal *)
  footer_cell lt now 0 st = str " Total    " /\
  (* the uid/gid column: the number of rows, "%5i file " / "%5i files" *)
  footer_cell lt now 1 st =
    fmt_d false false 5 (as_int count) ++ (if count =? 1 then str " file " else str " files") /\
  (* packed and size: "%7lu" of the sums *)
  footer_cell lt now 2 st = fmt_u false false 7 packed /\
  footer_cell lt now 3 st = fmt_u false false 7 size /\
  (* ratio: of the two sums; "******" when the size sum is 0 *)
  footer_cell lt now 4 st = (if size =? 0 then stars6 else ratio_string packed size) /\
  (* the time stamp columns show the archive file's own mtime *)
  footer_cell lt now 6 st = stamp_cell lt now (u32 mtime) /\
  footer_cell lt now 7 st = output_full_timestamp lt (u32 mtime).
Proof.
  intros lt now mtime pats hs. cbv zeta. unfold footer_cell, stats_of.
  cbn [st_num_files st_compressed_length st_length st_timestamp].
  rewrite !as_ulong_idem. repeat split.
  unfold unix_uid_gid_column_footer. cbn [st_num_files].
  destruct (u32 (nlen (selected pats hs)) =? 1); reflexivity.
Qed.

(* without wrap-around: fewer than 2^31 rows and sums below 2^64 *)
Lemma u32_small x : x < 2 ^ 32 -> u32 x = x.
Proof. intros H. rewrite u32_mod. apply N.mod_small. exact H. Qed.
Lemma as_ulong_small x : x < 2 ^ 64 -> as_ulong x = x.
Proof. intros H. rewrite as_ulong_mod. apply N.mod_small. exact H. Qed.

Corollary footer_counts_sums_no_overflow : forall lt now mtime pats hs,
  let sel := selected pats hs in
  let st := stats_of mtime sel in
  nlen sel < 2 ^ 31 ->
  sum_N (map h_compressed_length sel) < 2 ^ 64 ->
  sum_N (map h_length sel) < 2 ^ 64 ->
  footer_cell lt now 1 st =
    fmt_d false false 5 (Z.of_N (nlen sel)) ++ (if nlen sel =? 1 then str " file " else str " files") /\
  footer_cell lt now 2 st = fmt_u false false 7 (sum_N (map h_compressed_length sel)) /\
  footer_cell lt now 3 st = fmt_u false false 7 (sum_N (map h_length sel)) /\
  footer_cell lt now 4 st =
    (if sum_N (map h_length sel) =? 0 then stars6
     else ratio_string (sum_N (map h_compressed_length sel)) (sum_N (map h_length sel))).
Proof.
  intros lt now mtime pats hs. cbv zeta. intros Hn Hc Hl.
  destruct (footer_counts_sums lt now mtime pats hs) as [_ [H1 [H2 [H3 [H4 _]]]]]. cbv zeta in *.
  rewrite H1, H2, H3, H4. clear H1 H2 H3 H4.
  assert (Hn32 : nlen (selected pats hs) < 2 ^ 32).
  { eapply N.lt_trans; [exact Hn|]. reflexivity. }
  rewrite (as_ulong_small _ Hc), (as_ulong_small _ Hl), (u32_small _ Hn32).
  repeat split. f_equal. unfold as_int. rewrite (u32_small _ Hn32).
  destruct (N.ltb_spec (nlen (selected pats hs)) 2147483648) as [_|Hge]; [reflexivity|].
  exfalso. change (2 ^ 31) with 2147483648 in Hn. lia.
Qed.

(* ---- B.4 the cells, column by column, and the four row layouts ---- *)

Section Cells.
  Variable lt : N -> tm.
  Variable now : N.
  Variable h : header.

  (* permissions: OS-9 permissions if present, else Unix permissions if present,
     else the OS name in brackets, left-justified in 10 *)
  Lemma cell_permissions :
    cell lt now 0 h =
    if have_extra h FILE_OS9_PERMS then os9_permissions_print h
    else if have_extra h FILE_UNIX_PERMS then unix_permissions_print h
    else fmt_s true 10 (os_name (h_os_type h)).
  Proof. reflexivity. Qed.

  (* the Unix permission string: type character, then rwxrwxrwx from bits 8..0 *)
  Lemma unix_permission_string :
    unix_permissions_print h =
    (if negb (method_is h COMPRESS_TYPE_DIR) then str "-"
     else match h_symlink_target h with Some _ => str "l" | None => str "d" end)
    ++ map (fun '(bit, c) => if N.testbit (h_unix_perms h) bit then c else 45)
           (combine [8; 7; 6; 5; 4; 3; 2; 1; 0] (str "rwxrwxrwx")).
  Proof. reflexivity. Qed.

  (* uid/gid "%5i/%-5i", blank when the header has none *)
  Lemma cell_uid_gid :
    cell lt now 1 h =
    if have_extra h FILE_UNIX_UID_GID
    then fmt_d false false 5 (as_int (h_unix_uid h)) ++ str "/" ++ fmt_d true false 5 (as_int (h_unix_gid h))
    else rep 32 11.
  Proof. reflexivity. Qed.

  Lemma cell_packed : cell lt now 2 h = fmt_u false false 7 (as_ulong (h_compressed_length h)).
  Proof. reflexivity. Qed.

  Lemma cell_size : cell lt now 3 h = fmt_u false false 7 (as_ulong (h_length h)).
  Proof. reflexivity. Qed.

  (* ratio: "******" for a -lhd- member, else the ratio of that member's two lengths *)
  Lemma cell_ratio :
    cell lt now 4 h =
    if method_is h str_lhd then stars6 else ratio_string (h_compressed_length h) (h_length h).
  Proof. reflexivity. Qed.

  (* method and CRC: "%-5s %04x", passed through safe_output as a whole *)
  Lemma cell_method_crc :
    cell lt now 5 h = safe_output (fmt_s true 5 (cstr (h_method h)) ++ str " " ++ fmt_x false true 4 (h_crc h)).
  Proof. reflexivity. Qed.

  (* when the method field has five non-NUL bytes: the sanitised method, a space, the CRC *)
  Lemma cell_method_crc_full :
    length (h_method h) = 5%nat -> ~ In 0 (h_method h) ->
    cell lt now 5 h = safe_output (h_method h) ++ str " " ++ fmt_x false true 4 (h_crc h).
  Proof.
    intros Hlen Hnul. rewrite cell_method_crc. rewrite (cstr_nul_free _ Hnul).
    assert (E : fmt_s true 5 (h_method h) = h_method h).
    { unfold fmt_s, pad_field. cbv zeta. cbn [app]. unfold nlen. rewrite Hlen. cbn. apply app_nil_r. }
    rewrite E. rewrite safe_output_app by exact Hnul. f_equal.
    apply safe_output_id. apply Forall_app. split; [lit_printable|apply fmt_x_printable].
  Qed.

  (* short time stamp: blank for 0; month, day, then hh:mm if recent else the year *)
  Lemma cell_timestamp :
    cell lt now 6 h =
    let ts := h_timestamp h in
    if ts =? 0 then rep 32 12 else
    let t := lt ts in
    month_str (tm_mon t) ++ str " " ++ fmt_d false false 2 (tm_mday t) ++ str " " ++
    (if (Z.of_N now - 15552000 <? Z.of_N ts)%Z
     then fmt_d false true 2 (tm_hour t) ++ str ":" ++ fmt_d false true 2 (tm_min t)
     else str " " ++ fmt_d false true 4 (tm_year t + 1900)%Z).
  Proof. reflexivity. Qed.

  (* full time stamp "%04i-%02i-%02i %02i:%02i:%02i" *)
  Lemma cell_full_timestamp :
    cell lt now 7 h =
    let ts := h_timestamp h in
    if ts =? 0 then rep 32 19 else
    let t := lt ts in
    fmt_d false true 4 (tm_year t + 1900)%Z ++ str "-" ++ fmt_d false true 2 (tm_mon t + 1)%Z ++ str "-"
    ++ fmt_d false true 2 (tm_mday t) ++ str " " ++ fmt_d false true 2 (tm_hour t) ++ str ":"
    ++ fmt_d false true 2 (tm_min t) ++ str ":" ++ fmt_d false true 2 (tm_sec t).
  Proof. reflexivity. Qed.

  (* name: sanitised path, sanitised file name, and " -> " target for a symbolic link *)
  Lemma cell_name :
    cell lt now 8 h =
    safe_output (opt_str (h_path h)) ++ safe_output (opt_str (h_filename h)) ++
    match h_symlink_target h with Some s => str " -> " ++ safe_output s | None => [] end.
  Proof. reflexivity. Qed.

  Lemma cell_name_full_path :
    ~ In 0 (opt_str (h_path h)) ->
    cell lt now 8 h =
    safe_output (opt_str (h_path h) ++ opt_str (h_filename h)) ++
    match h_symlink_target h with Some s => str " -> " ++ safe_output s | None => [] end.
  Proof. intros H. rewrite cell_name, safe_output_app by exact H. rewrite <- app_assoc. reflexivity. Qed.

  (* name on a line of its own (lv, vv): "|" before the link target, then a newline *)
  Lemma cell_whole_line_name :
    cell lt now 9 h =
    (safe_output (opt_str (h_path h)) ++ safe_output (opt_str (h_filename h)) ++
     match h_symlink_target h with Some s => str "|" ++ safe_output s | None => [] end) ++ str_nl.
  Proof. reflexivity. Qed.

  (* header level "[%i]" *)
  Lemma cell_header_level :
    cell lt now 10 h = str "[" ++ fmt_d false false 0 (Z.of_N (u8 (h_level h))) ++ str "]".
  Proof. reflexivity. Qed.
End Cells.

(* ---- the four row layouts and footer layouts, written out ---- *)
Section Layouts.
  Variable lt : N -> tm.
  Variable now : N.
  Variable h : header.
  Variable st : file_statistics.
  Let sp : list N := str " ".
  Let c (k : N) : list N := cell lt now k h.
  Let f (k : N) : list N := footer_cell lt now k st.

  Ltac layout :=
    cbv [row_of footer_line footer_columns footer_loop drop_no_footer rev has_footer
         flat_map cols_l cols_lv cols_v cols_vv col c_handler c_width c_id c_footer c_name
         sep_after not_last last_column last_column_from negb andb N.eqb Pos.eqb sp c f];
    cbn [app]; repeat (progress (rewrite <- ?app_assoc; cbn [app])); rewrite ?app_nil_r; reflexivity.

  (* lha l *)
  Lemma row_l : row_of lt now cols_l h =
    c 0 ++ sp ++ c 1 ++ sp ++ c 3 ++ sp ++ c 4 ++ sp ++ c 6 ++ sp ++ c 8 ++ str_nl.
  Proof. layout. Qed.

  (* lha lv: the name on a line of its own, then the columns *)
  Lemma row_lv : row_of lt now cols_lv h =
    c 9 ++ c 0 ++ sp ++ c 1 ++ sp ++ c 3 ++ sp ++ c 4 ++ sp ++ c 6 ++ sp ++ c 10 ++ str_nl.
  Proof. layout. Qed.

  (* lha v *)
  Lemma row_v : row_of lt now cols_v h =
    c 0 ++ sp ++ c 1 ++ sp ++ c 2 ++ sp ++ c 3 ++ sp ++ c 4 ++ sp ++ c 5 ++ sp ++ c 6 ++ sp ++ c 8 ++ str_nl.
  Proof. layout. Qed.

  (* lha vv *)
  Lemma row_vv : row_of lt now cols_vv h =
    c 9 ++ c 0 ++ sp ++ c 1 ++ sp ++ c 2 ++ sp ++ c 3 ++ sp ++ c 4 ++ sp ++ c 5 ++ sp ++ c 7 ++ sp ++ c 10 ++ str_nl.
  Proof. layout. Qed.

  Lemma footer_l : footer_line lt now cols_l st =
    f 0 ++ sp ++ f 1 ++ sp ++ f 3 ++ sp ++ f 4 ++ sp ++ f 6 ++ str_nl.
  Proof. layout. Qed.

  Lemma footer_lv : footer_line lt now cols_lv st =
    f 0 ++ sp ++ f 1 ++ sp ++ f 3 ++ sp ++ f 4 ++ sp ++ f 6 ++ str_nl.
  Proof. layout. Qed.

  (* ten blanks under METHOD CRC *)
  Lemma footer_v : footer_line lt now cols_v st =
    f 0 ++ sp ++ f 1 ++ sp ++ f 2 ++ sp ++ f 3 ++ sp ++ f 4 ++ sp ++ rep 32 10 ++ sp ++ f 6 ++ str_nl.
  Proof. layout. Qed.

  Lemma footer_vv : footer_line lt now cols_vv st =
    f 0 ++ sp ++ f 1 ++ sp ++ f 2 ++ sp ++ f 3 ++ sp ++ f 4 ++ sp ++ rep 32 10 ++ sp ++ f 7 ++ str_nl.
  Proof. layout. Qed.
End Layouts.

(* the heading and separator lines of the four lists (quiet < 2) *)
Lemma headings_l : forall q, q < 2 -> heading_lines q cols_l =
  str " PERMSSN    UID  GID      SIZE  RATIO     STAMP           NAME" ++ str_nl ++
  str "---------- ----------- ------- ------ ------------ --------------------" ++ str_nl.
Proof. intros q Hq. unfold heading_lines. destruct (N.ltb_spec q 2); [|lia]. vm_compute. reflexivity. Qed.
Lemma headings_lv : forall q, q < 2 -> heading_lines q cols_lv =
  str " PERMSSN    UID  GID      SIZE  RATIO     STAMP     LV" ++ str_nl ++
  str "---------- ----------- ------- ------ ------------ ---" ++ str_nl.
Proof. intros q Hq. unfold heading_lines. destruct (N.ltb_spec q 2); [|lia]. vm_compute. reflexivity. Qed.
Lemma headings_v : forall q, q < 2 -> heading_lines q cols_v =
  str " PERMSSN    UID  GID    PACKED    SIZE  RATIO METHOD CRC     STAMP          NAME" ++ str_nl ++
  str "---------- ----------- ------- ------- ------ ---------- ------------ -------------" ++ str_nl.
Proof. intros q Hq. unfold heading_lines. destruct (N.ltb_spec q 2); [|lia]. vm_compute. reflexivity. Qed.
Lemma headings_vv : forall q, q < 2 -> heading_lines q cols_vv =
  str " PERMSSN    UID  GID    PACKED    SIZE  RATIO METHOD CRC     STAMP            LV" ++ str_nl ++
  str "---------- ----------- ------- ------- ------ ---------- ------------------- ---" ++ str_nl.
Proof. intros q Hq. unfold heading_lines. destruct (N.ltb_spec q 2); [|lia]. vm_compute. reflexivity. Qed.

(* quiet >= 2: rows only *)
Lemma quiet_rows_only lt now q cols st : 2 <= q -> heading_lines q cols = [] /\ footer_lines lt now q cols st = [].
Proof. intros H. unfold heading_lines, footer_lines. destruct (N.ltb_spec q 2); [lia|]. split; reflexivity. Qed.

(* ---- B.5 the numeric core: decimal digits and %.1f rounding ---- *)

(* value of a string of decimal digit characters *)
Definition dec_value (l : list N) : N := fold_left (fun a ch => a * 10 + (ch - 48)) l 0.

Lemma dec_value_snoc l ch : dec_value (l ++ [ch]) = dec_value l * 10 + (ch - 48).
Proof. unfold dec_value. rewrite fold_left_app. reflexivity. Qed.

Lemma digits_aux_acc base fuel : forall n acc,
  digits_aux base fuel n acc = digits_aux base fuel n [] ++ acc.
Proof.
  induction fuel as [|k IH]; intros n acc; cbn [digits_aux]; [reflexivity|].
  destruct (n <? base); [reflexivity|].
  rewrite (IH (n / base) (_ :: acc)), (IH (n / base) [_]). rewrite <- app_assoc. reflexivity.
Qed.

Lemma digits_aux_step base k n :
  digits_aux base (S k) n [] =
  if n <? base then [digit_char (n mod base)] else digits_aux base k (n / base) [] ++ [digit_char (n mod base)].
Proof. cbn [digits_aux]. destruct (n <? base); [reflexivity|]. apply digits_aux_acc. Qed.

Lemma dec_digits_aux_value k : forall n, n < 2 ^ N.of_nat k -> dec_value (digits_aux 10 (S k) n []) = n.
Proof.
  induction k as [|k IH]; intros n Hn; rewrite digits_aux_step.
  - change (2 ^ N.of_nat 0) with 1 in Hn. assert (n = 0) by lia. subst n. reflexivity.
  - destruct (N.ltb_spec n 10) as [Hlt|Hge].
    + rewrite N.mod_small by exact Hlt. unfold digit_char.
      destruct (N.ltb_spec n 10); [|lia]. unfold dec_value. cbn [fold_left]. lia.
    + rewrite dec_value_snoc. rewrite IH.
      * unfold digit_char. pose proof (N.mod_lt n 10) as Hm.
        destruct (N.ltb_spec (n mod 10) 10); [|lia].
        pose proof (N.div_mod n 10). lia.
      * rewrite Nnat.Nat2N.inj_succ, N.pow_succ_r' in Hn.
        apply N.div_lt_upper_bound; [lia|]. lia.
Qed.

Lemma size_nat_bound n : n < 2 ^ N.of_nat (N.size_nat n).
Proof.
  destruct n as [|p]; [reflexivity|]. cbn [N.size_nat].
  induction p as [p IH|p IH|]; cbn [Pos.size_nat]; rewrite ?Nnat.Nat2N.inj_succ, ?N.pow_succ_r'; lia.
Qed.

(* dec_digits n is the decimal representation of n *)
Theorem dec_digits_value n : dec_value (dec_digits n) = n.
Proof. unfold dec_digits. apply dec_digits_aux_value. apply size_nat_bound. Qed.

Definition is_digit (ch : N) : Prop := 48 <= ch /\ ch <= 57.

Lemma dec_digits_are_digits n : Forall is_digit (dec_digits n).
Proof.
  unfold dec_digits. generalize (S (N.size_nat n)). intros fuel.
  assert (G : forall acc, Forall is_digit acc -> forall m, Forall is_digit (digits_aux 10 fuel m acc)).
  { induction fuel as [|k IH]; intros acc Hacc m; cbn [digits_aux]; [exact Hacc|].
    assert (Hd : is_digit (digit_char (m mod 10))).
    { unfold is_digit, digit_char. pose proof (N.mod_lt m 10).
      destruct (N.ltb_spec (m mod 10) 10); lia. }
    destruct (m <? 10); [constructor; assumption|]. apply IH. constructor; assumption. }
  apply G. constructor.
Qed.

(* round_half_even_div num den is the integer nearest to num/den, ties to even *)
Definition nearest_even (num den t : N) : Prop :=
  (* |num/den - t| <= 1/2 *)
  2 * num <= 2 * t * den + den /\ 2 * t * den <= 2 * num + den /\
  (* on a tie the result is even *)
  ((2 * num = 2 * t * den + den \/ 2 * t * den = 2 * num + den) -> N.even t = true).

Lemma round_half_even_div_correct num den : 0 < den -> nearest_even num den (round_half_even_div num den).
Proof.
  intros Hden. unfold round_half_even_div, nearest_even. cbv zeta.
  pose proof (N.div_mod num den) as Hdm. pose proof (N.mod_lt num den) as Hlt.
  assert (Hlt' : num mod den < den) by lia. clear Hlt.
  set (q := num / den) in *. set (r := num mod den) in *.
  assert (Hnum : num = den * q + r) by lia. clear Hdm.
  destruct (N.compare_spec (2 * r) den) as [He|Hl|Hg].
  - destruct (N.even q) eqn:Ev.
    + split; [nia|split; [nia|]]. intros _. exact Ev.
    + split; [nia|split; [nia|]]. intros _. rewrite N.even_add. rewrite Ev. reflexivity.
  - split; [nia|split; [nia|]]. intros [E|E]; exfalso; nia.
  - split; [nia|split; [nia|]]. intros [E|E]; exfalso; nia.
Qed.

Lemma nearest_even_unique num den t1 t2 : 0 < den ->
  nearest_even num den t1 -> nearest_even num den t2 -> t1 = t2.
Proof.
  intros Hden [A1 [B1 C1]] [A2 [B2 C2]].
  destruct (N.lt_trichotomy t1 t2) as [Hlt|[Heq|Hgt]]; [|exact Heq|].
  - assert (t2 = t1 + 1) by nia. subst t2.
    assert (E1 : 2 * num = 2 * t1 * den + den) by nia.
    assert (E2 : 2 * (t1 + 1) * den = 2 * num + den) by nia.
    pose proof (C1 (or_introl E1)) as Ev1. pose proof (C2 (or_intror E2)) as Ev2.
    rewrite N.even_add in Ev2. rewrite Ev1 in Ev2. discriminate.
  - assert (t1 = t2 + 1) by nia. subst t1.
    assert (E2 : 2 * num = 2 * t2 * den + den) by nia.
    assert (E1 : 2 * (t2 + 1) * den = 2 * num + den) by nia.
    pose proof (C2 (or_introl E2)) as Ev2. pose proof (C1 (or_intror E1)) as Ev1.
    rewrite N.even_add in Ev1. rewrite Ev2 in Ev1. discriminate.
Qed.

(* tenths m e: the number of tenths nearest to the exact value m * 2^e, ties to
   even.  For e >= 0 the value 10 * m * 2^e is an integer; for e < 0 it is
   (10 * m) / 2^(-e). *)
Theorem tenths_correct m e :
  match e with
  | Zneg p => nearest_even (Npos m * 10) (2 ^ Npos p) (tenths m e)
  | _ => tenths m e = Npos m * 10 * 2 ^ Z.to_N e
  end.
Proof.
  destruct e as [|p|p]; unfold tenths.
  - change (2 ^ Z.to_N 0) with 1. lia.
  - rewrite N.shiftl_mul_pow2. reflexivity.
  - rewrite N.shiftl_1_l. apply round_half_even_div_correct.
    apply N.neq_0_lt_0. apply N.pow_nonzero. discriminate.
Qed.

(* what fmt_f1 prints for a finite non-zero value (-1)^s * m * 2^e: sign, the
   decimal digits of floor(t/10), a point, the last digit of t, where t is the
   nearest number of tenths (tenths_correct), padded to the width *)
Theorem fmt_f1_finite left zero width s m e :
  let t := tenths m e in
  fmt_f1 left zero width (S754_finite s m e) =
  pad_field left zero width (if s then str "-" else []) (dec_digits (t / 10) ++ str "." ++ [48 + t mod 10])
  /\ dec_value (dec_digits (t / 10)) = t / 10 /\ t mod 10 < 10.
Proof.
  cbv zeta. split; [|split; [apply dec_digits_value|apply N.mod_lt; discriminate]].
  unfold fmt_f1. cbv zeta. unfold digit_char. pose proof (N.mod_lt (tenths m e) 10).
  destruct (N.ltb_spec (tenths m e mod 10) 10); [|lia]. destruct s; reflexivity.
Qed.

(* the special cases of the ratio column *)
Lemma ratio_string_zero_size c : ratio_string c 0 = str "100.0%".
Proof. reflexivity. Qed.

Lemma ratio_cell_directory lt now h : method_is h str_lhd = true -> cell lt now 4 h = str "******".
Proof. intros H. cbn [cell]. unfold ratio_column_print. rewrite H. reflexivity. Qed.

Lemma ratio_footer_zero lt now st : st_length st = 0 -> footer_cell lt now 4 st = str "******".
Proof. intros H. cbn [footer_cell]. unfold ratio_column_footer. rewrite H. reflexivity. Qed.

(* some values of the ratio, computed by the model's binary32 arithmetic *)
Example ratio_half : ratio_string 1 2 = str " 50.0%". Proof. vm_compute. reflexivity. Qed.
Example ratio_third : ratio_string 1 3 = str " 33.3%". Proof. vm_compute. reflexivity. Qed.
Example ratio_tie_even : ratio_string 1 16 = str "  6.2%". Proof. vm_compute. reflexivity. Qed.   (* 6.25 *)
Example ratio_tie_even' : ratio_string 3 16 = str " 18.8%". Proof. vm_compute. reflexivity. Qed.  (* 18.75 *)
Example ratio_big : ratio_string 5 1 = str "500.0%". Proof. vm_compute. reflexivity. Qed.

(* ================================================================== *)
(* Part C -- non-vacuity                                                *)

Definition allowedb (b : N) : bool := printableb b || (b =? 10).

Lemma forallb_allowed l : forallb allowedb l = true -> Forall allowed l.
Proof.
  intros H. apply Forall_forall. intros x Hx. rewrite forallb_forall in H. apply H in Hx.
  unfold allowedb, printableb in Hx. unfold allowed. lia.
Qed.

Definition lines (l : list string) : list N := flat_map (fun s => str s ++ str_nl) l.

(* a file "dir/a<ESC>[2J<0xFF>b.txt" (Unix permissions 0644, uid 1000, gid 100,
   1234 -> 5678 bytes, -lh5-, CRC 0xbeef) and a directory "sub/" (-lhd-, MS-DOS) *)
Definition ex_file : header :=
  set_unix_gid (set_unix_uid (set_unix_perms (set_extra_flags
   (set_path (set_filename (set_crc (set_os_type (set_timestamp (set_length (set_clen (set_method (header0 [])
     (str "-lh5-")) 1234) 5678) 1699000000) 85) 48879)
     (Some ([97; 27; 91; 50; 74; 255] ++ str "b.txt"))) (Some (str "dir/"))) 3) 420) 1000) 100.

Definition ex_dir : header :=
  set_path (set_os_type (set_timestamp (set_method (header0 []) (str "-lhd-")) 1500000000) 77) (Some (str "sub/")).

(* lha v, now = 1700000000, archive mtime = 1600000000, TZ=UTC *)
Definition ex_v_out : outcome (list N) :=
  list_output gmtime_utc (MODE_LIST_VERBOSE, init_options) [] 1700000000 1600000000 [ex_file; ex_dir].

Example ex_v_bytes : ex_v_out = Ok (lines
  [ " PERMSSN    UID  GID    PACKED    SIZE  RATIO METHOD CRC     STAMP          NAME";
    "---------- ----------- ------- ------- ------ ---------- ------------ -------------";
    "-rw-r--r--  1000/100      1234    5678  21.7% -lh5- beef Nov  3 08:26 dir/a?[2J?b.txt";
    "[MS-DOS]                     0       0 ****** -lhd- 0000 Jul 14  2017 sub/";
    "---------- ----------- ------- ------- ------ ---------- ------------ -------------";
    " Total         2 files    1234    5678  21.7%            Sep 13  2020" ])%string.
Proof. vm_compute. reflexivity. Qed.

Example ex_v_allowed : exists out, ex_v_out = Ok out /\ Forall allowed out /\ In 63 out /\ ~ In 27 out /\ ~ In 255 out.
Proof.
  eexists. split; [vm_compute; reflexivity|]. split; [apply forallb_allowed; vm_compute; reflexivity|].
  split.
  { assert (G1 : forall b l, existsb (N.eqb b) l = true -> In b l).
    { intros b l H. apply existsb_exists in H. destruct H as [x [Hx E]].
      apply N.eqb_eq in E. subst x. exact Hx. }
    apply G1. vm_compute. reflexivity. }
  assert (G : forall b l, existsb (N.eqb b) l = false -> ~ In b l).
  { intros b l H Hin. assert (E : existsb (N.eqb b) l = true).
    { apply existsb_exists. exists b. split; [exact Hin|apply N.eqb_refl]. }
    congruence. }
  split; apply G; vm_compute; reflexivity.
Qed.

(* the same, obtained from the theorem rather than by computing the check *)
Example ex_v_allowed_by_theorem : forall out, ex_v_out = Ok out -> Forall allowed out.
Proof. intros out H. eapply list_output_clean. exact H. Qed.

(* lha lv with the pattern "*txt": only the file is listed; the footer counts one file *)
Example ex_lv_pattern :
  list_output gmtime_utc (MODE_LIST, set_verbose init_options true) [str "*txt"] 1700000000 1600000000
              [ex_file; ex_dir] = Ok (lines
  [ " PERMSSN    UID  GID      SIZE  RATIO     STAMP     LV";
    "---------- ----------- ------- ------ ------------ ---";
    "dir/a?[2J?b.txt";
    "-rw-r--r--  1000/100      5678  21.7% Nov  3 08:26 [0]";
    "---------- ----------- ------- ------ ------------ ---";
    " Total         1 file     5678  21.7% Sep 13  2020" ])%string.
Proof. vm_compute. reflexivity. Qed.

(* a hostile method field and a link target with a newline and a TAB: both sanitised *)
Definition ex_link : header :=
  set_symlink_target (set_filename (set_method (header0 []) [45; 27; 10; 200; 45]) (Some (str "ln")))
                     (Some [47; 10; 9; 120]).

Example ex_hostile_method :
  list_output gmtime_utc (MODE_LIST_VERBOSE, set_quiet init_options 2) [] 0 0 [ex_link] = Ok (lines
  [ "[generic]                    0       0 100.0% -???- 0000              ln -> /??x" ])%string.
Proof. vm_compute. reflexivity. Qed.

Example ex_selected : selected [str "*txt"] [ex_file; ex_dir] = [ex_file].
Proof. vm_compute. reflexivity. Qed.

(* the UTC clock used for the differential tests satisfies the side condition
   lt_ok of the C19 theorems: the month depends only on the day within the
   400-year era (0 .. 146096) *)
Definition mon_of_doe (doe : Z) : Z :=
  (let yoe := (doe - doe / 1460 + doe / 36524 - doe / 146096) / 365 in
   let doy := doe - (365 * yoe + yoe / 4 - yoe / 100) in
   let mp := (5 * doy + 2) / 153 in
   if mp <? 10 then mp + 3 else mp - 9)%Z.

Lemma mon_of_doe_range : forall doe, (0 <= doe < 146097)%Z -> (1 <= mon_of_doe doe <= 12)%Z.
Proof.
  intros doe H. unfold mon_of_doe. cbv zeta.
  match goal with |- context [if ?b then _ else _] => destruct b eqn:E end.
  all: Z.div_mod_to_equations; lia.
Qed.

Lemma civil_month z0 : (0 <= z0)%Z ->
  snd (fst (civil_from_days z0)) = mon_of_doe ((z0 + 719468) mod 146097).
Proof.
  intros H. unfold civil_from_days, mon_of_doe. cbv zeta.
  destruct (Z.leb_spec 0 (z0 + 719468)) as [_|Hneg]; [|lia].
  replace (z0 + 719468 - (z0 + 719468) / 146097 * 146097)%Z with ((z0 + 719468) mod 146097)%Z
    by (rewrite Z.mod_eq by lia; lia).
  reflexivity.
Qed.

Theorem gmtime_utc_ok : lt_ok gmtime_utc.
Proof.
  intros t. unfold gmtime_utc. cbv zeta.
  pose proof (civil_month (Z.of_N t / 86400)) as E.
  assert (H0 : (0 <= Z.of_N t / 86400)%Z) by (apply Z.div_pos; lia).
  specialize (E H0). destruct (civil_from_days (Z.of_N t / 86400)) as [[y m] d].
  cbn [fst snd] in E. cbn [tm_mon]. subst m.
  pose proof (mon_of_doe_range ((Z.of_N t / 86400 + 719468) mod 146097)) as R.
  pose proof (Z.mod_pos_bound (Z.of_N t / 86400 + 719468) 146097). lia.
Qed.

(* so the row decomposition applies to the examples above *)
Example ex_v_rows :
  ex_v_out = Ok (heading_lines 0 cols_v ++ row_of gmtime_utc 1700000000 cols_v ex_file
                 ++ row_of gmtime_utc 1700000000 cols_v ex_dir
                 ++ footer_lines gmtime_utc 1700000000 0 cols_v (stats_of 1600000000 [ex_file; ex_dir])).
Proof.
  unfold ex_v_out. rewrite list_output_rows; [|exact gmtime_utc_ok|right; reflexivity].
  cbv zeta. rewrite selected_no_patterns. cbn [map concat columns_of init_options o_verbose o_quiet].
  rewrite app_nil_r, <- app_assoc. reflexivity.
Qed.

(* ================================================================== *)
Print Assumptions gmtime_utc_ok.
Print Assumptions safe_output_allowed.
Print Assumptions safe_output_id.
Print Assumptions list_output_clean.
Print Assumptions glob_correct.
Print Assumptions selectedb_spec.
Print Assumptions list_output_rows.
Print Assumptions list_output_unselected.
Print Assumptions footer_counts_sums.
Print Assumptions footer_counts_sums_no_overflow.
Print Assumptions row_v.
Print Assumptions footer_v.
Print Assumptions cell_method_crc_full.
Print Assumptions dec_digits_value.
Print Assumptions round_half_even_div_correct.
Print Assumptions nearest_even_unique.
Print Assumptions tenths_correct.
Print Assumptions fmt_f1_finite.
Print Assumptions column_names_printable.
Print Assumptions ex_v_rows.
Print Assumptions ex_v_bytes.
Print Assumptions ex_v_allowed.

(* P_CliNoFault.v -- C08 for src/ (main.c, extract.c, filter.c, list.c as far as
   the tool reaches them): lha_main never returns [Fault _], for ANY argv, archive
   bytes, standard input and initial filesystem.

   What can fault in a run of the tool (model CliMain.v / CliExtract.v / CliFilter.v /
   ListOut.v over Reader.v):
   - every site of the library, reached through lha_reader_next_file / _check /
     _extract / _read.  P_ReaderSafe.v proves that no call faults as long as the
     reader invariant RInv holds and a check / an extract is the first decode
     operation of its entry.  This file proves that the tool keeps that protocol:
     the loop invariant of every command loop is "RInv f (cs_reader st) for some f",
     lha_filter_next_file re-establishes RInv true, and test_archived_file_crc /
     extract_archived_file call lha_reader_check / lha_reader_extract exactly once on
     the fresh entry.  The overwrite prompt, which with the archive "-" consumes bytes
     of the reader's own source, keeps the invariant (RI_set_src).
   - sites 2101-2105 of ListOut.v (table indices of src/list.c).  2101, 2103, 2104, 2105
     are unreachable outright; 2102 is months[ts->tm_mon], unreachable when localtime
     returns a month number in 0..11 (hypothesis [lt_ok], P_ListOut.v; it holds for the
     clock of the differential test, gmtime_utc_ok).  Only the two list commands need it.
   The tool layer proper (CliExtract.v, CliMain.v, CliFilter.v) has no Fault site of its
   own: file_full_path tests header->path / header->filename for NULL as the C does.

   Outcomes are described by [okp True P m] (P_HeaderSafe.v): Ok with P, or OutOfFuel
   (the model's loop bounds), never Fault. *)
From Lhasa Require Import Base ListN DecBase Loop Generated InputStream Header BasicReader
  Lh1 AnyDecoder Decoder MacBinary Fs FsRun Reader Glob ListOut CliFilter CliExtract CliMain
  P_HeaderSafe P_AnyDecoder P_ReaderSafe P_ListOut P_CliSafe P_CliOrder.
From Lhasa Require P_ReaderCheck.
From Lhasa Require P_Lh1.
From Coq Require Import ZifyBool ZifyN ZifyNat.
Local Open Scope N_scope.

(* ------------------------------------------------------------------ *)
(* 0. the -lh1- invariant instance and the reader invariant             *)

Definition LI : lh1_state -> Prop := P_Lh1.lh1_inv_len.

Lemma LI_read : forall s c, LI s ->
  exists ch s' c', lh1_read decoder_callback s c = Ok (ch, s', c') /\ nlen ch <= lh1_max_read /\ LI s'.
Proof. apply lh1_dc_of_len. exact P_Lh1.lh1_read_total_len. Qed.

Lemma LI_init : exists s, lh1_init = Ok s /\ LI s.
Proof. exact P_Lh1.lh1_init_ok_len. Qed.

Notation RI := (RInv LI).

(* getchar() on the shared standard input removes bytes from the reader's source: the
   invariant does not look at them *)
Lemma RI_set_src f r d : RI f r -> RI f (reader_set_src_data r d).
Proof.
  intros [A B C D E F G H]. constructor.
  - exact A.
  - exact B.
  - exact C.
  - exact D.
  - exact E.
  - exact F.
  - exact G.
  - exact H.
Qed.

(* the process invariant: the reader of the process satisfies RInv *)
Definition SI (f : bool) (st : cli_state) : Prop := RI f (cs_reader st).
Definition SIe (st : cli_state) : Prop := exists f, SI f st.

Lemma SI_e f st : SI f st -> SIe st.
Proof. intros H. exists f. exact H. Qed.

Lemma SI_set_stdin_data f st d : SI f st -> SI f (set_stdin_data st d).
Proof.
  unfold set_stdin_data, SI. intros H. destruct (cs_stdin_shared st).
  - cbn [set_reader cs_reader]. apply RI_set_src. exact H.
  - exact H.
Qed.

(* outcomes of steps that may call exit(): a predicate on the process state *)
Notation sokp J m := (okp True (fun x => J (snd x)) m).

Lemma cbind_sokp {A B} (J J' : cli_state -> Prop) (m : outcome (res A * cli_state))
      (k : A -> cli_state -> outcome (res B * cli_state)) :
  sokp J m -> (forall st, J st -> J' st) -> (forall a st, J st -> sokp J' (k a st)) -> sokp J' (cbind m k).
Proof.
  destruct m as [[[a|c] st]| |]; cbn [okp cbind snd]; auto.
Qed.

Lemma sokp_imp {A} (J J' : cli_state -> Prop) (m : outcome (res A * cli_state)) :
  sokp J m -> (forall st, J st -> J' st) -> sokp J' m.
Proof. intros H Hi. eapply okpT_imp; [exact H|]. intros x. apply Hi. Qed.

Section CliNoFault.
  Variable mktime : N -> N -> N -> N -> Z -> N -> N.
  Variable junk : N.

  (* ---------------------------------------------------------------- *)
  (* 1. lha_filter_next_file: any number of lha_reader_next_file       *)

  Lemma filter_next_file_okp flt f r : RI f r ->
    okp True (fun x => RI true (snd x)) (filter_next_file mktime flt r).
  Proof.
    intros Hi. unfold filter_next_file.
    apply (loop_okpT (filter_step mktime flt) (fun r => exists f, RI f r) (fun x => RI true (snd x))).
    - clear. intros r [f Hi]. unfold filter_step.
      eapply okpT_bind; [apply (reader_next_file_okp LI mktime f r Hi)|].
      intros [h r'] Hr. cbv beta iota.
      destruct h as [hd|]; [|exact Hr].
      destruct (matches_filter flt hd); [exact Hr|]. cbn [okp]. exists true. exact Hr.
    - exists f. exact Hi.
  Qed.

  Lemma next_header_okp flt st : SIe st ->
    okp True (fun x => SI true (snd x)) (next_header mktime flt st).
  Proof.
    intros [f Hi]. unfold next_header.
    eapply okpT_bind; [apply (filter_next_file_okp flt f _ Hi)|].
    intros [h r'] Hr. exact Hr.
  Qed.

  (* ---------------------------------------------------------------- *)
  (* 2. test_archived_file_crc: one lha_reader_check on the fresh entry *)

  Lemma test_archived_file_crc_okp h st : SI true st -> sokp SIe (test_archived_file_crc junk h st).
  Proof.
    intros Hi. unfold test_archived_file_crc.
    destruct (o_dry_run (cs_opts st)).
    - cbn [okp snd]. exists true. destruct (negb (is_dir_type h)); exact Hi.
    - eapply okpT_bind; [apply (reader_check_okp LI LI_read LI_init mktime junk _ true Hi)|].
      intros [[success evs] r'] Hr. cbv beta iota. cbn [okp snd]. exists false.
      destruct (invoked evs && (o_quiet (cs_opts st) <? 2)); exact Hr.
  Qed.

  (* ---------------------------------------------------------------- *)
  (* 3. the overwrite prompt                                            *)

  Lemma file_exists_okp f fn st : SI f st -> sokp (SI f) (file_exists fn st).
  Proof. intros H. unfold file_exists. destruct (arch_exists (cs_fs st) fn); exact H. Qed.

  Lemma prompt_user_okp f msg st : SI f st -> sokp (SI f) (prompt_user msg st).
  Proof.
    intros H. unfold prompt_user.
    destruct (prompt_read (stdin_data (put_err st msg)) 0) as [[c rest]|]; cbn [okp snd];
      apply SI_set_stdin_data; exact H.
  Qed.

  Lemma confirm_step_okp f fn st : SI f st ->
    okp True (fun x => match x with inl s => SI f s | inr r => SI f (snd r) end) (confirm_step fn st).
  Proof.
    intros H. unfold confirm_step.
    eapply okpT_bind; [apply (prompt_user_okp f s_overwrite_prompt); exact H|].
    intros [[response|c] st2] H2; cbn [snd] in H2; [|exact H2].
    destruct (tolower response =? 121); [exact H2|].
    destruct ((tolower response =? 110) || (tolower response =? 10)); [exact H2|].
    destruct (tolower response =? 97); [exact H2|].
    destruct (tolower response =? 115); exact H2.
  Qed.

  Lemma confirm_file_overwrite_okp f fn st : SI f st -> sokp (SI f) (confirm_file_overwrite fn st).
  Proof.
    intros H. unfold confirm_file_overwrite. destruct (o_overwrite_policy (cs_opts st)); [|exact H|exact H].
    apply (loop_okpT (confirm_step fn) (SI f) (fun x => SI f (snd x))); [|exact H].
    intros s Hs. apply confirm_step_okp. exact Hs.
  Qed.

  Lemma skip_block_okp f fn cond st : SI f st -> sokp (SI f) (skip_block fn cond st).
  Proof.
    intros H. unfold skip_block. destruct cond; [|exact H].
    eapply cbind_sokp; [apply (file_exists_okp f); exact H|auto|].
    intros ex sta Ha. destruct ex; [|exact Ha].
    eapply cbind_sokp; [apply (confirm_file_overwrite_okp f); exact Ha|auto|].
    intros yes stb Hb. exact Hb.
  Qed.

  (* ---------------------------------------------------------------- *)
  (* 4. extract_archived_file: one lha_reader_extract on the fresh entry *)

  Lemma extract_archived_file_okp h st : SI true st -> sokp SIe (extract_archived_file junk h st).
  Proof.
    intros Hi. rewrite extract_archived_file_unfold. cbv zeta.
    eapply cbind_sokp; [apply (skip_block_okp true); exact Hi|apply SI_e|].
    intros skip st1 H1. destruct skip.
    { cbn [okp snd]. exists true. destruct (is_skip (o_overwrite_policy (cs_opts st1))); exact H1. }
    match goal with |- sokp _ (if ?c then _ else _) => destruct c end.
    { cbn [okp snd]. exists true. exact H1. }
    pose proof (make_parent_directories_mkdir (file_full_path h (cs_opts st)) st1) as Km.
    destruct (make_parent_directories (file_full_path h (cs_opts st)) st1) as [okd st2]. cbn [snd] in Km.
    destruct Km as (_ & Er & _).
    assert (H2 : SI true st2) by (unfold SI; rewrite Er; exact H1).
    destruct (negb okd).
    { cbn [okp snd]. exists true. exact H2. }
    eapply okpT_bind; [apply (reader_extract_okp LI LI_read LI_init mktime junk _ (cs_fs st2) (Some (file_full_path h (cs_opts st))) true H2)|].
    intros [[[success evs] r'] f'] Hr. cbv beta iota. cbn [okp snd]. exists false.
    match goal with |- SI false (if ?c then _ else _) => destruct c end; [|exact Hr].
    destruct (invoked evs); [exact Hr|]. destruct (h_symlink_target h); exact Hr.
  Qed.

  (* ---------------------------------------------------------------- *)
  (* 5. the command loops                                               *)

  Lemma test_file_crc_okp flt st : SIe st -> sokp SIe (test_file_crc mktime junk flt st).
  Proof.
    intros Hi. unfold test_file_crc.
    apply (loop_okpT (test_file_crc_step mktime junk flt) (fun s => SIe (snd s)) (fun x => SIe (snd x))); [|exact Hi].
    clear. intros [result st] Hi. cbn [snd] in Hi. unfold test_file_crc_step.
    eapply okpT_bind; [apply (next_header_okp flt st Hi)|].
    intros [h st1] H1. cbn [snd] in H1. cbv beta iota.
    destruct h as [hd|]; [|cbn [okp snd]; exists true; exact H1].
    eapply okpT_bind; [apply (test_archived_file_crc_okp hd st1 H1)|].
    intros [[ok|c] st2] H2; exact H2.
  Qed.

  Lemma dry_run_step_okp flt result st : SIe st ->
    okp True (fun x => match x with inl s => SIe (snd s) | inr r => SIe (snd r) end) (dry_run_step mktime flt (result, st)).
  Proof.
    intros Hi. unfold dry_run_step.
    eapply okpT_bind; [apply (next_header_okp flt st Hi)|].
    intros [h st1] H1. cbn [snd] in H1. cbv beta iota.
    destruct h as [hd|]; [|cbn [okp snd]; exists true; exact H1].
    eapply (okpT_bind (fun x : res unit * cli_state => SI true (snd x))).
    - destruct (h_symlink_target hd) as [t|]; [exact H1|].
      destruct (is_dir_type hd); [exact H1|].
      eapply cbind_sokp; [apply (file_exists_okp true); exact H1|auto|].
      intros ex st3 H3. cbn [okp snd]. destruct ex; exact H3.
    - intros [[u|c] st3] H3; cbn [snd] in H3; cbn [okp snd]; exists true; exact H3.
  Qed.

  Lemma extract_archive_dry_run_okp flt st : SIe st -> sokp SIe (extract_archive_dry_run mktime flt st).
  Proof.
    intros Hi. unfold extract_archive_dry_run.
    apply (loop_okpT (dry_run_step mktime flt) (fun s => SIe (snd s)) (fun x => SIe (snd x))); [|exact Hi].
    clear. intros [result st] Hi. apply dry_run_step_okp. exact Hi.
  Qed.

  Lemma extract_archive_okp flt st : SIe st -> sokp SIe (extract_archive mktime junk flt st).
  Proof.
    intros Hi. unfold extract_archive. destruct (o_dry_run (cs_opts st)); [apply extract_archive_dry_run_okp; exact Hi|].
    apply (loop_okpT (extract_archive_step mktime junk flt) (fun s => SIe (snd s)) (fun x => SIe (snd x))); [|exact Hi].
    clear. intros [result st] Hi. cbn [snd] in Hi. unfold extract_archive_step.
    eapply okpT_bind; [apply (next_header_okp flt st Hi)|].
    intros [h st1] H1. cbn [snd] in H1. cbv beta iota.
    destruct h as [hd|]; [|cbn [okp snd]; exists true; exact H1].
    eapply okpT_bind; [apply (extract_archived_file_okp hd st1 H1)|].
    intros [[ok|c] st2] H2; exact H2.
  Qed.

  (* print_archived_file: lha_reader_read until it returns nothing *)
  Lemma print_archived_file_okp st : SIe st -> okp True (fun x => SIe (snd x)) (print_archived_file junk st).
  Proof.
    intros Hi. unfold print_archived_file.
    eapply okpT_bind.
    - apply (loop_okpT (print_file_step junk) SIe SIe); [|exact Hi].
      clear st Hi. intros st [f Hi]. unfold print_file_step.
      eapply okpT_bind; [apply (reader_read_okp LI LI_read LI_init mktime junk f _ 512 Hi)|].
      intros [[bytes ev] r'] [Hr _]. cbv beta iota.
      destruct bytes; cbn [okp]; exists false; exact Hr.
    - intros st' H'. exact H'.
  Qed.

  Lemma print_archive_okp flt st : SIe st -> sokp SIe (print_archive mktime junk flt st).
  Proof.
    intros Hi. unfold print_archive. destruct (o_dry_run (cs_opts st)); [apply extract_archive_dry_run_okp; exact Hi|].
    apply (loop_okpT (print_archive_step mktime junk flt) SIe (fun x => SIe (snd x))); [|exact Hi].
    clear. intros st Hi. unfold print_archive_step.
    eapply okpT_bind; [apply (next_header_okp flt st Hi)|].
    intros [h st1] H1. cbn [snd] in H1. cbv beta iota.
    destruct h as [hd|]; [|cbn [okp snd]; exists true; exact H1].
    match goal with |- okp True _ (if negb (is_dir_type hd) then bind (print_archived_file junk ?s2) _ else _) =>
      assert (H2 : SI true s2); [|set (st2 := s2) in *] end.
    { destruct (o_quiet (cs_opts st1) <? 2); [|exact H1].
      destruct (h_symlink_target hd); [exact H1|]. destruct (negb (is_dir_type hd)); exact H1. }
    destruct (negb (is_dir_type hd)); [|cbn [okp]; exists true; exact H2].
    eapply okpT_bind; [apply (print_archived_file_okp st2); exists true; exact H2|].
    intros [ok st3] H3. cbn [snd] in H3. cbv beta iota. destruct (negb ok); exact H3.
  Qed.

  (* all_headers (the list commands): lha_reader_next_file until the end *)
  Lemma all_headers_okp f r : RI f r -> okp True (fun _ => True) (all_headers mktime r).
  Proof.
    intros Hi. unfold all_headers.
    apply (loop_okpT (all_headers_step mktime) (fun s => exists f, RI f (fst s)) (fun _ => True)).
    - clear. intros [r acc] [f Hi]. cbn [fst] in Hi. unfold all_headers_step.
      eapply okpT_bind; [apply (reader_next_file_okp LI mktime f r Hi)|].
      intros [h r'] Hr. cbv beta iota. destruct h as [hd|]; cbn [okp fst]; [exists true; exact Hr|exact I].
    - exists f. exact Hi.
  Qed.

  (* ---------------------------------------------------------------- *)
  (* 6. do_command and main                                             *)

  Variable localtime : N -> tm.
  Variable now : N.
  Variable stdin_kind : skind.
  Variable strerror : bool -> list N.

  (* the list commands: sites 2101-2105 *)
  Lemma list_file_basic_ok filters o nw mtime hs : lt_ok localtime ->
    exists txt, list_file_basic localtime (lha_filter_init filters) o nw mtime hs = Ok txt.
  Proof.
    intros Hlt. pose proof (list_output_rows localtime MODE_LIST o filters nw mtime hs Hlt (or_introl eq_refl)) as E.
    cbv zeta in E. eexists. exact E.
  Qed.

  Lemma list_file_verbose_ok filters o nw mtime hs : lt_ok localtime ->
    exists txt, list_file_verbose localtime (lha_filter_init filters) o nw mtime hs = Ok txt.
  Proof.
    intros Hlt. pose proof (list_output_rows localtime MODE_LIST_VERBOSE o filters nw mtime hs Hlt (or_intror eq_refl)) as E.
    cbv zeta in E. eexists. exact E.
  Qed.

  (* a new reader over any source satisfies the invariant *)
  Lemma new_reader_RI k data : RI true (lha_reader_new (lha_input_stream_new (mk_source k data))).
  Proof. apply reader_new_inv. destruct (new_reader_wf k data) as [Hw _]. exact Hw. Qed.

  Definition needs_clock (mode : program_mode) : Prop := mode = MODE_LIST \/ mode = MODE_LIST_VERBOSE.

  (* the switch of do_command, on the process st1 that has the new reader *)
  Definition run_mode (mode : program_mode) (filters : list (list N)) (mtime : N) (st1 : cli_state)
    : outcome (res bool * cli_state) :=
    let filter := lha_filter_init filters in
    match mode with
    | MODE_LIST =>
      '(r', hs) <- all_headers mktime (cs_reader st1) ;;
      txt <- list_file_basic localtime filter (cs_opts st1) now mtime hs ;;
      Ok (RVal true, put_out (set_reader st1 r') txt)
    | MODE_LIST_VERBOSE =>
      '(r', hs) <- all_headers mktime (cs_reader st1) ;;
      txt <- list_file_verbose localtime filter (cs_opts st1) now mtime hs ;;
      Ok (RVal true, put_out (set_reader st1 r') txt)
    | MODE_CRC_CHECK => test_file_crc mktime junk filter st1
    | MODE_EXTRACT => extract_archive mktime junk filter st1
    | MODE_PRINT => print_archive mktime junk filter st1
    | MODE_UNKNOWN => Ok (RVal true, st1)
    end.

  (* fopen / stdin: the source, the archive's mtime, whether stdin is shared *)
  Definition open_archive (filename : list N) (st0 : cli_state)
    : outcome (res (source * N * bool) * cli_state) :=
    if is_dash filename then
      Ok (RVal (mk_source stdin_kind (cs_stdin st0), now, true), st0)
    else
      match fs_fopen_rb (cs_fs st0) filename with
      | OpenFail e =>
        Ok (RExit exit_minus_1, put_err st0 (s_lha_error ++ filename ++ [32] ++ strerror e ++ [10]))
      | OpenDir => Ok (RVal (mk_source KFile [], now, false), st0)
      | OpenFile data mt => Ok (RVal (mk_source KFile data, if mt =? 0 then now else mt, false), st0)
      end.

  Definition opened_state (st : cli_state) (src : source) (shared : bool) : cli_state :=
    {| cs_fs := cs_fs st; cs_reader := lha_reader_new (lha_input_stream_new src); cs_opts := cs_opts st;
       cs_stdin := if shared then [] else cs_stdin st; cs_stdin_shared := shared;
       cs_out := cs_out st; cs_err := cs_err st |}.

  Lemma do_command_eq mode filename filters st0 :
    do_command mktime junk localtime now stdin_kind strerror mode filename filters st0 =
    cbind (open_archive filename st0)
          (fun opened st => let '(src, mtime, shared) := opened in
                            run_mode mode filters mtime (opened_state st src shared)).
  Proof.
    unfold do_command, open_archive, run_mode, opened_state.
    destruct (is_dash filename).
    - cbn [cbind]. destruct mode; reflexivity.
    - destruct (fs_fopen_rb (cs_fs st0) filename); cbn [cbind]; try reflexivity; destruct mode; reflexivity.
  Qed.

  Lemma run_mode_okp mode filters mtime st1 :
    (needs_clock mode -> lt_ok localtime) -> SI true st1 ->
    okp True (fun _ => True) (run_mode mode filters mtime st1).
  Proof.
    intros Hlt Hr. unfold run_mode. cbv zeta. destruct mode.
    - cbn [okp]. exact I.
    - eapply okpT_bind; [apply (all_headers_okp true _ Hr)|].
      intros [r' hs] _. cbv beta iota.
      destruct (list_file_basic_ok filters (cs_opts st1) now mtime hs (Hlt (or_introl eq_refl))) as [txt E].
      rewrite E. cbn [bind okp]. exact I.
    - eapply okpT_bind; [apply (all_headers_okp true _ Hr)|].
      intros [r' hs] _. cbv beta iota.
      destruct (list_file_verbose_ok filters (cs_opts st1) now mtime hs (Hlt (or_intror eq_refl))) as [txt E].
      rewrite E. cbn [bind okp]. exact I.
    - eapply okpT_imp; [apply test_file_crc_okp; exists true; exact Hr|]. intros x _. exact I.
    - eapply okpT_imp; [apply extract_archive_okp; exists true; exact Hr|]. intros x _. exact I.
    - eapply okpT_imp; [apply print_archive_okp; exists true; exact Hr|]. intros x _. exact I.
  Qed.

  Lemma open_archive_src filename st0 src mt shared st :
    open_archive filename st0 = Ok (RVal (src, mt, shared), st) -> exists k data, src = mk_source k data.
  Proof.
    unfold open_archive. destruct (is_dash filename).
    - intros H. injection H as <- _ _ _. eexists _, _. reflexivity.
    - destruct (fs_fopen_rb (cs_fs st0) filename) as [data m| |e]; intros H; try discriminate.
      + injection H as <- _ _ _. eexists _, _. reflexivity.
      + injection H as <- _ _ _. eexists _, _. reflexivity.
  Qed.

  Lemma open_archive_ok filename st0 : exists x, open_archive filename st0 = Ok x.
  Proof.
    unfold open_archive. destruct (is_dash filename); [eexists; reflexivity|].
    destruct (fs_fopen_rb (cs_fs st0) filename); eexists; reflexivity.
  Qed.

  Theorem do_command_okp mode filename filters st0 :
    (needs_clock mode -> lt_ok localtime) ->
    okp True (fun _ => True)
        (do_command mktime junk localtime now stdin_kind strerror mode filename filters st0).
  Proof.
    intros Hlt. rewrite do_command_eq.
    destruct (open_archive_ok filename st0) as [[[[[src mt] shared]|c] st] E]; rewrite E; cbn [cbind].
    - destruct (open_archive_src _ _ _ _ _ _ E) as (k & data & ->).
      apply run_mode_okp; [exact Hlt|]. exact (new_reader_RI k data).
    - cbn [okp]. exact I.
  Qed.

  Definition argv_needs_clock (argv : list (list N)) : Prop :=
    match parse_main (tl argv) with
    | Some (mode, _, _, _) => needs_clock mode
    | None => False
    end.

  Theorem lha_main_okp argv stdin s :
    (argv_needs_clock argv -> lt_ok localtime) ->
    okp True (fun _ => True) (lha_main mktime junk localtime now stdin_kind strerror argv stdin s).
  Proof.
    intros Hlt. unfold lha_main, argv_needs_clock in *.
    eapply okpT_bind.
    - destruct (parse_main (tl argv)) as [[[[mode o] file] filters]|].
      + apply do_command_okp. exact Hlt.
      + unfold help_page. cbn [okp]. exact I.
    - intros [v st] _. cbn [okp]. exact I.
  Qed.
End CliNoFault.

(* ------------------------------------------------------------------ *)
(* 7. C08 for the tool                                                  *)

(* For every argv, archive (a file of the filesystem, or standard input), standard
   input and initial filesystem, and every mktime / junk / now / stream kind /
   strerror: the run of the tool never reaches an invalid access, provided the C
   library's localtime returns a month number in 0..11. *)
Theorem lha_main_never_faults :
  forall mktime junk localtime now stdin_kind strerror argv stdin s,
  lt_ok localtime ->
  forall site, lha_main mktime junk localtime now stdin_kind strerror argv stdin s <> Fault site.
Proof.
  intros mktime junk localtime now stdin_kind strerror argv stdin s Hlt.
  eapply okpT_not_fault. apply lha_main_okp. intros _. exact Hlt.
Qed.

(* the commands t, x, e, p (and the help page) need no hypothesis at all *)
Theorem lha_main_never_faults_no_clock :
  forall mktime junk localtime now stdin_kind strerror argv stdin s,
  ~ argv_needs_clock argv ->
  forall site, lha_main mktime junk localtime now stdin_kind strerror argv stdin s <> Fault site.
Proof.
  intros mktime junk localtime now stdin_kind strerror argv stdin s Hn.
  eapply okpT_not_fault. apply lha_main_okp. intros H. contradiction.
Qed.

(* the test case of the differential test (CliMain.cli_run: UTC clock) *)
Theorem cli_run_never_faults :
  forall mktime strerror uid0 now mtime argv archive stdin setup site,
  cli_run mktime gmtime_utc strerror uid0 now mtime argv archive stdin setup <> Fault site.
Proof.
  intros. unfold cli_run. apply lha_main_never_faults. exact gmtime_utc_ok.
Qed.

(* ------------------------------------------------------------------ *)
(* 8. Non-vacuity                                                       *)
Module NoFaultExample.
  (* two stored members (P_ReaderCheck.Example): fox.txt with the right CRC, then the same
     member with a wrong recorded CRC *)
  Definition archive : list N :=
    P_ReaderCheck.Example.ex_header 238 198 ++ P_ReaderCheck.Example.ex_data ++
    P_ReaderCheck.Example.ex_header 239 199 ++ P_ReaderCheck.Example.ex_data ++ [0].
  Definition arc_path : list N := [47;97;114;99;47;97;46;108;122;104].      (* /arc/a.lzh *)
  Definition run (cmd : list N) : outcome cli_result :=
    cli_run mktime_utc gmtime_utc (fun _ => []) false 1300000000 1200000000 [[108;104;97]; cmd; arc_path] archive [] [].

  (* every command returns (Ok), as the theorem says it does not fault *)
  Example runs_return :
    forallb (fun cmd => match run cmd with Ok _ => true | _ => false end)
            [[108]; [118]; [116]; [120;102]; [101;102]; [112]; [116;110]; [120;110]; [63]] = true.
  Proof. vm_compute. reflexivity. Qed.

  (* the hypothesis on localtime is needed: months[ts->tm_mon] with a libc that returns
     month 12 (site 2102) -- not a defect of the C: ISO C guarantees 0..11 *)
  Definition bad_clock (t : N) : tm :=
    {| tm_sec := 0; tm_min := 0; tm_hour := 0; tm_mday := 1; tm_mon := 12; tm_year := 100 |}.
  Example clock_hypothesis_needed :
    cli_run mktime_utc bad_clock (fun _ => []) false 1300000000 1200000000 [[108;104;97]; [108]; arc_path] archive [] []
    = Fault 2102.
  Proof. vm_compute. reflexivity. Qed.
End NoFaultExample.

Print Assumptions lha_main_never_faults.
Print Assumptions lha_main_never_faults_no_clock.
Print Assumptions cli_run_never_faults.
Print Assumptions NoFaultExample.runs_return.

(* S_Pm.v -- specification side for C04: what a list of PMarc commands
   denotes and how -pm2- and -pm1- serialise such a list.  Written as
   ENCODERS, independently of the decoder models (Pm1.v, Pm2.v,
   PmaCommon.v, Tree.v are not imported): the history is a plain list with
   move-to-front, prefix codes are given by the closed form of the canonical
   code, the -pm1- byte-class trees are binary-tree terms.

   Conventions
   - A command is a literal byte or a copy.  [PCopy dist len] outputs [len]
     bytes, each equal to the byte [dist + 1] places back in the output at the
     time it is produced (dist = 0 repeats the last byte; a copy may overlap
     its own output).
   - "Before the start": -pm2- reads spaces (0x20) there (its ring buffer is
     memset to ' '); -pm1- zeroes its ring buffer but refuses any copy whose
     distance is >= the number of bytes output so far, so the fill is never
     observed in a well-formed -pm1- stream.
   - Distances are taken modulo the window (8192 for -pm2-, 16384 for
     -pm1-); well-formed commands have dist < window anyway.
   - EVERY output byte, literal or copied, is moved to the front of the
     history of byte values (both methods).  Literals are coded as their
     current position in that history. *)
From Lhasa Require Import Base S_Larc.
Local Open Scope N_scope.

Inductive pcmd : Type :=
| PByte (v : N)
| PCopy (dist len : N).

(* ------------------------------------------------------------------ *)
(* 1. Expansion                                                        *)

(* All output so far, addressed by absolute position 0 .. ph_n - 1.  (The
   trie of Base.arr is used as an unbounded map; alen is not consulted.) *)
Record phist : Type := { ph_mem : arr; ph_n : N }.

Definition ph_empty : phist := {| ph_mem := mk_arr 0 0; ph_n := 0 |}.

Definition ph_push (h : phist) (b : N) : phist :=
  {| ph_mem := aset (ph_mem h) (ph_n h) b; ph_n := ph_n h + 1 |}.

(* the byte [dist + 1] places back; [fill] before the start of the output *)
Definition ph_back (window fill : N) (h : phist) (dist : N) : N :=
  let d := dist mod window in
  if d <? ph_n h then aget (ph_mem h) (ph_n h - 1 - d) else fill.

Fixpoint ph_copy (window fill : N) (n : nat) (h : phist) (dist : N) (out_rev : list N)
  : phist * list N :=
  match n with
  | O => (h, out_rev)
  | S k =>
    let b := ph_back window fill h dist in
    ph_copy window fill k (ph_push h b) dist (b :: out_rev)
  end.

Definition pm_cmd (window fill : N) (st : phist * list N) (c : pcmd) : phist * list N :=
  let '(h, out_rev) := st in
  match c with
  | PByte v => (ph_push h v, v :: out_rev)
  | PCopy dist len => ph_copy window fill (N.to_nat len) h dist out_rev
  end.

Definition pm_expand_fill (window fill : N) (cmds : list pcmd) : list N :=
  rev_append (snd (fold_left (pm_cmd window fill) cmds (ph_empty, []))) [].

(* the fill is determined by the method: 8 KiB window = -pm2- = spaces,
   16 KiB window = -pm1- = zeros (never observed when well-formed) *)
Definition pm_fill (window : N) : N := if window =? 8192 then 32 else 0.
Definition pm_expand (window : N) (cmds : list pcmd) : list N :=
  pm_expand_fill window (pm_fill window) cmds.

Definition pm2_window : N := 8192.
Definition pm1_window : N := 16384.

(* ---- move-to-front history of byte values ---- *)

Definition nrange (a n : N) : list N := map (fun i => a + N.of_nat i) (seq 0 (N.to_nat n)).

(* PMarc starting order: 0x20..0x7f, 0x00..0x1f, 0xa0..0xdf, 0x80..0x9f, 0xe0..0xff *)
Definition pm_mtf0 : list N :=
  nrange 32 96 ++ nrange 0 32 ++ nrange 160 64 ++ nrange 128 32 ++ nrange 224 32.

Fixpoint mtf_index_from (l : list N) (v : N) (i : N) : option N :=
  match l with
  | [] => None
  | x :: r => if x =? v then Some i else mtf_index_from r v (i + 1)
  end.
Definition mtf_index (l : list N) (v : N) : option N := mtf_index_from l v 0.

Definition mtf_front (l : list N) (v : N) : list N :=
  v :: filter (fun x => negb (x =? v)) l.

(* Encoder state: output so far + history of byte values *)
Record pst : Type := { ps_h : phist; ps_mtf : list N }.
Definition pst0 : pst := {| ps_h := ph_empty; ps_mtf := pm_mtf0 |}.
Definition ps_pos (st : pst) : N := ph_n (ps_h st).

Definition pst_out (st : pst) (b : N) : pst :=
  {| ps_h := ph_push (ps_h st) b; ps_mtf := mtf_front (ps_mtf st) b |}.

Fixpoint pst_copy (window fill : N) (n : nat) (st : pst) (dist : N) : pst :=
  match n with
  | O => st
  | S k => pst_copy window fill k (pst_out st (ph_back window fill (ps_h st) dist)) dist
  end.

Definition pst_cmd (window : N) (st : pst) (c : pcmd) : pst :=
  match c with
  | PByte v => pst_out st v
  | PCopy dist len => pst_copy window (pm_fill window) (N.to_nat len) st dist
  end.

(* ------------------------------------------------------------------ *)
(* Bit-level helpers                                                   *)

(* w-bit big-endian field *)
Definition nbits (w v : N) : list bool := bits_of (N.to_nat w) v.

(* bits to bytes, MSB first, last byte zero padded (tail recursive) *)
Fixpoint pack_bits (l : list bool) (cur k : N) (acc : list N) : list N :=
  match l with
  | [] => rev_append (if k =? 0 then acc else (cur * 2 ^ (8 - k)) :: acc) []
  | b :: r =>
    let cur' := 2 * cur + (if b then 1 else 0) in
    if k =? 7 then pack_bits r 0 0 (cur' :: acc) else pack_bits r cur' (k + 1) acc
  end.
Definition pm_pack (l : list bool) : list N := pack_bits l 0 0 [].

(* value classes: a table of (base, width); class i covers
   base_i .. base_i + 2^width_i - 1 and is followed by width_i bits of
   (value - base_i).  The FIRST class that covers the value is used. *)
Fixpoint vl_find (tbl : list (N * N)) (i v : N) : option (N * N * N) :=
  match tbl with
  | [] => None
  | (base, w) :: r =>
    if (base <=? v) && (v <? base + 2 ^ w) then Some (i, base, w) else vl_find r (i + 1) v
  end.

(* ---- canonical prefix codes (pm2 code table and offset table) ----
   [lens] gives a length per symbol, 0 = symbol absent.  Codes are assigned in
   order of (length, symbol): the code of a symbol of length l is the l-bit
   number
       sum over symbols j with 0 < len_j < l of 2^(l - len_j)
     + number of symbols j < sym with len_j = l. *)
Fixpoint canon_value (lens : list N) (j sym l : N) : N :=
  match lens with
  | [] => 0
  | lj :: r =>
    (if (0 <? lj) && (lj <? l) then 2 ^ (l - lj)
     else if (lj =? l) && (j <? sym) then 1 else 0) + canon_value r (j + 1) sym l
  end.

Definition canon_code (lens : list N) (sym : N) : option (list bool) :=
  match nth_N lens sym with
  | Some l => if l =? 0 then None else Some (nbits l (canon_value lens 0 sym l))
  | None => None
  end.

Definition count_nz (lens : list N) : N := nlen (filter (fun l => negb (l =? 0)) lens).
Definition max_len (lens : list N) : N := fold_left N.max lens 0.

(* complete: at least two symbols and Kraft sum exactly 1 *)
Definition complete_code (lens : list N) : bool :=
  let m := max_len lens in
  (2 <=? count_nz lens) &&
  (sum_N (map (fun l => if l =? 0 then 0 else 2 ^ (m - l)) lens) =? 2 ^ m).

(* ------------------------------------------------------------------ *)
(* 2. -pm2-                                                            *)

(* Code table as it appears in the stream:
   single form : 5 bits n, 3 bits 0            -- the only code is n - 1, coded in 0 bits
   general form: 5 bits n (number of codes), 3 bits minlen (1..7), 3 bits lbits,
                 then n fields of lbits bits: 0 = absent, else len - minlen + 1 *)
Inductive codetab : Type :=
| CTSingle (ncodes : N)
| CTLens (minlen lbits : N) (lens : list N).

Definition ct_bits (ct : codetab) : list bool :=
  match ct with
  | CTSingle n => nbits 5 n ++ nbits 3 0
  | CTLens m lb lens =>
    nbits 5 (nlen lens) ++ nbits 3 m ++ nbits 3 lb ++
    flat_map (fun l => nbits lb (if l =? 0 then 0 else l - m + 1)) lens
  end.

Definition ct_code (ct : codetab) (sym : N) : option (list bool) :=
  match ct with
  | CTSingle n => if (1 <=? n) && (sym =? n - 1) then Some [] else None
  | CTLens _ _ lens => canon_code lens sym
  end.

Definition wf_codetab (ct : codetab) : bool :=
  match ct with
  | CTSingle n => (1 <=? n) && (n <=? 31)
  | CTLens m lb lens =>
    (1 <=? m) && (m <=? 7) && (lb <=? 7) && (nlen lens <=? 31) &&
    forallb (fun l => (l =? 0) || ((m <=? l) && (l - m + 1 <? 2 ^ lb))) lens &&
    complete_code lens
  end.

(* does the stream carry an offset table for this code table?  (number of
   codes >= 10, i.e. some copy longer than 2 is expressible; except the
   single-code table whose only code is 28 = "256 bytes at distance 0") *)
Definition ct_need_off (ct : codetab) : bool :=
  match ct with
  | CTSingle n => (10 <=? n) && negb (n =? 29)
  | CTLens _ _ lens => 10 <=? nlen lens
  end.

(* Offset table: one 3-bit length per distance class.  Exactly one non-zero
   length: that class is coded in 0 bits.  Otherwise a complete prefix code. *)
Definition off_bits (ol : list N) : list bool := flat_map (nbits 3) ol.

Definition off_code (ol : list N) (cls : N) : option (list bool) :=
  if count_nz ol =? 1 then
    match nth_N ol cls with
    | Some l => if l =? 0 then None else Some []
    | None => None
    end
  else canon_code ol cls.

Definition wf_offtab (ol : list N) : bool :=
  forallb (fun l => l <? 8) ol && ((count_nz ol =? 1) || complete_code ol).

(* Code symbols 0..7: literal whose history position lies in class 0..7 *)
Definition pm2_lit_tbl : list (N * N) :=
  [(0, 3); (8, 3); (16, 4); (32, 5); (64, 5); (96, 5); (128, 6); (192, 6)].
(* Code symbols 8..22: copy of 2..16 bytes; 23..27: copy whose length lies in
   class 0..4 of this table; 28: copy of 256 bytes at distance 0 *)
Definition pm2_len_tbl : list (N * N) :=
  [(17, 3); (25, 3); (33, 5); (65, 6); (129, 7)].

(* Distance classes: class 0 = 0..63 (6 bits), class c >= 1 =
   2^(c+5) .. 2^(c+6) - 1 (c + 5 bits); class 7 ends at 8191. *)
Definition pm2_dist_split (dist : N) : option (N * list bool) :=
  if dist <? 64 then Some (0, nbits 6 dist)
  else if dist <? 8192 then
    let c := N.log2 dist - 5 in Some (c, nbits (c + 5) (dist - 2 ^ (c + 5)))
  else None.

(* What a command needs: (code symbol, bits after the code, distance class
   coded through the offset table (if any), bits after that).
   [has28]: code symbol 28 is available.
   - a 2-byte copy (symbol 8) has a plain 6-bit distance, no offset table;
   - 256 bytes at distance 0 uses symbol 28 when available; otherwise (and
     for any other distance) length 256 is the last value of length class 4. *)
Definition pm2_plan (mtf : list N) (has28 : bool) (c : pcmd)
  : option (N * list bool * option N * list bool) :=
  match c with
  | PByte v =>
    match mtf_index mtf v with
    | Some p =>
      match vl_find pm2_lit_tbl 0 p with
      | Some (cls, base, w) => Some (cls, nbits w (p - base), None, [])
      | None => None
      end
    | None => None
    end
  | PCopy dist len =>
    if (len =? 256) && (dist =? 0) && has28 then Some (28, [], None, [])
    else if len =? 2 then
      if dist <? 64 then Some (8, [], None, nbits 6 dist) else None
    else
      match pm2_dist_split dist with
      | Some (oc, obits) =>
        if (3 <=? len) && (len <=? 16) then Some (8 + (len - 2), [], Some oc, obits)
        else
          match vl_find pm2_len_tbl 0 len with
          | Some (cls, base, w) => Some (23 + cls, nbits w (len - base), Some oc, obits)
          | None => None
          end
      | None => None
      end
  end.

(* bits of one command under code table [ct] and offset table [ot]:
   code, length bits, offset-table code, distance bits *)
Definition pm2_cmd_code (ct : option codetab) (ot : list N) (mtf : list N) (c : pcmd)
  : option (list bool) :=
  match ct with
  | None => None
  | Some t =>
    match pm2_plan mtf (match ct_code t 28 with Some _ => true | None => false end) c with
    | Some (sym, cbits, oc, obits) =>
      match ct_code t sym with
      | Some code =>
        match oc with
        | None => Some (code ++ cbits ++ obits)
        | Some cls =>
          match off_code ot cls with
          | Some ocode => Some (code ++ cbits ++ ocode ++ obits)
          | None => None
          end
        end
      | None => None
      end
    | None => None
    end
  end.

(* Segments.  Segment k covers the output offsets seg_start k .. seg_end k - 1:
   0, 1 KiB, 2 KiB, 4 KiB, 8 KiB, then every 4 KiB. *)
Definition pm2_seg_start (k : N) : N :=
  if k =? 0 then 0 else if k =? 1 then 1024 else if k =? 2 then 2048
  else if k =? 3 then 4096 else 8192 + 4096 * (k - 4).
Definition pm2_seg_end (k : N) : N := pm2_seg_start (k + 1).
(* number of distance classes in the offset table of segment k *)
Definition pm2_noffs (k : N) : N := if k <? 3 then 5 + k else 8.

(* A segment: the tables its header carries and the commands up to and
   including the one during whose output the segment's end is reached.
   Header of segment k:
     k = 0   : code table; offset table (5 classes) if needed
     k = 1,2 : offset table (6, 7 classes) if needed (code table is kept)
     k = 3   : flag bit; code table if flag; offset table (8) if needed (always re-read)
     k >= 4  : flag bit; if flag: code table; offset table (8) if needed.
                         if not: both tables are kept
   "needed" = ct_need_off of the code table in force after the header. *)
Record pm2_seg : Type := {
  sg_code : option codetab;
  sg_off : option (list N);
  sg_cmds : list pcmd
}.

Record pm2_stream : Type := {
  p2_first : bool;                (* the first bit of the stream is ignored *)
  p2_segs : list pm2_seg
}.

Definition is_some {A} (o : option A) : bool := match o with Some _ => true | None => false end.

Definition pm2_hdr_bits (k : N) (sg : pm2_seg) : list bool :=
  (if 3 <=? k then [is_some (sg_code sg)] else []) ++
  (match sg_code sg with Some c => ct_bits c | None => [] end) ++
  (match sg_off sg with Some ol => off_bits ol | None => [] end).

Definition seg_ct (ct : option codetab) (sg : pm2_seg) : option codetab :=
  match sg_code sg with Some c => Some c | None => ct end.
Definition seg_ot (ot : list N) (sg : pm2_seg) : list N :=
  match sg_off sg with Some l => l | None => ot end.

Definition wf_pm2_hdr (k : N) (ct : option codetab) (sg : pm2_seg) : bool :=
  (if k =? 0 then is_some (sg_code sg) else if k <? 3 then negb (is_some (sg_code sg)) else true) &&
  (match sg_code sg with Some c => wf_codetab c | None => true end) &&
  (match seg_ct ct sg with
   | None => false
   | Some c =>
     let expected := ct_need_off c && ((k <? 4) || is_some (sg_code sg)) in
     match sg_off sg with
     | Some ol => expected && (nlen ol =? pm2_noffs k) && wf_offtab ol
     | None => negb expected
     end
   end).

(* commands of one segment, bits accumulated in reverse *)
Fixpoint pm2_cmds_bits (ct : option codetab) (ot : list N) (st : pst) (cmds : list pcmd)
         (acc : list bool) : pst * list bool :=
  match cmds with
  | [] => (st, acc)
  | c :: r =>
    let b := match pm2_cmd_code ct ot (ps_mtf st) c with Some b => b | None => [] end in
    pm2_cmds_bits ct ot (pst_cmd pm2_window st c) r (rev_append b acc)
  end.

(* The table bits of segment k + 1 follow the complete bits of the command
   during whose output offset seg_end k is reached (all bits of a command are
   read before its first byte is output), also when that happens in the middle
   of a copy. *)
Fixpoint pm2_segs_bits (k : N) (ct : option codetab) (ot : list N) (st : pst)
         (segs : list pm2_seg) (acc : list bool) : list bool :=
  match segs with
  | [] => acc
  | sg :: r =>
    let ct' := seg_ct ct sg in
    let ot' := seg_ot ot sg in
    let '(st', acc') := pm2_cmds_bits ct' ot' st (sg_cmds sg) (rev_append (pm2_hdr_bits k sg) acc) in
    pm2_segs_bits (k + 1) ct' ot' st' r acc'
  end.

Definition pm2_bits (d : pm2_stream) : list bool :=
  rev_append (pm2_segs_bits 0 None [] pst0 (p2_segs d) [p2_first d]) [].
Definition pm2_serialise (d : pm2_stream) : list N := pm_pack (pm2_bits d).

Definition pm2_cmds (d : pm2_stream) : list pcmd := flat_map sg_cmds (p2_segs d).
Definition pm2_denote (d : pm2_stream) : list N := pm_expand pm2_window (pm2_cmds d).

Definition wf_pm2_cmd (ct : option codetab) (ot : list N) (st : pst) (c : pcmd) : bool :=
  (match c with
   | PByte v => v <? 256
   | PCopy dist len => (2 <=? len) && (len <=? 256) && (dist <? 8192)
   end) && is_some (pm2_cmd_code ct ot (ps_mtf st) c).

(* every command is expressible; every command but the last of segment k ends
   below seg_end k; the last one of a non-final segment reaches it *)
Fixpoint wf_pm2_cmds (k : N) (ct : option codetab) (ot : list N) (last_seg : bool)
         (st : pst) (cmds : list pcmd) : option pst :=
  match cmds with
  | [] => if last_seg then Some st else None
  | c :: r =>
    if wf_pm2_cmd ct ot st c then
      let st' := pst_cmd pm2_window st c in
      match r with
      | [] => if last_seg || (pm2_seg_end k <=? ps_pos st') then Some st' else None
      | _ => if ps_pos st' <? pm2_seg_end k then wf_pm2_cmds k ct ot last_seg st' r else None
      end
    else None
  end.

Fixpoint wf_pm2_segs (k : N) (ct : option codetab) (ot : list N) (st : pst)
         (segs : list pm2_seg) : bool :=
  match segs with
  | [] => true
  | sg :: r =>
    let ct' := seg_ct ct sg in
    let ot' := seg_ot ot sg in
    wf_pm2_hdr k ct sg &&
    match wf_pm2_cmds k ct' ot' (match r with [] => true | _ => false end) st (sg_cmds sg) with
    | Some st' => wf_pm2_segs (k + 1) ct' ot' st' r
    | None => false
    end
  end.

Definition wf_pm2 (d : pm2_stream) : bool := wf_pm2_segs 0 None [] pst0 (p2_segs d).

(* ---- auto-builder: a valid description for a plain command list ----
   variant bit 0: skewed code lengths (1,2,3,...) instead of balanced ones
           bit 1: one code table for the whole stream (flag bits 0) instead of
                  new tables at every opportunity
           bit 2: loose table headers (31 codes, minlen 1, 7-bit fields)
           bit 3: value of the ignored first bit *)

(* per command: the code symbol and the distance class it uses *)
Definition pm2_annot (st : pst) (c : pcmd) : pcmd * N * option N :=
  match pm2_plan (ps_mtf st) true c with
  | Some (sym, _, oc, _) => (c, sym, oc)
  | None => (c, 0, None)
  end.

Definition pm2_ann : Type := (pcmd * N * option N)%type.

Fixpoint pm2_split (cmds : list pcmd) (st : pst) (k : N) (cur_rev : list pm2_ann)
         (segs_rev : list (list pm2_ann)) : list (list pm2_ann) :=
  match cmds with
  | [] =>
    rev_append (match cur_rev with [] => segs_rev | _ => rev_append cur_rev [] :: segs_rev end) []
  | c :: r =>
    let a := pm2_annot st c in
    let st' := pst_cmd pm2_window st c in
    if pm2_seg_end k <=? ps_pos st'
    then pm2_split r st' (k + 1) [] (rev_append (a :: cur_rev) [] :: segs_rev)
    else pm2_split r st' k (a :: cur_rev) segs_rev
  end.

Definition used_syms (anns : list pm2_ann) : list N :=
  filter (fun s => existsb (fun a => snd (fst a) =? s) anns) (nrange 0 31).
Definition used_ocs (anns : list pm2_ann) : list N :=
  filter (fun s => existsb (fun a => match snd a with Some o => o =? s | None => false end) anns)
         (nrange 0 8).

(* length of the i-th of n used symbols (n >= 2); both give Kraft sum 1 *)
Definition auto_len (skew : bool) (n i : N) : N :=
  if skew then (if i + 1 <? n then i + 1 else n - 1)
  else
    let L := N.log2_up n in
    if i <? 2 ^ L - n then L - 1 else L.

Definition auto_lens (skew : bool) (used : list N) (size : N) : list N :=
  map (fun s => match mtf_index used s with
                | Some i => auto_len skew (nlen used) i
                | None => 0
                end) (nrange 0 size).

Definition min_nz (lens : list N) : N :=
  fold_left (fun m l => if l =? 0 then m else if m =? 0 then l else N.min m l) lens 0.

Definition auto_codetab (variant : N) (used : list N) : codetab :=
  match used with
  | [] => CTSingle 1
  | [s] => CTSingle (s + 1)
  | _ =>
    let loose := N.testbit variant 2 in
    let lens := auto_lens (N.testbit variant 0) used (if loose then 31 else max_len used + 1) in
    if loose then CTLens 1 7 lens
    else let m := min_nz lens in CTLens m (N.size (max_len lens - m + 1)) lens
  end.

Definition auto_offtab (variant : N) (used : list N) (noffs : N) : list N :=
  match used with
  | [] => map (fun s => if s =? 0 then 1 else 0) (nrange 0 noffs)
  | [o] => map (fun s => if s =? o then (if N.testbit variant 2 then 7 else 1) else 0) (nrange 0 noffs)
  | _ => auto_lens (N.testbit variant 0) used noffs
  end.

Fixpoint pm2_build (variant k : N) (ct : option codetab) (segs : list (list pm2_ann))
  : list pm2_seg :=
  match segs with
  | [] => []
  | s :: r =>
    let glob := N.testbit variant 1 in
    let newct :=
      if k =? 0 then
        Some (auto_codetab variant (used_syms (if glob then concat segs else concat (firstn 3 segs))))
      else if (3 <=? k) && negb glob then Some (auto_codetab variant (used_syms s))
      else None in
    let ct' := match newct with Some c => Some c | None => ct end in
    let hasoff := match ct' with
                  | Some c => ct_need_off c && ((k <? 4) || is_some newct)
                  | None => false
                  end in
    let gov := if glob && (k =? 3) then concat segs else s in
    {| sg_code := newct;
       sg_off := if hasoff then Some (auto_offtab variant (used_ocs gov) (pm2_noffs k)) else None;
       sg_cmds := map (fun a => fst (fst a)) s |} :: pm2_build variant (k + 1) ct' r
  end.

Definition pm2_auto (variant : N) (cmds : list pcmd) : pm2_stream :=
  let segs := pm2_split cmds pst0 0 [] [] in
  {| p2_first := N.testbit variant 3;
     p2_segs := pm2_build variant 0 None (match segs with [] => [[]] | _ => segs end) |}.

(* ------------------------------------------------------------------ *)
(* 3. -pm1-                                                            *)

(* A -pm1- stream is a 5-bit header selecting one of 32 byte-class trees,
   then items:
     bit 0: a copy
     bit 1: a block of 1..216 literal bytes; a block of fewer than 216 bytes
            is IMMEDIATELY followed by a copy (no item bit); a block of
            exactly 216 bytes is not.
   If the stream ends with a block of fewer than 216 bytes, the copy that
   must follow is read from the zero padding / zero extension (it decodes as
   a 2-byte copy at distance 0, beyond the declared length). *)
Inductive pm1_item : Type :=
| IBlock (bytes : list N) (follow : option (N * N))      (* follow = (dist, len) *)
| ICopy (dist len : N).

Record pm1_stream : Type := { p1_header : N; p1_items : list pm1_item }.

(* Byte-class trees: a literal is coded as the class (a..f = 0..5) of its
   history position through the selected tree (left = 0, right = 1), then the
   position within the class. *)
Inductive bt : Type := BL (c : N) | BN (l r : bt).

Definition pm1_byte_tbl : list (N * N) :=
  [(0, 4); (16, 4); (32, 5); (64, 6); (128, 6); (192, 6)].

Section Trees.
Let ta := BL 0. Let tb := BL 1. Let tc := BL 2. Let td := BL 3. Let te := BL 4. Let tf := BL 5.
Definition pm1_trees : list bt := [
  BN (BN (BN (BN ta tb) tc) td) (BN te tf);                    (*  0: ((((a b) c) d) (e f)) *)
  BN (BN (BN ta tb) (BN tc tf)) (BN td te);                    (*  1: (((a b) (c f)) (d e)) *)
  BN (BN (BN ta tb) tc) (BN td (BN te tf));                    (*  2: (((a b) c) (d (e f))) *)
  BN (BN ta (BN tb tc)) (BN td (BN te tf));                    (*  3: ((a (b c)) (d (e f))) *)
  BN (BN ta (BN tb td)) (BN tc (BN te tf));                    (*  4: ((a (b d)) (c (e f))) *)
  BN (BN ta (BN tb (BN te tf))) (BN tc td);                    (*  5: ((a (b (e f))) (c d)) *)
  BN (BN ta tb) (BN (BN tc td) (BN te tf));                    (*  6: ((a b) ((c d) (e f))) *)
  BN (BN ta tb) (BN (BN tc (BN te tf)) td);                    (*  7: ((a b) ((c (e f)) d)) *)
  BN (BN ta tb) (BN tc (BN td (BN te tf)));                    (*  8: ((a b) (c (d (e f)))) *)
  BN ta (BN (BN (BN tb tf) tc) (BN td te));                    (*  9: (a (((b f) c) (d e))) *)
  BN ta (BN (BN (BN tb (BN te tf)) tc) td);                    (* 10: (a (((b (e f)) c) d)) *)
  BN ta (BN (BN (BN tb tc) td) (BN te tf));                    (* 11: (a (((b c) d) (e f))) *)
  BN ta (BN (BN tb (BN tc tf)) (BN td te));                    (* 12: (a ((b (c f)) (d e))) *)
  BN ta (BN (BN tb tc) (BN td (BN te tf)));                    (* 13: (a ((b c) (d (e f)))) *)
  BN ta (BN (BN tb (BN td (BN te tf))) tc);                    (* 14: (a ((b (d (e f))) c)) *)
  BN ta (BN tb (BN (BN tc td) (BN te tf)));                    (* 15: (a (b ((c d) (e f)))) *)
  BN ta (BN tb (BN tc (BN td (BN te tf))));                    (* 16: (a (b (c (d (e f))))) *)
  (* 17 is marked BROKEN in the C source: classes a and b are unreachable, d
     and e each have two codes.  It is what the decoder walks, so it is what
     the format is; the serialiser uses the leftmost code (d = 000, e = 001). *)
  BN (BN (BN td te) tc) (BN td te);                            (* 17: (((d e) c) (d e)) *)
  BN (BN ta (BN tb te)) (BN tc td);                            (* 18: ((a (b e)) (c d)) *)
  BN (BN ta tb) (BN tc (BN td te));                            (* 19: ((a b) (c (d e))) *)
  BN ta (BN (BN (BN tb te) tc) td);                            (* 20: (a (((b e) c) d)) *)
  BN ta (BN (BN tb tc) (BN td te));                            (* 21: (a ((b c) (d e))) *)
  BN ta (BN (BN tb (BN td te)) tc);                            (* 22: (a ((b (d e)) c)) *)
  BN ta (BN tb (BN tc (BN td te)));                            (* 23: (a (b (c (d e)))) *)
  BN (BN (BN ta tb) tc) td;                                    (* 24: (((a b) c) d) *)
  BN (BN ta (BN tb td)) tc;                                    (* 25: ((a (b d)) c) *)
  BN (BN ta tb) (BN tc td);                                    (* 26: ((a b) (c d)) *)
  BN ta (BN (BN tb td) tc);                                    (* 27: (a ((b d) c)) *)
  BN ta (BN tb (BN tc td));                                    (* 28: (a (b (c d))) *)
  BN ta (BN tb tc);                                            (* 29: (a (b c)) *)
  BN ta tb;                                                    (* 30: (a b) *)
  ta                                                           (* 31: no tree: class a in 0 bits *)
].
End Trees.

(* leftmost path to a leaf of class c *)
Fixpoint bt_path (t : bt) (c : N) : option (list bool) :=
  match t with
  | BL x => if x =? c then Some [] else None
  | BN l r =>
    match bt_path l c with
    | Some p => Some (false :: p)
    | None =>
      match bt_path r c with
      | Some p => Some (true :: p)
      | None => None
      end
    end
  end.

Definition pm1_byte_code (t : bt) (mtf : list N) (v : N) : option (list bool) :=
  match mtf_index mtf v with
  | Some p =>
    match vl_find pm1_byte_tbl 0 p with
    | Some (cls, base, w) =>
      match bt_path t cls with
      | Some path => Some (path ++ nbits w (p - base))
      | None => None
      end
    | None => None
    end
  | None => None
  end.

(* block length 1..216 *)
Definition pm1_blocklen_bits (n : N) : option (list bool) :=
  if n =? 0 then None
  else if n <=? 3 then Some (nbits 2 (n - 1))
  else if n <=? 10 then Some (nbits 2 3 ++ nbits 3 (n - 4))
  else if n <=? 24 then Some (nbits 2 3 ++ nbits 3 7 ++ nbits 4 (n - 11))
  else if n <=? 88 then Some (nbits 2 3 ++ nbits 3 7 ++ nbits 4 14 ++ nbits 6 (n - 25))
  else if n <=? 216 then Some (nbits 2 3 ++ nbits 3 7 ++ nbits 4 15 ++ nbits 7 (n - 89))
  else None.

(* copy length 3..244 (length 2 is implied by the copy type) *)
Definition pm1_copylen_bits (n : N) : option (list bool) :=
  if n <? 3 then None
  else if n <=? 5 then Some (nbits 2 (n - 3))
  else if n <=? 10 then Some (nbits 2 3 ++ nbits 3 (n - 6))
  else if n <=? 14 then Some (nbits 2 3 ++ nbits 3 5 ++ nbits 2 (n - 11))
  else if n <=? 22 then Some (nbits 2 3 ++ nbits 3 6 ++ nbits 3 (n - 15))
  else if n <=? 84 then Some (nbits 2 3 ++ nbits 3 7 ++ nbits 6 (n - 23))
  else if n <=? 116 then Some (nbits 2 3 ++ nbits 3 7 ++ nbits 6 62 ++ nbits 5 (n - 85))
  else if n <=? 244 then Some (nbits 2 3 ++ nbits 3 7 ++ nbits 6 63 ++ nbits 7 (n - 117))
  else None.

(* Copy types: (type, distance base, full width of the distance field)
     2-byte copies : 0 = 0..63, 1 = 64..319
     longer copies : 2 = 0..63, 3 = 64..575, 4 = 576..2623, 5 = 2624..10815 *)
Definition pm1_copy_type (dist len : N) : option (N * N * N) :=
  if len =? 2 then
    if dist <? 64 then Some (0, 0, 6) else if dist <? 320 then Some (1, 64, 8) else None
  else
    if dist <? 64 then Some (2, 0, 6)
    else if dist <? 576 then Some (3, 64, 9)
    else if dist <? 2624 then Some (4, 576, 11)
    else if dist <? 10816 then Some (5, 2624, 13)
    else None.

(* The type code grows with the output position [pos]: a bit that would
   distinguish types not yet usable is omitted. *)
Definition obit (cond b : bool) : list bool := if cond then [b] else [].
Definition pm1_type_bits (pos ty : N) : list bool :=
  if ty =? 0 then [false] ++ obit (576 <=? pos) false ++ obit (64 <=? pos) false
  else if ty =? 1 then [false] ++ obit (576 <=? pos) false ++ [true]
  else if ty =? 4 then [false; true]
  else if ty =? 3 then [true; false]
  else if ty =? 2 then [true] ++ obit (64 <=? pos) true ++ obit (2624 <=? pos) true
  else [true; true; false].

(* Width of the distance field of types 3, 4, 5 at position pos: the least
   w >= 8 with pos < base + 2^w, at most the full width (so 8 bits while
   pos < base + 256, ...).  Types 0, 1, 2 always use the full width. *)
Fixpoint narrow_width (n : nat) (base pos w : N) : N :=
  match n with
  | O => w
  | S k => if pos <? base + 2 ^ w then w else narrow_width k base pos (w + 1)
  end.
Definition pm1_dist_width (ty base full pos : N) : N :=
  if ty <? 3 then full else narrow_width (N.to_nat (full - 8)) base pos 8.

(* type bits, length bits (types 2..5), distance bits; needs dist < pos *)
Definition pm1_copy_bits (pos dist len : N) : option (list bool) :=
  if dist <? pos then
    match pm1_copy_type dist len with
    | Some (ty, base, full) =>
      let dbits := nbits (pm1_dist_width ty base full pos) (dist - base) in
      if ty <? 2 then Some (pm1_type_bits pos ty ++ dbits)
      else
        match pm1_copylen_bits len with
        | Some lb => Some (pm1_type_bits pos ty ++ lb ++ dbits)
        | None => None
        end
    | None => None
    end
  else None.

Definition obits (o : option (list bool)) : list bool := match o with Some b => b | None => [] end.

Fixpoint pm1_bytes_bits (t : bt) (st : pst) (bs : list N) (acc : list bool) : pst * list bool :=
  match bs with
  | [] => (st, acc)
  | v :: r => pm1_bytes_bits t (pst_out st v) r (rev_append (obits (pm1_byte_code t (ps_mtf st) v)) acc)
  end.

Definition pm1_item_bits (t : bt) (st : pst) (it : pm1_item) (acc : list bool) : pst * list bool :=
  match it with
  | ICopy d l =>
    (pst_cmd pm1_window st (PCopy d l), rev_append (false :: obits (pm1_copy_bits (ps_pos st) d l)) acc)
  | IBlock bs f =>
    let '(st', acc') := pm1_bytes_bits t st bs (rev_append (true :: obits (pm1_blocklen_bits (nlen bs))) acc) in
    match f with
    | Some (d, l) =>
      (pst_cmd pm1_window st' (PCopy d l), rev_append (obits (pm1_copy_bits (ps_pos st') d l)) acc')
    | None => (st', acc')
    end
  end.

Fixpoint pm1_items_bits (t : bt) (st : pst) (its : list pm1_item) (acc : list bool) : list bool :=
  match its with
  | [] => acc
  | it :: r => let '(st', acc') := pm1_item_bits t st it acc in pm1_items_bits t st' r acc'
  end.

Definition pm1_tree (header : N) : bt :=
  match nth_N pm1_trees header with Some t => t | None => BL 0 end.

Definition pm1_bits (d : pm1_stream) : list bool :=
  rev_append (pm1_items_bits (pm1_tree (p1_header d)) pst0 (p1_items d)
                             (rev_append (nbits 5 (p1_header d)) [])) [].
Definition pm1_serialise (d : pm1_stream) : list N := pm_pack (pm1_bits d).

Definition pm1_item_cmds (it : pm1_item) : list pcmd :=
  match it with
  | ICopy d l => [PCopy d l]
  | IBlock bs f => map PByte bs ++ match f with Some (d, l) => [PCopy d l] | None => [] end
  end.
Definition pm1_cmds (d : pm1_stream) : list pcmd := flat_map pm1_item_cmds (p1_items d).
Definition pm1_denote (d : pm1_stream) : list N := pm_expand pm1_window (pm1_cmds d).

(* well-formedness: header < 32; blocks of 1..216 bytes, each byte value's
   history position in a class the selected tree reaches; a block has a
   following copy iff it is shorter than 216 bytes, except that the LAST item
   may be a short block without one; copies of 2..244 bytes whose distance is
   below the current output position and inside a distance class valid for the
   length (2-byte copies: < 320; longer: < 10816). *)
Definition wf_pm1_copy (st : pst) (d l : N) : bool :=
  (2 <=? l) && (l <=? 244) && is_some (pm1_copy_bits (ps_pos st) d l).

Fixpoint wf_pm1_bytes (t : bt) (st : pst) (bs : list N) : option pst :=
  match bs with
  | [] => Some st
  | v :: r =>
    if (v <? 256) && is_some (pm1_byte_code t (ps_mtf st) v)
    then wf_pm1_bytes t (pst_out st v) r else None
  end.

Fixpoint wf_pm1_items (t : bt) (st : pst) (its : list pm1_item) : bool :=
  match its with
  | [] => true
  | it :: r =>
    match it with
    | ICopy d l => wf_pm1_copy st d l && wf_pm1_items t (pst_cmd pm1_window st (PCopy d l)) r
    | IBlock bs f =>
      let n := nlen bs in
      (1 <=? n) && (n <=? 216) &&
      match wf_pm1_bytes t st bs with
      | Some st' =>
        match f with
        | Some (d, l) =>
          (n <? 216) && wf_pm1_copy st' d l && wf_pm1_items t (pst_cmd pm1_window st' (PCopy d l)) r
        | None =>
          ((n =? 216) || (match r with [] => true | _ => false end)) && wf_pm1_items t st' r
        end
      | None => false
      end
    end
  end.

Definition wf_pm1 (d : pm1_stream) : bool :=
  (p1_header d <? 32) && wf_pm1_items (pm1_tree (p1_header d)) pst0 (p1_items d).

(* Zero-extension rule: decoding s to a declared length gives the same result
   as decoding s followed by any number of zero bytes (the decoder continues
   a stream that has run out with zero bits). *)
Definition pm1_zero_extended (s : list N) (k : nat) : list N := s ++ repeat 0 k.

(* ---- auto-builder ---- *)

(* group a plain command list into items: runs of literals are cut into
   blocks of 216; the remainder (if any) takes the following copy *)
Fixpoint pm1_group (cmds : list pcmd) (cur_rev : list N) (ncur : N) (acc : list pm1_item)
  : list pm1_item :=
  match cmds with
  | [] =>
    rev_append (match cur_rev with [] => acc | _ => IBlock (rev_append cur_rev []) None :: acc end) []
  | PByte v :: r =>
    if ncur =? 215 then pm1_group r [] 0 (IBlock (rev_append (v :: cur_rev) []) None :: acc)
    else pm1_group r (v :: cur_rev) (ncur + 1) acc
  | PCopy d l :: r =>
    match cur_rev with
    | [] => pm1_group r [] 0 (ICopy d l :: acc)
    | _ => pm1_group r [] 0 (IBlock (rev_append cur_rev []) (Some (d, l)) :: acc)
    end
  end.

Definition pm1_auto (header : N) (cmds : list pcmd) : pm1_stream :=
  {| p1_header := header; p1_items := pm1_group cmds [] 0 [] |}.

(* the byte classes the literals of a command list need *)
Fixpoint pm1_classes (cmds : list pcmd) (st : pst) (acc : list N) : list N :=
  match cmds with
  | [] => acc
  | c :: r =>
    let acc' :=
      match c with
      | PByte v =>
        match mtf_index (ps_mtf st) v with
        | Some p =>
          match vl_find pm1_byte_tbl 0 p with
          | Some (cls, _, _) => if existsb (N.eqb cls) acc then acc else cls :: acc
          | None => acc
          end
        | None => acc
        end
      | PCopy _ _ => acc
      end in
    pm1_classes r (pst_cmd pm1_window st c) acc'
  end.

(* the preferred header if its tree reaches every needed class, otherwise the
   first header that does (header 0 reaches all six) *)
Definition pm1_pick_header (pref : N) (cmds : list pcmd) : N :=
  let need := pm1_classes cmds pst0 [] in
  let ok h := forallb (fun c => is_some (bt_path (pm1_tree h) c)) need in
  match filter ok (pref :: nrange 0 32) with
  | h :: _ => h
  | [] => 0
  end.

(* P_LhNew.v -- memory safety (C09) of the model of lib/lh_new_decoder.c (LhNew.v)
   for -lh4- -lh5- -lh6- -lh7- -lhx- -lk7-.

   For ANY input callback that returns at most what it is asked for, and any
   decoder state satisfying [lhnew_inv], one lhnew_read
     - never yields [Fault] (sites 701-753 of LhNew.v, 601-607 of Tree.v,
       101 of BitReader.v),
     - returns at most p_max_read bytes and re-establishes the invariant
   (theorem lhnew_read_safe).  The loops "for (;;) ++len" of read_length_value
   and "while (block_remaining == 0)" of lha_lh_new_read consume input in every
   iteration and end only when the input does: with an endless callback they
   do not end in C either, and the model answers OutOfFuel.  For a callback
   with finitely many bytes left (a measure [m] on its state, below 2^27
   bytes) lhnew_read returns [Ok] (theorem lhnew_read_total).

   Both are instances of one proof, parameterised by [oof : bool] ("is running
   out of fuel an accepted outcome?"). *)
From Lhasa Require Import Base ListN DecBase Loop BitReader Tree Generated LhNew
  P_BitReader P_Tree.
From Coq Require Import ZifyBool ZifyN ZifyNat.
Local Open Scope N_scope.

(* ------------------------------------------------------------------ *)
(* 1. Numeric facts about a parameter record                           *)

(* largest symbol value an offset tree may hold: read_offset_code shifts by
   bits - 1 <= 30 (plain) resp. (code - 2) / 2 <= 31 (LHARK) *)
Definition offb (P : lhnew_params) : N := if p_lhark P then 64 else 32.

Record params_ok (P : lhnew_params) : Prop := {
  po_leaf : p_leaf P = 32768;
  po_ring_pow : p_RING_BUFFER_SIZE P = 2 ^ p_HISTORY_BITS P;
  po_ring_ext : p_RING_BUFFER_SIZE P <= p_ringbuf_extent P;
  po_temp_ext : p_temp_tree_extent P = p_MAX_TEMP_CODES P * 2;
  po_code_ext : p_code_tree_extent P = p_NUM_CODES P * 2;
  po_off_ext : p_offset_tree_extent P = p_MAX_OFFSET_CODES P * 2;
  po_code_u16 : p_NUM_CODES P * 2 <= 65536;
  po_temp_min : 6 <= p_MAX_TEMP_CODES P;           (* the i == 2 skip field writes up to code_lengths[5] *)
  po_temp_max : p_MAX_TEMP_CODES P <= 512;
  po_temp_bits : p_TEMP_CODE_BITS P <= 32;
  po_codes_min : 1 <= p_NUM_CODES P;
  po_codes_max : p_NUM_CODES P <= 512;             (* symbols of the code tree are below 2^9 *)
  po_off_min : 1 <= p_MAX_OFFSET_CODES P;
  po_off_max : p_MAX_OFFSET_CODES P <= offb P;
  po_off_bits : p_OFFSET_BITS P <= 32;
  po_off_single : 2 ^ p_OFFSET_BITS P <= offb P;    (* set_tree_single(offset_tree, read_bits(OFFSET_BITS)) *)
  po_copy_max : p_COPY_THRESHOLD P + 255 <= p_max_read P;   (* largest plain copy: 511 - 256 + COPY_THRESHOLD *)
  po_copy_lhark : p_lhark P = true -> 514 <= p_max_read P   (* largest LHARK copy *)
}.

Lemma lh5_params_ok : params_ok lh5_params.
Proof. constructor; vm_compute; try reflexivity; try discriminate; intros; discriminate. Qed.
Lemma lh4_params_ok : params_ok lh4_params.
Proof. constructor; vm_compute; try reflexivity; try discriminate; intros; discriminate. Qed.
Lemma lh6_params_ok : params_ok lh6_params.
Proof. constructor; vm_compute; try reflexivity; try discriminate; intros; discriminate. Qed.
Lemma lh7_params_ok : params_ok lh7_params.
Proof. constructor; vm_compute; try reflexivity; try discriminate; intros; discriminate. Qed.
Lemma lhx_params_ok : params_ok lhx_params.
Proof. constructor; vm_compute; try reflexivity; try discriminate; intros; discriminate. Qed.
Lemma lk7_params_ok : params_ok lk7_params.
Proof. constructor; vm_compute; try reflexivity; try discriminate; intros; discriminate. Qed.

(* ------------------------------------------------------------------ *)
(* 2. Trees: a bound on the symbols held by leaves                      *)
(* P_Tree's [closed] makes the walk safe; what is done with the symbol   *)
(* afterwards (copy count, shift count) needs a bound on its value.      *)
(* Every leaf among the first [len] entries holds a symbol below [B];    *)
(* this is kept by init_tree, set_tree_single (code < B) and build_tree  *)
(* (num <= B), whatever an earlier build left behind.                    *)

Definition leaf_bound (leaf : N) (t : arr) (len B : N) : Prop :=
  forall i, i < len -> is_leaf leaf (aget t i) = true -> N.land (aget t i) (leaf - 1) < B.

Section TreeBound.
  Variables leaf w : N.
  Hypothesis Hleaf : leaf = 2 ^ w.

  Lemma leaf_m1_ones : leaf - 1 = N.ones w.
  Proof. rewrite N.ones_equiv, <- Hleaf. lia. Qed.

  Lemma not_leaf_small v : v < leaf -> is_leaf leaf v = false.
  Proof.
    intros H. unfold is_leaf.
    assert (E : N.land v leaf = 0).
    { rewrite <- (N.mod_small v leaf H) at 1. rewrite Hleaf at 1. rewrite <- N.land_ones.
      rewrite <- N.land_assoc. rewrite (N.land_comm (N.ones w)), Hleaf, N.land_ones.
      rewrite N.mod_same by (apply N.pow_nonzero; lia). apply N.land_0_r. }
    rewrite E. reflexivity.
  Qed.

  Lemma sym_leaf : N.land leaf (leaf - 1) = 0.
  Proof.
    rewrite leaf_m1_ones, N.land_ones, <- Hleaf.
    apply N.mod_same. pose proof (leaf_pos leaf w Hleaf). lia.
  Qed.

  Lemma sym_lor_leaf i : i < leaf -> N.land (N.lor i leaf) (leaf - 1) = i.
  Proof.
    intros H. rewrite N.land_lor_distr_l, sym_leaf, N.lor_0_r.
    rewrite leaf_m1_ones, N.land_ones, <- Hleaf. apply N.mod_small. exact H.
  Qed.

  Lemma leaf_bound_trivial t len : leaf_bound leaf t len leaf.
  Proof. intros i _ _. apply (land_low_lt leaf w Hleaf). Qed.

  Lemma leaf_bound_aset t len B i v :
    leaf_bound leaf t len B -> (is_leaf leaf v = true -> N.land v (leaf - 1) < B) ->
    leaf_bound leaf (aset t i v) len B.
  Proof.
    intros Hb Hv j Hj. rewrite aget_aset. destruct (N.eqb_spec i j) as [E|E]; [exact Hv|apply Hb; exact Hj].
  Qed.

  Lemma init_tree_bound t tree_len B : tree_len <= alen t -> 0 < B ->
    exists t', init_tree leaf t tree_len = Ok t' /\ closed leaf t' tree_len /\ alen t' = alen t /\
      leaf_bound leaf t' tree_len B.
  Proof.
    intros H HB. destruct (init_tree_closed leaf w Hleaf t tree_len H) as (t' & E & C & L & G & _).
    exists t'. split; [exact E|]. split; [exact C|]. split; [exact L|].
    intros i Hi _. rewrite (G i Hi), sym_leaf. exact HB.
  Qed.

  Lemma set_tree_single_bound t len B code :
    closed leaf t len -> 0 < len -> leaf_bound leaf t len B -> code < B -> code < leaf ->
    exists t', set_tree_single leaf t code = Ok t' /\ closed leaf t' len /\ alen t' = alen t /\
      leaf_bound leaf t' len B.
  Proof.
    intros Hc Hl Hb HB Hcl.
    destruct (set_tree_single_closed leaf w Hleaf t len code Hc Hl) as (t' & E & C & L).
    exists t'. split; [exact E|]. split; [exact C|]. split; [exact L|].
    unfold set_tree_single in E. apply wr_inv in E. destruct E as [_ ->].
    apply leaf_bound_aset; [exact Hb|]. intros _.
    rewrite (elem_small leaf w Hleaf) by lia. rewrite sym_lor_leaf by exact Hcl. exact HB.
  Qed.

  (* builder invariant of P_Tree plus the symbol bound; the tree is short
     enough (<= leaf) for internal nodes never to look like leaves *)
  Definition bwf2 (B : N) (b : bld) : Prop :=
    bwf leaf b /\ b_len b <= leaf /\ leaf_bound leaf (b_tree b) (b_len b) B.

  Lemma expand_loop_bound B n : forall b e,
    bwf2 B b -> e <= b_allocated b -> b_next b <= e ->
    b_allocated b + 2 * (e - b_next b) <= b_len b ->
    exists b', expand_loop leaf n b e = Ok b' /\ bwf2 B b' /\
      alen (b_tree b') = alen (b_tree b) /\ b_len b' = b_len b.
  Proof.
    induction n as [|n IH]; intros b e Hb He Hn Hroom.
    - exists b. split; [reflexivity|]. split; [exact Hb|]. split; reflexivity.
    - rewrite expand_loop_S. destruct (N.ltb_spec (b_next b) e) as [Hlt|Hge].
      + destruct Hb as ((Hc & H1 & H2 & H3 & H4) & H5 & H6).
        pose proof (closed_alen leaf _ _ Hc) as Hal.
        rewrite wr_ok by lia. cbn [bind].
        rewrite (elem_small leaf w Hleaf) by lia.
        destruct (IH {| b_tree := aset (b_tree b) (b_next b) (b_allocated b); b_len := b_len b;
                        b_allocated := b_allocated b + 2; b_next := b_next b + 1 |} e)
          as (b' & E & W & L & K); cbn [b_tree b_len b_allocated b_next]; try lia.
        { split; [|split]; cbn [b_tree b_len b_allocated b_next]; [|lia|].
          - split; cbn [b_tree b_len b_allocated b_next]; [|lia].
            apply (closed_aset leaf); [exact Hc|lia|right; lia].
          - apply leaf_bound_aset; [exact H6|]. intros X.
            rewrite not_leaf_small in X by lia. discriminate. }
        exists b'. split; [exact E|]. split; [exact W|].
        cbn [b_tree b_len] in L, K. rewrite alen_aset in L. split; [exact L|exact K].
      + exists b. split; [reflexivity|]. split; [exact Hb|]. split; reflexivity.
  Qed.

  Lemma expand_queue_bound B b : bwf2 B b ->
    exists b', expand_queue leaf b = Ok b' /\ bwf2 B b' /\
      alen (b_tree b') = alen (b_tree b) /\ b_len b' = b_len b.
  Proof.
    intros Hb. unfold expand_queue.
    destruct (N.ltb_spec (b_len b) (b_allocated b + (b_allocated b - b_next b) * 2)) as [H|H].
    - exists b. split; [reflexivity|]. split; [exact Hb|]. split; reflexivity.
    - pose proof Hb as ((Hc & H1 & H2 & H3 & H4) & _). apply expand_loop_bound; try lia. exact Hb.
  Qed.

  Lemma add_codes_loop_bound B n : forall b cl i code_len rem,
    bwf2 B b -> i + N.of_nat n <= alen cl -> i + N.of_nat n <= B -> i + N.of_nat n <= leaf ->
    (forall j, i <= j -> j < i + N.of_nat n -> aget cl j < 256) ->
    exists b' r, add_codes_loop leaf n b cl i code_len rem = Ok (b', r) /\ bwf2 B b' /\
      alen (b_tree b') = alen (b_tree b) /\ b_len b' = b_len b /\
      (r = true -> rem = true \/ code_len < 255).
  Proof.
    induction n as [|n IH]; intros b cl i code_len rem Hb Hn HnB Hnl Hcl.
    - exists b, rem. split; [reflexivity|]. split; [exact Hb|]. repeat split; auto.
    - rewrite add_codes_loop_S. rewrite rd_ok by lia. cbn [bind].
      assert (Hsym : is_leaf leaf (N.lor (elem leaf i) leaf) = true ->
                     N.land (N.lor (elem leaf i) leaf) (leaf - 1) < B).
      { intros _. rewrite (elem_small leaf w Hleaf) by lia. rewrite sym_lor_leaf by lia. lia. }
      destruct (N.eqb_spec (aget cl i) code_len) as [El|El].
      + destruct Hb as ((Hc & H1 & H2 & H3 & H4) & H5 & H6).
        pose proof (closed_alen leaf _ _ Hc) as Hal.
        unfold read_next_entry.
        destruct (N.leb_spec (b_allocated b) (b_next b)) as [Hq|Hq]; cbv beta iota zeta;
          cbn [b_tree b_len b_allocated b_next].
        * rewrite wr_ok by lia. cbn [bind].
          destruct (IH {| b_tree := aset (b_tree b) 0 (N.lor (elem leaf i) leaf); b_len := b_len b;
                          b_allocated := b_allocated b; b_next := b_next b |}
                       cl (i + 1) code_len rem) as (b' & r & E & W & L & K & M);
            cbn [b_tree b_len b_allocated b_next]; try lia.
          { split; [|split]; cbn [b_tree b_len b_allocated b_next]; [|lia|].
            - split; cbn [b_tree b_len b_allocated b_next]; [|lia].
              apply (closed_aset leaf);
                [exact Hc|apply (lor_leaf_lt leaf w Hleaf), (elem_lt leaf w Hleaf)|left; apply (is_leaf_lor leaf w Hleaf)].
            - apply leaf_bound_aset; [exact H6|exact Hsym]. }
          { intros j Hj1 Hj2. apply Hcl; lia. }
          exists b', r. split; [exact E|]. split; [exact W|].
          cbn [b_tree b_len] in L, K. rewrite alen_aset in L. auto.
        * rewrite wr_ok by lia. cbn [bind].
          destruct (IH {| b_tree := aset (b_tree b) (b_next b) (N.lor (elem leaf i) leaf);
                          b_len := b_len b; b_allocated := b_allocated b; b_next := b_next b + 1 |}
                       cl (i + 1) code_len rem) as (b' & r & E & W & L & K & M);
            cbn [b_tree b_len b_allocated b_next]; try lia.
          { split; [|split]; cbn [b_tree b_len b_allocated b_next]; [|lia|].
            - split; cbn [b_tree b_len b_allocated b_next]; [|lia].
              apply (closed_aset leaf);
                [exact Hc|apply (lor_leaf_lt leaf w Hleaf), (elem_lt leaf w Hleaf)|left; apply (is_leaf_lor leaf w Hleaf)].
            - apply leaf_bound_aset; [exact H6|exact Hsym]. }
          { intros j Hj1 Hj2. apply Hcl; lia. }
          exists b', r. split; [exact E|]. split; [exact W|].
          cbn [b_tree b_len] in L, K. rewrite alen_aset in L. auto.
      + destruct (IH b cl (i + 1) code_len (if code_len <? aget cl i then true else rem))
          as (b' & r & E & W & L & K & M); try lia; [exact Hb| |].
        { intros j Hj1 Hj2. apply Hcl; lia. }
        exists b', r. split; [exact E|]. split; [exact W|]. split; [exact L|]. split; [exact K|].
        intros Hr. specialize (M Hr).
        destruct (N.ltb_spec code_len (aget cl i)) as [Hlt|Hge].
        * right. assert (aget cl i < 256) by (apply Hcl; lia). lia.
        * exact M.
  Qed.

  Lemma build_loop_bound B fuel : forall b cl num code_len,
    bwf2 B b -> num <= alen cl -> num <= B -> num <= leaf -> (forall j, j < num -> aget cl j < 256) ->
    255 - code_len < N.of_nat fuel ->
    exists b', build_loop leaf fuel b cl num code_len = Ok b' /\ bwf2 B b' /\
      alen (b_tree b') = alen (b_tree b) /\ b_len b' = b_len b.
  Proof.
    induction fuel as [|f IH]; intros b cl num code_len Hb Hn HnB Hnl Hcl Hf; [lia|].
    rewrite build_loop_S.
    destruct (expand_queue_bound B b Hb) as (b1 & E1 & W1 & L1 & K1). rewrite E1. cbn [bind].
    unfold add_codes_with_length.
    destruct (add_codes_loop_bound B (N.to_nat num) b1 cl 0 (code_len + 1) false W1)
      as (b2 & more & E2 & W2 & L2 & K2 & M2); [lia|lia|lia|intros j _ Hj; apply Hcl; lia|].
    rewrite E2. cbn [bind]. destruct more.
    - destruct (M2 eq_refl) as [M|M]; [discriminate|].
      destruct (IH b2 cl num (code_len + 1) W2 Hn HnB Hnl Hcl) as (b' & E & W & L & K); [lia|].
      exists b'. split; [exact E|]. split; [exact W|]. split; congruence.
    - exists b2. split; [reflexivity|]. split; [exact W2|]. split; congruence.
  Qed.

  (* build_tree for ARBITRARY code lengths below 256: stays in bounds, ends,
     keeps the tree closed and every symbol below B >= num *)
  Theorem build_tree_bound t tree_len cl num B :
    closed leaf t tree_len -> leaf_bound leaf t tree_len B -> 1 <= tree_len -> tree_len <= leaf ->
    num <= alen cl -> num <= B -> num <= leaf -> (forall i, i < num -> aget cl i < 256) ->
    exists t', build_tree leaf t tree_len cl num = Ok t' /\ closed leaf t' tree_len /\ alen t' = alen t /\
      leaf_bound leaf t' tree_len B.
  Proof.
    intros Hc Hb H1 H2 Hn HnB Hnl Hcl. unfold build_tree.
    destruct (build_loop_bound B 300 {| b_tree := t; b_len := tree_len; b_allocated := 1; b_next := 0 |}
                               cl num 0) as (b' & E & W & L & K); try assumption.
    { split; [|split]; cbn [b_tree b_len b_allocated b_next]; [|exact H2|exact Hb].
      split; cbn [b_tree b_len b_allocated b_next]; [exact Hc|lia]. }
    { change (N.of_nat 300) with 300. lia. }
    rewrite E. cbn [bind]. exists (b_tree b'). split; [reflexivity|].
    cbn [b_tree b_len] in L, K. destruct W as ((Hc' & _) & _ & Hb'). rewrite K in Hc', Hb'.
    split; [exact Hc'|]. split; [exact L|exact Hb'].
  Qed.
End TreeBound.

(* ------------------------------------------------------------------ *)
(* The state invariant of the LHANewDecoder struct                      *)

Definition lhnew_inv_gen (RW : bsr -> Prop) (P : lhnew_params) (s : lhnew_state) : Prop :=
  RW (ln_bsr s) /\
  alen (ln_ring s) = p_ringbuf_extent P /\ ln_pos s < p_RING_BUFFER_SIZE P /\
  ln_block_remaining s < 65536 /\
  (alen (ln_temp_tree s) = p_temp_tree_extent P /\
   closed 32768 (ln_temp_tree s) (p_MAX_TEMP_CODES P * 2)) /\
  (alen (ln_code_tree s) = p_code_tree_extent P /\
   closed 32768 (ln_code_tree s) (p_NUM_CODES P * 2) /\
   leaf_bound 32768 (ln_code_tree s) (p_NUM_CODES P * 2) 512) /\
  (alen (ln_offset_tree s) = p_offset_tree_extent P /\
   closed 32768 (ln_offset_tree s) (p_MAX_OFFSET_CODES P * 2) /\
   leaf_bound 32768 (ln_offset_tree s) (p_MAX_OFFSET_CODES P * 2) (offb P)).

(* the reader's part is a parameter: [bsr_wf] for byte-valued callbacks,
   [bsr_ok] for callbacks that are only known to respect the requested length *)
Definition lhnew_inv : lhnew_params -> lhnew_state -> Prop := lhnew_inv_gen bsr_wf.

Ltac ln_simpl :=
  cbn [ln_bsr ln_ring ln_pos ln_block_remaining ln_temp_tree ln_code_tree ln_offset_tree
       ln_set_bsr ln_set_block_remaining ln_set_temp_tree ln_set_code_tree ln_set_offset_tree ln_set_ring].

Ltac ln_simpl_in H :=
  cbn [ln_bsr ln_ring ln_pos ln_block_remaining ln_temp_tree ln_code_tree ln_offset_tree
       ln_set_bsr ln_set_block_remaining ln_set_temp_tree ln_set_code_tree ln_set_offset_tree ln_set_ring] in H.

Ltac inv_split :=
  unfold lhnew_inv_gen; ln_simpl; repeat match goal with |- _ /\ _ => split end.

Ltac Zify.zify_post_hook ::= Z.div_mod_to_equations.

(* ------------------------------------------------------------------ *)
(* 3. "Good" outcomes.  [oof = true]: OutOfFuel is accepted (partial     *)
(* correctness: never Fault); [oof = false]: the result must be Ok.      *)

Section Good.
  Variable oof : bool.

  Definition good {A} (x : outcome A) (Q : A -> Prop) : Prop :=
    match x with Ok a => Q a | Fault _ => False | OutOfFuel => oof = true end.

  Lemma good_ok {A} (a : A) (Q : A -> Prop) : Q a -> good (Ok a) Q.
  Proof. intros H. exact H. Qed.

  Lemma good_eq {A} (x : outcome A) a (Q : A -> Prop) : x = Ok a -> Q a -> good x Q.
  Proof. intros -> H. exact H. Qed.

  Lemma good_bind {A B} (x : outcome A) (f : A -> outcome B) (Q : A -> Prop) (R : B -> Prop) :
    good x Q -> (forall a, Q a -> good (f a) R) -> good (bind x f) R.
  Proof. destruct x as [a| |]; cbn [good bind]; auto. Qed.

  Lemma good_weaken {A} (x : outcome A) (Q R : A -> Prop) :
    good x Q -> (forall a, Q a -> R a) -> good x R.
  Proof. destruct x as [a| |]; cbn [good]; auto. Qed.

  (* "y is smaller than x by at least k" -- only tracked when fuel matters *)
  Definition dec (x y k : N) : Prop := oof = true \/ y + k <= x.
  Definition small (x : N) : Prop := oof = true \/ x < 2 ^ 30.

  Lemma good_loop {S R} (step : S -> outcome (S + R)) (I : S -> Prop) (Q : R -> Prop) (ms : S -> N) k :
    (forall s, I s -> good (step s) (fun x => match x with
                                             | inl s' => I s' /\ (oof = true \/ ms s' < ms s)
                                             | inr r => Q r end)) ->
    forall s, I s -> (oof = true \/ ms s < 2 ^ N.of_nat k) -> good (loop step k s) Q.
  Proof.
    intros Hstep s Hs Hm.
    destruct (Bool.bool_dec oof true) as [Eo|Eo].
    - assert (Hit : forall n a b, iters step n a b -> I a -> I b).
      { intros n a b Hi. induction Hi as [|n a b c E _ IH]; intros Ha; [exact Ha|].
        apply IH. specialize (Hstep a Ha). rewrite E in Hstep. apply Hstep. }
      assert (Hlp : forall n a r, loops step n a r -> I a -> Q r).
      { intros n a r Hl. induction Hl as [a r E|n a b r E _ IH]; intros Ha.
        - specialize (Hstep a Ha). rewrite E in Hstep. exact Hstep.
        - apply IH. specialize (Hstep a Ha). rewrite E in Hstep. apply Hstep. }
      unfold loop.
      destruct (loop_n_spec step k s)
        as [(n & r & Hl & Hn & E)|[(s' & Hi & E)|(n & s' & x & Hi & Hn & Hx & Hbad & E)]];
        rewrite E; cbn [bind good].
      + eapply Hlp; eauto.
      + exact Eo.
      + pose proof (Hstep s' (Hit _ _ _ Hi Hs)) as G. rewrite Hx in G.
        destruct x as [y| |]; [exfalso; eapply Hbad; reflexivity|destruct G|exact Eo].
    - destruct (loop_total_ok step I Q ms k) with (s := s) as (r & E & HQ).
      + intros a Ha. specialize (Hstep a Ha). destruct (step a) as [x| |]; cbn [good] in Hstep;
          [|contradiction|contradiction].
        exists x. split; [reflexivity|]. destruct x; [|exact Hstep].
        destruct Hstep as [A [B|B]]; [contradiction|]. split; assumption.
      + exact Hs.
      + destruct Hm; [contradiction|assumption].
      + rewrite E. exact HQ.
  Qed.
End Good.

Ltac dec_solve :=
  unfold dec, small in *;
  match goal with
  | |- ?o = true \/ _ =>
    destruct (Bool.bool_dec o true) as [Eoof|Eoof]; [left; exact Eoof|right];
    repeat match goal with
           | H : o = true \/ _ |- _ => destruct H as [H|H]; [contradiction|]
           | H : forall _, _ = Some _ -> _ |- _ => specialize (H _ eq_refl)
           | H : _ /\ (o = true \/ _) |- _ => destruct H as [? H]
           end; try lia
  end.

(* ------------------------------------------------------------------ *)
(* 4. The bit reader with the input measure                             *)

Section Safe.
  Context {cbs : Type}.
  Variable cb : callback cbs.
  Variable oof : bool.
  Variable m : cbs -> N.                 (* bytes the callback can still deliver *)
  Variable RW : bsr -> Prop.             (* what is known about the bit reader's state *)
  Hypothesis Hlen : cb_len_bounded cb.
  Hypothesis HRW_ok : forall r, RW r -> bsr_ok r.
  Hypothesis HRW : forall r c n, RW r -> n <= 32 ->
    exists res r' c', read_bits cb r c n = Ok (res, r', c') /\ RW r' /\ (forall v, res = Some v -> v < 2 ^ n).
  Hypothesis Hfin : oof = false -> forall c n, m (snd (cb c n)) + nlen (fst (cb c n)) <= m c.

  (* input bits not yet consumed *)
  Definition mu (r : bsr) (c : cbs) : N := bits r + 8 * m c.

  Notation good := (good oof).
  Notation dec := (dec oof).
  Notation small := (small oof).

  Lemma peek_fill_mu fuel : forall r c n ok r' c', oof = false -> bsr_ok r ->
    peek_fill cb fuel r c n = Ok (ok, r', c') -> mu r' c' <= mu r c /\ (ok = true -> n <= bits r').
  Proof.
    induction fuel as [|f IH]; intros r c n ok r' c' Ho Hok E; rewrite peek_fill_eq in E.
    - destruct (N.ltb_spec (bits r) n); [discriminate|]. inversion E; subst. split; [lia|intros _; assumption].
    - destruct (N.ltb_spec (bits r) n) as [Hlt|Hge]; [|inversion E; subst; split; [lia|auto]].
      cbv zeta in E. pose proof (Hlen c ((32 - bits r) / 8)) as Hlen'.
      pose proof (Hfin Ho c ((32 - bits r) / 8)) as Hm.
      destruct (cb c ((32 - bits r) / 8)) as [bs c1] eqn:Ecb. cbn [fst snd] in Hlen', Hm.
      destruct bs as [|b rest].
      { inversion E; subst. split; [unfold mu; rewrite (@nlen_nil N) in Hm; lia|intros X; discriminate]. }
      set (bs := b :: rest) in *.
      destruct Hok as [Hb32 Hbuf].
      destruct (fill_bytes_loop_ok bs r 0) as (r1 & E1 & Eb1 & Hok1); [split; assumption|lia|lia|].
      rewrite E1 in E. cbn [bind] in E.
      destruct (IH r1 c1 n ok r' c' Ho Hok1 E) as [A B]. split; [|exact B]. unfold mu in *. lia.
  Qed.

  Lemma read_bits_mu r c n res r' c' : oof = false -> bsr_ok r -> n <= 32 ->
    read_bits cb r c n = Ok (res, r', c') ->
    mu r' c' <= mu r c /\ (forall v, res = Some v -> mu r' c' + n <= mu r c).
  Proof.
    intros Ho Hok Hn E. unfold read_bits, peek_bits in E.
    destruct (N.eqb_spec n 0) as [->|Hn0].
    - cbn [bind] in E. inversion E; subst. unfold mu; cbn [bits]. split; [lia|intros; lia].
    - destruct (peek_fill cb 6 r c n) as [[[ok r1] c1]| |] eqn:Ep; cbn [bind] in E; try discriminate.
      destruct (peek_fill_mu _ _ _ _ _ _ _ Ho Hok Ep) as [A B].
      destruct ok; cbn [bind] in E.
      + destruct (N.shiftr (bit_buffer r1) (32 - n) <? 2147483648); cbn [bind] in E; inversion E; subst.
        * unfold mu in *; cbn [bits]. specialize (B eq_refl). split; [lia|intros; lia].
        * split; [exact A|intros; discriminate].
      + inversion E; subst. split; [exact A|intros; discriminate].
  Qed.

  Lemma read_bits_g r c n : RW r -> n <= 32 ->
    exists res r' c', read_bits cb r c n = Ok (res, r', c') /\ RW r' /\ dec (mu r c) (mu r' c') 0 /\
      forall v, res = Some v -> v < 2 ^ n /\ dec (mu r c) (mu r' c') n.
  Proof.
    intros Hwf Hn.
    destruct (HRW r c n Hwf Hn) as (res & r' & c' & E & Hwf' & Hv).
    exists res, r', c'. split; [exact E|]. split; [exact Hwf'|].
    destruct (Bool.bool_dec oof true) as [Eo|Eo].
    - split; [left; exact Eo|]. intros v Ev. split; [apply Hv; exact Ev|left; exact Eo].
    - assert (Ho : oof = false) by (destruct oof; congruence).
      destruct (read_bits_mu r c n res r' c' Ho (HRW_ok r Hwf) Hn E) as [A B].
      split; [right; lia|]. intros v Ev. split; [apply Hv; exact Ev|right; apply (B v Ev)].
  Qed.

  Lemma read_bit_g r c : RW r ->
    exists res r' c', read_bit cb r c = Ok (res, r', c') /\ RW r' /\ dec (mu r c) (mu r' c') 0 /\
      forall v, res = Some v -> v < 2 /\ dec (mu r c) (mu r' c') 1.
  Proof. intros Hwf. apply (read_bits_g r c 1 Hwf). lia. Qed.

  (* ---------------------------------------------------------------- *)
  (* 5. read_from_tree on a closed, symbol-bounded tree                 *)

  Lemma HL : 32768 = 2 ^ 15.
  Proof. reflexivity. Qed.

  Definition walk_inv (r : bsr) (c : cbs) (len B : N) (s : N * bsr * cbs) : Prop :=
    let '(code, r1, c1) := s in
    RW r1 /\ dec (mu r c) (mu r1 c1) 0 /\
    ((is_leaf 32768 code = true /\ N.land code (32768 - 1) < B) \/
     (is_leaf 32768 code = false /\ code + 1 < len)).
  Definition walk_post (r : bsr) (c : cbs) (B : N) (x : option N * bsr * cbs) : Prop :=
    let '(res, r1, c1) := x in
    RW r1 /\ dec (mu r c) (mu r1 c1) 0 /\ forall v, res = Some v -> v < B.
  Definition walk_ms (len : N) (s : N * bsr * cbs) : N :=
    let '(code, _, _) := s in if is_leaf 32768 code then 0 else len - code.

  Lemma tree_walk_g t len B r c :
    RW r -> closed 32768 t len -> 1 <= len -> len < 2 ^ 20 -> leaf_bound 32768 t len B ->
    exists res r' c', read_from_tree 32768 cb t r c = Ok (res, r', c') /\ RW r' /\
      dec (mu r c) (mu r' c') 0 /\ (forall v, res = Some v -> v < B).
  Proof.
    intros Hr Hc H1 H2 Hb. unfold read_from_tree.
    pose proof (closed_alen _ _ _ Hc) as Hal.
    rewrite rd_ok by lia. cbn [bind].
    destruct (loop_total_ok (tree_step 32768 cb t) (walk_inv r c len B) (walk_post r c B) (walk_ms len) 20)
      with (s := (aget t 0, r, c)) as ([[res r'] c'] & E & Q).
    - intros [[code r1] c1] (Hr1 & Hd1 & Hcode). unfold tree_step.
      destruct Hcode as [[El Hs]|[El Hcode]]; rewrite El.
      + eexists. split; [reflexivity|]. cbv beta iota. split; [exact Hr1|]. split; [exact Hd1|].
        intros v Hv. injection Hv as <-. exact Hs.
      + destruct (read_bit_g r1 c1 Hr1) as (res & r2 & c2 & E & Hr2 & Hd2 & Hbit).
        rewrite E. cbn [bind]. cbv beta iota.
        destruct res as [bv|].
        * destruct (Hbit bv eq_refl) as [Hbv _].
          rewrite rd_ok by lia. cbn [bind].
          eexists. split; [reflexivity|]. cbv beta iota.
          destruct Hc as [_ Hc]. destruct (Hc (code + bv)) as [_ Hd]; [lia|].
          unfold walk_inv, walk_ms. rewrite El.
          destruct (is_leaf 32768 (aget t (code + bv))) eqn:El'.
          -- split; [|lia]. split; [exact Hr2|]. split; [dec_solve|].
             left. split; [reflexivity|]. apply Hb; [lia|exact El'].
          -- destruct Hd as [Hd|Hd]; [discriminate|].
             split; [|lia]. split; [exact Hr2|]. split; [dec_solve|]. right. split; [reflexivity|lia].
        * eexists. split; [reflexivity|]. cbv beta iota. split; [exact Hr2|]. split; [dec_solve|].
          intros v Hv; discriminate.
    - split; [exact Hr|]. split; [dec_solve|].
      destruct Hc as [_ Hc]. destruct (Hc 0) as [_ Hd]; [lia|].
      destruct (is_leaf 32768 (aget t 0)) eqn:El.
      + left. split; [reflexivity|]. apply Hb; [lia|exact El].
      + destruct Hd as [Hd|Hd]; [discriminate|]. right. split; [reflexivity|lia].
    - unfold walk_ms. change (2 ^ N.of_nat 20) with (2 ^ 20).
      destruct (is_leaf 32768 (aget t 0)); lia.
    - exists res, r', c'. split; [exact E|]. exact Q.
  Qed.

  (* ---------------------------------------------------------------- *)
  (* 6. The functions of LhNew.v                                        *)

  Variable P : lhnew_params.
  Hypothesis HP : params_ok P.

  Lemma ln_leaf_eq : ln_leaf P = 32768.
  Proof. unfold ln_leaf. apply (po_leaf P HP). Qed.

  (* postcondition shared by the functions that return (result, reader, callback) *)
  Definition rb_post (r : bsr) (c : cbs) (x : option N * bsr * cbs) : Prop :=
    let '(_, r', c') := x in RW r' /\ dec (mu r c) (mu r' c') 0.

  (* read_length_value: the unary extension loop ends with the input *)
  Lemma ln_read_length_value_g r c : RW r -> small (mu r c) ->
    good (ln_read_length_value cb r c) (rb_post r c).
  Proof.
    intros Hr Hs. unfold ln_read_length_value.
    destruct (read_bits_g r c 3 Hr) as (res & r1 & c1 & E & Hr1 & Hd1 & Hv); [lia|].
    rewrite E. cbn [bind]. cbv beta iota.
    destruct res as [l|]; [|apply good_ok; split; assumption].
    destruct (l =? 7); [|apply good_ok; split; assumption].
    apply good_loop with
      (I := fun st : N * bsr * cbs => let '(_, r2, c2) := st in RW r2 /\ dec (mu r c) (mu r2 c2) 0)
      (ms := fun st : N * bsr * cbs => let '(_, r2, c2) := st in mu r2 c2).
    - intros [[len r2] c2] [Hr2 Hd2]. unfold ln_rlv_step.
      destruct (read_bit_g r2 c2 Hr2) as (i & r3 & c3 & E3 & Hr3 & Hd3 & Hv3).
      rewrite E3. cbn [bind]. cbv beta iota. destruct i as [iv|].
      + destruct (iv =? 0); apply good_ok.
        * split; [exact Hr3|dec_solve].
        * split; [split; [exact Hr3|dec_solve]|dec_solve].
      + apply good_ok. split; [exact Hr3|dec_solve].
    - split; assumption.
    - change (2 ^ N.of_nat 30) with (2 ^ 30). dec_solve.
  Qed.

  Definition bytes (cl : arr) : Prop := forall j, aget cl j < 256.

  Lemma bytes_mk n : bytes (mk_arr n 0).
  Proof. intros j. rewrite aget_mk. lia. Qed.

  Lemma bytes_aset cl i v : bytes cl -> v < 256 -> bytes (aset cl i v).
  Proof. intros H Hv j. rewrite aget_aset. destruct (i =? j); [exact Hv|apply H]. Qed.

  Lemma u8_lt x : u8 x < 256.
  Proof. unfold u8. change 255 with (N.ones 8). rewrite N.land_ones. apply N.mod_lt. discriminate. Qed.

  Lemma ln_rtt_skip_S k cl i : ln_rtt_skip (S k) cl i = (cl' <- wr 712 cl (i + 1) 0 ;; ln_rtt_skip k cl' (i + 1)).
  Proof. reflexivity. Qed.

  Lemma ln_rtt_skip_ok k : forall cl i, i + N.of_nat k < alen cl -> bytes cl ->
    exists cl', ln_rtt_skip k cl i = Ok (cl', i + N.of_nat k) /\ alen cl' = alen cl /\ bytes cl'.
  Proof.
    induction k as [|k IH]; intros cl i Hi Hb.
    - exists cl. replace (i + N.of_nat 0) with i by lia. repeat split; auto.
    - rewrite ln_rtt_skip_S. rewrite wr_ok by lia. cbn [bind].
      destruct (IH (aset cl (i + 1) 0) (i + 1)) as (cl' & E & L & B).
      + rewrite alen_aset. lia.
      + apply bytes_aset; [exact Hb|lia].
      + exists cl'. replace (i + N.of_nat (S k)) with (i + 1 + N.of_nat k) by lia.
        split; [exact E|]. split; [rewrite L; apply alen_aset|exact B].
  Qed.

  Lemma ln_rtt_loop_eq fuel cl i n r c : ln_rtt_loop cb fuel cl i n r c =
    if i <? n then
      match fuel with
      | O => OutOfFuel
      | S f =>
        '(len, r1, c1) <- ln_read_length_value cb r c ;;
        match len with
        | None => Ok (None, r1, c1)
        | Some l =>
          cl1 <- wr 711 cl i (u8 l) ;;
          if i =? 2 then
            '(len2, r2, c2) <- read_bits cb r1 c1 2 ;;
            match len2 with
            | None => Ok (None, r2, c2)
            | Some k =>
              '(cl2, i2) <- ln_rtt_skip (N.to_nat k) cl1 i ;;
              ln_rtt_loop cb f cl2 (i2 + 1) n r2 c2
            end
          else ln_rtt_loop cb f cl1 (i + 1) n r1 c1
        end
      end
    else Ok (Some cl, r, c).
  Proof. destruct fuel; reflexivity. Qed.

  Definition tbl_post (r : bsr) (c : cbs) (ext : N) (x : option arr * bsr * cbs) : Prop :=
    let '(res, r', c') := x in
    RW r' /\ dec (mu r c) (mu r' c') 0 /\ forall cl, res = Some cl -> alen cl = ext /\ bytes cl.

  Lemma tbl_post_weaken r0 c0 r c ext x : dec (mu r0 c0) (mu r c) 0 -> tbl_post r c ext x -> tbl_post r0 c0 ext x.
  Proof. destruct x as [[res r'] c']. intros Hd (A & B & C). split; [exact A|]. split; [dec_solve|exact C]. Qed.

  Lemma ln_rtt_loop_g fuel : forall cl i n r c,
    RW r -> small (mu r c) -> alen cl = p_MAX_TEMP_CODES P -> bytes cl ->
    n <= p_MAX_TEMP_CODES P -> n <= i + N.of_nat fuel ->
    good (ln_rtt_loop cb fuel cl i n r c) (tbl_post r c (p_MAX_TEMP_CODES P)).
  Proof.
    pose proof (po_temp_min P HP) as Hmin.
    induction fuel as [|f IH]; intros cl i n r c Hr Hs Hl Hb Hn Hf; rewrite ln_rtt_loop_eq;
      (destruct (N.ltb_spec i n) as [Hlt|Hge];
       [|apply good_ok; split; [exact Hr|]; split; [dec_solve|]; intros cl' X; inversion X; subst; split; assumption]).
    - lia.
    - eapply good_bind; [apply ln_read_length_value_g; assumption|].
      intros [[len r1] c1] [Hr1 Hd1]. cbv beta iota.
      destruct len as [l|]; [|apply good_ok; split; [exact Hr1|]; split; [exact Hd1|]; intros cl' X; discriminate].
      rewrite wr_ok by lia. cbn [bind].
      assert (Hb1 : bytes (aset cl i (u8 l))) by (apply bytes_aset; [exact Hb|apply u8_lt]).
      assert (Hs1 : small (mu r1 c1)) by dec_solve.
      destruct (N.eqb_spec i 2) as [Ei|Ei].
      + destruct (read_bits_g r1 c1 2 Hr1) as (len2 & r2 & c2 & E2 & Hr2 & Hd2 & Hv2); [lia|].
        rewrite E2. cbn [bind]. cbv beta iota.
        destruct len2 as [k|]; [|apply good_ok; split; [exact Hr2|]; split; [dec_solve|]; intros cl' X; discriminate].
        destruct (Hv2 k eq_refl) as [Hk _]. change (2 ^ 2) with 4 in Hk.
        destruct (ln_rtt_skip_ok (N.to_nat k) (aset cl i (u8 l)) i) as (cl2 & E3 & L3 & B3);
          [rewrite alen_aset; lia|exact Hb1|].
        rewrite E3. cbn [bind]. cbv beta iota.
        eapply good_weaken; [apply IH|].
        * exact Hr2.
        * dec_solve.
        * rewrite L3, alen_aset. exact Hl.
        * exact B3.
        * exact Hn.
        * lia.
        * intros x Hx. eapply tbl_post_weaken; [|exact Hx]. dec_solve.
      + eapply good_weaken; [apply IH|].
        * exact Hr1.
        * exact Hs1.
        * rewrite alen_aset. exact Hl.
        * exact Hb1.
        * exact Hn.
        * lia.
        * intros x Hx. eapply tbl_post_weaken; [|exact Hx]. exact Hd1.
  Qed.

  (* the functions that rebuild one tree: (success flag, tree, reader, callback) *)
  Definition tree_post (r : bsr) (c : cbs) (t : arr) (len B : N) (x : bool * arr * bsr * cbs) : Prop :=
    let '(_, t', r', c') := x in
    RW r' /\ dec (mu r c) (mu r' c') 0 /\
    closed 32768 t' len /\ alen t' = alen t /\ leaf_bound 32768 t' len B.

  Lemma ln_read_temp_table_g t r c :
    RW r -> small (mu r c) -> closed 32768 t (p_MAX_TEMP_CODES P * 2) ->
    good (ln_read_temp_table cb P t r c) (tree_post r c t (p_MAX_TEMP_CODES P * 2) 32768).
  Proof.
    pose proof (po_temp_min P HP) as Hmin. pose proof (po_temp_max P HP) as Hmax.
    pose proof (po_temp_bits P HP) as Hbits.
    intros Hr Hs Hc. unfold ln_read_temp_table. rewrite ln_leaf_eq.
    assert (Hb0 : leaf_bound 32768 t (p_MAX_TEMP_CODES P * 2) 32768) by apply (leaf_bound_trivial 32768 15 HL).
    destruct (read_bits_g r c (p_TEMP_CODE_BITS P) Hr Hbits) as (n & r1 & c1 & E1 & Hr1 & Hd1 & Hv1).
    rewrite E1. cbn [bind]. cbv beta iota.
    destruct n as [nv|]; [|apply good_ok; split; [exact Hr1|]; split; [dec_solve|]; split; [exact Hc|]; split; [reflexivity|exact Hb0]].
    destruct (N.eqb_spec nv 0) as [En|En].
    - destruct (read_bits_g r1 c1 5 Hr1) as (code & r2 & c2 & E2 & Hr2 & Hd2 & Hv2); [lia|].
      rewrite E2. cbn [bind]. cbv beta iota.
      destruct code as [cv|]; [|apply good_ok; split; [exact Hr2|]; split; [dec_solve|]; split; [exact Hc|]; split; [reflexivity|exact Hb0]].
      destruct (set_tree_single_closed 32768 15 HL t _ cv Hc) as (t' & E3 & C3 & L3); [lia|].
      rewrite E3. cbn [bind]. apply good_ok.
      split; [exact Hr2|]. split; [dec_solve|]. split; [exact C3|]. split; [exact L3|].
      apply (leaf_bound_trivial 32768 15 HL).
    - set (nv' := if p_MAX_TEMP_CODES P <? nv then p_MAX_TEMP_CODES P else nv).
      assert (Hnv : nv' <= p_MAX_TEMP_CODES P) by (unfold nv'; destruct (N.ltb_spec (p_MAX_TEMP_CODES P) nv); lia).
      eapply good_bind.
      { apply ln_rtt_loop_g with (n := nv'); try assumption.
        - dec_solve.
        - reflexivity.
        - apply bytes_mk.
        - lia. }
      intros [[cl r2] c2] (Hr2 & Hd2 & Hcl). cbv beta iota.
      destruct cl as [cl'|]; [|apply good_ok; split; [exact Hr2|]; split; [dec_solve|]; split; [exact Hc|]; split; [reflexivity|exact Hb0]].
      destruct (Hcl cl' eq_refl) as [Lcl Bcl].
      destruct (build_tree_closed 32768 15 HL t (p_MAX_TEMP_CODES P * 2) cl' nv' Hc) as (t' & E3 & C3 & L3);
        [lia|lia|lia|intros i _; apply Bcl|].
      rewrite E3. cbn [bind]. apply good_ok.
      split; [exact Hr2|]. split; [dec_solve|]. split; [exact C3|]. split; [exact L3|].
      apply (leaf_bound_trivial 32768 15 HL).
  Qed.
  Lemma ln_read_skip_count_ok r c sr : RW r ->
    exists res r' c', ln_read_skip_count cb r c sr = Ok (res, r', c') /\ RW r' /\
      dec (mu r c) (mu r' c') 0 /\ (forall k, res = Some k -> 1 <= k).
  Proof.
    intros Hr. unfold ln_read_skip_count.
    destruct (sr =? 0).
    { exists (Some 1), r, c. split; [reflexivity|]. split; [exact Hr|]. split; [dec_solve|].
      intros k X. inversion X. lia. }
    destruct (sr =? 1).
    - destruct (read_bits_g r c 4 Hr) as (res & r1 & c1 & E & Hr1 & Hd1 & _); [lia|].
      rewrite E. cbn [bind]. cbv beta iota. destruct res as [v|].
      + eexists _, r1, c1. split; [reflexivity|]. split; [exact Hr1|]. split; [exact Hd1|].
        intros k X. inversion X. lia.
      + exists None, r1, c1. split; [reflexivity|]. split; [exact Hr1|]. split; [exact Hd1|].
        intros k X. discriminate.
    - destruct (read_bits_g r c 9 Hr) as (res & r1 & c1 & E & Hr1 & Hd1 & _); [lia|].
      rewrite E. cbn [bind]. cbv beta iota. destruct res as [v|].
      + eexists _, r1, c1. split; [reflexivity|]. split; [exact Hr1|]. split; [exact Hd1|].
        intros k X. inversion X. lia.
      + exists None, r1, c1. split; [reflexivity|]. split; [exact Hr1|]. split; [exact Hd1|].
        intros k X. discriminate.
  Qed.

  Lemma ln_rct_skip_S k cl i n : ln_rct_skip (S k) cl i n =
    if i <? n then cl' <- wr 721 cl i 0 ;; ln_rct_skip k cl' (i + 1) n else Ok (cl, i).
  Proof. reflexivity. Qed.

  (* zero runs stop at n *)
  Lemma ln_rct_skip_ok k : forall cl i n, n <= alen cl -> bytes cl -> i <= n ->
    exists cl' i', ln_rct_skip k cl i n = Ok (cl', i') /\ alen cl' = alen cl /\ bytes cl' /\
      i <= i' /\ i' <= n /\ ((0 < k)%nat -> i < n -> i < i').
  Proof.
    induction k as [|k IH]; intros cl i n Hn Hb Hi.
    - exists cl, i. split; [reflexivity|]. repeat split; auto; lia.
    - rewrite ln_rct_skip_S. destruct (N.ltb_spec i n) as [Hlt|Hge].
      + rewrite wr_ok by lia. cbn [bind].
        destruct (IH (aset cl i 0) (i + 1) n) as (cl' & i' & E & L & B & H1 & H2 & _).
        * rewrite alen_aset. exact Hn.
        * apply bytes_aset; [exact Hb|lia].
        * lia.
        * exists cl', i'. split; [exact E|]. split; [rewrite L; apply alen_aset|]. split; [exact B|].
          split; [lia|]. split; [exact H2|]. intros _ _. lia.
      + exists cl, i. split; [reflexivity|]. repeat split; auto; lia.
  Qed.

  Definition rct_inv (r0 : bsr) (c0 : cbs) (n : N) (st : arr * N * bsr * cbs) : Prop :=
    let '(cl, i, r, c) := st in
    alen cl = p_NUM_CODES P /\ bytes cl /\ i <= n /\ RW r /\ dec (mu r0 c0) (mu r c) 0.
  Definition rct_ms (n : N) (st : arr * N * bsr * cbs) : N :=
    let '(_, i, _, _) := st in n - i.

  Lemma ln_rct_step_ok tmpt n r0 c0 : closed 32768 tmpt (p_MAX_TEMP_CODES P * 2) -> n <= p_NUM_CODES P ->
    forall st, rct_inv r0 c0 n st -> exists x, ln_rct_step cb P tmpt n st = Ok x /\
      match x with
      | inl st' => rct_inv r0 c0 n st' /\ rct_ms n st' < rct_ms n st
      | inr res => tbl_post r0 c0 (p_NUM_CODES P) res
      end.
  Proof.
    pose proof (po_temp_min P HP) as Hmin. pose proof (po_temp_max P HP) as Hmax.
    intros Hc Hn [[[cl i] r] c] (Hl & Hb & Hi & Hr & Hd). unfold ln_rct_step. rewrite ln_leaf_eq.
    destruct (N.ltb_spec i n) as [Hlt|Hge].
    2:{ eexists. split; [reflexivity|]. split; [exact Hr|]. split; [exact Hd|].
        intros cl' X. inversion X; subst. split; assumption. }
    destruct (tree_walk_g tmpt (p_MAX_TEMP_CODES P * 2) 32768 r c Hr Hc) as (code & r1 & c1 & E1 & Hr1 & Hd1 & _);
      [lia|lia|apply (leaf_bound_trivial 32768 15 HL)|].
    rewrite E1. cbn [bind]. cbv beta iota.
    destruct code as [cv|].
    2:{ eexists. split; [reflexivity|]. split; [exact Hr1|]. split; [dec_solve|]. intros cl' X. discriminate. }
    destruct (cv <=? 2).
    - destruct (ln_read_skip_count_ok r1 c1 cv Hr1) as (sk & r2 & c2 & E2 & Hr2 & Hd2 & Hk).
      rewrite E2. cbn [bind]. cbv beta iota.
      destruct sk as [k|].
      2:{ eexists. split; [reflexivity|]. split; [exact Hr2|]. split; [dec_solve|]. intros cl' X. discriminate. }
      specialize (Hk k eq_refl).
      destruct (ln_rct_skip_ok (N.to_nat k) cl i n) as (cl' & i' & E3 & L3 & B3 & H1 & H2 & H3); [lia|exact Hb|lia|].
      rewrite E3. cbn [bind]. cbv beta iota.
      eexists. split; [reflexivity|]. cbv beta iota. unfold rct_inv, rct_ms.
      split; [|assert (i < i') by (apply H3; lia); lia].
      split; [congruence|]. split; [exact B3|]. split; [exact H2|]. split; [exact Hr2|dec_solve].
    - rewrite wr_ok by lia. cbn [bind].
      eexists. split; [reflexivity|]. cbv beta iota. unfold rct_inv, rct_ms.
      split; [|lia].
      split; [rewrite alen_aset; exact Hl|]. split; [apply bytes_aset; [exact Hb|apply u8_lt]|].
      split; [lia|]. split; [exact Hr1|dec_solve].
  Qed.

  (* read_code_table: n > NUM_CODES is clamped, zero runs clamp at n, stored
     lengths are bytes; the rebuilt tree holds symbols below 512 *)
  Lemma ln_read_code_table_ok tmpt ct r c :
    RW r -> closed 32768 tmpt (p_MAX_TEMP_CODES P * 2) ->
    closed 32768 ct (p_NUM_CODES P * 2) -> leaf_bound 32768 ct (p_NUM_CODES P * 2) 512 ->
    exists x, ln_read_code_table cb P tmpt ct r c = Ok x /\ tree_post r c ct (p_NUM_CODES P * 2) 512 x.
  Proof.
    pose proof (po_codes_min P HP) as Hmin. pose proof (po_codes_max P HP) as Hmax.
    intros Hr Hct Hc Hb. unfold ln_read_code_table. rewrite ln_leaf_eq.
    destruct (read_bits_g r c 9 Hr) as (n & r1 & c1 & E1 & Hr1 & Hd1 & Hv1); [lia|].
    rewrite E1. cbn [bind]. cbv beta iota.
    destruct n as [nv|].
    2:{ eexists. split; [reflexivity|]. split; [exact Hr1|]. split; [exact Hd1|]. split; [exact Hc|]. split; [reflexivity|exact Hb]. }
    destruct (N.eqb_spec nv 0) as [En|En].
    - destruct (read_bits_g r1 c1 9 Hr1) as (code & r2 & c2 & E2 & Hr2 & Hd2 & Hv2); [lia|].
      rewrite E2. cbn [bind]. cbv beta iota.
      destruct code as [cv|].
      2:{ eexists. split; [reflexivity|]. split; [exact Hr2|]. split; [dec_solve|]. split; [exact Hc|]. split; [reflexivity|exact Hb]. }
      destruct (Hv2 cv eq_refl) as [Hcv _]. change (2 ^ 9) with 512 in Hcv.
      destruct (set_tree_single_bound 32768 15 HL ct _ 512 cv Hc) as (t' & E3 & C3 & L3 & B3); [lia|exact Hb|lia|lia|].
      rewrite E3. cbn [bind]. eexists. split; [reflexivity|].
      split; [exact Hr2|]. split; [dec_solve|]. split; [exact C3|]. split; [exact L3|exact B3].
    - set (nv' := if p_NUM_CODES P <? nv then p_NUM_CODES P else nv).
      assert (Hnv : nv' <= p_NUM_CODES P) by (unfold nv'; destruct (N.ltb_spec (p_NUM_CODES P) nv); lia).
      destruct (loop_total_ok (ln_rct_step cb P tmpt nv') (rct_inv r1 c1 nv') (tbl_post r1 c1 (p_NUM_CODES P))
                  (rct_ms nv') 10 (ln_rct_step_ok tmpt nv' r1 c1 Hct Hnv) (mk_arr (p_NUM_CODES P) 0, 0, r1, c1))
        as ([[cl r2] c2] & E2 & Hr2 & Hd2 & Hcl).
      + split; [reflexivity|]. split; [apply bytes_mk|]. split; [lia|]. split; [exact Hr1|dec_solve].
      + unfold rct_ms. change (2 ^ N.of_nat 10) with 1024. lia.
      + rewrite E2. cbn [bind]. cbv beta iota.
        destruct cl as [cl'|].
        2:{ eexists. split; [reflexivity|]. split; [exact Hr2|]. split; [dec_solve|]. split; [exact Hc|]. split; [reflexivity|exact Hb]. }
        destruct (Hcl cl' eq_refl) as [Lcl Bcl].
        destruct (build_tree_bound 32768 15 HL ct (p_NUM_CODES P * 2) cl' nv' 512 Hc Hb) as (t' & E3 & C3 & L3 & B3);
          [lia|lia|lia|lia|lia|intros i _; apply Bcl|].
        rewrite E3. cbn [bind]. eexists. split; [reflexivity|].
        split; [exact Hr2|]. split; [dec_solve|]. split; [exact C3|]. split; [exact L3|exact B3].
  Qed.

  Lemma ln_rot_loop_S k cl i r c : ln_rot_loop cb (S k) cl i r c =
    ('(len, r1, c1) <- ln_read_length_value cb r c ;;
     match len with
     | None => Ok (None, r1, c1)
     | Some l => cl' <- wr 731 cl i (u8 l) ;; ln_rot_loop cb k cl' (i + 1) r1 c1
     end).
  Proof. reflexivity. Qed.

  Lemma ln_rot_loop_g k : forall cl i r c,
    RW r -> small (mu r c) -> alen cl = p_MAX_OFFSET_CODES P -> bytes cl ->
    i + N.of_nat k <= p_MAX_OFFSET_CODES P ->
    good (ln_rot_loop cb k cl i r c) (tbl_post r c (p_MAX_OFFSET_CODES P)).
  Proof.
    induction k as [|k IH]; intros cl i r c Hr Hs Hl Hb Hi.
    - apply good_ok. split; [exact Hr|]. split; [dec_solve|]. intros cl' X. inversion X; subst. split; assumption.
    - rewrite ln_rot_loop_S.
      eapply good_bind; [apply ln_read_length_value_g; assumption|].
      intros [[len r1] c1] [Hr1 Hd1]. cbv beta iota.
      destruct len as [l|]; [|apply good_ok; split; [exact Hr1|]; split; [exact Hd1|]; intros cl' X; discriminate].
      rewrite wr_ok by lia. cbn [bind].
      eapply good_weaken; [apply IH|].
      + exact Hr1.
      + dec_solve.
      + rewrite alen_aset. exact Hl.
      + apply bytes_aset; [exact Hb|apply u8_lt].
      + lia.
      + intros x Hx. eapply tbl_post_weaken; [|exact Hx]. exact Hd1.
  Qed.

  Lemma offb_le : offb P <= 64.
  Proof. unfold offb. destruct (p_lhark P); lia. Qed.

  Lemma ln_read_offset_table_g ot r c :
    RW r -> small (mu r c) -> closed 32768 ot (p_MAX_OFFSET_CODES P * 2) ->
    leaf_bound 32768 ot (p_MAX_OFFSET_CODES P * 2) (offb P) ->
    good (ln_read_offset_table cb P ot r c) (tree_post r c ot (p_MAX_OFFSET_CODES P * 2) (offb P)).
  Proof.
    pose proof (po_off_min P HP) as Hmin. pose proof (po_off_max P HP) as Hmax.
    pose proof (po_off_bits P HP) as Hbits. pose proof (po_off_single P HP) as Hsingle.
    pose proof offb_le as Hob.
    intros Hr Hs Hc Hb. unfold ln_read_offset_table. rewrite ln_leaf_eq.
    destruct (read_bits_g r c (p_OFFSET_BITS P) Hr Hbits) as (n & r1 & c1 & E1 & Hr1 & Hd1 & Hv1).
    rewrite E1. cbn [bind]. cbv beta iota.
    destruct n as [nv|]; [|apply good_ok; split; [exact Hr1|]; split; [dec_solve|]; split; [exact Hc|]; split; [reflexivity|exact Hb]].
    destruct (N.eqb_spec nv 0) as [En|En].
    - destruct (read_bits_g r1 c1 (p_OFFSET_BITS P) Hr1 Hbits) as (code & r2 & c2 & E2 & Hr2 & Hd2 & Hv2).
      rewrite E2. cbn [bind]. cbv beta iota.
      destruct code as [cv|]; [|apply good_ok; split; [exact Hr2|]; split; [dec_solve|]; split; [exact Hc|]; split; [reflexivity|exact Hb]].
      destruct (Hv2 cv eq_refl) as [Hcv _].
      destruct (set_tree_single_bound 32768 15 HL ot _ (offb P) cv Hc) as (t' & E3 & C3 & L3 & B3); [lia|exact Hb|lia|lia|].
      rewrite E3. cbn [bind]. apply good_ok.
      split; [exact Hr2|]. split; [dec_solve|]. split; [exact C3|]. split; [exact L3|exact B3].
    - set (nv' := if p_MAX_OFFSET_CODES P <? nv then p_MAX_OFFSET_CODES P else nv).
      assert (Hnv : nv' <= p_MAX_OFFSET_CODES P) by (unfold nv'; destruct (N.ltb_spec (p_MAX_OFFSET_CODES P) nv); lia).
      eapply good_bind.
      { apply ln_rot_loop_g; try assumption.
        - dec_solve.
        - reflexivity.
        - apply bytes_mk.
        - lia. }
      intros [[cl r2] c2] (Hr2 & Hd2 & Hcl). cbv beta iota.
      destruct cl as [cl'|]; [|apply good_ok; split; [exact Hr2|]; split; [dec_solve|]; split; [exact Hc|]; split; [reflexivity|exact Hb]].
      destruct (Hcl cl' eq_refl) as [Lcl Bcl].
      destruct (build_tree_bound 32768 15 HL ot (p_MAX_OFFSET_CODES P * 2) cl' nv' (offb P) Hc Hb) as (t' & E3 & C3 & L3 & B3);
        [lia|lia|lia|lia|lia|intros i _; apply Bcl|].
      rewrite E3. cbn [bind]. apply good_ok.
      split; [exact Hr2|]. split; [dec_solve|]. split; [exact C3|]. split; [exact L3|exact B3].
  Qed.
  (* start_new_block: every part keeps the invariant; success consumed 16 bits *)
  Definition snb_post (s : lhnew_state) (c : cbs) (x : bool * lhnew_state * cbs) : Prop :=
    let '(ok, s', c') := x in
    lhnew_inv_gen RW P s' /\ dec (mu (ln_bsr s) c) (mu (ln_bsr s') c') 0 /\
    (ok = true -> dec (mu (ln_bsr s) c) (mu (ln_bsr s') c') 16).

  Lemma ln_start_new_block_g s c : lhnew_inv_gen RW P s -> small (mu (ln_bsr s) c) ->
    good (ln_start_new_block cb P s c) (snb_post s c).
  Proof.
    intros Hinv Hs.
    pose proof Hinv as (Hr & Hring & Hpos & Hbr & (Lt & Ct) & (Lc & Cc & Bc) & (Lo & Co & Bo)).
    unfold ln_start_new_block.
    destruct (read_bits_g (ln_bsr s) c 16 Hr) as (len & r1 & c1 & E1 & Hr1 & Hd1 & Hv1); [lia|].
    rewrite E1. cbn [bind]. cbv beta iota.
    destruct len as [l|].
    2:{ apply good_ok. unfold snb_post. split; [inv_split; assumption|]. ln_simpl.
        split; [exact Hd1|intros X; discriminate]. }
    destruct (Hv1 l eq_refl) as [Hl Hd16]. change (2 ^ 16) with 65536 in Hl.
    cbv zeta. ln_simpl.
    eapply good_bind; [apply (ln_read_temp_table_g (ln_temp_tree s) r1 c1 Hr1); [dec_solve|exact Ct]|].
    intros [[[ok2 tmpt] r2] c2] (Hr2 & Hd2 & Ct2 & Lt2 & _). cbv beta iota.
    destruct ok2; cbn [negb].
    2:{ apply good_ok. unfold snb_post. split; [inv_split; try assumption; congruence|]. ln_simpl.
        split; [dec_solve|intros X; discriminate]. }
    destruct (ln_read_code_table_ok tmpt (ln_code_tree s) r2 c2 Hr2 Ct2 Cc Bc)
      as ([[[ok3 ct] r3] c3] & E3 & Hr3 & Hd3 & Cc3 & Lc3 & Bc3).
    rewrite E3. cbn [bind]. cbv beta iota.
    destruct ok3; cbn [negb].
    2:{ apply good_ok. unfold snb_post. split; [inv_split; try assumption; congruence|]. ln_simpl.
        split; [dec_solve|intros X; discriminate]. }
    eapply good_bind; [apply (ln_read_offset_table_g (ln_offset_tree s) r3 c3 Hr3); [dec_solve|exact Co|exact Bo]|].
    intros [[[ok4 ot] r4] c4] (Hr4 & Hd4 & Co4 & Lo4 & Bo4). cbv beta iota.
    destruct ok4; cbn [negb]; apply good_ok; unfold snb_post.
    - split; [inv_split; try assumption; congruence|]. ln_simpl. split; [dec_solve|intros _; dec_solve].
    - split; [inv_split; try assumption; congruence|]. ln_simpl. split; [dec_solve|intros X; discriminate].
  Qed.

  (* read_offset_code: the symbol from the offset tree is below offb, so the
     shift counts stay defined (sites 741, 742) *)
  Lemma ln_lhark_read_offset_code_ok r c code : RW r -> code < 66 ->
    exists x, ln_lhark_read_offset_code cb r c code = Ok x /\ rb_post r c x.
  Proof.
    intros Hr Hc. unfold ln_lhark_read_offset_code.
    destruct (code <? 4).
    { eexists. split; [reflexivity|]. split; [exact Hr|dec_solve]. }
    cbv zeta. destruct (N.ltb_spec 31 ((code - 2) / 2)) as [H|H]; [lia|].
    destruct (read_bits_g r c ((code - 2) / 2) Hr) as (lb & r1 & c1 & E & Hr1 & Hd1 & _); [lia|].
    rewrite E. cbn [bind]. cbv beta iota.
    destruct lb as [lb|]; eexists; (split; [reflexivity|]); split; assumption.
  Qed.

  Lemma ln_read_offset_code_ok ot r c :
    RW r -> closed 32768 ot (p_MAX_OFFSET_CODES P * 2) ->
    leaf_bound 32768 ot (p_MAX_OFFSET_CODES P * 2) (offb P) ->
    exists x, ln_read_offset_code cb P ot r c = Ok x /\ rb_post r c x.
  Proof.
    pose proof (po_off_min P HP) as Hmin. pose proof (po_off_max P HP) as Hmax. pose proof offb_le as Hob.
    intros Hr Hc Hb. unfold ln_read_offset_code. rewrite ln_leaf_eq.
    destruct (tree_walk_g ot (p_MAX_OFFSET_CODES P * 2) (offb P) r c Hr Hc) as (bits & r1 & c1 & E1 & Hr1 & Hd1 & Hv1);
      [lia|lia|exact Hb|].
    rewrite E1. cbn [bind]. cbv beta iota.
    destruct bits as [b|].
    2:{ eexists. split; [reflexivity|]. split; assumption. }
    specialize (Hv1 b eq_refl).
    destruct (b =? 0). { eexists. split; [reflexivity|]. split; assumption. }
    destruct (b =? 1). { eexists. split; [reflexivity|]. split; assumption. }
    unfold offb in Hv1. destruct (p_lhark P).
    - destruct (ln_lhark_read_offset_code_ok r1 c1 b Hr1) as ([[res r2] c2] & E2 & Hr2 & Hd2); [lia|].
      rewrite E2. eexists. split; [reflexivity|]. split; [exact Hr2|dec_solve].
    - destruct (N.ltb_spec 30 (b - 1)) as [H|H]; [lia|].
      destruct (read_bits_g r1 c1 (b - 1) Hr1) as (res & r2 & c2 & E2 & Hr2 & Hd2 & _); [lia|].
      rewrite E2. cbn [bind]. cbv beta iota.
      destruct res as [v|]; eexists; (split; [reflexivity|]); (split; [exact Hr2|dec_solve]).
  Qed.

  (* output_byte / copy_from_history: output buffer and ring stay in bounds *)
  Lemma ln_ring_mod_lt x : ln_ring_mod P x < p_RING_BUFFER_SIZE P.
  Proof.
    unfold ln_ring_mod. rewrite (po_ring_pow P HP).
    replace (2 ^ p_HISTORY_BITS P - 1) with (N.ones (p_HISTORY_BITS P)) by (rewrite N.ones_equiv; lia).
    rewrite N.land_ones. apply N.mod_lt. apply N.pow_nonzero. lia.
  Qed.

  Definition obwf (o : obuf) : Prop := nlen (ob_rev o) = ob_len o.

  Lemma ln_output_byte_ok s o b : lhnew_inv_gen RW P s -> ob_len o < p_max_read P -> obwf o ->
    exists s' o', ln_output_byte P s o b = Ok (s', o') /\ lhnew_inv_gen RW P s' /\ ln_bsr s' = ln_bsr s /\
      ob_len o' = ob_len o + 1 /\ obwf o'.
  Proof.
    pose proof (po_ring_ext P HP) as Hext.
    intros Hinv Ho Hw.
    pose proof Hinv as (Hr & Hring & Hpos & Hbr & (Lt & Ct) & (Lc & Cc & Bc) & (Lo & Co & Bo)).
    unfold ln_output_byte, ob_push.
    destruct (N.ltb_spec (ob_len o) (p_max_read P)) as [_|]; [|lia]. cbn [bind].
    rewrite wr_ok by lia. cbn [bind].
    eexists _, _. split; [reflexivity|].
    split; [inv_split; try assumption; apply ln_ring_mod_lt|].
    split; [reflexivity|]. split; [reflexivity|].
    unfold obwf in *. cbn [ob_rev ob_len]. rewrite nlen_cons. lia.
  Qed.

  Lemma ln_cfh_loop_S k s o start i : ln_cfh_loop P (S k) s o start i =
    (b <- rd 753 (ln_ring s) (ln_ring_mod P (u32 (start + i))) ;;
     '(s', o') <- ln_output_byte P s o b ;;
     ln_cfh_loop P k s' o' start (i + 1)).
  Proof. reflexivity. Qed.

  Lemma ln_cfh_loop_ok k : forall s o start i,
    lhnew_inv_gen RW P s -> ob_len o + N.of_nat k <= p_max_read P -> obwf o ->
    exists s' o', ln_cfh_loop P k s o start i = Ok (s', o') /\ lhnew_inv_gen RW P s' /\ ln_bsr s' = ln_bsr s /\
      ob_len o' = ob_len o + N.of_nat k /\ obwf o'.
  Proof.
    pose proof (po_ring_ext P HP) as Hext.
    induction k as [|k IH]; intros s o start i Hinv Ho Hw.
    - exists s, o. split; [reflexivity|]. split; [exact Hinv|]. split; [reflexivity|]. split; [lia|exact Hw].
    - rewrite ln_cfh_loop_S.
      pose proof Hinv as (_ & Hring & _).
      pose proof (ln_ring_mod_lt (u32 (start + i))) as Hm.
      rewrite rd_ok by lia. cbn [bind].
      destruct (ln_output_byte_ok s o (aget (ln_ring s) (ln_ring_mod P (u32 (start + i)))) Hinv)
        as (s1 & o1 & E1 & Hinv1 & Hb1 & Hl1 & Hw1); [lia|exact Hw|].
      rewrite E1. cbn [bind]. cbv beta iota.
      destruct (IH s1 o1 start (i + 1) Hinv1) as (s' & o' & E & Hinv' & Hb' & Hl' & Hw'); [lia|exact Hw1|].
      exists s', o'. split; [exact E|]. split; [exact Hinv'|]. split; [congruence|]. split; [lia|exact Hw'].
  Qed.

  Lemma inv_set_bsr s r : lhnew_inv_gen RW P s -> RW r -> lhnew_inv_gen RW P (ln_set_bsr s r).
  Proof.
    intros (Hr & Hring & Hpos & Hbr & (Lt & Ct) & (Lc & Cc & Bc) & (Lo & Co & Bo)) Hr'.
    inv_split; assumption.
  Qed.

  Lemma ln_copy_from_history_ok s o c count :
    lhnew_inv_gen RW P s -> ob_len o + count <= p_max_read P -> obwf o ->
    exists s' o' c', ln_copy_from_history cb P s o c count = Ok (s', o', c') /\ lhnew_inv_gen RW P s' /\
      dec (mu (ln_bsr s) c) (mu (ln_bsr s') c') 0 /\ ob_len o' <= ob_len o + count /\ obwf o'.
  Proof.
    intros Hinv Ho Hw.
    pose proof Hinv as (Hr & Hring & Hpos & Hbr & (Lt & Ct) & (Lc & Cc & Bc) & (Lo & Co & Bo)).
    unfold ln_copy_from_history.
    destruct (ln_read_offset_code_ok (ln_offset_tree s) (ln_bsr s) c Hr Co Bo) as ([[offset r1] c1] & E1 & Hr1 & Hd1).
    rewrite E1. cbn [bind]. cbv beta iota zeta.
    pose proof (inv_set_bsr s r1 Hinv Hr1) as Hinv1.
    destruct offset as [off|].
    2:{ eexists _, _, _. split; [reflexivity|]. split; [exact Hinv1|]. ln_simpl. split; [exact Hd1|]. split; [lia|exact Hw]. }
    match goal with |- context [ln_cfh_loop P ?k ?s1 o ?st 0] =>
      destruct (ln_cfh_loop_ok k s1 o st 0 Hinv1) as (s2 & o2 & E2 & Hinv2 & Hb2 & Hl2 & Hw2); [lia|exact Hw|] end.
    rewrite E2. cbn [bind]. cbv beta iota.
    eexists _, _, _. split; [reflexivity|]. split; [exact Hinv2|]. rewrite Hb2. ln_simpl.
    split; [exact Hd1|]. split; [lia|exact Hw2].
  Qed.

  (* LHARK copy counts are at most 514 *)
  Lemma ln_lhark_decode_copy_count_ok r c code : RW r -> p_lhark P = true -> 256 <= code ->
    exists res r' c', ln_lhark_decode_copy_count cb P r c code = Ok (res, r', c') /\ RW r' /\
      dec (mu r c) (mu r' c') 0 /\ (forall cc, res = Some cc -> cc <= p_max_read P).
  Proof.
    pose proof (po_copy_max P HP) as Hcm. pose proof (po_copy_lhark P HP) as Hcl.
    intros Hr Hlh Hcode. specialize (Hcl Hlh). unfold ln_lhark_decode_copy_count.
    destruct (N.ltb_spec code 264) as [H1|H1].
    { eexists _, r, c. split; [reflexivity|]. split; [exact Hr|]. split; [dec_solve|].
      intros cc X. inversion X. lia. }
    destruct (N.ltb_spec code 288) as [H2|H2].
    2:{ eexists _, r, c. split; [reflexivity|]. split; [exact Hr|]. split; [dec_solve|].
        intros cc X. inversion X. lia. }
    cbv zeta.
    assert (Hn : (code - 260) / 4 <= 6) by lia.
    destruct (read_bits_g r c ((code - 260) / 4) Hr) as (lb & r1 & c1 & E & Hr1 & Hd1 & Hv); [lia|].
    rewrite E. cbn [bind]. cbv beta iota.
    destruct lb as [lb|].
    2:{ exists None, r1, c1. split; [reflexivity|]. split; [exact Hr1|]. split; [exact Hd1|]. intros cc X. discriminate. }
    eexists _, r1, c1. split; [reflexivity|]. split; [exact Hr1|]. split; [exact Hd1|].
    intros cc X. injection X as <-. destruct (Hv lb eq_refl) as [Hlb _].
    change (N.shiftl (4 + code mod 4) ((code - 260) / 4) + lb + 3 <= p_max_read P).
    rewrite N.shiftl_mul_pow2.
    assert (Hp : 2 ^ ((code - 260) / 4) <= 2 ^ 6) by (apply N.pow_le_mono_r; [lia|exact Hn]).
    change (2 ^ 6) with 64 in Hp.
    assert (Hm : code mod 4 < 4) by (apply N.mod_lt; lia).
    set (p := 2 ^ ((code - 260) / 4)) in *. set (q := code mod 4) in *.
    assert (Hmul : (4 + q) * p <= 7 * 64) by (apply N.mul_le_mono; lia).
    clear - Hmul Hlb Hp Hcl. lia.
  Qed.

  (* ---------------------------------------------------------------- *)
  (* 7. lha_lh_new_read                                                 *)

  Definition blk_inv (s0 : lhnew_state) (c0 : cbs) (st : lhnew_state * cbs) : Prop :=
    let '(s, c) := st in lhnew_inv_gen RW P s /\ dec (mu (ln_bsr s0) c0) (mu (ln_bsr s) c) 0.
  Definition blk_post (s0 : lhnew_state) (c0 : cbs) (x : bool * lhnew_state * cbs) : Prop :=
    let '(_, s, c) := x in lhnew_inv_gen RW P s /\ dec (mu (ln_bsr s0) c0) (mu (ln_bsr s) c) 0.
  Definition blk_ms (st : lhnew_state * cbs) : N := let '(s, c) := st in mu (ln_bsr s) c.

  Lemma ln_block_loop_g s c : lhnew_inv_gen RW P s -> small (mu (ln_bsr s) c) ->
    good (loop (ln_block_step cb P) 32 (s, c)) (blk_post s c).
  Proof.
    intros Hinv Hs.
    apply good_loop with (I := blk_inv s c) (ms := blk_ms).
    - intros [s1 c1] [Hinv1 Hd1]. unfold ln_block_step.
      destruct (ln_block_remaining s1 =? 0).
      + eapply good_bind; [apply ln_start_new_block_g; [exact Hinv1|dec_solve]|].
        intros [[ok s2] c2] (Hinv2 & Hd2 & Hok). cbv beta iota.
        destruct ok; apply good_ok.
        * specialize (Hok eq_refl). unfold blk_inv, blk_ms. split; [split; [exact Hinv2|dec_solve]|dec_solve].
        * split; [exact Hinv2|dec_solve].
      + apply good_ok. split; assumption.
    - split; [exact Hinv|dec_solve].
    - unfold blk_ms. change (2 ^ N.of_nat 32) with 4294967296. dec_solve.
  Qed.

  Lemma ob_bytes_nlen o : nlen (ob_bytes o) = nlen (ob_rev o).
  Proof. unfold ob_bytes. rewrite rev_append_rev, app_nil_r. apply nlen_rev. Qed.

  Definition read_post (s : lhnew_state) (c : cbs) (x : list N * lhnew_state * cbs) : Prop :=
    let '(ch, s', c') := x in
    nlen ch <= p_max_read P /\ lhnew_inv_gen RW P s' /\ dec (mu (ln_bsr s) c) (mu (ln_bsr s') c') 0.

  Lemma obwf_empty : obwf ob_empty.
  Proof. reflexivity. Qed.

  Theorem lhnew_read_g s c : lhnew_inv_gen RW P s -> small (mu (ln_bsr s) c) ->
    good (lhnew_read cb P s c) (read_post s c).
  Proof.
    pose proof (po_copy_max P HP) as Hcm. pose proof (po_copy_lhark P HP) as Hcl.
    pose proof (po_codes_min P HP) as Hmin. pose proof (po_codes_max P HP) as Hmax.
    intros Hinv Hs. unfold lhnew_read.
    eapply good_bind; [apply ln_block_loop_g; assumption|].
    intros [[ok s1] c1] (Hinv1 & Hd1). cbv beta iota.
    assert (Z : nlen (@nil N) <= p_max_read P) by (rewrite nlen_nil; lia).
    destruct ok; cbn [negb]; [|apply good_ok; split; [exact Z|]; split; assumption].
    cbv zeta. unfold ln_read_code. rewrite ln_leaf_eq.
    pose proof Hinv1 as (Hr & Hring & Hpos & Hbr & (Lt & Ct) & (Lc & Cc & Bc) & (Lo & Co & Bo)).
    match goal with |- context [read_from_tree 32768 cb ?t ?r c1] =>
      destruct (tree_walk_g t (p_NUM_CODES P * 2) 512 r c1 Hr Cc)
        as (code & r3 & c3 & E3 & Hr3 & Hd3 & Hv3); [lia|lia|exact Bc|] end.
    rewrite E3. cbn [bind]. cbv beta iota. ln_simpl_in Hd3.
    match goal with |- context [match code with Some _ => _ | None => Ok ([], ?s3, c3) end] =>
      assert (Hinv3 : lhnew_inv_gen RW P s3) by (inv_split; try assumption; lia); set (S3 := s3) in * end.
    assert (Hb3 : ln_bsr S3 = r3) by reflexivity.
    destruct code as [cv|].
    2:{ apply good_ok. split; [exact Z|]. split; [exact Hinv3|]. rewrite Hb3. dec_solve. }
    specialize (Hv3 cv eq_refl).
    destruct (N.ltb_spec cv 256) as [Hlt|Hge].
    - destruct (ln_output_byte_ok S3 ob_empty (u8 cv) Hinv3) as (s4 & o4 & E4 & Hinv4 & Hb4 & Hl4 & Hw4);
        [cbn [ob_empty ob_len]; lia|exact obwf_empty|].
      rewrite E4. cbn [bind]. cbv beta iota. apply good_ok.
      split; [rewrite ob_bytes_nlen, Hw4, Hl4; cbn [ob_empty ob_len]; lia|].
      split; [exact Hinv4|]. rewrite Hb4, Hb3. dec_solve.
    - destruct (p_lhark P) eqn:Elh.
      + destruct (ln_lhark_decode_copy_count_ok (ln_bsr S3) c3 cv) as (cc & r4 & c4 & E4 & Hr4 & Hd4 & Hcc);
          [rewrite Hb3; exact Hr3|exact Elh|lia|].
        rewrite E4. cbn [bind]. cbv beta iota.
        pose proof (inv_set_bsr S3 r4 Hinv3 Hr4) as Hinv4.
        destruct cc as [cc|].
        2:{ apply good_ok. split; [exact Z|]. split; [exact Hinv4|]. ln_simpl. rewrite Hb3 in Hd4. dec_solve. }
        specialize (Hcc cc eq_refl).
        destruct (ln_copy_from_history_ok (ln_set_bsr S3 r4) ob_empty c4 cc Hinv4)
          as (s5 & o5 & c5 & E5 & Hinv5 & Hd5 & Hl5 & Hw5); [cbn [ob_empty ob_len]; lia|exact obwf_empty|].
        rewrite E5. cbn [bind]. cbv beta iota. apply good_ok.
        split; [rewrite ob_bytes_nlen, Hw5; cbn [ob_empty ob_len] in Hl5; lia|].
        split; [exact Hinv5|]. revert Hd5. ln_simpl. intros Hd5. rewrite Hb3 in Hd4. dec_solve.
      + destruct (ln_copy_from_history_ok S3 ob_empty c3 (cv - 256 + p_COPY_THRESHOLD P) Hinv3)
          as (s5 & o5 & c5 & E5 & Hinv5 & Hd5 & Hl5 & Hw5); [cbn [ob_empty ob_len]; lia|exact obwf_empty|].
        rewrite E5. cbn [bind]. cbv beta iota. apply good_ok.
        split; [rewrite ob_bytes_nlen, Hw5; cbn [ob_empty ob_len] in Hl5; lia|].
        split; [exact Hinv5|]. rewrite Hb3 in Hd5. dec_solve.
  Qed.
End Safe.

(* ------------------------------------------------------------------ *)
(* 8. Initial state                                                     *)

Theorem lhnew_init_gen (RW : bsr -> Prop) P : RW bsr_init -> params_ok P ->
  exists s, lhnew_init P = Ok s /\ lhnew_inv_gen RW P s.
Proof.
  intros H0 HP. unfold lhnew_init, ln_leaf. rewrite (po_leaf P HP).
  pose proof (po_ring_ext P HP) as Hext. pose proof (po_ring_pow P HP) as Hpow.
  pose proof (po_temp_min P HP). pose proof (po_codes_min P HP). pose proof (po_off_min P HP).
  destruct (N.leb_spec (p_RING_BUFFER_SIZE P) (p_ringbuf_extent P)) as [_|H']; [|lia].
  destruct (init_tree_bound 32768 15 HL (mk_arr (p_code_tree_extent P) 0) (p_NUM_CODES P * 2) 512)
    as (ct & E1 & C1 & L1 & B1); [cbn [mk_arr alen]; rewrite (po_code_ext P HP); lia|lia|].
  rewrite E1. cbn [bind].
  destruct (init_tree_bound 32768 15 HL (mk_arr (p_offset_tree_extent P) 0) (p_MAX_OFFSET_CODES P * 2) (offb P))
    as (ot & E2 & C2 & L2 & B2); [cbn [mk_arr alen]; rewrite (po_off_ext P HP); lia|unfold offb; destruct (p_lhark P); lia|].
  rewrite E2. cbn [bind].
  destruct (init_tree_bound 32768 15 HL (mk_arr (p_temp_tree_extent P) 0) (p_MAX_TEMP_CODES P * 2) 1)
    as (tt & E3 & C3 & L3 & _); [cbn [mk_arr alen]; rewrite (po_temp_ext P HP); lia|lia|].
  rewrite E3. cbn [bind].
  eexists. split; [reflexivity|]. inv_split; try assumption; try reflexivity; try lia.
Qed.

Theorem lhnew_init_ok : forall P, params_ok P -> exists s, lhnew_init P = Ok s /\ lhnew_inv P s.
Proof. intros P HP. apply lhnew_init_gen; [apply bsr_init_wf|exact HP]. Qed.

(* reading a [good] fact without unfolding the computation it is about *)
Lemma good_true_inv {A} (x : outcome A) (Q R : A -> Prop) : (forall a, Q a -> R a) -> good true x Q ->
  match x with Ok a => R a | Fault _ => False | OutOfFuel => True end.
Proof. intros H. destruct x as [a| |]; cbn [good]; auto. Qed.

Lemma good_false_inv {A} (x : outcome A) (Q : A -> Prop) : good false x Q -> exists a, x = Ok a /\ Q a.
Proof. destruct x as [a| |]; cbn [good]; intros H; [eauto|destruct H|discriminate]. Qed.

(* ------------------------------------------------------------------ *)
(* 9. Main theorems                                                     *)

(* C09 for the lh_new family.  ANY callback that returns bytes, at most as
   many as it is asked for -- arbitrary data, arbitrary chunking, finite or
   not: lhnew_read never touches memory outside ringbuf, the three trees, the
   local code_lengths arrays, the reader's 4-byte buffer or the caller's
   buf[max_read]; when it returns, it returns at most max_read bytes and
   the invariant holds again. *)
Theorem lhnew_read_safe : forall P, params_ok P -> forall cbs (cb : callback cbs), cb_bounded cb ->
  forall s c, lhnew_inv P s ->
  match lhnew_read cb P s c with
  | Ok (ch, s', c') => nlen ch <= p_max_read P /\ lhnew_inv P s'
  | Fault _ => False
  | OutOfFuel => True
  end.
Proof.
  intros P HP cbs cb Hcb s c Hinv.
  assert (G : good true (lhnew_read cb P s c) (read_post true (fun _ => 0) bsr_wf P s c)).
  { apply lhnew_read_g; try assumption.
    - apply cb_bounded_len. exact Hcb.
    - exact bsr_wf_ok.
    - intros r c0 n. apply (read_bits_safe cb Hcb).
    - intros X. discriminate.
    - left. reflexivity. }
  refine (good_true_inv _ _ (fun p => let '(ch, s', c') := p in nlen ch <= p_max_read P /\ lhnew_inv P s') _ G).
  intros [[ch s'] c'] (A & B & _). split; assumption.
Qed.

Corollary lhnew_read_no_fault : forall P, params_ok P -> forall cbs (cb : callback cbs), cb_bounded cb ->
  forall s c, lhnew_inv P s -> no_fault (lhnew_read cb P s c).
Proof.
  intros P HP cbs cb Hcb s c Hinv site E.
  pose proof (lhnew_read_safe P HP cbs cb Hcb s c Hinv) as G. rewrite E in G. exact G.
Qed.

(* the same for callbacks that may deliver values above 255 (only the length
   of what they return is constrained); the reader's part of the invariant is
   then [bsr_ok] *)
Theorem lhnew_read_safe_len : forall P, params_ok P -> forall cbs (cb : callback cbs), cb_len_bounded cb ->
  forall s c, lhnew_inv_gen bsr_ok P s ->
  match lhnew_read cb P s c with
  | Ok (ch, s', c') => nlen ch <= p_max_read P /\ lhnew_inv_gen bsr_ok P s'
  | Fault _ => False
  | OutOfFuel => True
  end.
Proof.
  intros P HP cbs cb Hcb s c Hinv.
  assert (G : good true (lhnew_read cb P s c) (read_post true (fun _ => 0) bsr_ok P s c)).
  { apply lhnew_read_g; try assumption.
    - intros r H; exact H.
    - intros r c0 n. apply (read_bits_ok cb Hcb).
    - intros X. discriminate.
    - left. reflexivity. }
  refine (good_true_inv _ _ (fun p => let '(ch, s', c') := p in nlen ch <= p_max_read P /\ lhnew_inv_gen bsr_ok P s') _ G).
  intros [[ch s'] c'] (A & B & _). split; assumption.
Qed.

(* Termination.  read_length_value's "for (;;)" and lha_lh_new_read's
   "while (block_remaining == 0)" run until the input ends, so returning needs
   an input that ends: a measure [m] of the bytes the callback can still
   deliver.  The model's fuel covers inputs below 2^27 bytes. *)
Definition cb_finite {cbs} (cb : callback cbs) (m : cbs -> N) : Prop :=
  forall c n, m (snd (cb c n)) + nlen (fst (cb c n)) <= m c.

Theorem lhnew_read_total : forall P, params_ok P ->
  forall cbs (cb : callback cbs) (m : cbs -> N), cb_bounded cb -> cb_finite cb m ->
  forall s c, lhnew_inv P s -> bits (ln_bsr s) + 8 * m c < 2 ^ 30 ->
  exists ch s' c', lhnew_read cb P s c = Ok (ch, s', c') /\ nlen ch <= p_max_read P /\ lhnew_inv P s' /\
    bits (ln_bsr s') + 8 * m c' <= bits (ln_bsr s) + 8 * m c.
Proof.
  intros P HP cbs cb m Hcb Hfin s c Hinv Hm.
  assert (G : good false (lhnew_read cb P s c) (read_post false m bsr_wf P s c)).
  { apply lhnew_read_g; try assumption.
    - apply cb_bounded_len. exact Hcb.
    - exact bsr_wf_ok.
    - intros r c0 n. apply (read_bits_safe cb Hcb).
    - intros _. exact Hfin.
    - right. exact Hm. }
  destruct (good_false_inv _ _ G) as ([[ch s'] c'] & E & A & B & [C|C]); [discriminate|].
  exists ch, s', c'. split; [exact E|]. split; [exact A|]. split; [exact B|].
  unfold mu in C. lia.
Qed.

Theorem lhnew_read_total_len : forall P, params_ok P ->
  forall cbs (cb : callback cbs) (m : cbs -> N), cb_len_bounded cb -> cb_finite cb m ->
  forall s c, lhnew_inv_gen bsr_ok P s -> bits (ln_bsr s) + 8 * m c < 2 ^ 30 ->
  exists ch s' c', lhnew_read cb P s c = Ok (ch, s', c') /\ nlen ch <= p_max_read P /\
    lhnew_inv_gen bsr_ok P s' /\ bits (ln_bsr s') + 8 * m c' <= bits (ln_bsr s) + 8 * m c.
Proof.
  intros P HP cbs cb m Hcb Hfin s c Hinv Hm.
  assert (G : good false (lhnew_read cb P s c) (read_post false m bsr_ok P s c)).
  { apply lhnew_read_g; try assumption.
    - intros r H; exact H.
    - intros r c0 n. apply (read_bits_ok cb Hcb).
    - intros _. exact Hfin.
    - right. exact Hm. }
  destruct (good_false_inv _ _ G) as ([[ch s'] c'] & E & A & B & [C|C]); [discriminate|].
  exists ch, s', c'. split; [exact E|]. split; [exact A|]. split; [exact B|].
  unfold mu in C. lia.
Qed.

(* the list source of DecBase: what is left of the list is the measure *)
Lemma src_cb_len_bounded' : cb_len_bounded src_cb.
Proof.
  intros s n. unfold src_cb. destruct (src_chunks s); cbn [fst]; rewrite nlen_firstn_N; lia.
Qed.

Lemma src_cb_finite : cb_finite src_cb (fun s => nlen (src_data s)).
Proof.
  intros s n. unfold src_cb. destruct (src_chunks s); cbn [fst snd src_data];
    rewrite nlen_firstn_N, nlen_skipn_N; lia.
Qed.

Theorem lhnew_read_total_src : forall P, params_ok P -> forall s (c : src),
  lhnew_inv_gen bsr_ok P s -> bits (ln_bsr s) + 8 * nlen (src_data c) < 2 ^ 30 ->
  exists ch s' c', lhnew_read src_cb P s c = Ok (ch, s', c') /\ nlen ch <= p_max_read P /\
    lhnew_inv_gen bsr_ok P s' /\
    bits (ln_bsr s') + 8 * nlen (src_data c') <= bits (ln_bsr s) + 8 * nlen (src_data c).
Proof.
  intros P HP s c. apply (lhnew_read_total_len P HP src src_cb (fun s => nlen (src_data s)) src_cb_len_bounded' src_cb_finite).
Qed.

Lemma lhnew_inv_weaken P s : lhnew_inv P s -> lhnew_inv_gen bsr_ok P s.
Proof. intros (A & B). split; [apply bsr_wf_ok; exact A|exact B]. Qed.

(* ------------------------------------------------------------------ *)
(* 10. The six decoders                                                 *)

Corollary lh4_read_safe : forall cbs (cb : callback cbs), cb_bounded cb -> forall s c, lhnew_inv lh4_params s ->
  match lh4_read cb s c with
  | Ok (ch, s', c') => nlen ch <= lh4_max_read /\ lhnew_inv lh4_params s' | Fault _ => False | OutOfFuel => True end.
Proof. exact (lhnew_read_safe lh4_params lh4_params_ok). Qed.
Corollary lh5_read_safe : forall cbs (cb : callback cbs), cb_bounded cb -> forall s c, lhnew_inv lh5_params s ->
  match lh5_read cb s c with
  | Ok (ch, s', c') => nlen ch <= lh5_max_read /\ lhnew_inv lh5_params s' | Fault _ => False | OutOfFuel => True end.
Proof. exact (lhnew_read_safe lh5_params lh5_params_ok). Qed.
Corollary lh6_read_safe : forall cbs (cb : callback cbs), cb_bounded cb -> forall s c, lhnew_inv lh6_params s ->
  match lh6_read cb s c with
  | Ok (ch, s', c') => nlen ch <= lh6_max_read /\ lhnew_inv lh6_params s' | Fault _ => False | OutOfFuel => True end.
Proof. exact (lhnew_read_safe lh6_params lh6_params_ok). Qed.
Corollary lh7_read_safe : forall cbs (cb : callback cbs), cb_bounded cb -> forall s c, lhnew_inv lh7_params s ->
  match lh7_read cb s c with
  | Ok (ch, s', c') => nlen ch <= lh7_max_read /\ lhnew_inv lh7_params s' | Fault _ => False | OutOfFuel => True end.
Proof. exact (lhnew_read_safe lh7_params lh7_params_ok). Qed.
Corollary lhx_read_safe : forall cbs (cb : callback cbs), cb_bounded cb -> forall s c, lhnew_inv lhx_params s ->
  match lhx_read cb s c with
  | Ok (ch, s', c') => nlen ch <= lhx_max_read /\ lhnew_inv lhx_params s' | Fault _ => False | OutOfFuel => True end.
Proof. exact (lhnew_read_safe lhx_params lhx_params_ok). Qed.
Corollary lk7_read_safe : forall cbs (cb : callback cbs), cb_bounded cb -> forall s c, lhnew_inv lk7_params s ->
  match lk7_read cb s c with
  | Ok (ch, s', c') => nlen ch <= lk7_max_read /\ lhnew_inv lk7_params s' | Fault _ => False | OutOfFuel => True end.
Proof. exact (lhnew_read_safe lk7_params lk7_params_ok). Qed.

Corollary lh4_read_total : forall cbs (cb : callback cbs) m, cb_bounded cb -> cb_finite cb m ->
  forall s c, lhnew_inv lh4_params s -> bits (ln_bsr s) + 8 * m c < 2 ^ 30 ->
  exists ch s' c', lh4_read cb s c = Ok (ch, s', c') /\ nlen ch <= lh4_max_read /\ lhnew_inv lh4_params s' /\
    bits (ln_bsr s') + 8 * m c' <= bits (ln_bsr s) + 8 * m c.
Proof. exact (lhnew_read_total lh4_params lh4_params_ok). Qed.
Corollary lh5_read_total : forall cbs (cb : callback cbs) m, cb_bounded cb -> cb_finite cb m ->
  forall s c, lhnew_inv lh5_params s -> bits (ln_bsr s) + 8 * m c < 2 ^ 30 ->
  exists ch s' c', lh5_read cb s c = Ok (ch, s', c') /\ nlen ch <= lh5_max_read /\ lhnew_inv lh5_params s' /\
    bits (ln_bsr s') + 8 * m c' <= bits (ln_bsr s) + 8 * m c.
Proof. exact (lhnew_read_total lh5_params lh5_params_ok). Qed.
Corollary lh6_read_total : forall cbs (cb : callback cbs) m, cb_bounded cb -> cb_finite cb m ->
  forall s c, lhnew_inv lh6_params s -> bits (ln_bsr s) + 8 * m c < 2 ^ 30 ->
  exists ch s' c', lh6_read cb s c = Ok (ch, s', c') /\ nlen ch <= lh6_max_read /\ lhnew_inv lh6_params s' /\
    bits (ln_bsr s') + 8 * m c' <= bits (ln_bsr s) + 8 * m c.
Proof. exact (lhnew_read_total lh6_params lh6_params_ok). Qed.
Corollary lh7_read_total : forall cbs (cb : callback cbs) m, cb_bounded cb -> cb_finite cb m ->
  forall s c, lhnew_inv lh7_params s -> bits (ln_bsr s) + 8 * m c < 2 ^ 30 ->
  exists ch s' c', lh7_read cb s c = Ok (ch, s', c') /\ nlen ch <= lh7_max_read /\ lhnew_inv lh7_params s' /\
    bits (ln_bsr s') + 8 * m c' <= bits (ln_bsr s) + 8 * m c.
Proof. exact (lhnew_read_total lh7_params lh7_params_ok). Qed.
Corollary lhx_read_total : forall cbs (cb : callback cbs) m, cb_bounded cb -> cb_finite cb m ->
  forall s c, lhnew_inv lhx_params s -> bits (ln_bsr s) + 8 * m c < 2 ^ 30 ->
  exists ch s' c', lhx_read cb s c = Ok (ch, s', c') /\ nlen ch <= lhx_max_read /\ lhnew_inv lhx_params s' /\
    bits (ln_bsr s') + 8 * m c' <= bits (ln_bsr s) + 8 * m c.
Proof. exact (lhnew_read_total lhx_params lhx_params_ok). Qed.
Corollary lk7_read_total : forall cbs (cb : callback cbs) m, cb_bounded cb -> cb_finite cb m ->
  forall s c, lhnew_inv lk7_params s -> bits (ln_bsr s) + 8 * m c < 2 ^ 30 ->
  exists ch s' c', lk7_read cb s c = Ok (ch, s', c') /\ nlen ch <= lk7_max_read /\ lhnew_inv lk7_params s' /\
    bits (ln_bsr s') + 8 * m c' <= bits (ln_bsr s) + 8 * m c.
Proof. exact (lhnew_read_total lk7_params lk7_params_ok). Qed.

Corollary lh4_init_ok : exists s, lh4_init = Ok s /\ lhnew_inv lh4_params s.
Proof. exact (lhnew_init_ok lh4_params lh4_params_ok). Qed.
Corollary lh5_init_ok : exists s, lh5_init = Ok s /\ lhnew_inv lh5_params s.
Proof. exact (lhnew_init_ok lh5_params lh5_params_ok). Qed.
Corollary lh6_init_ok : exists s, lh6_init = Ok s /\ lhnew_inv lh6_params s.
Proof. exact (lhnew_init_ok lh6_params lh6_params_ok). Qed.
Corollary lh7_init_ok : exists s, lh7_init = Ok s /\ lhnew_inv lh7_params s.
Proof. exact (lhnew_init_ok lh7_params lh7_params_ok). Qed.
Corollary lhx_init_ok : exists s, lhx_init = Ok s /\ lhnew_inv lhx_params s.
Proof. exact (lhnew_init_ok lhx_params lhx_params_ok). Qed.
Corollary lk7_init_ok : exists s, lk7_init = Ok s /\ lhnew_inv lk7_params s.
Proof. exact (lhnew_init_ok lk7_params lk7_params_ok). Qed.

(* ------------------------------------------------------------------ *)
(* 11. Why termination needs an input that ends                         *)
(* A callback that delivers 0xFF bytes for ever is [cb_bounded]; on it    *)
(* read_length_value's unary loop never sees a 0 bit, and lhnew_read      *)
(* answers OutOfFuel.  (In C: "++len" runs until the int overflows.)       *)
(* So "lhnew_read returns Ok for every cb_bounded callback" is false of   *)
(* the model; lhnew_read_safe / lhnew_read_total are what holds.          *)

Definition ones_cb : callback unit := fun _ n => (repeat 255 (N.to_nat n), tt).

Lemma ones_cb_bounded : cb_bounded ones_cb.
Proof.
  intros s n. unfold ones_cb. cbn [fst]. split.
  - unfold nlen. rewrite repeat_length. lia.
  - apply Forall_forall. intros x Hx. apply repeat_spec in Hx. subst. lia.
Qed.

Lemma loop_out_of_fuel {S R} (step : S -> outcome (S + R)) k s :
  (forall n, exists s', iters step n s s') -> loop step k s = OutOfFuel.
Proof.
  intros H. unfold loop.
  destruct (loop_n_spec step k s)
    as [(n & r & Hl & Hn & E)|[(s' & Hi & E)|(n & s' & x & Hi & Hn & Hx & Hbad & E)]]; rewrite E; cbn [bind].
  - exfalso. destruct (H (Datatypes.S n)) as [s' Hi]. eapply iters_loops_false; [exact Hi|exact Hl|lia].
  - reflexivity.
  - exfalso. destruct (H (Datatypes.S n)) as [s'' Hi']. eapply iters_stuck; [exact Hi'|exact Hi|exact Hx|exact Hbad|lia].
Qed.

Lemma loop_n_step_oof {S R} (step : S -> outcome (S + R)) k : forall s,
  step s = OutOfFuel -> loop_n step k s = OutOfFuel.
Proof. induction k as [|k IH]; intros s H; cbn [loop_n]; [exact H|]. rewrite (IH s H). reflexivity. Qed.

Definition allones (r : bsr) : Prop := exists k, holds r (repeat true k).

Lemma peek_fill_ones r : allones r ->
  exists r', peek_fill ones_cb 6 r tt 1 = Ok (true, r', tt) /\ allones r' /\ 1 <= bits r'.
Proof.
  intros [k Hh]. rewrite peek_fill_eq. destruct (N.ltb_spec (bits r) 1) as [Hlt|Hge].
  - cbv zeta. assert (Hb : bits r = 0) by lia.
    pose proof Hh as (Hn & _ & _). rewrite Hb in Hn.
    assert (k = O) by (unfold nlen in Hn; rewrite repeat_length in Hn; lia). subst k.
    replace ((32 - bits r) / 8) with 4 by (rewrite Hb; reflexivity).
    change (ones_cb tt 4) with ([255; 255; 255; 255], tt). cbv beta iota.
    destruct (fill_bytes_loop_ok [255; 255; 255; 255] r 0) as (r1 & E1 & Eb & Hok).
    { apply bsr_wf_ok. eapply holds_wf. exact Hh. }
    { vm_compute. discriminate. }
    { rewrite Hb. vm_compute. discriminate. }
    rewrite E1. cbn [bind].
    assert (Hb1 : bits r1 = 32) by (rewrite Eb, Hb; reflexivity).
    rewrite peek_fill_eq. destruct (N.ltb_spec (bits r1) 1) as [X|_]; [lia|].
    exists r1. split; [reflexivity|]. split; [|lia].
    exists 32%nat.
    apply (fill_bytes_loop_holds [255; 255; 255; 255] r 0 (repeat true 0) r1 Hh); [vm_compute; discriminate| |exact E1].
    repeat constructor.
  - exists r. split; [reflexivity|]. split; [exists k; exact Hh|exact Hge].
Qed.

Lemma read_bit_ones r : allones r ->
  exists r', read_bit ones_cb r tt = Ok (Some 1, r', tt) /\ allones r'.
Proof.
  intros Ha. unfold read_bit, read_bits, peek_bits. change (1 =? 0) with false. cbv iota.
  destruct (peek_fill_ones r Ha) as (r1 & E1 & [k Hh] & Hb1). rewrite E1. cbn [bind]. cbv beta iota.
  pose proof Hh as (Hn & _ & _).
  destruct k as [|k]; [unfold nlen in Hn; cbn in Hn; lia|].
  destruct (consume_holds r1 (repeat true (S k)) 1 Hh) as [Hh' Hv].
  { unfold nlen. rewrite repeat_length. lia. }
  cbn [repeat] in Hh', Hv. cbn [firstn_N skipn_N] in Hh', Hv.
  change (1 =? 0) with false in Hh', Hv. cbv iota in Hh', Hv.
  change (N.pred 1) with 0 in Hh', Hv. rewrite firstn_N_0 in Hv. rewrite skipn_N_0 in Hh'.
  change (val [true]) with 1 in Hv.
  rewrite Hv. change (1 <? 2147483648) with true. cbv iota. cbn [bind].
  eexists. split; [reflexivity|]. exists k. exact Hh'.
Qed.

Lemma rlv_step_ones len r : allones r ->
  exists r', ln_rlv_step ones_cb (len, r, tt) = Ok (inl (len + 1, r', tt)) /\ allones r'.
Proof.
  intros Ha. unfold ln_rlv_step. destruct (read_bit_ones r Ha) as (r' & E & Ha').
  rewrite E. cbn [bind]. cbv beta iota. change (1 =? 0) with false. cbv iota.
  exists r'. split; [reflexivity|exact Ha'].
Qed.

Lemma rlv_iters_ones n : forall len r, allones r ->
  exists s', iters (ln_rlv_step ones_cb) n (len, r, tt) s'.
Proof.
  induction n as [|n IH]; intros len r Ha.
  - eexists. constructor.
  - destruct (rlv_step_ones len r Ha) as (r' & E & Ha').
    destruct (IH (len + 1) r' Ha') as [s' Hi]. exists s'. econstructor; [exact E|exact Hi].
Qed.

Definition ones_r2 : bsr := {| bit_buffer := 4292870144; bits := 11 |}.

Lemma rlv_ones_out_of_fuel : ln_read_length_value ones_cb ones_r2 tt = OutOfFuel.
Proof.
  unfold ln_read_length_value.
  assert (E : read_bits ones_cb ones_r2 tt 3 = Ok (Some 7, {| bit_buffer := 4278190080; bits := 8 |}, tt))
    by (vm_compute; reflexivity).
  rewrite E. cbn [bind]. cbv beta iota. change (7 =? 7) with true. cbv iota.
  apply loop_out_of_fuel. intros n. apply rlv_iters_ones.
  exists 8%nat. unfold holds. cbn [bits bit_buffer]. repeat split; vm_compute; congruence.
Qed.

(* -lh5-, first read on a freshly initialised decoder, input FF FF FF ... *)
Theorem lh5_read_out_of_fuel : forall s, ln_bsr s = bsr_init -> ln_block_remaining s = 0 ->
  lhnew_read ones_cb lh5_params s tt = OutOfFuel.
Proof.
  intros s Hb Hr. unfold lhnew_read.
  assert (E : loop (ln_block_step ones_cb lh5_params) 32 (s, tt) = OutOfFuel).
  { unfold loop. rewrite loop_n_step_oof; [reflexivity|].
    unfold ln_block_step. rewrite Hr. change (0 =? 0) with true. cbv iota.
    unfold ln_start_new_block. rewrite Hb.
    assert (E1 : read_bits ones_cb bsr_init tt 16 = Ok (Some 65535, {| bit_buffer := 4294901760; bits := 16 |}, tt))
      by (vm_compute; reflexivity).
    rewrite E1. cbn [bind]. cbv beta iota zeta.
    unfold ln_read_temp_table.
    change (p_TEMP_CODE_BITS lh5_params) with 5. change (p_MAX_TEMP_CODES lh5_params) with 31.
    assert (E2 : read_bits ones_cb {| bit_buffer := 4294901760; bits := 16 |} tt 5 = Ok (Some 31, ones_r2, tt))
      by (vm_compute; reflexivity).
    rewrite E2. cbn [bind]. cbv beta iota. change (31 =? 0) with false. cbv iota.
    change (31 <? 31) with false. cbv iota.
    change (N.to_nat 31) with 31%nat.
    rewrite ln_rtt_loop_eq. change (0 <? 31) with true. cbv iota.
    rewrite rlv_ones_out_of_fuel. reflexivity. }
  rewrite E. reflexivity.
Qed.

Lemma lhnew_init_fields P s : lhnew_init P = Ok s -> ln_bsr s = bsr_init /\ ln_block_remaining s = 0.
Proof.
  unfold lhnew_init. destruct (p_RING_BUFFER_SIZE P <=? p_ringbuf_extent P); [|discriminate].
  destruct (init_tree _ _ _) as [ct| |]; cbn [bind]; try discriminate.
  destruct (init_tree _ _ _) as [ot| |]; cbn [bind]; try discriminate.
  destruct (init_tree _ _ _) as [tt'| |]; cbn [bind]; try discriminate.
  intros E. inversion E. split; reflexivity.
Qed.

(* the statement asked for at first -- Ok for every cb_bounded callback -- fails *)
Theorem lhnew_read_not_total_for_endless_input :
  exists (cb : callback unit) s c, cb_bounded cb /\ lhnew_inv lh5_params s /\
    lhnew_read cb lh5_params s c = OutOfFuel.
Proof.
  destruct (lhnew_init_ok lh5_params lh5_params_ok) as (s & E & Hinv). destruct (lhnew_init_fields _ _ E) as [Hb Hr].
  exists ones_cb, s, tt. split; [exact ones_cb_bounded|]. split; [exact Hinv|].
  exact (lh5_read_out_of_fuel s Hb Hr).
Qed.

Print Assumptions lhnew_init_ok.
Print Assumptions lhnew_read_safe.
Print Assumptions lhnew_read_no_fault.
Print Assumptions lhnew_read_safe_len.
Print Assumptions lhnew_read_total.
Print Assumptions lhnew_read_total_len.
Print Assumptions lhnew_read_total_src.
Print Assumptions build_tree_bound.
Print Assumptions lh4_read_safe.
Print Assumptions lh5_read_safe.
Print Assumptions lh6_read_safe.
Print Assumptions lh7_read_safe.
Print Assumptions lhx_read_safe.
Print Assumptions lk7_read_safe.
Print Assumptions lh4_read_total.
Print Assumptions lh5_read_total.
Print Assumptions lh6_read_total.
Print Assumptions lh7_read_total.
Print Assumptions lhx_read_total.
Print Assumptions lk7_read_total.
Print Assumptions lk7_init_ok.
Print Assumptions lh5_read_out_of_fuel.
Print Assumptions lhnew_read_not_total_for_endless_input.

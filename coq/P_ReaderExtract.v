(* P_ReaderExtract.v -- C06, reader level (lib/lha_reader.c, Reader.v):

   * decoding leaves the reader's bookkeeping (current header, its kind, the
     directory policy, the directory stack, the deferred links) alone;
   * totality of do_decode / extract_file for a member whose decoding run is
     known ([dd_run junk None ..]: the run lha_reader_check makes): the same
     run with an output file writes exactly the chunks, the verdict is the
     comparison of their length and CRC with the header, the time stamp is set
     afterwards;
   * lha_reader_next_file under the END_OF_DIR policy: when the directory on
     top of the stack is presented again (the "fake" entry), and
     lha_reader_extract of a directory entry, of that fake entry, and of a
     symbolic link. *)
From Lhasa Require Import Base ListN DecBase Loop Generated Crc16 P_Crc16 InputStream Header BasicReader
  AnyDecoder Decoder MacBinary Fs FsRun Reader P_Decoder P_ReaderCheck.
From Coq Require Import ZifyBool ZifyN ZifyNat.
Local Open Scope N_scope.

Set Default Timeout 60.

Lemma loop_complete_N {S R : Type} (step : S -> outcome (S + R)) k n s r :
  loops step n s r -> N.of_nat n < 2 ^ N.of_nat k -> loop step k s = Ok r.
Proof.
  intros Hl Hn. eapply loop_complete; [exact Hl|].
  assert (E : N.of_nat (2 ^ k) = 2 ^ N.of_nat k) by (rewrite Nat2N.inj_pow; reflexivity).
  lia.
Qed.

Section ReaderExtract.
  Variable mktime : N -> N -> N -> N -> Z -> N -> N.
  Variable junk : N.

  (* ---- bookkeeping fields ---- *)
  Definition book (r : reader) : option header * curr_type * dir_policy * list header * list header * bool :=
    (rd_curr r, rd_type r, rd_policy r, rd_dir_stack r, rd_deferred r, rd_linked r).

  Lemma book_set_decoders r b d i : book (set_decoders r b d i) = book r.
  Proof. reflexivity. Qed.

  Lemma open_decoder_book r mon b ev r1 : open_decoder junk r mon = Ok (b, ev, r1) -> book r1 = book r.
  Proof.
    unfold open_decoder. intros H.
    destruct (rd_type r); try (inversion H; subst; reflexivity).
    destruct (lha_basic_reader_decode (rd_br r)) as [[dd|]| |]; cbn [bind] in H; try discriminate;
      [|inversion H; subst; reflexivity].
    destruct (if mon then _ else _) as [d1 e1].
    destruct (rd_curr r) as [ch|] eqn:Ec; [|discriminate].
    destruct (h_os_type ch =? OS_TYPE_MACOS).
    - destruct (macbinary_init junk _ ch) as [[ms w]| |]; cbn [bind] in H; try discriminate.
      destruct ms; inversion H; subst; reflexivity.
    - inversion H; subst; reflexivity.
  Qed.

  Lemma decoder_read_book r n o ev r' : decoder_read junk r n = Ok (o, ev, r') -> book r' = book r.
  Proof.
    rewrite decoder_read_eq. intros H.
    destruct (rd_decoder r) as [[d|od]|]; try discriminate.
    - destruct (inner_read junk _ n) as [[[o1 e1] d1]| |]; cbn [bind] in H; try discriminate.
      inversion H; subst; reflexivity.
    - cbv zeta in H.
      destruct (lha_decoder_read _ _ _ _ n) as [[[o1 e1] d1]| |]; cbn [bind] in H; try discriminate.
      inversion H; subst; reflexivity.
  Qed.

  Lemma reader_read_book r n o ev r' : lha_reader_read junk r n = Ok (o, ev, r') -> book r' = book r.
  Proof.
    unfold lha_reader_read. intros H. destruct (rd_decoder r) eqn:Ed.
    - eapply decoder_read_book; eauto.
    - destruct (open_decoder junk r false) as [[[ok e1] r1]| |] eqn:Eo; cbn [bind] in H; try discriminate.
      apply open_decoder_book in Eo. destruct ok.
      + destruct (decoder_read junk r1 n) as [[[o2 e2] r2]| |] eqn:Er; cbn [bind] in H; try discriminate.
        inversion H; subst. apply decoder_read_book in Er. congruence.
      + inversion H; subst. exact Eo.
  Qed.

  Lemma dd_run_book out r f chunks r' f' : dd_run junk out r f chunks r' f' -> book r' = book r.
  Proof.
    induction 1 as [r f ev r' E|r f o ev ra chunks r' f' Hne E _ IH].
    - eapply reader_read_book; eauto.
    - apply reader_read_book in E. congruence.
  Qed.

  (* ---- the run of do_decode with any output ---- *)
  Lemma dd_run_loops out0 r f0 chunks r' f0' : dd_run junk out0 r f0 chunks r' f0' ->
    forall out f evs, exists evs',
      loops (dd_step junk out) (length chunks) (r, f, evs) (r', fold_left (dd_write out) chunks f, evs').
  Proof.
    induction 1 as [r f0 ev r' E|r f0 o ev ra chunks r' f0' Hne E _ IH]; intros out f evs.
    - exists (evs ++ ev). cbn [length fold_left]. constructor. rewrite dd_step_eq, E. cbn [bind]. cbv zeta.
      destruct out; reflexivity.
    - destruct (IH out (dd_write out f o) (evs ++ ev)) as [evs' Hl].
      exists evs'. cbn [length fold_left]. econstructor; [|exact Hl].
      rewrite dd_step_eq, E. cbn [bind]. cbv zeta.
      destruct o as [|b o]; [contradiction Hne; reflexivity|]. destruct out; reflexivity.
  Qed.

  (* a plain member whose run is known: do_decode returns the verdict on its bytes *)
  Lemma do_decode_total r mon ev1 r1 h chunks r2 f0 f0' out f :
    open_decoder junk r mon = Ok (true, ev1, r1) -> rd_curr r = Some h ->
    (h_os_type h =? OS_TYPE_MACOS) = false ->
    dd_run junk None r1 f0 chunks r2 f0' -> N.of_nat (length chunks) < 2 ^ 64 ->
    exists evs, do_decode junk r1 f out = Ok (verdict h (concat chunks), evs, r2, fold_left (dd_write out) chunks f).
  Proof.
    intros Hop Hcur Hos Hrun Hlen.
    destruct (open_decoder_ok junk r mon ev1 r1 h Hop Hcur)
      as (_ & Hcur1 & Hin1 & d0 & x & d1 & ibs0 & Hfresh & Hdec1 & Hof1 & Hi0 & Hplain & _).
    destruct (Hplain Hos) as (Hpl & -> & ->).
    destruct (dd_run_inner junk _ _ _ _ _ _ Hrun x d0 Hdec1 Hin1 Hof1) as (Hin2 & Hc2 & _ & d' & ibs & Hof2 & Hi & Hb).
    rewrite (Hb Hpl) in Hi.
    destruct (dd_run_loops _ _ _ _ _ _ Hrun out f []) as [evs Hl].
    exists evs. rewrite do_decode_eq.
    rewrite (loop_complete_N _ 64 _ _ _ Hl) by exact Hlen. cbn [bind].
    rewrite inner_len_crc_of, Hof2, Hc2, Hcur1.
    destruct (fresh_inner_zero r mon d0 Hfresh) as [Hp0 Hc0].
    apply ireads_len_crc in Hi. destruct Hi as [Hp Hc].
    rewrite Hp, Hc, Hp0, Hc0, N.add_0_l. reflexivity.
  Qed.

  (* [member_ok r h bs r2]: the reader r is positioned at the regular member h;
     decoding it (the run lha_reader_check makes) yields the bytes bs, which have
     the header's length and CRC, and leaves the reader r2 *)
  Definition member_ok (r : reader) (h : header) (bs : list N) (r2 : reader) : Prop :=
    exists ev1 r1 chunks,
      open_decoder junk r true = Ok (true, ev1, r1) /\
      dd_run junk None r1 check_fs chunks r2 check_fs /\
      concat chunks = bs /\ verdict h bs = true /\ N.of_nat (length chunks) < 2 ^ 64.

  Lemma member_ok_book r h bs r2 : member_ok r h bs r2 -> book r2 = book r.
  Proof.
    intros (ev1 & r1 & chunks & Hop & Hrun & _). apply open_decoder_book in Hop. apply dd_run_book in Hrun. congruence.
  Qed.

  Lemma fold_dd_write hd chunks f : fold_left (dd_write (Some hd)) chunks f = write_chunks hd chunks f.
  Proof. reflexivity. Qed.

  (* extract_file, total *)
  Theorem extract_file_total r f name h bs r2 hd f1 :
    rd_curr r = Some h -> (h_os_type h =? OS_TYPE_MACOS) = false ->
    member_ok r h bs r2 ->
    arch_fopen f name (ex_perms h) = (Some hd, f1) ->
    exists ev chunks, concat chunks = bs /\
      extract_file junk r f (Some name) true =
      Ok (true, ev, r2, snd (set_timestamps_from_header (write_chunks hd chunks f1) name h)).
  Proof.
    intros Hcur Hos (ev1 & r1 & chunks & Hop & Hrun & Hbs & Hv & Hlen) Hfo.
    destruct (do_decode_total r true ev1 r1 h chunks r2 _ _ (Some hd) f1 Hop Hcur Hos Hrun Hlen) as [evs Hdd].
    exists (ev1 ++ evs), chunks. split; [exact Hbs|].
    rewrite (extract_file_eq junk r f (Some name) true h Hcur), Hop. cbn [bind negb ex_fname].
    rewrite Hfo, Hdd. cbn [bind]. rewrite Hbs, Hv, fold_dd_write. reflexivity.
  Qed.

  (* lha_reader_check reporting good gives such a run (the converse direction of P_ReaderCheck) *)
  Lemma check_good_member_ok r ev r2 h :
    lha_reader_check junk r true = Ok (true, ev, r2) ->
    rd_type r = CT_NORMAL -> rd_curr r = Some h -> is_dir_method h = false ->
    (h_os_type h =? OS_TYPE_MACOS) = false ->
    exists bs, member_ok r h bs r2.
  Proof.
    intros H Ht Hcur Hdir Hos.
    assert (H' := H). rewrite (check_eq junk r true h Ht Hcur Hdir) in H'.
    destruct (open_decoder junk r true) as [[[ok ev1] r1]| |] eqn:Hop; cbn [bind] in H'; try discriminate.
    destruct ok; [|inversion H'].
    destruct (do_decode junk r1 check_fs None) as [[[[res2 ev2] r2'] f2]| |] eqn:Hdd; cbn [bind] in H'; try discriminate.
    inversion H'; subst res2 r2'. clear H'.
    rewrite do_decode_eq in Hdd.
    destruct (loop (dd_step junk None) 64 (r1, check_fs, [])) as [[[ra fa] evsa]| |] eqn:El; cbn [bind] in Hdd; try discriminate.
    apply loop_sound in El. destruct El as (n & Hl & Hn).
    destruct (check_good_implies_match junk r true ev r2 h H Ht Hcur Hdir Hos) as (ev1' & r1' & chunks & Hop' & Hrun & Hrest).
    rewrite Hop in Hop'. inversion Hop'; subst ev1' r1'. cbv zeta in Hrest. destruct Hrest as (Hlen & Hcrc & _).
    exists (concat chunks), ev1, r1, chunks. split; [exact Hop|]. split; [exact Hrun|]. split; [reflexivity|].
    split; [apply verdict_true; auto|].
    destruct (dd_run_loops _ _ _ _ _ _ Hrun None check_fs []) as [evs' Hl'].
    destruct (loops_det _ _ _ _ _ _ Hl Hl') as [En _].
    assert (E : N.of_nat (2 ^ 64) = 2 ^ N.of_nat 64) by (rewrite Nat2N.inj_pow; reflexivity).
    change (N.of_nat 64) with 64 in E. lia.
  Qed.
End ReaderExtract.

(* ------------------------------------------------------------------ *)
(* lha_reader_next_file under the END_OF_DIR policy, no deferred links *)
Section NextFile.
  Variable mktime : N -> N -> N -> N -> Z -> N -> N.

  (* the first half of lha_reader_next_file: a new header is read from the
     archive unless the entry just presented was made up by the reader *)
  Definition fetch (r : reader) : outcome (breader * bool) :=
    match rd_type r with
    | CT_START | CT_NORMAL => '(_, br') <- lha_basic_reader_next_file mktime (rd_br r) ;; Ok (br', false)
    | _ => Ok (rd_br r, rd_linked r)
    end.

  Definition mk_reader (br : breader) (c : option header) (ty : curr_type) (stk : list header) (lk : bool) : reader :=
    {| rd_br := br; rd_curr := c; rd_type := ty; rd_decoder := None; rd_inner := IR_null;
       rd_policy := DIR_END_OF_DIR; rd_dir_stack := stk; rd_deferred := []; rd_linked := lk |}.

  (* the second half *)
  Definition present (r : reader) (br1 : breader) (linked : bool) : outcome (option header * reader) :=
    let r1 := {| rd_br := br1; rd_curr := rd_curr r; rd_type := rd_type r; rd_decoder := None; rd_inner := IR_null;
                 rd_policy := rd_policy r; rd_dir_stack := rd_dir_stack r; rd_deferred := rd_deferred r;
                 rd_linked := linked |} in
    pop <- end_of_top_dir r1 ;;
    let r2 :=
      if pop then
        match rd_dir_stack r1 with
        | top :: rest =>
          {| rd_br := br1; rd_curr := Some top; rd_type := CT_FAKE_DIR; rd_decoder := None; rd_inner := IR_null;
             rd_policy := rd_policy r1; rd_dir_stack := rest; rd_deferred := rd_deferred r1; rd_linked := linked |}
        | [] => r1
        end
      else
        {| rd_br := br1; rd_curr := br_curr br1; rd_type := CT_NORMAL; rd_decoder := None; rd_inner := IR_null;
           rd_policy := rd_policy r1; rd_dir_stack := rd_dir_stack r1; rd_deferred := rd_deferred r1;
           rd_linked := linked |} in
    match rd_curr r2 with
    | Some h => Ok (Some h, r2)
    | None =>
      match rd_deferred r2 with
      | l :: rest =>
        Ok (Some l, {| rd_br := br1; rd_curr := Some l; rd_type := CT_DEFERRED_SYMLINK; rd_decoder := None;
                       rd_inner := IR_null; rd_policy := rd_policy r2; rd_dir_stack := rd_dir_stack r2;
                       rd_deferred := rest; rd_linked := linked |})
      | [] =>
        Ok (None, {| rd_br := br1; rd_curr := None; rd_type := CT_EOF; rd_decoder := None; rd_inner := IR_null;
                     rd_policy := rd_policy r2; rd_dir_stack := rd_dir_stack r2; rd_deferred := [];
                     rd_linked := linked |})
      end
    end.

  Lemma next_file_eq r : rd_type r <> CT_EOF ->
    lha_reader_next_file mktime r = ('(br1, lk) <- fetch r ;; present r br1 lk).
  Proof.
    intros Hty. unfold lha_reader_next_file, fetch.
    change (rd_type (close_decoder r)) with (rd_type r). change (rd_br (close_decoder r)) with (rd_br r).
    change (rd_linked (close_decoder r)) with (rd_linked r).
    destruct (rd_type r) eqn:Et; try (contradiction Hty; reflexivity);
      try (destruct (lha_basic_reader_next_file mktime (rd_br r)) as [[x br']| |]; cbn [bind]; try reflexivity);
      unfold present; cbn [close_decoder rd_curr rd_type rd_policy rd_dir_stack rd_deferred]; rewrite ?Et; reflexivity.
  Qed.

  (* no pop: the entry read from the archive is presented *)
  Lemma present_real r br1 lk h stk :
    rd_policy r = DIR_END_OF_DIR -> rd_dir_stack r = stk ->
    br_curr br1 = Some h ->
    (stk = [] \/ exists top rest tp ip, stk = top :: rest /\ h_path top = Some tp /\ h_path h = Some ip /\ is_prefix tp ip = true) ->
    present r br1 lk =
    Ok (Some h, {| rd_br := br1; rd_curr := Some h; rd_type := CT_NORMAL; rd_decoder := None; rd_inner := IR_null;
                   rd_policy := DIR_END_OF_DIR; rd_dir_stack := stk; rd_deferred := rd_deferred r; rd_linked := lk |}).
  Proof.
    intros Hpol Hstk Hcur Hnopop. unfold present, end_of_top_dir.
    cbn [rd_dir_stack rd_br rd_policy rd_deferred rd_curr]. rewrite Hstk, Hpol.
    destruct Hnopop as [->|(top & rest & tp & ip & -> & Htp & Hip & Hpre)].
    - cbn [bind rd_curr]. rewrite Hcur. reflexivity.
    - rewrite Hcur, Hip, Htp, Hpre. cbn [bind negb rd_curr]. reflexivity.
  Qed.

  (* pop: the directory on top of the stack is presented again *)
  Lemma present_pop r br1 lk top rest tp :
    rd_policy r = DIR_END_OF_DIR -> rd_dir_stack r = top :: rest -> h_path top = Some tp ->
    (br_curr br1 = None \/ exists h, br_curr br1 = Some h /\ is_prefix tp (opt_str (h_path h)) = false) ->
    present r br1 lk =
    Ok (Some top, {| rd_br := br1; rd_curr := Some top; rd_type := CT_FAKE_DIR; rd_decoder := None; rd_inner := IR_null;
                     rd_policy := DIR_END_OF_DIR; rd_dir_stack := rest; rd_deferred := rd_deferred r; rd_linked := lk |}).
  Proof.
    intros Hpol Hstk Htp Hpop. unfold present, end_of_top_dir.
    cbn [rd_dir_stack rd_br rd_policy rd_deferred rd_curr]. rewrite Hstk, Hpol.
    destruct Hpop as [Hn|(h & Hc & Hpre)].
    - rewrite Hn. reflexivity.
    - rewrite Hc. destruct (h_path h) as [ip|]; [|reflexivity].
      cbn [opt_str] in Hpre. rewrite Htp, Hpre. reflexivity.
  Qed.

  (* the end *)
  Lemma present_end r br1 lk :
    rd_dir_stack r = [] -> rd_deferred r = [] -> br_curr br1 = None ->
    present r br1 lk =
    Ok (None, {| rd_br := br1; rd_curr := None; rd_type := CT_EOF; rd_decoder := None; rd_inner := IR_null;
                 rd_policy := rd_policy r; rd_dir_stack := []; rd_deferred := []; rd_linked := lk |}).
  Proof.
    intros Hstk Hdef Hcur. unfold present, end_of_top_dir.
    cbn [rd_dir_stack rd_br rd_policy rd_deferred rd_curr]. rewrite Hstk. cbn [bind rd_curr rd_deferred rd_policy rd_dir_stack].
    rewrite Hcur, Hdef. reflexivity.
  Qed.
End NextFile.

Print Assumptions extract_file_total.
Print Assumptions check_good_member_ok.
Print Assumptions present_pop.

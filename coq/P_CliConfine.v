(* P_CliConfine.v -- C10, confinement of the MAIN PHASE of an extraction.

   R is the physical location of the current directory of `lha x`.  If every
   symbolic link below R in the initial tree is safe (relative target without
   ".." -- in particular if there is none) and the w= argument, if any, is a
   non-empty relative path without "..", then as long as the reader has not
   started to present the deferred (dangerous) links, every operation the tool
   has logged resolved to a physical location below R, and every link below R
   is still safe.  This holds for every prefix of the run (iters), every
   archive, every option set, every answer to the overwrite prompt.

   The restriction to the main phase is necessary: Properties_C10.confinement_refuted
   and P_CliOrder.ordering_mkdir_witness leave R in the final phase. *)
From Lhasa Require Import Base Loop Generated InputStream Header BasicReader AnyDecoder Decoder MacBinary
  Fs FsRun Reader Glob ListOut CliFilter CliExtract CliMain P_Path P_CliSafe P_CliOrder P_FsConfine P_CliPath.
From Coq Require Import Lia.
Local Open Scope N_scope.

(* ------------------------------------------------------------------ *)
(* safe targets and is_dangerous_symlink                                *)
Lemma lead47_other {T : Type} c (r : list N) (x y : T) : c <> 47 ->
  (match c :: r with 47 :: _ => x | _ => y end) = y.
Proof.
  intros H. destruct c as [|q]; [reflexivity|]. repeat (destruct q as [q|q|]; try reflexivity). congruence.
Qed.

Lemma safe_target_not_dangerous t : dangerous_target t = false -> safe_target t = true.
Proof.
  unfold dangerous_target, safe_target. destruct t as [|c r]; [intros ->; reflexivity|].
  rewrite is_absolute_cons. destruct (N.eqb_spec c 47) as [->|Hc]; [discriminate|].
  rewrite (lead47_other c r _ _ Hc). intros ->. reflexivity.
Qed.

(* ------------------------------------------------------------------ *)
(* headers come from lha_file_header_read                               *)
Lemma basic_next_file_c11 mktime br x br1 :
  lha_basic_reader_next_file mktime br = Ok (x, br1) -> forall h, br_curr br1 = Some h -> hdr_c11 h.
Proof.
  unfold lha_basic_reader_next_file. intros H.
  apply bind_ok in H. destruct H as (r1 & H1 & H).
  assert (Hc1 : br_curr r1 = None).
  { destruct (br_curr br) eqn:Ec.
    - apply bind_ok in H1. destruct H1 as ([ok st'] & _ & H1). injection H1 as <-. reflexivity.
    - injection H1 as <-. exact Ec. }
  destruct (br_eof r1).
  { injection H as _ <-. intros h Eh. congruence. }
  apply bind_ok in H. destruct H as ([hh st2] & Hh & H). cbv beta iota in H.
  destruct hh as [hd|]; injection H as _ <-; cbn [br_curr]; intros h Eh; [|discriminate].
  injection Eh as <-. apply P_Path.returned_names_ok in Hh. exact Hh.
Qed.

Lemma insert_deferred_forall (P : header -> Prop) l h : Forall P l -> P h -> Forall P (insert_deferred l h).
Proof.
  intros Hl Hh. induction Hl as [|x r Hx Hr IH]; cbn [insert_deferred].
  - constructor; [exact Hh|constructor].
  - destruct (file_header_path_len h <? file_header_path_len x).
    + constructor; [exact Hx|exact IH].
    + constructor; [exact Hh|]. constructor; assumption.
Qed.

Section Confine.
  Variable mktime : N -> N -> N -> N -> Z -> N -> N.
  Variable junk : N.
  Variable R : phys.
  (* the name under which the tool extracts a header *)
  Variable names : header -> list N.
  Hypothesis names_rel : forall h, hdr_c11 h -> rel_path (names h).

  (* a directory that mkdir has made under its name *)
  Definition dir_ok (h : header) : Prop := strict_path (names h).

  Record rinv (r : reader) : Prop := {
    ri_curr : forall h, rd_curr r = Some h -> hdr_c11 h;
    ri_stack : Forall (fun h => hdr_c11 h /\ dir_ok h) (rd_dir_stack r);
    ri_deferred : Forall hdr_c11 (rd_deferred r);
    ri_fake : rd_type r = CT_FAKE_DIR ->
              (forall h, rd_curr r = Some h -> dir_ok h) /\ (forall h, br_curr (rd_br r) = Some h -> hdr_c11 h)
  }.

  Lemma rinv_new st : rinv (lha_reader_new st).
  Proof. constructor; cbn; try discriminate; constructor. Qed.

  Lemma rinv_req r r' : req r r' -> rinv r -> rinv r'.
  Proof.
    intros (A & B & C & D & E) [I1 I2 I3 I4]. constructor; rewrite ?A, ?B, ?C, ?D, ?E; assumption.
  Qed.

  Lemma rinv_shape r r' : same_shape r r' -> rd_type r <> CT_FAKE_DIR -> rinv r -> rinv r'.
  Proof.
    intros (A & B & C & D & E) Hn [I1 I2 I3 I4]. constructor; rewrite ?A, ?B, ?C, ?D; try assumption.
    intros X. contradiction.
  Qed.

  (* ---- lha_reader_next_file ---- *)
  Lemma next_file_rinv r0 h r' :
    lha_reader_next_file mktime r0 = Ok (h, r') -> phase1 r0 -> rinv r0 -> rinv r' /\ rd_curr r' = h.
  Proof.
    intros H Hp [I1 I2 I3 I4]. apply next_file_cases in H.
    destruct H as [(Et & -> & ->)|(Et & br1 & linked & Hbr & H)].
    { destruct Hp as [X|[X|X]]; congruence. }
    assert (Hb : forall hc, br_curr br1 = Some hc -> hdr_c11 hc).
    { destruct Hbr as [[_ (x & Hx)]|[[Y|Y] ->]].
      - eapply basic_next_file_c11. exact Hx.
      - apply I4. exact Y.
      - destruct Hp as [X|[X|X]]; congruence. }
    assert (X : rd_type r0 = CT_START \/ rd_type r0 = CT_NORMAL \/ rd_type r0 = CT_FAKE_DIR) by exact Hp.
    clear Hp.
    destruct H as [(top & rest & Es & -> & ->)|[(hc & Ec & -> & ->)|[(Ec & Es & l & lrest & Ed & -> & ->)|(Ec & Es & Ed & -> & ->)]]];
      (split; [|reflexivity]); unfold mk_reader; constructor; cbn [rd_curr rd_dir_stack rd_deferred rd_type rd_br].
    - rewrite Es in I2. inversion I2 as [|? ? [A B] C]; subst. intros h E. injection E as <-. exact A.
    - rewrite Es in I2. inversion I2; assumption.
    - exact I3.
    - intros _. rewrite Es in I2. inversion I2 as [|? ? [A B] C]; subst. split; [|exact Hb].
      intros h E. injection E as <-. exact B.
    - intros h E. injection E as <-. apply Hb. exact Ec.
    - exact I2.
    - exact I3.
    - discriminate.
    - rewrite Ed in I3. inversion I3; subst. intros h E. injection E as <-. assumption.
    - constructor.
    - rewrite Ed in I3. inversion I3; assumption.
    - discriminate.
    - discriminate.
    - constructor.
    - constructor.
    - discriminate.
  Qed.

  (* ---- decoding into a file below R ---- *)
  Definition fsconf (f f' : fs) : Prop := fs_ok R f' /\ kinds (below_op R) f f'.

  Lemma fsconf_refl f : fs_ok R f -> fsconf f f.
  Proof. intros H. split; [exact H|apply kinds_refl]. Qed.
  Lemma fsconf_trans a b c : fsconf a b -> fsconf b c -> fsconf a c.
  Proof. intros [_ K1] [O2 K2]. split; [exact O2|eapply kinds_trans; eassumption]. Qed.

  Lemma do_decode_conf r f out res evs r1 f1 :
    do_decode junk r f out = Ok (res, evs, r1, f1) -> fs_ok R f -> (forall h, out = Some h -> below R h) ->
    fsconf f f1.
  Proof.
    unfold do_decode. intros H Hok Hout. apply bind_ok in H. destruct H as ([[r2 f2] evs2] & Hl & H).
    cbv beta iota in H.
    assert (G : fsconf f f2).
    { apply (loop_inv (dd_step junk out) (fun s => fsconf f (snd (fst s))) (fun s => fsconf f (snd (fst s)))) in Hl.
      - exact Hl.
      - intros [[ra fa] ea] x Hi. cbn [fst snd] in Hi. unfold dd_step. intros Hs.
        apply bind_ok in Hs. destruct Hs as ([[o ev] rb] & _ & Hs). cbv beta iota in Hs.
        destruct o as [|b o']; injection Hs as <-; cbn [fst snd].
        + destruct out; exact Hi.
        + destruct out as [hd|]; [|exact Hi]. eapply fsconf_trans; [exact Hi|].
          destruct (fs_write_conf R fa hd (b :: o') (proj1 Hi) (Hout hd eq_refl)) as [A B]. split; assumption.
      - cbn [fst snd]. apply fsconf_refl. exact Hok. }
    destruct (inner_len_crc r2) as [[len crc]|]; [|discriminate].
    destruct (rd_curr r2); [|discriminate]. injection H as _ _ _ <-. exact G.
  Qed.

  Lemma set_timestamps_conf f path h : fs_ok R f -> strict_path path ->
    fsconf f (snd (set_timestamps_from_header f path h)).
  Proof.
    intros Hok Hp. unfold set_timestamps_from_header. destruct (negb (h_timestamp h =? 0)).
    - destruct (fs_utime_conf R f path (h_timestamp h) Hok Hp) as [A B]. split; assumption.
    - apply fsconf_refl. exact Hok.
  Qed.

  Lemma set_directory_metadata_conf f h path : fs_ok R f -> strict_path path ->
    fsconf f (snd (set_directory_metadata f h path)).
  Proof.
    intros Hok Hp. unfold set_directory_metadata.
    pose proof (set_timestamps_conf f path h Hok Hp) as K1. destruct (set_timestamps_from_header f path h) as [b f1].
    cbn [snd] in K1.
    assert (K2 : fsconf f (if have_extra h FILE_UNIX_UID_GID then snd (fs_chown f1 path) else f1)).
    { destruct (have_extra h FILE_UNIX_UID_GID); [|exact K1]. eapply fsconf_trans; [exact K1|].
      destruct (fs_chown_conf R f1 path (proj1 K1) Hp) as [A B]. split; assumption. }
    destruct (have_extra h FILE_UNIX_PERMS); [|exact K2].
    eapply fsconf_trans; [exact K2|].
    match goal with |- fsconf ?f2 (snd (fs_chmod ?f2 path ?m)) =>
      destruct (fs_chmod_conf R f2 path m (proj1 K2) Hp) as [A B] end. split; assumption.
  Qed.

  (* ---- the extraction functions, main phase ---- *)
  Lemma extract_file_conf r f p monitor ok ev r' f' :
    extract_file junk r f (Some p) monitor = Ok (ok, ev, r', f') -> fs_ok R f -> rel_path p -> fsconf f f'.
  Proof.
    unfold extract_file. intros H Hok Hp. destruct (rd_curr r) as [h|]; [|discriminate].
    apply bind_ok in H. destruct H as ([[ok1 ev1] r1] & _ & H). cbv beta iota in H.
    destruct ok1; cbn [negb] in H; [|injection H as _ _ _ <-; apply fsconf_refl; exact Hok].
    match type of H with context [arch_fopen f p ?pm] =>
      destruct (arch_fopen_conf R f p pm Hok Hp) as (O1 & K1 & H1); destruct (arch_fopen f p pm) as [[hd|] f1] end;
      cbn [fst snd] in O1, K1, H1.
    - destruct (H1 hd eq_refl) as [Hh Hs].
      apply bind_ok in H. destruct H as ([[[res ev2] r2] f2] & Hd & H). cbv beta iota in H.
      apply do_decode_conf in Hd; [|exact O1|intros x E; injection E as <-; exact Hh].
      injection H as _ _ _ <-. eapply fsconf_trans; [split; [exact O1|exact K1]|].
      destruct res; [|exact Hd]. eapply fsconf_trans; [exact Hd|]. apply set_timestamps_conf; [apply Hd|exact Hs].
    - injection H as _ _ _ <-. split; assumption.
  Qed.

  Lemma extract_directory_conf r f h ok r' f' :
    extract_directory r f (Some (names h)) = Ok (ok, r', f') -> rd_curr r = Some h -> rd_type r = CT_NORMAL ->
    rinv r -> fs_ok R f -> fsconf f f' /\ rinv r'.
  Proof.
    unfold extract_directory. intros H Ec Et Hi Hok. rewrite Ec in H.
    pose proof (names_rel h (ri_curr r Hi h Ec)) as Hp.
    match type of H with context [arch_mkdir f (names h) ?m] =>
      destruct (arch_mkdir_conf R f (names h) m Hok Hp) as (O1 & K1 & H1);
      destruct (arch_mkdir f (names h) m) as [okm f1] end. cbn [fst snd] in O1, K1, H1.
    destruct okm; cbn [negb] in H.
    - specialize (H1 eq_refl).
      assert (Hpush : forall r1, link_curr 1411 r (h :: rd_dir_stack r) (rd_deferred r) = Ok r1 -> rinv r1).
      { intros r1 Hl. apply link_curr_pos in Hl. destruct Hl as (A & B & C & D & E & F).
        destruct Hi as [I1 I2 I3 I4]. constructor; rewrite ?A, ?B, ?C, ?D, ?E; try assumption.
        constructor; [split; [apply I1; exact Ec|exact H1]|exact I2]. }
      destruct (rd_policy r).
      + pose proof (set_directory_metadata_conf f1 h (names h) O1 H1) as K2.
        destruct (set_directory_metadata f1 h (names h)) as [b f2]. cbn [snd] in K2.
        injection H as _ <- <-. split; [|exact Hi]. eapply fsconf_trans; [split; [exact O1|exact K1]|exact K2].
      + apply bind_ok in H. destruct H as (r1 & Hl & H). injection H as _ <- <-.
        split; [split; assumption|apply Hpush; exact Hl].
      + apply bind_ok in H. destruct H as (r1 & Hl & H). injection H as _ <- <-.
        split; [split; assumption|apply Hpush; exact Hl].
    - injection H as _ <- <-. split; [split; assumption|exact Hi].
  Qed.

  Lemma extract_symlink_conf r f h ok r' f' :
    extract_symlink r f (Some (names h)) = Ok (ok, r', f') -> rd_curr r = Some h -> rd_type r = CT_NORMAL ->
    rinv r -> fs_ok R f -> fsconf f f' /\ rinv r'.
  Proof.
    unfold extract_symlink. intros H Ec Et Hi Hok. rewrite Ec, Et in H. cbn [andb] in H.
    pose proof (names_rel h (ri_curr r Hi h Ec)) as Hp.
    destruct (is_dangerous_symlink h) eqn:Ed.
    - unfold extract_placeholder_symlink in H.
      destruct (arch_fopen_conf R f (names h) (Some 384) Hok Hp) as (O1 & K1 & _).
      destruct (arch_fopen f (names h) (Some 384)) as [[hd|] f1]; cbn [snd] in O1, K1.
      + rewrite Ec in H. apply bind_ok in H. destruct H as (r1 & Hl & H). injection H as _ <- <-.
        split; [split; assumption|]. apply link_curr_pos in Hl. destruct Hl as (A & B & C & D & E & F).
        destruct Hi as [I1 I2 I3 I4]. constructor; rewrite ?A, ?B, ?C, ?D, ?E; try assumption.
        apply insert_deferred_forall; [exact I3|apply I1; exact Ec].
      + injection H as _ <- <-. split; [split; assumption|exact Hi].
    - destruct (h_symlink_target h) as [t|] eqn:Etg; [|discriminate].
      rewrite (is_dangerous_target h t Etg) in Ed. apply safe_target_not_dangerous in Ed.
      destruct (arch_symlink_conf R f (names h) t Hok Hp) as [K1 O1].
      destruct (arch_symlink f (names h) t) as [oks f1]. cbn [snd] in K1, O1.
      injection H as _ <- <-. split; [split; [apply O1; exact Ed|exact K1]|exact Hi].
  Qed.

  (* lha_reader_extract in the main phase, under the name of the current header *)
  Theorem reader_extract_conf r f h monitor ok ev r' f' :
    lha_reader_extract junk r f (Some (names h)) monitor = Ok (ok, ev, r', f') ->
    phase1 r -> rd_curr r = Some h -> rinv r -> fs_ok R f ->
    fsconf f f' /\ rinv r'.
  Proof.
    unfold lha_reader_extract. intros H Hp Ec Hi Hok. rewrite Ec in H.
    destruct (rd_type r) eqn:Et.
    - injection H as _ _ <- <-. split; [apply fsconf_refl; exact Hok|exact Hi].
    - destruct (negb (is_dir_method h)).
      + pose proof H as H'. apply extract_file_conf in H; [|exact Hok|apply names_rel; apply (ri_curr r Hi); exact Ec].
        apply extract_file_order in H'. destruct H' as [Hs _].
        split; [exact H|]. eapply rinv_shape; [exact Hs| |exact Hi]. congruence.
      + destruct (h_symlink_target h).
        * apply bind_ok in H. destruct H as ([[ok1 r1] f1] & Hx & H). cbv beta iota in H. injection H as _ _ <- <-.
          eapply extract_symlink_conf; eauto.
        * apply bind_ok in H. destruct H as ([[ok1 r1] f1] & Hx & H). cbv beta iota in H. injection H as _ _ <- <-.
          eapply extract_directory_conf; eauto.
    - pose proof (set_directory_metadata_conf f h (names h) Hok (proj1 (ri_fake r Hi Et) h Ec)) as K.
      destruct (set_directory_metadata f h (names h)) as [b f1]. cbn [snd] in K.
      injection H as _ _ <- <-. split; [exact K|exact Hi].
    - destruct Hp as [X|[X|X]]; congruence.
    - destruct Hp as [X|[X|X]]; congruence.
  Qed.

  (* the creation of a deferred link is still below R as long as the tree is safe
     (the first one is: it is what makes the tree unsafe) *)
  Theorem deferred_symlink_conf r f p monitor ok ev r' f' :
    lha_reader_extract junk r f (Some p) monitor = Ok (ok, ev, r', f') ->
    rd_type r = CT_DEFERRED_SYMLINK -> rel_path p -> fs_ok R f -> kinds (below_op R) f f'.
  Proof.
    unfold lha_reader_extract. intros H Et Hp Hok. rewrite Et in H.
    destruct (rd_curr r) as [h|] eqn:Ec; [|injection H as _ _ _ <-; apply kinds_refl].
    apply bind_ok in H. destruct H as ([[ok1 r1] f1] & Hx & H). cbv beta iota in H. injection H as _ _ _ <-.
    unfold extract_symlink in Hx. rewrite Ec, Et in Hx. cbn [andb] in Hx.
    destruct (h_symlink_target h) as [t|]; [|discriminate].
    destruct (arch_symlink_conf R f p t Hok Hp) as [K1 _].
    destruct (arch_symlink f p t) as [oks f2]. cbn [snd] in K1. injection Hx as _ _ <-. exact K1.
  Qed.
End Confine.

(* ------------------------------------------------------------------ *)
(* the tool                                                             *)

Lemma phase_disjoint r : phase1 r -> phase2 r -> False.
Proof. intros [X|[X|X]] ([Y|Y] & _); congruence. Qed.

Section Phase2Absorbing.
  Variable mktime : N -> N -> N -> N -> Z -> N -> N.
  Variable junk : N.

  Lemma next_header_inv flt st h st1 :
    next_header mktime flt st = Ok (h, st1) ->
    exists r', filter_next_file mktime flt (cs_reader st) = Ok (h, r') /\ st1 = set_reader st r'.
  Proof.
    unfold next_header. intros H. apply bind_ok in H. destruct H as ([h' r'] & Hf & H). cbv beta iota in H.
    injection H as <- <-. exists r'. split; [exact Hf|reflexivity].
  Qed.

  Lemma cli_ok_self st : reader_ok (cs_reader st) -> cli_ok (cs_fs st) st.
  Proof.
    intros Hr. split; [exact Hr|]. destruct Hr as [[P|P] _].
    - left. split; [exact P|apply kinds_refl].
    - right. split; [exact P|apply two_phase_of_early, kinds_refl].
  Qed.

  Lemma step_reader_ok flt res st res' st' :
    extract_archive_step mktime junk flt (res, st) = Ok (inl (res', st')) ->
    reader_ok (cs_reader st) -> reader_ok (cs_reader st').
  Proof.
    intros H Hr. apply (extract_archive_step_order mktime junk (cs_fs st)) in H; [|apply cli_ok_self; exact Hr].
    cbn [snd] in H. apply H.
  Qed.

  Lemma step_phase2 flt res st res' st' :
    extract_archive_step mktime junk flt (res, st) = Ok (inl (res', st')) ->
    reader_ok (cs_reader st) -> phase2 (cs_reader st) -> phase2 (cs_reader st').
  Proof.
    unfold extract_archive_step. intros H Hr P2.
    apply bind_ok in H. destruct H as ([h st1] & Hn & H). cbv beta iota in H.
    apply next_header_inv in Hn. destruct Hn as (r1 & Hf & ->).
    apply filter_next_file_ok in Hf; [|exact Hr]. destruct Hf as [Hr1 Hp].
    destruct h as [hd|]; [|discriminate].
    apply bind_ok in H. destruct H as ([r st2] & Hx & H).
    destruct r as [ok|c]; [|discriminate]. injection H as _ <-.
    apply (extract_archived_file_phase2 junk) in Hx; [exact Hx|exact Hr1|apply Hp; exact P2].
  Qed.

  Lemma iters_phase2 flt n s s' :
    iters (extract_archive_step mktime junk flt) n s s' ->
    reader_ok (cs_reader (snd s)) -> phase2 (cs_reader (snd s)) -> phase2 (cs_reader (snd s')).
  Proof.
    intros Hit. induction Hit as [s|n s s1 s2 E Hit IH]; intros Hr P; [exact P|].
    destruct s as [res sa], s1 as [res1 sb]. cbn [snd] in *.
    apply IH; [eapply step_reader_ok; eauto|eapply step_phase2; eauto].
  Qed.
End Phase2Absorbing.

Section CliConfine.
  Variable mktime : N -> N -> N -> N -> Z -> N -> N.
  Variable junk : N.
  Variable R : phys.
  Variable o0 : lha_options.                 (* the options of the invocation *)
  Hypothesis Hw : good_w o0.

  Definition names (h : header) : list N := file_full_path h o0.

  Lemma names_rel h : hdr_c11 h -> rel_path (names h).
  Proof. intros H. apply file_full_path_rel; assumption. Qed.

  (* only the overwrite policy changes during a run *)
  Definition opts_same (o : lha_options) : Prop :=
    o_extract_path o = o_extract_path o0 /\ o_use_path o = o_use_path o0.

  Lemma ffp_same h o : opts_same o -> file_full_path h o = names h.
  Proof. intros [A B]. unfold names, file_full_path. rewrite A, B. reflexivity. Qed.

  Notation rinv := (rinv names).

  (* ---- make_parent_directories ---- *)
  Definition mpd_conf (st st' : cli_state) : Prop :=
    fs_ok R (cs_fs st') /\ kinds (below_op R) (cs_fs st) (cs_fs st') /\
    cs_reader st' = cs_reader st /\ cs_opts st' = cs_opts st.

  Lemma mpd_conf_refl st : fs_ok R (cs_fs st) -> mpd_conf st st.
  Proof. intros H. split; [exact H|]. split; [apply kinds_refl|]. split; reflexivity. Qed.

  Lemma check_parent_directory_conf path st : fs_ok R (cs_fs st) -> strict_path path ->
    mpd_conf st (snd (check_parent_directory path st)).
  Proof.
    intros Hok Hp. unfold check_parent_directory.
    destruct (arch_exists (cs_fs st) path); cbn [snd]; try (apply mpd_conf_refl; exact Hok).
    - destruct (arch_mkdir_conf R (cs_fs st) path 493 Hok (strict_rel _ Hp)) as (O1 & K1 & _).
      destruct (arch_mkdir (cs_fs st) path 493) as [ok f1]. cbn [snd] in O1, K1.
      destruct (negb ok); cbn [snd]; (split; [exact O1|]; split; [exact K1|]; split; reflexivity).
    - split; [exact Hok|]. split; [apply kinds_refl|]. split; reflexivity.
    - split; [exact Hok|]. split; [apply kinds_refl|]. split; reflexivity.
  Qed.

  Lemma mpd_loop_conf full : (forall a b, full = a ++ 47 :: b -> strict_path a) ->
    forall rest pre st, rev pre ++ rest = full -> fs_ok R (cs_fs st) -> mpd_conf st (snd (mpd_loop pre rest st)).
  Proof.
    intros Hfull. induction rest as [|c r IH]; intros pre st E Hok; cbn [mpd_loop].
    - cbn [snd]. apply mpd_conf_refl. exact Hok.
    - destruct (N.eqb_spec c 47) as [->|Hc].
      + pose proof (check_parent_directory_conf (rev pre) st Hok (Hfull _ _ (eq_sym E))) as K.
        destruct (check_parent_directory (rev pre) st) as [ok st1]. cbn [snd] in K.
        destruct (negb ok); cbn [snd]; [exact K|].
        destruct K as (O1 & K1 & E1 & E2).
        assert (E' : rev (47 :: pre) ++ r = full) by (cbn [rev]; rewrite <- app_assoc; exact E).
        destruct (IH (47 :: pre) st1 E' O1) as (O2 & K2 & E3 & E4).
        split; [exact O2|]. split; [eapply kinds_trans; eassumption|]. split; congruence.
      + apply IH; [|exact Hok]. cbn [rev]. rewrite <- app_assoc. exact E.
  Qed.

  Lemma leading_slashes_rel p : is_absolute p = false -> leading_slashes p = ([], p).
  Proof.
    destruct p as [|c r]; [reflexivity|]. rewrite is_absolute_cons. intros E. cbn [leading_slashes]. rewrite E.
    reflexivity.
  Qed.

  Lemma make_parent_directories_conf s st : good_str s -> fs_ok R (cs_fs st) ->
    mpd_conf st (snd (make_parent_directories s st)).
  Proof.
    intros Hs Hok. unfold make_parent_directories.
    rewrite (leading_slashes_rel _ (good_str_strip_rel s Hs)).
    apply (mpd_loop_conf (strip_trailing_slashes s)); [|reflexivity|exact Hok].
    intros a b E. eapply parent_prefix_strict; [exact Hs|exact E|].
    intros ->. pose proof (good_str_strip_rel s Hs) as X. rewrite E in X. discriminate.
  Qed.

  (* ---- the invariant of the main phase ---- *)
  Definition Dinv (f0 : fs) (st : cli_state) : Prop :=
    reader_ok (cs_reader st) /\ phase1 (cs_reader st) /\ rinv (cs_reader st) /\
    fs_ok R (cs_fs st) /\ kinds (below_op R) f0 (cs_fs st) /\ opts_same (cs_opts st).

  Lemma Dinv_same f0 st st' : cli_same st st' -> Dinv f0 st -> Dinv f0 st'.
  Proof.
    intros (A & B & C & D) (I1 & I2 & I3 & I4 & I5 & [I6 I7]). unfold Dinv. rewrite A.
    split; [eapply req_reader_ok; eauto|]. split; [eapply req_phase1; eauto|].
    split; [eapply rinv_req; eauto|]. split; [exact I4|]. split; [exact I5|]. split; congruence.
  Qed.

  Lemma extract_archived_file_conf f0 h st v st' :
    extract_archived_file junk h st = Ok (v, st') -> rd_curr (cs_reader st) = Some h -> Dinv f0 st -> Dinv f0 st'.
  Proof.
    rewrite extract_archived_file_unfold. cbv zeta. intros H Ec Hi.
    assert (En : file_full_path h (cs_opts st) = names h) by (apply ffp_same; apply Hi).
    rewrite En in H.
    apply cbind_ok in H. destruct H as [(c & H & _)|(skip & st1 & Hs & H)].
    { apply skip_block_same in H. eapply Dinv_same; eauto. }
    apply skip_block_same in Hs.
    assert (Ec1 : rd_curr (cs_reader st1) = Some h) by (destruct Hs as (_ & (_ & B & _) & _); congruence).
    apply (Dinv_same f0 _ _ Hs) in Hi. clear Hs.
    destruct skip.
    { injection H as _ <-. destruct (is_skip _); [eapply Dinv_same; [apply cli_same_put_out|exact Hi]|exact Hi]. }
    destruct (negb (o_use_path (cs_opts st1)) && _); [injection H as _ <-; exact Hi|].
    destruct Hi as (I1 & I2 & I3 & I4 & I5 & I6).
    assert (Hg : good_str (names h)) by (apply file_full_path_good; [apply (ri_curr _ _ I3); exact Ec1|exact Hw]).
    pose proof (make_parent_directories_conf (names h) st1 Hg I4) as Km.
    destruct (make_parent_directories (names h) st1) as [okp st2]. cbn [snd] in Km.
    destruct Km as (O2 & K2 & Er & Eo).
    assert (Hi2 : Dinv f0 st2).
    { unfold Dinv. rewrite Er, Eo. repeat (split; [assumption|]). split; [|exact I6].
      eapply kinds_trans; eassumption. }
    destruct (negb okp); [injection H as _ <-; exact Hi2|].
    apply bind_ok in H. destruct H as ([[[success evs] r'] f'] & Hx & H). cbv beta iota in H.
    pose proof Hx as Hx'.
    rewrite <- Er in I1, I2, I3, Ec1.
    apply reader_extract_order in Hx'; [|exact I1]. destruct Hx' as (Hr' & Et & _).
    apply (reader_extract_conf junk R names names_rel) in Hx; try assumption.
    destruct Hx as [[O3 K3] I3'].
    assert (G : Dinv f0 (set_fs (set_reader st2 r') f')).
    { unfold Dinv. cbn [cs_reader cs_fs cs_opts set_fs set_reader].
      split; [exact Hr'|]. split; [unfold phase1 in *; rewrite Et; exact I2|]. split; [exact I3'|].
      split; [exact O3|]. split; [eapply kinds_trans; [exact I5|eapply kinds_trans; eassumption]|].
      rewrite Eo. exact I6. }
    injection H as _ <-.
    match goal with |- Dinv f0 (if ?c then _ else _) => destruct c end;
      [|eapply Dinv_same; [apply cli_same_put_out|exact G]].
    destruct (invoked evs).
    - eapply Dinv_same; [|exact G]. eapply cli_same_trans; apply cli_same_put_out.
    - destruct (h_symlink_target h).
      + eapply Dinv_same; [|exact G]. eapply cli_same_trans; apply cli_same_put_out.
      + eapply Dinv_same; [apply cli_same_put_out|exact G].
  Qed.

  (* lha_filter_next_file: the header returned is the reader's current header *)
  Lemma filter_next_file_conf flt r h r' :
    filter_next_file mktime flt r = Ok (h, r') -> reader_ok r -> (phase1 r -> rinv r) ->
    reader_ok r' /\ (phase1 r' -> rinv r' /\ rd_curr r' = h).
  Proof.
    unfold filter_next_file. intros H Hok Hi.
    apply (loop_inv (filter_step mktime flt) (fun s => reader_ok s /\ (phase1 s -> rinv s))
                    (fun x => reader_ok (snd x) /\ (phase1 (snd x) -> rinv (snd x) /\ rd_curr (snd x) = fst x))) in H.
    - exact H.
    - clear. intros s x [Hok Hi]. unfold filter_step. intros H.
      apply bind_ok in H. destruct H as ([h r1] & Hn & H). cbv beta iota in H.
      pose proof Hn as Hn'. apply next_file_ok in Hn'; [|exact Hok]. destruct Hn' as (A & B & _).
      assert (G : phase1 r1 -> rinv r1 /\ rd_curr r1 = h).
      { intros P1. destruct Hok as [[P|P] _].
        - eapply next_file_rinv; eauto.
        - exfalso. eapply phase_disjoint; [exact P1|apply B; exact P]. }
      destruct h as [hd|]; [destruct (matches_filter flt hd)|]; injection H as <-; cbn [fst snd];
        (split; [exact A|]); try exact G. intros P1. apply G. exact P1.
    - split; assumption.
  Qed.

  Lemma extract_archive_step_conf f0 flt result st result' st' :
    extract_archive_step mktime junk flt (result, st) = Ok (inl (result', st')) ->
    Dinv f0 st -> phase1 (cs_reader st') -> Dinv f0 st'.
  Proof.
    unfold extract_archive_step. intros H Hi P1.
    apply bind_ok in H. destruct H as ([h st1] & Hn & H). cbv beta iota in H.
    apply (next_header_inv mktime) in Hn. destruct Hn as (r1 & Hf & ->).
    destruct Hi as (I1 & I2 & I3 & I4 & I5 & I6).
    apply filter_next_file_conf in Hf; [|exact I1|intros _; exact I3]. destruct Hf as [Hr1 Hc].
    destruct h as [hd|]; [|discriminate].
    apply bind_ok in H. destruct H as ([r st2] & Hx & H).
    destruct r as [ok|c]; [|discriminate]. injection H as _ <-.
    destruct Hr1 as [[Q|Q] Hsort].
    - destruct (Hc Q) as [I3' Ec]. eapply extract_archived_file_conf; [exact Hx|exact Ec|].
      unfold Dinv. cbn [cs_reader cs_fs cs_opts set_reader]. split; [split; [left; exact Q|exact Hsort]|].
      repeat (split; [assumption|]). exact I6.
    - exfalso. apply (extract_archived_file_phase2 junk) in Hx; [|split; [right; exact Q|exact Hsort]|exact Q].
      eapply phase_disjoint; eauto.
  Qed.

  (* MAIN-PHASE CONFINEMENT.  After any number of entries, as long as the reader has
     not begun to present the deferred links: every operation logged so far resolved
     below R, and every symbolic link below R is still safe. *)
  Theorem main_phase_confined_gen flt st0 n b st :
    fs_ok R (cs_fs st0) ->                              (* cwd = R, every link below R safe (e.g. none) *)
    cs_opts st0 = o0 ->
    reader_ok (cs_reader st0) -> phase1 (cs_reader st0) -> rinv (cs_reader st0) ->
    iters (extract_archive_step mktime junk flt) n (true, st0) (b, st) ->
    phase1 (cs_reader st) ->
    kinds (below_op R) (cs_fs st0) (cs_fs st) /\ fs_ok R (cs_fs st).
  Proof.
    intros Hok Ho Hr0 Hp0 Hi0 H P1.
    assert (H0 : Dinv (cs_fs st0) st0).
    { unfold Dinv. rewrite Ho. repeat (split; [assumption|]). split; [apply kinds_refl|split; reflexivity]. }
    assert (Gen : forall f0 n' s s', iters (extract_archive_step mktime junk flt) n' s s' ->
                  Dinv f0 (snd s) -> phase1 (cs_reader (snd s')) -> Dinv f0 (snd s')).
    { intros f0 n' s s' Hit. clear - Hit Hw. induction Hit as [s|n s s1 s2 E Hit IH]; intros Hi P; [exact Hi|].
      apply IH; [|exact P].
      (* the intermediate state is still in the main phase: otherwise the end would not be *)
      destruct s as [res sa], s1 as [res1 sb]. cbn [snd] in *.
      assert (Hrb : reader_ok (cs_reader sb)) by (eapply step_reader_ok; [exact E|apply Hi]).
      destruct Hrb as [[Pb|Pb] Hsb].
      - eapply extract_archive_step_conf; eauto.
      - exfalso. apply (iters_phase2 _ _ _ _ _ _ Hit) in Pb; [|split; [right; exact Pb|exact Hsb]].
        eapply phase_disjoint; eauto. }
    apply (Gen (cs_fs st0)) in H; [|exact H0|exact P1]. cbn [snd] in H.
    destruct H as (_ & _ & _ & A & B & _). split; assumption.
  Qed.

  (* the way do_command starts it: a new reader on the archive *)
  Theorem main_phase_confined flt st0 strm n b st :
    fs_ok R (cs_fs st0) -> cs_opts st0 = o0 -> cs_reader st0 = lha_reader_new strm ->
    iters (extract_archive_step mktime junk flt) n (true, st0) (b, st) ->
    phase1 (cs_reader st) ->
    kinds (below_op R) (cs_fs st0) (cs_fs st) /\ fs_ok R (cs_fs st).
  Proof.
    intros Hok Ho Er. destruct (reader_new_ok strm) as [A B].
    apply main_phase_confined_gen; try assumption; rewrite Er; try assumption. apply rinv_new.
  Qed.

  (* the step that leaves the main phase -- the parent directories, the unlink and the
     creation of the FIRST deferred link -- is still below R: the tree is safe until
     that link exists *)
  Theorem first_deferred_link_confined h st v st' :
    extract_archived_file junk h st = Ok (v, st') ->
    fs_ok R (cs_fs st) -> opts_same (cs_opts st) -> hdr_c11 h ->
    rd_type (cs_reader st) = CT_DEFERRED_SYMLINK ->
    kinds (below_op R) (cs_fs st) (cs_fs st').
  Proof.
    rewrite extract_archived_file_unfold. cbv zeta. intros H Hok Ho Hc Et.
    rewrite (ffp_same h _ Ho) in H.
    apply cbind_ok in H. destruct H as [(c & H & _)|(skip & st1 & Hs & H)].
    { apply skip_block_same in H. destruct H as (A & _). rewrite A. apply kinds_refl. }
    apply skip_block_same in Hs. destruct Hs as (A & (B & _) & _). rewrite <- A in *. rewrite <- B in Et. clear A B.
    destruct skip.
    { injection H as _ <-. destruct (is_skip _); apply kinds_refl. }
    destruct (negb (o_use_path (cs_opts st1)) && _); [injection H as _ <-; apply kinds_refl|].
    assert (Hg : good_str (names h)) by (apply file_full_path_good; assumption).
    pose proof (make_parent_directories_conf (names h) st1 Hg Hok) as Km.
    destruct (make_parent_directories (names h) st1) as [okp st2]. cbn [snd] in Km.
    destruct Km as (O2 & K2 & Er & Eo).
    destruct (negb okp); [injection H as _ <-; exact K2|].
    apply bind_ok in H. destruct H as ([[[success evs] r'] f'] & Hx & H). cbv beta iota in H.
    apply (deferred_symlink_conf junk R) in Hx; [|rewrite Er; exact Et|apply names_rel; exact Hc|exact O2].
    assert (G : kinds (below_op R) (cs_fs st1) f') by (eapply kinds_trans; eassumption).
    injection H as _ <-.
    match goal with |- kinds _ _ (cs_fs (if ?c then _ else _)) => destruct c end; [|exact G].
    destruct (invoked evs); [exact G|]. destruct (h_symlink_target h); exact G.
  Qed.
End CliConfine.

(* do_command x: the loop of extract_archive runs on a process whose filesystem is the
   caller's, whose options are the parsed ones and whose reader is new *)
Lemma do_command_extract_start mktime junk localtime now stdin_kind strerror filename filters st0 v st :
  o_dry_run (cs_opts st0) = false ->
  do_command mktime junk localtime now stdin_kind strerror MODE_EXTRACT filename filters st0 = Ok (v, st) ->
  (st = put_err st0 (s_lha_error ++ filename ++ [32] ++ strerror (match fs_fopen_rb (cs_fs st0) filename with
                                                                 | OpenFail e => e | _ => true end) ++ [10]) /\
   cs_fs st = cs_fs st0) \/
  exists st1 strm, cs_fs st1 = cs_fs st0 /\ cs_opts st1 = cs_opts st0 /\ cs_reader st1 = lha_reader_new strm /\
    loop (extract_archive_step mktime junk (lha_filter_init filters)) 40 (true, st1) = Ok (v, st).
Proof.
  intros Hd. unfold do_command.
  match goal with |- cbind ?m _ = _ -> _ => destruct m as [[[[[src mt] shared]|c] sta]| |] eqn:Eo end;
    cbn [cbind]; try discriminate.
  2:{ intros H. injection H as _ <-. left.
      destruct (is_dash filename); [discriminate|].
      destruct (fs_fopen_rb (cs_fs st0) filename); try discriminate.
      injection Eo as _ <-. split; reflexivity. }
  assert (Ea : sta = st0).
  { destruct (is_dash filename); [injection Eo as _ _ _ <-; reflexivity|].
    destruct (fs_fopen_rb (cs_fs st0) filename); try discriminate; injection Eo as _ _ _ <-; reflexivity. }
  subst sta. clear Eo. unfold extract_archive. cbn [cs_opts]. rewrite Hd. intros H. right.
  eexists. eexists. split; [|split; [|split; [|exact H]]]; reflexivity.
Qed.

(* ------------------------------------------------------------------ *)
(* non-vacuity: directory d/, file d/f ("hi"), safe link d/s -> f, dangerous link
   d/x -> ../y, extracted with `lha xf` in the clean test tree: exit status 0, twelve
   operations, all below /root; the dangerous link is created last, after the
   metadata of d/ has been set *)
Definition example_archive : list N :=
  [36;0;45;108;104;100;45;0;0;0;0;0;0;0;0;133;226;1;32;32;2;0;0;85;5;0;2;100;255;5;0;80;237;65;0;0;40;
     0;45;108;104;48;45;2;0;0;0;2;0;0;0;133;226;1;32;32;2;239;238;85;4;0;1;102;5;0;2;100;255;5;0;80;
     164;129;0;0;104;105;42;0;45;108;104;100;45;0;0;0;0;0;0;0;0;133;226;1;32;32;2;0;0;85;6;0;1;115;
     124;102;5;0;2;100;255;5;0;80;255;161;0;0;45;0;45;108;104;100;45;0;0;0;0;0;0;0;0;133;226;1;32;32;
     2;0;0;85;4;0;1;121;10;0;2;100;255;120;124;46;46;255;5;0;80;255;161;0;0;0].

Definition example_run : outcome cli_result :=
  cli_run mktime_utc gmtime_utc (fun _ => []) false 1300000000 1200000000
          [[108;104;97]; [120;102]; [47;97;114;99;47;97;46;108;122;104]] example_archive [] [].

Definition inside_root (o : fsop) : bool :=
  match op_loc o with n :: _ => name_eqb n bytes_root | [] => false end.

Example main_phase_example :
  exists r rest, example_run = Ok r /\ cr_exit r = 0 /\
    fs_trace (cr_fs r) = OpSymlink [bytes_root; [100]; [120]] [46; 46; 47; 121]
                         :: OpUnlink [bytes_root; [100]; [120]] :: rest /\
    length rest = 10%nat /\
    forallb inside_root (fs_trace (cr_fs r)) = true /\
    existsb is_dangerous_op rest = false /\
    existsb (fun o => match o with OpSymlink _ [102] => true | _ => false end) rest = true.
Proof.
  eexists. eexists. split; [vm_compute; reflexivity|]. split; [vm_compute; reflexivity|].
  split; [vm_compute; reflexivity|]. repeat split; vm_compute; reflexivity.
Qed.

Print Assumptions reader_extract_conf.
Print Assumptions main_phase_confined_gen.
Print Assumptions main_phase_confined.
Print Assumptions first_deferred_link_confined.
Print Assumptions do_command_extract_start.
Print Assumptions main_phase_example.

(* P_CliTreeGen.v -- C06, options w=DIR and i.

   [forest_run_gen]: forest_run of P_CliTree.v with a base location bl (a list
   of directory names below the current directory): every path of the archive
   is built below bl.  bl = [] is "lha x"; bl = the components of DIR is
   "lha xw=DIR" once DIR exists (it is created, with its parents, by the first
   make_parent_directories call: see P_CliWdir below). *)
From Lhasa Require Import Base ListN DecBase Loop Generated Crc16 InputStream Header BasicReader
  AnyDecoder Decoder MacBinary Fs FsRun Reader Glob ListOut CliFilter CliExtract
  P_ReaderCheck P_FsExtract P_ReaderExtract P_CliExtract P_CliTree P_FsReplace P_CliOverwrite P_CliExtractGen.
From Coq Require Import ZifyBool ZifyN ZifyNat.
Local Open Scope N_scope.

Set Default Timeout 120.

(* the paths of the items, below bl, are not longer than PATH_MAX - 1 *)
Fixpoint fits (bl dl : list name) (it : item) : Prop :=
  match it with
  | IFile c _ _ => nlen (dirstr (bl ++ dl) ++ c) <= 4095
  | ILink c _ _ => nlen (dirstr (bl ++ dl) ++ c) <= 4095
  | IDir c _ sub => nlen (dirstr ((bl ++ dl) ++ [c])) <= 4095 /\
                    (fix all (l : list item) : Prop :=
                       match l with [] => True | x :: r => fits bl (dl ++ [c]) x /\ all r end) sub
  end.

Lemma fits_all bl dl : forall l,
  (fix all (l : list item) : Prop := match l with [] => True | x :: r => fits bl dl x /\ all r end) l <->
  Forall (fits bl dl) l.
Proof.
  induction l as [|x r IH].
  - split; intros H; [constructor|exact I].
  - split; intros H.
    + destruct H as [H1 H2]. constructor; [exact H1|apply IH; exact H2].
    + inversion H; subst. split; [assumption|]. apply IH. assumption.
Qed.

(* options under which the stored path dl/name is extracted to bl/dl/name *)
Definition pfx_opts (bl : list name) (o : lha_options) : Prop :=
  o_use_path o = true /\ o_dry_run o = false /\
  forall h dl, Forall good_name dl -> opt_str (h_path h) = dirstr dl ->
    file_full_path h o = dirstr (bl ++ dl) ++ match h_filename h with Some f => skip_slashes f | None => [] end.

Lemma pfx_plain o : plain_opts o -> pfx_opts [] o.
Proof.
  intros Hp. pose proof Hp as (A & B & C). split; [exact A|]. split; [exact C|].
  intros h dl Hg Hpath. apply full_path_eq; assumption.
Qed.

(* w=DIR with DIR = d1/.../dk *)
Lemma pfx_wdir o e bl : o_use_path o = true -> o_dry_run o = false -> o_extract_path o = Some e ->
  e ++ [47] = dirstr bl -> pfx_opts bl o.
Proof.
  intros A C He Hbl. split; [exact A|]. split; [exact C|].
  intros h dl Hg Hpath. unfold file_full_path. rewrite He, A, Hbl, dirstr_app, <- !app_assoc. f_equal. f_equal.
  destruct (h_path h) as [pp|]; cbn [opt_str] in Hpath.
  - rewrite Hpath. apply skip_slashes_dirstr. exact Hg.
  - exact Hpath.
Qed.

Section ForestGen.
  Variable mktime : N -> N -> N -> N -> Z -> N -> N.
  Variable junk : N.
  Variable f : lha_filter.
  Hypothesis Hnofilter : f_filters f = [].
  Variables (u : N) (uid0 : bool).
  Hypothesis Humask : umask_ok u.
  Variable bl : list name.

  Notation step := (extract_archive_step mktime junk f).
  Notation upcoming := (upcoming mktime junk).
  Notation positioned := (positioned mktime junk).
  Notation iters_one := (iters_one mktime junk f).
  Notation outside_child := (outside_child u uid0).

  Lemma forest_run_gen : forall n its, (sizes its <= n)%nat -> forall dl rest st b o pm t ents stk,
    Forall (wf_item u uid0 dl) its -> Forall (fits bl dl) its -> NoDup (map iname its) -> (forall c, In c (map iname its) -> lookup ents c = None) ->
    pfx_opts bl (cs_opts st) -> fs_umask (cs_fs st) = u -> fs_uid0 (cs_fs st) = uid0 ->
    dir_ready (cs_fs st) (bl ++ dl) o pm t ents -> N.land pm 1024 = 0 ->
    rinv (cs_reader st) stk -> stack_ok stk dl ->
    upcoming (cs_reader st) (flat_map ser its ++ rest) -> outside dl rest ->
    exists st', iters step (sizes its) (b, st) (b, st') /\
      cs_opts st' = cs_opts st /\ same_env (cs_fs st) (cs_fs st') /\
      rinv (cs_reader st') stk /\ upcoming (cs_reader st') rest /\
      match its with
      | [] => st' = st
      | _ => fs_root (cs_fs st') = update_at (fs_root (cs_fs st)) (fs_cwd (cs_fs st) ++ bl ++ dl)
                                     (const_some (Dir o pm now (ents ++ builds u its)))
      end.
  Proof.
    induction n as [|n IHn]; intros its Hsz dl rest st b o pm t ents stk Hwf Hfit Hnd Hfresh Hopts Hum Huid Hready Hsg Hrinv Hso Hup Hout.
    - destruct its as [|it more].
      + exists st. split; [constructor|]. split; [reflexivity|]. split; [apply same_env_refl|]. auto.
      + exfalso. cbn [sizes fold_right] in Hsz. destruct it; cbn [size] in Hsz; lia.
    - destruct its as [|it more].
      + exists st. split; [constructor|]. split; [reflexivity|]. split; [apply same_env_refl|]. auto.
      + inversion Hwf as [|it0 more0 Hit Hmore]; subst it0 more0. inversion Hfit as [|it1 more1 Hfi Hfm]; subst it1 more1. cbn [map] in Hnd. inversion Hnd as [|c0 l0 Hnin Hnd']; subst c0 l0.
        assert (Hsz1 : (1 <= size it)%nat) by (destruct it; cbn [size]; lia).
        assert (Hszs : sizes (it :: more) = (size it + sizes more)%nat) by reflexivity.
        (* after the head item, the tail *)
        assert (Htail : forall st1, iters step (size it) (b, st) (b, st1) ->
                  cs_opts st1 = cs_opts st -> same_env (cs_fs st) (cs_fs st1) -> rinv (cs_reader st1) stk ->
                  upcoming (cs_reader st1) (flat_map ser more ++ rest) ->
                  fs_root (cs_fs st1) = update_at (fs_root (cs_fs st)) (fs_cwd (cs_fs st) ++ bl ++ dl)
                                          (const_some (Dir o pm now (ents ++ [(iname it, build u it)]))) ->
                  exists st', iters step (sizes (it :: more)) (b, st) (b, st') /\
                    cs_opts st' = cs_opts st /\ same_env (cs_fs st) (cs_fs st') /\
                    rinv (cs_reader st') stk /\ upcoming (cs_reader st') rest /\
                    fs_root (cs_fs st') = update_at (fs_root (cs_fs st)) (fs_cwd (cs_fs st) ++ bl ++ dl)
                                            (const_some (Dir o pm now (ents ++ builds u (it :: more))))).
        { intros st1 Hit1 Hopts1 Henv1 Hrinv1 Hup1 Hroot1.
          assert (Hready1 : dir_ready (cs_fs st1) (bl ++ dl) o pm now (ents ++ [(iname it, build u it)])).
          { eapply dir_ready_update; eauto. }
          destruct (IHn more ltac:(lia) dl rest st1 b o pm now (ents ++ [(iname it, build u it)]) stk) as
              (st' & Hit' & Hopts' & Henv' & Hrinv' & Hup' & Hroot'); auto.
          { intros c Hin. rewrite lookup_app_none by (apply Hfresh; right; exact Hin). cbn [lookup].
            rewrite name_eqb_neq; [reflexivity|]. intros E. subst c. contradiction. }
          { rewrite Hopts1. exact Hopts. }
          { destruct Henv1 as (_ & _ & E). congruence. }
          { destruct Henv1 as (_ & E & _). congruence. }
          exists st'. split; [rewrite Hszs; eapply iters_app; eauto|].
          split; [congruence|]. split; [exact (same_env_trans _ _ _ Henv1 Henv')|].
          split; [exact Hrinv'|]. split; [exact Hup'|].
          destruct more as [|x more'].
          - subst st'. rewrite Hroot1. reflexivity.
          - rewrite Hroot', Hroot1. destruct Henv1 as (Ec & _ & _). rewrite Ec, update_const_twice.
            cbn [builds map]. rewrite <- app_assoc. reflexivity. }
        pose proof Hrinv as (Hpol & Hdef & Hstk & Htyne).
        pose proof Hopts as (Hu & Hdry & Hfull).
        assert (Hgdl : Forall good_name dl) by (destruct Hready as (Hg0 & _); apply Forall_app in Hg0; apply Hg0).
        destruct it as [c h bs|c h tgt|c h sub]; cbn [wf_item] in Hit; cbn [fits] in Hfi; cbn [iname build] in Htail; cbn [iname] in Hnin;
          cbn [flat_map ser app] in Hup.
        * (* a regular file *)
          destruct Hit as (Hc & Hlen & Hfh & Hmode). destruct Hfh as (Hp & Hf & Hdm & Hsl & Hos).
          assert (Hfn : file_full_path h (cs_opts st) = dirstr (bl ++ dl) ++ c) by (rewrite (Hfull h dl Hgdl Hp), Hf, (skip_slashes_name c Hc); reflexivity).
          destruct (present_entry mktime junk (cs_reader st) stk dl _ (MFile h bs) (dirstr dl) Hrinv Hso Hup)
            as (br1 & Hpos & Hnext); [apply hpath_some; exact Hp|exact Hp|apply is_prefix_refl|].
          cbn [hdr] in Hnext. set (r1 := mk_reader br1 (Some h) CT_NORMAL stk false) in *.
          inversion Hpos as [|br0 h0 bs0 ms0 Hcur Hdec|]; subst br0 h0 bs0 ms0.
          destruct (Hdec r1 eq_refl eq_refl eq_refl) as (r2 & Hmem & x & br' & Hbn & Hpos').
          assert (Hl0 : lookup ents c = None) by (apply Hfresh; left; reflexivity).
          assert (Hmode' : fs_uid0 (cs_fs st) = true \/ drop_setid (file_mode (cs_fs st) h) = file_mode (cs_fs st) h).
          { rewrite file_mode_fmode, Hum. destruct Hmode as [Hm|Hm]; [left; congruence|right; exact Hm]. }
          destruct (gen_file junk h (set_reader st r1) (bl ++ dl) c o pm t ents bs r2) as (st2 & Hex & Hrd2 & Hopts2 & Henv2 & Hroot2); auto.
          cbn [cs_fs set_reader cs_opts] in *.
          pose proof (member_ok_book junk r1 h bs r2 Hmem) as Hbook. unfold book in Hbook. cbn [r1 mk_reader rd_curr rd_type rd_policy rd_dir_stack rd_deferred rd_linked] in Hbook.
          injection Hbook as B1 B2 B3 B4 B5 B6.
          apply (Htail st2).
          { apply iters_one. eapply step_entry; eauto. }
          { exact Hopts2. } { exact Henv2. }
          { rewrite Hrd2. split; [exact B3|]. split; [exact B5|]. split; [exact B4|]. rewrite B2. discriminate. }
          { rewrite Hrd2. exists br'. split; [|exact Hpos']. unfold fetch. rewrite B2, Hbn. reflexivity. }
          { rewrite Hroot2, file_mode_fmode, Hum. reflexivity. }
        * (* a safe symbolic link *)
          destruct Hit as (Hc & Hlen & Hlh). destruct Hlh as (Hp & Hf & Hdm & Hsl & Hsafe & Htne & Htlen).
          assert (Hfn : file_full_path h (cs_opts st) = dirstr (bl ++ dl) ++ c) by (rewrite (Hfull h dl Hgdl Hp), Hf, (skip_slashes_name c Hc); reflexivity).
          destruct (present_entry mktime junk (cs_reader st) stk dl _ (MOther h) (dirstr dl) Hrinv Hso Hup)
            as (br1 & Hpos & Hnext); [apply hpath_some; exact Hp|exact Hp|apply is_prefix_refl|].
          cbn [hdr] in Hnext. set (r1 := mk_reader br1 (Some h) CT_NORMAL stk false) in *.
          inversion Hpos as [| |br0 h0 ms0 x br' Hcur Hbn Hpos']; subst br0 h0 ms0.
          assert (Hl0 : lookup ents c = None) by (apply Hfresh; left; reflexivity).
          destruct (gen_link junk h (set_reader st r1) (bl ++ dl) c o pm t ents tgt) as (st2 & Hex & Hopts2 & Hrd2 & Henv2 & Hroot2); auto.
          cbn [cs_fs set_reader cs_opts cs_reader] in *.
          apply (Htail st2).
          { apply iters_one. eapply step_entry; eauto. }
          { exact Hopts2. } { exact Henv2. }
          { rewrite Hrd2. repeat split; discriminate. }
          { rewrite Hrd2. exists br'. split; [|exact Hpos']. unfold fetch. cbn [r1 mk_reader rd_type rd_br]. rewrite Hbn. reflexivity. }
          { exact Hroot2. }
        * (* a directory, its contents, its fake entry *)
          destruct Hit as (Hc & Hlen & Hdh & Hndsub & Hwfsub). apply wf_all in Hwfsub. destruct Hdh as (Hp & Hf & Hdm & Hsl).
          destruct Hfi as (Hlenb & Hfitsub). apply fits_all in Hfitsub.
          assert (Hps : opt_str (h_path h) = dirstr (dl ++ [c])) by (rewrite Hp; reflexivity).
          assert (Hgdlc : Forall good_name (dl ++ [c])) by (apply Forall_app; split; [exact Hgdl|constructor; [exact Hc|constructor]]).
          assert (Hfn : file_full_path h (cs_opts st) = dirstr ((bl ++ dl) ++ [c])) by (rewrite (Hfull h (dl ++ [c]) Hgdlc Hps), Hf, app_nil_r, app_assoc; reflexivity).
          destruct (present_entry mktime junk (cs_reader st) stk dl _ (MOther h) (dirstr (dl ++ [c])) Hrinv Hso Hup)
            as (br1 & Hpos & Hnext); [left; exact Hp|exact Hps|rewrite dirstr_app; apply is_prefix_app|].
          cbn [hdr] in Hnext. set (r1 := mk_reader br1 (Some h) CT_NORMAL stk false) in *.
          inversion Hpos as [| |br0 h0 ms0 x br' Hcur Hbn Hpos']; subst br0 h0 ms0.
          assert (Hl0 : lookup ents c = None) by (apply Hfresh; left; reflexivity).
          destruct (gen_dir junk h (set_reader st r1) (bl ++ dl) c o pm t ents) as (st2 & Hex & Hopts2 & Henv2 & Hrd2 & Hroot2); auto.
          cbn [cs_fs set_reader cs_opts cs_reader r1 mk_reader rd_br rd_curr rd_type rd_decoder rd_inner rd_policy rd_dir_stack rd_deferred] in *.
          rewrite Hum in Hroot2. set (m := dir_first_mode u h) in *.
          assert (Hready2 : dir_ready (cs_fs st2) (bl ++ dl) o pm now (ents ++ [(c, Dir true m now [])])).
          { eapply (dir_ready_update (cs_fs st) (cs_fs st2)); [exact Hready|exact Henv2|exact Hroot2]. }
          destruct (dir_req_bits h) as [R6 R7].
          destruct (mkdir_mode_owner u (dir_req h) (fs_uid0 (cs_fs st2)) now [] Humask R6 R7) as [Hsrch Hwrt].
          assert (Hready2' : dir_ready (cs_fs st2) (bl ++ dl ++ [c]) true m now []).
          { rewrite app_assoc. eapply dir_ready_enter; eauto. }
          rewrite <- app_assoc in Hpos'.
          destruct (IHn sub ltac:(cbn [sizes fold_right size] in Hsz; unfold sizes; lia) (dl ++ [c]) (flat_map ser more ++ rest) st2 b
                        true m now [] (h :: stk)) as (st3 & Hit3 & Hopts3 & Henv3 & Hrinv3 & Hup3 & Hroot3); auto.
          { rewrite Hopts2. exact Hopts. }
          { destruct Henv2 as (_ & _ & E). congruence. }
          { destruct Henv2 as (_ & E & _). congruence. }
          { apply mkdir_mode_nosgid. }
          { rewrite Hrd2. repeat split; discriminate. }
          { right. split; [destruct dl; discriminate|]. exists h, stk. split; [reflexivity|exact Hp]. }
          { rewrite Hrd2. exists br'. split; [|exact Hpos']. unfold fetch. cbn [rd_type rd_br]. rewrite Hbn. reflexivity. }
          { apply outside_child; auto. }
          (* the state after the contents, in terms of the state before the directory entry *)
          assert (Hcwd2 : fs_cwd (cs_fs st2) = fs_cwd (cs_fs st)) by apply Henv2.
          assert (Hroot3' : fs_root (cs_fs st3) = update_at (fs_root (cs_fs st)) (fs_cwd (cs_fs st) ++ bl ++ dl)
                              (const_some (Dir o pm now (ents ++ [(c, Dir true m now (builds u sub))])))).
          { destruct sub as [|y sub'].
            - subst st3. exact Hroot2.
            - rewrite Hroot3, Hcwd2, (app_assoc bl), app_assoc.
              destruct Hready2 as (_ & _ & Hn2 & _). rewrite Hcwd2 in Hn2.
              rewrite (update_loc_to_parent _ _ o pm now _ c _ Hn2), (set_ent_last _ _ _ _ Hl0), Hroot2.
              apply update_const_twice. }
          assert (Henv23 : same_env (cs_fs st) (cs_fs st3)) by exact (same_env_trans _ _ _ Henv2 Henv3).
          assert (Hready3 : dir_ready (cs_fs st3) (bl ++ dl) o pm now (ents ++ [(c, Dir true m now (builds u sub))])).
          { eapply (dir_ready_update (cs_fs st) (cs_fs st3)); [exact Hready|exact Henv23|exact Hroot3']. }
          (* the fake entry *)
          destruct (present_fake mktime junk (cs_reader st3) h stk dl c (flat_map ser more ++ rest) Hrinv3 Hp Hup3)
            as (br3 & Hpos3 & Hnext3); [apply outside_child; auto|].
          set (r4 := mk_reader br3 (Some h) CT_FAKE_DIR stk false) in *.
          assert (Hfn3 : file_full_path h (cs_opts (set_reader st3 r4)) = dirstr ((bl ++ dl) ++ [c])).
          { cbn [cs_opts set_reader]. rewrite Hopts3, Hopts2. exact Hfn. }
          assert (Hu3 : o_use_path (cs_opts (set_reader st3 r4)) = true).
          { cbn [cs_opts set_reader]. rewrite Hopts3, Hopts2. exact Hu. }
          assert (Hl3 : lookup (ents ++ [(c, Dir true m now (builds u sub))]) c = Some (Dir true m now (builds u sub))).
          { apply lookup_last. exact Hl0. }
          destruct (gen_fake junk h (set_reader st3 r4) (bl ++ dl) c o pm now (ents ++ [(c, Dir true m now (builds u sub))]) m (builds u sub))
            as (st5 & Hex5 & Hopts5 & Hrd5 & Hmeta); auto.
          cbn [cs_fs set_reader cs_opts cs_reader] in *.
          destruct Hmeta as (Henv5 & _ & ents5 & Hn5 & Hl5 & Hcase).
          apply (Htail st5).
          { replace (size (IDir c h sub)) with (1 + (sizes sub + 1))%nat by (cbn [size]; unfold sizes; lia).
            eapply iters_app; [apply iters_one; eapply step_entry; eauto|].
            eapply iters_app; [exact Hit3|]. apply iters_one. eapply step_entry; eauto. }
          { congruence. }
          { exact (same_env_trans _ _ _ Henv23 Henv5). }
          { rewrite Hrd5. repeat split; discriminate. }
          { rewrite Hrd5. apply upcoming_mk. exact Hpos3. }
          { assert (Hcwd3 : fs_cwd (cs_fs st3) = fs_cwd (cs_fs st)) by apply Henv23.
            unfold dir_final_mode. fold m.
            destruct Hcase as [[Hr5 He5]|[Hr5 He5]].
            - subst ents5. rewrite (lookup_last _ _ _ Hl0) in Hl5. injection Hl5 as E1 E2.
              rewrite Hr5, Hroot3'. unfold builds. congruence.
            - rewrite Hr5, Hcwd3, Hroot3', update_const_twice, (set_ent_last _ _ _ _ Hl0). reflexivity. }
  Qed.

  (* the whole command, below bl (which exists) *)
  Theorem extract_archive_below its st o pm t ents :
    let s := cs_fs st in
    Forall (wf_item u uid0 []) its -> Forall (fits bl []) its -> NoDup (map iname its) ->
    (forall c, In c (map iname its) -> lookup ents c = None) ->
    pfx_opts bl (cs_opts st) -> fs_umask s = u -> fs_uid0 s = uid0 ->
    dir_ready s bl o pm t ents -> N.land pm 1024 = 0 ->
    rinv (cs_reader st) [] -> upcoming (cs_reader st) (flat_map ser its) ->
    N.of_nat (sizes its) < 2 ^ 40 ->
    exists st', extract_archive mktime junk f st = Ok (RVal true, st') /\
      same_env s (cs_fs st') /\ cs_opts st' = cs_opts st /\
      match its with
      | [] => cs_fs st' = s
      | _ => fs_root (cs_fs st') = update_at (fs_root s) (fs_cwd s ++ bl) (const_some (Dir o pm now (ents ++ builds u its)))
      end.
  Proof.
    intros s Hwf Hfit Hnd Hfresh Hopts Hum Huid Hready Hsg Hrinv Hup Hsz.
    rewrite <- (app_nil_r (flat_map ser its)) in Hup. rewrite <- (app_nil_r bl) in Hready.
    destruct (forest_run_gen (sizes its) its (le_n _) [] [] st true o pm t ents []
                Hwf Hfit Hnd Hfresh Hopts Hum Huid Hready Hsg Hrinv (or_introl eq_refl) Hup I)
      as (st1 & Hit & Hopts1 & Henv1 & Hrinv1 & Hup1 & Hroot1).
    destruct Hrinv1 as (Hpol1 & Hdef1 & Hstk1 & Hty1). destruct Hup1 as (br1 & Hf1 & Hpos1).
    assert (Hcur1 : br_curr br1 = None) by (inversion Hpos1; assumption).
    assert (Hnext : exists r', lha_reader_next_file mktime (cs_reader st1) = Ok (None, r')).
    { rewrite (next_file_eq mktime _ Hty1), Hf1. cbn [bind]. rewrite (present_end _ br1 false Hstk1 Hdef1 Hcur1). eauto. }
    destruct Hnext as [r' Hnext].
    pose proof (step_end mktime junk f Hnofilter true st1 r' Hnext) as Hend.
    assert (Hloops : loops (extract_archive_step mktime junk f) (sizes its + 0) (true, st) (RVal true, set_reader st1 r')).
    { eapply loops_after_iters; [exact Hit|]. constructor. exact Hend. }
    exists (set_reader st1 r'). split.
    - unfold extract_archive. destruct Hopts as (_ & Hd & _). rewrite Hd.
      eapply loop_complete_N; [exact Hloops|]. rewrite Nat.add_0_r. exact Hsz.
    - cbn [cs_fs set_reader cs_opts]. split; [exact Henv1|]. split; [exact Hopts1|].
      destruct its as [|it more]; [subst st1; reflexivity|].
      rewrite Hroot1, !app_nil_r. reflexivity.
  Qed.
End ForestGen.

Print Assumptions forest_run_gen.
Print Assumptions extract_archive_below.

(* Lh1.v -- model of lib/lh1_decoder.c (-lh1-: LZSS + adaptive Huffman).

   The C struct Node { unsigned leaf:1; unsigned child_index:15;
   uint16_t parent, freq, group; } nodes[NUM_TREE_NODES] is modelled as five
   arrays of the same extent, one per field.  The field widths are applied
   in the store helpers wr_leaf (1 bit), wr_child (15 bits), wr_parent /
   wr_freq / wr_group (uint16_t), and in the stores into the uint16_t arrays
   leaf_nodes, groups, group_leader and the uint8_t arrays offset_lookup,
   offset_lengths.

   Fault sites 800-899.  One site per C subscript expression / pointer
   dereference target (all fields reached through the same C pointer share
   the site of that pointer).  The decoder structure is calloc()ed, so
   everything not written by init is 0. *)
From Lhasa Require Import Base DecBase BitReader Loop Generated.
Local Open Scope N_scope.

(* ------------------------------------------------------------------ *)
(* C integer conversions used below *)

(* an int used as an array index / pointer offset: negative = outside *)
Definition zi (site : N) (z : Z) : outcome N :=
  if (z <? 0)%Z then Fault site else Ok (Z.to_N z).
(* (uint16_t) of an int *)
Definition u16z (z : Z) : N := Z.to_N (Z.land z 65535).
(* (int) of an unsigned int *)
Definition s32 (x : N) : Z :=
  if x <? 2147483648 then Z.of_N x else (Z.of_N x - 4294967296)%Z.
(* a - b in unsigned int arithmetic.  For every a, b this is equal to
   u32 (a + 4294967296 - b) (N subtraction truncates at 0, so that form is
   the wrap-around one); the first branch only avoids 33-bit arithmetic in
   the common case, which matters after extraction. *)
Definition usub (a b : N) : N :=
  if b <=? a then u32 (a - b) else u32 (a + 4294967296 - b).
(* x - 1 and x - 2 in unsigned int arithmetic *)
Definition dec1 (x : N) : N := usub x 1.
Definition dec2 (x : N) : N := usub x 2.

(* ------------------------------------------------------------------ *)
(* The code tree part of LHALH1Decoder *)

Record lh1_tree := mkT {
  t_leaf : arr;            (* nodes[].leaf         : 1 bit  *)
  t_child : arr;           (* nodes[].child_index  : 15 bits *)
  t_parent : arr;          (* nodes[].parent       : uint16_t *)
  t_freq : arr;            (* nodes[].freq         : uint16_t *)
  t_group : arr;           (* nodes[].group        : uint16_t *)
  t_leaf_nodes : arr;      (* uint16_t leaf_nodes[NUM_CODES] *)
  t_groups : arr;          (* uint16_t groups[NUM_TREE_NODES] *)
  t_num_groups : N;        (* unsigned int *)
  t_group_leader : arr     (* uint16_t group_leader[NUM_TREE_NODES] *)
}.

Definition set_leaf t a := mkT a (t_child t) (t_parent t) (t_freq t) (t_group t) (t_leaf_nodes t) (t_groups t) (t_num_groups t) (t_group_leader t).
Definition set_child t a := mkT (t_leaf t) a (t_parent t) (t_freq t) (t_group t) (t_leaf_nodes t) (t_groups t) (t_num_groups t) (t_group_leader t).
Definition set_parent t a := mkT (t_leaf t) (t_child t) a (t_freq t) (t_group t) (t_leaf_nodes t) (t_groups t) (t_num_groups t) (t_group_leader t).
Definition set_freq t a := mkT (t_leaf t) (t_child t) (t_parent t) a (t_group t) (t_leaf_nodes t) (t_groups t) (t_num_groups t) (t_group_leader t).
Definition set_group t a := mkT (t_leaf t) (t_child t) (t_parent t) (t_freq t) a (t_leaf_nodes t) (t_groups t) (t_num_groups t) (t_group_leader t).
Definition set_leaf_nodes t a := mkT (t_leaf t) (t_child t) (t_parent t) (t_freq t) (t_group t) a (t_groups t) (t_num_groups t) (t_group_leader t).
Definition set_groups t a := mkT (t_leaf t) (t_child t) (t_parent t) (t_freq t) (t_group t) (t_leaf_nodes t) a (t_num_groups t) (t_group_leader t).
Definition set_num_groups t n := mkT (t_leaf t) (t_child t) (t_parent t) (t_freq t) (t_group t) (t_leaf_nodes t) (t_groups t) n (t_group_leader t).
Definition set_group_leader t a := mkT (t_leaf t) (t_child t) (t_parent t) (t_freq t) (t_group t) (t_leaf_nodes t) (t_groups t) (t_num_groups t) a.

(* checked loads *)
Definition rd_leaf (site : N) (t : lh1_tree) (i : N) : outcome N := rd site (t_leaf t) i.
Definition rd_child (site : N) (t : lh1_tree) (i : N) : outcome N := rd site (t_child t) i.
Definition rd_parent (site : N) (t : lh1_tree) (i : N) : outcome N := rd site (t_parent t) i.
Definition rd_freq (site : N) (t : lh1_tree) (i : N) : outcome N := rd site (t_freq t) i.
Definition rd_group (site : N) (t : lh1_tree) (i : N) : outcome N := rd site (t_group t) i.
Definition rd_leaf_nodes (site : N) (t : lh1_tree) (i : N) : outcome N := rd site (t_leaf_nodes t) i.
Definition rd_group_leader (site : N) (t : lh1_tree) (i : N) : outcome N := rd site (t_group_leader t) i.

(* checked stores; the value is converted to the width of the field *)
Definition wr_leaf (site : N) (t : lh1_tree) (i v : N) : outcome lh1_tree :=
  a <- wr site (t_leaf t) i (N.land v 1) ;; Ok (set_leaf t a).
Definition wr_child (site : N) (t : lh1_tree) (i v : N) : outcome lh1_tree :=
  a <- wr site (t_child t) i (N.land v 32767) ;; Ok (set_child t a).
Definition wr_parent (site : N) (t : lh1_tree) (i v : N) : outcome lh1_tree :=
  a <- wr site (t_parent t) i (u16 v) ;; Ok (set_parent t a).
Definition wr_freq (site : N) (t : lh1_tree) (i v : N) : outcome lh1_tree :=
  a <- wr site (t_freq t) i (u16 v) ;; Ok (set_freq t a).
Definition wr_group (site : N) (t : lh1_tree) (i v : N) : outcome lh1_tree :=
  a <- wr site (t_group t) i (u16 v) ;; Ok (set_group t a).
Definition wr_leaf_nodes (site : N) (t : lh1_tree) (i v : N) : outcome lh1_tree :=
  a <- wr site (t_leaf_nodes t) i (u16 v) ;; Ok (set_leaf_nodes t a).
Definition wr_group_leader (site : N) (t : lh1_tree) (i v : N) : outcome lh1_tree :=
  a <- wr site (t_group_leader t) i (u16 v) ;; Ok (set_group_leader t a).

(* calloc()ed *)
Definition lh1_tree_zero : lh1_tree :=
  mkT (mk_arr lh1_nodes_extent 0) (mk_arr lh1_nodes_extent 0) (mk_arr lh1_nodes_extent 0)
      (mk_arr lh1_nodes_extent 0) (mk_arr lh1_nodes_extent 0)
      (mk_arr lh1_leaf_nodes_extent 0) (mk_arr lh1_groups_extent 0) 0
      (mk_arr lh1_group_leader_extent 0).

(* ------------------------------------------------------------------ *)
(* alloc_group / free_group / init_groups *)

(* result = groups[num_groups]; ++num_groups; *)
Definition alloc_group (t : lh1_tree) : outcome (N * lh1_tree) :=
  result <- rd 801 (t_groups t) (t_num_groups t) ;;
  Ok (result, set_num_groups t (u32 (t_num_groups t + 1))).

(* --num_groups; groups[num_groups] = group; *)
Definition free_group (t : lh1_tree) (group : N) : outcome lh1_tree :=
  let ng := dec1 (t_num_groups t) in
  g <- wr 802 (t_groups t) ng (u16 group) ;;
  Ok (set_num_groups (set_groups t g) ng).

(* for (i = 0; i < NUM_TREE_NODES; ++i) groups[i] = (uint16_t) i; *)
Fixpoint init_groups_loop (n : nat) (g : arr) (i : N) : outcome arr :=
  match n with
  | O => Ok g
  | S k => g' <- wr 803 g i (u16 i) ;; init_groups_loop k g' (i + 1)
  end.

Definition init_groups (t : lh1_tree) : outcome lh1_tree :=
  g <- init_groups_loop (N.to_nat lh1_NUM_TREE_NODES) (t_groups t) 0 ;;
  Ok (set_num_groups (set_groups t g) 0).

(* ------------------------------------------------------------------ *)
(* init_tree *)

(* for (i = 0; i < NUM_CODES; ++i) { node = &nodes[node_index]; ... --node_index; }
   node_index is an int. *)
Fixpoint init_tree_leaves (n : nat) (t : lh1_tree) (i : N) (node_index : Z) (leaf_group : N)
  : outcome (lh1_tree * Z) :=
  match n with
  | O => Ok (t, node_index)
  | S k =>
    ni <- zi 804 node_index ;;
    t1 <- wr_leaf 804 t ni 1 ;;
    t2 <- wr_child 804 t1 ni (u16 i) ;;              (* (unsigned short) i into 15 bits *)
    t3 <- wr_freq 804 t2 ni 1 ;;
    t4 <- wr_group 804 t3 ni leaf_group ;;
    t5 <- wr_group_leader 805 t4 leaf_group (u16z node_index) ;;
    t6 <- wr_leaf_nodes 806 t5 i (u16z node_index) ;;
    init_tree_leaves k t6 (i + 1) (node_index - 1)%Z leaf_group
  end.

(* while (node_index >= 0) { ... --node_index; child -= 2; } *)
Definition init_tree_step (s : lh1_tree * Z * N) : outcome ((lh1_tree * Z * N) + lh1_tree) :=
  let '(t, node_index, child) := s in
  if (node_index <? 0)%Z then Ok (inr t) else
  let ni := Z.to_N node_index in
  let child1 := dec1 child in
  t1 <- wr_leaf 807 t ni 0 ;;
  t2 <- wr_child 807 t1 ni child ;;
  t3 <- wr_parent 808 t2 child ni ;;
  t4 <- wr_parent 809 t3 child1 ni ;;
  f1 <- rd_freq 810 t4 child ;;
  f2 <- rd_freq 811 t4 child1 ;;
  let nf := u16 (f1 + f2) in
  t5 <- wr_freq 807 t4 ni nf ;;
  f3 <- rd_freq 812 t5 (ni + 1) ;;
  '(g, t6) <- (if nf =? f3 then g <- rd_group 813 t5 (ni + 1) ;; Ok (g, t5)
               else alloc_group t5) ;;
  t7 <- wr_group 807 t6 ni g ;;
  t8 <- wr_group_leader 814 t7 (u16 g) ni ;;
  Ok (inl (t8, (node_index - 1)%Z, dec2 child)).

Definition init_tree (t : lh1_tree) : outcome lh1_tree :=
  let node_index := (Z.of_N lh1_NUM_TREE_NODES - 1)%Z in
  '(leaf_group, t1) <- alloc_group t ;;
  '(t2, node_index') <- init_tree_leaves (N.to_nat lh1_NUM_CODES) t1 0 node_index leaf_group ;;
  (* child = NUM_TREE_NODES - 1, unsigned int *)
  loop init_tree_step 10 (t2, node_index', dec1 lh1_NUM_TREE_NODES).

(* ------------------------------------------------------------------ *)
(* offset tables *)

(* for (i = 0; (i & ~mask) == 0; ++i) offset_lookup[code | i] = (uint8_t) offset;
   mask < 2^32, ~mask = 2^32 - 1 - mask *)
Definition fill_offset_step (code mask offset : N) (s : arr * N) : outcome ((arr * N) + arr) :=
  let '(lookup, i) := s in
  if N.land i (4294967295 - mask) =? 0 then
    lookup' <- wr 815 lookup (N.lor code i) (u8 offset) ;;
    Ok (inl (lookup', u32 (i + 1)))
  else Ok (inr lookup).

Definition fill_offset_range (lookup : arr) (code mask offset : N) : outcome arr :=
  loop (fill_offset_step code mask offset) 9 (lookup, 0).

Record oft := { oft_lookup : arr; oft_lengths : arr; oft_code : N; oft_offset : N }.

(* for (j = 0; j < offset_fdist[i]; ++j) *)
Fixpoint init_offset_inner (n : nat) (s : oft) (len iterbit : N) : outcome oft :=
  match n with
  | O => Ok s
  | S k =>
    (* (uint8_t) (iterbit - 1): iterbit is promoted to int *)
    lookup' <- fill_offset_range (oft_lookup s) (oft_code s) (u8 (iterbit + 255)) (oft_offset s) ;;
    lengths' <- wr 816 (oft_lengths s) (oft_offset s) (u8 len) ;;
    init_offset_inner k {| oft_lookup := lookup'; oft_lengths := lengths';
                           oft_code := u8 (oft_code s + iterbit);
                           oft_offset := u8 (oft_offset s + 1) |} len iterbit
  end.

(* for (i = 0; i < (number of entries of offset_fdist); ++i): the
   remaining entries of the table are [fdist] *)
Fixpoint init_offset_outer (fdist : list N) (s : oft) (i : N) : outcome oft :=
  match fdist with
  | [] => Ok s
  | fd :: rest =>
    let len := i + lh1_MIN_OFFSET_LENGTH in
    (* 1 << (8 - len): a negative shift count is undefined *)
    if 8 <? len then Fault 817 else
    let iterbit := u8 (N.shiftl 1 (8 - len)) in
    s' <- init_offset_inner (N.to_nat fd) s len iterbit ;;
    init_offset_outer rest s' (i + 1)
  end.

Definition init_offset_table : outcome (arr * arr) :=
  s <- init_offset_outer lh1_offset_fdist
         {| oft_lookup := mk_arr lh1_offset_lookup_extent 0;
            oft_lengths := mk_arr lh1_offset_lengths_extent 0;
            oft_code := 0; oft_offset := 0 |} 0 ;;
  Ok (oft_lookup s, oft_lengths s).

(* ------------------------------------------------------------------ *)
(* make_group_leader *)

Definition make_group_leader (t : lh1_tree) (node_index : N) : outcome (N * lh1_tree) :=
  group <- rd_group 820 t node_index ;;
  leader_index <- rd_group_leader 821 t group ;;
  if leader_index =? node_index then Ok (node_index, t) else
  (* node = &nodes[node_index] (822); leader = &nodes[leader_index] (823) *)
  l_leaf <- rd_leaf 823 t leader_index ;;
  n_leaf <- rd_leaf 822 t node_index ;;
  t1 <- wr_leaf 823 t leader_index n_leaf ;;
  t2 <- wr_leaf 822 t1 node_index l_leaf ;;
  l_child <- rd_child 823 t2 leader_index ;;
  n_child <- rd_child 822 t2 node_index ;;
  t3 <- wr_child 823 t2 leader_index n_child ;;
  t4 <- wr_child 822 t3 node_index l_child ;;
  (* now node->leaf = l_leaf, node->child_index = l_child,
         leader->leaf = n_leaf, leader->child_index = n_child.
     child_index - 1 is int arithmetic; for child_index = 0 the index is -1,
     here 2^32 - 1: outside either way. *)
  t5 <- (if negb (l_leaf =? 0) then wr_leaf_nodes 824 t4 l_child node_index
         else t' <- wr_parent 825 t4 l_child node_index ;;
              wr_parent 826 t' (dec1 l_child) node_index) ;;
  t6 <- (if negb (n_leaf =? 0) then wr_leaf_nodes 827 t5 n_child leader_index
         else t' <- wr_parent 828 t5 n_child leader_index ;;
              wr_parent 829 t' (dec1 n_child) leader_index) ;;
  Ok (leader_index, t6).

(* ------------------------------------------------------------------ *)
(* increment_node_freq *)

Definition increment_node_freq (t : lh1_tree) (node_index : N) : outcome lh1_tree :=
  (* node = &nodes[node_index] (830); other = &nodes[node_index - 1] (833):
     node_index - 1 is -1 for node_index = 0, here 2^32 - 1 *)
  let other := dec1 node_index in
  f <- rd_freq 830 t node_index ;;
  let nf := u16 (f + 1) in
  t1 <- wr_freq 830 t node_index nf ;;
  g <- rd_group 830 t1 node_index ;;
  in_group <- (if node_index <? lh1_NUM_TREE_NODES - 1 then
                 g1 <- rd_group 831 t1 (node_index + 1) ;; Ok (g =? g1)
               else Ok false) ;;
  if in_group then
    gl <- rd_group_leader 832 t1 g ;;
    t2 <- wr_group_leader 832 t1 g (gl + 1) ;;
    ofr <- rd_freq 833 t2 other ;;
    if nf =? ofr then
      og <- rd_group 833 t2 other ;;
      wr_group 830 t2 node_index og
    else
      '(ng, t3) <- alloc_group t2 ;;
      t4 <- wr_group 830 t3 node_index ng ;;
      wr_group_leader 834 t4 (u16 ng) node_index
  else
    ofr <- rd_freq 833 t1 other ;;
    if nf =? ofr then
      t2 <- free_group t1 g ;;
      og <- rd_group 833 t2 other ;;
      wr_group 830 t2 node_index og
    else Ok t1.

(* ------------------------------------------------------------------ *)
(* reconstruct_tree *)

(* for (i = 0; i < NUM_TREE_NODES; ++i) if (nodes[i].leaf) { leaf->... ; ++leaf; } *)
Fixpoint gather_leaves (n : nat) (t : lh1_tree) (i leaf : N) : outcome lh1_tree :=
  match n with
  | O => Ok t
  | S k =>
    lf <- rd_leaf 840 t i ;;
    if negb (lf =? 0) then
      t1 <- wr_leaf 841 t leaf 1 ;;
      c <- rd_child 842 t1 i ;;
      t2 <- wr_child 841 t1 leaf c ;;
      f <- rd_freq 843 t2 i ;;
      (* (uint16_t) (freq + 1) / 2 *)
      t3 <- wr_freq 841 t2 leaf (u16 (f + 1) / 2) ;;
      gather_leaves k t3 (i + 1) (leaf + 1)
    else gather_leaves k t (i + 1) leaf
  end.

(* nodes[i] = *leaf; leaf_nodes[leaf->child_index] = (uint16_t) i; --i; --leaf;
   sa: *leaf, sb: nodes[i], sc: leaf_nodes[...] *)
Definition copy_leaf (sa sb sc : N) (t : lh1_tree) (i leaf : Z) : outcome (lh1_tree * Z * Z) :=
  li <- zi sa leaf ;;
  ii <- zi sb i ;;
  v_leaf <- rd_leaf sa t li ;;
  v_child <- rd_child sa t li ;;
  v_parent <- rd_parent sa t li ;;
  v_freq <- rd_freq sa t li ;;
  v_group <- rd_group sa t li ;;
  t1 <- wr_leaf sb t ii v_leaf ;;
  t2 <- wr_child sb t1 ii v_child ;;
  t3 <- wr_parent sb t2 ii v_parent ;;
  t4 <- wr_freq sb t3 ii v_freq ;;
  t5 <- wr_group sb t4 ii v_group ;;
  t6 <- wr_leaf_nodes sc t5 v_child (u16z i) ;;
  Ok (t6, (i - 1)%Z, (leaf - 1)%Z).

(* while ((int) child - i < 2) { copy } *)
Definition rt_fill_step (child : N) (s : lh1_tree * Z * Z) : outcome ((lh1_tree * Z * Z) + (lh1_tree * Z * Z)) :=
  let '(t, i, leaf) := s in
  if (s32 child - i <? 2)%Z then
    s' <- copy_leaf 844 845 846 t i leaf ;; Ok (inl s')
  else Ok (inr s).

(* while (leaf >= decoder->nodes && freq >= leaf->freq) { copy } *)
Definition rt_insert_step (freq : N) (s : lh1_tree * Z * Z) : outcome ((lh1_tree * Z * Z) + (lh1_tree * Z * Z)) :=
  let '(t, i, leaf) := s in
  if (0 <=? leaf)%Z then
    lf <- rd_freq 849 t (Z.to_N leaf) ;;
    if lf <=? freq then
      s' <- copy_leaf 850 851 852 t i leaf ;; Ok (inl s')
    else Ok (inr s)
  else Ok (inr s).

(* while (i >= 0) { ... } *)
Definition rt_outer_step (s : lh1_tree * Z * Z * N) : outcome ((lh1_tree * Z * Z * N) + lh1_tree) :=
  let '(t, i, leaf, child) := s in
  if (i <? 0)%Z then Ok (inr t) else
  '(t1, i1, leaf1) <- loop (rt_fill_step child) 10 (t, i, leaf) ;;
  let child1 := dec1 child in
  f1 <- rd_freq 847 t1 child ;;
  f2 <- rd_freq 848 t1 child1 ;;
  let freq := u32 (f1 + f2) in
  '(t2, i2, leaf2) <- loop (rt_insert_step freq) 10 (t1, i1, leaf1) ;;
  ii <- zi 853 i2 ;;
  t3 <- wr_leaf 853 t2 ii 0 ;;
  t4 <- wr_freq 854 t3 ii freq ;;                  (* (uint16_t) freq *)
  t5 <- wr_child 855 t4 ii (u16 child) ;;          (* (uint16_t) child into 15 bits *)
  t6 <- wr_parent 856 t5 child (u16z i2) ;;
  t7 <- wr_parent 857 t6 child1 (u16z i2) ;;
  Ok (inl (t7, (i2 - 1)%Z, leaf2, dec2 child)).

(* for (i = 1; i < NUM_TREE_NODES; ++i) *)
Fixpoint regroup_loop (n : nat) (t : lh1_tree) (i : N) : outcome lh1_tree :=
  match n with
  | O => Ok t
  | S k =>
    f <- rd_freq 860 t i ;;
    fp <- rd_freq 861 t (dec1 i) ;;
    t' <- (if f =? fp then
             g <- rd_group 862 t (dec1 i) ;;
             wr_group 863 t i g
           else
             '(group, t1) <- alloc_group t ;;
             t2 <- wr_group 864 t1 i group ;;
             wr_group_leader 865 t2 group i) ;;
    regroup_loop k t' (i + 1)
  end.

Definition reconstruct_tree (t : lh1_tree) : outcome lh1_tree :=
  t1 <- gather_leaves (N.to_nat lh1_NUM_TREE_NODES) t 0 0 ;;
  (* leaf = &nodes[NUM_CODES - 1]; child = NUM_TREE_NODES - 1; i = NUM_TREE_NODES - 1; *)
  t2 <- loop rt_outer_step 10
          (t1, (Z.of_N lh1_NUM_TREE_NODES - 1)%Z, (Z.of_N lh1_NUM_CODES - 1)%Z,
           dec1 lh1_NUM_TREE_NODES) ;;
  t3 <- init_groups t2 ;;
  '(group, t4) <- alloc_group t3 ;;
  t5 <- wr_group 858 t4 0 group ;;
  t6 <- wr_group_leader 859 t5 group 0 ;;
  regroup_loop (N.to_nat (lh1_NUM_TREE_NODES - 1)) t6 1.

(* ------------------------------------------------------------------ *)
(* increment_for_code *)

(* while (node_index != 0) { ... } ; node_index is uint16_t *)
Definition ifc_step (s : lh1_tree * N) : outcome ((lh1_tree * N) + lh1_tree) :=
  let '(t, node_index) := s in
  if node_index =? 0 then Ok (inr t) else
  '(ni, t1) <- make_group_leader t node_index ;;
  t2 <- increment_node_freq t1 ni ;;
  p <- rd_parent 869 t2 ni ;;
  Ok (inl (t2, p)).

Definition increment_for_code (t : lh1_tree) (code : N) : outcome lh1_tree :=
  f0 <- rd_freq 866 t 0 ;;
  t1 <- (if lh1_TREE_REORDER_LIMIT <=? f0 then reconstruct_tree t else Ok t) ;;
  f0' <- rd_freq 867 t1 0 ;;
  t2 <- wr_freq 867 t1 0 (f0' + 1) ;;
  node_index <- rd_leaf_nodes 868 t2 code ;;
  loop ifc_step 10 (t2, node_index).

(* ------------------------------------------------------------------ *)
(* The decoder *)

Record lh1_state := {
  lh1_bsr : bsr;
  lh1_ring : arr;            (* uint8_t ringbuf[RING_BUFFER_SIZE] *)
  lh1_pos : N;               (* unsigned int ringbuf_pos *)
  lh1_t : lh1_tree;
  lh1_lookup : arr;          (* uint8_t offset_lookup[256] *)
  lh1_lengths : arr          (* uint8_t offset_lengths[NUM_OFFSETS] *)
}.

(* x % RING_BUFFER_SIZE.  N.land with the mask when the size is a power of
   two (it is: 4096), which is much faster than N.modulo after extraction;
   the general case is kept so that the definition is right for any size. *)
Definition lh1_ring_pow2 : bool := N.land lh1_RING_BUFFER_SIZE (lh1_RING_BUFFER_SIZE - 1) =? 0.
Definition lh1_ring_mod (x : N) : N :=
  if lh1_ring_pow2 then N.land x (lh1_RING_BUFFER_SIZE - 1) else x mod lh1_RING_BUFFER_SIZE.

Definition lh1_init : outcome lh1_state :=
  t1 <- init_groups lh1_tree_zero ;;
  t2 <- init_tree t1 ;;
  '(lookup, lengths) <- init_offset_table ;;
  (* memset(ringbuf, ' ', RING_BUFFER_SIZE) on an array of lh1_ringbuf_extent bytes *)
  if lh1_RING_BUFFER_SIZE <=? lh1_ringbuf_extent then
    Ok {| lh1_bsr := bsr_init; lh1_ring := mk_arr lh1_ringbuf_extent 32; lh1_pos := 0;
          lh1_t := t2; lh1_lookup := lookup; lh1_lengths := lengths |}
  else Fault 818.

Section Lh1.
  Context {cbs : Type}.
  Variable cb : callback cbs.

  (* while (!nodes[node_index].leaf) { bit = read_bit(); if (bit < 0) return 0;
       node_index = nodes[node_index].child_index - (unsigned int) bit; } *)
  Definition read_code_step (t : lh1_tree) (s : N * bsr * cbs)
    : outcome ((N * bsr * cbs) + (option N * bsr * cbs)) :=
    let '(node_index, r, c) := s in
    lf <- rd_leaf 870 t node_index ;;
    if negb (lf =? 0) then Ok (inr (Some node_index, r, c)) else
    '(bit, r', c') <- read_bit cb r c ;;
    match bit with
    | None => Ok (inr (None, r', c'))
    | Some b =>
      ci <- rd_child 871 t node_index ;;
      Ok (inl (usub ci b, r', c'))
    end.

  (* returns the code (None: the C 0) and the new tree *)
  Definition read_code (t : lh1_tree) (r : bsr) (c : cbs) : outcome (option N * lh1_tree * bsr * cbs) :=
    '(res, r', c') <- loop (read_code_step t) 10 (0, r, c) ;;
    match res with
    | None => Ok (None, t, r', c')
    | Some node_index =>
      result <- rd_child 872 t node_index ;;
      t' <- increment_for_code t result ;;
      Ok (Some result, t', r', c')
    end.

  Definition read_offset (lookup lengths : arr) (r : bsr) (c : cbs) : outcome (option N * bsr * cbs) :=
    '(future, r1, c1) <- peek_bits cb r c 8 ;;
    match future with
    | None => Ok (None, r1, c1)
    | Some fu =>
      offset <- rd 873 lookup fu ;;
      len <- rd 874 lengths offset ;;
      '(_, r2, c2) <- read_bits cb r1 c1 len ;;
      '(offset2, r3, c3) <- read_bits cb r2 c2 6 ;;
      match offset2 with
      | None => Ok (None, r3, c3)
      | Some o2 => Ok (Some (u32 (N.lor (N.shiftl offset 6) o2)), r3, c3)
      end
    end.

  (* buf[*buf_len] = b; ++*buf_len; ringbuf[ringbuf_pos] = b;
     ringbuf_pos = (ringbuf_pos + 1) % RING_BUFFER_SIZE; *)
  Definition lh1_output_byte (s : lh1_state) (o : obuf) (b : N) : outcome (lh1_state * obuf) :=
    o' <- ob_push 875 lh1_max_read o b ;;
    ring' <- wr 876 (lh1_ring s) (lh1_pos s) b ;;
    Ok ({| lh1_bsr := lh1_bsr s; lh1_ring := ring';
           lh1_pos := lh1_ring_mod (u32 (lh1_pos s + 1));
           lh1_t := lh1_t s; lh1_lookup := lh1_lookup s; lh1_lengths := lh1_lengths s |}, o').

  (* for (i = 0; i < count; ++i) { pos = (start + i) % RING_BUFFER_SIZE; output_byte(ringbuf[pos]); } *)
  Fixpoint lh1_copy_loop (n : nat) (s : lh1_state) (o : obuf) (start i : N) : outcome (lh1_state * obuf) :=
    match n with
    | O => Ok (s, o)
    | S k =>
      b <- rd 877 (lh1_ring s) (lh1_ring_mod (u32 (start + i))) ;;
      '(s', o') <- lh1_output_byte s o b ;;
      lh1_copy_loop k s' o' start (i + 1)
    end.

  Definition lh1_set (s : lh1_state) (t : lh1_tree) (r : bsr) : lh1_state :=
    {| lh1_bsr := r; lh1_ring := lh1_ring s; lh1_pos := lh1_pos s; lh1_t := t;
       lh1_lookup := lh1_lookup s; lh1_lengths := lh1_lengths s |}.

  Definition lh1_read (s : lh1_state) (c : cbs) : outcome (list N * lh1_state * cbs) :=
    '(code, t1, r1, c1) <- read_code (lh1_t s) (lh1_bsr s) c ;;
    let s1 := lh1_set s t1 r1 in
    match code with
    | None => Ok ([], s1, c1)
    | Some cd =>
      if cd <? 256 then
        '(s2, o) <- lh1_output_byte s1 ob_empty (u8 cd) ;;
        Ok (ob_bytes o, s2, c1)
      else
        '(off, r2, c2) <- read_offset (lh1_lookup s1) (lh1_lengths s1) r1 c1 ;;
        let s2 := lh1_set s1 t1 r2 in
        match off with
        | None => Ok ([], s2, c2)
        | Some offset =>
          (* count = code - 0x100U + COPY_THRESHOLD;
             start = ringbuf_pos - offset + RING_BUFFER_SIZE - 1;  (unsigned int) *)
          let count := u32 (cd + 4294967296 - 256 + lh1_COPY_THRESHOLD) in
          let start := u32 (lh1_pos s2 + 4294967296 - offset + lh1_RING_BUFFER_SIZE + 4294967296 - 1) in
          '(s3, o) <- lh1_copy_loop (N.to_nat count) s2 ob_empty start 0 ;;
          Ok (ob_bytes o, s3, c2)
        end
    end.
End Lh1.

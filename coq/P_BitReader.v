(* P_BitReader.v -- proofs about the model of lib/bit_stream_reader.c (BitReader.v):
   well-formedness of the reader state, safety for any callback, and the
   functional behaviour over the list source (the reader delivers the bits of
   the input bytes, most significant bit first). *)
From Lhasa Require Import Base ListN DecBase BitReader S_Larc.
From Coq Require Import ZifyBool ZifyN ZifyNat.
Local Open Scope N_scope.

(* ------------------------------------------------------------------ *)
(* Big-endian bit lists and numbers                                    *)

(* value of a bit list, first bit most significant *)
Fixpoint val (l : list bool) : N :=
  match l with
  | [] => 0
  | b :: r => N.b2n b * 2 ^ nlen r + val r
  end.

Lemma val_nil : val [] = 0.
Proof. reflexivity. Qed.

Lemma val_cons b r : val (b :: r) = N.b2n b * 2 ^ nlen r + val r.
Proof. reflexivity. Qed.

Lemma pow2_pos n : 0 < 2 ^ n.
Proof. apply N.neq_0_lt_0. apply N.pow_nonzero. lia. Qed.

Lemma pow2_add a b : 2 ^ (a + b) = 2 ^ a * 2 ^ b.
Proof. apply N.pow_add_r. Qed.

Lemma pow2_succ a : 2 ^ (a + 1) = 2 * 2 ^ a.
Proof. rewrite pow2_add. change (2 ^ 1) with 2. lia. Qed.

Lemma val_lt l : val l < 2 ^ nlen l.
Proof.
  induction l as [|b r IH]; [cbn; lia|].
  rewrite val_cons, nlen_cons, pow2_succ. destruct b; cbn [N.b2n]; lia.
Qed.

Lemma val_app a b : val (a ++ b) = val a * 2 ^ nlen b + val b.
Proof.
  induction a as [|x a IH]; [cbn [app val]; lia|].
  cbn [app]. rewrite !val_cons, IH, nlen_app, pow2_add. lia.
Qed.

Lemma bits_of_S k v : bits_of (S k) v = N.testbit v (N.of_nat k) :: bits_of k v.
Proof. reflexivity. Qed.

Lemma length_bits_of n v : length (bits_of n v) = n.
Proof. induction n as [|k IH]; [reflexivity|]. rewrite bits_of_S. cbn [length]. now rewrite IH. Qed.

Lemma nlen_bits_of n v : nlen (bits_of n v) = N.of_nat n.
Proof. unfold nlen. now rewrite length_bits_of. Qed.

Lemma bits_of_ext k : forall v w,
  (forall i, i < N.of_nat k -> N.testbit v i = N.testbit w i) -> bits_of k v = bits_of k w.
Proof.
  induction k as [|k IH]; intros v w H; [reflexivity|].
  rewrite !bits_of_S. f_equal; [apply H; lia|]. apply IH. intros i Hi. apply H. lia.
Qed.

Lemma bits_of_mod k v : bits_of k (v mod 2 ^ N.of_nat k) = bits_of k v.
Proof. apply bits_of_ext. intros i Hi. apply N.mod_pow2_bits_low. exact Hi. Qed.

(* v mod 2^(k+1) splits into bit k and the k low bits *)
Lemma mod_pow2_succ v k :
  v mod 2 ^ (k + 1) = N.b2n (N.testbit v k) * 2 ^ k + v mod 2 ^ k.
Proof.
  rewrite N.add_1_r, N.pow_succ_r by lia.
  rewrite (N.mul_comm 2), N.mod_mul_r by (try apply N.pow_nonzero; lia).
  rewrite N.testbit_spec'. lia.
Qed.

Lemma val_bits_of n : forall v, val (bits_of n v) = v mod 2 ^ N.of_nat n.
Proof.
  induction n as [|k IH]; intros v.
  - cbn [bits_of val]. change (2 ^ N.of_nat 0) with 1. now rewrite N.mod_1_r.
  - rewrite bits_of_S, val_cons, nlen_bits_of, IH.
    replace (N.of_nat (S k)) with (N.of_nat k + 1) by lia. now rewrite mod_pow2_succ.
Qed.

Lemma val_bits_of_small n v : v < 2 ^ N.of_nat n -> val (bits_of n v) = v.
Proof. intros H. rewrite val_bits_of. now apply N.mod_small. Qed.

Lemma bits_of_val l : bits_of (length l) (val l) = l.
Proof.
  induction l as [|b r IH]; [reflexivity|].
  cbn [length]. rewrite bits_of_S, val_cons.
  pose proof (val_lt r) as Hlt. pose proof (pow2_pos (nlen r)) as Hp.
  unfold nlen in *. set (k := N.of_nat (length r)) in *.
  f_equal.
  - apply N.b2n_inj. rewrite N.testbit_spec'.
    rewrite N.div_add_l by lia. rewrite N.div_small by exact Hlt.
    destruct b; reflexivity.
  - rewrite <- (bits_of_mod (length r) (_ + _)). fold k.
    rewrite N.add_comm, N.mod_add by lia. rewrite N.mod_small by exact Hlt. exact IH.
Qed.

Lemma bits_of_val_n n l : n = length l -> bits_of n (val l) = l.
Proof. intros ->. apply bits_of_val. Qed.

Lemma val_inj a b : length a = length b -> val a = val b -> a = b.
Proof. intros L E. rewrite <- (bits_of_val a), <- (bits_of_val b), L, E. reflexivity. Qed.

(* the bits of a byte string, each byte most significant bit first *)
Definition bytes_bits (l : list N) : list bool := flat_map (bits_of 8) l.

Lemma bytes_bits_nil : bytes_bits [] = [].
Proof. reflexivity. Qed.

Lemma bytes_bits_cons b l : bytes_bits (b :: l) = bits_of 8 b ++ bytes_bits l.
Proof. reflexivity. Qed.

Lemma bytes_bits_app a b : bytes_bits (a ++ b) = bytes_bits a ++ bytes_bits b.
Proof. unfold bytes_bits. apply flat_map_app. Qed.

Lemma nlen_bytes_bits l : nlen (bytes_bits l) = 8 * nlen l.
Proof.
  induction l as [|b l IH]; [reflexivity|].
  rewrite bytes_bits_cons, nlen_app, nlen_bits_of, IH, nlen_cons. lia.
Qed.

(* ------------------------------------------------------------------ *)
(* Reader states                                                       *)

Definition bsr_wf (r : bsr) : Prop :=
  bits r <= 32 /\ bit_buffer r < 2 ^ 32 /\ bit_buffer r mod 2 ^ (32 - bits r) = 0.

(* what safety alone needs *)
Definition bsr_ok (r : bsr) : Prop := bits r <= 32 /\ bit_buffer r < 2 ^ 32.

Lemma bsr_wf_ok r : bsr_wf r -> bsr_ok r.
Proof. intros (A & B & _). split; assumption. Qed.

Lemma bsr_init_wf : bsr_wf bsr_init.
Proof. unfold bsr_wf, bsr_init. cbn [bits bit_buffer]. repeat split; try lia. Qed.

Definition cb_len_bounded {cbs} (cb : callback cbs) : Prop :=
  forall s n, nlen (fst (cb s n)) <= n.

Lemma cb_bounded_len {cbs} (cb : callback cbs) : cb_bounded cb -> cb_len_bounded cb.
Proof. intros H s n. apply H. Qed.

(* the buffered bits, oldest (bit 31) first *)
Definition buf_bits (r : bsr) : list bool :=
  bits_of (N.to_nat (bits r)) (bit_buffer r / 2 ^ (32 - bits r)).

(* "the reader holds exactly the bits bl" *)
Definition holds (r : bsr) (bl : list bool) : Prop :=
  nlen bl = bits r /\ nlen bl <= 32 /\ bit_buffer r = val bl * 2 ^ (32 - nlen bl).

Lemma pow2_split a b : b <= a -> 2 ^ a = 2 ^ b * 2 ^ (a - b).
Proof. intros H. rewrite <- pow2_add. f_equal. lia. Qed.

Lemma holds_wf r bl : holds r bl -> bsr_wf r.
Proof.
  intros (A & B & C). unfold bsr_wf. rewrite <- A, C.
  pose proof (val_lt bl) as V. pose proof (pow2_pos (32 - nlen bl)) as P.
  split; [exact B|]. split.
  - rewrite (pow2_split 32 (nlen bl)) by exact B. apply N.mul_lt_mono_pos_r; assumption.
  - apply N.mod_mul. lia.
Qed.

Lemma holds_buf_bits r bl : holds r bl -> buf_bits r = bl.
Proof.
  intros (A & B & C). unfold buf_bits. rewrite <- A, C.
  pose proof (pow2_pos (32 - nlen bl)) as P.
  rewrite N.div_mul by lia. apply bits_of_val_n. unfold nlen. lia.
Qed.

Lemma wf_holds r : bsr_wf r -> holds r (buf_bits r).
Proof.
  intros (A & B & C). unfold holds, buf_bits.
  set (q := bit_buffer r / 2 ^ (32 - bits r)).
  pose proof (pow2_pos (32 - bits r)) as P.
  assert (E : bit_buffer r = q * 2 ^ (32 - bits r)).
  { assert (NZ : 2 ^ (32 - bits r) <> 0) by (apply N.pow_nonzero; lia).
    pose proof (N.div_mod (bit_buffer r) (2 ^ (32 - bits r)) NZ) as D. unfold q.
    rewrite C, N.add_0_r, N.mul_comm in D. exact D. }
  assert (Q : q < 2 ^ bits r).
  { rewrite (pow2_split 32 (bits r)) in B by exact A. rewrite E in B.
    apply N.mul_lt_mono_pos_r in B; assumption. }
  rewrite nlen_bits_of, N2Nat.id. split; [reflexivity|]. split; [exact A|].
  rewrite val_bits_of, N2Nat.id, N.mod_small by exact Q. exact E.
Qed.

Lemma holds_unique r a b : holds r a -> holds r b -> a = b.
Proof. intros A B. rewrite <- (holds_buf_bits r a A). now apply holds_buf_bits. Qed.

Lemma holds_init : holds bsr_init [].
Proof. unfold holds, bsr_init. cbn. repeat split; lia. Qed.

Lemma u32_mod x : u32 x = x mod 2 ^ 32.
Proof. unfold u32. change 4294967295 with (N.ones 32). apply N.land_ones. Qed.

Lemma u32_lt x : u32 x < 2 ^ 32.
Proof. rewrite u32_mod. apply N.mod_lt. apply N.pow_nonzero. lia. Qed.

Lemma lor_disjoint q m b : b < 2 ^ m -> N.lor (q * 2 ^ m) b = q * 2 ^ m + b.
Proof.
  intros H.
  assert (Z : N.land (q * 2 ^ m) b = 0).
  { apply N.bits_inj. intros i. rewrite N.land_spec, N.bits_0.
    destruct (N.lt_ge_cases i m) as [L|L].
    - rewrite N.mul_pow2_bits_low by exact L. reflexivity.
    - rewrite <- (N.mod_small b (2 ^ m)) by exact H.
      rewrite N.mod_pow2_bits_high by exact L. apply andb_false_r. }
  rewrite N.add_nocarry_lxor by exact Z. symmetry. apply N.lxor_lor. exact Z.
Qed.

(* one iteration of the byte loop appends the eight bits of the byte *)
Lemma fill_step_holds r bl b : holds r bl -> nlen bl + 8 <= 32 -> b < 256 ->
  holds {| bit_buffer := u32 (N.lor (bit_buffer r) (N.shiftl b (24 - bits r))); bits := bits r + 8 |}
        (bl ++ bits_of 8 b).
Proof.
  intros (A & B & C) H8 Hb. unfold holds. cbn [bits bit_buffer].
  rewrite nlen_app, nlen_bits_of. change (N.of_nat 8) with 8.
  split; [lia|]. split; [lia|].
  rewrite C, <- A. set (L := nlen bl) in *. set (k := 24 - L).
  replace (32 - L) with (k + 8) by lia. replace (32 - (L + 8)) with k by lia.
  rewrite N.shiftl_mul_pow2.
  pose proof (val_lt bl) as V. fold L in V.
  pose proof (pow2_pos k) as Pk.
  assert (E32 : 2 ^ 32 = 2 ^ L * (2 ^ k * 256)).
  { change 256 with (2 ^ 8). rewrite <- !pow2_add. f_equal. lia. }
  assert (E8 : 2 ^ (k + 8) = 2 ^ k * 256) by (rewrite pow2_add; reflexivity).
  rewrite lor_disjoint by (rewrite E8; nia).
  rewrite u32_mod, N.mod_small.
  - rewrite val_app, nlen_bits_of, val_bits_of_small by (cbn; lia).
    change (2 ^ N.of_nat 8) with 256. rewrite E8. lia.
  - rewrite E32, E8. set (P := 2 ^ k) in *. set (Q := 2 ^ L) in *. nia.
Qed.

Lemma fill_bytes_loop_cons r b rest i :
  fill_bytes_loop r (b :: rest) i =
  if i <? 4 then
    fill_bytes_loop {| bit_buffer := u32 (N.lor (bit_buffer r) (N.shiftl b (24 - bits r)));
                       bits := bits r + 8 |} rest (i + 1)
  else Fault 101.
Proof. reflexivity. Qed.

(* safety of the byte loop: the local buffer index stays below 4 *)
Lemma fill_bytes_loop_ok bs : forall r i, bsr_ok r -> i + nlen bs <= 4 -> bits r + 8 * nlen bs <= 32 ->
  exists r', fill_bytes_loop r bs i = Ok r' /\ bits r' = bits r + 8 * nlen bs /\ bsr_ok r'.
Proof.
  induction bs as [|b rest IH]; intros r i Hok Hi Hb.
  - exists r. cbn [fill_bytes_loop]. rewrite (@nlen_nil N). split; [reflexivity|]. split; [lia|exact Hok].
  - rewrite nlen_cons in *. rewrite fill_bytes_loop_cons.
    destruct (N.ltb_spec i 4) as [Hlt|Hge]; [|lia].
    destruct (IH {| bit_buffer := u32 (N.lor (bit_buffer r) (N.shiftl b (24 - bits r)));
                    bits := bits r + 8 |} (i + 1)) as (r' & E & Eb & Hok').
    + destruct Hok as [A B]. split; cbn [bits bit_buffer]; [lia|apply u32_lt].
    + lia.
    + cbn [bits]. lia.
    + exists r'. split; [exact E|]. split; [|exact Hok']. rewrite Eb. cbn [bits]. lia.
Qed.

(* ... and what it does to the buffered bits *)
Lemma fill_bytes_loop_holds bs : forall r i bl r', holds r bl -> nlen bl + 8 * nlen bs <= 32 ->
  Forall (fun b => b < 256) bs -> fill_bytes_loop r bs i = Ok r' -> holds r' (bl ++ bytes_bits bs).
Proof.
  induction bs as [|b rest IH]; intros r i bl r' Hh Hb Hf E.
  - cbn [fill_bytes_loop] in E. inversion E; subst. rewrite bytes_bits_nil, app_nil_r. exact Hh.
  - rewrite nlen_cons in Hb. rewrite fill_bytes_loop_cons in E.
    destruct (i <? 4); [|discriminate].
    inversion Hf as [|? ? Hb256 Hf']; subst.
    rewrite bytes_bits_cons, app_assoc.
    eapply IH; [| |exact Hf'|exact E].
    + apply fill_step_holds; [exact Hh|lia|exact Hb256].
    + rewrite nlen_app, nlen_bits_of. lia.
Qed.

(* taking n bits off the front: the value returned and the state left *)
Lemma consume_holds r bl n : holds r bl -> n <= nlen bl ->
  holds {| bit_buffer := u32 (N.shiftl (bit_buffer r) n); bits := bits r - n |} (skipn_N n bl) /\
  N.shiftr (bit_buffer r) (32 - n) = val (firstn_N n bl).
Proof.
  intros (A & B & C) Hn.
  pose proof (firstn_skipn_N n bl) as Ebl.
  pose proof (nlen_firstn_N n bl) as Lf. pose proof (nlen_skipn_N n bl) as Lt.
  set (f := firstn_N n bl) in *. set (t := skipn_N n bl) in *.
  pose proof (val_lt f) as Vf. pose proof (val_lt t) as Vt.
  assert (Ev : val bl = val f * 2 ^ nlen t + val t) by (rewrite <- Ebl; apply val_app).
  set (L := nlen bl) in *. rewrite Lt in *. replace (nlen f) with n in * by lia. clear Lf Lt.
  set (a := L - n) in *. set (b := 32 - L) in *.
  assert (E32 : 2 ^ 32 = 2 ^ a * 2 ^ b * 2 ^ n) by (rewrite <- !pow2_add; f_equal; lia).
  pose proof (pow2_pos a) as Pa. pose proof (pow2_pos b) as Pb. pose proof (pow2_pos n) as Pn.
  split.
  - unfold holds. cbn [bits bit_buffer]. fold t. replace (nlen t) with a by (unfold t; rewrite nlen_skipn_N; reflexivity).
    split; [lia|]. split; [lia|].
    replace (32 - a) with (b + n) by lia.
    rewrite u32_mod, N.shiftl_mul_pow2, C, Ev, E32, pow2_add.
    set (PA := 2 ^ a) in *. set (PB := 2 ^ b) in *. set (PN := 2 ^ n) in *.
    replace ((val f * PA + val t) * PB * PN) with (val t * (PB * PN) + val f * (PA * PB * PN)) by lia.
    rewrite N.mod_add by lia. apply N.mod_small. nia.
  - rewrite N.shiftr_div_pow2, C, Ev. replace (32 - n) with (a + b) by lia. rewrite pow2_add.
    set (PA := 2 ^ a) in *. set (PB := 2 ^ b) in *.
    replace ((val f * PA + val t) * PB) with (val f * (PA * PB) + val t * PB) by lia.
    rewrite N.div_add_l by lia. rewrite N.div_small by nia. lia.
Qed.

Ltac Zify.zify_post_hook ::= Z.div_mod_to_equations.

(* ------------------------------------------------------------------ *)
(* Safety for any callback that returns at most as many bytes as asked  *)

Section Safety.
  Context {cbs : Type}.
  Variable cb : callback cbs.

  Lemma peek_fill_eq fuel r c n : peek_fill cb fuel r c n =
    if bits r <? n then
      match fuel with
      | O => OutOfFuel
      | S f =>
        let fill := (32 - bits r) / 8 in
        let '(bs, c') := cb c fill in
        match bs with
        | [] => Ok (false, r, c')
        | _ => r' <- fill_bytes_loop r bs 0 ;; peek_fill cb f r' c' n
        end
      end
    else Ok (true, r, c).
  Proof. destruct fuel; reflexivity. Qed.

  Hypothesis Hcb : cb_len_bounded cb.

  (* the refill loop returns: never Fault 101 (at most fill <= 4 bytes arrive),
     never OutOfFuel (each round adds at least 8 bits; 5 rounds suffice) *)
  Lemma peek_fill_ok fuel : forall r c n, bsr_ok r -> (32 - bits r) / 8 < N.of_nat fuel ->
    exists ok r' c', peek_fill cb fuel r c n = Ok (ok, r', c') /\ bsr_ok r' /\ (ok = true -> n <= bits r').
  Proof.
    induction fuel as [|f IH]; intros r c n Hok Hf; [lia|].
    rewrite peek_fill_eq. destruct (N.ltb_spec (bits r) n) as [Hlt|Hge].
    2:{ exists true, r, c. split; [reflexivity|]. split; [exact Hok|]. intros _. exact Hge. }
    cbv zeta. pose proof (Hcb c ((32 - bits r) / 8)) as Hlen.
    destruct (cb c ((32 - bits r) / 8)) as [bs c'] eqn:Ecb. cbn [fst] in Hlen.
    destruct bs as [|b rest].
    { exists false, r, c'. split; [reflexivity|]. split; [exact Hok|]. intros X; discriminate. }
    set (bs := b :: rest) in *.
    assert (Hpos : 1 <= nlen bs) by (unfold bs; rewrite nlen_cons; lia).
    destruct Hok as [Hb32 Hbuf].
    destruct (fill_bytes_loop_ok bs r 0) as (r1 & E1 & Eb1 & Hok1); [split; assumption|lia|lia|].
    rewrite E1. cbn [bind].
    destruct (IH r1 c' n Hok1) as (ok & r' & c'' & E & Hok' & Hn); [lia|].
    exists ok, r', c''. split; [exact E|]. split; assumption.
  Qed.

  Lemma peek_bits_ok r c n : bsr_ok r -> n <= 32 ->
    exists res r' c', peek_bits cb r c n = Ok (res, r', c') /\ bsr_ok r' /\
      (forall v, res = Some v -> n <= bits r' /\ v = N.shiftr (bit_buffer r') (32 - n) /\ v < 2 ^ n).
  Proof.
    intros Hok Hn. unfold peek_bits. destruct (N.eqb_spec n 0) as [->|Hn0].
    - exists (Some 0), r, c. split; [reflexivity|]. split; [exact Hok|].
      intros v E. inversion E; subst. destruct Hok as [A B]. split; [lia|].
      rewrite N.shiftr_div_pow2. change (32 - 0) with 32. rewrite N.div_small by exact B.
      split; [reflexivity|]. cbn; lia.
    - destruct (peek_fill_ok 6 r c n Hok) as (ok & r' & c' & E & Hok' & Hb).
      { destruct Hok. change (N.of_nat 6) with 6. lia. }
      rewrite E. cbn [bind]. destruct ok.
      + eexists _, r', c'. split; [reflexivity|]. split; [exact Hok'|].
        intros v Ev. split; [auto|].
        assert (V : N.shiftr (bit_buffer r') (32 - n) < 2 ^ n).
        { rewrite N.shiftr_div_pow2. destruct Hok' as [_ B].
          rewrite (pow2_split 32 (32 - n)) in B by lia. replace (32 - (32 - n)) with n in B by lia.
          pose proof (pow2_pos (32 - n)). apply N.div_lt_upper_bound; [lia|exact B]. }
        destruct (N.shiftr (bit_buffer r') (32 - n) <? 2147483648); inversion Ev; subst. auto.
      + exists None, r', c'. split; [reflexivity|]. split; [exact Hok'|]. intros v X; discriminate.
  Qed.

  Theorem read_bits_ok r c n : bsr_ok r -> n <= 32 ->
    exists res r' c', read_bits cb r c n = Ok (res, r', c') /\ bsr_ok r' /\
      (forall v, res = Some v -> v < 2 ^ n).
  Proof.
    intros Hok Hn. unfold read_bits.
    destruct (peek_bits_ok r c n Hok Hn) as (res & r' & c' & E & Hok' & Hv).
    rewrite E. cbn [bind]. destruct res as [v|].
    - eexists _, _, c'. split; [reflexivity|]. destruct (Hv v eq_refl) as (A & B & C).
      split; [|intros w Ew; inversion Ew; subst; exact C].
      destruct Hok' as [X Y]. split; cbn [bits bit_buffer]; [lia|apply u32_lt].
    - exists None, r', c'. split; [reflexivity|]. split; [exact Hok'|]. intros v X; discriminate.
  Qed.

End Safety.

(* with byte-valued input the state also stays well-formed *)
Section SafetyWf.
  Context {cbs : Type}.
  Variable cb : callback cbs.
  Hypothesis Hcbb : cb_bounded cb.
  Let Hcb : cb_len_bounded cb := cb_bounded_len cb Hcbb.

  Lemma peek_fill_wf fuel : forall r c n ok r' c', bsr_wf r ->
    peek_fill cb fuel r c n = Ok (ok, r', c') -> bsr_wf r'.
  Proof.
    induction fuel as [|f IH]; intros r c n ok r' c' Hwf E; rewrite peek_fill_eq in E.
    - destruct (bits r <? n); inversion E; subst. exact Hwf.
    - destruct (N.ltb_spec (bits r) n) as [Hlt|Hge]; [|inversion E; subst; exact Hwf].
      cbv zeta in E. pose proof (Hcbb c ((32 - bits r) / 8)) as [Hlen Hby].
      destruct (cb c ((32 - bits r) / 8)) as [bs c1] eqn:Ecb. cbn [fst] in Hlen, Hby.
      destruct bs as [|b rest]; [inversion E; subst; exact Hwf|].
      set (bs := b :: rest) in *.
      destruct (fill_bytes_loop r bs 0) as [r1| |] eqn:E1; cbn [bind] in E; try discriminate.
      apply (IH r1 c1 n ok r' c'); [|exact E].
      pose proof (wf_holds r Hwf) as Hh. destruct Hwf as (A & _).
      apply (holds_wf r1 (buf_bits r ++ bytes_bits bs)).
      eapply fill_bytes_loop_holds; [exact Hh| |exact Hby|exact E1].
      destruct Hh as (Hl & _). rewrite Hl. lia.
  Qed.

  Theorem peek_bits_safe r c n : bsr_wf r -> n <= 32 ->
    exists res r' c', peek_bits cb r c n = Ok (res, r', c') /\ bsr_wf r' /\
      (forall v, res = Some v -> n <= bits r' /\ v = N.shiftr (bit_buffer r') (32 - n) /\ v < 2 ^ n).
  Proof.
    intros Hwf Hn.
    destruct (peek_bits_ok cb Hcb r c n (bsr_wf_ok r Hwf) Hn) as (res & r' & c' & E & _ & Hv).
    exists res, r', c'. split; [exact E|]. split; [|exact Hv].
    unfold peek_bits in E. destruct (n =? 0); [inversion E; subst; exact Hwf|].
    destruct (peek_fill cb 6 r c n) as [[[ok r1] c1]| |] eqn:Ep; cbn [bind] in E; try discriminate.
    apply peek_fill_wf in Ep; [|exact Hwf]. destruct ok; inversion E; subst; exact Ep.
  Qed.

  Theorem read_bits_safe r c n : bsr_wf r -> n <= 32 ->
    exists res r' c', read_bits cb r c n = Ok (res, r', c') /\ bsr_wf r' /\
      (forall v, res = Some v -> v < 2 ^ n).
  Proof.
    intros Hwf Hn. unfold read_bits.
    destruct (peek_bits_safe r c n Hwf Hn) as (res & r' & c' & E & Hwf' & Hv).
    rewrite E. cbn [bind]. destruct res as [v|].
    - eexists _, _, c'. split; [reflexivity|]. destruct (Hv v eq_refl) as (A & B & C).
      split; [|intros w Ew; inversion Ew; subst; exact C].
      pose proof (wf_holds r' Hwf') as Hh.
      destruct (consume_holds r' (buf_bits r') n Hh) as [Hh' _]; [destruct Hh as (Hl & _); lia|].
      exact (holds_wf _ _ Hh').
    - exists None, r', c'. split; [reflexivity|]. split; [exact Hwf'|]. intros v X; discriminate.
  Qed.

  Corollary read_bit_safe r c : bsr_wf r ->
    exists res r' c', read_bit cb r c = Ok (res, r', c') /\ bsr_wf r' /\
      (forall v, res = Some v -> v < 2).
  Proof. intros Hwf. apply (read_bits_safe r c 1 Hwf). lia. Qed.
End SafetyWf.

(* ------------------------------------------------------------------ *)
(* Functional behaviour over the list source, full reads               *)

Definition src_ok (s : src) : Prop :=
  src_chunks s = [] /\ Forall (fun b => b < 256) (src_data s).

(* the bits still to be delivered: the buffered ones, then those of the input *)
Definition pending (r : bsr) (s : src) : list bool := buf_bits r ++ bytes_bits (src_data s).

Lemma src_cb_full s n : src_chunks s = [] ->
  src_cb s n = (firstn_N n (src_data s), {| src_data := skipn_N n (src_data s); src_chunks := [] |}).
Proof. intros H. unfold src_cb. rewrite H. reflexivity. Qed.

Lemma peek_fill_enough {cbs} (cb : callback cbs) fuel r c n :
  n <= bits r -> peek_fill cb fuel r c n = Ok (true, r, c).
Proof. intros H. rewrite peek_fill_eq. destruct (N.ltb_spec (bits r) n); [lia|reflexivity]. Qed.

Lemma peek_fill_eof f r s n : bits r < n -> src_data s = [] -> src_chunks s = [] ->
  peek_fill src_cb (S f) r s n = Ok (false, r, s).
Proof.
  intros H Hd Hc. rewrite peek_fill_eq. destruct (N.ltb_spec (bits r) n); [|lia].
  cbv zeta. rewrite src_cb_full by exact Hc. rewrite Hd.
  destruct s as [d ch]. cbn [src_data src_chunks] in *. subst. reflexivity.
Qed.

Lemma Forall_firstn_N {A} (P : A -> Prop) n l : Forall P l -> Forall P (firstn_N n l).
Proof. intros H. rewrite <- (firstn_skipn_N n l) in H. apply Forall_app in H. apply H. Qed.

Lemma Forall_skipn_N {A} (P : A -> Prop) n l : Forall P l -> Forall P (skipn_N n l).
Proof. intros H. rewrite <- (firstn_skipn_N n l) in H. apply Forall_app in H. apply H. Qed.

(* the refill loop over the list source: it succeeds exactly when n bits are pending,
   and never loses or reorders a bit *)
Lemma peek_fill_src fuel r s n bl : holds r bl -> src_ok s -> n <= 25 -> (3 <= fuel)%nat ->
  exists ok r' s' bl', peek_fill src_cb fuel r s n = Ok (ok, r', s') /\
    holds r' bl' /\ src_ok s' /\
    bl' ++ bytes_bits (src_data s') = bl ++ bytes_bits (src_data s) /\
    (ok = true -> n <= nlen bl') /\
    (ok = false -> nlen (bl ++ bytes_bits (src_data s)) < n).
Proof.
  intros Hh [Hc Hby] Hn Hfuel.
  destruct (N.le_gt_cases n (bits r)) as [Hge|Hlt].
  { exists true, r, s, bl. rewrite peek_fill_enough by exact Hge.
    split; [reflexivity|]. split; [exact Hh|]. split; [split; assumption|]. split; [reflexivity|].
    destruct Hh as (Hl & _). split; [intros _; lia|intros X; discriminate]. }
  destruct fuel as [|[|[|f]]]; try lia.
  destruct (src_data s) as [|d ds] eqn:Ed.
  { exists false, r, s, bl. rewrite peek_fill_eof by assumption. rewrite Ed.
    split; [reflexivity|]. split; [exact Hh|]. split; [split; [assumption|rewrite Ed; constructor]|].
    split; [reflexivity|]. rewrite bytes_bits_nil, app_nil_r.
    destruct Hh as (Hl & _). split; [intros X; discriminate|intros _; lia]. }
  rewrite <- Ed in *.
  pose proof Hh as (Hl & Hl32 & _).
  rewrite peek_fill_eq. destruct (N.ltb_spec (bits r) n) as [_|]; [|lia].
  cbv zeta. rewrite src_cb_full by exact Hc.
  set (fill := (32 - bits r) / 8).
  set (bs := firstn_N fill (src_data s)). set (rest := skipn_N fill (src_data s)).
  assert (Hbs : nlen bs = N.min fill (nlen (src_data s))) by apply nlen_firstn_N.
  assert (Hrest : nlen rest = nlen (src_data s) - fill) by apply nlen_skipn_N.
  assert (Hsplit : bs ++ rest = src_data s) by apply firstn_skipn_N.
  assert (Hdl : 1 <= nlen (src_data s)) by (rewrite Ed, nlen_cons; lia).
  assert (Hfill : 1 <= fill /\ fill <= 4 /\ 8 * fill <= 32 - bits r /\ 24 < bits r + 8 * fill) by (unfold fill; lia).
  assert (Hbsby : Forall (fun b => b < 256) bs) by (apply Forall_firstn_N; exact Hby).
  assert (Hrestby : Forall (fun b => b < 256) rest) by (apply Forall_skipn_N; exact Hby).
  destruct (fill_bytes_loop_ok bs r 0) as (r1 & E1 & Eb1 & Hok1);
    [apply bsr_wf_ok; exact (holds_wf r bl Hh)|lia|lia|].
  assert (Hh1 : holds r1 (bl ++ bytes_bits bs)).
  { eapply fill_bytes_loop_holds; [exact Hh|lia|exact Hbsby|exact E1]. }
  assert (Epend : (bl ++ bytes_bits bs) ++ bytes_bits rest = bl ++ bytes_bits (src_data s)).
  { rewrite <- app_assoc, <- bytes_bits_app, Hsplit. reflexivity. }
  cbv iota beta.
  destruct bs as [|b0 bs0] eqn:Ebs; [rewrite nlen_nil in Hbs; lia|]. rewrite <- Ebs in *.
  rewrite E1. cbn [bind].
  set (s1 := {| src_data := rest; src_chunks := [] |}).
  destruct (N.le_gt_cases n (bits r1)) as [Hge1|Hlt1].
  - exists true, r1, s1, (bl ++ bytes_bits bs). rewrite peek_fill_enough by exact Hge1.
    split; [reflexivity|]. split; [exact Hh1|]. split; [split; [reflexivity|exact Hrestby]|].
    split; [exact Epend|]. destruct Hh1 as (Hl1 & _).
    split; [intros _; lia|intros X; discriminate].
  - assert (Er : rest = []) by (apply nlen_zero_nil; lia).
    exists false, r1, s1, (bl ++ bytes_bits bs).
    rewrite peek_fill_eof; [|exact Hlt1|exact Er|reflexivity].
    split; [reflexivity|]. split; [exact Hh1|]. split; [split; [reflexivity|exact Hrestby]|].
    split; [exact Epend|]. split; [intros X; discriminate|]. intros _.
    rewrite <- Epend, Er, bytes_bits_nil, app_nil_r. destruct Hh1 as (Hl1 & _). lia.
Qed.

Lemma skipn_N_app_l {A} w (l1 l2 : list A) : w <= nlen l1 -> skipn_N w (l1 ++ l2) = skipn_N w l1 ++ l2.
Proof.
  intros H. rewrite !skipn_N_eq, skipn_app.
  replace (N.to_nat w - length l1)%nat with O by (unfold nlen in H; lia). reflexivity.
Qed.

Lemma pending_holds r s bl : holds r bl -> pending r s = bl ++ bytes_bits (src_data s).
Proof. intros H. unfold pending. now rewrite (holds_buf_bits r bl H). Qed.

(* read_bits over the list source, 0 <= n <= 25: the n-bit big-endian number at the
   front of the pending bits, which are consumed; failure (None) exactly when fewer
   than n bits remain, and then no bit is lost. *)
Theorem read_bits_src r s n : bsr_wf r -> src_ok s -> n <= 25 ->
  (n <= nlen (pending r s) ->
     exists r' s', read_bits src_cb r s n = Ok (Some (val (firstn_N n (pending r s))), r', s') /\
                   bsr_wf r' /\ src_ok s' /\ pending r' s' = skipn_N n (pending r s)) /\
  (nlen (pending r s) < n ->
     exists r' s', read_bits src_cb r s n = Ok (None, r', s') /\
                   bsr_wf r' /\ src_ok s' /\ pending r' s' = pending r s).
Proof.
  intros Hwf Hs Hn. pose proof (wf_holds r Hwf) as Hh. set (bl := buf_bits r) in *.
  rewrite (pending_holds r s bl Hh).
  unfold read_bits, peek_bits. destruct (N.eqb_spec n 0) as [->|Hn0].
  - cbn [bind]. destruct (consume_holds r bl 0 Hh) as [Hh' _]; [lia|]. rewrite skipn_N_0 in Hh'.
    split; [|lia]. intros _. eexists _, s. rewrite firstn_N_0, skipn_N_0.
    split; [reflexivity|]. split; [exact (holds_wf _ _ Hh')|]. split; [exact Hs|].
    apply pending_holds. exact Hh'.
  - destruct (peek_fill_src 6 r s n bl Hh Hs Hn) as (ok & r1 & s1 & bl1 & E & Hh1 & Hs1 & Ep & Ht & Hf); [lia|].
    rewrite E. cbn [bind]. rewrite <- Ep in *.
    destruct ok.
    + specialize (Ht eq_refl). clear Hf.
      destruct (consume_holds r1 bl1 n Hh1 Ht) as [Hh' Ev]. rewrite Ev.
      assert (V : val (firstn_N n bl1) < 2147483648).
      { pose proof (val_lt (firstn_N n bl1)) as V. rewrite nlen_firstn_N in V.
        replace (N.min n (nlen bl1)) with n in V by lia.
        assert (2 ^ n <= 2 ^ 25) by (apply N.pow_le_mono_r; lia).
        change (2 ^ 25) with 33554432 in *. lia. }
      destruct (N.ltb_spec (val (firstn_N n bl1)) 2147483648) as [_|]; [|lia].
      split; [|rewrite nlen_app; lia]. intros _.
      eexists _, s1. rewrite firstn_N_app_l, skipn_N_app_l by exact Ht.
      split; [reflexivity|]. split; [exact (holds_wf _ _ Hh')|]. split; [exact Hs1|].
      apply pending_holds. exact Hh'.
    + specialize (Hf eq_refl). clear Ht.
      split; [lia|]. intros _. exists r1, s1.
      split; [reflexivity|]. split; [exact (holds_wf _ _ Hh1)|]. split; [exact Hs1|].
      apply pending_holds. exact Hh1.
Qed.

(* the same with nat-indexed firstn / skipn *)
Corollary read_bits_src_nat r s n : bsr_wf r -> src_ok s -> n <= 25 ->
  (n <= nlen (pending r s) ->
     exists r' s', read_bits src_cb r s n = Ok (Some (val (firstn (N.to_nat n) (pending r s))), r', s') /\
                   bsr_wf r' /\ src_ok s' /\ pending r' s' = skipn (N.to_nat n) (pending r s)) /\
  (nlen (pending r s) < n ->
     exists r' s', read_bits src_cb r s n = Ok (None, r', s') /\
                   bsr_wf r' /\ src_ok s' /\ pending r' s' = pending r s).
Proof. rewrite <- firstn_N_eq, <- skipn_N_eq. apply read_bits_src. Qed.

(* prefix form: if the pending bits start with the n-bit field v, the read returns v
   and leaves the rest *)
Theorem read_bits_src_prefix r s n v rest : bsr_wf r -> src_ok s -> N.of_nat n <= 25 ->
  v < 2 ^ N.of_nat n -> pending r s = bits_of n v ++ rest ->
  exists r' s', read_bits src_cb r s (N.of_nat n) = Ok (Some v, r', s') /\
                bsr_wf r' /\ src_ok s' /\ pending r' s' = rest.
Proof.
  intros Hwf Hs Hn Hv Hp.
  destruct (read_bits_src r s (N.of_nat n) Hwf Hs Hn) as [H _].
  destruct H as (r' & s' & E & Hwf' & Hs' & Hp').
  { rewrite Hp, nlen_app, nlen_bits_of. lia. }
  rewrite Hp in E, Hp'.
  rewrite firstn_N_app_l in E by (rewrite nlen_bits_of; lia).
  rewrite firstn_N_all in E by (rewrite nlen_bits_of; lia).
  rewrite val_bits_of_small in E by exact Hv.
  rewrite skipn_N_app_l in Hp' by (rewrite nlen_bits_of; lia).
  replace (skipn_N (N.of_nat n) (bits_of n v)) with (@nil bool) in Hp'
    by (symmetry; apply skipn_N_nil_iff; rewrite nlen_bits_of; lia).
  exists r', s'. auto.
Qed.

(* end of input in prefix form *)
Theorem read_bits_src_short r s n : bsr_wf r -> src_ok s -> n <= 25 -> nlen (pending r s) < n ->
  exists r' s', read_bits src_cb r s n = Ok (None, r', s') /\
                bsr_wf r' /\ src_ok s' /\ pending r' s' = pending r s.
Proof. intros Hwf Hs Hn Hl. destruct (read_bits_src r s n Hwf Hs Hn) as [_ H]. auto. Qed.

(* one bit *)
Corollary read_bit_src r s b rest : bsr_wf r -> src_ok s -> pending r s = b :: rest ->
  exists r' s', read_bit src_cb r s = Ok (Some (N.b2n b), r', s') /\
                bsr_wf r' /\ src_ok s' /\ pending r' s' = rest.
Proof.
  intros Hwf Hs Hp. unfold read_bit.
  apply (read_bits_src_prefix r s 1 (N.b2n b) rest Hwf Hs); [cbn; lia|destruct b; cbn; lia|].
  rewrite Hp. destruct b; reflexivity.
Qed.

Corollary read_bit_src_eof r s : bsr_wf r -> src_ok s -> pending r s = [] ->
  exists r' s', read_bit src_cb r s = Ok (None, r', s') /\
                bsr_wf r' /\ src_ok s' /\ pending r' s' = [].
Proof.
  intros Hwf Hs Hp. unfold read_bit.
  destruct (read_bits_src_short r s 1 Hwf Hs) as (r' & s' & E & A & B & C); [lia|rewrite Hp; cbn; lia|].
  rewrite Hp in C. exists r', s'. auto.
Qed.

(* The bound n <= 25 is tight: with 25 bits buffered the C code computes
   fill_bytes = (32 - 25) / 8 = 0, asks the callback for 0 bytes, gets 0 back and
   reports failure, although 33 bits are pending here and 26 are asked for. *)
Example read_bits_26_quirk :
  let s := {| src_data := [255; 255; 255; 255; 255]; src_chunks := [] |} in
  match read_bits src_cb bsr_init s 7 with
  | Ok (_, r1, s1) =>
    (bits r1, nlen (pending r1 s1),
     match read_bits src_cb r1 s1 26 with Ok (res, _, _) => res | _ => Some 0 end)
  | _ => (0, 0, Some 0)
  end = (25, 33, None).
Proof. vm_compute. reflexivity. Qed.

(* ------------------------------------------------------------------ *)
(* bytes_of_bits (S_Larc.v) packs what the reader unpacks              *)

Lemma val_repeat_false k : val (repeat false k) = 0.
Proof. induction k as [|k IH]; [reflexivity|]. cbn [repeat]. rewrite val_cons, IH. cbn [N.b2n]. lia. Qed.

Lemma byte_of_bits_S l k acc : byte_of_bits l (S k) acc =
  match l with
  | [] => byte_of_bits [] k (2 * acc)
  | b :: r => byte_of_bits r k (2 * acc + (if b then 1 else 0))
  end.
Proof. reflexivity. Qed.

Lemma byte_of_bits_spec n : forall l acc,
  byte_of_bits l n acc =
  (acc * 2 ^ N.of_nat n + val (firstn n l ++ repeat false (n - length l)), skipn n l).
Proof.
  induction n as [|k IH]; intros l acc.
  - cbn [byte_of_bits firstn skipn Nat.sub repeat app val]. f_equal. change (2 ^ N.of_nat 0) with 1. lia.
  - rewrite byte_of_bits_S.
    assert (E2 : 2 ^ N.of_nat (S k) = 2 * 2 ^ N.of_nat k).
    { replace (N.of_nat (S k)) with (N.of_nat k + 1) by lia. apply pow2_succ. }
    destruct l as [|b r].
    + rewrite IH, firstn_nil, skipn_nil. cbn [firstn skipn app length].
      rewrite !val_repeat_false, E2. f_equal. lia.
    + rewrite IH. cbn [firstn skipn app length]. rewrite val_cons.
      replace (S k - S (length r))%nat with (k - length r)%nat by lia.
      assert (El : nlen (firstn k r ++ repeat false (k - length r)) = N.of_nat k).
      { unfold nlen. rewrite app_length, firstn_length, repeat_length. lia. }
      rewrite El, E2. f_equal. destruct b; cbn [N.b2n]; lia.
Qed.

Lemma bytes_of_bits_fuel_S f l : bytes_of_bits_fuel (S f) l =
  match l with
  | [] => []
  | _ => let '(b, r) := byte_of_bits l 8 0 in b :: bytes_of_bits_fuel f r
  end.
Proof. reflexivity. Qed.

Lemma bytes_of_bits_fuel_nil f : bytes_of_bits_fuel f [] = [].
Proof. destruct f; reflexivity. Qed.

Lemma bytes_of_bits_fuel_spec fuel : forall l, (length l <= fuel)%nat ->
  Forall (fun b => b < 256) (bytes_of_bits_fuel fuel l) /\
  exists k, (k < 8)%nat /\ bytes_bits (bytes_of_bits_fuel fuel l) = l ++ repeat false k.
Proof.
  induction fuel as [|f IH]; intros l Hl.
  - destruct l; [|cbn in Hl; lia]. split; [constructor|]. exists O. split; [lia|reflexivity].
  - rewrite bytes_of_bits_fuel_S. destruct l as [|b0 r0] eqn:El.
    { split; [constructor|]. exists O. split; [lia|reflexivity]. }
    rewrite <- El in *. assert (Hpos : (1 <= length l)%nat) by (rewrite El; cbn; lia). clear El.
    rewrite byte_of_bits_spec. cbv iota beta zeta.
    set (X := firstn 8 l ++ repeat false (8 - length l)).
    assert (LX : length X = 8%nat) by (unfold X; rewrite app_length, firstn_length, repeat_length; lia).
    assert (VX : 0 * 2 ^ N.of_nat 8 + val X < 256).
    { pose proof (val_lt X) as V. unfold nlen in V. rewrite LX in V. change (2 ^ N.of_nat 8) with 256 in *. lia. }
    assert (BX : bits_of 8 (0 * 2 ^ N.of_nat 8 + val X) = X).
    { rewrite N.mul_0_l, N.add_0_l. apply bits_of_val_n. now rewrite LX. }
    rewrite bytes_bits_cons, BX.
    destruct (Nat.le_gt_cases (length l) 8) as [Hle|Hgt].
    + rewrite skipn_all2 by exact Hle. rewrite bytes_of_bits_fuel_nil.
      split; [constructor; [exact VX|constructor]|].
      exists (8 - length l)%nat. split; [lia|].
      rewrite bytes_bits_nil, app_nil_r. unfold X. rewrite firstn_all2 by exact Hle. reflexivity.
    + destruct (IH (skipn 8 l)) as [Hby (k & Hk & Ek)]; [rewrite skipn_length; lia|].
      split; [constructor; [exact VX|exact Hby]|].
      exists k. split; [exact Hk|]. rewrite Ek. unfold X.
      replace (8 - length l)%nat with O by lia. cbn [repeat]. rewrite app_nil_r, app_assoc, firstn_skipn.
      reflexivity.
Qed.

Lemma bytes_of_bits_bounded bs : Forall (fun b => b < 256) (bytes_of_bits bs).
Proof. apply (bytes_of_bits_fuel_spec (length bs) bs). lia. Qed.

Lemma bytes_bits_bytes_of_bits bs :
  exists k, (k < 8)%nat /\ bytes_bits (bytes_of_bits bs) = bs ++ repeat false k.
Proof. apply (bytes_of_bits_fuel_spec (length bs) bs). lia. Qed.

(* A fresh reader over packed bits followed by more bytes sees the bits, fewer
   than 8 zero padding bits, then the bits of the remaining bytes. *)
Theorem pending_bytes_of_bits bs tail :
  exists k, (k < 8)%nat /\
    pending bsr_init {| src_data := bytes_of_bits bs ++ tail; src_chunks := [] |} =
    bs ++ repeat false k ++ bytes_bits tail.
Proof.
  destruct (bytes_bits_bytes_of_bits bs) as (k & Hk & E). exists k. split; [exact Hk|].
  rewrite (pending_holds _ _ [] holds_init). cbn [src_data app].
  rewrite bytes_bits_app, E, <- app_assoc. reflexivity.
Qed.

Lemma src_ok_bytes_of_bits bs tail : Forall (fun b => b < 256) tail ->
  src_ok {| src_data := bytes_of_bits bs ++ tail; src_chunks := [] |}.
Proof.
  intros H. split; [reflexivity|]. cbn [src_data]. apply Forall_app. split; [apply bytes_of_bits_bounded|exact H].
Qed.

Print Assumptions bsr_init_wf.
Print Assumptions read_bits_ok.
Print Assumptions peek_bits_safe.
Print Assumptions read_bits_safe.
Print Assumptions read_bits_src.
Print Assumptions read_bits_src_prefix.
Print Assumptions read_bit_src.
Print Assumptions pending_bytes_of_bits.

(* Properties_C04.v -- C04: PMarc -pm1-/-pm2- decode every valid stream exactly.
   The specification (pcmd, pm_expand, move-to-front history with the PMarc
   starting order, the pm1 and pm2 serialisers with every table form, wf_pm1,
   wf_pm2, the zero-extension rule) is S_Pm.v.  Proved: the decoders' history list IS the
   specification's move-to-front list (history_list_is_mtf) and the -pm2- round
   trip in full (pm2_roundtrip; pm2_roundtrip_partial is the earlier literal-only
   special case).  The -pm1- round trip with the zero-extension rule is proved in
   full as well (pm1_roundtrip, pm1_zero_extension).  The direct oracle of the check (C output =
   extracted spec expansion on streams produced by the extracted serialisers) ties these
   theorems about the model to the C on every run. *)
From Lhasa Require Import Base ListN DecBase Generated Decoder PmaCommon Pm2 S_Larc S_Pm P_Decoder P_PmaCommon P_Pm2 P_Pm2Rt P_Pm2Lens P_Pm2Full Pm1 P_Pm1Rt.
Local Open Scope N_scope.

(* The starting history holds all 256 byte values, each once, in the PMarc order
   0x20..0x7f, 0x00..0x1f, 0xa0..0xdf, 0x80..0x9f, 0xe0..0xff. *)
Example pm_mtf0_is_pmarc_order :
  length pm_mtf0 = 256%nat /\ firstn 3 pm_mtf0 = [32; 33; 34] /\ nth 96 pm_mtf0 0 = 0 /\
  nth 128 pm_mtf0 0 = 160 /\ nth 192 pm_mtf0 0 = 128 /\ nth 224 pm_mtf0 0 = 224 /\
  forallb (fun b => N.of_nat (length (filter (N.eqb b) pm_mtf0)) =? 1) (map N.of_nat (seq 0 256)) = true.
Proof. repeat split; vm_compute; reflexivity. Qed.

(* lib/pma_common.c: after any sequence of byte uses the history list is the
   specification's move-to-front list, and lookups by count return its entries *)
Theorem history_list_is_mtf : forall bs, Forall (fun b => b < 256) bs ->
  exists h0 h', init_history_list = Ok h0 /\ hl_run h0 bs = Ok h' /\ hl_wf h' /\
    hl_list h' = fold_left mtf_front bs pm_mtf0 /\
    forall count, count < 256 -> find_in_history_list h' count = Ok (nthN (fold_left mtf_front bs pm_mtf0) count).
Proof.
  intros bs Hall. destruct init_history_list_wf as (h0 & E0 & W0 & L0).
  destruct (P_PmaCommon.history_list_is_mtf bs Hall h0 W0) as (h' & E & W & L & F).
  exists h0, h'. rewrite <- L0. auto.
Qed.

(* pm2, partial: literal-only single-segment streams, any well-formed code table,
   any trailing bytes, any sequence of read sizes covering the output *)
Theorem pm2_roundtrip_partial : forall f ct off bs tail s0 ks,
  wf_pm2 (lit_stream f ct off bs) = true -> nlen bs < 1024 ->
  Forall (fun b => b < 256) tail -> pm2_init = Ok s0 ->
  let d := lit_stream f ct off bs in
  let src := {| src_data := pm2_serialise d ++ tail; src_chunks := [] |} in
  let L := nlen (pm2_denote d) in
  L <= sum_N ks -> sum_N ks < 2 ^ 62 ->
  pm2_denote d = bs /\
  exists os d',
    run_reads (pm2_read src_cb) pm2_max_read pm2_block_size (lha_decoder_new s0 src L) ks = Ok (os, d') /\
    concat os = pm2_denote d.
Proof. exact pm2_literals_roundtrip. Qed.

(* pm2 in full: EVERY well-formed stream description -- literals, copies of every
   length / distance class incl. overlapping ones and ones reading the space fill,
   any number of segments with the table re-reads at 1024, 2048, 4096, 8192 and
   every 4096 after (also in the middle of a copy), kept and re-read tables,
   single-code and general code tables, every offset-table form --, any trailing
   bytes, any read schedule covering the output *)
Theorem pm2_roundtrip : forall d tail s0 ks,
  wf_pm2 d = true -> Forall (fun b => b < 256) tail -> pm2_init = Ok s0 ->
  nlen (pm2_denote d) <= sum_N ks -> sum_N ks < 2 ^ 62 ->
  exists os d',
    run_reads (pm2_read src_cb) pm2_max_read pm2_block_size
      (lha_decoder_new s0 {| src_data := pm2_serialise d ++ tail; src_chunks := [] |} (nlen (pm2_denote d))) ks
      = Ok (os, d') /\
    concat os = pm2_denote d.
Proof. exact P_Pm2Full.pm2_roundtrip. Qed.

(* pm1 in full, with the format's zero-extension rule: for EVERY well-formed
   stream description (every start header 0..31, byte blocks of every length
   coding, copies of every length class and position-dependent distance width) and
   every input that agrees with its serialisation up to trailing zero bytes
   (zero bytes removed -- the decoder continues with zero bits -- or appended),
   any read schedule covering the output.  Side condition: output below 2^32 bytes
   (the C keeps the output position in an unsigned int; the header's length field
   is 32 bits wide anyway). *)
Theorem pm1_zero_extension : forall d data s0 ks,
  wf_pm1 d = true -> nlen (pm1_denote d) < 2 ^ 32 -> zero_ext data (pm1_serialise d) -> pm1_init = Ok s0 ->
  let L := nlen (pm1_denote d) in
  L <= sum_N ks -> sum_N ks < 2 ^ 62 ->
  exists os d',
    run_reads (pm1_read src_cb) pm1_max_read pm1_block_size
      (lha_decoder_new s0 {| src_data := data; src_chunks := [] |} L) ks = Ok (os, d') /\
    concat os = pm1_denote d.
Proof. exact P_Pm1Rt.pm1_zero_extension. Qed.

Theorem pm1_roundtrip : forall d zeros s0 ks,
  wf_pm1 d = true -> nlen (pm1_denote d) < 2 ^ 32 -> Forall (fun b => b = 0) zeros -> pm1_init = Ok s0 ->
  let L := nlen (pm1_denote d) in
  L <= sum_N ks -> sum_N ks < 2 ^ 62 ->
  exists os d',
    run_reads (pm1_read src_cb) pm1_max_read pm1_block_size
      (lha_decoder_new s0 {| src_data := pm1_serialise d ++ zeros; src_chunks := [] |} L) ks = Ok (os, d') /\
    concat os = pm1_denote d.
Proof. exact P_Pm1Rt.pm1_roundtrip_zeros. Qed.

Print Assumptions history_list_is_mtf.
Print Assumptions pm2_roundtrip_partial.
Print Assumptions pm2_roundtrip.
Print Assumptions pm1_zero_extension.
Print Assumptions pm1_roundtrip.

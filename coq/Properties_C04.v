(* Properties_C04.v -- C04: PMarc -pm1-/-pm2- decode every valid stream exactly.
   The specification (pcmd, pm_expand, move-to-front history with the PMarc
   starting order, the pm1 and pm2 serialisers with every table form, wf_pm1,
   wf_pm2, the zero-extension rule) is S_Pm.v.  Proved so far: facts about the
   specification; the round trips (pm2_roundtrip, pm1_roundtrip,
   pm1_zero_extension) are decided by the direct oracle of the check (C output =
   extracted spec expansion on streams produced by the extracted serialisers)
   until their proofs are complete. *)
From Lhasa Require Import Base S_Pm.
Local Open Scope N_scope.

(* The starting history holds all 256 byte values, each once, in the PMarc order
   0x20..0x7f, 0x00..0x1f, 0xa0..0xdf, 0x80..0x9f, 0xe0..0xff. *)
Example pm_mtf0_is_pmarc_order :
  length pm_mtf0 = 256%nat /\ firstn 3 pm_mtf0 = [32; 33; 34] /\ nth 96 pm_mtf0 0 = 0 /\
  nth 128 pm_mtf0 0 = 160 /\ nth 192 pm_mtf0 0 = 128 /\ nth 224 pm_mtf0 0 = 224 /\
  forallb (fun b => N.of_nat (length (filter (N.eqb b) pm_mtf0)) =? 1) (map N.of_nat (seq 0 256)) = true.
Proof. repeat split; vm_compute; reflexivity. Qed.

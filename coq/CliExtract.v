(* CliExtract.v -- model of src/extract.c (all of it) over the reader model
   (Reader.v) and the filesystem model (Fs.v / FsRun.v), with the parts of
   src/safe.c it uses (ListOut.v: safe_output / safe_printf).

   The process is a record [cli_state]: filesystem (with its operation trace
   fs_trace: every mutating system call the tool makes goes through an Fs.v
   operation and is therefore in the trace), the reader, the options (the C
   writes options->overwrite_policy), standard input, and what has been
   written to stdout and stderr.  A function that may call exit() returns
   [res A]: a value, or the exit status.

   Output of a C function = the bytes it prints; printf format strings are
   transcribed, string constants below are the C literals.  The progress
   callback is not a closure here: lha_reader_check / lha_reader_extract
   return the (block, num_blocks) pairs they invoked the callback with, and
   [progress_output] prints them (the callback touches nothing but stdout,
   which no other part of the call writes).

   Not modelled: failure of malloc / strdup / vasprintf (exit(-1) in the C),
   write errors on stdout (print_archived_file returning 0).
   Definitions only. *)
From Lhasa Require Import Base Loop Generated InputStream Header BasicReader Fs FsRun Reader Glob ListOut CliFilter.
Local Open Scope N_scope.

(* ---- string constants of src/extract.c ---- *)
(* "\t- " *)
Definition s_tab_dash : list N :=
  [9; 45; 32].

(* "  " *)
Definition s_two_spaces : list N :=
  [32; 32].

(* " :" *)
Definition s_space_colon : list N :=
  [32; 58].

(* "Testing  :" *)
Definition s_testing : list N :=
  [84; 101; 115; 116; 105; 110; 103; 32; 32; 58].

(* "Melting  :" *)
Definition s_melting : list N :=
  [77; 101; 108; 116; 105; 110; 103; 32; 32; 58].

(* "Tested" *)
Definition s_tested : list N :=
  [84; 101; 115; 116; 101; 100].

(* "CRC error" *)
Definition s_crc_error : list N :=
  [67; 82; 67; 32; 101; 114; 114; 111; 114].

(* "Melted" *)
Definition s_melted : list N :=
  [77; 101; 108; 116; 101; 100].

(* "Failure" *)
Definition s_failure : list N :=
  [70; 97; 105; 108; 117; 114; 101].

(* "Symbolic Link " *)
Definition s_symbolic_link : list N :=
  [83; 121; 109; 98; 111; 108; 105; 99; 32; 76; 105; 110; 107; 32].

(* " -> " *)
Definition s_arrow : list N :=
  [32; 45; 62; 32].

(* "VERIFY " *)
Definition s_verify : list N :=
  [86; 69; 82; 73; 70; 89; 32].

(* "Failed to create parent directory " *)
Definition s_failed_parent : list N :=
  [70; 97; 105; 108; 101; 100; 32; 116; 111; 32; 99; 114; 101; 97; 116; 101; 32; 112; 97; 114; 101;
   110; 116; 32; 100; 105; 114; 101; 99; 116; 111; 114; 121; 32].

(* "Parent path " *)
Definition s_parent_path : list N :=
  [80; 97; 114; 101; 110; 116; 32; 112; 97; 116; 104; 32].

(* " is not a directory!" *)
Definition s_not_a_directory : list N :=
  [32; 105; 115; 32; 110; 111; 116; 32; 97; 32; 100; 105; 114; 101; 99; 116; 111; 114; 121; 33].

(* "Failed to stat " *)
Definition s_failed_stat : list N :=
  [70; 97; 105; 108; 101; 100; 32; 116; 111; 32; 115; 116; 97; 116; 32].

(* "OverWrite ?(Yes/[No]/All/Skip) " *)
Definition s_overwrite_prompt : list N :=
  [79; 118; 101; 114; 87; 114; 105; 116; 101; 32; 63; 40; 89; 101; 115; 47; 91; 78; 111; 93; 47; 65;
   108; 108; 47; 83; 107; 105; 112; 41; 32].

(* "Failed to read file type of '" *)
Definition s_failed_file_type : list N :=
  [70; 97; 105; 108; 101; 100; 32; 116; 111; 32; 114; 101; 97; 100; 32; 102; 105; 108; 101; 32; 116;
   121; 112; 101; 32; 111; 102; 32; 39].

(* "'" *)
Definition s_quote : list N :=
  [39].

(* " : Skipped..." *)
Definition s_skipped : list N :=
  [32; 58; 32; 83; 107; 105; 112; 112; 101; 100; 46; 46; 46].

(* "EXTRACT " *)
Definition s_extract : list N :=
  [69; 88; 84; 82; 65; 67; 84; 32].

(* "|" *)
Definition s_bar : list N :=
  [124].

(* " (directory)" *)
Definition s_directory : list N :=
  [32; 40; 100; 105; 114; 101; 99; 116; 111; 114; 121; 41].

(* " but file is exist." *)
Definition s_file_is_exist : list N :=
  [32; 98; 117; 116; 32; 102; 105; 108; 101; 32; 105; 115; 32; 101; 120; 105; 115; 116; 46].

(* "::::::::\n" *)
Definition s_banner_top : list N :=
  [58; 58; 58; 58; 58; 58; 58; 58; 10].

(* "\n::::::::\n" *)
Definition s_banner_bottom : list N :=
  [10; 58; 58; 58; 58; 58; 58; 58; 58; 10].


(* ================================================================== *)
(* the process: everything a function of src/extract.c can touch       *)

(* exit(code) somewhere below: the rest of the program does not run *)
Inductive res (A : Type) : Type :=
| RVal (a : A)
| RExit (code : N).
Arguments RVal {A} a.
Arguments RExit {A} code.

Record cli_state := {
  cs_fs : fs;                      (* the filesystem, with its trace of operations *)
  cs_reader : reader;              (* *filter->reader *)
  cs_opts : lha_options;           (* *options: confirm_file_overwrite writes overwrite_policy *)
  cs_stdin : list N;               (* bytes not yet read from standard input (when it is not the archive) *)
  cs_stdin_shared : bool;          (* the archive is "-": standard input is the reader's source *)
  cs_out : list (list N);          (* what was written to stdout, newest chunk first *)
  cs_err : list (list N)           (* what was written to stderr, newest chunk first *)
}.

Definition set_fs (st : cli_state) (f : fs) : cli_state :=
  {| cs_fs := f; cs_reader := cs_reader st; cs_opts := cs_opts st; cs_stdin := cs_stdin st;
     cs_stdin_shared := cs_stdin_shared st; cs_out := cs_out st; cs_err := cs_err st |}.
Definition set_reader (st : cli_state) (r : reader) : cli_state :=
  {| cs_fs := cs_fs st; cs_reader := r; cs_opts := cs_opts st; cs_stdin := cs_stdin st;
     cs_stdin_shared := cs_stdin_shared st; cs_out := cs_out st; cs_err := cs_err st |}.
Definition set_opts (st : cli_state) (o : lha_options) : cli_state :=
  {| cs_fs := cs_fs st; cs_reader := cs_reader st; cs_opts := o; cs_stdin := cs_stdin st;
     cs_stdin_shared := cs_stdin_shared st; cs_out := cs_out st; cs_err := cs_err st |}.
Definition set_stdin (st : cli_state) (d : list N) : cli_state :=
  {| cs_fs := cs_fs st; cs_reader := cs_reader st; cs_opts := cs_opts st; cs_stdin := d;
     cs_stdin_shared := cs_stdin_shared st; cs_out := cs_out st; cs_err := cs_err st |}.
(* printf / fwrite to stdout, fprintf to stderr *)
Definition put_out (st : cli_state) (b : list N) : cli_state :=
  {| cs_fs := cs_fs st; cs_reader := cs_reader st; cs_opts := cs_opts st; cs_stdin := cs_stdin st;
     cs_stdin_shared := cs_stdin_shared st; cs_out := b :: cs_out st; cs_err := cs_err st |}.
Definition put_err (st : cli_state) (b : list N) : cli_state :=
  {| cs_fs := cs_fs st; cs_reader := cs_reader st; cs_opts := cs_opts st; cs_stdin := cs_stdin st;
     cs_stdin_shared := cs_stdin_shared st; cs_out := cs_out st; cs_err := b :: cs_err st |}.

Definition stdout_bytes (st : cli_state) : list N := concat (rev (cs_out st)).
Definition stderr_bytes (st : cli_state) : list N := concat (rev (cs_err st)).

(* sequencing of steps that may exit *)
Definition cbind {A B} (m : outcome (res A * cli_state))
           (k : A -> cli_state -> outcome (res B * cli_state)) : outcome (res B * cli_state) :=
  match m with
  | Ok (RVal a, st) => k a st
  | Ok (RExit c, st) => Ok (RExit c, st)
  | Fault s => Fault s
  | OutOfFuel => OutOfFuel
  end.
Notation "'LET' a , st <== m ;; k" := (cbind m (fun a st => k))
  (at level 61, a name, st name, m at next level, right associativity).

Definition exit_minus_1 : N := 255.            (* exit(-1) as the parent sees it *)

(* ---- standard input.  getchar() takes the next byte of the FILE stdin; when
   the archive is "-" that is the same FILE the input stream of the reader
   reads with fread, so the next byte is the first one the reader's source has
   not delivered yet. ---- *)
Definition reader_src_data (r : reader) : list N := so_data (is_src (br_stream (rd_br r))).
Definition reader_set_src_data (r : reader) (d : list N) : reader :=
  let b := rd_br r in
  let s := br_stream b in
  let so := is_src s in
  let b' := {| br_stream := {| is_src := {| so_kind := so_kind so; so_data := d; so_reads := so_reads so;
                                            so_skips := so_skips so |};
                               is_state := is_state s; is_leadin := is_leadin s |};
               br_curr := br_curr b; br_remaining := br_remaining b; br_eof := br_eof b |} in
  {| rd_br := b'; rd_curr := rd_curr r; rd_type := rd_type r; rd_decoder := rd_decoder r; rd_inner := rd_inner r;
     rd_policy := rd_policy r; rd_dir_stack := rd_dir_stack r; rd_deferred := rd_deferred r;
     rd_linked := rd_linked r |}.

Definition stdin_data (st : cli_state) : list N :=
  if cs_stdin_shared st then reader_src_data (cs_reader st) else cs_stdin st.
Definition set_stdin_data (st : cli_state) (d : list N) : cli_state :=
  if cs_stdin_shared st then set_reader st (reader_set_src_data (cs_reader st) d) else set_stdin st d.

(* ================================================================== *)
(* src/extract.c                                                       *)

Fixpoint skip_slashes (p : list N) : list N :=
  match p with
  | c :: r => if c =? 47 then skip_slashes r else p
  | [] => []
  end.

(* file_full_path *)
Definition file_full_path (h : header) (o : lha_options) : list N :=
  (match o_extract_path o with Some e => e ++ [47] | None => [] end)
  ++ (if o_use_path o then match h_path h with Some p => skip_slashes p | None => [] end else [])
  ++ (match h_filename h with Some f => skip_slashes f | None => [] end).

(* print_filename: printf("\r"); safe_printf("%s", filename); printf("\t- %s  ", status) *)
Definition print_filename (filename status : list N) : list N :=
  [13] ++ safe_printf filename ++ s_tab_dash ++ status ++ s_two_spaces.

(* print_filename_brief: printf("\r"); safe_printf("%s :", filename) *)
Definition print_filename_brief (filename : list N) : list N :=
  [13] ++ safe_printf (filename ++ s_space_colon).

(* progress_callback: what one invocation prints.  block, num_blocks: unsigned int *)
Definition progress_callback (o : lha_options) (filename operation : list N) (block num_blocks : N) : list N :=
  if 2 <=? o_quiet o then []
  else if o_quiet o =? 1 then (if block =? 0 then print_filename_brief filename else [])
  else
    let factor := u32 (1 + num_blocks / MAX_PROGRESS_LEN) in
    let num_blocks' := u32 (num_blocks + factor + 4294967295) / factor in
    if block =? 0 then
      print_filename filename operation ++ repeat 46 (N.to_nat num_blocks') ++ print_filename filename operation
    else if (u32 (block + factor + 4294967295) mod factor) =? 0 then [111]
    else [].

(* everything the callback prints during one lha_reader_check / lha_reader_extract *)
Definition progress_output (o : lha_options) (filename operation : list N) (evs : list (N * N)) : list N :=
  concat (map (fun e => progress_callback o filename operation (fst e) (snd e)) evs).

Definition invoked (evs : list (N * N)) : bool := match evs with [] => false | _ => true end.

(* print_symlink_line *)
Definition print_symlink_line (src dest : list N) : list N :=
  safe_printf (s_symbolic_link ++ src ++ s_arrow ++ dest) ++ [10].

Definition is_dir_type (h : header) : bool := method_is h COMPRESS_TYPE_DIR.   (* !strcmp(compress_method, "-lhd-") *)

Section Extract.
  Variable mktime : N -> N -> N -> N -> Z -> N -> N.
  Variable junk : N.

  (* test_archived_file_crc *)
  Definition test_archived_file_crc (h : header) (st : cli_state) : outcome (res bool * cli_state) :=
    let o := cs_opts st in
    let filename := file_full_path h o in
    if o_dry_run o then
      let st1 := if negb (is_dir_type h) then put_out st (safe_printf (s_verify ++ filename) ++ [10]) else st in
      Ok (RVal true, st1)
    else
      '(success, evs, r') <- lha_reader_check junk (cs_reader st) true ;;
      let st1 := put_out (set_reader st r') (progress_output o filename s_testing evs) in
      let st2 := if invoked evs && (o_quiet o <? 2)
                 then put_out st1 (print_filename filename (if success then s_tested else s_crc_error) ++ [10])
                 else st1 in
      Ok (RVal success, st2).

  (* check_parent_directory *)
  Definition check_parent_directory (path : list N) (st : cli_state) : bool * cli_state :=
    match arch_exists (cs_fs st) path with
    | FT_DIRECTORY => (true, st)
    | FT_NONE =>
      let '(ok, f1) := arch_mkdir (cs_fs st) path 493 (* 0755 *) in
      if negb ok then (false, put_err (set_fs st f1) (safe_printf (s_failed_parent ++ path) ++ [10]))
      else (true, set_fs st f1)
    | FT_FILE => (false, put_err st (safe_printf (s_parent_path ++ path ++ s_not_a_directory) ++ [10]))
    | FT_ERROR => (false, put_err st (safe_printf (s_failed_stat ++ path) ++ [10]))
    end.

  (* strip off any trailing '/'s (on the reversed string) *)
  Definition strip_trailing_slashes (p : list N) : list N := rev (skip_slashes (rev p)).

  (* the for (;;) loop of make_parent_directories: pre = path[0 .. p) reversed, rest = the string at p *)
  Fixpoint mpd_loop (pre rest : list N) (st : cli_state) : bool * cli_state :=
    match rest with
    | [] => (true, st)                                       (* strchr == NULL *)
    | c :: r =>
      if c =? 47 then
        let '(ok, st1) := check_parent_directory (rev pre) st in
        if negb ok then (false, st1) else mpd_loop (c :: pre) r st1
      else mpd_loop (c :: pre) r st
    end.

  (* for (p = path; *p == '/'; ++p); *)
  Fixpoint leading_slashes (p : list N) : list N * list N :=
    match p with
    | c :: r => if c =? 47 then let '(a, b) := leading_slashes r in (c :: a, b) else ([], p)
    | [] => ([], [])
    end.

  (* make_parent_directories *)
  Definition make_parent_directories (orig_path : list N) (st : cli_state) : bool * cli_state :=
    let path := strip_trailing_slashes orig_path in
    let '(lead, rest) := leading_slashes path in
    mpd_loop (rev lead) rest st.

  (* the do-while of prompt_user: None = getchar() < 0 *)
  Fixpoint prompt_read (inp : list N) (result : N) : option (N * list N) :=
    match inp with
    | [] => None
    | c :: r =>
      let result' := if result =? 0 then c else result in
      if c =? 10 then Some (result', r) else prompt_read r result'
    end.

  (* prompt_user *)
  Definition prompt_user (message : list N) (st : cli_state) : outcome (res N * cli_state) :=
    let st1 := put_err st message in
    match prompt_read (stdin_data st1) 0 with
    | None => Ok (RExit exit_minus_1, set_stdin_data st1 [])
    | Some (c, rest) => Ok (RVal c, set_stdin_data st1 rest)
    end.

  (* tolower in the "C" locale *)
  Definition tolower (c : N) : N := if (65 <=? c) && (c <=? 90) then c + 32 else c.

  (* one iteration of the for (;;) of confirm_file_overwrite *)
  Definition confirm_step (filename : list N) (st : cli_state)
    : outcome (cli_state + (res bool * cli_state)) :=
    let st1 := put_err st (safe_printf (filename ++ [32])) in
    r <- prompt_user s_overwrite_prompt st1 ;;
    match r with
    | (RExit c, st2) => Ok (inr (RExit c, st2))
    | (RVal response, st2) =>
      let c := tolower response in
      if c =? 121 then Ok (inr (RVal true, st2))                                        (* y *)
      else if (c =? 110) || (c =? 10) then Ok (inr (RVal false, st2))                   (* n, newline *)
      else if c =? 97 then                                                              (* a *)
        Ok (inr (RVal true, set_opts st2 (set_overwrite (cs_opts st2) LHA_OVERWRITE_ALL)))
      else if c =? 115 then                                                             (* s *)
        Ok (inr (RVal false, set_opts st2 (set_overwrite (cs_opts st2) LHA_OVERWRITE_SKIP)))
      else Ok (inl st2)
    end.

  (* confirm_file_overwrite *)
  Definition confirm_file_overwrite (filename : list N) (st : cli_state) : outcome (res bool * cli_state) :=
    match o_overwrite_policy (cs_opts st) with
    | LHA_OVERWRITE_SKIP => Ok (RVal false, st)
    | LHA_OVERWRITE_ALL => Ok (RVal true, st)
    | LHA_OVERWRITE_PROMPT => loop (confirm_step filename) 40 st
    end.

  (* file_exists *)
  Definition file_exists (filename : list N) (st : cli_state) : outcome (res bool * cli_state) :=
    match arch_exists (cs_fs st) filename with
    | FT_ERROR => Ok (RExit exit_minus_1,
                      put_err st (safe_printf (s_failed_file_type ++ filename ++ s_quote) ++ [10]))
    | FT_NONE => Ok (RVal false, st)
    | _ => Ok (RVal true, st)
    end.

  Definition is_skip (p : overwrite_policy) : bool := match p with LHA_OVERWRITE_SKIP => true | _ => false end.

  (* extract_archived_file *)
  Definition extract_archived_file (h : header) (st : cli_state) : outcome (res bool * cli_state) :=
    let filename := file_full_path h (cs_opts st) in
    let is_symlink := match h_symlink_target h with Some _ => true | None => false end in
    let is_dir := is_dir_type h && negb is_symlink in
    (* !is_dir && !is_symlink && file_exists(filename) && !confirm_file_overwrite(filename, options) *)
    LET skip, st1 <== (if negb is_dir && negb is_symlink then
                        LET ex, sta <== file_exists filename st ;;
                        if ex then LET yes, stb <== confirm_file_overwrite filename sta ;; Ok (RVal (negb yes), stb)
                        else Ok (RVal false, sta)
                      else Ok (RVal false, st)) ;;
    if skip then
      let st2 := if is_skip (o_overwrite_policy (cs_opts st1))
                 then put_out st1 (safe_printf (filename ++ s_skipped) ++ [10]) else st1 in
      Ok (RVal true, st2)
    else
    let o := cs_opts st1 in
    if negb (o_use_path o) && is_dir then Ok (RVal true, st1) else
    let '(ok, st2) := make_parent_directories filename st1 in
    if negb ok then Ok (RVal false, st2) else
    '(success, evs, r', f') <- lha_reader_extract junk (cs_reader st2) (cs_fs st2) (Some filename) true ;;
    let st3 := put_out (set_fs (set_reader st2 r') f') (progress_output o filename s_melting evs) in
    let st4 :=
      if negb (lha_reader_current_is_fake r') && (o_quiet o <? 2) then
        if invoked evs then put_out st3 (print_filename filename (if success then s_melted else s_failure) ++ [10])
        else match h_symlink_target h with
             | Some t => put_out st3 (print_symlink_line filename t)
             | None => st3
             end
      else st3 in
    Ok (RVal success, st4).

  (* the loops "for (;;) { header = lha_filter_next_file(filter); if (header == NULL) break; ... }":
     state = (result, process) *)
  Definition next_header (f : lha_filter) (st : cli_state) : outcome (option header * cli_state) :=
    '(h, r') <- filter_next_file mktime f (cs_reader st) ;;
    Ok (h, set_reader st r').

  (* test_file_crc *)
  Definition test_file_crc_step (f : lha_filter) (s : bool * cli_state)
    : outcome ((bool * cli_state) + (res bool * cli_state)) :=
    let '(result, st) := s in
    '(h, st1) <- next_header f st ;;
    match h with
    | None => Ok (inr (RVal result, st1))
    | Some hd =>
      r <- test_archived_file_crc hd st1 ;;
      match r with
      | (RExit c, st2) => Ok (inr (RExit c, st2))
      | (RVal ok, st2) => Ok (inl (if ok then result else false, st2))
      end
    end.
  Definition test_file_crc (f : lha_filter) (st : cli_state) : outcome (res bool * cli_state) :=
    loop (test_file_crc_step f) 40 (true, st).

  (* extract_archive_dry_run *)
  Definition dry_run_step (f : lha_filter) (s : bool * cli_state)
    : outcome ((bool * cli_state) + (res bool * cli_state)) :=
    let '(result, st) := s in
    '(h, st1) <- next_header f st ;;
    match h with
    | None => Ok (inr (RVal result, st1))
    | Some hd =>
      let filename := file_full_path hd (cs_opts st1) in
      let st2 := put_out st1 (safe_printf (s_extract ++ filename)) in
      r <- (match h_symlink_target hd with
            | Some t => Ok (RVal tt, put_out st2 (safe_printf (s_bar ++ t ++ s_directory)))
            | None =>
              if is_dir_type hd then Ok (RVal tt, put_out st2 (safe_printf s_directory))
              else LET ex, st3 <== file_exists filename st2 ;;
                   Ok (RVal tt, if ex then put_out st3 (safe_printf s_file_is_exist) else st3)
            end) ;;
      match r with
      | (RExit c, st3) => Ok (inr (RExit c, st3))
      | (RVal _, st3) => Ok (inl (result, put_out st3 [10]))
      end
    end.
  Definition extract_archive_dry_run (f : lha_filter) (st : cli_state) : outcome (res bool * cli_state) :=
    loop (dry_run_step f) 40 (true, st).

  (* extract_archive *)
  Definition extract_archive_step (f : lha_filter) (s : bool * cli_state)
    : outcome ((bool * cli_state) + (res bool * cli_state)) :=
    let '(result, st) := s in
    '(h, st1) <- next_header f st ;;
    match h with
    | None => Ok (inr (RVal result, st1))
    | Some hd =>
      r <- extract_archived_file hd st1 ;;
      match r with
      | (RExit c, st2) => Ok (inr (RExit c, st2))
      | (RVal ok, st2) => Ok (inl (if ok then result else false, st2))
      end
    end.
  Definition extract_archive (f : lha_filter) (st : cli_state) : outcome (res bool * cli_state) :=
    if o_dry_run (cs_opts st) then extract_archive_dry_run f st
    else loop (extract_archive_step f) 40 (true, st).

  (* print_archived_file: buf[512]; fwrite to stdout never fails here *)
  Definition print_file_step (st : cli_state) : outcome (cli_state + cli_state) :=
    '(bytes, _, r') <- lha_reader_read junk (cs_reader st) 512 ;;
    match bytes with
    | [] => Ok (inr (set_reader st r'))
    | _ => Ok (inl (put_out (set_reader st r') bytes))
    end.
  Definition print_archived_file (st : cli_state) : outcome (bool * cli_state) :=
    st' <- loop print_file_step 40 st ;;
    Ok (true, st').

  (* print_archive *)
  Definition print_archive_step (f : lha_filter) (st : cli_state)
    : outcome (cli_state + (res bool * cli_state)) :=
    '(h, st1) <- next_header f st ;;
    match h with
    | None => Ok (inr (RVal true, st1))
    | Some hd =>
      let is_normal_file := negb (is_dir_type hd) in
      let o := cs_opts st1 in
      let st2 :=
        if o_quiet o <? 2 then
          let full_path := file_full_path hd o in
          match h_symlink_target hd with
          | Some t => put_out st1 (print_symlink_line full_path t)
          | None => if is_normal_file
                    then put_out st1 (s_banner_top ++ safe_printf full_path ++ s_banner_bottom)
                    else st1
          end
        else st1 in
      if is_normal_file then
        '(ok, st3) <- print_archived_file st2 ;;
        if negb ok then Ok (inr (RVal false, st3)) else Ok (inl st3)
      else Ok (inl st2)
    end.
  Definition print_archive (f : lha_filter) (st : cli_state) : outcome (res bool * cli_state) :=
    if o_dry_run (cs_opts st) then extract_archive_dry_run f st
    else loop (print_archive_step f) 40 st.
End Extract.
